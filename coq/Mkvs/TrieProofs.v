(* Proofs about the trie model: well-formedness is preserved, contents are the
   sorted-association-list update, the shape is canonical. *)
From Verif Require Import Lib.Base Mkvs.Trie Mkvs.BitsProofs Mkvs.AlistProofs.

(* ------------------------------------------------------------------ *)
(* keys below a well-formed subtree                                     *)
(* ------------------------------------------------------------------ *)
Lemma wf_keys t : forall p k v,
  wf_at p t -> In (k, v) (contents t) -> valid_bytes k /\ is_prefix p (bits_of k).
Proof.
  induction t as [|k0 v0|lbl lf l IHl r IHr]; intros p k v Hwf Hin.
  - destruct Hin.
  - cbn in Hin. destruct Hin as [[= <- <-]|[]]. exact Hwf.
  - cbn [wf_at] in Hwf. destruct Hwf as (Hlf & Hl & Hr & Hsl & Hsr & Hc).
    cbn [contents] in Hin. apply in_app_or in Hin as [Hin|Hin]; [|apply in_app_or in Hin as [Hin|Hin]].
    + destruct lf as [[k1 v1]|]; cbn in Hin; [|tauto]. destruct Hin as [[= <- <-]|[]].
      destruct Hlf as [Hv Hb]. split; auto. rewrite Hb. apply is_prefix_app.
    + destruct (IHl _ _ _ Hl Hin) as [Hv Hp]. split; auto.
      eapply is_prefix_trans; [apply is_prefix_app|exact Hp].
    + destruct (IHr _ _ _ Hr Hin) as [Hv Hp]. split; auto.
      eapply is_prefix_trans; [apply is_prefix_app|exact Hp].
Qed.

Lemma wf_node_keys p lbl lf l r k v :
  wf_at p (Node lbl lf l r) -> In (k, v) (contents (Node lbl lf l r)) ->
  is_prefix (p ++ lbl) (bits_of k).
Proof.
  intros Hwf Hin. cbn [wf_at] in Hwf. destruct Hwf as (Hlf & Hl & Hr & Hsl & Hsr & Hc).
  cbn [contents] in Hin. apply in_app_or in Hin as [Hin|Hin]; [|apply in_app_or in Hin as [Hin|Hin]].
  - destruct lf as [[k1 v1]|]; cbn in Hin; [|tauto]. destruct Hin as [[= <- <-]|[]].
    destruct Hlf as [Hv Hb]. rewrite Hb. apply is_prefix_refl.
  - apply (wf_keys _ _ _ _ Hl Hin).
  - apply (wf_keys _ _ _ _ Hr Hin).
Qed.

Lemma starts_keys t q b k v :
  wf_at q t -> starts q b t -> In (k, v) (contents t) -> is_prefix (q ++ [b]) (bits_of k).
Proof.
  destruct t as [|k0 v0|lbl lf l r]; intros Hwf Hs Hin.
  - destruct Hin.
  - cbn in Hin. destruct Hin as [[= <- <-]|[]]. exact Hs.
  - cbn [starts] in Hs. destruct Hs as [s ->].
    pose proof (wf_node_keys _ _ _ _ _ _ _ Hwf Hin) as Hp.
    eapply is_prefix_trans; [|exact Hp]. exists s. now rewrite <- app_assoc.
Qed.

Lemma wf_present_len t p : wf_at p t -> (present t <= length (contents t))%nat.
Proof.
  revert p; induction t as [|k0 v0|lbl lf l IHl r IHr]; intros p Hwf; cbn; try lia.
  cbn [wf_at] in Hwf. destruct Hwf as (Hlf & Hl & Hr & Hsl & Hsr & Hc).
  specialize (IHl _ Hl). specialize (IHr _ Hr). rewrite !app_length.
  destruct lf; cbn in *; lia.
Qed.
Lemma wf_node_len p lbl lf l r :
  wf_at p (Node lbl lf l r) -> (2 <= length (contents (Node lbl lf l r)))%nat.
Proof.
  intros Hwf. cbn [wf_at] in Hwf. destruct Hwf as (Hlf & Hl & Hr & Hsl & Hsr & Hc).
  pose proof (wf_present_len _ _ Hl). pose proof (wf_present_len _ _ Hr).
  cbn [contents]. rewrite !app_length. destruct lf; cbn in *; lia.
Qed.

(* ------------------------------------------------------------------ *)
(* contents are strictly ascending in byte order                        *)
(* ------------------------------------------------------------------ *)
Lemma key_lt_bits k1 v1 k2 v2 :
  valid_bytes k1 -> valid_bytes k2 -> pcmp (bits_of k1) (bits_of k2) = Lt -> key_lt (k1, v1) (k2, v2).
Proof. intros H1 H2 H. unfold key_lt; cbn. now rewrite bytes_cmp_bits. Qed.

Lemma prefix_bit_form q b k : is_prefix (q ++ [b]) k -> exists s, k = q ++ b :: s.
Proof. intros [s ->]. exists s. now rewrite <- app_assoc. Qed.

Lemma contents_sorted_at t : forall p, wf_at p t -> sorted (contents t).
Proof.
  induction t as [|k0 v0|lbl lf l IHl r IHr]; intros p Hwf.
  - exact I.
  - cbn. auto.
  - pose proof Hwf as Hwf0.
    cbn [wf_at] in Hwf. destruct Hwf as (Hlf & Hl & Hr & Hsl & Hsr & Hc).
    cbn [contents]. apply sorted_app; [|apply sorted_app|]; eauto.
    + destruct lf as [[k1 v1]|]; cbn; auto.
    + intros [k1 v1] [k2 v2] H1 H2.
      destruct (wf_keys _ _ _ _ Hl H1) as [V1 _]. destruct (wf_keys _ _ _ _ Hr H2) as [V2 _].
      apply key_lt_bits; auto.
      destruct (prefix_bit_form _ _ _ (starts_keys _ _ _ _ _ Hl Hsl H1)) as [s1 ->].
      destruct (prefix_bit_form _ _ _ (starts_keys _ _ _ _ _ Hr Hsr H2)) as [s2 ->].
      apply pcmp_branch_lt.
    + intros [k1 v1] [k2 v2] H1 H2.
      destruct lf as [[k3 v3]|]; cbn in H1; [|tauto]. destruct H1 as [[= -> ->]|[]].
      destruct Hlf as [V1 Hb]. apply in_app_or in H2 as [H2|H2].
      * destruct (wf_keys _ _ _ _ Hl H2) as [V2 _]. apply key_lt_bits; auto. rewrite Hb.
        destruct (prefix_bit_form _ _ _ (starts_keys _ _ _ _ _ Hl Hsl H2)) as [s2 ->].
        apply pcmp_prefix_lt.
      * destruct (wf_keys _ _ _ _ Hr H2) as [V2 _]. apply key_lt_bits; auto. rewrite Hb.
        destruct (prefix_bit_form _ _ _ (starts_keys _ _ _ _ _ Hr Hsr H2)) as [s2 ->].
        apply pcmp_prefix_lt.
Qed.

(* ------------------------------------------------------------------ *)
(* insert                                                               *)
(* ------------------------------------------------------------------ *)
Definition insert_post (p : path) (k v : bytes) (t t' : tree) : Prop :=
  wf_at p t' /\
  (forall b, is_prefix (p ++ [b]) (bits_of k) -> starts p b t -> starts p b t') /\
  In (k, v) (contents t') /\
  (forall e, In e (contents t') -> e = (k, v) \/ In e (contents t)) /\
  (forall e, In e (contents t) -> fst e <> k -> In e (contents t')) /\
  present t' = 1%nat.

Local Ltac inapp :=
  repeat (cbn [contents lf_contents In app fst snd] in *; rewrite ?in_app_iff in * ).

Lemma wf_node_intro p lbl lf l r :
  match lf with None => True | Some (k, _) => valid_bytes k /\ bits_of k = p ++ lbl end ->
  wf_at (p ++ lbl) l -> wf_at (p ++ lbl) r ->
  starts (p ++ lbl) false l -> starts (p ++ lbl) true r ->
  (2 <= present_lf lf + present l + present r)%nat -> wf_at p (Node lbl lf l r).
Proof. intros. cbn [wf_at]. auto 10. Qed.

Local Ltac fin :=
  repeat split; eauto; try lia;
  try solve [apply is_prefix_app];
  try solve [rewrite app_assoc; apply is_prefix_app];
  try solve [intros ? ? ? ; eauto];
  try solve [intros ? ?; inapp; intuition (subst; auto)];
  try solve [intros ? ? ?; inapp; intuition (subst; auto)].

Lemma insert_spec t : forall p k v,
  valid_bytes k -> is_prefix p (bits_of k) -> wf_at p t ->
  insert_post p k v t (insert (length p) k v t).
Proof.
  induction t as [|k' v'|lbl lf l IHl r IHr]; intros p k v Hvk [kr Hk] Hwf.
  - (* Nil *)
    cbn [insert]. unfold insert_post. cbn. repeat split; auto.
    + now exists kr.
    + intros e [<-|[]]. auto.
  - (* Leaf *)
    cbn [insert]. destruct Hwf as [Hvk' [kr' Hk']].
    destruct (bytes_eqb k' k) eqn:E.
    + apply bytes_eqb_eq in E. subst k'. unfold insert_post. cbn. repeat split; auto.
      * now exists kr.
      * intros e [<-|[]]. auto.
      * intros [k1 v1] [[= <- <-]|[]] Hn. cbn in Hn. congruence.
    + apply bytes_eqb_neq in E.
      assert (kr' <> kr) as Hne.
      { intros ->. apply E. apply bits_of_inj; auto. congruence. }
      rewrite Hk, Hk', !skipn_len_app.
      destruct (lcp_split kr' kr) as (c & a' & b' & -> & -> & Hl & Hd).
      rewrite <- Hl. rewrite firstn_len_app, len_app_eqb_nil, len_app_eqb_nil.
      assert (forall x s, is_prefix ((p ++ c) ++ [x]) (p ++ c ++ x :: s)) as Hpx.
      { intros x s. exists s. now rewrite <- !app_assoc. }
      assert (forall b, is_prefix (p ++ [b]) (p ++ c ++ b') -> is_prefix (p ++ [b]) (p ++ c ++ a') ->
                 exists s, c = b :: s) as Hst.
      { intros b [s1 H1] [s2 H2]. rewrite <- app_assoc in H1, H2.
        apply app_inv_head in H1, H2. destruct c as [|x c].
        - cbn in H1, H2. subst a' b'. exfalso. now apply Hd.
        - injection H1 as -> _. eauto. }
      unfold insert_post.
      destruct b' as [|y b'].
      * (* inserted key is a prefix of the existing one *)
        destruct a' as [|x a']; [exfalso; apply Hne; reflexivity|].
        rewrite bit_app_mid.
        assert (wf_at (p ++ c) (Leaf k' v') /\ starts (p ++ c) x (Leaf k' v')) as [W S].
        { cbn. rewrite Hk'. split; [split; auto|].
          - exists (x :: a'). now rewrite app_assoc.
          - apply Hpx. }
        rewrite app_nil_r in *.
        destruct x; cbn [wf_at starts present present_lf]; rewrite ?Hk, ?Hk'; inapp; fin.
      * destruct a' as [|x a'].
        -- (* existing key is a prefix of the inserted one *)
           rewrite bit_app_mid.
           assert (wf_at (p ++ c) (Leaf k v) /\ starts (p ++ c) y (Leaf k v)) as [W S].
           { cbn. rewrite Hk. split; [split; auto|].
             - exists (y :: b'). now rewrite app_assoc.
             - apply Hpx. }
           rewrite app_nil_r in *.
           destruct y; cbn [wf_at starts present present_lf]; rewrite ?Hk, ?Hk'; inapp; fin.
        -- (* the keys diverge *)
           rewrite bit_app_mid.
           assert (wf_at (p ++ c) (Leaf k v) /\ starts (p ++ c) y (Leaf k v)) as [W S].
           { cbn. rewrite Hk. split; [split; auto|].
             - exists (y :: b'). now rewrite app_assoc.
             - apply Hpx. }
           assert (wf_at (p ++ c) (Leaf k' v') /\ starts (p ++ c) x (Leaf k' v')) as [W' S'].
           { cbn. rewrite Hk'. split; [split; auto|].
             - exists (x :: a'). now rewrite app_assoc.
             - apply Hpx. }
           destruct y, x; try (exfalso; now apply Hd);
             cbn [wf_at starts present present_lf]; rewrite ?Hk, ?Hk'; inapp; fin.
  - (* Node *)
    cbn [insert]. pose proof Hwf as Hwf0.
    cbn [wf_at] in Hwf. destruct Hwf as (Hlf & Hl & Hr & Hsl & Hsr & Hc).
    rewrite Hk, skipn_len_app.
    destruct (lcp_split lbl kr) as (c & a' & b' & -> & -> & Hlen & Hd).
    rewrite <- Hlen. rewrite len_eqb_app_nil.
    destruct a' as [|x a'].
    + (* the label matched *)
      rewrite app_nil_r in *.
      rewrite <- app_length. rewrite app_assoc. rewrite len_app_eqb_nil.
      destruct b' as [|y b'].
      * (* key ends here *)
        unfold insert_post. cbn [wf_at starts present present_lf]. rewrite Hk, app_nil_r. inapp.
        repeat split; auto; try lia.
        -- destruct lf; cbn [present_lf] in Hc; lia.
        -- intros e He. inapp. intuition.
        -- intros e He Hn. inapp. destruct He as [He|He]; [|auto].
           destruct lf as [[k1 v1]|]; cbn in He; [|tauto]. destruct He as [<-|[]].
           cbn in Hn. destruct Hlf as [V1 B1]. exfalso. apply Hn.
           apply bits_of_inj; auto. rewrite B1, Hk. now rewrite app_nil_r.
      * rewrite bit_app_mid.
        assert (is_prefix (p ++ c) (bits_of k)) as Hq.
        { rewrite Hk. exists (y :: b'). now rewrite app_assoc. }
        assert (is_prefix ((p ++ c) ++ [y]) (bits_of k)) as Hqy.
        { rewrite Hk. exists b'. now rewrite <- !app_assoc. }
        destruct y.
        -- destruct (IHr (p ++ c) k v Hvk Hq Hr) as (W & S & I1 & I2 & I3 & P).
           unfold insert_post. cbn [wf_at starts present present_lf]. inapp.
           repeat split; auto; try lia.
           ++ rewrite P. assert (present r <= 1)%nat by (destruct r; cbn; lia). lia.
           ++ intros e He. inapp. destruct He as [He|[He|He]]; auto. destruct (I2 _ He); auto.
           ++ intros e He Hn. inapp. destruct He as [He|[He|He]]; auto.
        -- destruct (IHl (p ++ c) k v Hvk Hq Hl) as (W & S & I1 & I2 & I3 & P).
           unfold insert_post. cbn [wf_at starts present present_lf]. inapp.
           repeat split; auto; try lia.
           ++ rewrite P. assert (present l <= 1)%nat by (destruct l; cbn; lia). lia.
           ++ intros e He. inapp. destruct He as [He|[He|He]]; auto. destruct (I2 _ He); auto.
           ++ intros e He Hn. inapp. destruct He as [He|[He|He]]; auto.
    + (* split the edge *)
      rewrite firstn_len_app, skipn_len_app, len_app_eqb_nil.
      assert (wf_at (p ++ c) (Node (x :: a') lf l r)) as Wold.
      { cbn [wf_at]. rewrite <- app_assoc. repeat split; auto. }
      assert (forall b, (exists s, c ++ x :: a' = b :: s) -> is_prefix (p ++ [b]) (p ++ c ++ b') ->
                 exists s, c = b :: s) as Hst.
      { intros b [s1 H1] [s2 H2]. rewrite <- app_assoc in H2.
        apply app_inv_head in H2. destruct c as [|z c].
        - cbn in H1, H2. injection H1 as -> _. destruct b' as [|y b']; [discriminate|].
          injection H2 as -> _. exfalso. now apply Hd.
        - injection H1 as -> _. eauto. }
      unfold insert_post. rewrite ?Hk. change (bit (x :: a') 0) with x.
      assert (starts (p ++ c) x (Node (x :: a') lf l r)) as Sold by (cbn; eauto).
      destruct b' as [|y b'].
      * rewrite app_nil_r in *.
        destruct x; cbv iota;
          (split; [apply wf_node_intro; cbn [present present_lf starts]; rewrite ?Hk; auto; lia|]);
          cbn [starts present]; inapp; fin.
      * rewrite bit_app_mid.
        assert (wf_at (p ++ c) (Leaf k v) /\ starts (p ++ c) y (Leaf k v)) as [W S].
        { cbn. rewrite Hk. split; [split; auto|].
          - exists (y :: b'). now rewrite app_assoc.
          - exists b'. now rewrite <- !app_assoc. }
        destruct y, x; try (exfalso; now apply Hd); cbv iota;
          (split; [apply wf_node_intro; cbn [present present_lf]; rewrite ?Hk; auto; lia|]);
          cbn [starts present]; inapp; fin.
Qed.
(* ------------------------------------------------------------------ *)
(* remove                                                               *)
(* ------------------------------------------------------------------ *)
Definition ctree (x : tree * bool * option bytes) : tree := fst (fst x).
Definition cflag (x : tree * bool * option bytes) : bool := snd (fst x).
Definition cex (x : tree * bool * option bytes) : option bytes := snd x.

Lemma collapse_contents lbl lf l r ch ex :
  contents (ctree (collapse lbl lf l r ch ex)) = lf_contents lf ++ contents l ++ contents r.
Proof.
  unfold collapse, ctree.
  destruct lf as [[k0 v0]|], l as [|kl vl|ll lfl l1 l2], r as [|kr vr|lr lfr r1 r2];
    cbn [fst snd contents lf_contents app]; rewrite ?app_nil_r; reflexivity.
Qed.

Lemma collapse_ex lbl lf l r ch ex : cex (collapse lbl lf l r ch ex) = ex.
Proof.
  unfold collapse, cex.
  destruct lf as [[k0 v0]|], l as [|kl vl|ll lfl l1 l2], r as [|kr vr|lr lfr r1 r2]; reflexivity.
Qed.

Lemma collapse_flag_true lbl lf l r ex : cflag (collapse lbl lf l r true ex) = true.
Proof.
  unfold collapse, cflag.
  destruct lf as [[k0 v0]|], l as [|kl vl|ll lfl l1 l2], r as [|kr vr|lr lfr r1 r2]; reflexivity.
Qed.

Lemma collapse_canon lbl lf l r ch ex :
  (2 <= present_lf lf + present l + present r)%nat ->
  collapse lbl lf l r ch ex = (Node lbl lf l r, ch, ex).
Proof.
  unfold collapse.
  destruct lf as [[k0 v0]|], l as [|kl vl|ll lfl l1 l2], r as [|kr vr|lr lfr r1 r2];
    cbn [present present_lf]; intros H; try lia; reflexivity.
Qed.

Lemma wf_at_weaken_leaf p s k v : wf_at (p ++ s) (Leaf k v) -> wf_at p (Leaf k v).
Proof.
  cbn. intros [Hv Hp]. split; auto. eapply is_prefix_trans; [apply is_prefix_app|exact Hp].
Qed.
Lemma wf_at_merge p lbl lbl' lf l r :
  wf_at (p ++ lbl) (Node lbl' lf l r) -> wf_at p (Node (lbl ++ lbl') lf l r).
Proof. cbn [wf_at]. now rewrite app_assoc. Qed.

Lemma collapse_wf p lbl lf l r ch ex :
  match lf with None => True | Some (k, _) => valid_bytes k /\ bits_of k = p ++ lbl end ->
  wf_at (p ++ lbl) l -> wf_at (p ++ lbl) r ->
  starts (p ++ lbl) false l -> starts (p ++ lbl) true r ->
  wf_at p (ctree (collapse lbl lf l r ch ex)).
Proof.
  intros Hlf Hl Hr Hsl Hsr. unfold collapse, ctree.
  destruct lf as [[k0 v0]|], l as [|kl vl|ll lfl l1 l2], r as [|kr vr|lr lfr r1 r2];
    cbn [fst snd];
    try (apply wf_node_intro; cbn [present present_lf]; auto; lia);
    try (eapply wf_at_weaken_leaf; eassumption);
    try (apply wf_at_merge; assumption);
    try exact I.
  destruct Hlf as [Hv Hb]. cbn. split; auto. rewrite Hb. apply is_prefix_app.
Qed.

Lemma collapse_starts p b lbl lf l r ch ex :
  wf_at p (Node lbl lf l r) ->
  (exists s, lbl = b :: s) ->
  forall lf' l' r',
    (forall e, In e (lf_contents lf') -> In e (lf_contents lf)) ->
    (forall e, In e (contents l') -> In e (contents l)) ->
    (forall e, In e (contents r') -> In e (contents r)) ->
    starts p b (ctree (collapse lbl lf' l' r' ch ex)).
Proof.
  intros Hwf [s ->] lf' l' r' Hif Hil Hir.
  assert (forall k v, In (k, v) (lf_contents lf' ++ contents l' ++ contents r') ->
            is_prefix (p ++ [b]) (bits_of k)) as Hk.
  { intros k v Hin. eapply is_prefix_trans; [|eapply (wf_node_keys _ _ _ _ _ k v Hwf)].
    - exists s. now rewrite <- app_assoc.
    - cbn [contents]. rewrite !in_app_iff in *. intuition. }
  unfold collapse, ctree.
  destruct lf' as [[k0 v0]|], l' as [|kl vl|ll lfl l1 l2], r' as [|kr vr|lr lfr r1 r2];
    cbn [fst snd starts]; eauto;
    try solve [cbn; eauto];
    try solve [eapply Hk; cbn [lf_contents contents app]; rewrite ?in_app_iff; cbn; eauto 6].
Qed.

Lemma node_sides p lbl lf l r :
  wf_at p (Node lbl lf l r) -> forall k v,
  (In (k, v) (lf_contents lf) -> length (bits_of k) = length (p ++ lbl)) /\
  (In (k, v) (contents l) ->
     (length (p ++ lbl) < length (bits_of k))%nat /\ bit (bits_of k) (length (p ++ lbl)) = false) /\
  (In (k, v) (contents r) ->
     (length (p ++ lbl) < length (bits_of k))%nat /\ bit (bits_of k) (length (p ++ lbl)) = true).
Proof.
  intros Hwf k v. cbn [wf_at] in Hwf. destruct Hwf as (Hlf & Hl & Hr & Hsl & Hsr & Hc).
  split; [|split].
  - destruct lf as [[k0 v0]|]; cbn; [|tauto]. intros [[= <- <-]|[]]. destruct Hlf as [_ ->]. reflexivity.
  - intros H. pose proof (starts_keys _ _ _ _ _ Hl Hsl H) as Hp. split.
    + apply is_prefix_len in Hp. rewrite app_length in Hp. cbn in Hp. lia.
    + now apply is_prefix_bit.
  - intros H. pose proof (starts_keys _ _ _ _ _ Hr Hsr H) as Hp. split.
    + apply is_prefix_len in Hp. rewrite app_length in Hp. cbn in Hp. lia.
    + now apply is_prefix_bit.
Qed.

Definition remove_post (p : path) (k : bytes) (t : tree) (x : tree * bool * option bytes) : Prop :=
  wf_at p (ctree x) /\
  (forall b, starts p b t -> starts p b (ctree x)) /\
  (forall e, In e (contents (ctree x)) -> In e (contents t) /\ fst e <> k) /\
  (forall e, In e (contents t) -> fst e <> k -> In e (contents (ctree x))) /\
  match cex x with Some v => In (k, v) (contents t) | None => forall v, ~ In (k, v) (contents t) end /\
  cflag x = (match cex x with Some _ => true | None => false end) /\
  (cflag x = false -> ctree x = t).

Lemma remove_post_unchanged p k t :
  wf_at p t -> (forall v, ~ In (k, v) (contents t)) -> remove_post p k t (t, false, None).
Proof.
  unfold remove_post; cbn [ctree cflag cex fst snd]. intros W Hn.
  split; [exact W|]. split; [auto|]. split; [|split; [auto|split; [exact Hn|auto]]].
  intros [k1 v1] He. split; auto. cbn. intros ->. eapply Hn; eauto.
Qed.

Lemma remove_spec t : forall p k, wf_at p t -> remove_post p k t (remove (length p) k t).
Proof.
  induction t as [|k' v'|lbl lf l IHl r IHr]; intros p k Hwf.
  - cbn [remove]. apply remove_post_unchanged; auto.
  - cbn [remove]. destruct (bytes_eqb k' k) eqn:E.
    + apply bytes_eqb_eq in E. subst k'. unfold remove_post; cbn. repeat split; auto; try tauto; try discriminate.
      intros e [<-|[]] Hn. cbn in Hn. congruence.
    + apply bytes_eqb_neq in E. apply remove_post_unchanged; auto.
      intros v [[= -> _]|[]]. congruence.
  - cbn [remove]. pose proof Hwf as Hwf0.
    cbn [wf_at] in Hwf. destruct Hwf as (Hlf & Hl & Hr & Hsl & Hsr & Hc).
    pose proof (node_sides _ _ _ _ _ Hwf0) as Hside.
    rewrite <- app_length.
    destruct (length (bits_of k) <? length (p ++ lbl))%nat eqn:E1.
    + apply Nat.ltb_lt in E1. apply remove_post_unchanged; auto.
      intros v Hin. pose proof (wf_node_keys _ _ _ _ _ _ _ Hwf0 Hin) as Hp.
      apply is_prefix_len in Hp. lia.
    + apply Nat.ltb_ge in E1.
      destruct (length (bits_of k) =? length (p ++ lbl))%nat eqn:E2.
      * apply Nat.eqb_eq in E2.
        assert (forall v, ~ In (k, v) (contents l ++ contents r)) as Hnot.
        { intros v Hin. apply in_app_or in Hin as [Hin|Hin].
          - apply (Hside k v) in Hin. lia.
          - apply (Hside k v) in Hin. lia. }
        destruct lf as [[k0 v0]|].
        -- destruct (bytes_eqb k0 k) eqn:E3.
           ++ apply bytes_eqb_eq in E3. subst k0. unfold remove_post.
              rewrite collapse_contents, collapse_ex, collapse_flag_true.
              split; [apply collapse_wf; auto|].
              split; [intros b Hs; eapply collapse_starts; eauto; cbn; tauto|].
              cbn [contents lf_contents app In]. repeat split; auto.
              ** intros <-. destruct e as [k1 v1]. eapply Hnot; eauto.
              ** intros e [<-|He] Hn; [cbn in Hn; congruence|auto].
              ** discriminate.
           ++ apply bytes_eqb_neq in E3. rewrite collapse_canon by exact Hc.
              apply remove_post_unchanged; auto.
              intros v Hin. cbn in Hin. destruct Hin as [[= -> ->]|H]; [congruence|].
              eapply Hnot; eauto.
        -- rewrite collapse_canon by exact Hc.
           apply remove_post_unchanged; auto.
      * apply Nat.eqb_neq in E2.
        assert (length (p ++ lbl) < length (bits_of k))%nat as E3 by lia.
        destruct (bit (bits_of k) (length (p ++ lbl))) eqn:Eb.
        -- specialize (IHr (p ++ lbl) k Hr). destruct (remove (length (p ++ lbl)) k r) as [[r' c] e].
           destruct IHr as (W & S & I2 & I3 & X & F & U). cbn [ctree cflag cex fst snd] in *.
           destruct c.
           ++ destruct e as [v|]; [|discriminate]. unfold remove_post.
              rewrite collapse_contents, collapse_ex, collapse_flag_true.
              split; [apply collapse_wf; auto|].
              split; [intros b Hs; eapply collapse_starts; eauto; intros x Hx; apply I2; auto|].
              cbn [contents]. split; [|split; [|split; [|split; [reflexivity|discriminate]]]].
              ** intros [k1 v1] Hin. rewrite !in_app_iff in *. destruct Hin as [Hin|[Hin|Hin]].
                 --- split; auto. cbn. intros ->. apply (Hside k v1) in Hin. lia.
                 --- split; auto. cbn. intros ->. apply (Hside k v1) in Hin. destruct Hin; congruence.
                 --- apply I2 in Hin. tauto.
              ** intros x Hin Hn. rewrite !in_app_iff in *. intuition.
              ** rewrite !in_app_iff. auto.
           ++ destruct e as [v|]; [discriminate|]. rewrite (U eq_refl).
              rewrite collapse_canon by exact Hc. apply remove_post_unchanged; auto.
              intros v Hin. cbn [contents] in Hin. rewrite !in_app_iff in Hin. destruct Hin as [Hin|[Hin|Hin]].
              ** apply (Hside k v) in Hin. lia.
              ** apply (Hside k v) in Hin. destruct Hin; congruence.
              ** eapply X; eauto.
        -- specialize (IHl (p ++ lbl) k Hl). destruct (remove (length (p ++ lbl)) k l) as [[l' c] e].
           destruct IHl as (W & S & I2 & I3 & X & F & U). cbn [ctree cflag cex fst snd] in *.
           destruct c.
           ++ destruct e as [v|]; [|discriminate]. unfold remove_post.
              rewrite collapse_contents, collapse_ex, collapse_flag_true.
              split; [apply collapse_wf; auto|].
              split; [intros b Hs; eapply collapse_starts; eauto; intros x Hx; apply I2; auto|].
              cbn [contents]. split; [|split; [|split; [|split; [reflexivity|discriminate]]]].
              ** intros [k1 v1] Hin. rewrite !in_app_iff in *. destruct Hin as [Hin|[Hin|Hin]].
                 --- split; auto. cbn. intros ->. apply (Hside k v1) in Hin. lia.
                 --- apply I2 in Hin. tauto.
                 --- split; auto. cbn. intros ->. apply (Hside k v1) in Hin. destruct Hin; congruence.
              ** intros x Hin Hn. rewrite !in_app_iff in *. intuition.
              ** rewrite !in_app_iff. auto.
           ++ destruct e as [v|]; [discriminate|]. rewrite (U eq_refl).
              rewrite collapse_canon by exact Hc. apply remove_post_unchanged; auto.
              intros v Hin. cbn [contents] in Hin. rewrite !in_app_iff in Hin. destruct Hin as [Hin|[Hin|Hin]].
              ** apply (Hside k v) in Hin. lia.
              ** eapply X; eauto.
              ** apply (Hside k v) in Hin. destruct Hin; congruence.
Qed.
(* ------------------------------------------------------------------ *)
(* lookup                                                               *)
(* ------------------------------------------------------------------ *)
Lemma lookup_spec t : forall p k, wf_at p t ->
  match lookup (length p) k t with
  | Some v => In (k, v) (contents t)
  | None => forall v, ~ In (k, v) (contents t)
  end.
Proof.
  induction t as [|k' v'|lbl lf l IHl r IHr]; intros p k Hwf.
  - cbn. auto.
  - cbn [lookup]. destruct (bytes_eqb k' k) eqn:E.
    + apply bytes_eqb_eq in E. subst. cbn. auto.
    + apply bytes_eqb_neq in E. intros v [[= -> _]|[]]. congruence.
  - cbn [lookup]. pose proof Hwf as Hwf0.
    cbn [wf_at] in Hwf. destruct Hwf as (Hlf & Hl & Hr & Hsl & Hsr & Hc).
    pose proof (node_sides _ _ _ _ _ Hwf0) as Hside.
    rewrite <- app_length.
    destruct (length (bits_of k) =? length (p ++ lbl))%nat eqn:E2.
    + apply Nat.eqb_eq in E2.
      assert (forall v, ~ In (k, v) (contents l ++ contents r)) as Hnot.
      { intros v Hin. apply in_app_or in Hin as [Hin|Hin].
        - apply (Hside k v) in Hin. lia.
        - apply (Hside k v) in Hin. lia. }
      destruct lf as [[k0 v0]|].
      * destruct (bytes_eqb k0 k) eqn:E3.
        -- apply bytes_eqb_eq in E3. subst. cbn. auto.
        -- apply bytes_eqb_neq in E3. intros v Hin. cbn in Hin.
           destruct Hin as [[= -> ->]|H]; [congruence|]. eapply Hnot; eauto.
      * intros v Hin. cbn in Hin. eapply Hnot; eauto.
    + apply Nat.eqb_neq in E2.
      destruct (length (bits_of k) <? length (p ++ lbl))%nat eqn:E1.
      * apply Nat.ltb_lt in E1. intros v Hin.
        pose proof (wf_node_keys _ _ _ _ _ _ _ Hwf0 Hin) as Hp. apply is_prefix_len in Hp. lia.
      * apply Nat.ltb_ge in E1.
        destruct (bit (bits_of k) (length (p ++ lbl))) eqn:Eb.
        -- specialize (IHr (p ++ lbl) k Hr). destruct (lookup (length (p ++ lbl)) k r) as [v|].
           ++ cbn [contents]. rewrite !in_app_iff. auto.
           ++ intros v Hin. cbn [contents] in Hin. rewrite !in_app_iff in Hin. destruct Hin as [Hin|[Hin|Hin]].
              ** apply (Hside k v) in Hin. lia.
              ** apply (Hside k v) in Hin. destruct Hin; congruence.
              ** eapply IHr; eauto.
        -- specialize (IHl (p ++ lbl) k Hl). destruct (lookup (length (p ++ lbl)) k l) as [v|].
           ++ cbn [contents]. rewrite !in_app_iff. auto.
           ++ intros v Hin. cbn [contents] in Hin. rewrite !in_app_iff in Hin. destruct Hin as [Hin|[Hin|Hin]].
              ** apply (Hside k v) in Hin. lia.
              ** eapply IHl; eauto.
              ** apply (Hside k v) in Hin. destruct Hin; congruence.
Qed.

(* ------------------------------------------------------------------ *)
(* the shape is determined by the contents                              *)
(* ------------------------------------------------------------------ *)
Lemma filter_all {A} (f : A -> bool) l : (forall x, In x l -> f x = true) -> filter f l = l.
Proof.
  induction l as [|x l IH]; cbn; intros H; [reflexivity|].
  rewrite (H x (or_introl eq_refl)). f_equal. apply IH. intros; apply H; auto.
Qed.
Lemma filter_none {A} (f : A -> bool) l : (forall x, In x l -> f x = false) -> filter f l = [].
Proof.
  induction l as [|x l IH]; cbn; intros H; [reflexivity|].
  rewrite (H x (or_introl eq_refl)). apply IH. intros; apply H; auto.
Qed.

(* classes of a key relative to a branching point of depth n *)
Definition cls (n : nat) (e : bytes * bytes) : nat :=
  let b := bits_of (fst e) in
  if (length b =? n)%nat then 0%nat else if bit b n then 2%nat else 1%nat.

Lemma three_way_split {A} (f : A -> nat) a0 a1 a2 b0 b1 b2 :
  (forall x, In x a0 -> f x = 0%nat) -> (forall x, In x a1 -> f x = 1%nat) -> (forall x, In x a2 -> f x = 2%nat) ->
  (forall x, In x b0 -> f x = 0%nat) -> (forall x, In x b1 -> f x = 1%nat) -> (forall x, In x b2 -> f x = 2%nat) ->
  a0 ++ a1 ++ a2 = b0 ++ b1 ++ b2 -> a0 = b0 /\ a1 = b1 /\ a2 = b2.
Proof.
  intros A0 A1 A2 B0 B1 B2 E.
  assert (forall n, filter (fun x => Nat.eqb (f x) n) (a0 ++ a1 ++ a2) =
                    filter (fun x => Nat.eqb (f x) n) (b0 ++ b1 ++ b2)) as F by (intros; now rewrite E).
  repeat split.
  - specialize (F 0%nat). rewrite !filter_app in F.
    rewrite (filter_all _ a0), (filter_none _ a1), (filter_none _ a2),
            (filter_all _ b0), (filter_none _ b1), (filter_none _ b2) in F;
      try (intros x Hx; first [rewrite (A0 x Hx)|rewrite (A1 x Hx)|rewrite (A2 x Hx)|rewrite (B0 x Hx)|rewrite (B1 x Hx)|rewrite (B2 x Hx)]; reflexivity).
    now rewrite !app_nil_r in F.
  - specialize (F 1%nat). rewrite !filter_app in F.
    rewrite (filter_none _ a0), (filter_all _ a1), (filter_none _ a2),
            (filter_none _ b0), (filter_all _ b1), (filter_none _ b2) in F;
      try (intros x Hx; first [rewrite (A0 x Hx)|rewrite (A1 x Hx)|rewrite (A2 x Hx)|rewrite (B0 x Hx)|rewrite (B1 x Hx)|rewrite (B2 x Hx)]; reflexivity).
    now rewrite !app_nil_r in F.
  - specialize (F 2%nat). rewrite !filter_app in F.
    rewrite (filter_none _ a0), (filter_none _ a1), (filter_all _ a2),
            (filter_none _ b0), (filter_none _ b1), (filter_all _ b2) in F;
      try (intros x Hx; first [rewrite (A0 x Hx)|rewrite (A1 x Hx)|rewrite (A2 x Hx)|rewrite (B0 x Hx)|rewrite (B1 x Hx)|rewrite (B2 x Hx)]; reflexivity).
    exact F.
Qed.

Lemma node_cls p lbl lf l r :
  wf_at p (Node lbl lf l r) ->
  (forall x, In x (lf_contents lf) -> cls (length (p ++ lbl)) x = 0%nat) /\
  (forall x, In x (contents l) -> cls (length (p ++ lbl)) x = 1%nat) /\
  (forall x, In x (contents r) -> cls (length (p ++ lbl)) x = 2%nat).
Proof.
  intros Hwf. pose proof (node_sides _ _ _ _ _ Hwf) as Hs. unfold cls.
  split; [|split]; intros [k v] Hin; cbn [fst]; apply (Hs k v) in Hin.
  - rewrite Hin, Nat.eqb_refl. reflexivity.
  - destruct Hin as [Hlen Hb]. rewrite Hb. destruct (Nat.eqb_spec (length (bits_of k)) (length (p ++ lbl))); [lia|reflexivity].
  - destruct Hin as [Hlen Hb]. rewrite Hb. destruct (Nat.eqb_spec (length (bits_of k)) (length (p ++ lbl))); [lia|reflexivity].
Qed.

(* a branching point: either a key ends exactly there or two keys continue differently *)
Lemma node_branching p lbl lf l r :
  wf_at p (Node lbl lf l r) ->
  let q := p ++ lbl in
  (exists k v, In (k, v) (contents (Node lbl lf l r)) /\ bits_of k = q) \/
  (exists k1 v1 k2 v2, In (k1, v1) (contents (Node lbl lf l r)) /\ In (k2, v2) (contents (Node lbl lf l r)) /\
      is_prefix (q ++ [false]) (bits_of k1) /\ is_prefix (q ++ [true]) (bits_of k2)).
Proof.
  intros Hwf q. pose proof Hwf as Hwf0.
  cbn [wf_at] in Hwf. destruct Hwf as (Hlf & Hl & Hr & Hsl & Hsr & Hc).
  destruct lf as [[k0 v0]|].
  - left. exists k0, v0. cbn. split; auto. apply Hlf.
  - right. cbn [present_lf] in Hc.
    pose proof (wf_present_len _ _ Hl) as Ll. pose proof (wf_present_len _ _ Hr) as Lr.
    assert (present l = 1%nat /\ present r = 1%nat) as [Pl Pr] by (destruct l, r; cbn in *; lia).
    cbn [contents lf_contents app].
    assert (exists k1 v1, In (k1, v1) (contents l)) as (k1 & v1 & H1).
    { destruct (contents l) as [|[k1 v1] cl]; [cbn in Ll; lia|]. exists k1, v1. cbn; auto. }
    assert (exists k2 v2, In (k2, v2) (contents r)) as (k2 & v2 & H2).
    { destruct (contents r) as [|[k2 v2] cl]; [cbn in Lr; lia|]. exists k2, v2. cbn; auto. }
    exists k1, v1, k2, v2. rewrite !in_app_iff.
    split; [auto|]. split; [auto|]. subst q. split.
    + exact (starts_keys _ _ _ _ _ Hl Hsl H1).
    + exact (starts_keys _ _ _ _ _ Hr Hsr H2).
Qed.

Lemma branching_unique (C : list (bytes * bytes)) q1 q2 :
  (forall k v, In (k, v) C -> is_prefix q1 (bits_of k)) ->
  (forall k v, In (k, v) C -> is_prefix q2 (bits_of k)) ->
  ((exists k v, In (k, v) C /\ bits_of k = q1) \/
   (exists k1 v1 k2 v2, In (k1, v1) C /\ In (k2, v2) C /\
      is_prefix (q1 ++ [false]) (bits_of k1) /\ is_prefix (q1 ++ [true]) (bits_of k2))) ->
  is_prefix q1 q2 -> q1 = q2.
Proof.
  intros P1 P2 B [s ->]. destruct s as [|b s]; [now rewrite app_nil_r|]. exfalso.
  destruct B as [(k & v & Hin & Hb)|(k1 & v1 & k2 & v2 & H1 & H2 & F1 & F2)].
  - apply P2 in Hin. apply is_prefix_len in Hin. rewrite Hb, app_length in Hin. cbn in Hin. lia.
  - apply P2 in H1, H2.
    assert (is_prefix (q1 ++ [b]) (bits_of k1)) as G1.
    { eapply is_prefix_trans; [|exact H1]. exists s. now rewrite <- app_assoc. }
    assert (is_prefix (q1 ++ [b]) (bits_of k2)) as G2.
    { eapply is_prefix_trans; [|exact H2]. exists s. now rewrite <- app_assoc. }
    apply is_prefix_bit in F1, F2, G1, G2. destruct b; congruence.
Qed.

Lemma canonical_at t1 : forall p t2,
  wf_at p t1 -> wf_at p t2 -> contents t1 = contents t2 -> t1 = t2.
Proof.
  induction t1 as [|k1 v1|lbl1 lf1 l1 IHl r1 IHr]; intros p t2 W1 W2 E.
  - destruct t2 as [|k2 v2|lbl2 lf2 l2 r2]; [reflexivity|discriminate|].
    pose proof (wf_node_len _ _ _ _ _ W2) as L. rewrite <- E in L. cbn in L. lia.
  - destruct t2 as [|k2 v2|lbl2 lf2 l2 r2]; [discriminate|cbn in E; congruence|].
    pose proof (wf_node_len _ _ _ _ _ W2) as L. rewrite <- E in L. cbn in L. lia.
  - destruct t2 as [|k2 v2|lbl2 lf2 l2 r2].
    + pose proof (wf_node_len _ _ _ _ _ W1) as L. rewrite E in L. cbn in L. lia.
    + pose proof (wf_node_len _ _ _ _ _ W1) as L. rewrite E in L. cbn in L. lia.
    + assert (p ++ lbl1 = p ++ lbl2) as Hq.
      { pose proof (node_branching _ _ _ _ _ W1) as B1. pose proof (node_branching _ _ _ _ _ W2) as B2.
        cbn zeta in B1, B2.
        assert (forall k v, In (k, v) (contents (Node lbl1 lf1 l1 r1)) -> is_prefix (p ++ lbl1) (bits_of k)) as P1
          by (intros; eapply wf_node_keys; eauto).
        assert (forall k v, In (k, v) (contents (Node lbl1 lf1 l1 r1)) -> is_prefix (p ++ lbl2) (bits_of k)) as P2
          by (intros k v Hin; rewrite E in Hin; eapply wf_node_keys; eauto).
        rewrite <- E in B2.
        pose proof (wf_node_len _ _ _ _ _ W1) as L.
        destruct (contents (Node lbl1 lf1 l1 r1)) as [|[k0 v0] rest] eqn:EC; [cbn in L; lia|].
        destruct (prefix_comparable (p ++ lbl1) (p ++ lbl2) (bits_of k0)) as [Hp|Hp].
        - eapply P1; cbn; eauto.
        - eapply P2; cbn; eauto.
        - eapply branching_unique; eauto.
        - symmetry. eapply branching_unique; eauto. }
      apply app_inv_head in Hq. subst lbl2.
      pose proof (node_cls _ _ _ _ _ W1) as (A0 & A1 & A2).
      pose proof (node_cls _ _ _ _ _ W2) as (B0 & B1 & B2).
      cbn [contents] in E.
      destruct (three_way_split _ _ _ _ _ _ _ A0 A1 A2 B0 B1 B2 E) as (E0 & E1 & E2).
      cbn [wf_at] in W1, W2.
      destruct W1 as (_ & Wl1 & Wr1 & _). destruct W2 as (_ & Wl2 & Wr2 & _).
      f_equal.
      * destruct lf1 as [[? ?]|], lf2 as [[? ?]|]; cbn in E0; congruence.
      * eapply IHl; eauto.
      * eapply IHr; eauto.
Qed.
(* ------------------------------------------------------------------ *)
(* top-level statements                                                 *)
(* ------------------------------------------------------------------ *)
Lemma nil_is_prefix k : is_prefix [] k.
Proof. now exists k. Qed.

Theorem insert_wf t k v : valid_bytes k -> wf t -> wf (tinsert k v t).
Proof. intros Hv Hw. exact (proj1 (insert_spec t [] k v Hv (nil_is_prefix _) Hw)). Qed.

Theorem remove_wf t k : wf t -> wf (fst (fst (tremove k t))).
Proof. intros Hw. exact (proj1 (remove_spec t [] k Hw)). Qed.

Theorem contents_sorted t : wf t -> sorted (contents t).
Proof. apply contents_sorted_at. Qed.

Theorem insert_contents t k v :
  valid_bytes k -> wf t -> contents (tinsert k v t) = al_set k v (contents t).
Proof.
  intros Hv Hw. destruct (insert_spec t [] k v Hv (nil_is_prefix _) Hw) as (W & _ & I1 & I2 & I3 & _).
  pose proof (contents_sorted _ Hw) as S0. pose proof (contents_sorted_at _ _ W) as S1.
  apply sorted_ext; auto using al_set_sorted.
  intros e. rewrite al_set_in by assumption. split.
  - intros He. destruct (I2 _ He) as [->|Hin]; [auto|].
    destruct e as [k1 v1]. destruct (bytes_eqb k1 k) eqn:E.
    + apply bytes_eqb_eq in E. subst k1. left. f_equal.
      eapply sorted_key_unique; [exact S1| |]; eauto.
    + apply bytes_eqb_neq in E. right. auto.
  - intros [->|[Hn Hin]]; auto.
Qed.

Theorem remove_contents t k :
  wf t ->
  contents (fst (fst (tremove k t))) = al_del k (contents t) /\
  snd (tremove k t) = al_get k (contents t) /\
  snd (fst (tremove k t)) = (match al_get k (contents t) with Some _ => true | None => false end).
Proof.
  intros Hw. destruct (remove_spec t [] k Hw) as (W & _ & I2 & I3 & X & F & _).
  pose proof (contents_sorted _ Hw) as S0. pose proof (contents_sorted_at _ _ W) as S1.
  change (remove (length (@nil bool)) k t) with (tremove k t) in *. unfold ctree, cflag, cex in *.
  assert (snd (tremove k t) = al_get k (contents t)) as Hex.
  { destruct (snd (tremove k t)) as [v|].
    - symmetry. now apply al_get_in.
    - symmetry. now apply al_get_notin. }
  repeat split.
  - apply sorted_ext; auto using al_del_sorted.
    intros e. rewrite al_del_in by assumption. split.
    + intros He. apply I2 in He. tauto.
    + intros [Hn Hin]. auto.
  - exact Hex.
  - rewrite F, Hex. reflexivity.
Qed.

Theorem lookup_contents t k : wf t -> tlookup k t = al_get k (contents t).
Proof.
  intros Hw. pose proof (lookup_spec t [] k Hw) as L.
  change (lookup (length (@nil bool)) k t) with (tlookup k t) in L.
  pose proof (contents_sorted _ Hw) as S0.
  destruct (tlookup k t) as [v|].
  - symmetry. now apply al_get_in.
  - symmetry. now apply al_get_notin.
Qed.

Theorem canonical t1 t2 : wf t1 -> wf t2 -> contents t1 = contents t2 -> t1 = t2.
Proof. apply canonical_at. Qed.

(* ---------- operation histories ---------- *)
Definition op_valid (o : op) : Prop :=
  match o with OIns k _ => valid_bytes k | ORem _ => True end.

Lemma apply_op_wf t o : op_valid o -> wf t -> wf (apply_op t o).
Proof. destruct o as [k v|k]; cbn [apply_op op_valid]; intros Hv Hw; [now apply insert_wf|now apply remove_wf]. Qed.

Lemma apply_op_contents t o :
  op_valid o -> wf t -> contents (apply_op t o) = apply_op_spec (contents t) o.
Proof.
  destruct o as [k v|k]; cbn [apply_op op_valid apply_op_spec]; intros Hv Hw.
  - now apply insert_contents.
  - now apply remove_contents.
Qed.

Lemma run_from_spec ops : forall t,
  Forall op_valid ops -> wf t ->
  wf (fold_left apply_op ops t) /\
  contents (fold_left apply_op ops t) = fold_left apply_op_spec ops (contents t).
Proof.
  induction ops as [|o ops IH]; intros t Hv Hw; cbn [fold_left]; [auto|].
  inversion Hv as [|? ? Ho Hops]; subst.
  destruct (IH (apply_op t o) Hops (apply_op_wf _ _ Ho Hw)) as [W C].
  split; [exact W|]. rewrite C. now rewrite apply_op_contents.
Qed.

Theorem run_wf ops : Forall op_valid ops -> wf (run ops).
Proof. intros Hv. apply (run_from_spec ops Nil Hv I). Qed.

Theorem run_contents ops :
  Forall op_valid ops -> contents (run ops) = fold_left apply_op_spec ops [].
Proof. intros Hv. apply (run_from_spec ops Nil Hv I). Qed.

Theorem root_depends_only_on_contents ops1 ops2 :
  Forall op_valid ops1 -> Forall op_valid ops2 ->
  contents (run ops1) = contents (run ops2) ->
  run ops1 = run ops2 /\
  hash_expr (run ops1) = hash_expr (run ops2) /\
  forall H, root_hash H (run ops1) = root_hash H (run ops2).
Proof.
  intros H1 H2 E.
  assert (run ops1 = run ops2) as Et by (apply canonical; auto using run_wf).
  rewrite Et. auto.
Qed.

(* the same with the abstract maps: histories with equal final maps *)
Corollary root_depends_only_on_map ops1 ops2 :
  Forall op_valid ops1 -> Forall op_valid ops2 ->
  fold_left apply_op_spec ops1 [] = fold_left apply_op_spec ops2 [] ->
  forall H, root_hash H (run ops1) = root_hash H (run ops2).
Proof.
  intros H1 H2 E. apply root_depends_only_on_contents; auto.
  now rewrite !run_contents.
Qed.

(* ---------- non-vacuity ---------- *)
(* keys "", "a", "ab", "b" (empty key, prefix keys), two orders, with an
   interleaved remove / re-insert and an overwrite *)
Definition ex_ops1 : list op :=
  [OIns [] [1]; OIns [97] [2]; OIns [97; 98] [3]; OIns [98] [4]].
Definition ex_ops2 : list op :=
  [OIns [98] [9]; OIns [97; 98] [3]; ORem [98]; OIns [97] [2]; OIns [120] [7]; OIns [98] [4];
   ORem [120]; OIns [] [1]].
Example ex_ops_valid : Forall op_valid ex_ops1 /\ Forall op_valid ex_ops2.
Proof. split; repeat constructor; cbn; lia. Qed.
Example ex_same_contents : contents (run ex_ops1) = contents (run ex_ops2).
Proof. vm_compute. reflexivity. Qed.
Example ex_same_tree : run ex_ops1 = run ex_ops2.
Proof. apply root_depends_only_on_contents; [apply ex_ops_valid..|apply ex_same_contents]. Qed.
Example ex_shape :
  run ex_ops1 =
  Node [] (Some ([], [1]))
       (Node [false; true; true; false; false; false] None
             (Node [false; true] (Some ([97], [2])) (Leaf [97; 98] [3]) Nil)
             (Leaf [98] [4]))
       Nil.
Proof. vm_compute. reflexivity. Qed.
