(* Proofs about the trie model: well-formedness is preserved, contents are the
   sorted-association-list update, the shape is canonical. *)
From Verif Require Import Lib.Base Mkvs.Trie Mkvs.BitsProofs Mkvs.AlistProofs.

(* ------------------------------------------------------------------ *)
(* keys below a well-formed subtree                                     *)
(* ------------------------------------------------------------------ *)
Lemma wf_keys t : forall p k v,
  wf_at p t -> In (k, v) (contents t) -> valid_bytes k /\ is_prefix p (bits_of k).
Proof.
  induction t as [|k0 v0|lbl lf l IHl r IHr]; intros p k v Hwf Hin.
  - destruct Hin.
  - cbn in Hin. destruct Hin as [[= <- <-]|[]]. exact Hwf.
  - cbn [wf_at] in Hwf. destruct Hwf as (Hlf & Hl & Hr & Hsl & Hsr & Hc).
    cbn [contents] in Hin. apply in_app_or in Hin as [Hin|Hin]; [|apply in_app_or in Hin as [Hin|Hin]].
    + destruct lf as [[k1 v1]|]; cbn in Hin; [|tauto]. destruct Hin as [[= <- <-]|[]].
      destruct Hlf as [Hv Hb]. split; auto. rewrite Hb. apply is_prefix_app.
    + destruct (IHl _ _ _ Hl Hin) as [Hv Hp]. split; auto.
      eapply is_prefix_trans; [apply is_prefix_app|exact Hp].
    + destruct (IHr _ _ _ Hr Hin) as [Hv Hp]. split; auto.
      eapply is_prefix_trans; [apply is_prefix_app|exact Hp].
Qed.

Lemma wf_node_keys p lbl lf l r k v :
  wf_at p (Node lbl lf l r) -> In (k, v) (contents (Node lbl lf l r)) ->
  is_prefix (p ++ lbl) (bits_of k).
Proof.
  intros Hwf Hin. cbn [wf_at] in Hwf. destruct Hwf as (Hlf & Hl & Hr & Hsl & Hsr & Hc).
  cbn [contents] in Hin. apply in_app_or in Hin as [Hin|Hin]; [|apply in_app_or in Hin as [Hin|Hin]].
  - destruct lf as [[k1 v1]|]; cbn in Hin; [|tauto]. destruct Hin as [[= <- <-]|[]].
    destruct Hlf as [Hv Hb]. rewrite Hb. apply is_prefix_refl.
  - apply (wf_keys _ _ _ _ Hl Hin).
  - apply (wf_keys _ _ _ _ Hr Hin).
Qed.

Lemma starts_keys t q b k v :
  wf_at q t -> starts q b t -> In (k, v) (contents t) -> is_prefix (q ++ [b]) (bits_of k).
Proof.
  destruct t as [|k0 v0|lbl lf l r]; intros Hwf Hs Hin.
  - destruct Hin.
  - cbn in Hin. destruct Hin as [[= <- <-]|[]]. exact Hs.
  - cbn [starts] in Hs. destruct Hs as [s ->].
    pose proof (wf_node_keys _ _ _ _ _ _ _ Hwf Hin) as Hp.
    eapply is_prefix_trans; [|exact Hp]. exists s. now rewrite <- app_assoc.
Qed.

Lemma wf_present_len t p : wf_at p t -> (present t <= length (contents t))%nat.
Proof.
  revert p; induction t as [|k0 v0|lbl lf l IHl r IHr]; intros p Hwf; cbn; try lia.
  cbn [wf_at] in Hwf. destruct Hwf as (Hlf & Hl & Hr & Hsl & Hsr & Hc).
  specialize (IHl _ Hl). specialize (IHr _ Hr). rewrite !app_length.
  destruct lf; cbn in *; lia.
Qed.
Lemma wf_node_len p lbl lf l r :
  wf_at p (Node lbl lf l r) -> (2 <= length (contents (Node lbl lf l r)))%nat.
Proof.
  intros Hwf. cbn [wf_at] in Hwf. destruct Hwf as (Hlf & Hl & Hr & Hsl & Hsr & Hc).
  pose proof (wf_present_len _ _ Hl). pose proof (wf_present_len _ _ Hr).
  cbn [contents]. rewrite !app_length. destruct lf; cbn in *; lia.
Qed.

(* ------------------------------------------------------------------ *)
(* contents are strictly ascending in byte order                        *)
(* ------------------------------------------------------------------ *)
Lemma key_lt_bits k1 v1 k2 v2 :
  valid_bytes k1 -> valid_bytes k2 -> pcmp (bits_of k1) (bits_of k2) = Lt -> key_lt (k1, v1) (k2, v2).
Proof. intros H1 H2 H. unfold key_lt; cbn. now rewrite bytes_cmp_bits. Qed.

Lemma prefix_bit_form q b k : is_prefix (q ++ [b]) k -> exists s, k = q ++ b :: s.
Proof. intros [s ->]. exists s. now rewrite <- app_assoc. Qed.

Lemma contents_sorted_at t : forall p, wf_at p t -> sorted (contents t).
Proof.
  induction t as [|k0 v0|lbl lf l IHl r IHr]; intros p Hwf.
  - exact I.
  - cbn. auto.
  - pose proof Hwf as Hwf0.
    cbn [wf_at] in Hwf. destruct Hwf as (Hlf & Hl & Hr & Hsl & Hsr & Hc).
    cbn [contents]. apply sorted_app; [|apply sorted_app|]; eauto.
    + destruct lf as [[k1 v1]|]; cbn; auto.
    + intros [k1 v1] [k2 v2] H1 H2.
      destruct (wf_keys _ _ _ _ Hl H1) as [V1 _]. destruct (wf_keys _ _ _ _ Hr H2) as [V2 _].
      apply key_lt_bits; auto.
      destruct (prefix_bit_form _ _ _ (starts_keys _ _ _ _ _ Hl Hsl H1)) as [s1 ->].
      destruct (prefix_bit_form _ _ _ (starts_keys _ _ _ _ _ Hr Hsr H2)) as [s2 ->].
      apply pcmp_branch_lt.
    + intros [k1 v1] [k2 v2] H1 H2.
      destruct lf as [[k3 v3]|]; cbn in H1; [|tauto]. destruct H1 as [[= -> ->]|[]].
      destruct Hlf as [V1 Hb]. apply in_app_or in H2 as [H2|H2].
      * destruct (wf_keys _ _ _ _ Hl H2) as [V2 _]. apply key_lt_bits; auto. rewrite Hb.
        destruct (prefix_bit_form _ _ _ (starts_keys _ _ _ _ _ Hl Hsl H2)) as [s2 ->].
        apply pcmp_prefix_lt.
      * destruct (wf_keys _ _ _ _ Hr H2) as [V2 _]. apply key_lt_bits; auto. rewrite Hb.
        destruct (prefix_bit_form _ _ _ (starts_keys _ _ _ _ _ Hr Hsr H2)) as [s2 ->].
        apply pcmp_prefix_lt.
Qed.

