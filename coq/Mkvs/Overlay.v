(* Model of the tree-level API (tree.go / insert.go / remove.go / lookup.go:
   pendingWriteLog, Insert, Remove, RemoveExisting, Get, Commit, Close +
   NewWithRoot), of the specification iterator, and of overlays (overlay.go).
   Executable definitions only; proofs in Mkvs/OverlayProofs.v. *)
From Verif Require Import Lib.Base Mkvs.Trie.

Definition entry := (bytes * bytes)%type.

(* ---------- key sets (treeOverlay.dirty) ---------- *)
Fixpoint ks_mem (k : bytes) (s : list bytes) : bool :=
  match s with
  | [] => false
  | k0 :: r => bytes_eqb k0 k || ks_mem k r
  end.
(* the set is a plain list; membership is all that matters *)
Definition ks_add (k : bytes) (s : list bytes) : list bytes := k :: s.

(* ---------- pending write log: key -> Some v (written) | None (removed) ---------- *)
Definition plog := list (bytes * option bytes).
Fixpoint pl_get (k : bytes) (l : plog) : option (option bytes) :=
  match l with
  | [] => None
  | (k0, e) :: r => if bytes_eqb k0 k then Some e else pl_get k r
  end.
(* the newest entry shadows older ones *)
Definition pl_set (k : bytes) (e : option bytes) (l : plog) : plog := (k, e) :: l.

(* ---------- the tree object ---------- *)
Record tstate := mkT {
  tr : tree;            (* cache.pendingRoot                                   *)
  pl : plog;            (* tree.pendingWriteLog (unused when use_log = false)   *)
  use_log : bool;       (* false = mkvs.WithoutWriteLog()                       *)
  committed : tree      (* what the last Commit persisted (reopen target)       *)
}.
Definition t_init (use_log : bool) : tstate := mkT Nil [] use_log Nil.

(* tree.Insert, insert.go:12-51 *)
Definition t_insert (k v : bytes) (s : tstate) : tstate :=
  mkT (tinsert k v (tr s)) (if use_log s then pl_set k (Some v) (pl s) else pl s)
      (use_log s) (committed s).

(* tree.Get, lookup.go:15-35: the pending write log is consulted first *)
Definition t_get (k : bytes) (s : tstate) : option bytes :=
  match (if use_log s then pl_get k (pl s) else None) with
  | Some e => e
  | None => tlookup k (tr s)
  end.

(* tree.RemoveExisting, remove.go:11-47: early return when the key was already
   removed locally *)
Definition t_remove_existing (k : bytes) (s : tstate) : tstate * option bytes :=
  match (if use_log s then pl_get k (pl s) else None) with
  | Some None => (s, None)
  | _ =>
      let '(t', _, ex) := tremove k (tr s) in
      (mkT t' (if use_log s then pl_set k None (pl s) else pl s) (use_log s) (committed s), ex)
  end.
Definition t_remove (k : bytes) (s : tstate) : tstate := fst (t_remove_existing k s).

(* tree.Commit, commit.go:44-148 (hashing is C02's business) *)
Definition t_commit (s : tstate) : tstate := mkT (tr s) [] (use_log s) (tr s).
(* Close + NewWithRoot at the last committed root *)
Definition t_reopen (s : tstate) : tstate := mkT (committed s) [] (use_log s) (committed s).

(* ---------- specification iterator ---------- *)
(* entries with key >= k, ascending: what Seek(k) followed by Next* must yield *)
Fixpoint al_seek (k : bytes) (l : list entry) : list entry :=
  match l with
  | [] => []
  | (k0, v0) :: r =>
      match bytes_cmp k0 k with
      | Lt => al_seek k r
      | _ => l
      end
  end.
Definition t_iter (k : bytes) (s : tstate) : list entry := al_seek k (contents (tr s)).

(* ---------- overlays ---------- *)
Record overlay := mkO {
  ov : list entry;      (* treeOverlay.overlay (btree.Map, ordered by key) *)
  dirty : list bytes    (* treeOverlay.dirty                               *)
}.
Definition o_empty : overlay := mkO [] [].

(* a tree with a stack of overlays, top of the stack first *)
Definition store := (tstate * list overlay)%type.

(* overlay.go:49-58 Get, recursively through the inner trees *)
Fixpoint s_get (k : bytes) (s : tstate) (os : list overlay) : option bytes :=
  match os with
  | [] => t_get k s
  | o :: rest => if ks_mem k (dirty o) then al_get k (ov o) else s_get k s rest
  end.

(* overlay.go:42-46 Insert *)
Definition s_insert (k v : bytes) (st : store) : store :=
  match st with
  | (s, []) => (t_insert k v s, [])
  | (s, o :: rest) => (s, mkO (al_set k v (ov o)) (ks_add k (dirty o)) :: rest)
  end.

(* overlay.go:82-87 Remove *)
Definition s_remove (k : bytes) (st : store) : store :=
  match st with
  | (s, []) => (t_remove k s, [])
  | (s, o :: rest) => (s, mkO (al_del k (ov o)) (ks_add k (dirty o)) :: rest)
  end.

(* overlay.go:61-79 RemoveExisting *)
Definition s_remove_existing (k : bytes) (st : store) : store * option bytes :=
  match st with
  | (s, []) => let '(s', ex) := t_remove_existing k s in ((s', []), ex)
  | (s, o :: rest) =>
      if ks_mem k (dirty o) then
        ((s, mkO (al_del k (ov o)) (dirty o) :: rest), al_get k (ov o))
      else
        match s_get k s rest with
        | Some v => ((s, mkO (ov o) (ks_add k (dirty o)) :: rest), Some v)
        | None => ((s, o :: rest), None)
        end
  end.

(* overlay.go:115-138 Commit: all overlay items are inserted into the inner
   tree (in key order) and un-dirtied; the remaining dirty keys are removed
   (Go: map order; the model: list order -- removals of distinct keys commute).  The overlay stays, emptied. *)
Definition ks_remove_all (ks : list bytes) (ents : list entry) : list bytes :=
  filter (fun k => negb (match al_get k ents with Some _ => true | None => false end)) ks.
Definition s_commit_top (st : store) : store :=
  match st with
  | (s, []) => (s, [])
  | (s, o :: rest) =>
      let st1 := fold_left (fun a e => s_insert (fst e) (snd e) a) (ov o) (s, rest) in
      let st2 := fold_left (fun a k => s_remove k a) (ks_remove_all (dirty o) (ov o)) st1 in
      (fst st2, o_empty :: snd st2)
  end.

(* overlay.go:150-225 merged iterator.  [inner] = what the inner iterator
   still has to yield (current item first), [ovl] likewise for the overlay's
   own btree iterator. *)
Fixpoint skip_dirty (d : list bytes) (inner : list entry) : list entry :=
  match inner with
  | [] => []
  | (k, v) :: r => if ks_mem k d then skip_dirty d r else inner
  end.
(* one item of the merged stream after updateIteratorPosition (:190-212) *)
Definition merge_cur (inner ovl : list entry) : option entry :=
  match inner, ovl with
  | (ik, iv) :: _, [] => Some (ik, iv)
  | (ik, iv) :: _, (ok, ov) :: _ =>
      match bytes_cmp ik ok with Lt => Some (ik, iv) | _ => Some (ok, ov) end
  | [], (ok, ov) :: _ => Some (ok, ov)
  | [], [] => None
  end.
(* Next (:176-188): which iterator advances *)
Definition merge_step (inner ovl : list entry) : list entry * list entry :=
  match inner, ovl with
  | _ :: ir, [] => (ir, ovl)
  | (ik, _) :: ir, (ok, _) :: or_ =>
      match bytes_cmp ik ok with
      | Gt => (inner, or_)
      | _ => (ir, ovl)        (* inner key <= overlay key: inner.Next() *)
      end
  | [], _ :: or_ => ([], or_)
  | [], [] => ([], [])       (* !overlayValid: inner.Next() on an invalid iterator *)
  end.
Fixpoint merge_run (fuel : nat) (d : list bytes) (inner ovl : list entry) : list entry :=
  match fuel with
  | O => []
  | S f =>
      let inner := skip_dirty d inner in
      match merge_cur inner ovl with
      | None => []
      | Some e => let '(i', o') := merge_step inner ovl in e :: merge_run f d i' o'
      end
  end.
Definition merge_iter (d : list bytes) (inner ovl : list entry) : list entry :=
  merge_run (S (length inner + length ovl)) d inner ovl.

(* Seek(k) + Next* through the whole stack *)
Fixpoint s_iter (k : bytes) (s : tstate) (os : list overlay) : list entry :=
  match os with
  | [] => t_iter k s
  | o :: rest => merge_iter (dirty o) (s_iter k s rest) (al_seek k (ov o))
  end.

(* ---------- the abstract layered map ---------- *)
Definition apply_overlay (o : overlay) (m : list entry) : list entry :=
  fold_left (fun a e => al_set (fst e) (snd e) a) (ov o)
            (fold_left (fun a k => al_del k a) (dirty o) m).
Fixpoint s_abs (s : tstate) (os : list overlay) : list entry :=
  match os with
  | [] => contents (tr s)
  | o :: rest => apply_overlay o (s_abs s rest)
  end.

(* ---------- operation histories for C03 ---------- *)
Inductive sop :=
| SIns (k v : bytes)
| SRem (k : bytes)
| SRemEx (k : bytes)
| SGet (k : bytes)
| SIter (k : bytes) (n : nat)     (* Seek k, then up to n times Next; Rewind = Seek [] *)
| STreeCommit                     (* Tree.Commit on the underlying tree *)
| SReopen                         (* Close + NewWithRoot (only with an empty overlay stack) *)
| SPush                           (* NewOverlay(top) *)
| SOvCommit                       (* top.Commit(): top is emptied and stays *)
| SOvDiscard                      (* top.Close(), popped *)
| SOvCopy.                        (* top = top.Copy(nil); old top closed *)

Inductive sres :=
| RUnit
| RVal (v : option bytes)
| RIter (l : list entry).

Definition s_step (st : store) (o : sop) : store * sres :=
  match o with
  | SIns k v => (s_insert k v st, RUnit)
  | SRem k => (s_remove k st, RUnit)
  | SRemEx k => let '(st', ex) := s_remove_existing k st in (st', RVal ex)
  | SGet k => (st, RVal (s_get k (fst st) (snd st)))
  | SIter k n => (st, RIter (firstn (S n) (s_iter k (fst st) (snd st))))
  | STreeCommit => ((t_commit (fst st), snd st), RUnit)
  | SReopen => (match snd st with [] => (t_reopen (fst st), []) | _ => st end, RUnit)
  | SPush => ((fst st, o_empty :: snd st), RUnit)
  | SOvCommit => (s_commit_top st, RUnit)
  | SOvDiscard => ((fst st, tl (snd st)), RUnit)
  | SOvCopy => (st, RUnit)
  end.

Fixpoint s_run (st : store) (ops : list sop) : store * list sres :=
  match ops with
  | [] => (st, [])
  | o :: r =>
      let '(st1, res) := s_step st o in
      let '(st2, rs) := s_run st1 r in
      (st2, res :: rs)
  end.
