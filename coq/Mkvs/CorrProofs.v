(* The correspondence runner of C02 (histories WITH commit markers) is the
   model of the theorems: commits do not change the tree, the root reported at
   a commit is [root_hash] of the current tree. *)
From Verif Require Import Lib.Base Mkvs.Trie Mkvs.BitsProofs Mkvs.AlistProofs Mkvs.TrieProofs Mkvs.Overlay Mkvs.Corr.

Fixpoint cops_strip (ops : list cop) : list op :=
  match ops with
  | [] => []
  | CIns k v :: r => OIns k v :: cops_strip r
  | CRem k :: r => ORem k :: cops_strip r
  | CCommit :: r => cops_strip r
  | CCommitKnown _ :: r => cops_strip r
  end.

Lemma c02_go_tree tab ops : forall t,
  snd (c02_go tab t ops) = fold_left apply_op (cops_strip ops) t.
Proof.
  induction ops as [|[k v|k| |e] r IH]; intros t; cbn [c02_go cops_strip fold_left]; auto;
    try apply IH.
  - specialize (IH t). destruct (c02_go tab t r) as [hs t']. exact IH.
  - unfold commit_known. destruct (bytes_eqb (root_hash (tab_H tab) t) e);
      specialize (IH t); destruct (c02_go tab t r) as [hs t']; exact IH.
Qed.

(* the roots reported by a history that ends with a commit: the last one is the
   root of the final tree *)
Lemma c02_go_last_root tab ops : forall t,
  fst (c02_go tab t (ops ++ [CCommit])) =
  fst (c02_go tab t ops) ++ [root_hash (tab_H tab) (snd (c02_go tab t ops))].
Proof.
  induction ops as [|[k v|k| |e] r IH]; intros t; cbn [c02_go app fst snd]; auto.
  - specialize (IH t). destruct (c02_go tab t (r ++ [CCommit])) as [hs t'].
    destruct (c02_go tab t r) as [hs0 t0]. cbn [fst snd] in *. now rewrite IH.
  - unfold commit_known. destruct (bytes_eqb (root_hash (tab_H tab) t) e);
      specialize (IH t); destruct (c02_go tab t (r ++ [CCommit])) as [hs t'];
      destruct (c02_go tab t r) as [hs0 t0]; cbn [fst snd] in *; now rewrite IH.
Qed.

Theorem batching_irrelevant tab ops1 ops2 :
  Forall op_valid (cops_strip ops1) -> Forall op_valid (cops_strip ops2) ->
  contents (snd (c02_go tab Nil ops1)) = contents (snd (c02_go tab Nil ops2)) ->
  snd (c02_go tab Nil ops1) = snd (c02_go tab Nil ops2) /\
  last (fst (c02_go tab Nil (ops1 ++ [CCommit]))) [] = last (fst (c02_go tab Nil (ops2 ++ [CCommit]))) [].
Proof.
  intros V1 V2 E. rewrite !c02_go_tree in *. fold (run (cops_strip ops1)) in *. fold (run (cops_strip ops2)) in *.
  destruct (root_depends_only_on_contents _ _ V1 V2 E) as (Et & _ & _).
  split; [exact Et|]. rewrite !c02_go_last_root, !last_last, !c02_go_tree.
  fold (run (cops_strip ops1)). fold (run (cops_strip ops2)). now rewrite Et.
Qed.

(* ---------- histories with FAILED operations (extension of C02's quantifier:
   faults).  An operation that returns an error must leave the tree unchanged;
   in the functional model this is true by construction ([FFailed] is the
   identity) — the content of this extension is on the implementation side,
   where the harness injects node database read errors, retries the operation
   and compares with the fault-free twin.  Stated here so that the model of a
   faulted history is explicit. ---------- *)
Inductive fop := FOk (o : op) | FFailed (o : op).
Definition apply_fop (t : tree) (f : fop) : tree :=
  match f with FOk o => apply_op t o | FFailed _ => t end.
Definition run_f (fs : list fop) : tree := fold_left apply_fop fs Nil.
Definition succeeded (fs : list fop) : list op :=
  flat_map (fun f => match f with FOk o => [o] | FFailed _ => [] end) fs.

Lemma failed_op_leaves_tree t o : apply_fop t (FFailed o) = t.
Proof. reflexivity. Qed.

Lemma run_f_succeeded fs : forall t, fold_left apply_fop fs t = fold_left apply_op (succeeded fs) t.
Proof.
  induction fs as [|[o|o] r IH]; intros t; cbn [fold_left succeeded flat_map app]; auto;
    try apply IH.
Qed.

Theorem root_depends_only_on_contents_with_faults fs1 fs2 :
  Forall op_valid (succeeded fs1) -> Forall op_valid (succeeded fs2) ->
  contents (run_f fs1) = contents (run_f fs2) ->
  run_f fs1 = run_f fs2 /\ forall H, root_hash H (run_f fs1) = root_hash H (run_f fs2).
Proof.
  unfold run_f. rewrite !run_f_succeeded. intros V1 V2 E.
  destruct (root_depends_only_on_contents _ _ V1 V2 E) as (Et & _ & Eh). auto.
Qed.

(* ---------- CommitKnown ---------- *)
(* a CommitKnown never changes the tree; with the right root it returns what
   Commit returns, with a wrong one it fails *)
Lemma commit_known_tree H e t : fst (commit_known H e t) = t.
Proof. unfold commit_known. destruct (bytes_eqb (root_hash H t) e); reflexivity. Qed.
Lemma commit_known_ok H t : commit_known H (root_hash H t) t = (t, Some (snd (commit H t))).
Proof. unfold commit_known, commit. now rewrite bytes_eqb_refl. Qed.
Lemma commit_known_bad H e t : e <> root_hash H t -> snd (commit_known H e t) = None.
Proof.
  intros Hne. unfold commit_known. destruct (bytes_eqb (root_hash H t) e) eqn:E; [|reflexivity].
  apply bytes_eqb_eq in E. congruence.
Qed.

(* removing every (failed or successful) CommitKnown / Commit marker from a
   history changes neither the final tree nor, hence, any later root *)
Theorem commit_known_is_identity_on_tree tab ops :
  snd (c02_go tab Nil ops) = run (cops_strip ops).
Proof. apply c02_go_tree. Qed.

Fixpoint drop_known (ops : list cop) : list cop :=
  match ops with
  | [] => []
  | CCommitKnown _ :: r => drop_known r
  | o :: r => o :: drop_known r
  end.
Lemma strip_drop_known ops : cops_strip (drop_known ops) = cops_strip ops.
Proof. induction ops as [|[k v|k| |e] r IH]; cbn [drop_known cops_strip]; congruence. Qed.

Theorem failed_commit_known_leaves_tree tab ops :
  snd (c02_go tab Nil (drop_known ops)) = snd (c02_go tab Nil ops) /\
  last (fst (c02_go tab Nil (drop_known ops ++ [CCommit]))) [] = last (fst (c02_go tab Nil (ops ++ [CCommit]))) [].
Proof.
  rewrite !c02_go_last_root, !last_last, !c02_go_tree, strip_drop_known. auto.
Qed.

Lemma commit_known_bad_full H e t : e <> root_hash H t ->
  snd (commit_known H e t) = None /\ fst (commit_known H e t) = t.
Proof. intros Hne. split; [now apply commit_known_bad|apply commit_known_tree]. Qed.
