(* Correspondence interface used by harness/cmd/mkvs: case types, the model
   runners and the comparison functions.  Definitions only. *)
From Verif Require Import Lib.Base Mkvs.Trie Mkvs.Overlay Mkvs.Key Mkvs.Iter Mkvs.Fork.

(* ------------------------------------------------------------------ *)
(* C02: shape and root hash                                             *)
(* ------------------------------------------------------------------ *)
Inductive cop := CIns (k v : bytes) | CRem (k : bytes) | CCommit | CCommitKnown (expected : bytes).

(* what the harness dumps from the real tree after the last commit: for an
   internal node the raw LabelBitLength and the raw Label bytes *)
Inductive dtree :=
| DNil
| DLeaf (k v : bytes)
| DNode (bitlen : N) (label : bytes) (lf l r : dtree).

Fixpoint dump_of (t : tree) : dtree :=
  match t with
  | Nil => DNil
  | Leaf k v => DLeaf k v
  | Node lbl lf l r =>
      DNode (N.of_nat (length lbl)) (pack lbl)
            (match lf with None => DNil | Some (k, v) => DLeaf k v end)
            (dump_of l) (dump_of r)
  end.

Fixpoint dtree_eqb (a b : dtree) : bool :=
  match a, b with
  | DNil, DNil => true
  | DLeaf k v, DLeaf k' v' => bytes_eqb k k' && bytes_eqb v v'
  | DNode n lb lf l r, DNode n' lb' lf' l' r' =>
      (n =? n') && bytes_eqb lb lb' && dtree_eqb lf lf' && dtree_eqb l l' && dtree_eqb r r'
  | _, _ => false
  end.

(* the hash function as a finite table (pre-image -> SHA-512/256 digest)
   computed by the harness with the real hash; a miss yields [] which can never
   equal a 32-byte digest *)
Definition tab_H (tab : list (bytes * bytes)) (x : bytes) : bytes :=
  match al_get x tab with Some d => d | None => [] end.

Definition c02_in := (list cop * list (bytes * bytes))%type.
Definition c02_out := (list bytes * dtree)%type.

Fixpoint c02_go (tab : list (bytes * bytes)) (t : tree) (ops : list cop) : list bytes * tree :=
  match ops with
  | [] => ([], t)
  | CIns k v :: r => c02_go tab (tinsert k v t) r
  | CRem k :: r => c02_go tab (fst (fst (tremove k t))) r
  | CCommit :: r =>
      let h := root_hash (tab_H tab) t in
      let '(hs, t') := c02_go tab t r in (h :: hs, t')
  | CCommitKnown e :: r =>
      (* the root if it is the expected one, the empty string for ErrKnownRootMismatch *)
      let '(t1, res) := commit_known (tab_H tab) e t in
      let '(hs, t') := c02_go tab t1 r in
      (match res with Some h => h | None => [] end :: hs, t')
  end.

Definition run_c02 (i : c02_in) : c02_out :=
  let '(hs, t) := c02_go (snd i) Nil (fst i) in (hs, dump_of t).

Definition c02_eqb (a b : c02_out) : bool :=
  list_eqb bytes_eqb (fst a) (fst b) && dtree_eqb (snd a) (snd b).

(* ------------------------------------------------------------------ *)
(* C03: every answer of the tree / overlay stack                        *)
(* ------------------------------------------------------------------ *)
Definition c03_in := (bool * list fop)%type.     (* (write log enabled, history incl. overlay copies) *)
Definition c03_out := list sres.

(* the tree-level iterator evaluated here is the byte-level PORT of
   treeIterator.doNext (Mkvs/Iter.v), not the specification iterator *)
Definition run_c03 (i : c03_in) : c03_out := snd (f_run ((t_init (fst i), []), None) (snd i)).

Definition opt_bytes_eqb (a b : option bytes) : bool :=
  match a, b with
  | None, None => true
  | Some x, Some y => bytes_eqb x y
  | _, _ => false
  end.
Definition entry_eqb (a b : entry) : bool := bytes_eqb (fst a) (fst b) && bytes_eqb (snd a) (snd b).
Definition sres_eqb (a b : sres) : bool :=
  match a, b with
  | RUnit, RUnit => true
  | RVal x, RVal y => opt_bytes_eqb x y
  | RIter x, RIter y => list_eqb entry_eqb x y
  | _, _ => false
  end.
Definition c03_eqb (a b : c03_out) : bool := list_eqb sres_eqb a b.
