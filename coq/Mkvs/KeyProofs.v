(* The byte-wise key functions (Mkvs/Key.v, port of node/key.go) against the
   bit-list functions used by the trie model.
   * general (all lengths): [k_bitlen_bits], [k_getbit_bits];
   * exhaustive over every packed bit string up to the stated lengths (evaluated
     inside Coq): Split = (firstn, skipn), Merge = app, AppendBit = snoc,
     GetBit = nth, CommonPrefixLen = lcp.
   Not closed: the lifting of Split / Merge / AppendBit / CommonPrefixLen from
   the finite domain to all lengths (each output byte depends on at most two
   adjacent input bytes and the offset mod 8, all combinations of which occur
   in the sweeps; the structural induction over whole bytes is not written). *)
From Verif Require Import Lib.Base Mkvs.Trie Mkvs.BitsProofs Mkvs.Key Mkvs.KeySweep.

Lemma k_bitlen_bits k : k_bitlen k = N.of_nat (length (bits_of k)).
Proof. unfold k_bitlen, blen. rewrite bits_of_len. lia. Qed.

(* ---------- GetBit, all lengths ---------- *)
Lemma getbit_byte_table :
  forallb (fun x => forallb (fun i =>
     Bool.eqb (negb (N.land x (2 ^ (7 - N.of_nat i)) =? 0)) (nth i (byte_bits x) false)) (seq 0 8)) range256 = true.
Proof. vm_compute. reflexivity. Qed.

Lemma getbit_byte x i : x < 256 -> (i < 8)%nat ->
  negb (N.land x (2 ^ (7 - N.of_nat i)) =? 0) = nth i (byte_bits x) false.
Proof.
  intros Hx Hi. pose proof getbit_byte_table as T.
  rewrite forallb_forall in T. specialize (T x (in_range256 x Hx)).
  rewrite forallb_forall in T. specialize (T i). apply Bool.eqb_prop. apply T. apply in_seq. lia.
Qed.

Theorem k_getbit_bits k : valid_bytes k -> forall i : nat,
  (i < 8 * length k)%nat -> k_getbit k (N.of_nat i) = bit (bits_of k) i.
Proof.
  intros Hv; induction Hv as [|x k Hx Hk IH]; intros i Hi; [cbn in Hi; lia|].
  unfold k_getbit, bit. cbn [bits_of].
  destruct (Nat.lt_ge_cases i 8) as [Hlt|Hge].
  - rewrite app_nth1 by (rewrite byte_bits_len; exact Hlt).
    replace (N.of_nat i / 8) with 0 by (symmetry; apply N.div_small; lia).
    replace (N.of_nat i mod 8) with (N.of_nat i) by (symmetry; apply N.mod_small; lia).
    unfold nthb. cbn [N.to_nat nth]. now apply getbit_byte.
  - rewrite app_nth2 by (rewrite byte_bits_len; exact Hge). rewrite byte_bits_len.
    replace i with (8 + (i - 8))%nat at 1 2 by lia.
    rewrite Nat2N.inj_add. change (N.of_nat 8) with (1 * 8).
    rewrite N.add_comm, N.div_add by lia. rewrite N.mod_add by lia.
    specialize (IH (i - 8)%nat ltac:(cbn [length] in Hi; lia)).
    unfold k_getbit, bit in IH. rewrite <- IH. unfold nthb.
    rewrite N.add_comm, N2Nat.inj_add. change (N.to_nat 1) with 1%nat. cbn [Nat.add nth]. reflexivity.
Qed.

(* ---------- the finite domain ---------- *)
Definition split_ok (p : path) (sp : nat) : bool :=
  let '(a, b) := k_split (pack p) (N.of_nat sp) (plen p) in
  bytes_eqb a (pack (firstn sp p)) && bytes_eqb b (pack (skipn sp p)).
Definition merge_ok (a b : path) : bool :=
  bytes_eqb (k_merge (pack a) (plen a) (pack b) (plen b)) (pack (a ++ b)).
Definition appendbit_ok (p : path) (v : bool) : bool :=
  bytes_eqb (k_appendbit (pack p) (plen p) v) (pack (p ++ [v])).
Definition getbit_ok (p : path) (i : nat) : bool :=
  Bool.eqb (k_getbit (pack p) (N.of_nat i)) (bit p i).
Definition cpl_ok (a b : path) : bool :=
  k_cpl (pack a) (plen a) (pack b) (plen b) =? N.of_nat (lcp a b).

Lemma split_sweep :
  forallb (fun p => forallb (split_ok p) (lens (length p))) (paths_upto 12) = true.
Proof. vm_compute. reflexivity. Qed.
Lemma merge_sweep :
  forallb (fun a => forallb (merge_ok a) (paths_upto (11 - length a))) (paths_upto 11) = true.
Proof. vm_compute. reflexivity. Qed.
Lemma appendbit_sweep :
  forallb (fun p => appendbit_ok p false && appendbit_ok p true) (paths_upto 14) = true.
Proof. vm_compute. reflexivity. Qed.
Lemma getbit_sweep :
  forallb (fun p => forallb (getbit_ok p) (seq 0 (8 * length (pack p)))) (paths_upto 13) = true.
Proof. vm_compute. reflexivity. Qed.
Lemma cpl_sweep :
  forallb (fun a => forallb (cpl_ok a) (paths_upto 7)) (paths_upto 7) = true.
Proof. vm_compute. reflexivity. Qed.
Lemma cpl2_sweep :
  forallb (fun a => forallb (fun j => forallb (fun m => cpl_ok a (firstn m (flip_at j a)))
     (lens (length a))) (seq 0 (length a))) (paths_upto 11) = true.
Proof. vm_compute. reflexivity. Qed.

Lemma in_all_paths p : In p (all_paths (length p)).
Proof.
  induction p as [|b p IH]; cbn; [auto|]. apply in_or_app.
  destruct b; [right|left]; now apply in_map.
Qed.
Lemma in_paths_upto n p : (length p <= n)%nat -> In p (paths_upto n).
Proof.
  intros H. unfold paths_upto. apply in_flat_map. exists (length p). split.
  - unfold lens. apply in_seq. split; [apply Nat.le_0_l|]. cbn. apply Nat.lt_succ_r. exact H.
  - apply in_all_paths.
Qed.
Lemma in_lens n i : (i <= n)%nat -> In i (lens n).
Proof. intros Hle. unfold lens. apply in_seq. split; [apply Nat.le_0_l|]. cbn. apply Nat.lt_succ_r. exact Hle. Qed.

Theorem key_split_spec p sp : (length p <= 12)%nat -> (sp <= length p)%nat ->
  k_split (pack p) (N.of_nat sp) (N.of_nat (length p)) = (pack (firstn sp p), pack (skipn sp p)).
Proof.
  intros Hp Hs. pose proof split_sweep as S. rewrite forallb_forall in S.
  specialize (S p (in_paths_upto _ _ Hp)). rewrite forallb_forall in S.
  specialize (S sp (in_lens _ _ Hs)). unfold split_ok, plen in S.
  destruct (k_split (pack p) (N.of_nat sp) (N.of_nat (length p))) as [a b].
  apply andb_true_iff in S as [Sa Sb]. apply bytes_eqb_eq in Sa, Sb. congruence.
Qed.

Theorem key_merge_spec a b : (length a + length b <= 11)%nat ->
  k_merge (pack a) (N.of_nat (length a)) (pack b) (N.of_nat (length b)) = pack (a ++ b).
Proof.
  intros H. pose proof merge_sweep as S. rewrite forallb_forall in S.
  assert (length a <= 11)%nat as Ha by lia. assert (length b <= 11 - length a)%nat as Hb by lia.
  specialize (S a (in_paths_upto _ _ Ha)). rewrite forallb_forall in S.
  specialize (S b (in_paths_upto _ _ Hb)). now apply bytes_eqb_eq in S.
Qed.

Theorem key_appendbit_spec p v : (length p <= 14)%nat ->
  k_appendbit (pack p) (N.of_nat (length p)) v = pack (p ++ [v]).
Proof.
  intros H. pose proof appendbit_sweep as S. rewrite forallb_forall in S.
  specialize (S p (in_paths_upto _ _ H)). apply andb_true_iff in S as [S0 S1].
  destruct v; [now apply bytes_eqb_eq in S1|now apply bytes_eqb_eq in S0].
Qed.

Theorem key_cpl_spec a b : (length a <= 7)%nat -> (length b <= 7)%nat ->
  k_cpl (pack a) (N.of_nat (length a)) (pack b) (N.of_nat (length b)) = N.of_nat (lcp a b).
Proof.
  intros Ha Hb. pose proof cpl_sweep as S. rewrite forallb_forall in S.
  specialize (S a (in_paths_upto _ _ Ha)). rewrite forallb_forall in S.
  specialize (S b (in_paths_upto _ _ Hb)). now apply N.eqb_eq in S.
Qed.

(* across a byte boundary: b = a prefix of a with one bit flipped *)
Theorem key_cpl_spec2 a j m : (length a <= 11)%nat -> (j < length a)%nat -> (m <= length a)%nat ->
  let b := firstn m (flip_at j a) in
  k_cpl (pack a) (N.of_nat (length a)) (pack b) (N.of_nat (length b)) = N.of_nat (lcp a b).
Proof.
  intros Ha Hj Hm b. pose proof cpl2_sweep as S. rewrite forallb_forall in S.
  specialize (S a (in_paths_upto _ _ Ha)). rewrite forallb_forall in S.
  assert (In j (seq 0 (length a))) as Hj' by (apply in_seq; lia).
  specialize (S j Hj'). rewrite forallb_forall in S.
  specialize (S m (in_lens _ _ Hm)). now apply N.eqb_eq in S.
Qed.
