(* An overlay and its copy evolve independently, and each refines the ordered
   map over the shared inner tree. *)
From Verif Require Import Lib.Base Mkvs.Trie Mkvs.BitsProofs Mkvs.AlistProofs Mkvs.TrieProofs
  Mkvs.Overlay Mkvs.OverlayProofs Mkvs.Key Mkvs.Iter Mkvs.IterLift Mkvs.Fork.

Definition f_inv (fs : fstore) : Prop :=
  st_inv (fst fs) /\
  match snd fs with Some ob => o_inv ob /\ snd (fst fs) <> [] | None => True end.

Definition fop_ok (fs : fstore) (o : fop) : Prop :=
  match o with
  | FA o' => sop_valid_p o' /\ (snd fs = None \/ side_op o' = true \/ o' = STreeCommit)
  | FB o' => sop_valid_p o' /\ side_op o' = true
  | _ => True
  end.

(* a local operation touches only the top overlay *)
Lemma local_step s x rest o : local_op o = true ->
  exists x' res, s_step (s, x :: rest) o = ((s, x' :: rest), res).
Proof.
  destruct o; cbn [local_op]; try discriminate; intros _; cbn [s_step s_insert s_remove fst snd]; eauto.
  cbn [s_remove_existing]. destruct (ks_mem k (dirty x)); [eauto|]. destruct (s_get k s rest); eauto.
Qed.
(* a side operation keeps the top overlay in place *)
Lemma side_step s x rest o : side_op o = true ->
  exists s' x' rest' res, s_step (s, x :: rest) o = ((s', x' :: rest'), res).
Proof.
  intros H. destruct (local_op o) eqn:L.
  - destruct (local_step s x rest o L) as (x' & res & E). eauto.
  - destruct o; cbn [side_op local_op] in *; try discriminate.
    cbn [s_step s_commit_top]. eauto.
Qed.

Definition f_spec_res (fs : fstore) (o : fop) : sres :=
  match o with
  | FA o' => snd (a_step (abs_of (fst fs)) o')
  | FB o' =>
      match snd (fst fs), snd fs with
      | _ :: rest, Some ob => snd (a_step (abs_of (fst (fst fs), ob :: rest)) o')
      | _, _ => RUnit
      end
  | _ => RUnit
  end.

Lemma f_step_spec fs o : f_inv fs -> fop_ok fs o ->
  snd (f_step fs o) = f_spec_res fs o /\ f_inv (fst (f_step fs o)).
Proof.
  destruct fs as [st b]. intros [Hi Hb] Hok. cbn [fst snd] in *.
  destruct o as [o' | | o' | ]; cbn [f_step f_spec_res fop_ok fst snd] in *.
  - (* on A *)
    destruct Hok as [Hv Hside]. rewrite (s_step_p_eq_wf st o' Hi Hv).
    destruct (step_refines st o' (proj1 Hv) Hi) as (I1 & _ & R1).
    destruct (s_step st o') as [st' res] eqn:E. cbn [fst snd] in *. split; [exact R1|].
    split; [exact I1|]. destruct b as [ob|]; [|exact I]. destruct Hb as [Hob Hne]. split; [exact Hob|].
    destruct st as [s [|x rest]]; [contradiction|].
    destruct Hside as [Hn | [Hs | ->]]; [discriminate| |].
    + destruct (side_step s x rest o' Hs) as (s' & x' & rest' & res' & E'). rewrite E' in E.
      injection E as <- _. discriminate.
    + cbn in E. injection E as <- _. discriminate.
  - (* fork *)
    destruct st as [s [|a rest]]; cbn [snd fst]; [split; [reflexivity|split; [exact Hi|exact Hb]]|].
    destruct b as [ob|]; cbn [fst snd]; (split; [reflexivity|split; [exact Hi|]]); [exact Hb|].
    split; [|discriminate]. destruct Hi as [_ Ho]. cbn [snd] in Ho. now inversion Ho.
  - (* on the copy B *)
    destruct Hok as [Hv Hs]. destruct st as [s [|a rest]]; cbn [fst snd] in *;
      [split; [reflexivity|split; [exact Hi|exact Hb]]|].
    destruct b as [ob|]; [|split; [reflexivity|split; [exact Hi|exact I]]].
    destruct Hb as [Hob _]. destruct Hi as [Ht Ho]. cbn [fst snd] in *.
    inversion Ho as [|? ? Hoa Hor]; subst.
    assert (st_inv (s, ob :: rest)) as HiB by (split; [exact Ht|constructor; assumption]).
    rewrite (s_step_p_eq_wf (s, ob :: rest) o' HiB Hv).
    destruct (step_refines (s, ob :: rest) o' (proj1 Hv) HiB) as (I1 & _ & R1).
    destruct (side_step s ob rest o' Hs) as (s' & ob' & rest' & res' & E'). rewrite E' in *.
    cbn [fst snd] in *. split; [exact R1|]. destruct I1 as [Ht' Ho']. cbn [fst snd] in *.
    inversion Ho' as [|? ? Hob' Hor']; subst.
    split; [split; [exact Ht'|constructor; assumption]|split; [exact Hob'|discriminate]].
  - split; [reflexivity|split; [exact Hi|exact I]].
Qed.

(* whole histories: every answer on either side is the ordered map's answer *)
Fixpoint f_ok_run (fs : fstore) (ops : list fop) : Prop :=
  match ops with [] => True | o :: r => fop_ok fs o /\ f_ok_run (fst (f_step fs o)) r end.
Fixpoint f_spec_run (fs : fstore) (ops : list fop) : list sres :=
  match ops with [] => [] | o :: r => f_spec_res fs o :: f_spec_run (fst (f_step fs o)) r end.

Theorem fork_refines_map ops : forall fs,
  f_inv fs -> f_ok_run fs ops -> snd (f_run fs ops) = f_spec_run fs ops /\ f_inv (fst (f_run fs ops)).
Proof.
  induction ops as [|o r IH]; intros fs Hi Hok; cbn [f_run f_spec_run f_ok_run] in *; [auto|].
  destruct Hok as [Ho Hr]. destruct (f_step_spec fs o Hi Ho) as [R I1].
  destruct (f_step fs o) as [fs1 res]. cbn [fst snd] in *.
  destruct (IH fs1 I1 Hr) as [R2 I2]. destruct (f_run fs1 r) as [fs2 rs]. cbn [fst snd] in *.
  subst. auto.
Qed.

(* ---------- independence ---------- *)
Definition local_fb (o : fop) : Prop := match o with FB o' => local_op o' = true | _ => False end.
Definition local_fa (o : fop) : Prop := match o with FA o' => local_op o' = true | _ => False end.

Lemma fb_local_keeps_a fs o : local_fb o -> fst (fst (f_step fs o)) = fst fs.
Proof.
  destruct o as [ | | o' | ]; cbn [local_fb]; try contradiction. intros L.
  destruct fs as [[s [|a rest]] [ob|]]; cbn [f_step fst snd]; try reflexivity.
  destruct (local_step s ob rest o' L) as (x' & res & E).
  assert (s_step_p (s, ob :: rest) o' = ((s, x' :: rest), snd (s_step_p (s, ob :: rest) o'))) as E2.
  { destruct o'; cbn [local_op] in L; try discriminate; cbn [s_step_p] in *; try (rewrite E; reflexivity);
      try (cbn [s_step] in E; injection E as <- _; reflexivity). }
  rewrite E2. reflexivity.
Qed.

Lemma fa_local_keeps_b fs o : local_fa o -> snd (fst fs) <> [] ->
  snd (fst (f_step fs o)) = snd fs /\
  fst (fst (fst (f_step fs o))) = fst (fst fs) /\ tl (snd (fst (fst (f_step fs o)))) = tl (snd (fst fs)).
Proof.
  destruct o as [o' | | | ]; cbn [local_fa]; try contradiction. intros L Hne.
  destruct fs as [[s os] b]. cbn [f_step fst snd] in *.
  destruct os as [|a rest]; [contradiction|].
  destruct (local_step s a rest o' L) as (x' & res & E).
  assert (s_step_p (s, a :: rest) o' = ((s, x' :: rest), snd (s_step_p (s, a :: rest) o'))) as E2.
  { destruct o'; cbn [local_op] in L; try discriminate; cbn [s_step_p] in *; try (rewrite E; reflexivity);
      try (cbn [s_step] in E; injection E as <- _; reflexivity). }
  rewrite E2. cbn. auto.
Qed.

(* observations of the other side are untouched by local operations *)
Theorem copy_independent_b fs o k : local_fa o -> snd (fst fs) <> [] ->
  obs_b (fst (f_step fs o)) k = obs_b fs k.
Proof.
  intros L Hne. destruct (fa_local_keeps_b fs o L Hne) as (Eb & Es & Et).
  unfold obs_b. rewrite Eb, Es.
  destruct (snd (fst fs)) as [|a rest] eqn:E1; [contradiction|].
  destruct (snd (fst (fst (f_step fs o)))) as [|a' rest'] eqn:E2.
  - exfalso. destruct o as [o' | | | ]; cbn [local_fa] in L; try contradiction.
    destruct fs as [[s os] b]. cbn [fst snd] in *. subst os.
    destruct (local_step s a rest o' L) as (x' & res & E).
    cbn [f_step] in E2.
    assert (snd (fst (s_step_p (s, a :: rest) o')) = x' :: rest) as E3.
    { destruct o'; cbn [local_op] in L; try discriminate; cbn [s_step_p] in *; try (now rewrite E);
        try (cbn [s_step] in E; now injection E as <- _). }
    destruct (s_step_p (s, a :: rest) o') as [st' r']. cbn [fst snd] in *. congruence.
  - cbn [tl] in Et. subst rest'. destruct fs as [[s os] b]; cbn [fst snd] in *; subst os; reflexivity.
Qed.

Theorem copy_independent_a fs o k : local_fb o -> obs_a (fst (f_step fs o)) k = obs_a fs k.
Proof. intros L. unfold obs_a. now rewrite (fb_local_keeps_a fs o L). Qed.

(* right after Copy the two sides observe the same map *)
Theorem copy_same_view fs k : snd fs = None -> snd (fst fs) <> [] ->
  obs_b (fst (f_step fs FFork)) k = Some (obs_a fs k).
Proof.
  destruct fs as [[s [|a rest]] b]; cbn [fst snd]; intros -> Hne; [contradiction|]. reflexivity.
Qed.

Lemma f_init_inv b : f_inv ((t_init b, []), None).
Proof. split; [apply init_inv|exact I]. Qed.

(* the function evaluated by the correspondence check *)
Corollary fork_run_refines_init b ops :
  f_ok_run ((t_init b, []), None) ops ->
  snd (f_run ((t_init b, []), None) ops) = f_spec_run ((t_init b, []), None) ops.
Proof. intros H. apply fork_refines_map; [apply f_init_inv|exact H]. Qed.

(* any sequence of local operations on one side *)
Theorem copy_independent_a_run ops : forall fs k,
  Forall local_fb ops -> obs_a (fst (f_run fs ops)) k = obs_a fs k.
Proof.
  induction ops as [|o r IH]; intros fs k H; cbn [f_run]; [reflexivity|].
  inversion H as [|? ? Ho Hr]; subst.
  pose proof (copy_independent_a fs o k Ho) as E.
  destruct (f_step fs o) as [fs1 res]. cbn [fst] in E.
  specialize (IH fs1 k Hr). destruct (f_run fs1 r) as [fs2 rs]. cbn [fst] in *. congruence.
Qed.

Theorem copy_independent_b_run ops : forall fs k,
  Forall local_fa ops -> snd (fst fs) <> [] -> obs_b (fst (f_run fs ops)) k = obs_b fs k.
Proof.
  induction ops as [|o r IH]; intros fs k H Hne; cbn [f_run]; [reflexivity|].
  inversion H as [|? ? Ho Hr]; subst.
  pose proof (copy_independent_b fs o k Ho Hne) as E.
  assert (snd (fst (fst (f_step fs o))) <> []) as Hne'.
  { destruct o as [o' | | | ]; cbn [local_fa] in Ho; try contradiction.
    destruct fs as [[s [|a rest]] b]; [contradiction|]. cbn [f_step].
    destruct (local_step s a rest o' Ho) as (x' & res & E1).
    assert (snd (fst (s_step_p (s, a :: rest) o')) = x' :: rest) as E3.
    { destruct o'; cbn [local_op] in Ho; try discriminate; cbn [s_step_p] in *; try (now rewrite E1);
        try (cbn [s_step] in E1; now injection E1 as <- _). }
    destruct (s_step_p (s, a :: rest) o') as [st' r']. cbn [fst snd] in *. rewrite E3. discriminate. }
  destruct (f_step fs o) as [fs1 res]. cbn [fst] in *.
  specialize (IH fs1 k Hr Hne'). destruct (f_run fs1 r) as [fs2 rs]. cbn [fst] in *. congruence.
Qed.
