(* Lifting of the byte-wise key lemmas from the finite sweeps to all lengths. *)
From Verif Require Import Lib.Base Mkvs.Trie Mkvs.BitsProofs Mkvs.Key Mkvs.KeySweep Mkvs.KeyProofs.

(* ---------- arithmetic and list shifts by one byte ---------- *)
Lemma div_add8 n : (8 + n) / 8 = 1 + n / 8.
Proof. replace (8 + n) with (n + 1 * 8) by lia. rewrite N.div_add by lia. lia. Qed.
Lemma mod_add8 n : (8 + n) mod 8 = n mod 8.
Proof. replace (8 + n) with (n + 1 * 8) by lia. now rewrite N.mod_add by lia. Qed.
Lemma to_bytes_add8 n : to_bytes (8 + n) = 1 + to_bytes n.
Proof. unfold to_bytes. rewrite div_add8, mod_add8. lia. Qed.
Lemma to_bytes_small n : 0 < n -> n <= 8 -> to_bytes n = 1.
Proof.
  intros H0 H8. unfold to_bytes. destruct (N.eq_dec n 8) as [->|Hne]; [reflexivity|].
  rewrite N.div_small, N.mod_small by lia. destruct (n =? 0) eqn:E; [apply N.eqb_eq in E; lia|reflexivity].
Qed.

Lemma nthb_0 x k : nthb (x :: k) 0 = x.
Proof. reflexivity. Qed.
Lemma nthb_succ x k i : nthb (x :: k) (1 + i) = nthb k i.
Proof. unfold nthb. rewrite N2Nat.inj_add. reflexivity. Qed.
Lemma nthb_nil i : nthb [] i = 0.
Proof. unfold nthb. destruct (N.to_nat i); reflexivity. Qed.
Lemma blen_cons x k : blen (x :: k) = 1 + blen k.
Proof. unfold blen. cbn [length]. lia. Qed.

Lemma firstn_app_repeat {A} (z : A) (k : list A) : forall a b b',
  (a <= length k + b)%nat -> (a <= length k + b')%nat ->
  firstn a (k ++ repeat z b) = firstn a (k ++ repeat z b').
Proof.
  induction k as [|x k IH]; intros a b b' H1 H2.
  - cbn in *. revert b b' H1 H2. induction a as [|a IHa]; intros b b' H1 H2; [reflexivity|].
    destruct b as [|b]; [lia|]. destruct b' as [|b']; [lia|]. cbn. f_equal. apply IHa; lia.
  - destruct a as [|a]; [reflexivity|]. cbn. f_equal. apply IH; cbn in *; lia.
Qed.
Lemma take_pad_cons n x k : take_pad (1 + n) (x :: k) = x :: take_pad n k.
Proof.
  unfold take_pad. rewrite N2Nat.inj_add. change (N.to_nat 1) with 1%nat. cbn [Nat.add app firstn]. f_equal.
  apply firstn_app_repeat; lia.
Qed.
Lemma take_pad_nil n : take_pad (1 + n) [] = 0 :: take_pad n [].
Proof.
  unfold take_pad. rewrite N2Nat.inj_add. change (N.to_nat 1) with 1%nat. cbn [Nat.add app repeat firstn]. reflexivity.
Qed.
Lemma take_pad_0 k : take_pad 0 k = [].
Proof. reflexivity. Qed.
Lemma upd_succ x k i f : upd (x :: k) (1 + i) f = x :: upd k i f.
Proof. unfold upd. rewrite N2Nat.inj_add. reflexivity. Qed.

Lemma nrange_succ n : nrange (1 + n) = 0 :: map (fun i => 1 + i) (nrange n).
Proof.
  unfold nrange. rewrite N2Nat.inj_add. change (N.to_nat 1) with 1%nat. cbn [Nat.add seq map].
  f_equal. rewrite <- seq_shift, !map_map. apply map_ext. intros a. lia.
Qed.
Lemma nrange_0 : nrange 0 = [].
Proof. reflexivity. Qed.

Lemma pack_cons8 b0 b1 b2 b3 b4 b5 b6 b7 rest :
  pack (b0 :: b1 :: b2 :: b3 :: b4 :: b5 :: b6 :: b7 :: rest) =
  (bv b0 128 + bv b1 64 + bv b2 32 + bv b3 16 + bv b4 8 + bv b5 4 + bv b6 2 + bv b7 1) :: pack rest.
Proof. reflexivity. Qed.
Lemma len_cons8 {A} (b0 b1 b2 b3 b4 b5 b6 b7 : A) rest :
  N.of_nat (length (b0 :: b1 :: b2 :: b3 :: b4 :: b5 :: b6 :: b7 :: rest)) = 8 + N.of_nat (length rest).
Proof. cbn [length]. lia. Qed.

Lemma byte_of_bits_table :
  forallb (fun x => match byte_bits x with
     | [b0; b1; b2; b3; b4; b5; b6; b7] =>
         (bv b0 128 + bv b1 64 + bv b2 32 + bv b3 16 + bv b4 8 + bv b5 4 + bv b6 2 + bv b7 1) =? x
     | _ => false end) range256 = true.
Proof. vm_compute. reflexivity. Qed.
Lemma pack_byte_bits_app x r : x < 256 -> pack (byte_bits x ++ r) = x :: pack r.
Proof.
  intros Hx. pose proof byte_of_bits_table as T. rewrite forallb_forall in T.
  specialize (T x (in_range256 x Hx)). unfold byte_bits in *. cbn [app]. rewrite pack_cons8.
  apply N.eqb_eq in T. now rewrite T.
Qed.
Lemma pack_bits_of k : valid_bytes k -> pack (bits_of k) = k.
Proof.
  induction 1 as [|x k Hx Hk IH]; [reflexivity|]. cbn [bits_of]. rewrite pack_byte_bits_app by assumption.
  now rewrite IH.
Qed.

(* ---------- AppendBit ---------- *)
Lemma appendbit_shift x k n v : k_appendbit (x :: k) (8 + n) v = x :: k_appendbit k n v.
Proof.
  unfold k_appendbit. replace (8 + n + 1) with (8 + (n + 1)) by lia.
  rewrite to_bytes_add8, take_pad_cons, div_add8, mod_add8, upd_succ. reflexivity.
Qed.
Lemma appendbit_shift_nil n v : k_appendbit [] (8 + n) v = 0 :: k_appendbit [] n v.
Proof.
  unfold k_appendbit. replace (8 + n + 1) with (8 + (n + 1)) by lia.
  rewrite to_bytes_add8, take_pad_nil, div_add8, mod_add8, upd_succ. reflexivity.
Qed.

Theorem key_appendbit_general p v :
  k_appendbit (pack p) (N.of_nat (length p)) v = pack (p ++ [v]).
Proof.
  induction p as [p Hl|b0 b1 b2 b3 b4 b5 b6 b7 rest IH] using chunk8_ind.
  - apply key_appendbit_spec. lia.
  - rewrite len_cons8, pack_cons8, appendbit_shift, IH. cbn [app]. now rewrite pack_cons8.
Qed.

Lemma nat_ind8 (P : nat -> Prop) :
  (forall n, (n < 8)%nat -> P n) -> (forall n, P n -> P (8 + n)%nat) -> forall n, P n.
Proof.
  intros Hb Hs n. induction n as [n IH] using lt_wf_ind.
  destruct (Nat.lt_ge_cases n 8) as [Hlt|Hge]; [now apply Hb|].
  replace n with (8 + (n - 8))%nat by lia. apply Hs. apply IH. lia.
Qed.
Lemma of_nat_add8 n : N.of_nat (8 + n) = 8 + N.of_nat n.
Proof. lia. Qed.

Lemma appendbit_nil n v : k_appendbit [] (N.of_nat n) v = pack (repeat false n ++ [v]).
Proof.
  induction n as [n Hlt|n IH] using nat_ind8.
  - do 8 (destruct n as [|n]; [destruct v; vm_compute; reflexivity|]). lia.
  - rewrite of_nat_add8, appendbit_shift_nil, IH. reflexivity.
Qed.

(* a whole-byte key zero-padded to n bits, followed by the bit v *)
Theorem appendbit_bytes x : valid_bytes x -> forall n v, (8 * length x <= n)%nat ->
  k_appendbit x (N.of_nat n) v = pack (bits_of x ++ repeat false (n - 8 * length x) ++ [v]).
Proof.
  induction 1 as [|b x Hb Hx IH]; intros n v Hn.
  - cbn [length bits_of app]. rewrite Nat.mul_0_r, Nat.sub_0_r. apply appendbit_nil.
  - cbn [length] in Hn. replace n with (8 + (n - 8))%nat by lia.
    rewrite of_nat_add8, appendbit_shift, IH by lia. cbn [bits_of]. rewrite <- app_assoc.
    rewrite pack_byte_bits_app by assumption.
    replace (8 + (n - 8) - 8 * length (b :: x))%nat with (n - 8 - 8 * length x)%nat by (cbn [length]; lia).
    reflexivity.
Qed.

(* ---------- Merge ---------- *)
Lemma ltb_s a b : (1 + a <? 1 + b) = (a <? b).
Proof. destruct (N.ltb_spec a b), (N.ltb_spec (1 + a) (1 + b)); try reflexivity; lia. Qed.
Lemma leb_s a b : (1 + a <=? 1 + b) = (a <=? b).
Proof. destruct (N.leb_spec a b), (N.leb_spec (1 + a) (1 + b)); try reflexivity; lia. Qed.
Lemma to_bytes_0_iff n : to_bytes n = 0 <-> n = 0.
Proof.
  unfold to_bytes. split; [|intros ->; reflexivity]. intros H.
  destruct (n mod 8 =? 0) eqn:E.
  - apply N.eqb_eq in E. assert (n / 8 = 0) by lia. rewrite (N.div_mod n 8) by lia. lia.
  - lia.
Qed.

Lemma merge_shift x k n k2 m : k_merge (x :: k) (8 + n) k2 m = x :: k_merge k n k2 m.
Proof.
  unfold k_merge. replace (8 + n + m) with (8 + (n + m)) by lia.
  rewrite !to_bytes_add8, nrange_succ. cbn [map]. f_equal.
  - rewrite mod_add8, nthb_0.
    replace (0 <? 1 + to_bytes n) with true by (symmetry; apply N.ltb_lt; lia).
    replace (1 + to_bytes n <=? 0) with false by (symmetry; apply N.leb_gt; lia).
    cbn [andb]. rewrite N.lor_0_r.
    destruct (n mod 8 =? 0) eqn:E; cbn [negb andb]; [apply N.lor_0_r|].
    replace (1 + to_bytes n <=? 0 + 1) with false; [cbn [andb]; apply N.lor_0_r|].
    symmetry. apply N.leb_gt. assert (to_bytes n <> 0) by (rewrite to_bytes_0_iff; intros ->; discriminate). lia.
  - rewrite map_map. apply map_ext. intros j. rewrite mod_add8, ltb_s, nthb_succ.
    replace (1 + j + 1) with (1 + (j + 1)) by lia. rewrite leb_s, leb_s.
    replace (1 + (j + 1) - (1 + to_bytes n)) with (j + 1 - to_bytes n) by lia.
    replace (1 + j - (1 + to_bytes n)) with (j - to_bytes n) by lia.
    replace (0 <? 1 + to_bytes n) with true by (symmetry; apply N.ltb_lt; lia).
    destruct (n mod 8 =? 0) eqn:E; cbn [negb andb]; [reflexivity|].
    replace (0 <? to_bytes n) with true; [reflexivity|].
    symmetry. apply N.ltb_lt. assert (to_bytes n <> 0) by (rewrite to_bytes_0_iff; intros ->; discriminate). lia.
Qed.

Lemma in_nrange j n : In j (nrange n) -> j < n.
Proof. unfold nrange. intros H. apply in_map_iff in H as (i & <- & Hi). apply in_seq in Hi. lia. Qed.
Lemma nthb_oob k j : blen k <= j -> nthb k j = 0.
Proof. unfold nthb, blen. intros H. apply nth_overflow. lia. Qed.
Lemma map_nthb_nrange k : map (nthb k) (nrange (blen k)) = k.
Proof.
  induction k as [|x k IH]; [reflexivity|]. rewrite blen_cons, nrange_succ. cbn [map]. rewrite nthb_0. f_equal.
  rewrite map_map. rewrite <- IH at 2. apply map_ext. intros j. apply nthb_succ.
Qed.
Lemma valid_pack p : valid_bytes (pack p).
Proof.
  induction p as [p Hl|b0 b1 b2 b3 b4 b5 b6 b7 rest IH] using chunk8_ind.
  - destruct p as [|b0 [|b1 [|b2 [|b3 [|b4 [|b5 [|b6 [|b7 rest]]]]]]]]; try (cbn in Hl; lia);
      repeat match goal with b : bool |- _ => destruct b end; repeat constructor; cbn; lia.
  - rewrite pack_cons8. constructor; [|exact IH]. destruct b0, b1, b2, b3, b4, b5, b6, b7; cbn; lia.
Qed.
Lemma blen_pack p : blen (pack p) = to_bytes (N.of_nat (length p)).
Proof.
  induction p as [p Hl|b0 b1 b2 b3 b4 b5 b6 b7 rest IH] using chunk8_ind.
  - destruct p as [|b0 [|b1 [|b2 [|b3 [|b4 [|b5 [|b6 [|b7 rest]]]]]]]]; try (cbn in Hl; lia); reflexivity.
  - rewrite len_cons8, pack_cons8, blen_cons, to_bytes_add8, IH. reflexivity.
Qed.
Lemma shl8_0 x : x < 256 -> shl8 x 0 = x.
Proof. intros H. unfold shl8. change (2 ^ 0) with 1. rewrite N.mul_1_r. now apply N.mod_small. Qed.
Lemma nthb_valid k j : valid_bytes k -> nthb k j < 256.
Proof.
  intros Hv. unfold nthb. destruct (Nat.lt_ge_cases (N.to_nat j) (length k)) as [H|H].
  - unfold valid_bytes in Hv. rewrite Forall_forall in Hv. apply Hv. now apply nth_In.
  - rewrite nth_overflow by exact H. lia.
Qed.

Lemma merge_nil_l k2 m : valid_bytes k2 -> blen k2 = to_bytes m -> k_merge [] 0 k2 m = k2.
Proof.
  intros Hv Hl. unfold k_merge. change (to_bytes 0) with 0. rewrite N.add_0_l, <- Hl.
  transitivity (map (nthb k2) (nrange (blen k2))); [|apply map_nthb_nrange].
  apply map_ext_in. intros j Hj. apply in_nrange in Hj.
  change (0 mod 8) with 0. change (0 =? 0) with true. cbn [negb andb]. rewrite N.sub_0_r.
  replace (j <? 0) with false by (symmetry; apply N.ltb_ge; lia).
  replace (0 <=? j) with true by (symmetry; apply N.leb_le; lia).
  replace (j <? blen k2) with true by (symmetry; apply N.ltb_lt; lia).
  cbn [andb]. change ((8 - 0) mod 8) with 0. rewrite shl8_0 by now apply nthb_valid.
  rewrite N.lor_0_l. reflexivity.
Qed.

(* k2 shifted right by r bits into n output bytes, with [carry] in the first byte *)
Fixpoint shr_bytes (r carry : N) (k2 : bytes) (n : nat) : bytes :=
  match n with
  | O => []
  | S n' => N.lor carry (shr8 (hd 0 k2) r) :: shr_bytes r (shl8 (hd 0 k2) (8 - r)) (tl k2) n'
  end.

Definition mergef (r carry : N) (k2 : bytes) (j : N) : N :=
  N.lor (N.lor (if j =? 0 then carry else 0) (shr8 (nthb k2 j) r))
        (if j =? 0 then 0 else shl8 (nthb k2 (j - 1)) (8 - r)).

Lemma nthb_hd k : nthb k 0 = hd 0 k.
Proof. destruct k; reflexivity. Qed.
Lemma nthb_tl k j : nthb k (1 + j) = nthb (tl k) j.
Proof. destruct k as [|x k]; [now rewrite !nthb_nil|apply nthb_succ]. Qed.
Lemma shr8_0_l s : shr8 0 s = 0.
Proof. unfold shr8. apply N.div_0_l. apply N.pow_nonzero. lia. Qed.
Lemma shl8_0_l s : shl8 0 s = 0.
Proof. unfold shl8. reflexivity. Qed.

Lemma mergef_shr r : forall n carry k2,
  map (mergef r carry k2) (nrange (N.of_nat n)) = shr_bytes r carry k2 n.
Proof.
  induction n as [|n IH]; intros carry k2; [reflexivity|].
  replace (N.of_nat (S n)) with (1 + N.of_nat n) by lia. rewrite nrange_succ. cbn [map shr_bytes]. f_equal.
  - unfold mergef. change (0 =? 0) with true. cbn iota. rewrite nthb_hd. apply N.lor_0_r.
  - rewrite map_map, <- IH. apply map_ext. intros j. unfold mergef.
    replace (1 + j =? 0) with false by (symmetry; apply N.eqb_neq; lia).
    replace (1 + j - 1) with j by lia. rewrite nthb_tl, N.lor_0_l.
    destruct (j =? 0) eqn:E.
    + apply N.eqb_eq in E. subst j. rewrite !nthb_hd, N.lor_0_r. apply N.lor_comm.
    + apply N.eqb_neq in E. rewrite N.lor_0_l. f_equal. f_equal.
      replace j with (1 + (j - 1)) at 1 by lia. apply nthb_tl.
Qed.

Lemma merge_one_byte A r k2 m : 0 < r -> r < 8 ->
  k_merge [A] r k2 m = shr_bytes r A k2 (N.to_nat (to_bytes (r + m))).
Proof.
  intros H0 H8. rewrite <- mergef_shr, N2Nat.id. unfold k_merge.
  rewrite (to_bytes_small r) by lia. apply map_ext. intros j. unfold mergef.
  rewrite (N.mod_small r 8) by lia. rewrite (N.mod_small (8 - r) 8) by lia.
  replace (r =? 0) with false by (symmetry; apply N.eqb_neq; lia).
  change (0 <? 1) with true. cbn [negb andb].
  replace (1 <=? j + 1) with true by (symmetry; apply N.leb_le; lia).
  replace (j + 1 - 1) with j by lia. cbn [andb].
  assert ((if j <? blen k2 then shr8 (nthb k2 j) r else 0) = shr8 (nthb k2 j) r) as ->.
  { destruct (N.ltb_spec j (blen k2)); [reflexivity|]. rewrite nthb_oob by assumption. now rewrite shr8_0_l. }
  destruct (j =? 0) eqn:E.
  - apply N.eqb_eq in E. subst j. change (0 <? 1) with true. rewrite nthb_0.
    change (1 <=? 0) with false. cbn [andb]. reflexivity.
  - apply N.eqb_neq in E. replace (j <? 1) with false by (symmetry; apply N.ltb_ge; lia).
    replace (1 <=? j) with true by (symmetry; apply N.leb_le; lia). cbn [andb].
    destruct (N.ltb_spec (j - 1) (blen k2)); [reflexivity|].
    rewrite (nthb_oob k2 (j - 1)) by assumption. now rewrite shl8_0_l.
Qed.

(* the bit-level meaning of shr_bytes: finite tables for one step, induction over bytes *)
Lemma pack_app_aligned (u : path) : forall w : path, (length u mod 8 = 0)%nat -> pack (u ++ w) = pack u ++ pack w.
Proof.
  induction u as [u Hl|b0 b1 b2 b3 b4 b5 b6 b7 rest IH] using chunk8_ind; intros w Hm.
  - rewrite Nat.mod_small in Hm by exact Hl. destruct u; [reflexivity|discriminate].
  - cbn [app]. rewrite !pack_cons8. cbn [app]. f_equal. apply IH.
    cbn [length] in Hm. replace (S (S (S (S (S (S (S (S (length rest))))))))) with (length rest + 1 * 8)%nat in Hm by lia.
    now rewrite Nat.mod_add in Hm by lia.
Qed.

Definition rs : list nat := [1; 2; 3; 4; 5; 6; 7]%nat.
Lemma merge_step_table :
  forallb (fun r => forallb (fun a => forallb (fun c =>
     bytes_eqb (pack (a ++ firstn (8 - r) c))
               [N.lor (hd 0 (pack a)) (shr8 (hd 0 (pack c)) (N.of_nat r))] &&
     (hd 0 (pack (skipn (8 - r) c)) =? shl8 (hd 0 (pack c)) (8 - N.of_nat r)))
     (all_paths 8)) (all_paths r)) rs = true.
Proof. vm_compute. reflexivity. Qed.
Lemma merge_base_table :
  forallb (fun r => forallb (fun a => forallb (fun b =>
     bytes_eqb (pack (a ++ b))
               (shr_bytes (N.of_nat r) (hd 0 (pack a)) (pack b)
                          (N.to_nat (to_bytes (N.of_nat r + N.of_nat (length b))))))
     (paths_upto 7)) (all_paths r)) rs = true.
Proof. vm_compute. reflexivity. Qed.

Lemma in_rs r : (0 < r < 8)%nat -> In r rs.
Proof. intros H. unfold rs. cbn. lia. Qed.
Lemma in_all_paths_len p n : length p = n -> In p (all_paths n).
Proof. intros <-. apply in_all_paths. Qed.

Lemma merge_bits r : (0 < r < 8)%nat -> forall (b a : path), length a = r ->
  pack (a ++ b) = shr_bytes (N.of_nat r) (hd 0 (pack a)) (pack b)
                            (N.to_nat (to_bytes (N.of_nat r + N.of_nat (length b)))).
Proof.
  intros Hr b. induction b as [b Hl|b0 b1 b2 b3 b4 b5 b6 b7 rest IH] using chunk8_ind; intros a Ha.
  - pose proof merge_base_table as T. rewrite forallb_forall in T. specialize (T r (in_rs r Hr)).
    rewrite forallb_forall in T. specialize (T a (in_all_paths_len _ _ Ha)).
    rewrite forallb_forall in T. specialize (T b (in_paths_upto 7 b ltac:(lia))).
    now apply bytes_eqb_eq in T.
  - set (c := [b0; b1; b2; b3; b4; b5; b6; b7]).
    change (b0 :: b1 :: b2 :: b3 :: b4 :: b5 :: b6 :: b7 :: rest) with (c ++ rest).
    pose proof merge_step_table as T. rewrite forallb_forall in T. specialize (T r (in_rs r Hr)).
    rewrite forallb_forall in T. specialize (T a (in_all_paths_len _ _ Ha)).
    rewrite forallb_forall in T. specialize (T c (in_all_paths_len c 8 eq_refl)).
    apply andb_true_iff in T as [T1 T2]. apply bytes_eqb_eq in T1. apply N.eqb_eq in T2.
    rewrite <- (firstn_skipn (8 - r) c) at 1. rewrite <- app_assoc, app_assoc.
    rewrite pack_app_aligned.
    2:{ rewrite app_length, firstn_length, Ha. change (length c) with 8%nat.
        replace (r + Nat.min (8 - r) 8)%nat with 8%nat by lia. reflexivity. }
    rewrite T1. rewrite (IH (skipn (8 - r) c)).
    2:{ rewrite skipn_length. change (length c) with 8%nat. lia. }
    rewrite T2. rewrite app_length. change (length c) with 8%nat.
    replace (N.of_nat r + N.of_nat (8 + length rest)) with (8 + (N.of_nat r + N.of_nat (length rest))) by lia.
    rewrite to_bytes_add8, N2Nat.inj_add. change (N.to_nat 1) with 1%nat. cbn [Nat.add shr_bytes app].
    rewrite (pack_app_aligned c rest eq_refl).
    assert (exists X, pack c = [X]) as [X EX] by (unfold c; rewrite pack_cons8; eauto).
    rewrite EX. cbn [app hd tl]. reflexivity.
Qed.

Lemma pack_one_byte a : (0 < length a < 8)%nat -> pack a = [hd 0 (pack a)].
Proof.
  intros H. pose proof (blen_pack a) as L. rewrite to_bytes_small in L by lia.
  unfold blen in L. destruct (pack a) as [|x [|y t]]; cbn [length] in L; try lia. reflexivity.
Qed.

Theorem key_merge_general (a b : path) :
  k_merge (pack a) (N.of_nat (length a)) (pack b) (N.of_nat (length b)) = pack (a ++ b).
Proof.
  induction a as [a Hl|b0 b1 b2 b3 b4 b5 b6 b7 rest IH] using chunk8_ind.
  - destruct a as [|x a'].
    + cbn [length pack app]. apply merge_nil_l; [apply valid_pack|apply blen_pack].
    + rewrite pack_one_byte by (cbn [length] in *; lia).
      rewrite merge_one_byte by (cbn [length] in *; lia).
      symmetry. apply merge_bits; [cbn [length] in *; lia|reflexivity].
  - rewrite len_cons8, pack_cons8, merge_shift, IH. cbn [app]. now rewrite pack_cons8.
Qed.

(* ---------- Split ---------- *)
Lemma split_shift x k sp kl :
  k_split (x :: k) (8 + sp) (8 + kl) = (x :: fst (k_split k sp kl), snd (k_split k sp kl)).
Proof.
  unfold k_split. cbn [fst snd]. rewrite to_bytes_add8, take_pad_cons, mod_add8, div_add8.
  replace (8 + kl - (8 + sp)) with (kl - sp) by lia. f_equal.
  - destruct (sp mod 8 =? 0) eqn:E; [reflexivity|].
    assert (to_bytes sp <> 0) as Hnz by (rewrite to_bytes_0_iff; intros ->; discriminate).
    replace (1 + to_bytes sp - 1) with (1 + (to_bytes sp - 1)) by lia. now rewrite upd_succ.
  - apply map_ext. intros i. rewrite blen_cons.
    replace (i + (1 + sp / 8)) with (1 + (i + sp / 8)) by lia. rewrite nthb_succ.
    replace (1 + (i + sp / 8) + 1) with (1 + (i + sp / 8 + 1)) by lia. rewrite nthb_succ.
    replace (1 + (i + sp / 8 + 1) =? 1 + blen k) with (i + sp / 8 + 1 =? blen k); [reflexivity|].
    destruct (N.eqb_spec (i + sp / 8 + 1) (blen k)), (N.eqb_spec (1 + (i + sp / 8 + 1)) (1 + blen k)); try reflexivity; lia.
Qed.

(* k shifted left by r bits into n output bytes *)
Fixpoint shl_bytes (r : N) (k : bytes) (n : nat) : bytes :=
  match n with
  | O => []
  | S n' => N.lor (shl8 (hd 0 k) r) (shr8 (hd 0 (tl k)) (8 - r)) :: shl_bytes r (tl k) n'
  end.

Lemma splitf_shl r : forall n k,
  map (fun i => N.lor (shl8 (nthb k i) r) (shr8 (nthb k (i + 1)) (8 - r))) (nrange (N.of_nat n)) = shl_bytes r k n.
Proof.
  induction n as [|n IH]; intros k; [reflexivity|].
  replace (N.of_nat (S n)) with (1 + N.of_nat n) by lia. rewrite nrange_succ. cbn [map shl_bytes]. f_equal.
  - rewrite nthb_hd. change (0 + 1) with (1 + 0). now rewrite nthb_tl, nthb_hd.
  - rewrite map_map, <- IH. apply map_ext. intros i.
    replace (1 + i + 1) with (1 + (i + 1)) by lia. now rewrite !nthb_tl.
Qed.

Lemma split_suffix_small k r kl : 0 < r -> r < 8 ->
  snd (k_split k r kl) = shl_bytes r k (N.to_nat (to_bytes (kl - r))).
Proof.
  intros H0 H8. rewrite <- splitf_shl, N2Nat.id. unfold k_split. cbn [snd].
  rewrite (N.div_small r 8), (N.mod_small r 8) by lia.
  replace (r =? 0) with false by (symmetry; apply N.eqb_neq; lia). cbn [negb andb].
  apply map_ext. intros i. rewrite N.add_0_r.
  destruct (N.eqb_spec (i + 1) (blen k)) as [E|E]; cbn [negb]; [|reflexivity].
  rewrite (nthb_oob k (i + 1)) by lia. now rewrite shr8_0_l, N.lor_0_r.
Qed.

Lemma split_step_table :
  forallb (fun r => forallb (fun c => forallb (fun c1 =>
     bytes_eqb (pack (skipn r c ++ firstn r c1))
               [N.lor (shl8 (hd 0 (pack c)) (N.of_nat r)) (shr8 (hd 0 (pack c1)) (8 - N.of_nat r))])
     (all_paths 8)) (all_paths 8)) rs = true.
Proof. vm_compute. reflexivity. Qed.
Lemma split_base_table :
  forallb (fun r => forallb (fun c => forallb (fun rest =>
     bytes_eqb (pack (skipn r c ++ rest))
               (shl_bytes (N.of_nat r) (pack (c ++ rest)) (N.to_nat (to_bytes (8 - N.of_nat r + N.of_nat (length rest))))))
     (paths_upto 7)) (all_paths 8)) rs = true.
Proof. vm_compute. reflexivity. Qed.
Lemma split_prefix_table :
  forallb (fun r => forallb (fun c =>
     bytes_eqb (pack (firstn r c)) [N.land (hd 0 (pack c)) (shl8 255 (8 - N.of_nat r))])
     (all_paths 8)) rs = true.
Proof. vm_compute. reflexivity. Qed.

Lemma split_bits r : (0 < r < 8)%nat -> forall (rest c : path), length c = 8%nat ->
  pack (skipn r c ++ rest) =
  shl_bytes (N.of_nat r) (pack (c ++ rest)) (N.to_nat (to_bytes (8 - N.of_nat r + N.of_nat (length rest)))).
Proof.
  intros Hr rest. induction rest as [rest Hl|b0 b1 b2 b3 b4 b5 b6 b7 rest IH] using chunk8_ind; intros c Hc.
  - pose proof split_base_table as T. rewrite forallb_forall in T. specialize (T r (in_rs r Hr)).
    rewrite forallb_forall in T. specialize (T c (in_all_paths_len _ _ Hc)).
    rewrite forallb_forall in T. specialize (T rest (in_paths_upto 7 rest ltac:(lia))).
    now apply bytes_eqb_eq in T.
  - set (c1 := [b0; b1; b2; b3; b4; b5; b6; b7]).
    change (b0 :: b1 :: b2 :: b3 :: b4 :: b5 :: b6 :: b7 :: rest) with (c1 ++ rest).
    pose proof split_step_table as T. rewrite forallb_forall in T. specialize (T r (in_rs r Hr)).
    rewrite forallb_forall in T. specialize (T c (in_all_paths_len _ _ Hc)).
    rewrite forallb_forall in T. specialize (T c1 (in_all_paths_len c1 8 eq_refl)).
    apply bytes_eqb_eq in T.
    replace (skipn r c ++ c1 ++ rest) with ((skipn r c ++ firstn r c1) ++ (skipn r c1 ++ rest)).
    2:{ rewrite <- app_assoc. f_equal. rewrite app_assoc. now rewrite firstn_skipn. }
    rewrite pack_app_aligned.
    2:{ rewrite app_length, skipn_length, firstn_length, Hc. change (length c1) with 8%nat.
        replace (8 - r + Nat.min r 8)%nat with 8%nat by lia. reflexivity. }
    rewrite T, (IH c1 eq_refl).
    rewrite (pack_app_aligned c (c1 ++ rest)) by (rewrite Hc; reflexivity).
    assert (exists X, pack c = [X]) as [X EX].
    { pose proof (blen_pack c) as L. rewrite Hc in L. change (to_bytes (N.of_nat 8)) with 1 in L.
      unfold blen in L. destruct (pack c) as [|X [|? ?]]; cbn [length] in L; try lia. eauto. }
    rewrite (pack_app_aligned c1 rest eq_refl).
    assert (exists X1, pack c1 = [X1]) as [X1 EX1] by (unfold c1; rewrite pack_cons8; eauto).
    rewrite EX, EX1. rewrite app_length. change (length c1) with 8%nat.
    replace (8 - N.of_nat r + N.of_nat (8 + length rest)) with (8 + (8 - N.of_nat r + N.of_nat (length rest))) by lia.
    rewrite to_bytes_add8, N2Nat.inj_add. change (N.to_nat 1) with 1%nat. cbn [Nat.add shl_bytes app hd tl].
    reflexivity.
Qed.

Lemma split_zero k kl : valid_bytes k -> blen k = to_bytes kl -> k_split k 0 kl = ([], k).
Proof.
  intros Hv Hl. unfold k_split. change (to_bytes 0) with 0. change (0 mod 8) with 0. change (0 / 8) with 0.
  change (0 =? 0) with true. cbn [negb andb]. rewrite N.sub_0_r, <- Hl. f_equal.
  transitivity (map (nthb k) (nrange (blen k))); [|apply map_nthb_nrange].
  apply map_ext. intros i. rewrite N.add_0_r. apply shl8_0. now apply nthb_valid.
Qed.

Theorem key_split_general (p : path) : forall sp, (sp <= length p)%nat ->
  k_split (pack p) (N.of_nat sp) (N.of_nat (length p)) = (pack (firstn sp p), pack (skipn sp p)).
Proof.
  induction p as [p Hl|b0 b1 b2 b3 b4 b5 b6 b7 rest IH] using chunk8_ind; intros sp Hsp.
  - apply key_split_spec; lia.
  - destruct (Nat.lt_ge_cases sp 8) as [Hlt|Hge].
    + set (c := [b0; b1; b2; b3; b4; b5; b6; b7]).
      change (b0 :: b1 :: b2 :: b3 :: b4 :: b5 :: b6 :: b7 :: rest) with (c ++ rest) in *.
      rewrite firstn_app, skipn_app. change (length c) with 8%nat.
      replace (sp - 8)%nat with 0%nat by lia. cbn [firstn skipn]. rewrite app_nil_r.
      destruct sp as [|sp'].
      * cbn [firstn skipn N.of_nat]. apply split_zero; [apply valid_pack|apply blen_pack].
      * set (r := S sp') in *. assert (0 < r < 8)%nat as Hr by lia.
        rewrite (surjective_pairing (k_split _ _ _)). f_equal.
        -- (* prefix *)
           pose proof split_prefix_table as T. rewrite forallb_forall in T. specialize (T r (in_rs r Hr)).
           rewrite forallb_forall in T. specialize (T c (in_all_paths_len c 8 eq_refl)).
           apply bytes_eqb_eq in T. rewrite T.
           rewrite (pack_app_aligned c rest eq_refl).
           assert (exists X, pack c = [X]) as [X EX] by (unfold c; rewrite pack_cons8; eauto).
           rewrite EX. cbn [app hd]. unfold k_split. cbn [fst].
           rewrite (to_bytes_small (N.of_nat r)) by lia. rewrite (N.mod_small (N.of_nat r) 8) by lia.
           replace (N.of_nat r =? 0) with false by (symmetry; apply N.eqb_neq; lia).
           change (1 - 1) with 0. replace 1 with (1 + 0) at 1 by reflexivity. rewrite take_pad_cons, take_pad_0.
           reflexivity.
        -- (* suffix *)
           rewrite split_suffix_small by lia. rewrite (split_bits r Hr rest c eq_refl).
           f_equal. f_equal. rewrite app_length. change (length c) with 8%nat. f_equal. lia.
    + replace sp with (8 + (sp - 8))%nat by lia. rewrite of_nat_add8, len_cons8, pack_cons8, split_shift.
      rewrite (IH (sp - 8)%nat) by (cbn [length] in Hsp; lia). cbn [fst snd].
      cbn [Nat.add firstn skipn]. now rewrite pack_cons8.
Qed.

(* ---------- CommonPrefixLen ---------- *)
Lemma lcp_app_same (c a b : path) : lcp (c ++ a) (c ++ b) = (length c + lcp a b)%nat.
Proof. induction c as [|x c IH]; cbn; [reflexivity|]. now rewrite Bool.eqb_reflx, IH. Qed.
Lemma lcp_app_neq (ca cb : path) : forall a b, length ca = length cb -> ca <> cb ->
  lcp (ca ++ a) (cb ++ b) = lcp ca cb.
Proof.
  revert cb; induction ca as [|x ca IH]; intros [|y cb] a b Hl Hne; cbn in Hl; try discriminate.
  - contradiction.
  - cbn. destruct (Bool.eqb x y) eqn:E; [|reflexivity]. f_equal. apply IH; [lia|].
    apply Bool.eqb_prop in E. congruence.
Qed.
Lemma lcp_app_r (a : path) : forall c w, (length a <= length c)%nat -> lcp a (c ++ w) = lcp a c.
Proof.
  induction a as [|x a IH]; intros [|y c] w Hl; cbn in *; try lia; try reflexivity.
  destruct (Bool.eqb x y); [|reflexivity]. f_equal. apply IH. lia.
Qed.
Lemma lcp_app_l (a : path) : forall c w, (length a <= length c)%nat -> lcp (c ++ w) a = lcp c a.
Proof.
  induction a as [|x a IH]; intros [|y c] w Hl; cbn in *; try lia; try reflexivity.
  - destruct w; reflexivity.
  - destruct (Bool.eqb y x); [|reflexivity]. f_equal. apply IH. lia.
Qed.
Lemma lcp_nil_r (a : path) : lcp a [] = 0%nat.
Proof. destruct a; reflexivity. Qed.

Lemma cpl_shift x k n k2 m : k_cpl (x :: k) (8 + n) (x :: k2) (8 + m) = 8 + k_cpl k n k2 m.
Proof.
  unfold k_cpl. cbn [eq_prefix_bytes]. rewrite N.eqb_refl.
  replace (N.of_nat (S (eq_prefix_bytes k k2))) with (1 + N.of_nat (eq_prefix_bytes k k2)) by lia.
  set (i := N.of_nat (eq_prefix_bytes k k2)). rewrite !blen_cons, !nthb_succ.
  replace (1 + i =? 1 + blen k) with (i =? blen k)
    by (destruct (N.eqb_spec i (blen k)), (N.eqb_spec (1 + i) (1 + blen k)); try reflexivity; lia).
  replace (1 + i =? 1 + blen k2) with (i =? blen k2)
    by (destruct (N.eqb_spec i (blen k2)), (N.eqb_spec (1 + i) (1 + blen k2)); try reflexivity; lia).
  lia.
Qed.

Lemma cpl_neq x k n y k2 m : x <> y -> lz8 (N.lxor x y) < 8 ->
  k_cpl (x :: k) (8 + n) (y :: k2) (8 + m) = lz8 (N.lxor x y).
Proof.
  intros Hne Hlz. unfold k_cpl. cbn [eq_prefix_bytes].
  replace (x =? y) with false by (symmetry; now apply N.eqb_neq).
  cbn [N.of_nat]. rewrite !blen_cons.
  replace (0 =? 1 + blen k) with false by (symmetry; apply N.eqb_neq; lia).
  replace (0 =? 1 + blen k2) with false by (symmetry; apply N.eqb_neq; lia).
  cbn [negb andb]. rewrite !nthb_0. lia.
Qed.

Lemma cpl_short_long A r y k2 m : 0 < r -> r < 8 -> lz8 (N.lxor A y) <= 8 ->
  k_cpl [A] r (y :: k2) (8 + m) = N.min (if A =? y then 8 else lz8 (N.lxor A y)) r.
Proof.
  intros H0 H8 Hlz. unfold k_cpl. cbn [eq_prefix_bytes]. destruct (A =? y) eqn:E.
  - cbn [eq_prefix_bytes]. change (N.of_nat 1) with 1. change (blen [A]) with 1.
    change (1 =? 1) with true. cbn [negb andb]. lia.
  - change (N.of_nat 0) with 0. change (blen [A]) with 1. rewrite blen_cons.
    change (0 =? 1) with false. replace (0 =? 1 + blen k2) with false by (symmetry; apply N.eqb_neq; lia).
    cbn [negb andb]. rewrite !nthb_0. lia.
Qed.
Lemma cpl_long_short x k n B r : 0 < r -> r < 8 -> lz8 (N.lxor x B) <= 8 ->
  k_cpl (x :: k) (8 + n) [B] r = N.min (if x =? B then 8 else lz8 (N.lxor x B)) r.
Proof.
  intros H0 H8 Hlz. unfold k_cpl. cbn [eq_prefix_bytes]. destruct (x =? B) eqn:E.
  - replace (eq_prefix_bytes k []) with 0%nat by (destruct k; reflexivity).
    change (N.of_nat 1) with 1. change (blen [B]) with 1. change (1 =? 1) with true.
    rewrite andb_false_r. lia.
  - change (N.of_nat 0) with 0. change (blen [B]) with 1. rewrite blen_cons.
    change (0 =? 1) with false. replace (0 =? 1 + blen k) with false by (symmetry; apply N.eqb_neq; lia).
    cbn [negb andb]. rewrite !nthb_0. lia.
Qed.
Lemma cpl_nil_l k2 m : k_cpl [] 0 k2 m = 0.
Proof. unfold k_cpl. cbn [eq_prefix_bytes]. change (N.of_nat 0) with 0. change (blen []) with 0. change (0 =? 0) with true. cbn [negb andb]. lia. Qed.
Lemma cpl_nil_r k n : k_cpl k n [] 0 = 0.
Proof.
  unfold k_cpl. replace (eq_prefix_bytes k []) with 0%nat by (destruct k; reflexivity).
  change (N.of_nat 0) with 0. change (blen []) with 0. change (0 =? 0) with true.
  rewrite andb_false_r. lia.
Qed.

Lemma cpl_byte_table :
  forallb (fun ca => forallb (fun cb =>
     let x := hd 0 (pack ca) in let y := hd 0 (pack cb) in
     (lz8 (N.lxor x y) <=? 8) &&
     (if x =? y then list_eqb Bool.eqb ca cb
      else (lz8 (N.lxor x y) <? 8) && (lz8 (N.lxor x y) =? N.of_nat (lcp ca cb))))
     (all_paths 8)) (all_paths 8) = true.
Proof. vm_compute. reflexivity. Qed.
Lemma cpl_short_table :
  forallb (fun a => forallb (fun cb =>
     let x := hd 0 (pack a) in let y := hd 0 (pack cb) in
     (lz8 (N.lxor x y) <=? 8) && (lz8 (N.lxor y x) <=? 8) &&
     (N.min (if x =? y then 8 else lz8 (N.lxor x y)) (N.of_nat (length a)) =? N.of_nat (lcp a cb)) &&
     (N.min (if y =? x then 8 else lz8 (N.lxor y x)) (N.of_nat (length a)) =? N.of_nat (lcp cb a)))
     (all_paths 8)) (paths_upto 7) = true.
Proof. vm_compute. reflexivity. Qed.

Lemma list_eqb_bool_eq (a b : path) : list_eqb Bool.eqb a b = true -> a = b.
Proof.
  revert b; induction a as [|x a IH]; intros [|y b]; cbn; try discriminate; auto.
  intros H. apply andb_true_iff in H as [H1 H2]. apply Bool.eqb_prop in H1. f_equal; auto.
Qed.

Lemma path_split8 (b : path) :
  (length b < 8)%nat \/ exists c b', b = c ++ b' /\ length c = 8%nat.
Proof.
  destruct (Nat.lt_ge_cases (length b) 8) as [H|H]; [left; exact H|right].
  exists (firstn 8 b), (skipn 8 b). split; [now rewrite firstn_skipn|]. rewrite firstn_length. lia.
Qed.
Lemma pack_chunk (c w : path) : length c = 8%nat ->
  pack (c ++ w) = hd 0 (pack c) :: pack w /\ pack c = [hd 0 (pack c)].
Proof.
  intros Hc. rewrite pack_app_aligned by (rewrite Hc; reflexivity).
  pose proof (blen_pack c) as L. rewrite Hc in L. change (to_bytes (N.of_nat 8)) with 1 in L.
  unfold blen in L. destruct (pack c) as [|X [|? ?]]; cbn [length] in L; try lia. cbn. auto.
Qed.

Theorem key_cpl_general (a : path) : forall b : path,
  k_cpl (pack a) (N.of_nat (length a)) (pack b) (N.of_nat (length b)) = N.of_nat (lcp a b).
Proof.
  induction a as [a Hl|a0 a1 a2 a3 a4 a5 a6 a7 resta IH] using chunk8_ind; intros b.
  - destruct (path_split8 b) as [Hb|(cb & b' & -> & Hcb)].
    + apply key_cpl_spec; lia.
    + destruct a as [|x a'].
      * cbn [pack length lcp]. apply cpl_nil_l.
      * destruct (pack_chunk cb b' Hcb) as [Eb _]. rewrite Eb.
        rewrite pack_one_byte by (cbn [length] in *; lia).
        rewrite app_length, Hcb, of_nat_add8.
        pose proof cpl_short_table as T. rewrite forallb_forall in T.
        assert (length (x :: a') <= 7)%nat as Hle by lia.
        specialize (T (x :: a') (in_paths_upto 7 _ Hle)). rewrite forallb_forall in T.
        specialize (T cb (in_all_paths_len _ _ Hcb)). cbv zeta in T.
        apply andb_true_iff in T as [T _]. apply andb_true_iff in T as [T T3].
        apply andb_true_iff in T as [T1 _]. apply N.leb_le in T1. apply N.eqb_eq in T3.
        rewrite cpl_short_long by (cbn [length] in *; lia || exact T1).
        rewrite T3. f_equal. symmetry. apply lcp_app_r. lia.
  - set (ca := [a0; a1; a2; a3; a4; a5; a6; a7]).
    change (a0 :: a1 :: a2 :: a3 :: a4 :: a5 :: a6 :: a7 :: resta) with (ca ++ resta).
    destruct (pack_chunk ca resta eq_refl) as [Ea _]. rewrite Ea.
    rewrite app_length. change (length ca) with 8%nat. rewrite of_nat_add8.
    destruct (path_split8 b) as [Hb|(cb & b' & -> & Hcb)].
    + destruct b as [|y b0].
      * cbn [pack length]. rewrite lcp_nil_r. apply cpl_nil_r.
      * rewrite (pack_one_byte (y :: b0)) by (cbn [length] in *; lia).
        pose proof cpl_short_table as T. rewrite forallb_forall in T.
        assert (length (y :: b0) <= 7)%nat as Hle by lia.
        specialize (T (y :: b0) (in_paths_upto 7 _ Hle)). rewrite forallb_forall in T.
        specialize (T ca (in_all_paths_len ca 8 eq_refl)). cbv zeta in T.
        apply andb_true_iff in T as [T T4]. apply andb_true_iff in T as [T _].
        apply andb_true_iff in T as [_ T2]. apply N.leb_le in T2. apply N.eqb_eq in T4.
        rewrite cpl_long_short by (cbn [length] in *; lia || exact T2).
        rewrite T4. f_equal. symmetry. apply lcp_app_l. cbn [length] in *. change (length ca) with 8%nat. lia.
    + destruct (pack_chunk cb b' Hcb) as [Eb _]. rewrite Eb.
      rewrite app_length, Hcb, of_nat_add8.
      pose proof cpl_byte_table as T. rewrite forallb_forall in T.
      specialize (T ca (in_all_paths_len ca 8 eq_refl)). rewrite forallb_forall in T.
      specialize (T cb (in_all_paths_len _ _ Hcb)). cbv zeta in T.
      apply andb_true_iff in T as [T1 T]. 
      destruct (hd 0 (pack ca) =? hd 0 (pack cb)) eqn:E.
      * apply N.eqb_eq in E. apply list_eqb_bool_eq in T. subst cb.
        rewrite cpl_shift, IH, lcp_app_same. change (length ca) with 8%nat. lia.
      * apply N.eqb_neq in E. apply andb_true_iff in T as [T2 T3].
        apply N.ltb_lt in T2. apply N.eqb_eq in T3.
        rewrite cpl_neq by assumption. rewrite T3. f_equal. symmetry. apply lcp_app_neq.
        -- now rewrite Hcb.
        -- intros ->. apply E. reflexivity.
Qed.
