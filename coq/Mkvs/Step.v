(* Small-step model of the doInsert descent (insert.go:59-170) over the node
   cache of Mkvs/Lazy.v, with cache evictions BETWEEN the steps of one
   operation.  The descent is a zipper: the frames are the internal nodes on
   the Go call stack (each holds its node object n), [cur] is the pointer being
   dereferenced next.
   * Evicting anything that is not on the call stack (a sibling subtree of a
     frame, or the pointer about to be visited) is harmless.
   * Evicting a node that IS on the call stack (possible, because path nodes are
     still clean on the way down; cache.go tryEvictInternal takes the LRU back)
     nils ptr.Node and the node object's child pointers (cache.go:251-279):
     the frame later writes into the orphaned object and marks the pointer
     dirty, leaving a dirty pointer without node, i.e. an empty subtree
     (commit.go:177 "dead node").  This is finding F2.
   Definitions only; proofs in Mkvs/StepProofs.v. *)
From Verif Require Import Lib.Base Mkvs.Trie Mkvs.Lazy.

Definition ref (t : tree) : ptree := match t with Nil => PNil | _ => PRef t end.

(* db.GetNode: one node, children as hash pointers *)
Definition load1 (t : tree) : ptree :=
  match t with
  | Nil => PNil
  | Leaf k v => PLeaf true k v
  | Node lbl lf l r =>
      PNode true lbl (match lf with Some (k, v) => PLeaf true k v | None => PNil end) (ref l) (ref r)
  end.

(* derefNodePtr on one pointer (cache.go:325-383) *)
Definition deref1 (p : ptree) : ptree :=
  match p with
  | PRef t => load1 t
  | PNode c lbl (PRef tl) l r => if c then PNode c lbl (full tl) l r else PNil
  | _ => p
  end.

(* one internal node on the call stack *)
Record frame := mkF {
  f_clean : bool;        (* n.Clean when it was dereferenced *)
  f_lbl : path;
  f_lf : ptree;
  f_right : bool;        (* the descent continued into n.Right *)
  f_sib : ptree;         (* the other child *)
  f_dead : bool          (* the node was evicted while on the stack *)
}.

Inductive istate :=
| IDown (fs : list frame) (d : nat) (cur : ptree)    (* frames deepest first *)
| IUp (fs : list frame) (res : ptree)
| IDone (res : ptree).

Section Insert.
  Variables k v : bytes.

  (* insert.go:66-131: dereference, compare the label, recurse or rewrite locally *)
  Definition down_step (fs : list frame) (d : nat) (cur : ptree) : istate :=
    match deref1 cur with
    | PNode c lbl lf l r =>
        let d' := (d + length lbl)%nat in
        if (lcp lbl (skipn d (bits_of k)) =? length lbl)%nat && negb (length (bits_of k) =? d')%nat
        then if bit (bits_of k) d'
             then IDown (mkF c lbl lf true l false :: fs) d' r
             else IDown (mkF c lbl lf false r false :: fs) d' l
        else IUp fs (full (insert d k v (view (PNode c lbl lf l r))))
    | n => IUp fs (full (insert d k v (view n)))
    end.

  (* insert.go:107-129: n.Left/Right = result.newRoot; mark dirty; return ptr *)
  Definition up_step (fs : list frame) (res : ptree) : istate :=
    match fs with
    | [] => IDone res
    | f :: fs' =>
        IUp fs' (if f_dead f then PNil
                 else PNode false (f_lbl f) (f_lf f)
                            (if f_right f then f_sib f else res)
                            (if f_right f then res else f_sib f))
    end.

  Definition istep (s : istate) : istate :=
    match s with
    | IDown fs d cur => down_step fs d cur
    | IUp fs res => up_step fs res
    | IDone res => s
    end.

  (* events between steps *)
  Inductive ievent :=
  | EStep
  | EEvictSib (i : nat) (p' : ptree)   (* evictions inside the sibling subtree of frame i *)
  | EEvictCur (p' : ptree)             (* evictions inside the pointer about to be visited *)
  | EEvictPath (i : nat).              (* eviction of the node of frame i itself *)

  Fixpoint set_sib (fs : list frame) (i : nat) (p' : ptree) : list frame :=
    match fs, i with
    | [], _ => []
    | f :: r, O => mkF (f_clean f) (f_lbl f) (f_lf f) (f_right f) p' (f_dead f) :: r
    | f :: r, S i' => f :: set_sib r i' p'
    end.
  (* tryRemoveNode on the node of frame i removes everything cached below it:
     frame i and all deeper frames are orphaned *)
  Fixpoint kill_upto (fs : list frame) (i : nat) : list frame :=
    match fs with
    | [] => []
    | f :: r =>
        mkF (f_clean f) (f_lbl f) (f_lf f) (f_right f) (f_sib f) true ::
        match i with O => r | S i' => kill_upto r i' end
    end.
  Definition frames_of (s : istate) : list frame :=
    match s with IDown fs _ _ => fs | IUp fs _ => fs | IDone _ => [] end.
  Definition with_frames (s : istate) (fs : list frame) : istate :=
    match s with IDown _ d cur => IDown fs d cur | IUp _ res => IUp fs res | IDone r => IDone r end.

  Definition iapply (s : istate) (e : ievent) : istate :=
    match e with
    | EStep => istep s
    | EEvictSib i p' => with_frames s (set_sib (frames_of s) i p')
    | EEvictCur p' => match s with IDown fs d _ => IDown fs d p' | _ => s end
    | EEvictPath i => with_frames s (kill_upto (frames_of s) i)
    end.

  (* which events the cache may produce in a state *)
  Definition legal (s : istate) (e : ievent) : Prop :=
    match e with
    | EStep => True
    | EEvictSib i p' =>
        exists f, nth_error (frames_of s) i = Some f /\ evicts (f_sib f) p'
    | EEvictCur p' => match s with IDown _ _ cur => evicts cur p' | _ => False end
    | EEvictPath i =>
        exists f, nth_error (frames_of s) i = Some f /\ f_clean f = true
    end.
  Definition off_path (e : ievent) : Prop := match e with EEvictPath _ => False | _ => True end.

  Fixpoint irun (s : istate) (es : list ievent) : istate :=
    match es with [] => s | e :: r => irun (iapply s e) r end.
  Fixpoint legal_run (s : istate) (es : list ievent) : Prop :=
    match es with [] => True | e :: r => legal s e /\ legal_run (iapply s e) r end.
End Insert.
