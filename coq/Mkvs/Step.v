(* Small-step model of the doInsert descent (insert.go:59-170) over the node
   cache of Mkvs/Lazy.v, with cache evictions BETWEEN the steps of one
   operation.  The descent is a zipper: the frames are the internal nodes on
   the Go call stack (each holds its node object n), [cur] is the pointer being
   dereferenced next.
   * Evicting anything that is not on the call stack (a sibling subtree of a
     frame, or the pointer about to be visited) is harmless.
   * Evicting a node that IS on the call stack (possible, because path nodes are
     still clean on the way down; cache.go tryEvictInternal takes the LRU back)
     nils ptr.Node and the node object's child pointers (cache.go:251-279):
     the frame later writes into the orphaned object and marks the pointer
     dirty, leaving a dirty pointer without node, i.e. an empty subtree
     (commit.go:177 "dead node").  This is finding F2.
   Definitions only; proofs in Mkvs/StepProofs.v. *)
From Verif Require Import Lib.Base Mkvs.Trie Mkvs.Lazy.

Definition ref (t : tree) : ptree := match t with Nil => PNil | _ => PRef t end.

(* db.GetNode: one node, children as hash pointers *)
Definition load1 (t : tree) : ptree :=
  match t with
  | Nil => PNil
  | Leaf k v => PLeaf true k v
  | Node lbl lf l r =>
      PNode true lbl (match lf with Some (k, v) => PLeaf true k v | None => PNil end) (ref l) (ref r)
  end.

(* derefNodePtr on one pointer (cache.go:325-383) *)
Definition deref1 (p : ptree) : ptree :=
  match p with
  | PRef t => load1 t
  | PNode c lbl (PRef tl) l r => if c then PNode c lbl (full tl) l r else PNil
  | _ => p
  end.

(* one internal node on the call stack *)
Record frame := mkF {
  f_clean : bool;        (* n.Clean when it was dereferenced *)
  f_lbl : path;
  f_lf : ptree;
  f_right : bool;        (* the descent continued into n.Right *)
  f_sib : ptree;         (* the other child *)
  f_dead : bool          (* the node was evicted while on the stack *)
}.

Inductive istate :=
| IDown (fs : list frame) (d : nat) (cur : ptree)    (* frames deepest first *)
| IUp (fs : list frame) (res : ptree)
| IDone (res : ptree).

Section Insert.
  Variables k v : bytes.

  (* insert.go:66-131: dereference, compare the label, recurse or rewrite locally *)
  Definition down_step (fs : list frame) (d : nat) (cur : ptree) : istate :=
    match deref1 cur with
    | PNode c lbl lf l r =>
        let d' := (d + length lbl)%nat in
        if (lcp lbl (skipn d (bits_of k)) =? length lbl)%nat && negb (length (bits_of k) =? d')%nat
        then if bit (bits_of k) d'
             then IDown (mkF c lbl lf true l false :: fs) d' r
             else IDown (mkF c lbl lf false r false :: fs) d' l
        else IUp fs (full (insert d k v (view (PNode c lbl lf l r))))
    | n => IUp fs (full (insert d k v (view n)))
    end.

  (* insert.go:107-129: n.Left/Right = result.newRoot; mark dirty; return ptr *)
  Definition up_step (fs : list frame) (res : ptree) : istate :=
    match fs with
    | [] => IDone res
    | f :: fs' =>
        IUp fs' (if f_dead f then PNil
                 else PNode false (f_lbl f) (f_lf f)
                            (if f_right f then f_sib f else res)
                            (if f_right f then res else f_sib f))
    end.

  Definition istep (s : istate) : istate :=
    match s with
    | IDown fs d cur => down_step fs d cur
    | IUp fs res => up_step fs res
    | IDone res => s
    end.

  (* events between steps *)
  Inductive ievent :=
  | EStep
  | EEvictSib (i : nat) (p' : ptree)   (* evictions inside the sibling subtree of frame i *)
  | EEvictCur (p' : ptree)             (* evictions inside the pointer about to be visited *)
  | EEvictPath (i : nat).              (* eviction of the node of frame i itself *)

  Fixpoint set_sib (fs : list frame) (i : nat) (p' : ptree) : list frame :=
    match fs, i with
    | [], _ => []
    | f :: r, O => mkF (f_clean f) (f_lbl f) (f_lf f) (f_right f) p' (f_dead f) :: r
    | f :: r, S i' => f :: set_sib r i' p'
    end.
  (* tryRemoveNode on the node of frame i removes everything cached below it:
     frame i and all deeper frames are orphaned *)
  Fixpoint kill_upto (fs : list frame) (i : nat) : list frame :=
    match fs with
    | [] => []
    | f :: r =>
        mkF (f_clean f) (f_lbl f) (f_lf f) (f_right f) (f_sib f) true ::
        match i with O => r | S i' => kill_upto r i' end
    end.
  Definition frames_of (s : istate) : list frame :=
    match s with IDown fs _ _ => fs | IUp fs _ => fs | IDone _ => [] end.
  Definition with_frames (s : istate) (fs : list frame) : istate :=
    match s with IDown _ d cur => IDown fs d cur | IUp _ res => IUp fs res | IDone r => IDone r end.

  Definition iapply (s : istate) (e : ievent) : istate :=
    match e with
    | EStep => istep s
    | EEvictSib i p' => with_frames s (set_sib (frames_of s) i p')
    | EEvictCur p' => match s with IDown fs d _ => IDown fs d p' | _ => s end
    | EEvictPath i => with_frames s (kill_upto (frames_of s) i)
    end.

  (* which events the cache may produce in a state *)
  Definition legal (s : istate) (e : ievent) : Prop :=
    match e with
    | EStep => True
    | EEvictSib i p' =>
        exists f, nth_error (frames_of s) i = Some f /\ evicts (f_sib f) p'
    | EEvictCur p' => match s with IDown _ _ cur => evicts cur p' | _ => False end
    | EEvictPath i =>
        exists f, nth_error (frames_of s) i = Some f /\ f_clean f = true
    end.
  Definition off_path (e : ievent) : Prop := match e with EEvictPath _ => False | _ => True end.

  Fixpoint irun (s : istate) (es : list ievent) : istate :=
    match es with [] => s | e :: r => irun (iapply s e) r end.
  Fixpoint legal_run (s : istate) (es : list ievent) : Prop :=
    match es with [] => True | e :: r => legal s e /\ legal_run (iapply s e) r end.
End Insert.

(* ------------------------------------------------------------------ *)
(* doRemove (remove.go:55-200, as repaired in 8b362ab): after the "key too
   short" early return both children are dereferenced BEFORE the descent
   (:88-95), the recursive result is stored into n.LeafNode/n.Right/n.Left only
   on success (:99-116), then on the way up the parent dereferences n.Left and
   then n.Right again before deciding whether to collapse (:118-131).  An eviction BETWEEN these two dereferences that hits the embedded
   leaf of the dirty internal node on the other side makes that node read as
   nil (cache.go:340-355), and the parent collapses the branch away: the
   transient variant of finding F1. *)
Inductive rstate :=
| RDown (fs : list frame) (d : nat) (cur : ptree)
| RPre0 (fs : list frame) (d : nat) (c : bool) (lbl : path) (lf l r : ptree)   (* node dereferenced, key long enough *)
| RPre1 (fs : list frame) (d : nat) (c : bool) (lbl : path) (lf l r : ptree)   (* n.Left pre-dereferenced (:90) *)
| RRet (fs : list frame) (res : ptree)                        (* a call returns res to its parent *)
| RCol0 (fs : list frame) (lbl : path) (lf l r : ptree)       (* children assigned; nothing dereferenced yet *)
| RCol1 (fs : list frame) (lbl : path) (lf l r : ptree) (lp : bool)   (* n.Left dereferenced *)
| RDone (res : ptree).

Definition non_nil (p : ptree) : bool := match deref1 p with PNil => false | _ => true end.
Definition has_leaf (lf : ptree) : bool := match lf with PLeaf _ _ _ => true | _ => false end.  (* n.LeafNode.Node != nil *)

(* remove.go:133-176 *)
Definition pcollapse (lbl : path) (lf l r : ptree) (lp rp : bool) : ptree :=
  if has_leaf lf && negb lp && negb rp then lf
  else if negb (has_leaf lf) && (negb lp || negb rp) then
    match deref1 (if lp then l else r) with
    | PNode c lbl' lf' l' r' => PNode false (lbl ++ lbl') lf' l' r'      (* :152-166 *)
    | n => n
    end
  else PNode false lbl lf l r.

Section Remove.
  Variable k : bytes.

  Definition rdown_step (fs : list frame) (d : nat) (cur : ptree) : rstate :=
    match deref1 cur with
    | PNode c lbl lf l r =>
        if (length (bits_of k) <? d + length lbl)%nat then RRet fs cur         (* :83-86 *)
        else RPre0 fs d c lbl lf l r
    | n => RRet fs (full (fst (fst (remove d k (view n)))))                    (* leaf or nil *)
    end.

  (* :99-116: recurse; the result is stored into the node on success *)
  Definition rdescend (fs : list frame) (d : nat) (c : bool) (lbl : path) (lf l r : ptree) : rstate :=
    let d' := (d + length lbl)%nat in
    if (length (bits_of k) =? d')%nat then
      RCol0 fs lbl (match lf with
                    | PLeaf _ k0 _ => if bytes_eqb k0 k then PNil else lf
                    | _ => lf
                    end) l r
    else if bit (bits_of k) d' then RDown (mkF c lbl lf true l false :: fs) d' r
    else RDown (mkF c lbl lf false r false :: fs) d' l.

  Definition rstep (s : rstate) : rstate :=
    match s with
    | RDown fs d cur => rdown_step fs d cur
    | RPre0 fs d c lbl lf l r => RPre1 fs d c lbl lf l r                     (* :90 deref n.Left *)
    | RPre1 fs d c lbl lf l r => rdescend fs d c lbl lf l r                  (* :93 deref n.Right, then descend *)
    | RRet [] res => RDone res
    | RRet (f :: fs) res =>
        RCol0 fs (f_lbl f) (f_lf f) (if f_right f then f_sib f else res) (if f_right f then res else f_sib f)
    | RCol0 fs lbl lf l r => RCol1 fs lbl lf l r (non_nil l)               (* :124 deref n.Left *)
    | RCol1 fs lbl lf l r lp => RRet fs (pcollapse lbl lf l r lp (non_nil r))   (* :128 deref n.Right, collapse *)
    | RDone _ => s
    end.

  Inductive revent :=
  | RStep
  | REvictL (p' : ptree)        (* evictions inside n.Left of the node at hand *)
  | REvictR (p' : ptree)        (* evictions inside n.Right *)
  | REvictSib (i : nat) (p' : ptree)
  | REvictCur (p' : ptree).

  Definition rframes (s : rstate) : list frame :=
    match s with
    | RDown fs _ _ | RRet fs _ | RCol0 fs _ _ _ _ | RCol1 fs _ _ _ _ _
    | RPre0 fs _ _ _ _ _ _ | RPre1 fs _ _ _ _ _ _ => fs
    | RDone _ => []
    end.
  Definition rwith_frames (s : rstate) (fs : list frame) : rstate :=
    match s with
    | RDown _ d c => RDown fs d c | RRet _ r => RRet fs r
    | RPre0 _ d c a b x y => RPre0 fs d c a b x y | RPre1 _ d c a b x y => RPre1 fs d c a b x y
    | RCol0 _ a b c d => RCol0 fs a b c d | RCol1 _ a b c d e => RCol1 fs a b c d e
    | RDone r => RDone r
    end.

  Definition rapply (s : rstate) (e : revent) : rstate :=
    match e, s with
    | RStep, _ => rstep s
    | REvictL p', RCol0 fs lbl lf l r => RCol0 fs lbl lf p' r
    | REvictL p', RCol1 fs lbl lf l r lp => RCol1 fs lbl lf p' r lp
    | REvictL p', RPre0 fs d c lbl lf l r => RPre0 fs d c lbl lf p' r
    | REvictL p', RPre1 fs d c lbl lf l r => RPre1 fs d c lbl lf p' r
    | REvictR p', RCol0 fs lbl lf l r => RCol0 fs lbl lf l p'
    | REvictR p', RCol1 fs lbl lf l r lp => RCol1 fs lbl lf l p' lp
    | REvictR p', RPre0 fs d c lbl lf l r => RPre0 fs d c lbl lf l p'
    | REvictR p', RPre1 fs d c lbl lf l r => RPre1 fs d c lbl lf l p'
    | REvictSib i p', _ => rwith_frames s (set_sib (rframes s) i p')
    | REvictCur p', RDown fs d _ => RDown fs d p'
    | _, _ => s
    end.

  (* [ev] = which evictions are allowed: [evicts] (never the embedded leaf of a
     dirty node) for the invisibility theorem, any chain of [evict] for the cache
     as it is *)
  Definition rlegal (ev : ptree -> ptree -> Prop) (s : rstate) (e : revent) : Prop :=
    match e, s with
    | RStep, _ => True
    | REvictL p', RCol0 _ _ _ l _ | REvictL p', RCol1 _ _ _ l _ _
    | REvictL p', RPre0 _ _ _ _ _ l _ | REvictL p', RPre1 _ _ _ _ _ l _ => ev l p'
    | REvictR p', RCol0 _ _ _ _ r | REvictR p', RCol1 _ _ _ _ r _
    | REvictR p', RPre0 _ _ _ _ _ _ r | REvictR p', RPre1 _ _ _ _ _ _ r => ev r p'
    | REvictSib i p', _ => exists f, nth_error (rframes s) i = Some f /\ ev (f_sib f) p'
    | REvictCur p', RDown _ _ cur => ev cur p'
    | _, _ => False
    end.
  Fixpoint rrun (s : rstate) (es : list revent) : rstate :=
    match es with [] => s | e :: r => rrun (rapply s e) r end.
  Fixpoint rlegal_run (ev : ptree -> ptree -> Prop) (s : rstate) (es : list revent) : Prop :=
    match es with [] => True | e :: r => rlegal ev s e /\ rlegal_run ev (rapply s e) r end.
End Remove.

(* any chain of single evictions *)
Inductive evict_star : ptree -> ptree -> Prop :=
| es_refl p : evict_star p p
| es_step p q r : evict p q -> evict_star q r -> evict_star p r.
