(* Byte-level port of treeIterator (go/storage/mkvs/iterator.go:182-310):
   Seek / Next / doNext with its visit states, takeFirst, keyNotLonger, the key
   reconstruction through Key.Merge / Key.AppendBit / Key.Split, and the
   position stack.  Definitions only; proofs in Mkvs/IterProofs.v. *)
From Verif Require Import Lib.Base Mkvs.Trie Mkvs.Key Mkvs.Overlay.

Inductive vstate := VBefore | VAt | VAtLeft | VAfter.     (* iterator.go:112-119 *)

(* pathAtom, iterator.go:121-126 (ptr = the subtree) *)
Record atom := mkAtom { a_state : vstate; a_node : tree; a_depth : N; a_path : bytes }.

Definition cmp_lt (a b : bytes) : bool := match bytes_cmp a b with Lt => true | _ => false end.

Definition found := option (entry * list atom).   (* it.key/it.value and the new part of it.pos *)

Definition push (r : found) (a : atom) : found :=
  match r with Some (e, stk) => Some (e, stk ++ [a]) | None => None end.
Definition orelse (r : found) (k : unit -> found) : found :=
  match r with Some x => Some x | None => k tt end.

(* advanceKeyToRight, iterator.go:261-264 *)
Definition adv_key (nd : N) (k : bytes) : bytes :=
  k_appendbit (fst (k_split k nd (k_bitlen k))) nd true.

(* the visit-state machine of one internal node (iterator.go:266-298);
   [try_lf], [try_l], [try_r] are tryNext (:250-259) on LeafNode / Left / Right *)
Definition node_step (try_lf try_l try_r : bytes -> found) (nd : N) (npath key : bytes)
           (st : vstate) : found :=
  let take_first := (0 <? nd) && (nd <=? k_bitlen key) && cmp_lt key npath in   (* :268 *)
  let key_not_longer := k_bitlen key <=? nd in                                   (* :269 *)
  let from_at (key : bytes) : found :=                                           (* :280-293 *)
    let key := if key_not_longer then k_appendbit key nd false else key in
    if negb (k_getbit key nd) || take_first
    then orelse (try_l key) (fun _ => try_r (adv_key nd key))
    else try_r key in
  match st with
  | VBefore =>                                                                   (* :272-279 *)
      if key_not_longer || take_first
      then orelse (try_lf key) (fun _ => from_at key)
      else from_at key
  | VAt => from_at key
  | VAtLeft => try_r (adv_key nd key)                                            (* :294-298 *)
  | VAfter => None
  end.

(* doNext, iterator.go:228-310 *)
Fixpoint do_next (t : tree) (d : N) (path key : bytes) (st : vstate) : found :=
  match t with
  | Nil => None                                                         (* :244 *)
  | Leaf k v => if cmp_lt k key then None else Some ((k, v), [])        (* :300-304 *)
  | Node lbl lf l r =>
      let nd := d + N.of_nat (length lbl) in                            (* :247 newBitDepth *)
      let npath := k_merge path d (pack lbl) (N.of_nat (length lbl)) in (* :248 newPath *)
      node_step
        (fun key => match lf with
                    | Some (k0, v0) =>
                        if cmp_lt k0 key then None else Some ((k0, v0), [mkAtom VAt t d path])
                    | None => None
                    end)
        (fun key => push (do_next l nd npath key VBefore) (mkAtom VAtLeft t d path))
        (fun key => push (do_next r nd npath key VBefore) (mkAtom VAfter t d path))
        nd npath key st
  end.

(* Seek, iterator.go:182-194 *)
Definition it_seek (t : tree) (key : bytes) : found := do_next t 0 [] key VBefore.

(* Next, iterator.go:196-226: resume at the deepest atom with the CURRENT key *)
Fixpoint it_next (key : bytes) (pos : list atom) : found :=
  match pos with
  | [] => None
  | a :: rem =>
      match do_next (a_node a) (a_depth a) (a_path a) key (a_state a) with
      | Some (e, stk) => Some (e, stk ++ rem)
      | None => it_next key rem
      end
  end.

(* Seek followed by Next until the iterator is invalid *)
Fixpoint it_collect (fuel : nat) (cur : found) : list entry :=
  match fuel, cur with
  | S f, Some (e, pos) => e :: it_collect f (it_next (fst e) pos)
  | _, _ => []
  end.
Definition port_iter (k : bytes) (t : tree) : list entry :=
  it_collect (S (length (contents t))) (it_seek t k).

(* ---------- the store of Overlay.v with the ported tree iterator ---------- *)
Fixpoint s_iter_p (k : bytes) (s : tstate) (os : list overlay) : list entry :=
  match os with
  | [] => port_iter k (tr s)
  | o :: rest => merge_iter (dirty o) (s_iter_p k s rest) (al_seek k (ov o))
  end.

Definition s_step_p (st : store) (o : sop) : store * sres :=
  match o with
  | SIter k n => (st, RIter (firstn (S n) (s_iter_p k (fst st) (snd st))))
  | _ => s_step st o
  end.

Fixpoint s_run_p (st : store) (ops : list sop) : store * list sres :=
  match ops with
  | [] => (st, [])
  | o :: r =>
      let '(st1, res) := s_step_p st o in
      let '(st2, rs) := s_run_p st1 r in
      (st2, res :: rs)
  end.
