(* treeOverlay.Copy (overlay.go:97-112): an overlay and its copy share the inner
   tree but own their overlay map and dirty set.  The store of Overlay.v (a tree
   with a stack of overlays, top = A) is extended with an optional sibling B, a
   copy of A over the same inner stack.  Definitions only; proofs in
   Mkvs/ForkProofs.v. *)
From Verif Require Import Lib.Base Mkvs.Trie Mkvs.Overlay Mkvs.Key Mkvs.Iter.

Definition fstore := (store * option overlay)%type.

Inductive fop :=
| FA (o : sop)        (* an operation on the main stack (its top is A) *)
| FFork               (* B := A.Copy(nil)   (needs a non-empty stack, no B yet) *)
| FB (o : sop)        (* an operation on the copy B *)
| FCloseB.            (* B.Close() *)

(* the operations that make sense on one side while both exist *)
Definition side_op (o : sop) : bool :=
  match o with
  | SIns _ _ | SRem _ | SRemEx _ | SGet _ | SIter _ _ | SOvCommit => true
  | _ => false
  end.
(* those that do not write into the shared inner tree *)
Definition local_op (o : sop) : bool :=
  match o with
  | SIns _ _ | SRem _ | SRemEx _ | SGet _ | SIter _ _ => true
  | _ => false
  end.

Definition f_step (fs : fstore) (o : fop) : fstore * sres :=
  let '(st, b) := fs in
  match o with
  | FA o' => let '(st', res) := s_step_p st o' in ((st', b), res)
  | FFork =>
      match snd st, b with
      | a :: _, None => ((st, Some a), RUnit)          (* Copy duplicates overlay map and dirty set *)
      | _, _ => (fs, RUnit)
      end
  | FB o' =>
      match snd st, b with
      | a :: rest, Some ob =>
          let '(st', res) := s_step_p (fst st, ob :: rest) o' in
          match snd st' with
          | ob' :: rest' => (((fst st', a :: rest'), Some ob'), res)
          | [] => (fs, res)
          end
      | _, _ => (fs, RUnit)
      end
  | FCloseB => ((st, None), RUnit)
  end.

Fixpoint f_run (fs : fstore) (ops : list fop) : fstore * list sres :=
  match ops with
  | [] => (fs, [])
  | o :: r =>
      let '(fs1, res) := f_step fs o in
      let '(fs2, rs) := f_run fs1 r in
      (fs2, res :: rs)
  end.

(* what an observer of one side can see *)
Definition obs_a (fs : fstore) (k : bytes) : option bytes * list entry :=
  (s_get k (fst (fst fs)) (snd (fst fs)), s_iter_p k (fst (fst fs)) (snd (fst fs))).
Definition obs_b (fs : fstore) (k : bytes) : option (option bytes * list entry) :=
  match snd (fst fs), snd fs with
  | _ :: rest, Some ob => Some (s_get k (fst (fst fs)) (ob :: rest), s_iter_p k (fst (fst fs)) (ob :: rest))
  | _, _ => None
  end.
