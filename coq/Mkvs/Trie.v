(* Model of the MKVS compressed binary Patricia trie of oasis-core
   (go/storage/mkvs).  Executable definitions only; proofs are in
   Mkvs/BitsProofs.v, Mkvs/TrieProofs.v, Mkvs/HashProofs.v.

   Keys and values are byte strings ([bytes] = [list N]); a trie path is a
   list of bits, most significant bit of every byte first
   (node/key.go:91 GetBit: k[bit/8] & (1 << (7 - bit%8))).

   STABLE INTERFACE (other models build on it; names are not to change):
     path byte_bits bits_of pack lcp bit
     tree(Nil,Leaf,Node) insert remove lookup contents
     tinsert tremove tlookup op(OIns,ORem) apply_op run
     valid_bytes is_prefix starts present wf_at wf bounded
     hexpr(HBytes,HCat,HHash) eval_hexpr le_bytes leaf_hexpr empty_hexpr
     opt_leaf_hexpr hash_expr root_hash commit commit_known
     al_get al_set al_del (sorted association lists = the abstract map) *)
From Verif Require Import Lib.Base.

(* ------------------------------------------------------------------ *)
(* Bits                                                                 *)
(* ------------------------------------------------------------------ *)
Definition path := list bool.

(* the 8 bits of a byte, most significant first (value taken mod 256) *)
Definition byte_bits (b : N) : path :=
  [N.testbit b 7; N.testbit b 6; N.testbit b 5; N.testbit b 4;
   N.testbit b 3; N.testbit b 2; N.testbit b 1; N.testbit b 0].

Fixpoint bits_of (k : bytes) : path :=
  match k with
  | [] => []
  | b :: r => byte_bits b ++ bits_of r
  end.

Definition bv (b : bool) (w : N) : N := if b then w else 0.

(* [pack p]: the bits packed into bytes, MSB first, the last byte padded with
   zero bits.  This is the representation of InternalNode.Label (node/key.go
   Split cleans the remainder of the last prefix byte; suffix bits are shifted
   in with zeros; Merge ORs into a zeroed buffer). *)
Fixpoint pack (p : path) : bytes :=
  match p with
  | [] => []
  | b0 :: b1 :: b2 :: b3 :: b4 :: b5 :: b6 :: b7 :: rest =>
      (bv b0 128 + bv b1 64 + bv b2 32 + bv b3 16 + bv b4 8 + bv b5 4 + bv b6 2 + bv b7 1)
        :: pack rest
  | [b0; b1; b2; b3; b4; b5; b6] =>
      [bv b0 128 + bv b1 64 + bv b2 32 + bv b3 16 + bv b4 8 + bv b5 4 + bv b6 2]
  | [b0; b1; b2; b3; b4; b5] =>
      [bv b0 128 + bv b1 64 + bv b2 32 + bv b3 16 + bv b4 8 + bv b5 4]
  | [b0; b1; b2; b3; b4] => [bv b0 128 + bv b1 64 + bv b2 32 + bv b3 16 + bv b4 8]
  | [b0; b1; b2; b3] => [bv b0 128 + bv b1 64 + bv b2 32 + bv b3 16]
  | [b0; b1; b2] => [bv b0 128 + bv b1 64 + bv b2 32]
  | [b0; b1] => [bv b0 128 + bv b1 64]
  | [b0] => [bv b0 128]
  end.

(* length of the longest common prefix (node/key.go:186 CommonPrefixLen,
   which is additionally clamped to both bit lengths: implied here because the
   arguments are exact bit lists) *)
Fixpoint lcp (a b : path) : nat :=
  match a, b with
  | x :: a', y :: b' => if Bool.eqb x y then S (lcp a' b') else O
  | _, _ => O
  end.

Definition bit (p : path) (i : nat) : bool := nth i p false.

(* ------------------------------------------------------------------ *)
(* The tree                                                             *)
(* ------------------------------------------------------------------ *)
Inductive tree :=
| Nil
| Leaf (k v : bytes)                       (* node.LeafNode: full key, value *)
| Node (lbl : path)                        (* Label / LabelBitLength         *)
       (lf : option (bytes * bytes))       (* LeafNode: key ending exactly here *)
       (l r : tree).                       (* Left (next bit 0) / Right (1)  *)

Definition present (t : tree) : nat := match t with Nil => 0%nat | _ => 1%nat end.
Definition present_lf (lf : option (bytes * bytes)) : nat :=
  match lf with None => 0%nat | Some _ => 1%nat end.

(* in-order contents: the node's own leaf, then left, then right *)
Definition lf_contents (lf : option (bytes * bytes)) : list (bytes * bytes) :=
  match lf with None => [] | Some e => [e] end.
Fixpoint contents (t : tree) : list (bytes * bytes) :=
  match t with
  | Nil => []
  | Leaf k v => [(k, v)]
  | Node _ lf l r => lf_contents lf ++ contents l ++ contents r
  end.

(* doInsert, insert.go:59-247.  [d] = bitDepth (bits consumed above [t]). *)
Fixpoint insert (d : nat) (k v : bytes) (t : tree) : tree :=
  match t with
  | Nil => Leaf k v                                            (* :78-86 *)
  | Leaf k' v' =>                                              (* :171-243 *)
      if bytes_eqb k' k then Leaf k' v                         (* :173-197 value update *)
      else
        let kr := skipn d (bits_of k) in
        let kr' := skipn d (bits_of k') in
        let cp := lcp kr' kr in                                (* :201 *)
        let pre := firstn cp kr' in                            (* :204 labelPrefix *)
        if (length kr =? cp)%nat then                          (* :209 inserted key is a prefix *)
          if bit kr' cp then Node pre (Some (k, v)) Nil (Leaf k' v')
          else Node pre (Some (k, v)) (Leaf k' v') Nil
        else if (length kr' =? cp)%nat then                    (* :219 existing key is a prefix *)
          if bit kr cp then Node pre (Some (k', v')) Nil (Leaf k v)
          else Node pre (Some (k', v')) (Leaf k v) Nil
        else if bit kr cp then Node pre None (Leaf k' v') (Leaf k v)   (* :229 *)
        else Node pre None (Leaf k v) (Leaf k' v')
  | Node lbl lf l r =>                                         (* :87-170 *)
      let kr := skipn d (bits_of k) in
      let cp := lcp lbl kr in                                  (* :88 *)
      if (cp =? length lbl)%nat then                           (* :91 label matched *)
        let d' := (d + length lbl)%nat in
        if (length (bits_of k) =? d')%nat then
          (* :95-98 recursion into n.LeafNode: nil -> new leaf; a leaf with the
             same key -> value update.  (A leaf with a different key cannot sit
             there in a well-formed tree.) *)
          Node lbl (Some (k, v)) l r
        else if bit (bits_of k) d' then Node lbl lf l (insert d' k v r)
        else Node lbl lf (insert d' k v l) r
      else                                                     (* :132 split the edge *)
        let pre := firstn cp lbl in
        let suf := skipn cp lbl in
        let old := Node suf lf l r in
        if (length kr =? cp)%nat then                          (* :149 key is a prefix of the path *)
          if bit suf 0 then Node pre (Some (k, v)) Nil old
          else Node pre (Some (k, v)) old Nil
        else if bit kr cp then Node pre None old (Leaf k v)    (* :159 *)
        else Node pre None (Leaf k v) old
  end.

(* doRemove, remove.go:55-177: (new subtree, changed, existing value) *)
Definition collapse (lbl : path) (lf : option (bytes * bytes)) (l r : tree)
           (changed : bool) (ex : option bytes) : tree * bool * option bytes :=
  match lf, l, r with
  | Some (k0, v0), Nil, Nil => (Leaf k0 v0, true, ex)          (* :108-113 only the leaf remains *)
  | None, _, Nil | None, Nil, _ =>                             (* :114-144 at most one child remains *)
      let c := match l with Nil => r | _ => l end in
      (match c with
       | Node lbl' lf' l' r' => Node (lbl ++ lbl') lf' l' r'   (* :128-139 Label.Merge *)
       | _ => c
       end, true, ex)
  | _, _, _ => (Node lbl lf l r, changed, ex)                  (* :146-159 *)
  end.

Fixpoint remove (d : nat) (k : bytes) (t : tree) : tree * bool * option bytes :=
  match t with
  | Nil => (Nil, false, None)                                  (* :73-75 *)
  | Leaf k' v' =>                                              (* :161-169 *)
      if bytes_eqb k' k then (Nil, true, Some v') else (t, false, None)
  | Node lbl lf l r =>
      let d' := (d + length lbl)%nat in
      let kl := length (bits_of k) in
      if (kl <? d')%nat then (t, false, None)                  (* :83-85 *)
      else if (kl =? d')%nat then                              (* :86-87 into n.LeafNode *)
        match lf with
        | None => collapse lbl lf l r false None
        | Some (k0, v0) =>
            if bytes_eqb k0 k then collapse lbl None l r true (Some v0)
            else collapse lbl lf l r false None
        end
      else if bit (bits_of k) d' then                          (* :88-89 *)
        let '(r', c, e) := remove d' k r in collapse lbl lf l r' c e
      else                                                     (* :90-91 *)
        let '(l', c, e) := remove d' k l in collapse lbl lf l' r c e
  end.

(* doGet, lookup.go:98-196 (labels are not compared on the way down) *)
Fixpoint lookup (d : nat) (k : bytes) (t : tree) : option bytes :=
  match t with
  | Nil => None
  | Leaf k' v' => if bytes_eqb k' k then Some v' else None
  | Node lbl lf l r =>
      let d' := (d + length lbl)%nat in
      let kl := length (bits_of k) in
      if (kl =? d')%nat then                                   (* :131 *)
        match lf with
        | Some (k0, v0) => if bytes_eqb k0 k then Some v0 else None
        | None => None
        end
      else if (kl <? d')%nat then None                         (* :153 *)
      else if bit (bits_of k) d' then lookup d' k r else lookup d' k l
  end.

Definition tinsert (k v : bytes) (t : tree) : tree := insert 0 k v t.
Definition tremove (k : bytes) (t : tree) : tree * bool * option bytes := remove 0 k t.
Definition tlookup (k : bytes) (t : tree) : option bytes := lookup 0 k t.

(* operation histories *)
Inductive op := OIns (k v : bytes) | ORem (k : bytes).
Definition apply_op (t : tree) (o : op) : tree :=
  match o with
  | OIns k v => tinsert k v t
  | ORem k => fst (fst (tremove k t))
  end.
Definition run (ops : list op) : tree := fold_left apply_op ops Nil.

(* ------------------------------------------------------------------ *)
(* Well-formedness                                                      *)
(* ------------------------------------------------------------------ *)
Definition valid_bytes (b : bytes) : Prop := Forall (fun x => x < 256) b.
Definition is_prefix (p q : path) : Prop := exists s, q = p ++ s.

(* everything below [t] continues the path [q] with bit [b] *)
Definition starts (q : path) (b : bool) (t : tree) : Prop :=
  match t with
  | Nil => True
  | Leaf k _ => is_prefix (q ++ [b]) (bits_of k)
  | Node lbl _ _ _ => exists s, lbl = b :: s
  end.

(* [wf_at p t]: [t] hangs below the bit path [p] *)
Fixpoint wf_at (p : path) (t : tree) : Prop :=
  match t with
  | Nil => True
  | Leaf k v => valid_bytes k /\ is_prefix p (bits_of k)
  | Node lbl lf l r =>
      let q := p ++ lbl in
      match lf with None => True | Some (k, _) => valid_bytes k /\ bits_of k = q end /\
      wf_at q l /\ wf_at q r /\ starts q false l /\ starts q true r /\
      (2 <= present_lf lf + present l + present r)%nat        (* canonical *)
  end.
Definition wf (t : tree) : Prop := wf_at [] t.

(* the limits of the length fields in the hash pre-images:
   label bit length is a uint16, key and value lengths are uint32 *)
Fixpoint bounded (t : tree) : Prop :=
  match t with
  | Nil => True
  | Leaf k v => N.of_nat (length k) < 2 ^ 32 /\ N.of_nat (length v) < 2 ^ 32
  | Node lbl lf l r =>
      N.of_nat (length lbl) < 2 ^ 16 /\
      match lf with
      | None => True
      | Some (k, v) => N.of_nat (length k) < 2 ^ 32 /\ N.of_nat (length v) < 2 ^ 32
      end /\ bounded l /\ bounded r
  end.

(* ------------------------------------------------------------------ *)
(* Hash expressions (node/node.go:355 InternalNode.UpdateHash,           *)
(*                   node/node.go:599 LeafNode.UpdateHash)               *)
(* ------------------------------------------------------------------ *)
Inductive hexpr :=
| HBytes (b : bytes)
| HCat (a b : hexpr)
| HHash (e : hexpr).

Fixpoint eval_hexpr (H : bytes -> bytes) (e : hexpr) : bytes :=
  match e with
  | HBytes b => b
  | HCat a b => eval_hexpr H a ++ eval_hexpr H b
  | HHash e => H (eval_hexpr H e)
  end.

(* [n] little-endian bytes of [x] (truncating, like uint16()/uint32() casts) *)
Fixpoint le_bytes (n : nat) (x : N) : bytes :=
  match n with
  | O => []
  | S n' => (x mod 256) :: le_bytes n' (x / 256)
  end.

Definition PREFIX_LEAF : N := 0.      (* node.PrefixLeafNode     *)
Definition PREFIX_INTERNAL : N := 1.  (* node.PrefixInternalNode *)

(* hash of a nil pointer: hash.Empty = SHA-512/256 of the empty string
   (node.go:196 Pointer.GetHash, commit.go:157) *)
Definition empty_hexpr : hexpr := HHash (HBytes []).

Definition leaf_hexpr (k v : bytes) : hexpr :=
  HHash (HCat (HBytes [PREFIX_LEAF])
        (HCat (HBytes (le_bytes 4 (N.of_nat (length k))))
        (HCat (HBytes k)
        (HCat (HBytes (le_bytes 4 (N.of_nat (length v))))
              (HBytes v))))).

Definition opt_leaf_hexpr (lf : option (bytes * bytes)) : hexpr :=
  match lf with None => empty_hexpr | Some (k, v) => leaf_hexpr k v end.

Fixpoint hash_expr (t : tree) : hexpr :=
  match t with
  | Nil => empty_hexpr
  | Leaf k v => leaf_hexpr k v
  | Node lbl lf l r =>
      HHash (HCat (HBytes [PREFIX_INTERNAL])
            (HCat (HBytes (le_bytes 2 (N.of_nat (length lbl))))
            (HCat (HBytes (pack lbl))
            (HCat (opt_leaf_hexpr lf)
            (HCat (hash_expr l) (hash_expr r))))))
  end.

Definition root_hash (H : bytes -> bytes) (t : tree) : bytes := eval_hexpr H (hash_expr t).

(* Commit computes the root and leaves the tree as it is (commit.go:44-148);
   CommitKnown commits iff the computed root equals the expected one
   (commit.go:29-40, ErrKnownRootMismatch otherwise): [None] = the error *)
Definition commit (H : bytes -> bytes) (t : tree) : tree * bytes := (t, root_hash H t).
Definition commit_known (H : bytes -> bytes) (expected : bytes) (t : tree) : tree * option bytes :=
  if bytes_eqb (root_hash H t) expected then (t, Some (root_hash H t)) else (t, None).

(* ------------------------------------------------------------------ *)
(* The abstract ordered map: association lists sorted by byte order      *)
(* ------------------------------------------------------------------ *)
Fixpoint al_get (k : bytes) (l : list (bytes * bytes)) : option bytes :=
  match l with
  | [] => None
  | (k0, v0) :: r => if bytes_eqb k0 k then Some v0 else al_get k r
  end.

Fixpoint al_set (k v : bytes) (l : list (bytes * bytes)) : list (bytes * bytes) :=
  match l with
  | [] => [(k, v)]
  | (k0, v0) :: r =>
      match bytes_cmp k k0 with
      | Lt => (k, v) :: l
      | Eq => (k, v) :: r
      | Gt => (k0, v0) :: al_set k v r
      end
  end.

Fixpoint al_del (k : bytes) (l : list (bytes * bytes)) : list (bytes * bytes) :=
  match l with
  | [] => []
  | (k0, v0) :: r =>
      match bytes_cmp k k0 with
      | Lt => l
      | Eq => r
      | Gt => (k0, v0) :: al_del k r
      end
  end.

(* strictly ascending keys *)
Definition key_lt (a b : bytes * bytes) : Prop := bytes_cmp (fst a) (fst b) = Lt.
Fixpoint sorted (l : list (bytes * bytes)) : Prop :=
  match l with
  | [] => True
  | x :: r => Forall (key_lt x) r /\ sorted r
  end.

Definition apply_op_spec (m : list (bytes * bytes)) (o : op) : list (bytes * bytes) :=
  match o with
  | OIns k v => al_set k v m
  | ORem k => al_del k m
  end.
