(* The general theorem doNext_refines_seek: the byte-level port of the tree
   iterator yields exactly the specification iterator's sequence. *)
From Verif Require Import Lib.Base Mkvs.Trie Mkvs.BitsProofs Mkvs.AlistProofs Mkvs.TrieProofs
  Mkvs.Key Mkvs.KeySweep Mkvs.KeyProofs Mkvs.KeyLift Mkvs.Overlay Mkvs.OverlayProofs Mkvs.Iter.

(* ---------- the order on bit strings ---------- *)
Lemma pcmp_eq u : forall w, pcmp u w = Eq -> u = w.
Proof.
  induction u as [|x u IH]; intros [|y w]; cbn; try discriminate; auto.
  destruct x, y; try discriminate; intros H; f_equal; auto.
Qed.
Lemma pcmp_antisym a : forall b, pcmp b a = CompOpp (pcmp a b).
Proof. induction a as [|x a IH]; intros [|y b]; cbn; auto. destruct x, y; cbn; auto. Qed.
Lemma pcmp_app_l q a b : pcmp (q ++ a) (q ++ b) = pcmp a b.
Proof. induction q as [|[] q IH]; cbn; auto. Qed.
Lemma pcmp_diff_prefix u : forall w a b, length u = length w -> u <> w -> pcmp (u ++ a) (w ++ b) = pcmp u w.
Proof.
  induction u as [|x u IH]; intros [|y w] a b Hl Hne; cbn in Hl; try discriminate.
  - contradiction.
  - cbn. destruct x, y; try reflexivity; apply IH; try lia; congruence.
Qed.
Lemma pcmp_same_len_neq u w : length u = length w -> u <> w -> pcmp u w <> Eq.
Proof. intros _ Hne E. apply pcmp_eq in E. contradiction. Qed.
Lemma pcmp_ge_zeros E : forall m, (m <= length E)%nat -> pcmp E (repeat false m) <> Lt.
Proof.
  induction E as [|e E IH]; intros [|m] Hm; cbn in *; try lia; try discriminate.
  destruct e; [discriminate|]. apply IH. lia.
Qed.
Lemma pcmp_nil_r E : pcmp E [] <> Lt.
Proof. destruct E; cbn; discriminate. Qed.
Lemma pcmp_zeros X : forall E m, (length X + m <= length E)%nat ->
  (pcmp E (X ++ repeat false m) = Lt <-> pcmp E X = Lt).
Proof.
  induction X as [|x X IH]; intros E m Hl.
  - cbn [app]. split; intros H; exfalso.
    + now apply (pcmp_ge_zeros E m).
    + now apply (pcmp_nil_r E).
  - destruct E as [|e E]; [cbn in Hl; lia|]. cbn [app pcmp].
    destruct e, x; try tauto; apply IH; cbn in Hl; lia.
Qed.

(* ---------- al_seek ---------- *)
Lemma seek_app_found k (A B : list entry) e R : al_seek k A = e :: R -> al_seek k (A ++ B) = e :: R ++ B.
Proof.
  induction A as [|[k0 v0] A IH]; cbn [al_seek app]; [discriminate|].
  destruct (bytes_cmp k0 k); auto; intros [= <- <-]; reflexivity.
Qed.
Lemma seek_app_none k (A B : list entry) : al_seek k A = [] -> al_seek k (A ++ B) = al_seek k B.
Proof.
  induction A as [|[k0 v0] A IH]; cbn [al_seek app]; [reflexivity|].
  destruct (bytes_cmp k0 k); auto; discriminate.
Qed.
Lemma seek_ext k k' (L : list entry) :
  (forall e, In e L -> (bytes_cmp (fst e) k = Lt <-> bytes_cmp (fst e) k' = Lt)) ->
  al_seek k L = al_seek k' L.
Proof.
  induction L as [|[k0 v0] L IH]; intros H; [reflexivity|]. cbn [al_seek].
  pose proof (H (k0, v0) (or_introl eq_refl)) as H0. cbn [fst] in H0.
  assert (al_seek k L = al_seek k' L) as IH' by (apply IH; intros e He; apply H; now right).
  destruct (bytes_cmp k0 k) eqn:C, (bytes_cmp k0 k') eqn:C'; try reflexivity; try exact IH';
    try (destruct H0 as [H1 H2]; try (specialize (H1 eq_refl); discriminate); try (specialize (H2 eq_refl); discriminate)).
Qed.
Lemma seek_all_ge k (L : list entry) : (forall e, In e L -> bytes_cmp (fst e) k <> Lt) -> al_seek k L = L.
Proof.
  destruct L as [|[k0 v0] L]; intros H; [reflexivity|]. cbn [al_seek].
  specialize (H (k0, v0) (or_introl eq_refl)). cbn [fst] in H. destruct (bytes_cmp k0 k); tauto.
Qed.
Lemma seek_all_lt k (L : list entry) : (forall e, In e L -> bytes_cmp (fst e) k = Lt) -> al_seek k L = [].
Proof.
  induction L as [|[k0 v0] L IH]; intros H; [reflexivity|]. cbn [al_seek].
  pose proof (H (k0, v0) (or_introl eq_refl)) as H0. cbn [fst] in H0. rewrite H0.
  apply IH. intros e He. apply H. now right.
Qed.

(* ---------- the key operations of one node, on bits ---------- *)
Lemma pad_mult8 a c : (a <= 8 * c)%nat -> (a + pad_len a <= 8 * c)%nat.
Proof.
  unfold pad_len. intros H. pose proof (Nat.div_mod a 8 ltac:(lia)) as E.
  pose proof (Nat.mod_upper_bound a 8 ltac:(lia)) as B.
  destruct (Nat.eq_dec (a mod 8) 0) as [Z|NZ].
  - rewrite Z. cbn. lia.
  - rewrite (Nat.mod_small (8 - a mod 8) 8) by lia.
    assert (a / 8 < c)%nat by (apply Nat.div_lt_upper_bound; lia). lia.
Qed.
Lemma repeat_app_false a b : repeat false a ++ repeat false b = repeat false (a + b).
Proof. now rewrite repeat_app. Qed.

Lemma bitlen_leb x n : (k_bitlen x <=? N.of_nat n) = (length (bits_of x) <=? n)%nat.
Proof.
  rewrite k_bitlen_bits. destruct (N.leb_spec (N.of_nat (length (bits_of x))) (N.of_nat n)),
    (Nat.leb_spec (length (bits_of x)) n); try reflexivity; lia.
Qed.

(* AppendBit(key, nd, false) on a key not longer than nd bits: the key followed by zeros *)
Lemma a0_bits x nq : valid_bytes x -> (length (bits_of x) <= nq)%nat ->
  let x' := k_appendbit x (N.of_nat nq) false in
  valid_bytes x' /\
  exists M, bits_of x' = bits_of x ++ repeat false M /\
            (nq < length (bits_of x'))%nat /\
            (forall c, (nq + 1 <= 8 * c)%nat -> (length (bits_of x') <= 8 * c)%nat).
Proof.
  intros Hv Hl x'. unfold x'. rewrite bits_of_len in Hl.
  rewrite appendbit_bytes by assumption. split; [apply valid_pack|].
  rewrite pack_bits. set (Z := bits_of x ++ repeat false (nq - 8 * length x) ++ [false]).
  assert (length Z = nq + 1)%nat as LZ.
  { unfold Z. rewrite !app_length, repeat_length, bits_of_len. cbn [length]. lia. }
  exists (nq - 8 * length x + 1 + pad_len (length Z))%nat. split; [|split].
  - unfold Z. rewrite <- !app_assoc. f_equal. change [false] with (repeat false 1).
    now rewrite !repeat_app_false, Nat.add_assoc.
  - rewrite app_length, LZ, repeat_length. lia.
  - intros c Hc. rewrite app_length, LZ, repeat_length. now apply pad_mult8.
Qed.

(* advanceKeyToRight(key) on a key of at least nd bits *)
Lemma adv_bits y nq : valid_bytes y -> (nq <= length (bits_of y))%nat ->
  adv_key (N.of_nat nq) y = pack (firstn nq (bits_of y) ++ [true]).
Proof.
  intros Hv Hl. unfold adv_key. rewrite k_bitlen_bits.
  rewrite <- (pack_bits_of y Hv) at 1. rewrite key_split_general by exact Hl. cbn [fst].
  rewrite <- (firstn_length_le (bits_of y) Hl) at 2. apply key_appendbit_general.
Qed.

Lemma getbit_bits x n : valid_bytes x -> (n < length (bits_of x))%nat ->
  k_getbit x (N.of_nat n) = bit (bits_of x) n.
Proof. intros Hv Hl. apply k_getbit_bits; [exact Hv|]. now rewrite <- bits_of_len. Qed.

(* ---------- specification of one doNext call ---------- *)
Definition remaining (st : vstate) (t : tree) : list entry :=
  match t with
  | Node lbl lf l r =>
      match st with
      | VBefore => contents t
      | VAt => contents l ++ contents r
      | VAtLeft => contents r
      | VAfter => []
      end
  | _ => contents t
  end.
Definition rest_of (a : atom) : list entry := remaining (a_state a) (a_node a).

Section NodeStep.
  (* SK: whatever else is known about a returned stack; passed through unchanged *)
  Variable SK : entry -> list atom -> Prop.

  Definition ok_found (f : found) (key : bytes) (L Tail : list entry) : Prop :=
    match f with
    | Some (e, stk) => exists R, al_seek key L = e :: R /\ flat_map rest_of stk = R ++ Tail /\ SK e stk
    | None => al_seek key L = []
    end.

  Lemma ok_found_key f k k' L T : al_seek k L = al_seek k' L -> ok_found f k' L T -> ok_found f k L T.
  Proof. intros E. unfold ok_found. destruct f as [[e stk]|]; now rewrite E. Qed.

  Lemma ok_orelse f1 f2 k k2 A B :
    ok_found f1 k A B -> ok_found f2 k2 B [] ->
    (al_seek k A = [] -> al_seek k2 B = al_seek k B) ->
    ok_found (orelse f1 (fun _ => f2)) k (A ++ B) [].
  Proof.
    intros H1 H2 HE. unfold orelse. destruct f1 as [[e stk]|]; cbn [ok_found] in *.
    - destruct H1 as (R & S1 & F1 & K1). exists (R ++ B). split; [now apply seek_app_found|].
      split; [now rewrite app_nil_r|exact K1].
    - specialize (HE H1). cbv beta.
      destruct f2 as [[e stk]|]; cbn [ok_found] in *.
      + destruct H2 as (R & S2 & F2 & K2). exists R. rewrite (seek_app_none _ _ _ H1), <- HE. auto.
      + now rewrite (seek_app_none _ _ _ H1), <- HE.
  Qed.
  Lemma ok_right f k A B : ok_found f k B [] -> al_seek k A = [] -> ok_found f k (A ++ B) [].
  Proof.
    intros H HA. unfold ok_found in *. destruct f as [[e stk]|]; now rewrite (seek_app_none _ _ _ HA).
  Qed.

  Definition under (q : path) (b : bool) (L : list entry) : Prop :=
    forall e, In e L -> valid_bytes (fst e) /\ exists s, bits_of (fst e) = q ++ b :: s.
  Definition at_path (q : path) (L : list entry) : Prop :=
    forall e, In e L -> valid_bytes (fst e) /\ bits_of (fst e) = q.

  Variable q : path.
  Variables lfc cl cr : list entry.
  Hypothesis Hlf : at_path q lfc.
  Hypothesis Hcl : under q false cl.
  Hypothesis Hcr : under q true cr.
  Variables try_lf try_l try_r : bytes -> found.
  Hypothesis HLF : forall k, valid_bytes k -> ok_found (try_lf k) k lfc (cl ++ cr).
  Hypothesis HL : forall k, valid_bytes k -> ok_found (try_l k) k cl cr.
  Hypothesis HR : forall k, valid_bytes k -> ok_found (try_r k) k cr [].

  Let nq := length q.
  Let nd := N.of_nat nq.

  (* comparing an entry below the node with a key whose first nq bits are Q' *)
  Lemma cmp_entry_key (e : entry) b s (x : bytes) :
    valid_bytes (fst e) -> valid_bytes x -> bits_of (fst e) = q ++ b :: s ->
    bytes_cmp (fst e) x = pcmp (q ++ b :: s) (bits_of x).
  Proof. intros V1 V2 E. rewrite bytes_cmp_bits by assumption. now rewrite E. Qed.

  Lemma entry_len (e : entry) b s : bits_of (fst e) = q ++ b :: s ->
    (nq + 1 <= 8 * length (fst e))%nat.
  Proof.
    intros E. rewrite <- bits_of_len, E, app_length. cbn [length]. unfold nq. lia.
  Qed.

  Definition tf_of (key : bytes) : bool := (0 <? nd) && (nd <=? k_bitlen key) && cmp_lt key (pack q).
  Definition knl_of (key : bytes) : bool := k_bitlen key <=? nd.
  Definition xprime (key : bytes) : bytes := if knl_of key then k_appendbit key nd false else key.

  Lemma cmp_key_packq key : valid_bytes key -> (nq <= length (bits_of key))%nat ->
    let Q' := firstn nq (bits_of key) in
    (Q' = q -> bytes_cmp key (pack q) <> Lt) /\
    (Q' <> q -> bytes_cmp key (pack q) = pcmp Q' q).
  Proof.
    intros Hv Hl Q'. rewrite bytes_cmp_bits by (assumption || apply valid_pack). rewrite pack_bits.
    rewrite <- (firstn_skipn nq (bits_of key)). fold Q'. split.
    - intros ->. rewrite pcmp_app_l. apply pcmp_ge_zeros. rewrite skipn_length.
      fold nq. pose proof (pad_mult8 nq (length key)) as P. rewrite bits_of_len in *. lia.
    - intros Hne. apply pcmp_diff_prefix; [|exact Hne]. unfold Q'. rewrite firstn_length. fold nq. lia.
  Qed.

  Lemma tf_nd_pos Q' : length Q' = nq -> Q' <> q -> (0 <? nd) = true.
  Proof.
    intros Hl Hne. apply N.ltb_lt. unfold nd. destruct q as [|? ?] eqn:Eq.
    - destruct Q'; [contradiction|cbn in Hl; subst nq; discriminate].
    - unfold nq. cbn [length]. lia.
  Qed.

  Lemma xprime_facts key : valid_bytes key ->
    let x' := xprime key in
    let Q' := firstn nq (bits_of x') in
    valid_bytes x' /\ (nq < length (bits_of x'))%nat /\
    (forall (e : entry) b s, valid_bytes (fst e) -> bits_of (fst e) = q ++ b :: s ->
        (bytes_cmp (fst e) key = Lt <-> bytes_cmp (fst e) x' = Lt)) /\
    (tf_of key = true -> Q' <> q) /\
    (pcmp Q' q = Lt -> bit (bits_of x') nq = true -> tf_of key = true) /\
    (knl_of key = false -> x' = key /\ (pcmp Q' q = Lt -> tf_of key = true)).
  Proof.
    intros Hv x' Q'. subst x' Q'. unfold xprime, knl_of, tf_of.
    unfold nd. rewrite !bitlen_leb.
    destruct (Nat.leb_spec (length (bits_of key)) nq) as [Hle|Hgt].
    - (* key not longer: zero padded *)
      destruct (a0_bits key nq Hv Hle) as (Hv' & M & EB & Hlen & Hmul). cbv zeta in *.
      set (x' := k_appendbit key (N.of_nat nq) false) in *.
      split; [exact Hv'|]. split; [exact Hlen|]. split; [|split; [|split]].
      + intros e b s Ve Ee. rewrite !bytes_cmp_bits by assumption. rewrite EB. symmetry. apply pcmp_zeros.
        assert (length (bits_of x') = length (bits_of key) + M)%nat as LX
          by (rewrite EB, app_length, repeat_length; reflexivity).
        pose proof (Hmul (length (fst e)) (entry_len e b s Ee)) as L.
        rewrite (bits_of_len (fst e)). lia.
      + (* tf -> Q' <> q *)
        intros Htf. apply andb_true_iff in Htf as [Htf Hc]. apply andb_true_iff in Htf as [_ Hn].
        rewrite <- (N2Nat.id (N.of_nat nq)) in Hn. apply N.leb_le in Hn. rewrite k_bitlen_bits in Hn.
        assert (length (bits_of key) = nq) as El by lia.
        rewrite EB. rewrite firstn_app, El, Nat.sub_diag. cbn [firstn]. rewrite app_nil_r.
        rewrite <- El, firstn_all. intros Eq.
        unfold cmp_lt in Hc. destruct (bytes_cmp key (pack q)) eqn:C; try discriminate.
        destruct (cmp_key_packq key Hv ltac:(lia)) as [C1 _]. apply C1; [|exact C].
        rewrite <- El, firstn_all. exact Eq.
      + (* the appended bit is 0 *)
        intros _ Hb. exfalso. rewrite EB in Hb. unfold bit in Hb.
        rewrite app_nth2 in Hb by lia.
        assert (forall n m, nth n (repeat false m) false = false) as Z.
        { intros n m. revert n; induction m as [|m IHm]; intros [|n]; cbn; auto. }
        rewrite Z in Hb. discriminate.
      + discriminate.
    - (* key longer than the node depth: unchanged *)
      split; [exact Hv|]. split; [exact Hgt|]. split; [tauto|].
      destruct (cmp_key_packq key Hv ltac:(lia)) as [C1 C2]. fold nq in C1, C2.
      assert (length (firstn nq (bits_of key)) = nq) as LQ by (rewrite firstn_length; lia).
      assert (pcmp (firstn nq (bits_of key)) q = Lt -> 
              (0 <? N.of_nat nq) && (N.of_nat nq <=? k_bitlen key) && cmp_lt key (pack q) = true) as T2.
      { intros HLt. assert (firstn nq (bits_of key) <> q) as Hne by (intros E; rewrite E, pcmp_refl in HLt; discriminate).
        fold nd. rewrite (tf_nd_pos _ LQ Hne). unfold nd. rewrite k_bitlen_bits.
        replace (N.of_nat nq <=? N.of_nat (length (bits_of key))) with true by (symmetry; apply N.leb_le; lia).
        cbn [andb]. unfold cmp_lt. now rewrite (C2 Hne), HLt. }
      split; [|split; [|split; [reflexivity|]]].
      + intros Htf Eq. apply andb_true_iff in Htf as [_ Hc]. unfold cmp_lt in Hc.
        destruct (bytes_cmp key (pack q)) eqn:C; try discriminate. now apply C1.
      + intros HLt _. now apply T2.
      + exact T2.
  Qed.

  Definition from_at_f (key : bytes) : found :=
    let k' := xprime key in
    if negb (k_getbit k' nd) || tf_of key
    then orelse (try_l k') (fun _ => try_r (adv_key nd k'))
    else try_r k'.

  Lemma pcmp_opp_lt a b : pcmp a b <> Lt -> a <> b -> pcmp b a = Lt.
  Proof.
    intros H1 H2. rewrite pcmp_antisym. destruct (pcmp a b) eqn:E; try reflexivity.
    - apply pcmp_eq in E. contradiction.
    - contradiction.
  Qed.

  Lemma from_at_correct key : valid_bytes key -> ok_found (from_at_f key) key (cl ++ cr) [].
  Proof.
    intros Hv. destruct (xprime_facts key Hv) as (Hv' & Hlen & Hsame & TF1 & TF2 & _).
    cbv zeta in *. unfold from_at_f. set (x' := xprime key) in *.
    apply (ok_found_key _ key x').
    { apply seek_ext. intros e He. apply in_app_or in He as [He|He].
      - destruct (Hcl e He) as (Ve & s & Ee). eapply Hsame; eauto.
      - destruct (Hcr e He) as (Ve & s & Ee). eapply Hsame; eauto. }
    set (X' := bits_of x') in *. set (Q' := firstn nq X') in *.
    assert (length Q' = nq) as LQ by (unfold Q'; rewrite firstn_length; lia).
    assert (exists b S, X' = Q' ++ b :: S) as (b & S & EX).
    { assert (X' = Q' ++ skipn nq X') as E0 by (unfold Q'; now rewrite firstn_skipn).
      destruct (skipn nq X') as [|b S] eqn:ES.
      - exfalso. apply (f_equal (@length bool)) in ES. rewrite skipn_length in ES. cbn in ES. lia.
      - eauto. }
    assert (k_getbit x' nd = b) as Hgb.
    { unfold nd. rewrite getbit_bits by assumption. fold X'. rewrite EX, <- LQ. apply bit_app_mid. }
    assert (adv_key nd x' = pack (Q' ++ [true])) as Hadv by (apply adv_bits; [assumption|fold X'; lia]).
    set (P := pad_len (length (Q' ++ [true]))).
    assert (bits_of (adv_key nd x') = Q' ++ true :: repeat false P) as Badv.
    { rewrite Hadv, pack_bits. now rewrite <- app_assoc. }
    assert (valid_bytes (adv_key nd x')) as Vadv by (rewrite Hadv; apply valid_pack).
    (* comparisons of an entry below the node with x' and with adv x' *)
    assert (forall (e : entry) be s, valid_bytes (fst e) -> bits_of (fst e) = q ++ be :: s ->
              bytes_cmp (fst e) x' = (if list_eq_dec Bool.bool_dec Q' q then pcmp (be :: s) (b :: S) else pcmp q Q') /\
              bytes_cmp (fst e) (adv_key nd x') =
                (if list_eq_dec Bool.bool_dec Q' q then pcmp (be :: s) (true :: repeat false P) else pcmp q Q')) as CMP.
    { intros e be s Ve Ee. rewrite !bytes_cmp_bits by assumption. fold X'. rewrite Ee, EX, Badv.
      destruct (list_eq_dec Bool.bool_dec Q' q) as [->|Hne].
      - now rewrite !pcmp_app_l.
      - rewrite !pcmp_diff_prefix by (try (fold nq; lia); congruence). auto. }
    rewrite Hgb. destruct (negb b || tf_of key) eqn:Br.
    - (* try left, then right with the advanced key *)
      apply (ok_orelse _ _ x' (adv_key nd x')); [apply HL; exact Hv'|apply HR; exact Vadv|].
      intros _. apply seek_ext. intros e He. destruct (Hcr e He) as (Ve & s & Ee).
      destruct (CMP e true s Ve Ee) as [C1 C2]. rewrite C1, C2.
      destruct (list_eq_dec Bool.bool_dec Q' q) as [Eq|Hne]; [|tauto].
      assert (tf_of key = false) as Htf by (destruct (tf_of key); [exfalso; now apply TF1|reflexivity]).
      rewrite Htf, orb_false_r in Br. destruct b; [cbn in Br; discriminate Br|]. cbn [pcmp]. split; [|intros HH; discriminate HH].
      intros HLt. exfalso. revert HLt. apply pcmp_ge_zeros.
      pose proof (entry_len e true s Ee) as L. pose proof (pad_mult8 (nq + 1) (length (fst e)) L) as PM.
      assert (8 * length (fst e) = nq + 1 + length s)%nat as EL.
      { rewrite <- bits_of_len, Ee, app_length. cbn [length]. fold nq. lia. }
      unfold P. rewrite app_length, LQ. cbn [length]. lia.
    - (* the key is in or above the right part: right subtree only *)
      apply orb_false_iff in Br as [Hb Htf]. destruct b; [|cbn in Hb; discriminate Hb].
      apply ok_right; [apply HR; exact Hv'|]. apply seek_all_lt. intros e He.
      destruct (Hcl e He) as (Ve & s & Ee). destruct (CMP e false s Ve Ee) as [C1 _]. rewrite C1.
      destruct (list_eq_dec Bool.bool_dec Q' q) as [Eq|Hne]; [reflexivity|].
      apply pcmp_opp_lt; [|exact Hne]. intros HLt.
      assert (tf_of key = true) as T by (apply TF2; [exact HLt|]; fold X'; rewrite EX, <- LQ; apply bit_app_mid).
      congruence.
  Qed.

  Lemma ok_seq f1 f2 k A B :
    ok_found f1 k A B -> ok_found f2 k B [] -> ok_found (orelse f1 (fun _ => f2)) k (A ++ B) [].
  Proof. intros H1 H2. apply (ok_orelse _ _ k k); auto. Qed.

  Lemma node_step_eq key st :
    node_step try_lf try_l try_r nd (pack q) key st =
    match st with
    | VBefore => if knl_of key || tf_of key then orelse (try_lf key) (fun _ => from_at_f key) else from_at_f key
    | VAt => from_at_f key
    | VAtLeft => try_r (adv_key nd key)
    | VAfter => None
    end.
  Proof. reflexivity. Qed.

  Lemma node_step_correct key st : valid_bytes key ->
    (st = VAtLeft -> (nq <= length (bits_of key))%nat /\ forall e, In e cr -> bytes_cmp (fst e) key <> Lt) ->
    ok_found (node_step try_lf try_l try_r nd (pack q) key st) key
      (match st with VBefore => lfc ++ cl ++ cr | VAt => cl ++ cr | VAtLeft => cr | VAfter => [] end) [].
  Proof.
    intros Hv Hst. rewrite node_step_eq. destruct st.
    - (* visitBefore *)
      destruct (knl_of key || tf_of key) eqn:Br.
      + apply ok_seq; [apply HLF; exact Hv|apply from_at_correct; exact Hv].
      + apply orb_false_iff in Br as [Hk Ht].
        apply ok_right; [apply from_at_correct; exact Hv|]. apply seek_all_lt. intros e He.
        destruct (Hlf e He) as [Ve Ee].
        destruct (xprime_facts key Hv) as (_ & Hlen & _ & _ & _ & Hlong). cbv zeta in *.
        destruct (Hlong Hk) as [Ex T4]. rewrite Ex in *.
        rewrite bytes_cmp_bits by assumption. rewrite Ee.
        set (X := bits_of key) in *. set (Q' := firstn nq X) in *.
        assert (length Q' = nq) as LQ by (unfold Q'; rewrite firstn_length; lia).
        assert (X = Q' ++ skipn nq X) as EX by (unfold Q'; now rewrite firstn_skipn).
        destruct (skipn nq X) as [|b S] eqn:ES.
        { exfalso. apply (f_equal (@length bool)) in ES. rewrite skipn_length in ES. cbn in ES. lia. }
        rewrite EX. destruct (list_eq_dec Bool.bool_dec Q' q) as [->|Hne].
        * apply pcmp_prefix_lt.
        * rewrite <- (app_nil_r q) at 1. rewrite pcmp_diff_prefix by (try (fold nq; lia); congruence).
          apply pcmp_opp_lt; [|exact Hne]. intros HLt. rewrite (T4 HLt) in Ht. discriminate.
    - apply from_at_correct; exact Hv.
    - (* visitAtLeft: resume in the right subtree *)
      destruct (Hst eq_refl) as [Hlen Hge].
      assert (adv_key nd key = pack (firstn nq (bits_of key) ++ [true])) as Hadv by now apply adv_bits.
      assert (valid_bytes (adv_key nd key)) as Vadv by (rewrite Hadv; apply valid_pack).
      apply (ok_found_key _ key (adv_key nd key)); [|apply HR; exact Vadv].
      rewrite (seek_all_ge key cr Hge). symmetry. apply seek_all_ge. intros e He.
      destruct (Hcr e He) as (Ve & s & Ee). rewrite bytes_cmp_bits by assumption.
      rewrite Hadv, pack_bits, Ee, <- app_assoc. set (Q' := firstn nq (bits_of key)).
      assert (length Q' = nq) as LQ by (unfold Q'; rewrite firstn_length; lia).
      destruct (list_eq_dec Bool.bool_dec Q' q) as [->|Hne].
      + rewrite pcmp_app_l. cbn [app pcmp]. apply pcmp_ge_zeros.
        pose proof (entry_len e true s Ee) as L. pose proof (pad_mult8 (nq + 1) (length (fst e)) L) as PM.
        assert (8 * length (fst e) = nq + 1 + length s)%nat as EL.
        { rewrite <- bits_of_len, Ee, app_length. cbn [length]. fold nq. lia. }
        rewrite app_length. cbn [length]. fold nq. lia.
      + rewrite pcmp_diff_prefix by (try (fold nq; lia); congruence).
        specialize (Hge e He). rewrite bytes_cmp_bits in Hge by assumption. rewrite Ee in Hge.
        rewrite <- (firstn_skipn nq (bits_of key)) in Hge. fold Q' in Hge.
        rewrite pcmp_diff_prefix in Hge by (try (fold nq; lia); congruence). exact Hge.
    - reflexivity.
  Qed.
End NodeStep.

(* ---------- doNext on a well-formed subtree ---------- *)
Definition atom_ok (a : atom) : Prop :=
  exists p, a_depth a = N.of_nat (length p) /\ a_path a = pack p /\ wf_at p (a_node a).
Fixpoint nest (pos : list atom) : Prop :=
  match pos with
  | [] => True
  | a :: rem => (forall b, In b rem -> incl (contents (a_node a)) (contents (a_node b))) /\ nest rem
  end.
Definition stk_ok (Cont : list entry) (e : entry) (stk : list atom) : Prop :=
  Forall atom_ok stk /\
  Forall (fun a => incl (contents (a_node a)) Cont /\ In e (contents (a_node a))) stk /\
  nest stk.

Lemma nest_snoc stk a : nest stk -> (forall b, In b stk -> incl (contents (a_node b)) (contents (a_node a))) ->
  nest (stk ++ [a]).
Proof.
  induction stk as [|x stk IH]; intros Hn Hi; cbn [app nest]; [split; [intros ? []|exact I]|].
  destruct Hn as [Hx Hn]. split.
  - intros b Hb. apply in_app_or in Hb as [Hb|[<-|[]]]; [now apply Hx|apply Hi; now left].
  - apply IH; [exact Hn|]. intros b Hb. apply Hi. now right.
Qed.
Lemma seek_in k (L : list entry) e R : al_seek k L = e :: R -> In e L /\ incl R L.
Proof.
  induction L as [|[k0 v0] L IH]; cbn [al_seek]; [discriminate|].
  destruct (bytes_cmp k0 k); try (intros [= <- <-]; split; [now left|intros x Hx; now right]).
  intros H. destruct (IH H) as [H1 H2]. split; [now right|intros x Hx; right; now apply H2].
Qed.
Lemma remaining_before t : remaining VBefore t = contents t.
Proof. destruct t; reflexivity. Qed.
Lemma remaining_incl st t : incl (remaining st t) (contents t).
Proof.
  destruct t as [|k v|lbl lf l r]; try apply incl_refl. destruct st; cbn [remaining contents].
  - apply incl_refl.
  - apply incl_appr, incl_refl.
  - apply incl_appr, incl_appr, incl_refl.
  - intros ? [].
Qed.

Lemma push_ok Cont CC (f : found) k L T a :
  ok_found (stk_ok CC) f k L [] ->
  incl L Cont -> incl CC Cont -> atom_ok a -> contents (a_node a) = Cont -> rest_of a = T ->
  ok_found (stk_ok Cont) (push f a) k L T.
Proof.
  intros H HL HC Ha Ea Er. unfold push, ok_found in *. destruct f as [[e stk]|]; [|exact H].
  destruct H as (R & S1 & F1 & (A1 & I1 & N1)). exists R. split; [exact S1|]. split.
  - rewrite flat_map_app, F1. cbn [flat_map]. now rewrite Er, !app_nil_r.
  - destruct (seek_in _ _ _ _ S1) as [He _]. split; [|split].
    + apply Forall_app. split; [exact A1|]. constructor; [exact Ha|constructor].
    + apply Forall_app. split.
      * eapply Forall_impl; [|exact I1]. intros b [Hb1 Hb2]. split; [|exact Hb2].
        intros x Hx. apply HC. now apply Hb1.
      * constructor; [|constructor]. rewrite Ea. split; [apply incl_refl|]. now apply HL.
    + apply nest_snoc; [exact N1|]. intros b Hb. rewrite Forall_forall in I1.
      destruct (I1 b Hb) as [Hb1 _]. rewrite Ea. intros x Hx. apply HC. now apply Hb1.
Qed.

Lemma do_next_spec t : forall p key st,
  wf_at p t -> valid_bytes key ->
  (st = VAtLeft ->
     match t with
     | Node lbl lf l r => (length (p ++ lbl) <= length (bits_of key))%nat /\
                          forall e, In e (contents r) -> bytes_cmp (fst e) key <> Lt
     | _ => True
     end) ->
  ok_found (stk_ok (contents t)) (do_next t (N.of_nat (length p)) (pack p) key st) key (remaining st t) [].
Proof.
  induction t as [|k v|lbl lf l IHl r IHr]; intros p key st Hwf Hv Hst.
  - reflexivity.
  - cbn [do_next remaining contents ok_found al_seek]. unfold cmp_lt.
    destruct (bytes_cmp k key) eqn:C; cbn [ok_found al_seek]; rewrite ?C; try reflexivity;
      (exists []; repeat split; try constructor; reflexivity).
  - pose proof Hwf as Hwf0. cbn [wf_at] in Hwf. destruct Hwf as (Hlf & Hl & Hr & Hsl & Hsr & Hc).
    cbn [do_next].
    set (t := Node lbl lf l r) in *. set (q := p ++ lbl) in *.
    assert (atom_ok_t : forall s, atom_ok (mkAtom s t (N.of_nat (length p)) (pack p))).
    { intros s. exists p. auto. }
    replace (N.of_nat (length p) + N.of_nat (length lbl)) with (N.of_nat (length q))
      by (unfold q; rewrite app_length; lia).
    rewrite key_merge_general. fold q.
    assert (contents t = lf_contents lf ++ contents l ++ contents r) as Ect by reflexivity.
    replace (remaining st t) with
      (match st with VBefore => lf_contents lf ++ contents l ++ contents r | VAt => contents l ++ contents r
                | VAtLeft => contents r | VAfter => [] end) by (destruct st; reflexivity).
    apply (node_step_correct (stk_ok (contents t)) q (lf_contents lf) (contents l) (contents r)).
    + (* the embedded leaf *)
      intros e He. destruct lf as [[k0 v0]|]; cbn in He; [|tauto]. destruct He as [<-|[]]. exact Hlf.
    + intros [k1 v1] He. destruct (wf_keys _ _ _ _ Hl He) as [V _]. split; [exact V|].
      apply prefix_bit_form. exact (starts_keys _ _ _ _ _ Hl Hsl He).
    + intros [k1 v1] He. destruct (wf_keys _ _ _ _ Hr He) as [V _]. split; [exact V|].
      apply prefix_bit_form. exact (starts_keys _ _ _ _ _ Hr Hsr He).
    + (* tryNext on LeafNode *)
      intros k Vk. destruct lf as [[k0 v0]|]; [|reflexivity]. unfold cmp_lt. cbn [lf_contents ok_found al_seek].
      destruct (bytes_cmp k0 k) eqn:C; cbn [ok_found al_seek]; rewrite ?C; try reflexivity;
        (exists []; split; [reflexivity|]; split; [cbn [flat_map]; now rewrite app_nil_r|];
         split; [constructor; [apply atom_ok_t|constructor]|split; [|split; [intros ? []|exact I]]];
         constructor; [|constructor]; cbn [a_node]; split; [apply incl_refl|rewrite Ect; cbn; auto]).
    + (* tryNext on Left *)
      intros k Vk. apply (push_ok (contents t) (contents l)).
      * pose proof (IHl q k VBefore Hl Vk ltac:(discriminate)) as HH. rewrite remaining_before in HH. exact HH.
      * rewrite Ect. apply incl_appr, incl_appl, incl_refl.
      * rewrite Ect. apply incl_appr, incl_appl, incl_refl.
      * apply atom_ok_t.
      * reflexivity.
      * reflexivity.
    + (* tryNext on Right *)
      intros k Vk. apply (push_ok (contents t) (contents r)).
      * pose proof (IHr q k VBefore Hr Vk ltac:(discriminate)) as HH. rewrite remaining_before in HH. exact HH.
      * rewrite Ect. apply incl_appr, incl_appr, incl_refl.
      * rewrite Ect. apply incl_appr, incl_appr, incl_refl.
      * apply atom_ok_t.
      * reflexivity.
      * reflexivity.
    + exact Hv.
    + intros E. exact (Hst E).
Qed.

(* ---------- Next: resuming from the position stack ---------- *)
Definition pos_inv (e0 : entry) (pos : list atom) : Prop :=
  Forall atom_ok pos /\ nest pos /\ Forall (fun a => In e0 (contents (a_node a))) pos.

Lemma nest_app s1 s2 : nest s1 -> nest s2 ->
  (forall a b, In a s1 -> In b s2 -> incl (contents (a_node a)) (contents (a_node b))) -> nest (s1 ++ s2).
Proof.
  induction s1 as [|x s1 IH]; intros N1 N2 H; cbn [app nest]; [exact N2|].
  destruct N1 as [Hx N1]. split.
  - intros b Hb. apply in_app_or in Hb as [Hb|Hb]; [now apply Hx|apply H; [now left|exact Hb]].
  - apply IH; auto. intros a b Ha Hb. apply H; [now right|exact Hb].
Qed.

Lemma it_next_spec pos : forall e0,
  pos_inv e0 pos -> valid_bytes (fst e0) ->
  (forall e, In e (flat_map rest_of pos) -> bytes_cmp (fst e) (fst e0) <> Lt) ->
  match it_next (fst e0) pos with
  | Some (e', pos') => flat_map rest_of pos = e' :: flat_map rest_of pos' /\ pos_inv e' pos'
  | None => flat_map rest_of pos = []
  end.
Proof.
  induction pos as [|a rem IH]; intros e0 (HA & HN & HI) Hv Hge; [reflexivity|].
  cbn [it_next flat_map].
  inversion HA as [|? ? Ha HArem]; subst. inversion HI as [|? ? Hin HIrem]; subst.
  destruct HN as [Hnest HNrem]. destruct Ha as (p & Ed & Ep & Hwf).
  rewrite Ed, Ep.
  pose proof (do_next_spec (a_node a) p (fst e0) (a_state a) Hwf Hv) as S.
  assert (forall e, In e (rest_of a) -> bytes_cmp (fst e) (fst e0) <> Lt) as Hge_a.
  { intros e He. apply Hge. cbn [flat_map]. apply in_or_app. now left. }
  specialize (S ltac:(
    intros Est; destruct (a_node a) as [|? ?|lbl lf l r] eqn:En; try exact I; split;
    [destruct e0 as [k0 v0]; pose proof (wf_node_keys _ _ _ _ _ _ _ Hwf Hin) as Hp; now apply is_prefix_len in Hp
    |intros e He; apply Hge_a; unfold rest_of; rewrite En, Est; exact He])).
  destruct (do_next (a_node a) (N.of_nat (length p)) (pack p) (fst e0) (a_state a)) as [[e' stk]|];
    cbn [ok_found] in S; fold (rest_of a) in S; rewrite (seek_all_ge _ _ Hge_a) in S.
  - destruct S as (R & S1 & F1 & (A1 & I1 & N1)). rewrite app_nil_r in F1. split.
    + rewrite flat_map_app, F1, S1. reflexivity.
    + assert (In e' (contents (a_node a))) as He'.
      { apply (remaining_incl (a_state a)). fold (rest_of a). rewrite S1. now left. }
      split; [|split].
      * apply Forall_app. split; assumption.
      * apply nest_app; auto. intros x y Hx Hy. rewrite Forall_forall in I1.
        destruct (I1 x Hx) as [Hx1 _]. intros z Hz. apply (Hnest y Hy). now apply Hx1.
      * apply Forall_app. split.
        -- eapply Forall_impl; [|exact I1]. intros x [_ Hx]. exact Hx.
        -- apply Forall_forall. intros y Hy. now apply (Hnest y Hy).
  - rewrite S. cbn [app]. apply IH; auto.
    + split; [|split]; assumption.
    + intros e He. apply Hge. cbn [flat_map]. apply in_or_app. now right.
Qed.

Definition cur_is (cur : found) (L : list entry) : Prop :=
  match cur with
  | Some (e, pos) => L = e :: flat_map rest_of pos /\ pos_inv e pos
  | None => L = []
  end.

Lemma it_collect_spec : forall fuel L cur,
  cur_is cur L -> sorted L -> (forall e, In e L -> valid_bytes (fst e)) -> (length L < fuel)%nat ->
  it_collect fuel cur = L.
Proof.
  induction fuel as [|f IH]; intros L cur Hc Hs Hv Hl; [lia|].
  destruct cur as [[e pos]|]; cbn [cur_is it_collect] in *; [|now subst].
  destruct Hc as [-> Hinv]. f_equal. cbn [sorted] in Hs. destruct Hs as [Hlt Hs].
  apply IH; auto.
  - pose proof (it_next_spec pos e Hinv (Hv e (or_introl eq_refl))) as S.
    specialize (S ltac:(intros x Hx; rewrite Forall_forall in Hlt; specialize (Hlt x Hx);
                        unfold key_lt in Hlt; rewrite bytes_cmp_antisym, Hlt; discriminate)).
    destruct (it_next (fst e) pos) as [[e' pos']|]; cbn [cur_is]; exact S.
  - intros x Hx. apply Hv. now right.
  - cbn [length] in Hl. lia.
Qed.

Lemma al_seek_length k (L : list entry) : (length (al_seek k L) <= length L)%nat.
Proof.
  induction L as [|[k0 v0] L IH]; cbn [al_seek length]; [lia|].
  destruct (bytes_cmp k0 k); cbn [length]; lia.
Qed.

(* ---------- the theorem ---------- *)
Theorem doNext_refines_seek t k :
  wf t -> valid_bytes k -> port_iter k t = al_seek k (contents t).
Proof.
  intros Hwf Hv. unfold port_iter, it_seek.
  pose proof (do_next_spec t [] k VBefore Hwf Hv ltac:(discriminate)) as S.
  cbn [length N.of_nat pack] in S. rewrite remaining_before in S.
  destruct (al_seek_spec k (contents t) (contents_sorted _ Hwf)) as [Ss Sm].
  apply it_collect_spec.
  - destruct (do_next t 0 [] k VBefore) as [[e stk]|]; cbn [ok_found cur_is] in *; [|exact S].
    destruct S as (R & S1 & F1 & (A1 & I1 & N1)). rewrite app_nil_r in F1. split; [now rewrite S1, F1|].
    split; [exact A1|split; [exact N1|]]. eapply Forall_impl; [|exact I1]. intros x [_ Hx]. exact Hx.
  - exact Ss.
  - intros [k1 v1] He. apply Sm in He as [He _]. apply (wf_keys _ _ _ _ Hwf He).
  - apply Nat.lt_succ_r. apply al_seek_length.
Qed.

(* ---------- the runner evaluated by the correspondence check refines the map ---------- *)
Definition sop_valid_p (o : sop) : Prop :=
  sop_valid o /\ match o with SIter k _ => valid_bytes k | _ => True end.

Lemma s_iter_p_eq_wf s os k : wf (tr s) -> valid_bytes k -> s_iter_p k s os = s_iter k s os.
Proof.
  intros W V. induction os as [|o r IH]; cbn [s_iter_p s_iter]; [|now rewrite IH].
  unfold t_iter. now apply doNext_refines_seek.
Qed.

Lemma s_step_p_eq_wf st o : st_inv st -> sop_valid_p o -> s_step_p st o = s_step st o.
Proof.
  intros [[W _] _] [_ V]. destruct o; cbn [s_step_p s_step]; auto. now rewrite s_iter_p_eq_wf.
Qed.

Theorem port_run_refines ops : forall st,
  Forall sop_valid_p ops -> st_inv st -> s_run_p st ops = s_run st ops.
Proof.
  induction ops as [|o r IH]; intros st Hv Hi; cbn [s_run_p s_run]; [reflexivity|].
  inversion Hv as [|? ? Ho Hr]; subst. rewrite s_step_p_eq_wf by assumption.
  destruct (step_refines st o (proj1 Ho) Hi) as (I1 & _ & _).
  destruct (s_step st o) as [st1 res]. cbn [fst] in I1. now rewrite IH.
Qed.

Theorem tree_refines_map_port b ops :
  Forall sop_valid_p ops ->
  snd (s_run_p (t_init b, []) ops) = snd (a_run a_init ops).
Proof.
  intros Hv. rewrite port_run_refines; [|exact Hv|apply init_inv].
  apply tree_refines_map. eapply Forall_impl; [|exact Hv]. intros o [H _]. exact H.
Qed.
