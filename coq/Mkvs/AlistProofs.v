(* Sorted association lists keyed by byte strings: the abstract ordered map. *)
From Verif Require Import Lib.Base Mkvs.Trie Mkvs.BitsProofs.

Lemma key_lt_trans a b c : key_lt a b -> key_lt b c -> key_lt a c.
Proof. unfold key_lt. apply bytes_cmp_trans. Qed.

Lemma sorted_app a b :
  sorted a -> sorted b -> (forall x y, In x a -> In y b -> key_lt x y) -> sorted (a ++ b).
Proof.
  induction a as [|x a IH]; cbn [app sorted]; intros Ha Hb Hab; [exact Hb|].
  destruct Ha as [Hx Ha]. split.
  - apply Forall_app. split; [exact Hx|]. apply Forall_forall. intros y Hy. apply Hab; cbn; auto.
  - apply IH; auto. intros; apply Hab; cbn; auto.
Qed.

Lemma sorted_app_inv a b :
  sorted (a ++ b) -> sorted a /\ sorted b /\ (forall x y, In x a -> In y b -> key_lt x y).
Proof.
  induction a as [|x a IH]; cbn [app sorted]; intros H.
  - repeat split; auto. intros ? ? [].
  - destruct H as [Hx H]. apply IH in H as (Ha & Hb & Hab).
    apply Forall_app in Hx as [Hxa Hxb]. repeat split; auto.
    intros u y [<-|Hu] Hy; [|auto]. rewrite Forall_forall in Hxb. auto.
Qed.

Lemma sorted_key_unique l k v1 v2 : sorted l -> In (k, v1) l -> In (k, v2) l -> v1 = v2.
Proof.
  induction l as [|x l IH]; cbn [sorted In]; [tauto|]. intros [Hx Hs] [E1|H1] [E2|H2].
  - congruence.
  - subst x. rewrite Forall_forall in Hx. specialize (Hx _ H2). unfold key_lt in Hx; cbn in Hx.
    rewrite bytes_cmp_refl in Hx. discriminate.
  - subst x. rewrite Forall_forall in Hx. specialize (Hx _ H1). unfold key_lt in Hx; cbn in Hx.
    rewrite bytes_cmp_refl in Hx. discriminate.
  - auto.
Qed.

Lemma sorted_ext l1 l2 :
  sorted l1 -> sorted l2 -> (forall e, In e l1 <-> In e l2) -> l1 = l2.
Proof.
  revert l2; induction l1 as [|x l1 IH]; intros l2 H1 H2 E.
  - destruct l2 as [|y l2]; [reflexivity|]. exfalso. apply (E y). cbn; auto.
  - destruct l2 as [|y l2]; [exfalso; apply (E x); cbn; auto|].
    cbn [sorted] in H1, H2. destruct H1 as [Hx H1], H2 as [Hy H2].
    rewrite Forall_forall in Hx, Hy.
    assert (x = y) as ->.
    { destruct (proj1 (E x) (or_introl eq_refl)) as [E1|E1]; [auto|].
      destruct (proj2 (E y) (or_introl eq_refl)) as [E2|E2]; [auto|].
      specialize (Hx _ E2). specialize (Hy _ E1). unfold key_lt in *.
      rewrite bytes_cmp_antisym, Hx in Hy. discriminate. }
    f_equal. apply IH; auto. intros e; split; intros He.
    + destruct (proj1 (E e) (or_intror He)) as [<-|]; [|auto].
      specialize (Hx _ He). unfold key_lt in Hx. rewrite bytes_cmp_refl in Hx. discriminate.
    + destruct (proj2 (E e) (or_intror He)) as [<-|]; [|auto].
      specialize (Hy _ He). unfold key_lt in Hy. rewrite bytes_cmp_refl in Hy. discriminate.
Qed.

(* ---------- al_set ---------- *)
Lemma al_set_in k v l e :
  sorted l -> (In e (al_set k v l) <-> e = (k, v) \/ (fst e <> k /\ In e l)).
Proof.
  induction l as [|[k0 v0] l IH]; cbn [al_set sorted]; intros Hs.
  - cbn. intuition.
  - destruct Hs as [Hx Hs]. rewrite Forall_forall in Hx.
    destruct (bytes_cmp k k0) eqn:C.
    + apply bytes_cmp_eq in C. subst k0. cbn [In]. split.
      * intros [<-|H]; [auto|]. right. split; [|auto]. specialize (Hx _ H).
        unfold key_lt in Hx; cbn in Hx. intros <-. rewrite bytes_cmp_refl in Hx. discriminate.
      * intros [->|[Hn [<-|H]]]; auto. cbn in Hn. congruence.
    + cbn [In]. split.
      * intros [<-|[<-|H]]; auto.
        -- right. split; [|auto]. cbn. intros ->. rewrite bytes_cmp_refl in C. discriminate.
        -- right. split; [|auto]. specialize (Hx _ H). unfold key_lt in Hx; cbn in Hx.
           intros <-. pose proof (bytes_cmp_trans _ _ _ C Hx) as T.
           rewrite bytes_cmp_refl in T. discriminate.
      * intros [->|[Hn H]]; auto.
    + cbn [In]. rewrite IH by assumption. split.
      * intros [<-|[->|[Hn H]]]; auto. right. split; [|auto]. cbn. intros ->.
        rewrite bytes_cmp_refl in C. discriminate.
      * intros [->|[Hn [<-|H]]]; auto.
Qed.

Lemma al_set_sorted k v l : sorted l -> sorted (al_set k v l).
Proof.
  induction l as [|[k0 v0] l IH]; cbn [al_set sorted]; intros Hs; [auto|].
  destruct Hs as [Hx Hs]. destruct (bytes_cmp k k0) eqn:C.
  - apply bytes_cmp_eq in C. subst k0. cbn [sorted]. auto.
  - cbn [sorted]. repeat split; auto. constructor; [exact C|].
    eapply Forall_impl; [|exact Hx]. intros a Ha. unfold key_lt in *; cbn in *.
    eapply bytes_cmp_trans; eauto.
  - cbn [sorted]. split; [|auto]. apply Forall_forall. intros e He.
    apply al_set_in in He; [|assumption]. destruct He as [->|[_ He]].
    + unfold key_lt; cbn. now apply bytes_cmp_gt_lt.
    + rewrite Forall_forall in Hx. auto.
Qed.

(* ---------- al_del ---------- *)
Lemma al_del_in k l e :
  sorted l -> (In e (al_del k l) <-> fst e <> k /\ In e l).
Proof.
  induction l as [|[k0 v0] l IH]; cbn [al_del sorted]; intros Hs.
  - cbn. intuition.
  - destruct Hs as [Hx Hs]. rewrite Forall_forall in Hx.
    destruct (bytes_cmp k k0) eqn:C.
    + apply bytes_cmp_eq in C. subst k0. cbn [In]. split.
      * intros H. split; [|auto]. specialize (Hx _ H).
        unfold key_lt in Hx; cbn in Hx. intros <-. rewrite bytes_cmp_refl in Hx. discriminate.
      * intros [Hn [<-|H]]; auto. cbn in Hn. congruence.
    + split.
      * intros [<-|H]; (split; [|cbn; auto]).
        -- cbn. intros ->. rewrite bytes_cmp_refl in C. discriminate.
        -- specialize (Hx _ H). unfold key_lt in Hx; cbn in Hx.
           intros <-. pose proof (bytes_cmp_trans _ _ _ C Hx) as T.
           rewrite bytes_cmp_refl in T. discriminate.
      * intros [_ H]. exact H.
    + cbn [In]. rewrite IH by assumption. split.
      * intros [<-|[Hn H]]; auto. split; [|auto]. cbn. intros ->.
        rewrite bytes_cmp_refl in C. discriminate.
      * intros [Hn [<-|H]]; auto.
Qed.

Lemma al_del_sorted k l : sorted l -> sorted (al_del k l).
Proof.
  induction l as [|[k0 v0] l IH]; cbn [al_del sorted]; intros Hs; [auto|].
  destruct Hs as [Hx Hs]. destruct (bytes_cmp k k0) eqn:C.
  - auto.
  - cbn [sorted]. auto.
  - cbn [sorted]. split; [|auto]. apply Forall_forall. intros e He.
    apply al_del_in in He; [|assumption]. destruct He as [_ He].
    rewrite Forall_forall in Hx. auto.
Qed.

(* ---------- al_get ---------- *)
Lemma al_get_some_in k l v : al_get k l = Some v -> In (k, v) l.
Proof.
  induction l as [|[k0 v0] l IH]; cbn [al_get]; [discriminate|].
  destruct (bytes_eqb k0 k) eqn:E.
  - apply bytes_eqb_eq in E. subst. intros [= ->]. cbn; auto.
  - intros H. right. auto.
Qed.
Lemma al_get_none_notin k l : al_get k l = None -> forall v, ~ In (k, v) l.
Proof.
  induction l as [|[k0 v0] l IH]; cbn [al_get]; [intros _ v []|].
  destruct (bytes_eqb k0 k) eqn:E; [discriminate|].
  intros H v [E2|H2].
  - injection E2 as -> ->. rewrite bytes_eqb_refl in E. discriminate.
  - eapply IH; eauto.
Qed.
Lemma al_get_in k l v : sorted l -> In (k, v) l -> al_get k l = Some v.
Proof.
  intros Hs Hin. destruct (al_get k l) as [v'|] eqn:E.
  - apply al_get_some_in in E. f_equal. eapply sorted_key_unique; eauto.
  - exfalso. eapply al_get_none_notin; eauto.
Qed.
Lemma al_get_notin k l : (forall v, ~ In (k, v) l) -> al_get k l = None.
Proof.
  intros H. destruct (al_get k l) as [v|] eqn:E; [|reflexivity].
  apply al_get_some_in in E. exfalso. eapply H; eauto.
Qed.

Lemma al_get_set_same k v l : sorted l -> al_get k (al_set k v l) = Some v.
Proof.
  intros Hs. apply al_get_in; [now apply al_set_sorted|]. apply al_set_in; auto.
Qed.
Lemma al_get_set_other k k' v l : sorted l -> k <> k' -> al_get k (al_set k' v l) = al_get k l.
Proof.
  intros Hs Hn. destruct (al_get k l) as [w|] eqn:E.
  - apply al_get_in; [now apply al_set_sorted|]. apply al_set_in; auto.
    right. split; [exact Hn|]. now apply al_get_some_in.
  - apply al_get_notin. intros w Hw. apply al_set_in in Hw; auto.
    destruct Hw as [[= -> _]|[_ Hw]]; [congruence|]. eapply al_get_none_notin; eauto.
Qed.
Lemma al_get_del_same k l : sorted l -> al_get k (al_del k l) = None.
Proof.
  intros Hs. apply al_get_notin. intros v Hv. apply al_del_in in Hv; auto. cbn in Hv. tauto.
Qed.
Lemma al_get_del_other k k' l : sorted l -> k <> k' -> al_get k (al_del k' l) = al_get k l.
Proof.
  intros Hs Hn. destruct (al_get k l) as [w|] eqn:E.
  - apply al_get_in; [now apply al_del_sorted|]. apply al_del_in; auto.
    split; [exact Hn|]. now apply al_get_some_in.
  - apply al_get_notin. intros w Hw. apply al_del_in in Hw; auto.
    destruct Hw as [_ Hw]. eapply al_get_none_notin; eauto.
Qed.

(* a sorted list is determined by its lookups *)
Lemma sorted_ext_get l1 l2 :
  sorted l1 -> sorted l2 -> (forall k, al_get k l1 = al_get k l2) -> l1 = l2.
Proof.
  intros H1 H2 E. apply sorted_ext; auto. intros [k v]. split; intros H.
  - apply al_get_some_in. rewrite <- E. now apply al_get_in.
  - apply al_get_some_in. rewrite E. now apply al_get_in.
Qed.
