(* The ported tree iterator (Mkvs/Iter.v) against the specification iterator:
   finite-domain instance by exhaustive evaluation inside Coq (a regression of
   the port), and the conditional bridge between the two runners.  The general
   theorem doNext_refines_seek is proved in Mkvs/IterLift.v. *)
From Verif Require Import Lib.Base Mkvs.Trie Mkvs.BitsProofs Mkvs.AlistProofs Mkvs.TrieProofs
  Mkvs.Key Mkvs.Overlay Mkvs.OverlayProofs Mkvs.Iter.

Definition iter_universe : list bytes :=
  [[]; [0]; [0; 0]; [0; 1]; [0; 128; 7]; [1]; [128]; [128; 0; 0; 1]; [255]; [255; 255]].
Definition iter_seeks : list bytes :=
  iter_universe ++
  [[0; 0; 0]; [0; 2]; [0; 128]; [0; 128; 6]; [0; 128; 8]; [0; 255]; [127]; [127; 255; 255]; [129];
   [128; 0; 0]; [128; 0; 0; 0]; [128; 0; 0; 2]; [255; 0]].

Fixpoint sublists {A} (l : list A) : list (list A) :=
  match l with
  | [] => [[]]
  | x :: r => sublists r ++ map (cons x) (sublists r)
  end.
Lemma sublists_spec {A} (l s : list A) : In s (sublists l) -> incl s l.
Proof.
  revert s; induction l as [|x r IH]; cbn; intros s H.
  - destruct H as [<-|[]]. intros ? [].
  - apply in_app_or in H as [H|H].
    + intros y Hy. right. eapply IH; eauto.
    + apply in_map_iff in H as (s' & <- & H). intros y [<-|Hy]; [left; reflexivity|right; eapply IH; eauto].
Qed.

Definition build_keys (ks : list bytes) : tree :=
  run (map (fun k => OIns k (k ++ [N.of_nat (length k)])) ks).

Definition entry_eqb' (a b : entry) : bool := bytes_eqb (fst a) (fst b) && bytes_eqb (snd a) (snd b).
Definition iter_agrees (t : tree) (k : bytes) : bool :=
  list_eqb entry_eqb' (port_iter k t) (al_seek k (contents t)).

Lemma entry_eqb'_eq a b : entry_eqb' a b = true -> a = b.
Proof.
  destruct a, b. unfold entry_eqb'. cbn. intros H. apply andb_true_iff in H as [H1 H2].
  apply bytes_eqb_eq in H1, H2. congruence.
Qed.
Lemma list_eqb_eq {A} (f : A -> A -> bool) (Hf : forall a b, f a b = true -> a = b) l1 l2 :
  list_eqb f l1 l2 = true -> l1 = l2.
Proof.
  revert l2; induction l1 as [|x l1 IH]; intros [|y l2]; cbn; try discriminate; auto.
  intros H. apply andb_true_iff in H as [H1 H2]. f_equal; auto.
Qed.

Lemma iter_sweep :
  forallb (fun ks => forallb (iter_agrees (build_keys ks)) iter_seeks) (sublists iter_universe) = true.
Proof. vm_compute. reflexivity. Qed.

Theorem doNext_refines_seek_partial ks k :
  In ks (sublists iter_universe) -> In k iter_seeks ->
  port_iter k (build_keys ks) = al_seek k (contents (build_keys ks)).
Proof.
  intros Hks Hk. pose proof iter_sweep as S.
  rewrite forallb_forall in S. specialize (S ks Hks).
  rewrite forallb_forall in S. specialize (S k Hk).
  apply (list_eqb_eq _ entry_eqb'_eq). exact S.
Qed.

(* non-vacuity: the domain contains the tree with all the keys of the universe *)
Lemma sublists_full {A} (l : list A) : In l (sublists l).
Proof.
  induction l as [|x r IH]; cbn; [auto|]. apply in_or_app. right. now apply in_map.
Qed.
Example iter_sweep_size :
  length (sublists iter_universe) = 1024%nat /\ length iter_seeks = 23%nat /\
  length (contents (build_keys iter_universe)) = 10%nat.
Proof. vm_compute. auto. Qed.
Example iter_sweep_full k :
  In k iter_seeks -> port_iter k (build_keys iter_universe) = al_seek k (contents (build_keys iter_universe)).
Proof. apply doNext_refines_seek_partial, sublists_full. Qed.

(* ---------- the ported runner is the specified runner when the port agrees ---------- *)
Definition port_agrees (t : tree) : Prop := forall k, port_iter k t = al_seek k (contents t).

Lemma s_iter_p_eq s os k : port_agrees (tr s) -> s_iter_p k s os = s_iter k s os.
Proof.
  intros P. induction os as [|o r IH]; cbn [s_iter_p s_iter]; [apply P|now rewrite IH].
Qed.

Lemma s_step_p_eq st o : port_agrees (tr (fst st)) -> s_step_p st o = s_step st o.
Proof. intros P. destruct o; cbn [s_step_p s_step]; auto. now rewrite s_iter_p_eq. Qed.

(* every tree reached along the history satisfies the (open) full statement *)
Fixpoint port_agrees_along (st : store) (ops : list sop) : Prop :=
  port_agrees (tr (fst st)) /\
  match ops with
  | [] => True
  | o :: r => port_agrees_along (fst (s_step st o)) r
  end.

Theorem port_run_eq_spec_run ops : forall st,
  port_agrees_along st ops -> s_run_p st ops = s_run st ops.
Proof.
  induction ops as [|o r IH]; intros st [P R]; cbn [s_run_p s_run]; [reflexivity|].
  rewrite s_step_p_eq by exact P. destruct (s_step st o) as [st1 res]. cbn [fst] in R.
  now rewrite IH.
Qed.
