(* Byte-wise port of node.Key (go/storage/mkvs/node/key.go): the functions the
   real code runs on packed byte strings.  Definitions only; the relation to the
   bit-list functions of Trie.v is in Mkvs/KeyProofs.v.
   Depth is a uint16 in the code; bit lengths here are unbounded N (keys of
   8192 bytes and more are outside the stated bounds).  Where Go would panic
   on an out-of-range index the model reads 0 / ignores the write; the callers
   in the model never do that on well-formed trees. *)
From Verif Require Import Lib.Base Mkvs.Trie.

Definition nthb (k : bytes) (i : N) : N := nth (N.to_nat i) k 0.
Definition blen (k : bytes) : N := N.of_nat (length k).
Definition nrange (n : N) : list N := map N.of_nat (seq 0 (N.to_nat n)).

(* byte arithmetic: uint8 shifts *)
Definition shl8 (x s : N) : N := (x * 2 ^ s) mod 256.
Definition shr8 (x s : N) : N := x / 2 ^ s.

(* Depth.ToBytes, depth.go:16 *)
Definition to_bytes (d : N) : N := d / 8 + (if d mod 8 =? 0 then 0 else 1).

(* Key.BitLength, key.go:86 *)
Definition k_bitlen (k : bytes) : N := 8 * blen k.

(* Key.GetBit, key.go:91 *)
Definition k_getbit (k : bytes) (b : N) : bool :=
  negb (N.land (nthb k (b / 8)) (2 ^ (7 - b mod 8)) =? 0).

(* make(Key, n) followed by copy(dst, k): zero padded / truncated *)
Definition take_pad (n : N) (k : bytes) : bytes :=
  firstn (N.to_nat n) (k ++ repeat 0 (N.to_nat n)).

Fixpoint upd_nat (k : bytes) (i : nat) (f : N -> N) : bytes :=
  match k, i with
  | [], _ => []
  | x :: r, O => f x :: r
  | x :: r, S i' => x :: upd_nat r i' f
  end.
Definition upd (k : bytes) (i : N) (f : N -> N) : bytes := upd_nat k (N.to_nat i) f.

(* Key.Split, key.go:115-141 *)
Definition k_split (k : bytes) (sp kl : N) : bytes * bytes :=
  let pl := to_bytes sp in
  let sl := to_bytes (kl - sp) in
  let p0 := take_pad pl k in
  let p := if sp mod 8 =? 0 then p0
           else upd p0 (pl - 1) (fun x => N.land x (shl8 255 (8 - sp mod 8))) in
  let s := map (fun i =>
              let a := shl8 (nthb k (i + sp / 8)) (sp mod 8) in
              if negb (sp mod 8 =? 0) && negb (i + sp / 8 + 1 =? blen k)
              then N.lor a (shr8 (nthb k (i + sp / 8 + 1)) (8 - sp mod 8))
              else a) (nrange sl) in
  (p, s).

(* Key.Merge, key.go:148-172 *)
Definition k_merge (k : bytes) (kl : N) (k2 : bytes) (k2l : N) : bytes :=
  let klb := to_bytes kl in
  let nl := to_bytes (kl + k2l) in
  map (fun j =>
         let base := if j <? klb then nthb k j else 0 in
         let c1 := if negb (kl mod 8 =? 0) && (0 <? klb) && (klb <=? j + 1) && (j + 1 - klb <? blen k2)
                   then shr8 (nthb k2 (j + 1 - klb)) (kl mod 8) else 0 in
         let c2 := if (klb <=? j) && (j - klb <? blen k2)
                   then shl8 (nthb k2 (j - klb)) ((8 - kl mod 8) mod 8) else 0 in
         N.lor (N.lor base c1) c2) (nrange nl).

(* Key.AppendBit, key.go:177-188 *)
Definition k_appendbit (k : bytes) (kl : N) (v : bool) : bytes :=
  let nk := take_pad (to_bytes (kl + 1)) k in
  let m := shr8 128 (kl mod 8) in
  upd nk (kl / 8) (fun x => if v then N.lor x m else N.land x (255 - m)).

(* Key.CommonPrefixLen, key.go:194-221 *)
Fixpoint eq_prefix_bytes (a b : bytes) : nat :=
  match a, b with
  | x :: a', y :: b' => if x =? y then S (eq_prefix_bytes a' b') else O
  | _, _ => O
  end.
Definition lz8 (x : N) : N := if x =? 0 then 8 else 7 - N.log2 x.   (* bits.LeadingZeros8 *)
Definition k_cpl (k : bytes) (kbl : N) (k2 : bytes) (k2bl : N) : N :=
  let i := N.of_nat (eq_prefix_bytes k k2) in
  let bl := i * 8 + (if negb (i =? blen k) && negb (i =? blen k2)
                     then lz8 (N.lxor (nthb k i) (nthb k2 i)) else 0) in
  N.min (N.min bl kbl) k2bl.

(* Key.Compare = bytes.Compare = Lib.Base.bytes_cmp *)
