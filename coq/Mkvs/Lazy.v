(* The node cache as partial trees (go/storage/mkvs/cache.go): a pointer is
   either loaded (node in memory, clean or dirty) or evicted (clean, hash
   only).  An evicted pointer is modelled by the content committed under it
   ([PRef t]): "re-fetching a clean pointer from the node database returns the
   node that was committed under it" is the trust assumption of this layer
   (content addressing + node database correctness, C06/C07 territory); the
   hash itself is [root_hash H t].
   Eviction is nondeterministic: any clean loaded leaf or clean loaded subtree
   may be replaced by its evicted pointer at any time (tryRemoveNode
   cache.go:233-281: an internal node is removed together with everything
   cached below it; tryEvictLeaf / tryEvictInternal pick the victims by LRU
   order, which the model does not predict).
   Dereferencing follows derefNodePtr (cache.go:325-383), INCLUDING its rule
   for an internal node whose embedded leaf has been evicted: the node is
   dropped and re-fetched if its pointer is clean, and reads as nil if the
   pointer is dirty (:340-355).
   Definitions only; proofs in Mkvs/LazyProofs.v. *)
From Verif Require Import Lib.Base Mkvs.Trie.

Inductive ptree :=
| PNil
| PRef (t : tree)                          (* Pointer{Clean: true, Hash: hash t, Node: nil} *)
| PLeaf (clean : bool) (k v : bytes)
| PNode (clean : bool) (lbl : path) (lf l r : ptree).   (* lf: PNil, PLeaf or PRef (Leaf ..) *)

(* db.GetNode + the recursive re-fetches that follow: everything loaded, clean *)
Fixpoint full (t : tree) : ptree :=
  match t with
  | Nil => PNil
  | Leaf k v => PLeaf true k v
  | Node lbl lf l r =>
      PNode true lbl (match lf with Some (k, v) => PLeaf true k v | None => PNil end) (full l) (full r)
  end.

(* dereference every pointer (what an operation does along the paths it walks;
   an operation that does not reach a pointer is unaffected by it) *)
Fixpoint preload (p : ptree) : ptree :=
  match p with
  | PNil => PNil
  | PRef t => full t                                             (* cache.go:357-363 *)
  | PLeaf c k v => p
  | PNode c lbl lf l r =>
      match lf with
      | PRef tl =>                                               (* :340-346 LeafNode.Node == nil *)
          if c then PNode c lbl (full tl) (preload l) (preload r)   (* removeNode + GetNode *)
          else PNil                                              (* :350 !ptr.Clean -> return nil, nil *)
      | _ => PNode c lbl lf (preload l) (preload r)
      end
  end.

Fixpoint erase (p : ptree) : tree :=
  match p with
  | PNil => Nil
  | PRef _ => Nil
  | PLeaf _ k v => Leaf k v
  | PNode _ lbl lf l r =>
      Node lbl (match lf with PLeaf _ k v => Some (k, v) | _ => None end) (erase l) (erase r)
  end.

(* what the operations see *)
Definition view (p : ptree) : tree := erase (preload p).

(* ---------- eviction ---------- *)
Inductive evict : ptree -> ptree -> Prop :=
| ev_leaf k v : evict (PLeaf true k v) (PRef (Leaf k v))
| ev_node lbl lf l r :
    evict (PNode true lbl lf l r) (PRef (view (PNode true lbl lf l r)))
| ev_in_lf c lbl lf lf' l r : evict lf lf' -> evict (PNode c lbl lf l r) (PNode c lbl lf' l r)
| ev_in_l c lbl lf l l' r : evict l l' -> evict (PNode c lbl lf l r) (PNode c lbl lf l' r)
| ev_in_r c lbl lf l r r' : evict r r' -> evict (PNode c lbl lf l r) (PNode c lbl lf l r').

(* the negation of finding F1: no dirty internal node has an evicted embedded leaf *)
Fixpoint safe (p : ptree) : Prop :=
  match p with
  | PNode c lbl lf l r =>
      match lf, c with PRef _, false => False | _, _ => True end /\ safe lf /\ safe l /\ safe r
  | _ => True
  end.

(* ---------- which nodes are clean after an operation ---------- *)
Definition optlf_eqb (a b : option (bytes * bytes)) : bool :=
  match a, b with
  | None, None => true
  | Some (k, v), Some (k', v') => bytes_eqb k k' && bytes_eqb v v'
  | _, _ => false
  end.
Fixpoint tree_eqb (a b : tree) : bool :=
  match a, b with
  | Nil, Nil => true
  | Leaf k v, Leaf k' v' => bytes_eqb k k' && bytes_eqb v v'
  | Node lb lf l r, Node lb' lf' l' r' =>
      list_eqb Bool.eqb lb lb' && optlf_eqb lf lf' && tree_eqb l l' && tree_eqb r r'
  | _, _ => false
  end.

(* the committed (clean) subtrees reachable from a partial tree *)
Fixpoint subtrees (t : tree) : list tree :=
  match t with
  | Nil => []
  | Leaf _ _ => [t]
  | Node _ lf l r =>
      t :: match lf with Some (k, v) => [Leaf k v] | None => [] end ++ subtrees l ++ subtrees r
  end.
Fixpoint clean_set (p : ptree) : list tree :=
  match p with
  | PNil => []
  | PRef t => subtrees t
  | PLeaf c k v => if c then [Leaf k v] else []
  | PNode c lbl lf l r =>
      (if c then subtrees (view p) else []) ++ clean_set lf ++ clean_set l ++ clean_set r
  end.
Definition is_clean (cs : list tree) (t : tree) : bool := existsb (tree_eqb t) cs.

(* everything loaded; a node is clean iff an identical subtree was clean before *)
Fixpoint annot (cs : list tree) (t : tree) : ptree :=
  match t with
  | Nil => PNil
  | Leaf k v => PLeaf (is_clean cs t) k v
  | Node lbl lf l r =>
      PNode (is_clean cs t) lbl
            (match lf with Some (k, v) => PLeaf (is_clean cs (Leaf k v)) k v | None => PNil end)
            (annot cs l) (annot cs r)
  end.

(* ---------- operations of the tree object over the cache ---------- *)
Definition lazy_get (k : bytes) (p : ptree) : option bytes := tlookup k (view p).
Definition lazy_insert (k v : bytes) (p : ptree) : ptree := annot (clean_set p) (tinsert k v (view p)).
Definition lazy_remove (k : bytes) (p : ptree) : ptree * option bytes :=
  let '(t', _, ex) := tremove k (view p) in (annot (clean_set p) t', ex).
(* Commit: every node hashed, stored, marked clean; the root hash *)
Definition lazy_commit (H : bytes -> bytes) (p : ptree) : ptree * bytes :=
  (full (view p), root_hash H (view p)).

(* histories: operations interleaved with cache evictions *)
Inductive lop :=
| LGet (k : bytes)
| LIns (k v : bytes)
| LRem (k : bytes)
| LCommit
| LEvict (p' : ptree).       (* the cache state after some evictions *)

Inductive lres := LUnit | LVal (v : option bytes) | LRoot (h : bytes).

Definition lazy_step (H : bytes -> bytes) (p : ptree) (o : lop) : ptree * lres :=
  match o with
  | LGet k => (p, LVal (lazy_get k p))
  | LIns k v => (lazy_insert k v p, LUnit)
  | LRem k => let '(p', ex) := lazy_remove k p in (p', LVal ex)
  | LCommit => let '(p', h) := lazy_commit H p in (p', LRoot h)
  | LEvict p' => (p', LUnit)
  end.
Fixpoint lazy_run (H : bytes -> bytes) (p : ptree) (ops : list lop) : ptree * list lres :=
  match ops with
  | [] => (p, [])
  | o :: r =>
      let '(p1, res) := lazy_step H p o in
      let '(p2, rs) := lazy_run H p1 r in (p2, res :: rs)
  end.

(* the same history on the eager tree model: evictions do nothing *)
Definition eager_step (H : bytes -> bytes) (t : tree) (o : lop) : tree * lres :=
  match o with
  | LGet k => (t, LVal (tlookup k t))
  | LIns k v => (tinsert k v t, LUnit)
  | LRem k => let '(t', _, ex) := tremove k t in (t', LVal ex)
  | LCommit => (t, LRoot (root_hash H t))
  | LEvict _ => (t, LUnit)
  end.
Fixpoint eager_run (H : bytes -> bytes) (t : tree) (ops : list lop) : tree * list lres :=
  match ops with
  | [] => (t, [])
  | o :: r =>
      let '(t1, res) := eager_step H t o in
      let '(t2, rs) := eager_run H t1 r in (t2, res :: rs)
  end.

(* an eviction event is any sequence of single evictions, none of which evicts
   the embedded leaf of a dirty internal node *)
Inductive evicts : ptree -> ptree -> Prop :=
| evs_refl p : evicts p p
| evs_step p q r : evict p q -> safe q -> evicts q r -> evicts p r.
Fixpoint trace_ok (H : bytes -> bytes) (p : ptree) (ops : list lop) : Prop :=
  match ops with
  | [] => True
  | o :: r =>
      match o with LEvict p' => evicts p p' | _ => True end /\
      trace_ok H (fst (lazy_step H p o)) r
  end.
