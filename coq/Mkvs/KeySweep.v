(* Exhaustive sweeps of the byte-wise key functions over all packed bit strings
   up to a given length, folded into checksums.  The harness runs the same
   sweeps on the REAL node.Key functions (mode "keys") and the driver compares
   the checksums; Mkvs/KeyProofs.v proves, by the same enumeration, that the
   byte-wise functions equal the bit-list ones on this finite domain. *)
From Verif Require Import Lib.Base Mkvs.Trie Mkvs.Key.

Definition HMASK : N := 2305843009213693951.         (* 2^61 - 1 *)
(* polynomial checksum modulo 2^61 (multiplier 31; cheap under vm_compute) *)
Definition hmix (h x : N) : N := N.land (h * 31 + x + 1) HMASK.
Definition hbytes (h : N) (b : bytes) : N := fold_left hmix b (hmix h (blen b)).

(* all bit strings of length n, in lexicographic order (false < true) *)
Fixpoint all_paths (n : nat) : list path :=
  match n with
  | O => [[]]
  | S n' => map (cons false) (all_paths n') ++ map (cons true) (all_paths n')
  end.
Definition lens (n : nat) : list nat := seq 0 (S n).                 (* 0..n *)
Definition paths_upto (n : nat) : list path := flat_map all_paths (lens n).
Definition plen (p : path) : N := N.of_nat (length p).

(* 1. Split: every p with |p| <= n, every split point 0..|p| *)
Definition sweep_split (n : nat) : N :=
  fold_left (fun h p =>
    fold_left (fun h sp =>
      let '(a, b) := k_split (pack p) (N.of_nat sp) (plen p) in hbytes (hbytes h a) b)
      (lens (length p)) h) (paths_upto n) 0.

(* 2. Merge: every a, b with |a| + |b| <= n *)
Definition sweep_merge (n : nat) : N :=
  fold_left (fun h a =>
    fold_left (fun h b => hbytes h (k_merge (pack a) (plen a) (pack b) (plen b)))
      (paths_upto (n - length a)) h) (paths_upto n) 0.

(* 3. AppendBit: every p with |p| <= n, both bits *)
Definition sweep_appendbit (n : nat) : N :=
  fold_left (fun h p =>
    hbytes (hbytes h (k_appendbit (pack p) (plen p) false)) (k_appendbit (pack p) (plen p) true))
    (paths_upto n) 0.

(* 4. GetBit: every p with |p| <= n, every position below 8 * len(pack p) *)
Definition sweep_getbit (n : nat) : N :=
  fold_left (fun h p =>
    fold_left (fun h i => hmix h (if k_getbit (pack p) i then 1 else 0))
      (nrange (k_bitlen (pack p))) h) (paths_upto n) 0.

(* 5. CommonPrefixLen: every pair a, b with |a|, |b| <= n *)
Definition sweep_cpl (n : nat) : N :=
  fold_left (fun h a =>
    fold_left (fun h b => hmix h (k_cpl (pack a) (plen a) (pack b) (plen b)))
      (paths_upto n) h) (paths_upto n) 0.

(* 5b. CommonPrefixLen across a byte boundary: a with |a| <= n, b = the first m
   bits of a with bit j flipped, all j < |a|, m <= |a| *)
Fixpoint flip_at (j : nat) (p : path) : path :=
  match p, j with
  | [], _ => []
  | x :: r, O => negb x :: r
  | x :: r, S j' => x :: flip_at j' r
  end.
Definition sweep_cpl2 (n : nat) : N :=
  fold_left (fun h a =>
    fold_left (fun h j =>
      fold_left (fun h m =>
        let b := firstn m (flip_at j a) in
        hmix h (k_cpl (pack a) (plen a) (pack b) (plen b)))
        (lens (length a)) h) (seq 0 (length a)) h) (paths_upto n) 0.

(* one correspondence case per sweep: (sweep number 1..6, length bound) *)
Definition run_keys (i : N * nat) : N :=
  let '(w, n) := i in
  match w with
  | 1 => sweep_split n
  | 2 => sweep_merge n
  | 3 => sweep_appendbit n
  | 4 => sweep_getbit n
  | 5 => sweep_cpl n
  | 6 => sweep_cpl2 n
  | _ => 0
  end.
Definition keys_eqb (a b : N) : bool := a =? b.
