(* Cache eviction is invisible as long as no evicted leaf is the embedded leaf
   of a dirty internal node; the faithful derefNodePtr rule loses data when it
   is (finding F1). *)
From Verif Require Import Lib.Base Mkvs.Trie Mkvs.BitsProofs Mkvs.AlistProofs Mkvs.TrieProofs Mkvs.Lazy.

Lemma erase_full t : erase (full t) = t.
Proof.
  induction t as [|k v|lbl lf l IHl r IHr]; cbn; auto.
  rewrite IHl, IHr. destruct lf as [[k v]|]; reflexivity.
Qed.
Lemma preload_full t : preload (full t) = full t.
Proof.
  induction t as [|k v|lbl lf l IHl r IHr]; cbn; auto.
  rewrite IHl, IHr. destruct lf as [[k v]|]; reflexivity.
Qed.
Lemma view_full t : view (full t) = t.
Proof. unfold view. now rewrite preload_full, erase_full. Qed.
Lemma view_ref t : view (PRef t) = t.
Proof. unfold view. cbn. apply erase_full. Qed.

(* the view is compositional *)
Lemma view_node c lbl lf l r :
  view (PNode c lbl lf l r) =
  match lf with
  | PRef tl =>
      if c then Node lbl (match tl with Leaf k v => Some (k, v) | _ => None end) (view l) (view r)
      else Nil
  | PLeaf _ k v => Node lbl (Some (k, v)) (view l) (view r)
  | _ => Node lbl None (view l) (view r)
  end.
Proof.
  unfold view. cbn [preload]. destruct lf as [|tl|c' k v|c' lbl' lf' l' r']; try reflexivity.
  destruct c; [|reflexivity]. cbn [erase]. f_equal. destruct tl as [|k v|? [[? ?]|] ? ?]; reflexivity.
Qed.

Lemma evict_view p q : evict p q -> safe q -> view q = view p.
Proof.
  induction 1 as [k v|lbl lf l r|c lbl lf lf' l r Hev IH|c lbl lf l l' r Hev IH|c lbl lf l r r' Hev IH];
    intros Hs.
  - now rewrite view_ref.
  - now rewrite view_ref.
  - cbn [safe] in Hs. destruct Hs as (Hc & Hlf & _). rewrite !view_node.
    inversion Hev; subst; try reflexivity.
    + (* the embedded leaf itself is evicted: only under a clean node *)
      destruct c; [reflexivity|contradiction].
    + (* an internal node in the leaf position (never in a real tree) *)
      destruct c; [|contradiction].
      assert (forall c0 lb f a b, match view (PNode c0 lb f a b) with Leaf k v => Some (k, v) | _ => @None (bytes * bytes) end = None) as NL.
      { intros. rewrite view_node. destruct f as [|tl|? ? ?|? ? ? ? ?]; try reflexivity. destruct c0; reflexivity. }
      now rewrite NL.
  - cbn [safe] in Hs. destruct Hs as (_ & _ & Hl & _). rewrite !view_node, (IH Hl). reflexivity.
  - cbn [safe] in Hs. destruct Hs as (_ & _ & _ & Hr). rewrite !view_node, (IH Hr). reflexivity.
Qed.

Lemma evicts_view p q : evicts p q -> view q = view p.
Proof. induction 1 as [|p q r E S _ IH]; [reflexivity|]. rewrite IH. now apply evict_view. Qed.

(* the operations compute on the view and return a fully loaded tree *)
Lemma erase_annot cs t : erase (annot cs t) = t.
Proof.
  induction t as [|k v|lbl lf l IHl r IHr]; cbn; auto.
  rewrite IHl, IHr. destruct lf as [[k v]|]; reflexivity.
Qed.
Lemma preload_annot cs t : preload (annot cs t) = annot cs t.
Proof.
  induction t as [|k v|lbl lf l IHl r IHr]; cbn; auto.
  rewrite IHl, IHr. destruct lf as [[k v]|]; reflexivity.
Qed.
Lemma view_annot cs t : view (annot cs t) = t.
Proof. unfold view. now rewrite preload_annot, erase_annot. Qed.

Lemma lazy_step_view H p o :
  match o with LEvict p' => evicts p p' | _ => True end ->
  view (fst (lazy_step H p o)) = fst (eager_step H (view p) o) /\
  snd (lazy_step H p o) = snd (eager_step H (view p) o).
Proof.
  destruct o as [k|k v|k| |p']; cbn [lazy_step eager_step]; intros He.
  - auto.
  - unfold lazy_insert. cbn [fst snd]. now rewrite view_annot.
  - unfold lazy_remove. destruct (tremove k (view p)) as [[t' c] ex]. cbn [fst snd].
    now rewrite view_annot.
  - unfold lazy_commit. cbn [fst snd]. now rewrite view_full.
  - cbn [fst snd]. split; [now apply evicts_view|reflexivity].
Qed.

Theorem eviction_invisible H ops : forall p,
  trace_ok H p ops ->
  snd (lazy_run H p ops) = snd (eager_run H (view p) ops) /\
  view (fst (lazy_run H p ops)) = fst (eager_run H (view p) ops).
Proof.
  induction ops as [|o r IH]; intros p Hok; cbn [lazy_run eager_run]; [auto|].
  destruct Hok as [Ho Hr]. destruct (lazy_step_view H p o Ho) as [V R].
  destruct (lazy_step H p o) as [p1 res]. destruct (eager_step H (view p) o) as [t1 res'].
  cbn [fst snd] in *. subst t1 res'.
  destruct (IH p1 Hr) as [R2 V2].
  destruct (lazy_run H p1 r) as [p2 rs]. destruct (eager_run H (view p1) r) as [t2 rs'].
  cbn [fst snd] in *. subst. auto.
Qed.

(* ---------- finding F1 on the model ---------- *)
(* Insert a, Insert b, Commit, Insert ab: the clean leaf "a" becomes the embedded
   leaf of a new dirty internal node; evicting it makes the node read as nil *)
Definition f1_before : ptree :=
  fst (lazy_run (fun x => x) PNil [LIns [97] [1]; LIns [98] [2]; LCommit; LIns [97; 98] [3]]).
Definition f1_after : ptree :=
  match f1_before with
  | PNode c lbl lf (PNode c2 lbl2 (PLeaf true k v) l2 r2) r =>
      PNode c lbl lf (PNode c2 lbl2 (PRef (Leaf k v)) l2 r2) r
  | _ => PNil
  end.

Theorem eviction_f1_refuted :
  evict f1_before f1_after /\ ~ safe f1_after /\
  lazy_get [97] f1_before = Some [1] /\ lazy_get [97] f1_after = None /\
  lazy_get [97; 98] f1_before = Some [3] /\ lazy_get [97; 98] f1_after = None /\
  lazy_get [98] f1_after = Some [2] /\
  (* a following insert and commit persist the loss *)
  contents (view (fst (lazy_commit (fun x => x) (lazy_insert [122] [9] f1_after)))) = [([98], [2]); ([122], [9])].
Proof.
  assert (exists c lbl lf c2 lbl2 k v l2 r2 r,
            f1_before = PNode c lbl lf (PNode c2 lbl2 (PLeaf true k v) l2 r2) r /\ c2 = false) as
      (c & lbl & lf & c2 & lbl2 & k & v & l2 & r2 & r & E & Ec2).
  { vm_compute. repeat eexists. }
  split.
  - unfold f1_after. rewrite E. apply ev_in_l. apply ev_in_lf. apply ev_leaf.
  - split.
    + unfold f1_after. rewrite E, Ec2. cbn. tauto.
    + vm_compute. repeat split; reflexivity.
Qed.
