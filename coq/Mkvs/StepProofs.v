(* Evictions between the steps of one doInsert descent: invisible when they do
   not touch the call stack, data loss when they do (finding F2). *)
From Verif Require Import Lib.Base Mkvs.Trie Mkvs.BitsProofs Mkvs.AlistProofs Mkvs.TrieProofs
  Mkvs.Lazy Mkvs.LazyProofs Mkvs.Step.

Lemma view_ref' t : view (ref t) = t.
Proof. destruct t; try reflexivity; apply view_ref. Qed.
Lemma view_load1 t : view (load1 t) = t.
Proof.
  destruct t as [|k v|lbl lf l r]; try reflexivity. unfold load1. rewrite view_node.
  destruct lf as [[k v]|]; now rewrite !view_ref'.
Qed.
Lemma view_deref1 p : view (deref1 p) = view p.
Proof.
  destruct p as [|t|c k v|c lbl lf l r]; try reflexivity.
  - cbn [deref1]. now rewrite view_load1, view_ref.
  - cbn [deref1]. destruct lf as [|tl|? ? ?|? ? ? ? ?]; try reflexivity.
    destruct c; [|reflexivity]. rewrite !view_node.
    destruct tl as [|k v|? [[? ?]|] ? ?]; reflexivity.
Qed.
Definition not_ref (p : ptree) : Prop := match p with PRef _ => False | _ => True end.
Lemma deref1_lf p c lbl lf l r : deref1 p = PNode c lbl lf l r -> not_ref lf.
Proof.
  destruct p as [|t|c0 k0 v0|c0 lbl0 lf0 l0 r0]; cbn [deref1]; try discriminate.
  - destruct t as [|? ?|? [[? ?]|] ? ?]; cbn [load1]; try discriminate; intros [= <- <- <- <- <-]; exact I.
  - destruct lf0 as [|tl|? ? ?|? ? ? ? ?]; try (intros [= <- <- <- <- <-]; exact I).
    destruct c0; [|discriminate]. intros [= <- <- <- <- <-].
    destruct tl as [|? ?|? [[? ?]|] ? ?]; exact I.
Qed.
Definition lf_view (lf : ptree) : option (bytes * bytes) :=
  match lf with PLeaf _ k v => Some (k, v) | _ => None end.
Lemma view_node_nr c lbl lf l r : not_ref lf ->
  view (PNode c lbl lf l r) = Node lbl (lf_view lf) (view l) (view r).
Proof. intros H. rewrite view_node. destruct lf; try reflexivity. contradiction. Qed.

Section InsertProofs.
  Variables k v : bytes.

  Definition frame_view (f : frame) (t : tree) : tree :=
    Node (f_lbl f) (lf_view (f_lf f))
         (if f_right f then view (f_sib f) else t) (if f_right f then t else view (f_sib f)).
  Fixpoint plug (fs : list frame) (t : tree) : tree :=
    match fs with [] => t | f :: r => plug r (frame_view f t) end.
  Definition frames_ok (fs : list frame) : Prop :=
    Forall (fun f => f_dead f = false /\ not_ref (f_lf f)) fs.
  Definition whole (s : istate) : tree :=
    match s with
    | IDown fs d cur => plug fs (insert d k v (view cur))
    | IUp fs res => plug fs (view res)
    | IDone res => view res
    end.

  Lemma insert_descend d lbl lf l r :
    (lcp lbl (skipn d (bits_of k)) =? length lbl)%nat = true ->
    (length (bits_of k) =? d + length lbl)%nat = false ->
    insert d k v (Node lbl lf l r) =
    if bit (bits_of k) (d + length lbl)
    then Node lbl lf l (insert (d + length lbl) k v r)
    else Node lbl lf (insert (d + length lbl) k v l) r.
  Proof. intros H1 H2. cbn [insert]. now rewrite H1, H2. Qed.

  Lemma istep_whole s : frames_ok (frames_of s) ->
    whole (istep k v s) = whole s /\ frames_ok (frames_of (istep k v s)).
  Proof.
    destruct s as [fs d cur|fs res|res]; cbn [istep frames_of]; intros Hok.
    - unfold down_step.
      replace (whole (IDown fs d cur)) with (plug fs (insert d k v (view (deref1 cur))))
        by (cbn [whole]; now rewrite view_deref1).
      destruct (deref1 cur) as [|t|c0 k0 v0|c lbl lf l r] eqn:E;
        try (cbn [whole frames_of]; rewrite view_full; auto).
      pose proof (deref1_lf _ _ _ _ _ _ E) as Hnr.
      destruct ((lcp lbl (skipn d (bits_of k)) =? length lbl)%nat &&
                negb (length (bits_of k) =? d + length lbl)%nat) eqn:C.
      + apply andb_true_iff in C as [C1 C2]. apply negb_true_iff in C2.
        rewrite (view_node_nr _ _ _ _ _ Hnr), (insert_descend _ _ _ _ _ C1 C2).
        destruct (bit (bits_of k) (d + length lbl)); cbn [whole frames_of plug frame_view f_lbl f_lf f_right f_sib];
          (split; [reflexivity|constructor; [split; [reflexivity|exact Hnr]|exact Hok]]).
      + cbn [whole frames_of]. rewrite view_full. auto.
    - destruct fs as [|f fs']; cbn [up_step whole frames_of]; [auto|].
      inversion Hok as [|? ? [Hd Hnr] Hok']; subst. rewrite Hd. split; [|exact Hok'].
      cbn [plug]. f_equal. rewrite (view_node_nr _ _ _ _ _ Hnr). unfold frame_view.
      destruct (f_right f); reflexivity.
    - auto.
  Qed.

  Lemma plug_set_sib fs : forall i p' f t,
    nth_error fs i = Some f -> view p' = view (f_sib f) -> plug (set_sib fs i p') t = plug fs t.
  Proof.
    induction fs as [|g fs IH]; intros [|i] p' f t Hn Hv; cbn in Hn; try discriminate.
    - injection Hn as ->. cbn [set_sib plug]. f_equal. unfold frame_view. cbn [f_lbl f_lf f_right f_sib].
      now rewrite Hv.
    - cbn [set_sib plug]. eapply IH; eauto.
  Qed.
  Lemma frames_ok_set_sib fs : forall i p', frames_ok fs -> frames_ok (set_sib fs i p').
  Proof.
    induction fs as [|g fs IH]; intros [|i] p' H; cbn [set_sib]; auto; inversion H; subst;
      constructor; auto. apply IH; auto.
  Qed.

  Lemma iapply_whole s e : frames_ok (frames_of s) -> legal s e -> off_path e ->
    whole (iapply k v s e) = whole s /\ frames_ok (frames_of (iapply k v s e)).
  Proof.
    intros Hok Hl Hoff. destruct e as [|i p'|p'|i]; cbn [iapply legal off_path] in *.
    - now apply istep_whole.
    - destruct Hl as (f & Hn & He). pose proof (evicts_view _ _ He) as Hv.
      destruct s as [fs d cur|fs res|res]; cbn [with_frames frames_of whole] in *.
      + split; [eapply plug_set_sib; eauto|now apply frames_ok_set_sib].
      + split; [eapply plug_set_sib; eauto|now apply frames_ok_set_sib].
      + destruct i; discriminate.
    - destruct s as [fs d cur|fs res|res]; try contradiction.
      cbn [whole frames_of]. now rewrite (evicts_view _ _ Hl).
    - contradiction.
  Qed.

  Theorem insert_eviction_off_path_invisible es : forall s,
    frames_ok (frames_of s) -> legal_run k v s es -> Forall off_path es ->
    whole (irun k v s es) = whole s.
  Proof.
    induction es as [|e r IH]; intros s Hok Hl Hoff; [reflexivity|].
    cbn [irun legal_run] in *. destruct Hl as [Hl Hr]. inversion Hoff; subst.
    destruct (iapply_whole s e Hok Hl H1) as [W F]. rewrite IH by assumption. exact W.
  Qed.

  (* the operation as a whole: whatever the cache evicts off the call stack
     between the steps, a finished descent returns the eager model's tree *)
  Corollary insert_descent_correct p es res :
    legal_run k v (IDown [] 0 p) es -> Forall off_path es ->
    irun k v (IDown [] 0 p) es = IDone res -> view res = tinsert k v (view p).
  Proof.
    intros Hl Hoff E. pose proof (insert_eviction_off_path_invisible es (IDown [] 0 p) (Forall_nil _) Hl Hoff) as W.
    rewrite E in W. exact W.
  Qed.
End InsertProofs.

(* ---------- finding F2 on the model ---------- *)
(* committed tree {00, 40, 80}; Insert(20): the descent holds the root and the
   node above {00, 40}; evicting the root while it is on the stack loses everything *)
Definition f2_tree : ptree := full (run [OIns [0] [1]; OIns [64] [2]; OIns [128] [3]]).
Definition f2_events_ok : list ievent := [EStep; EStep; EStep; EStep; EStep; EStep].
Definition f2_events_bad : list ievent := [EStep; EStep; EEvictPath 1; EStep; EStep; EStep; EStep].

Theorem eviction_f2_refuted :
  (* without eviction: the eager result *)
  (exists res, irun [32] [9] (IDown [] 0 f2_tree) f2_events_ok = IDone res /\
               contents (view res) = [([0], [1]); ([32], [9]); ([64], [2]); ([128], [3])]) /\
  (* evicting the (clean) root while two frames are on the stack is a legal cache event ... *)
  legal_run [32] [9] (IDown [] 0 f2_tree) f2_events_bad /\
  (* ... and the finished operation has lost the whole tree, including the new key *)
  (exists res, irun [32] [9] (IDown [] 0 f2_tree) f2_events_bad = IDone res /\ contents (view res) = []).
Proof.
  split; [|split].
  - eexists. split; vm_compute; reflexivity.
  - cbn [legal_run f2_events_bad legal]. repeat split; try exact I.
    vm_compute. eexists. split; reflexivity.
  - eexists. split; vm_compute; reflexivity.
Qed.

(* ------------------------------------------------------------------ *)
(* doRemove                                                             *)
(* ------------------------------------------------------------------ *)
Definition cct (lbl : path) (lf : option (bytes * bytes)) (l r : tree) : tree :=
  fst (fst (collapse lbl lf l r false None)).

Lemma collapse_tree_indep lbl lf l r c e : fst (fst (collapse lbl lf l r c e)) = cct lbl lf l r.
Proof.
  unfold cct, collapse.
  destruct lf as [[k0 v0]|], l as [|kl vl|ll lfl l1 l2], r as [|kr vr|lr lfr r1 r2]; reflexivity.
Qed.

Definition present_t (t : tree) : bool := match t with Nil => false | _ => true end.
Lemma non_nil_view p : non_nil p = present_t (view p).
Proof.
  unfold non_nil. destruct p as [|t|c k v|c lbl lf l r]; try reflexivity.
  - cbn [deref1]. rewrite view_ref. destruct t as [|? ?|? [[? ?]|] ? ?]; reflexivity.
  - rewrite view_node. cbn [deref1]. destruct lf as [|tl|? ? ?|? ? ? ? ?]; try reflexivity.
    destruct c; reflexivity.
Qed.

Lemma pcollapse_view lbl lf l r : not_ref lf ->
  view (pcollapse lbl lf l r (non_nil l) (non_nil r)) = cct lbl (lf_view lf) (view l) (view r).
Proof.
  intros Hnr. unfold pcollapse. rewrite !non_nil_view.
  assert (has_leaf lf = match lf_view lf with Some _ => true | None => false end) as Hl
    by (destruct lf; reflexivity).
  rewrite Hl.
  destruct (lf_view lf) as [[k0 v0]|] eqn:Elf.
  - (* the node has its own leaf *)
    destruct (view l) eqn:El, (view r) eqn:Er; cbn [present_t negb andb orb];
      try (rewrite (view_node_nr _ _ _ _ _ Hnr), Elf, El, Er; reflexivity).
    destruct lf; try discriminate. cbn in Elf. injection Elf as -> ->. reflexivity.
  - cbn [negb andb].
    assert (forall child, view (match deref1 child with
                                | PNode c lbl' lf' l' r' => PNode false (lbl ++ lbl') lf' l' r'
                                | n => n end) =
                          match view child with
                          | Node lbl' lf' l' r' => Node (lbl ++ lbl') lf' l' r'
                          | t => t end) as Hm.
    { intros child. rewrite <- (view_deref1 child).
      destruct (deref1 child) as [|t|c0 k1 v1|c0 lbl' lf' l' r'] eqn:Ed; try reflexivity.
      - exfalso. destruct child as [|t0|? ? ?|? ? lf0 ? ?]; cbn [deref1] in Ed; try discriminate.
        + destruct t0 as [|? ?|? [[? ?]|] ? ?]; discriminate.
        + destruct lf0; try discriminate. destruct clean; discriminate.
      - pose proof (deref1_lf _ _ _ _ _ _ Ed) as Hn. now rewrite !view_node_nr by exact Hn. }
    destruct (view l) eqn:El, (view r) eqn:Er; cbn [present_t negb andb orb];
      try (rewrite (view_node_nr _ _ _ _ _ Hnr), Elf, El, Er; reflexivity);
      rewrite Hm, ?El, ?Er; reflexivity.
Qed.

Definition frame_view_r (f : frame) (t : tree) : tree :=
  cct (f_lbl f) (lf_view (f_lf f))
      (if f_right f then view (f_sib f) else t) (if f_right f then t else view (f_sib f)).
Fixpoint plug_r (fs : list frame) (t : tree) : tree :=
  match fs with [] => t | f :: r => plug_r r (frame_view_r f t) end.
Lemma plug_r_set_sib fs : forall i p' f t,
  nth_error fs i = Some f -> view p' = view (f_sib f) -> plug_r (set_sib fs i p') t = plug_r fs t.
Proof.
  induction fs as [|g fs IH]; intros [|i] p' f t Hn Hv; cbn in Hn; try discriminate.
  - injection Hn as ->. cbn [set_sib plug_r]. f_equal. unfold frame_view_r. cbn [f_lbl f_lf f_right f_sib].
    now rewrite Hv.
  - cbn [set_sib plug_r]. eapply IH; eauto.
Qed.

Section RemoveProofs.
  Variable k : bytes.

  Definition whole_r (s : rstate) : tree :=
    match s with
    | RDown fs d cur => plug_r fs (fst (fst (remove d k (view cur))))
    | RPre0 fs d c lbl lf l r | RPre1 fs d c lbl lf l r =>
        plug_r fs (fst (fst (remove d k (Node lbl (lf_view lf) (view l) (view r)))))
    | RRet fs res => plug_r fs (view res)
    | RCol0 fs lbl lf l r | RCol1 fs lbl lf l r _ => plug_r fs (cct lbl (lf_view lf) (view l) (view r))
    | RDone res => view res
    end.
  Definition inv_r (s : rstate) : Prop :=
    frames_ok (rframes s) /\
    match s with
    | RCol0 _ _ lf _ _ => not_ref lf
    | RCol1 _ _ lf l _ lp => not_ref lf /\ lp = present_t (view l)
    | RPre0 _ d _ lbl lf _ _ | RPre1 _ d _ lbl lf _ _ =>
        not_ref lf /\ (length (bits_of k) <? d + length lbl)%nat = false
    | _ => True
    end.

  Lemma remove_node d lbl lf l r :
    fst (fst (remove d k (Node lbl lf l r))) =
    let d' := (d + length lbl)%nat in
    let kl := length (bits_of k) in
    if (kl <? d')%nat then Node lbl lf l r
    else if (kl =? d')%nat then
      cct lbl (match lf with Some (k0, v0) => if bytes_eqb k0 k then None else lf | None => None end) l r
    else if bit (bits_of k) d' then cct lbl lf l (fst (fst (remove d' k r)))
    else cct lbl lf (fst (fst (remove d' k l))) r.
  Proof.
    cbn [remove]. cbv zeta.
    destruct (length (bits_of k) <? d + length lbl)%nat; [reflexivity|].
    destruct (length (bits_of k) =? d + length lbl)%nat.
    - destruct lf as [[k0 v0]|]; [destruct (bytes_eqb k0 k)|]; apply collapse_tree_indep.
    - destruct (bit (bits_of k) (d + length lbl)).
      + destruct (remove (d + length lbl) k r) as [[r' c] e]. apply collapse_tree_indep.
      + destruct (remove (d + length lbl) k l) as [[l' c] e]. apply collapse_tree_indep.
  Qed.

  Lemma rstep_whole s : inv_r s -> whole_r (rstep k s) = whole_r s /\ inv_r (rstep k s).
  Proof.
    destruct s as [fs d cur|fs d c lbl lf l r|fs d c lbl lf l r|fs res|fs lbl lf l r|fs lbl lf l r lp|res];
      cbn [rstep]; intros [Hok Hs].
    - (* dereference the node *)
      unfold rdown_step.
      replace (whole_r (RDown fs d cur)) with (plug_r fs (fst (fst (remove d k (view (deref1 cur))))))
        by (cbn [whole_r]; now rewrite view_deref1).
      destruct (deref1 cur) as [|t|c0 k0 v0|c lbl lf l r] eqn:E;
        try (cbn [whole_r rframes inv_r]; rewrite view_full; split; [reflexivity|split; [exact Hok|exact I]]).
      pose proof (deref1_lf _ _ _ _ _ _ E) as Hnr.
      rewrite (view_node_nr _ _ _ _ _ Hnr).
      destruct (length (bits_of k) <? d + length lbl)%nat eqn:Esh.
      + cbn [whole_r inv_r rframes]. rewrite remove_node. cbv zeta. rewrite Esh.
        rewrite <- (view_deref1 cur), E, (view_node_nr _ _ _ _ _ Hnr).
        split; [reflexivity|split; [exact Hok|exact I]].
      + cbn [whole_r inv_r rframes]. split; [reflexivity|split; [exact Hok|split; [exact Hnr|exact Esh]]].
    - (* pre-dereference of n.Left *)
      cbn [whole_r inv_r rframes] in *. split; [reflexivity|split; [exact Hok|exact Hs]].
    - (* pre-dereference of n.Right, then the recursive call *)
      cbn [whole_r inv_r rframes] in *. destruct Hs as [Hnr Esh]. unfold rdescend.
      rewrite remove_node. cbv zeta. rewrite Esh.
      destruct (length (bits_of k) =? d + length lbl)%nat.
      + cbn [whole_r inv_r rframes]. split; [|split; [exact Hok|]].
        * f_equal. f_equal. destruct lf as [| |c1 k1 v1|]; try reflexivity. cbn [lf_view].
          destruct (bytes_eqb k1 k); reflexivity.
        * destruct lf as [| |c1 k1 v1|]; try exact I; try contradiction. destruct (bytes_eqb k1 k); exact I.
      + destruct (bit (bits_of k) (d + length lbl));
          cbn [whole_r inv_r rframes plug_r]; unfold frame_view_r; cbn [f_lbl f_lf f_right f_sib];
          (split; [reflexivity|split; [constructor; [split; [reflexivity|exact Hnr]|exact Hok]|exact I]]).
    - (* return to the parent frame *)
      destruct fs as [|f fs']; cbn [whole_r inv_r rframes] in *;
        [split; [reflexivity|split; [constructor|exact I]]|].
      apply Forall_cons_iff in Hok as [[Hd Hnr] Hok']. split; [|split; [exact Hok'|exact Hnr]].
      cbn [plug_r]. unfold frame_view_r. destruct (f_right f); reflexivity.
    - cbn [whole_r inv_r rframes] in *. split; [reflexivity|split; [exact Hok|split; [exact Hs|apply non_nil_view]]].
    - cbn [whole_r inv_r rframes] in *. destruct Hs as [Hnr ->]. rewrite <- non_nil_view.
      rewrite pcollapse_view by exact Hnr. split; [reflexivity|split; [exact Hok|exact I]].
    - cbn [whole_r inv_r rframes] in *. split; [reflexivity|split; [exact Hok|exact I]].
  Qed.

  Lemma frames_ok_rwith s fs : frames_ok fs -> inv_r s -> inv_r (rwith_frames s fs).
  Proof. intros Hf [_ Hs]. destruct s; cbn [rwith_frames inv_r rframes] in *; split; auto; constructor. Qed.

  Lemma rapply_whole s e : inv_r s -> rlegal evicts s e ->
    whole_r (rapply k s e) = whole_r s /\ inv_r (rapply k s e).
  Proof.
    intros Hi Hl. destruct e as [|p'|p'|i p'|p'].
    - now apply rstep_whole.
    - destruct s; cbn [rapply rlegal] in *; try contradiction;
        pose proof (evicts_view _ _ Hl) as Hv; destruct Hi as [Hok Hs];
        cbn [whole_r inv_r rframes] in *; rewrite ?Hv; repeat split; try tauto;
        try (rewrite ?Hv; tauto).
    - destruct s; cbn [rapply rlegal] in *; try contradiction;
        pose proof (evicts_view _ _ Hl) as Hv; destruct Hi as [Hok Hs];
        cbn [whole_r inv_r rframes] in *; rewrite ?Hv; repeat split; try tauto;
        try (rewrite ?Hv; tauto).
    - assert (rapply k s (REvictSib i p') = rwith_frames s (set_sib (rframes s) i p')) as -> by (destruct s; reflexivity).
      assert (rlegal evicts s (REvictSib i p') -> exists f, nth_error (rframes s) i = Some f /\ evicts (f_sib f) p') as HL
        by (destruct s; cbn [rlegal]; auto).
      destruct (HL Hl) as (f & Hn & He). pose proof (evicts_view _ _ He) as Hv.
      split; [|apply frames_ok_rwith; [apply frames_ok_set_sib; apply Hi|exact Hi]].
      destruct s; cbn [rwith_frames whole_r rframes] in *; try reflexivity; eapply plug_r_set_sib; eauto.
    - destruct s; cbn [rapply rlegal] in *; try contradiction.
      destruct Hi as [Hok Hs]. cbn [whole_r inv_r rframes] in *. rewrite (evicts_view _ _ Hl). repeat split; auto.
  Qed.

  Theorem remove_eviction_off_path_invisible es : forall s,
    inv_r s -> rlegal_run k evicts s es -> whole_r (rrun k s es) = whole_r s.
  Proof.
    induction es as [|e r IH]; intros s Hi Hl; [reflexivity|].
    cbn [rrun rlegal_run] in *. destruct Hl as [Hl Hr].
    destruct (rapply_whole s e Hi Hl) as [W I']. rewrite IH by assumption. exact W.
  Qed.

  Corollary remove_descent_correct p es res :
    rlegal_run k evicts (RDown [] 0 p) es -> rrun k (RDown [] 0 p) es = RDone res ->
    view res = fst (fst (tremove k (view p))).
  Proof.
    intros Hl E.
    pose proof (remove_eviction_off_path_invisible es (RDown [] 0 p) (conj (Forall_nil _) I) Hl) as W.
    rewrite E in W. exact W.
  Qed.
End RemoveProofs.

(* ---------- the transient variant of finding F1 on the model ---------- *)
(* committed {80, 000100}; Insert(80ff0180) makes the clean leaf "80" the embedded
   leaf of a new dirty node X (the root's right child); RemoveExisting(8001), an
   ABSENT key: on the way up the root dereferences its left child (a fetch that
   evicts leaf "80" from the value cache), then its right child X, which now reads
   as nil, and collapses: "80" and "80ff0180" are gone *)
Definition f1t_tree : ptree :=
  fst (lazy_run (fun x => x) PNil
         [LIns [128] [1]; LIns [0; 1; 0] [2]; LCommit; LIns [128; 255; 1; 128] [3]]).
Definition evict_own_leaf (p : ptree) : ptree :=
  match p with
  | PNode c lbl (PLeaf true k0 v0) l r => PNode c lbl (PRef (Leaf k0 v0)) l r
  | _ => p
  end.
Definition f1t_steps (n : nat) : list revent := repeat RStep n.
(* the state in which the root has dereferenced n.Left and not yet n.Right *)
Definition f1t_mid : rstate := rrun [128; 1] (RDown [] 0 f1t_tree) (f1t_steps 12).
Definition f1t_evicted : ptree :=
  match f1t_mid with RCol1 _ _ _ _ r _ => evict_own_leaf r | _ => PNil end.

Theorem eviction_f1_transient_refuted :
  (* the fault-free operation changes nothing (the key is absent) *)
  (exists res, rrun [128; 1] (RDown [] 0 f1t_tree) (f1t_steps 14) = RDone res /\
               contents (view res) = [([0; 1; 0], [2]); ([128], [1]); ([128; 255; 1; 128], [3])]) /\
  (* the eviction is a legal cache event in that state ... *)
  (exists fs lbl lf l r lp, f1t_mid = RCol1 fs lbl lf l r lp /\ evict r f1t_evicted) /\
  (* ... and the finished operation has dropped the right subtree *)
  (exists res, rrun [128; 1] f1t_mid [REvictR f1t_evicted; RStep; RStep] = RDone res /\
               contents (view res) = [([0; 1; 0], [2])]).
Proof.
  split; [|split].
  - eexists. split; vm_compute; reflexivity.
  - assert (exists fs lbl lf l c2 lbl2 k0 v0 l2 r2 lp,
              f1t_mid = RCol1 fs lbl lf l (PNode c2 lbl2 (PLeaf true k0 v0) l2 r2) lp) as
        (fs & lbl & lf & l & c2 & lbl2 & k0 & v0 & l2 & r2 & lp & E) by (vm_compute; repeat eexists).
    exists fs, lbl, lf, l, (PNode c2 lbl2 (PLeaf true k0 v0) l2 r2), lp. split; [exact E|].
    unfold f1t_evicted. rewrite E. cbn [evict_own_leaf]. apply ev_in_lf, ev_leaf.
  - eexists. split; vm_compute; reflexivity.
Qed.

