(* C14: properties of the beacon side that feeds the elections. *)
From Verif Require Import Lib.Base Sched.Elect Sched.ElectSpec Sched.ElectLemmas
  Sched.ElectProofs Sched.ElectProofs2 Sched.CommitteeProofs Sched.EngineProofs Sched.SizeProofs Sched.Beacon.
From Coq Require Import Permutation.

(* ---------- the proof map does not depend on the submission order ---------- *)
Lemma pput_comm k1 v1 k2 v2 l :
  k1 <> k2 -> pput k1 v1 (pput k2 v2 l) = pput k2 v2 (pput k1 v1 l).
Proof.
  intros Hne. induction l as [|[k v] r IH]; cbn [pput].
  - destruct (k1 <? k2) eqn:E1, (k2 <? k1) eqn:E2, (k1 =? k2) eqn:E3, (k2 =? k1) eqn:E4;
      try lia; reflexivity.
  - destruct (k2 <? k) eqn:A2, (k1 <? k) eqn:A1; cbn [pput];
      destruct (k2 =? k) eqn:B2, (k1 =? k) eqn:B1; cbn [pput];
      repeat match goal with
             | |- context [?a <? ?b] => let E := fresh "C" in destruct (a <? b) eqn:E
             | |- context [?a =? ?b] => let E := fresh "C" in destruct (a =? b) eqn:E
             end; try lia; try reflexivity.
    rewrite IH. reflexivity.
Qed.

Lemma aget_pput_other k k' v l : k <> k' -> aget k (pput k' v l) = aget k l.
Proof.
  intros Hne. induction l as [|[k0 v0] r IH]; cbn [pput aget].
  - destruct (k' =? k) eqn:E; [lia|reflexivity].
  - destruct (k' <? k0) eqn:A; cbn [aget].
    + destruct (k' =? k) eqn:E; [lia|reflexivity].
    + destruct (k' =? k0) eqn:B; cbn [aget].
      * assert (k0 = k') by lia. subst. destruct (k' =? k) eqn:E; [lia|reflexivity].
      * destruct (k0 =? k); [reflexivity|exact IH].
Qed.

Definition is_prove_of (node : N) (o : bop) : Prop :=
  match o with OProve _ n _ _ _ => n = node | _ => False end.
Definition prove_node (o : bop) : option N :=
  match o with OProve _ n _ _ _ => Some n | _ => None end.

(* what a VRFProve transaction does to the state *)
Definition with_pi (s : bstate) (f : list (N * N) -> list (N * N)) : bstate :=
  match b_vrf s with
  | Some v => mkB (b_epoch s) (b_future s)
                  (Some (mkVs (vs_epoch v) (vs_alpha v) (f (vs_pi v)) (vs_hq v) (vs_after v) (vs_prev v)))
                  (b_beacon s) (b_nodes s)
  | None => s
  end.
Definition stores (s : bstate) (h n e : N) (valid : bool) : bool :=
  match b_vrf s with
  | Some v => negb (h <=? vs_after v) &&
              match aget n (b_nodes s) with Some _ => true | None => false end &&
              (e =? vs_epoch v) && valid &&
              match aget n (vs_pi v) with Some _ => false | None => true end
  | None => false
  end.
Lemma prove_step_char bp s h n e b valid :
  fst (bstep bp s (OProve h n e b valid)) = if stores s h n e valid then with_pi s (pput n b) else s.
Proof.
  unfold stores, with_pi. cbn [bstep]. destruct (b_vrf s) as [v|]; [|reflexivity].
  destruct (h <=? vs_after v); cbn [negb andb fst]; [reflexivity|].
  destruct (aget n (b_nodes s)); cbn [andb fst]; [|reflexivity].
  destruct (e =? vs_epoch v); cbn [negb andb fst]; [|reflexivity].
  destruct valid; cbn [negb andb fst]; [|reflexivity].
  destruct (aget n (vs_pi v)) as [old|]; cbn [fst]; [destruct (old =? b); reflexivity|reflexivity].
Qed.
Lemma stores_with_pi s h n e valid n' b' :
  n <> n' -> stores (with_pi s (pput n' b')) h n e valid = stores s h n e valid.
Proof.
  intros Hne. unfold stores, with_pi. destruct (b_vrf s) as [v|] eqn:E; [|rewrite E; reflexivity].
  cbn [b_vrf b_nodes vs_after vs_epoch vs_pi]. rewrite (aget_pput_other n n' b' _ Hne). reflexivity.
Qed.
Lemma with_pi_comm s n1 b1 n2 b2 :
  n1 <> n2 -> with_pi (with_pi s (pput n1 b1)) (pput n2 b2) = with_pi (with_pi s (pput n2 b2)) (pput n1 b1).
Proof.
  intros Hne. unfold with_pi. destruct (b_vrf s) as [v|] eqn:E; [|rewrite !E; reflexivity].
  cbn [b_vrf b_epoch b_future b_beacon b_nodes vs_epoch vs_alpha vs_pi vs_hq vs_after vs_prev].
  rewrite (pput_comm n2 b2 n1 b1 _ (not_eq_sym Hne)). reflexivity.
Qed.

(* two VRFProve transactions of different nodes commute *)
Lemma prove_commute bp s h1 n1 e1 b1 v1 h2 n2 e2 b2 v2 :
  n1 <> n2 ->
  fst (bstep bp (fst (bstep bp s (OProve h1 n1 e1 b1 v1))) (OProve h2 n2 e2 b2 v2)) =
  fst (bstep bp (fst (bstep bp s (OProve h2 n2 e2 b2 v2))) (OProve h1 n1 e1 b1 v1)).
Proof.
  intros Hne. rewrite !prove_step_char.
  destruct (stores s h1 n1 e1 v1) eqn:S1, (stores s h2 n2 e2 v2) eqn:S2;
    rewrite ?(stores_with_pi s h2 n2 e2 v2 n1 b1 (not_eq_sym Hne)), ?(stores_with_pi s h1 n1 e1 v1 n2 b2 Hne), ?S1, ?S2;
    try reflexivity.
  apply with_pi_comm. exact Hne.
Qed.

(* the proofs of one block/epoch may be delivered in any order: the resulting
   state (hence the next alpha, PrevState and everything elected from them) is
   the same on every replica, whatever order its map iteration or mempool used *)
Theorem prove_order_irrelevant bp ops ops' :
  Permutation ops ops' ->
  Forall (fun o => prove_node o <> None) ops ->
  NoDup (map prove_node ops) ->
  forall s, brun bp s ops = brun bp s ops'.
Proof.
  unfold brun. induction 1 as [|x l l' H IH|x y l|l l' l'' H1 IH1 H2 IH2]; intros Hall Hnd s; cbn [fold_left].
  - reflexivity.
  - inversion Hall; subst. cbn [map] in Hnd. inversion Hnd; subst. apply IH; assumption.
  - inversion Hall as [|? ? Hy Hall']; subst. inversion Hall' as [|? ? Hx _]; subst.
    cbn [map] in Hnd. inversion Hnd as [|? ? Hnin _]; subst.
    destruct x as [| h1 n1 e1 b1 v1 | |]; cbn [prove_node] in Hx; try congruence.
    destruct y as [| h2 n2 e2 b2 v2 | |]; cbn [prove_node] in Hy; try congruence.
    rewrite (prove_commute bp s h2 n2 e2 b2 v2 h1 n1 e1 b1 v1); [reflexivity|].
    intros ->. apply Hnin. left. reflexivity.
  - rewrite IH1 by assumption. apply IH2.
    + eapply Permutation_Forall; eassumption.
    + eapply Permutation_NoDup; [apply Permutation_map; exact H1|exact Hnd].
Qed.

(* ---------- election eligibility needs a full epoch of presence ---------- *)
(* every node status is either "not yet eligible" or was set at a transition
   strictly after the epoch of registration and not after the current epoch *)
Definition status_ok (epoch : N) (e : N * (N * N)) : Prop :=
  let '(_, (el, reg)) := e in
  reg <= epoch /\ (el = EPOCH_INVALID \/ (reg < el /\ el <= epoch)).
Definition binv (s : bstate) : Prop :=
  Forall (status_ok (b_epoch s)) (b_nodes s) /\
  match b_future s with Some (fe, _) => b_epoch s < fe | None => True end.

Lemma status_ok_mono e e' x : e <= e' -> status_ok e x -> status_ok e' x.
Proof.
  destruct x as [id [el reg]]. unfold status_ok. intros H [H1 [H2|[H2 H3]]].
  - split; [lia|left; exact H2].
  - split; [lia|right; lia].
Qed.

Lemma bstep_inv bp s o : binv s -> binv (fst (bstep bp s o)).
Proof.
  intros [Hn Hf]. destruct o as [h blk|h node ep beta valid|id|id]; cbn [bstep].
  - destruct (b_future s) as [[fe fh]|] eqn:Ef; rewrite ?Ef in Hf; cbn [fst]; [|split; [exact Hn|exact I]].
    destruct (fh <? h); [split; [exact Hn|exact Hf]|].
    destruct (h <? fh); [split; [exact Hn|exact Hf]|].
    cbn [fst]. split; cbn [b_epoch b_nodes b_future]; [|lia].
    rewrite Forall_forall in *. intros x Hx. apply in_map_iff in Hx. destruct Hx as [[id [el reg]] [<- Hy]].
    specialize (Hn _ Hy). cbn [status_ok] in Hn. unfold set_elig.
    destruct (el =? EPOCH_INVALID) eqn:E; cbn [status_ok]; [split; [lia|right; lia]|].
    destruct Hn as [H1 [H2|[H2 H3]]]; [lia|]. split; [lia|right; lia].
  - destruct (b_vrf s) as [v|]; [|split; assumption].
    destruct (h <=? vs_after v); [split; assumption|].
    destruct (aget node (b_nodes s)); [|split; assumption].
    destruct (negb (ep =? vs_epoch v)); [split; assumption|].
    destruct (negb valid); [split; assumption|].
    destruct (aget node (vs_pi v)) as [old|]; [destruct (old =? beta); split; assumption|].
    cbn [fst]. split; assumption.
  - cbn [fst]. split; cbn [b_epoch b_nodes b_future]; [|exact Hf].
    unfold aset. constructor; [cbn [status_ok]; split; [lia|left; reflexivity]|].
    rewrite Forall_forall in *. intros x Hx. apply Hn. eapply In_adel. exact Hx.
  - cbn [fst]. split; cbn [b_epoch b_nodes b_future]; [|exact Hf].
    rewrite Forall_forall in *. intros x Hx. apply Hn. eapply In_adel. exact Hx.
Qed.

Theorem brun_inv bp ops : forall s, binv s -> binv (brun bp s ops).
Proof.
  unfold brun. induction ops as [|o r IH]; intros s H; cbn [fold_left]; [exact H|].
  apply IH. apply bstep_inv. exact H.
Qed.

(* After any history: a node that (re-)registered in the current epoch E or in
   the previous one has ElectionEligibleAfter >= E, i.e. fails the committee
   filter "epoch > ElectionEligibleAfter" -- whatever proofs it submitted.  A
   node must be registered before the alpha whose proofs feed the election was
   published. *)
Theorem late_registration_ineligible bp s0 ops id el reg :
  binv s0 ->
  let s := brun bp s0 ops in
  In (id, (el, reg)) (b_nodes s) -> b_epoch s < EPOCH_INVALID ->
  b_epoch s <= reg + 1 -> ~ (el < b_epoch s).
Proof.
  intros H0 s Hin Hb Hlate. destruct (brun_inv bp ops s0 H0) as [Hn _]. fold s in Hn.
  rewrite Forall_forall in Hn. specialize (Hn _ Hin). cbn [status_ok] in Hn. lia.
Qed.

(* the scheduler side: with the VRF backend (no weak alpha allowed) every
   committee member passed that filter *)
Lemma comms_ok_In fv p ents vents epoch cnodes blocked : forall rts srcs outs rid ms,
  comms_ok fv p ents vents epoch cnodes blocked rts srcs outs -> In (rid, Some ms) outs ->
  exists rt sw sb, committee_ok fv p ents vents epoch rt cnodes blocked sw sb ms.
Proof.
  induction rts as [|rt r IH]; intros srcs [|[id oc] o] rid ms; cbn [comms_ok In]; try tauto.
  intros [_ [Hc Hr]] [Hin|Hin].
  - injection Hin as -> ->. eauto.
  - eapply IH; eassumption.
Qed.

Theorem vrf_committee_member_seasoned i v vals ups comms rid ms role id :
  run_epoch i = EOk vals ups comms -> i_vrf i = Some v -> v_weak v = false ->
  In (rid, Some ms) comms -> In (role, id) ms ->
  exists n, In n (post_nodes i) /\ n_id n = id /\ n_elig n < i_epoch i.
Proof.
  intros H Hv Hw Hc Hm. apply run_epoch_sound in H. cbv zeta in H.
  destruct H as [_ [_ [_ [_ [_ [_ [vents Hok]]]]]]].
  destruct (comms_ok_In _ _ _ _ _ _ _ _ _ _ _ _ Hok Hc) as [rt [sw [sb Hco]]].
  destruct Hco as [_ [_ [_ [_ [w [b [-> [[_ [Hw' _]] Hb]]]]]]]].
  assert (Hall : forall (P : node -> Prop) l,
             Forall (fun n => In n (committee_nodes i (sort_by n_id (post_nodes i))) /\ P n) l ->
             forall n, In n l -> In n (post_nodes i) /\ n_elig n < i_epoch i).
  { intros P l Hl n Hn. rewrite Forall_forall in Hl. destruct (Hl n Hn) as [H1 _].
    unfold committee_nodes in H1. rewrite Hv, Hw in H1. apply filter_In in H1. destruct H1 as [H1 H2].
    apply live_nodes_spec in H1. destruct H1 as [H1 _]. apply In_sort_by in H1. split; [exact H1|lia]. }
  apply in_app_or in Hm. destruct Hm as [Hm|Hm]; apply in_map_iff in Hm; destruct Hm as [n [E Hn]]; injection E as <- <-.
  - destruct (Hall _ _ Hw' n Hn). exists n. tauto.
  - destruct (r_bsize rt =? 0); [subst b; contradiction|]. destruct Hb as [_ [Hb' _]].
    destruct (Hall _ _ Hb' n Hn). exists n. tauto.
Qed.

(* ---------- what the transition hands to the election ---------- *)
(* PrevState is exactly the set of proofs collected under the previous alpha
   and "can elect" is the quality of that alpha; the entropy depends only on
   the new epoch and the transition block *)
Theorem transition_feeds_election bp s h blk fe v :
  b_future s = Some (fe, h) -> b_vrf s = Some v ->
  let s' := fst (bstep bp s (OBegin h blk)) in
  b_epoch s' = fe /\ b_beacon s' = Some (fe, blk) /\
  exists v', b_vrf s' = Some v' /\ vs_prev v' = Some (vs_pi v, vs_hq v) /\ vs_pi v' = [] /\
             vs_epoch v' = fe /\ vs_after v' = h + bp_delay bp /\
             vs_hq v' = (bp_thresh bp <=? len (vs_pi v)).
Proof.
  intros Hf Hv. cbn [bstep]. rewrite Hf, Hv. rewrite N.ltb_irrefl. cbn [fst b_epoch b_beacon b_vrf].
  split; [reflexivity|]. split; [reflexivity|]. eexists. split; [reflexivity|]. cbn. repeat split; reflexivity.
Qed.

(* a proof is only ever accepted from a registered node, for the current
   alpha's epoch, strictly after the submission delay *)
Theorem prove_accepted_spec bp s h node ep beta valid :
  snd (bstep bp s (OProve h node ep beta valid)) = 0 ->
  exists v, b_vrf s = Some v /\ vs_after v < h /\ aget node (b_nodes s) <> None /\
            ep = vs_epoch v /\ valid = true.
Proof.
  cbn [bstep]. destruct (b_vrf s) as [v|]; cbn [snd]; [|discriminate].
  destruct (h <=? vs_after v) eqn:A; cbn [snd]; [discriminate|].
  destruct (aget node (b_nodes s)) eqn:Nn; cbn [snd]; [|discriminate].
  destruct (negb (ep =? vs_epoch v)) eqn:P; cbn [snd]; [discriminate|].
  destruct valid; cbn [negb snd]; [|discriminate].
  intros _. exists v. repeat split; try lia; congruence.
Qed.

Example ex_beacon :
  let bp := mkBp 10 2 2 in
  let s0 := mkB 5 (Some (6, 20)) None None [(1, (3, 1)); (2, (3, 1))] in
  let ops := [OBegin 11 100; ORegister 3; OProve 12 1 5 71 true; OProve 14 1 5 71 true;
              OProve 14 3 5 73 true; OProve 14 2 5 72 true; OProve 15 2 5 99 true;
              OBegin 20 200; OProve 23 3 6 83 true; ORegister 4; OBegin 30 300] in
  map fst (btrace bp s0 ops) = [0; 0; 2; 0; 0; 0; 6; 0; 0; 0; 0] /\
  let s := brun bp s0 ops in
  b_epoch s = 7 /\ b_beacon s = Some (7, 300) /\
  statuses s = [(1, 3); (2, 3); (3, 6); (4, 7)] /\
  option_map vs_alpha (b_vrf s) = Some (ALow 7 300) /\
  option_map vs_prev (b_vrf s) = Some (Some ([(3, 83)], true)).
Proof. vm_compute. repeat split; reflexivity. Qed.

Example ex_beacon_inv : binv (mkB 5 (Some (6, 20)) None None [(1, (3, 1)); (2, (3, 1))]).
Proof.
  unfold binv. cbn [b_nodes b_epoch b_future]. split; [|lia].
  repeat constructor; unfold EPOCH_INVALID; lia.
Qed.
