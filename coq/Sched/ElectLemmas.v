(* Generic list lemmas used by the C14 proofs: insertion sorts, sorted sets,
   index shuffles, association lists. *)
From Verif Require Import Lib.Base Sched.Elect Sched.ElectSpec.
From Coq Require Import Permutation Sorting.Sorted.

Lemma len_nil {A} : len (@nil A) = 0. Proof. reflexivity. Qed.
Lemma len_cons {A} (x : A) l : len (x :: l) = len l + 1.
Proof. unfold len. cbn [length]. lia. Qed.
Lemma len_app {A} (a b : list A) : len (a ++ b) = len a + len b.
Proof. unfold len. rewrite app_length. lia. Qed.

(* ---------- sort_by / sort_desc ---------- *)
Section SortLemmas.
  Context {A : Type} (key : A -> N).

  Lemma insert_by_perm x l : Permutation (insert_by key x l) (x :: l).
  Proof.
    induction l as [|y r IH]; cbn [insert_by]; [reflexivity|].
    destruct (key x <=? key y); [reflexivity|].
    rewrite IH. apply perm_swap.
  Qed.
  Lemma sort_by_perm l : Permutation (sort_by key l) l.
  Proof.
    induction l as [|x r IH]; cbn [sort_by fold_right]; [reflexivity|].
    fold (sort_by key r). rewrite insert_by_perm. constructor. exact IH.
  Qed.
  Lemma In_sort_by x l : In x (sort_by key l) <-> In x l.
  Proof.
    split; intros H.
    - eapply Permutation_in; [apply sort_by_perm|exact H].
    - eapply Permutation_in; [symmetry; apply sort_by_perm|exact H].
  Qed.

  Definition le_key (a b : A) : Prop := key a <= key b.
  Lemma insert_by_sorted x l :
    StronglySorted le_key l -> StronglySorted le_key (insert_by key x l).
  Proof.
    induction l as [|y r IH]; intros Hs; cbn [insert_by].
    - constructor; constructor.
    - inversion Hs as [|? ? Hr Hall]; subst.
      destruct (key x <=? key y) eqn:E.
      + constructor; [exact Hs|]. constructor; [unfold le_key; lia|].
        eapply Forall_impl; [|exact Hall]. unfold le_key. intros; lia.
      + constructor; [apply IH; exact Hr|].
        eapply Permutation_Forall; [symmetry; apply insert_by_perm|].
        constructor; [unfold le_key; lia|exact Hall].
  Qed.
  Lemma sort_by_sorted l : StronglySorted le_key (sort_by key l).
  Proof.
    induction l as [|x r IH]; cbn [sort_by fold_right]; [constructor|].
    apply insert_by_sorted. exact IH.
  Qed.

  Lemma key_inj_of_nodup l a b :
    NoDup (map key l) -> In a l -> In b l -> key a = key b -> a = b.
  Proof.
    induction l as [|x r IH]; cbn [map]; intros Hnd Ha Hb Hk; [contradiction|].
    inversion Hnd as [|? ? Hx Hr]; subst.
    destruct Ha as [->|Ha], Hb as [->|Hb].
    - reflexivity.
    - exfalso. apply Hx. rewrite Hk. apply in_map. exact Hb.
    - exfalso. apply Hx. rewrite <- Hk. apply in_map. exact Ha.
    - apply IH; assumption.
  Qed.

  Lemma sorted_perm_eq l l' :
    StronglySorted le_key l -> StronglySorted le_key l' -> Permutation l l' ->
    NoDup (map key l) -> l = l'.
  Proof.
    revert l'. induction l as [|a r IH]; intros l' Hs Hs' Hp Hnd.
    - apply Permutation_nil in Hp. subst. reflexivity.
    - destruct l' as [|b r']; [apply Permutation_sym, Permutation_nil in Hp; discriminate|].
      inversion Hs as [|? ? Hsr Ha]; subst. inversion Hs' as [|? ? Hsr' Hb]; subst.
      assert (Hab : a = b).
      { assert (Hina : In a (b :: r')) by (eapply Permutation_in; [exact Hp|left; reflexivity]).
        assert (Hinb : In b (a :: r)) by (eapply Permutation_in; [symmetry; exact Hp|left; reflexivity]).
        destruct Hina as [->|Hina]; [reflexivity|].
        destruct Hinb as [->|Hinb]; [reflexivity|].
        rewrite Forall_forall in Ha, Hb.
        specialize (Ha _ Hinb). specialize (Hb _ Hina). unfold le_key in Ha, Hb.
        apply (key_inj_of_nodup (a :: r)); [exact Hnd|left; reflexivity|right; exact Hinb|lia]. }
      subst b. f_equal. apply IH; [exact Hsr|exact Hsr'| |].
      + eapply Permutation_cons_inv. exact Hp.
      + cbn [map] in Hnd. inversion Hnd; assumption.
  Qed.

  (* the sorted form is a function of the SET of elements when keys are unique *)
  Lemma sort_by_unique l l' :
    Permutation l l' -> NoDup (map key l) -> sort_by key l = sort_by key l'.
  Proof.
    intros Hp Hnd. apply sorted_perm_eq.
    - apply sort_by_sorted.
    - apply sort_by_sorted.
    - rewrite sort_by_perm, sort_by_perm. exact Hp.
    - eapply Permutation_NoDup; [|exact Hnd]. apply Permutation_map. symmetry. apply sort_by_perm.
  Qed.

  Lemma insert_desc_perm x l : Permutation (insert_desc key x l) (x :: l).
  Proof.
    induction l as [|y r IH]; cbn [insert_desc]; [reflexivity|].
    destruct (key y <=? key x); [reflexivity|].
    rewrite IH. apply perm_swap.
  Qed.
  Lemma sort_desc_perm l : Permutation (sort_desc key l) l.
  Proof.
    induction l as [|x r IH]; cbn [sort_desc fold_right]; [reflexivity|].
    fold (sort_desc key r). rewrite insert_desc_perm. constructor. exact IH.
  Qed.
  Definition ge_key (a b : A) : Prop := key b <= key a.
  Lemma insert_desc_sorted x l :
    StronglySorted ge_key l -> StronglySorted ge_key (insert_desc key x l).
  Proof.
    induction l as [|y r IH]; intros Hs; cbn [insert_desc].
    - constructor; constructor.
    - inversion Hs as [|? ? Hr Hall]; subst.
      destruct (key y <=? key x) eqn:E.
      + constructor; [exact Hs|]. constructor; [unfold ge_key; lia|].
        eapply Forall_impl; [|exact Hall]. unfold ge_key. intros; lia.
      + constructor; [apply IH; exact Hr|].
        eapply Permutation_Forall; [symmetry; apply insert_desc_perm|].
        constructor; [unfold ge_key; lia|exact Hall].
  Qed.
  Lemma sort_desc_sorted l : StronglySorted ge_key (sort_desc key l).
  Proof.
    induction l as [|x r IH]; cbn [sort_desc fold_right]; [constructor|].
    apply insert_desc_sorted. exact IH.
  Qed.
End SortLemmas.

(* in a descending list, whatever comes first has the larger key *)
Lemma sorted_desc_split {A} (key : A -> N) l1 a l2 x y :
  StronglySorted (ge_key key) (l1 ++ a :: l2) ->
  In x (l1 ++ [a]) -> In y (a :: l2) -> key y <= key x.
Proof.
  induction l1 as [|b r IH]; cbn [app]; intros Hs Hx Hy.
  - destruct Hx as [->|[]]. inversion Hs as [|? ? _ Hall]; subst.
    destruct Hy as [->|Hy]; [lia|]. rewrite Forall_forall in Hall. apply Hall. exact Hy.
  - inversion Hs as [|? ? Hr Hall]; subst.
    destruct Hx as [->|Hx].
    + rewrite Forall_forall in Hall. apply Hall. apply in_or_app. right. exact Hy.
    + apply IH; assumption.
Qed.

(* ---------- usort ---------- *)
Lemma In_uinsert x y l : In y (uinsert x l) <-> y = x \/ In y l.
Proof.
  induction l as [|z r IH]; cbn [uinsert].
  - cbn. intuition.
  - destruct (x <? z) eqn:E1; [cbn; intuition|].
    destruct (x =? z) eqn:E2.
    + apply N.eqb_eq in E2. subst. cbn. intuition.
    + cbn [In]. rewrite IH. intuition.
Qed.
Lemma In_usort y l : In y (usort l) <-> In y l.
Proof.
  induction l as [|x r IH]; cbn [usort fold_right]; [reflexivity|].
  fold (usort r). rewrite In_uinsert, IH. cbn. intuition.
Qed.
Lemma uinsert_sorted x l :
  StronglySorted N.lt l -> StronglySorted N.lt (uinsert x l).
Proof.
  induction l as [|z r IH]; intros Hs; cbn [uinsert].
  - constructor; constructor.
  - inversion Hs as [|? ? Hr Hall]; subst.
    destruct (x <? z) eqn:E1.
    + constructor; [exact Hs|]. constructor; [lia|].
      eapply Forall_impl; [|exact Hall]. intros; lia.
    + destruct (x =? z) eqn:E2; [exact Hs|].
      constructor; [apply IH; exact Hr|].
      rewrite Forall_forall in *. intros y Hy. apply In_uinsert in Hy.
      destruct Hy as [->|Hy]; [lia|apply Hall; exact Hy].
Qed.
Lemma usort_sorted l : StronglySorted N.lt (usort l).
Proof.
  induction l as [|x r IH]; cbn [usort fold_right]; [constructor|].
  apply uinsert_sorted. exact IH.
Qed.
Lemma sorted_lt_nodup l : StronglySorted N.lt l -> NoDup l.
Proof.
  induction 1 as [|x r Hr IH Hall]; constructor; [|exact IH].
  intros Hin. rewrite Forall_forall in Hall. specialize (Hall _ Hin). lia.
Qed.
Lemma usort_nodup l : NoDup (usort l).
Proof. apply sorted_lt_nodup, usort_sorted. Qed.

(* ---------- apply_perm ---------- *)
Lemma In_apply_perm {A} (p : list N) (l : list A) x : In x (apply_perm p l) -> In x l.
Proof.
  unfold apply_perm. rewrite in_flat_map. intros [i [_ Hx]].
  destruct (nth_error l (N.to_nat i)) eqn:E; [|contradiction].
  destruct Hx as [->|[]]. eapply nth_error_In. exact E.
Qed.

Definition pick_at {A} (l : list A) (i : nat) : list A :=
  match nth_error l i with Some x => [x] | None => [] end.
Lemma apply_perm_alt {A} (p : list N) (l : list A) :
  apply_perm p l = flat_map (pick_at l) (map N.to_nat p).
Proof.
  unfold apply_perm. induction p as [|i r IH]; cbn [flat_map map]; [reflexivity|].
  rewrite IH. reflexivity.
Qed.
Lemma pick_seq {A} (pre l : list A) :
  flat_map (pick_at (pre ++ l)) (seq (length pre) (length l)) = l.
Proof.
  revert pre. induction l as [|x r IH]; intros pre; cbn [length seq flat_map]; [reflexivity|].
  unfold pick_at at 1. rewrite nth_error_app2 by lia. rewrite Nat.sub_diag. cbn [nth_error app].
  f_equal. specialize (IH (pre ++ [x])). rewrite <- app_assoc in IH. cbn [app] in IH.
  rewrite app_length in IH. cbn [length] in IH. rewrite Nat.add_1_r in IH. exact IH.
Qed.
Lemma apply_perm_perm {A} (p : list N) (l : list A) :
  is_perm p (length l) -> Permutation (apply_perm p l) l.
Proof.
  intros Hp. rewrite apply_perm_alt.
  transitivity (flat_map (pick_at l) (seq 0 (length l))).
  - apply Permutation_flat_map. exact Hp.
  - pose proof (pick_seq [] l) as H. cbn [app length] in H. rewrite H. reflexivity.
Qed.

(* ---------- association lists ---------- *)
Lemma In_adel {V} k (l : list (N * V)) x : In x (adel k l) -> In x l.
Proof.
  induction l as [|[k' v] r IH]; cbn [adel]; [tauto|].
  destruct (k' =? k); cbn [In]; intuition.
Qed.
Lemma In_adel_other {V} k (l : list (N * V)) x : In x l -> fst x <> k -> In x (adel k l).
Proof.
  induction l as [|[k' v] r IH]; cbn [adel]; [tauto|].
  intros [<-|Hin] Hne.
  - cbn [fst] in Hne. destruct (k' =? k) eqn:E; [lia|left; reflexivity].
  - destruct (k' =? k); [|right]; apply IH; assumption.
Qed.
Lemma len_adel {V} k (l : list (N * V)) : len (adel k l) <= len l.
Proof.
  induction l as [|[k' v] r IH]; cbn [adel]; [lia|].
  destruct (k' =? k); rewrite ?len_cons; lia.
Qed.
Lemma aget_app {V} k (a b : list (N * V)) :
  aget k (a ++ b) = match aget k a with Some v => Some v | None => aget k b end.
Proof.
  induction a as [|[k' v] r IH]; cbn [app aget]; [reflexivity|].
  destruct (k' =? k); [reflexivity|exact IH].
Qed.
Lemma aget_none_notin {V} k (l : list (N * V)) : aget k l = None <-> ~ In k (map fst l).
Proof.
  induction l as [|[k' v] r IH]; cbn [aget map fst In]; [tauto|].
  destruct (k' =? k) eqn:E.
  - apply N.eqb_eq in E. subst. split; [discriminate|]. intros H. exfalso. apply H. left. reflexivity.
  - rewrite IH. split; [intros H [->|H2]; [lia|tauto]|tauto].
Qed.
Lemma aget_In {V} k v (l : list (N * V)) : aget k l = Some v -> In (k, v) l.
Proof.
  induction l as [|[k' v'] r IH]; cbn [aget]; [discriminate|].
  destruct (k' =? k) eqn:E; [|intros H; right; apply IH; exact H].
  apply N.eqb_eq in E. subst. intros [= ->]. left. reflexivity.
Qed.
Lemma In_aget {V} k v (l : list (N * V)) : NoDup (map fst l) -> In (k, v) l -> aget k l = Some v.
Proof.
  induction l as [|[k' v'] r IH]; cbn [aget map fst]; intros Hnd Hin; [contradiction|].
  inversion Hnd as [|? ? Hx Hr]; subst.
  destruct Hin as [[= -> ->]|Hin].
  - rewrite N.eqb_refl. reflexivity.
  - destruct (k' =? k) eqn:E; [|apply IH; assumption].
    apply N.eqb_eq in E. subst. exfalso. apply Hx.
    change k with (fst (k, v)). apply in_map. exact Hin.
Qed.
Lemma aget_perm {V} k (l l' : list (N * V)) :
  Permutation l l' -> NoDup (map fst l) -> aget k l = aget k l'.
Proof.
  intros Hp Hnd.
  assert (Hnd' : NoDup (map fst l')) by (eapply Permutation_NoDup; [apply Permutation_map; exact Hp|exact Hnd]).
  destruct (aget k l) as [v|] eqn:E.
  - symmetry. apply In_aget; [exact Hnd'|]. eapply Permutation_in; [exact Hp|]. apply aget_In. exact E.
  - symmetry. apply aget_none_notin. apply aget_none_notin in E. intros Hin. apply E.
    eapply Permutation_in; [apply Permutation_map; symmetry; exact Hp|exact Hin].
Qed.
