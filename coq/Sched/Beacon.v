(* Executable port of the beacon application's VRF backend
   (go/consensus/cometbft/apps/beacon/backend_vrf.go), the part that feeds the
   elections: the VRF state (alpha, collected proofs, PrevState), the per-node
   ElectionEligibleAfter set at epoch transitions, and the entropy stored for
   the scheduler.  Definitions only.

   Hashes are expressions: an alpha is [ALow epoch blk] (TupleHash over chain
   context, epoch and the block's insecure entropy) or [AHigh epoch betas]
   (over the betas of the collected proofs in node-id order); the beacon
   entropy is the pair (epoch, blk).  [blk] names the block-dependent input
   (last height, time, last state root).  ECVRF verification is an input
   ([valid], [beta]).  Only the production path (DebugMockBackend = false) is
   ported. *)
From Verif Require Import Lib.Base Sched.Elect.

Definition EPOCH_INVALID : N := 18446744073709551615.   (* beacon.EpochInvalid *)

Inductive alpha :=
| ALow (epoch blk : N)
| AHigh (epoch : N) (betas : list N).

(* proofs by node id, kept sorted (the Go map, iterated in sorted order where order matters) *)
Fixpoint pput (k v : N) (l : list (N * N)) : list (N * N) :=
  match l with
  | [] => [(k, v)]
  | (k', v') :: r =>
      if k <? k' then (k, v) :: l
      else if k =? k' then (k, v) :: r
      else (k', v') :: pput k v r
  end.

Record vrfst := mkVs {
  vs_epoch : N;
  vs_alpha : alpha;
  vs_pi : list (N * N);                        (* node id -> beta of its proof *)
  vs_hq : bool;                                (* AlphaIsHighQuality *)
  vs_after : N;                                (* SubmitAfter *)
  vs_prev : option (list (N * N) * bool)       (* PrevState: Pi, CanElectCommittees *)
}.

Record bparams := mkBp {
  bp_interval : N;                             (* VRFParameters.Interval *)
  bp_delay : N;                                (* ProofSubmissionDelay *)
  bp_thresh : N                                (* AlphaHighQualityThreshold *)
}.

Record bstate := mkB {
  b_epoch : N;
  b_future : option (N * N);                   (* scheduled transition: (epoch, height) *)
  b_vrf : option vrfst;
  b_beacon : option (N * N);                   (* entropy for the scheduler: GetBeacon(epoch, blk) *)
  b_nodes : list (N * (N * N))
     (* registry: node id -> (NodeStatus.ElectionEligibleAfter,
        ghost: the epoch in which the node (re-)registered) *)
}.

Inductive bop :=
| OBegin (height blk : N)                      (* BeginBlock of the block at [height] *)
| OProve (height node epoch beta : N) (valid : bool)   (* beacon.VRFProve tx signed by [node] *)
| ORegister (id : N)      (* registry: new / expired / VRF-key-changing registration (transactions.go:399-426) *)
| ODeregister (id : N).

(* 0 ok; BeginBlock: 10 no future epoch, 11 height mismatch;
   VRFProve: 1 no VRF state, 2 premature, 3 not a node, 4 wrong epoch, 5 invalid proof, 6 different proof *)
Definition bres := N.

Definition set_elig (fe : N) (e : N * (N * N)) : N * (N * N) :=
  let '(id, (el, reg)) := e in if el =? EPOCH_INVALID then (id, (fe, reg)) else e.

Definition bstep (bp : bparams) (s : bstate) (o : bop) : bstate * bres :=
  match o with
  | OBegin h blk =>
      (* backend_vrf.go:62-87: bootstrap VRF state with a low-quality alpha *)
      let v0 := match b_vrf s with
                | Some v => v
                | None => mkVs (b_epoch s) (ALow (b_epoch s) blk) [] false (h + bp_delay bp) None
                end in
      let s0 := mkB (b_epoch s) (b_future s) (Some v0) (b_beacon s) (b_nodes s) in
      match b_future s with
      | None => (s0, 10)                                   (* "timekeeping broken" *)
      | Some (fe, fh) =>
          if fh <? h then (s0, 11)
          else if h <? fh then (s0, 0)
          else
            (* fire the transition (backend_vrf.go:171-232) *)
            let hq := bp_thresh bp <=? len (vs_pi v0) in
            let v1 := mkVs fe (if hq then AHigh fe (map snd (vs_pi v0)) else ALow fe blk) [] hq
                           (h + bp_delay bp) (Some (vs_pi v0, vs_hq v0)) in
            (mkB fe (Some (fe + 1, h + bp_interval bp)) (Some v1) (Some (fe, blk))
                 (map (set_elig fe) (b_nodes s)), 0)
      end
  | OProve h node ep beta valid =>
      match b_vrf s with
      | None => (s, 1)
      | Some v =>
          if h <=? vs_after v then (s, 2)
          else match aget node (b_nodes s) with
               | None => (s, 3)
               | Some _ =>
                   if negb (ep =? vs_epoch v) then (s, 4)
                   else if negb valid then (s, 5)
                   else match aget node (vs_pi v) with
                        | Some old => if old =? beta then (s, 0) else (s, 6)
                        | None =>
                            (mkB (b_epoch s) (b_future s)
                                 (Some (mkVs (vs_epoch v) (vs_alpha v) (pput node beta (vs_pi v)) (vs_hq v)
                                             (vs_after v) (vs_prev v)))
                                 (b_beacon s) (b_nodes s), 0)
                        end
               end
      end
  | ORegister id => (mkB (b_epoch s) (b_future s) (b_vrf s) (b_beacon s)
                         (aset id (EPOCH_INVALID, b_epoch s) (b_nodes s)), 0)
  | ODeregister id => (mkB (b_epoch s) (b_future s) (b_vrf s) (b_beacon s) (adel id (b_nodes s)), 0)
  end.

Definition brun (bp : bparams) (s : bstate) (ops : list bop) : bstate :=
  fold_left (fun st o => fst (bstep bp st o)) ops s.

(* observations after every operation, for the correspondence files *)
Fixpoint btrace (bp : bparams) (s : bstate) (ops : list bop) : list (bres * bstate) :=
  match ops with
  | [] => []
  | o :: r => let (s', res) := bstep bp s o in (res, s') :: btrace bp s' r
  end.

(* ---------- comparison ---------- *)
Definition alpha_eqb (a b : alpha) : bool :=
  match a, b with
  | ALow e x, ALow e' x' => (e =? e') && (x =? x')
  | AHigh e l, AHigh e' l' => (e =? e') && list_eqb N.eqb l l'
  | _, _ => false
  end.
Definition opt_eqb {A} (f : A -> A -> bool) (a b : option A) : bool :=
  match a, b with None, None => true | Some x, Some y => f x y | _, _ => false end.
Definition vrfst_eqb (a b : vrfst) : bool :=
  (vs_epoch a =? vs_epoch b) && alpha_eqb (vs_alpha a) (vs_alpha b) &&
  list_eqb pair_eqb (vs_pi a) (vs_pi b) && Bool.eqb (vs_hq a) (vs_hq b) && (vs_after a =? vs_after b) &&
  opt_eqb (fun x y => list_eqb pair_eqb (fst x) (fst y) && Bool.eqb (snd x) (snd y)) (vs_prev a) (vs_prev b).
(* node statuses are compared as id -> ElectionEligibleAfter, sorted by id (the ghost field is dropped) *)
Definition statuses (s : bstate) : list (N * N) :=
  sort_by fst (map (fun e => (fst e, fst (snd e))) (b_nodes s)).
Definition bstate_eqb (a b : bstate) : bool :=
  (b_epoch a =? b_epoch b) && opt_eqb pair_eqb (b_future a) (b_future b) &&
  opt_eqb vrfst_eqb (b_vrf a) (b_vrf b) && opt_eqb pair_eqb (b_beacon a) (b_beacon b) &&
  list_eqb pair_eqb (statuses a) (statuses b).
Definition btrace_eqb (a b : list (bres * bstate)) : bool :=
  list_eqb (fun x y => (fst x =? fst y) && bstate_eqb (snd x) (snd y)) a b.
