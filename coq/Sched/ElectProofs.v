(* Proofs of the C14 statements about the election model (validators). *)
From Verif Require Import Lib.Base Sched.Elect Sched.ElectSpec Sched.ElectLemmas.
From Coq Require Import Permutation Sorting.Sorted.

(* ---------- voting power ---------- *)
Lemma power_positive sq s x : voting_power sq s = Some x -> 1 <= x.
Proof.
  unfold voting_power.
  set (q := if sq then s else s / BASE_UNITS_PER_POWER).
  destruct (q =? 0) eqn:Eq; [intros [= <-]; lia|].
  destruct ((if sq then N.sqrt q else q) <? 2 ^ 63); [|discriminate].
  intros [= <-]. destruct sq; [|lia].
  apply N.sqrt_le_square. lia.
Qed.

Lemma power_monotone sq a b x y :
  a <= b -> voting_power sq a = Some x -> voting_power sq b = Some y -> x <= y.
Proof.
  intros Hab Ha Hb. pose proof (power_positive _ _ _ Hb) as Hy.
  unfold voting_power in Ha, Hb.
  set (qa := if sq then a else a / BASE_UNITS_PER_POWER) in *.
  set (qb := if sq then b else b / BASE_UNITS_PER_POWER) in *.
  assert (Hq : qa <= qb).
  { subst qa qb. destruct sq; [exact Hab|]. apply N.div_le_mono; [unfold BASE_UNITS_PER_POWER; lia|exact Hab]. }
  destruct (qa =? 0) eqn:Ea; [injection Ha as <-; exact Hy|].
  destruct (qb =? 0) eqn:Eb; [lia|].
  destruct ((if sq then N.sqrt qa else qa) <? 2 ^ 63); [|discriminate].
  destruct ((if sq then N.sqrt qb else qb) <? 2 ^ 63); [|discriminate].
  injection Ha as <-. injection Hb as <-.
  destruct sq; [apply N.sqrt_le_mono; exact Hq|exact Hq].
Qed.

(* if the larger stake converts without overflow so does the smaller one *)
Lemma power_defined_downward sq a b y :
  a <= b -> voting_power sq b = Some y -> exists x, voting_power sq a = Some x.
Proof.
  intros Hab Hb. unfold voting_power in *.
  set (qa := if sq then a else a / BASE_UNITS_PER_POWER) in *.
  set (qb := if sq then b else b / BASE_UNITS_PER_POWER) in *.
  assert (Hq : qa <= qb).
  { subst qa qb. destruct sq; [exact Hab|]. apply N.div_le_mono; [unfold BASE_UNITS_PER_POWER; lia|exact Hab]. }
  destruct (qa =? 0) eqn:Ea; [eexists; reflexivity|].
  destruct (qb =? 0) eqn:Eb; [lia|].
  destruct ((if sq then N.sqrt qb else qb) <? 2 ^ 63) eqn:E2; [|discriminate].
  assert (Hle : (if sq then N.sqrt qa else qa) <= (if sq then N.sqrt qb else qb)).
  { destruct sq; [apply N.sqrt_le_mono; exact Hq|exact Hq]. }
  destruct ((if sq then N.sqrt qa else qa) <? 2 ^ 63) eqn:E1; [eexists; reflexivity|lia].
Qed.

Lemma node_power_positive p ents n pw : node_power p ents n = Some pw -> 1 <= pw.
Proof.
  unfold node_power. destruct (p_bypass p); [intros [= <-]; lia|apply power_positive].
Qed.

(* ---------- small list facts ---------- *)
Lemma In_firstn_own {A} (x : A) k l : In x (firstn k l) -> In x l.
Proof.
  revert l. induction k as [|k IH]; intros [|y r]; cbn [firstn In]; try tauto.
  intros [->|H]; [left; reflexivity|right; apply IH; exact H].
Qed.
Lemma filter_none {A} (f : A -> bool) l : (forall x, In x l -> f x = false) -> filter f l = [].
Proof.
  induction l as [|x r IH]; intros H; cbn [filter]; [reflexivity|].
  rewrite (H x) by (left; reflexivity). apply IH. intros y Hy. apply H. right. exact Hy.
Qed.
Lemma len_filter_le {A} (f : A -> bool) l : len (filter f l) <= len l.
Proof.
  induction l as [|x r IH]; cbn [filter]; [lia|].
  destruct (f x); rewrite ?len_cons; lia.
Qed.
Lemma len_perm {A} (l l' : list A) : Permutation l l' -> len l = len l'.
Proof. intros H. unfold len. rewrite (Permutation_length H). reflexivity. Qed.
Lemma filter_perm {A} (f : A -> bool) l l' : Permutation l l' -> Permutation (filter f l) (filter f l').
Proof.
  induction 1 as [|x l l' H IH|x y l|l l' l'' H1 IH1 H2 IH2]; cbn [filter].
  - reflexivity.
  - destruct (f x); [constructor|]; exact IH.
  - destruct (f x), (f y); try reflexivity. apply perm_swap.
  - etransitivity; eassumption.
Qed.
Lemma count_ent_perm e l l' : Permutation l l' -> count_ent e l = count_ent e l'.
Proof. intros H. unfold count_ent. apply len_perm, filter_perm, H. Qed.

Definition ind (b : bool) : N := if b then 1 else 0.

Lemma count_ent_cons e kv l : count_ent e (kv :: l) = ind (ent_of kv =? e) + count_ent e l.
Proof. unfold count_ent. cbn [filter]. destruct (ent_of kv =? e); rewrite ?len_cons; cbn [ind]; lia. Qed.
Lemma count_ent_adel e k (l : vmap) : count_ent e (adel k l) <= count_ent e l.
Proof.
  induction l as [|[k' v] r IH]; cbn [adel]; [lia|].
  destruct (k' =? k); rewrite ?count_ent_cons; lia.
Qed.
Lemma count_node_ent_cons e n l : count_node_ent e (n :: l) = ind (n_ent n =? e) + count_node_ent e l.
Proof. unfold count_node_ent. cbn [filter]. destruct (n_ent n =? e); rewrite ?len_cons; cbn [ind]; lia. Qed.
Lemma count_node_ent_app e a b : count_node_ent e (a ++ b) = count_node_ent e a + count_node_ent e b.
Proof. unfold count_node_ent. rewrite filter_app, len_app. reflexivity. Qed.

(* ---------- node filtering ---------- *)
Lemma live_nodes_spec epoch nodes n :
  In n (live_nodes epoch nodes) -> In n nodes /\ live epoch n = true.
Proof. unfold live_nodes. rewrite filter_In, In_sort_by. tauto. Qed.
Lemma live_spec epoch n : live epoch n = true -> n_freeze n = 0 /\ epoch <= n_exp n.
Proof. unfold live. lia. Qed.
Lemma vcands_spec p ents epoch nodes n :
  In n (vcands p ents epoch nodes) <-> In n nodes /\ live epoch n = true /\ is_vcand p ents n = true.
Proof. unfold vcands, live_nodes. rewrite !filter_In, In_sort_by. tauto. Qed.

Lemma picks_ent p sh e n : In n (picks p sh e) -> n_ent n = e /\ In n sh.
Proof.
  unfold picks. intros H. apply In_firstn_own in H. apply filter_In in H.
  destruct H as [H1 H2]. split; [lia|exact H1].
Qed.
Lemma cand_seq_sh_In p ents pe cands sh n : In n (cand_seq_sh p ents pe cands sh) -> In n sh.
Proof.
  unfold cand_seq_sh. rewrite in_flat_map. intros [e [_ H]].
  apply picks_ent in H. destruct H as [_ H]. exact H.
Qed.

(* ---------- the election loop ---------- *)
Lemma fill_sound p ents cs : forall acc ve acc' ve',
  fill p ents cs acc ve = Some (acc', ve') ->
  len acc < N.max 1 (p_max p) ->
  (forall kv, In kv acc' ->
     In kv acc \/ exists n pw, In n cs /\ node_power p ents n = Some pw /\
                               kv = (n_cons n, (n_id n, n_ent n, pw))) /\
  len acc' <= N.max 1 (p_max p) /\
  (forall e, count_ent e acc' <= count_ent e acc + count_node_ent e cs).
Proof.
  induction cs as [|n r IH]; intros acc ve acc' ve' Hf Hlen; cbn [fill] in Hf.
  - injection Hf as <- <-. split; [intros kv H; left; exact H|]. split; [lia|]. intros e. lia.
  - destruct (node_power p ents n) as [pw|] eqn:Epw; [|discriminate].
    set (acc1 := aset (n_cons n) (n_id n, n_ent n, pw) acc) in *.
    assert (Hin1 : forall kv, In kv acc1 -> In kv acc \/ kv = (n_cons n, (n_id n, n_ent n, pw))).
    { intros kv [<-|H]; [right; reflexivity|left; eapply In_adel; exact H]. }
    assert (Hlen1 : len acc1 <= len acc + 1).
    { subst acc1. unfold aset. rewrite len_cons. apply N.add_le_mono_r, len_adel. }
    assert (Hcnt1 : forall e, count_ent e acc1 <= count_ent e acc + ind (n_ent n =? e)).
    { intros e. subst acc1. unfold aset. rewrite count_ent_cons.
      change (ent_of (n_cons n, (n_id n, n_ent n, pw))) with (n_ent n).
      rewrite (N.add_comm (count_ent e acc)). apply N.add_le_mono_l, count_ent_adel. }
    clearbody acc1. unfold vmap, vinfo in *.
    destruct (p_max p <=? len acc1) eqn:Eb.
    + injection Hf as <- <-. split; [|split].
      * intros kv H. destruct (Hin1 kv H) as [H1| ->]; [left; exact H1|].
        right. exists n, pw. split; [left; reflexivity|]. split; [exact Epw|reflexivity].
      * lia.
      * intros e. rewrite count_node_ent_cons. specialize (Hcnt1 e). lia.
    + assert (Hlen2 : len acc1 < N.max 1 (p_max p)) by lia.
      destruct (IH _ _ _ _ Hf Hlen2) as [H1 [H2 H3]]. split; [|split].
      * intros kv H. destruct (H1 kv H) as [Hk|[m [pw' [Hm [Hp ->]]]]].
        -- destruct (Hin1 kv Hk) as [Hk1| ->]; [left; exact Hk1|].
           right. exists n, pw. split; [left; reflexivity|]. split; [exact Epw|reflexivity].
        -- right. exists m, pw'. split; [right; exact Hm|]. split; [exact Hp|reflexivity].
      * exact H2.
      * intros e. rewrite count_node_ent_cons. specialize (H3 e). specialize (Hcnt1 e). lia.
Qed.

Lemma elect_ok_inv p ents pe cands sh vals vents :
  elect_core p ents pe cands sh = VOk vals vents ->
  exists acc, fill p ents (cand_seq_sh p ents pe cands sh) [] [] = Some (acc, vents) /\
              vals = sort_by fst acc /\ p_min p <= len acc /\ 1 <= len acc.
Proof.
  unfold elect_core.
  destruct (fill p ents _ [] []) as [[acc ve]|] eqn:Ef; [|discriminate].
  destruct (len acc =? 0) eqn:E0; [discriminate|].
  destruct (len acc <? p_min p) eqn:E1; [discriminate|].
  intros [= <- <-]. exists acc. split; [reflexivity|]. split; [reflexivity|]. lia.
Qed.

(* the election for ANY shuffled candidate list [sh] drawn from the candidates *)
Theorem core_sound p ents epoch nodes pe sh vals vents :
  (forall n, In n sh -> In n (vcands p ents epoch nodes)) ->
  elect_core p ents pe (vcands p ents epoch nodes) sh = VOk vals vents ->
  Forall (validator_ok p ents epoch nodes) vals /\
  len vals <= N.max 1 (p_max p) /\ p_min p <= len vals /\ 1 <= len vals.
Proof.
  intros Hsh H. destruct (elect_ok_inv _ _ _ _ _ _ _ H) as [acc [Hf [-> [Hmin Hpos]]]].
  assert (Hl0 : len (@nil (N * vinfo)) < N.max 1 (p_max p)) by (rewrite len_nil; lia).
  destruct (fill_sound _ _ _ _ _ _ _ Hf Hl0) as [H1 [H2 _]].
  rewrite (len_perm _ _ (sort_by_perm fst acc)).
  split; [|lia].
  rewrite Forall_forall. intros kv Hkv. apply In_sort_by in Hkv.
  destruct (H1 kv Hkv) as [[]|[n [pw [Hn [Hp ->]]]]].
  apply cand_seq_sh_In in Hn. apply Hsh in Hn. apply vcands_spec in Hn. destruct Hn as [Hn [Hlive Hc]].
  apply live_spec in Hlive. destruct Hlive as [Hfr Hexp].
  exists n, pw. split; [exact Hn|]. split; [reflexivity|]. split; [exact Hfr|]. split; [exact Hexp|].
  unfold is_vcand in Hc. apply andb_true_iff in Hc. destruct Hc as [Hc1 Hc2].
  split; [exact Hc1|]. split; [apply orb_true_iff in Hc2; exact Hc2|].
  split; [exact Hp|]. eapply node_power_positive. exact Hp.
Qed.

(* every elected validator is a registered, unexpired, unfrozen node with the
   validator role whose entity's escrow covers its claims; the count limits
   hold -- for EVERY pair of index lists used as shuffles *)
Theorem elect_sound p ents epoch nodes pe pn vals vents :
  elect_validators p ents epoch nodes pe pn = VOk vals vents ->
  Forall (validator_ok p ents epoch nodes) vals /\
  len vals <= N.max 1 (p_max p) /\ p_min p <= len vals /\ 1 <= len vals.
Proof.
  unfold elect_validators. apply core_sound. intros n Hn. eapply In_apply_perm. exact Hn.
Qed.

(* ---------- per-entity limit ---------- *)
Lemma by_stake_perm p ents pe cands :
  is_perm pe (length (usort (map n_ent cands))) ->
  Permutation (by_stake p ents pe cands) (usort (map n_ent cands)).
Proof.
  intros Hp. unfold by_stake. pose proof (apply_perm_perm _ _ Hp) as H.
  destruct (p_bypass p); [exact H|]. rewrite sort_desc_perm. exact H.
Qed.
Lemma by_stake_nodup p ents pe cands :
  is_perm pe (length (usort (map n_ent cands))) -> NoDup (by_stake p ents pe cands).
Proof.
  intros Hp. eapply Permutation_NoDup; [symmetry; apply by_stake_perm; exact Hp|apply usort_nodup].
Qed.

Lemma count_picks_other p sh e e' : e' <> e -> count_node_ent e (picks p sh e') = 0.
Proof.
  intros Hne. unfold count_node_ent. rewrite filter_none; [reflexivity|].
  intros n Hn. apply picks_ent in Hn. lia.
Qed.
Lemma count_picks_le p sh e e' : count_node_ent e (picks p sh e') <= p_per p.
Proof.
  unfold count_node_ent. etransitivity; [apply len_filter_le|].
  unfold picks, len. pose proof (firstn_le_length (N.to_nat (p_per p)) (filter (fun n => n_ent n =? e') sh)). lia.
Qed.
Lemma count_flat_picks p sh e L :
  NoDup L -> count_node_ent e (flat_map (picks p sh) L) <= p_per p.
Proof.
  induction L as [|a r IH]; intros Hnd; cbn [flat_map].
  - unfold count_node_ent. cbn. lia.
  - inversion Hnd as [|? ? Ha Hr]; subst. rewrite count_node_ent_app.
    destruct (N.eq_dec a e) as [->|Hne].
    + assert (H0 : count_node_ent e (flat_map (picks p sh) r) = 0).
      { unfold count_node_ent. rewrite filter_none; [reflexivity|].
        intros n Hn. apply in_flat_map in Hn. destruct Hn as [e' [He' Hn]].
        apply picks_ent in Hn. destruct Hn as [Hn _].
        destruct (n_ent n =? e) eqn:E; [|reflexivity]. exfalso. apply Ha.
        assert (e' = e) by lia. subst. exact He'. }
      rewrite H0. pose proof (count_picks_le p sh e e). lia.
    + rewrite (count_picks_other p sh e a Hne). specialize (IH Hr). lia.
Qed.

Theorem core_per_entity p ents pe cands sh vals vents :
  is_perm pe (length (usort (map n_ent cands))) ->
  elect_core p ents pe cands sh = VOk vals vents ->
  forall e, count_ent e vals <= p_per p.
Proof.
  intros Hpe H e. destruct (elect_ok_inv _ _ _ _ _ _ _ H) as [acc [Hf [-> _]]].
  assert (Hl0 : len (@nil (N * vinfo)) < N.max 1 (p_max p)) by (rewrite len_nil; lia).
  destruct (fill_sound _ _ _ _ _ _ _ Hf Hl0) as [_ [_ H3]].
  rewrite (count_ent_perm e _ _ (sort_by_perm fst acc)).
  specialize (H3 e). unfold cand_seq_sh in H3.
  pose proof (count_flat_picks p sh e _ (by_stake_nodup p ents pe _ Hpe)) as H4.
  assert (count_ent e (@nil (N * vinfo)) = 0) by reflexivity. lia.
Qed.

Theorem elect_per_entity p ents epoch nodes pe pn vals vents :
  is_perm pe (length (usort (map n_ent (vcands p ents epoch nodes)))) ->
  elect_validators p ents epoch nodes pe pn = VOk vals vents ->
  forall e, count_ent e vals <= p_per p.
Proof. intros Hpe H. eapply core_per_entity; eassumption. Qed.

(* ---------- VRF sortition ---------- *)
Lemma vrf_collect_In beta l : forall seen b n,
  In (b, n) (vrf_collect beta l seen) -> In n l /\ beta (n_id n) = Some b.
Proof.
  induction l as [|x r IH]; intros seen b n; cbn [vrf_collect]; [intros []|].
  destruct (beta (n_id x)) as [bx|] eqn:E.
  - destruct (memN bx seen).
    + intros H. destruct (IH _ _ _ H) as [H1 H2]. split; [right; exact H1|exact H2].
    + intros [[= <- <-]|H]; [split; [left; reflexivity|exact E]|].
      destruct (IH _ _ _ H) as [H1 H2]. split; [right; exact H1|exact H2].
  - intros H. destruct (IH _ _ _ H) as [H1 H2]. split; [right; exact H1|exact H2].
Qed.
Lemma vrf_sort_In beta l n : In n (vrf_sort beta l) -> In n l /\ has_pi beta n = true.
Proof.
  unfold vrf_sort. rewrite in_map_iff. intros [[b m] [<- H]]. apply In_sort_by in H.
  apply vrf_collect_In in H. cbn [snd]. unfold has_pi. destruct H as [H1 H2]. rewrite H2. tauto.
Qed.

Theorem elect_sound_vrf p ents epoch nodes pe pn beta vals vents :
  elect_validators_vrf p ents epoch nodes pe pn beta = VOk vals vents ->
  Forall (validator_ok p ents epoch nodes) vals /\
  len vals <= N.max 1 (p_max p) /\ p_min p <= len vals /\ 1 <= len vals.
Proof.
  unfold elect_validators_vrf. apply core_sound. intros n Hn.
  destruct (len (filter (has_pi beta) (vcands p ents epoch nodes)) <? p_min p).
  - eapply In_apply_perm. exact Hn.
  - apply vrf_sort_In in Hn. tauto.
Qed.
Theorem elect_per_entity_vrf p ents epoch nodes pe pn beta vals vents :
  is_perm pe (length (usort (map n_ent (vcands p ents epoch nodes)))) ->
  elect_validators_vrf p ents epoch nodes pe pn beta = VOk vals vents ->
  forall e, count_ent e vals <= p_per p.
Proof. intros Hpe H. eapply core_per_entity; eassumption. Qed.
