(* C14: the validator set tracked by the scheduler and the set held by the
   consensus engine stay equal over any sequence of election blocks; the
   election trigger. *)
From Verif Require Import Lib.Base Sched.Elect Sched.ElectSpec Sched.ElectLemmas
  Sched.ElectProofs Sched.ElectProofs2.
From Coq Require Import Permutation.

(* ---------- elected sets are maps ---------- *)
Lemma adel_keys_sub {V} k (l : list (N * V)) x : In x (map fst (adel k l)) -> In x (map fst l) /\ x <> k.
Proof.
  induction l as [|[k' v] r IH]; cbn [adel map fst]; [intros []|].
  destruct (k' =? k) eqn:E.
  - intros H. destruct (IH H). split; [right; assumption|assumption].
  - cbn [map fst]. intros [<-|H]; [split; [left; reflexivity|lia]|].
    destruct (IH H). split; [right; assumption|assumption].
Qed.
Lemma adel_keys_nodup {V} k (l : list (N * V)) : NoDup (map fst l) -> NoDup (map fst (adel k l)).
Proof.
  induction l as [|[k' v] r IH]; cbn [adel map fst]; intros H; [constructor|].
  inversion H as [|? ? Hx Hr]; subst. destruct (k' =? k); [apply IH; exact Hr|].
  cbn [map fst]. constructor; [|apply IH; exact Hr].
  intros Hin. apply adel_keys_sub in Hin. tauto.
Qed.
Lemma aset_keys_nodup {V} k (v : V) l : NoDup (map fst l) -> NoDup (map fst (aset k v l)).
Proof.
  intros H. unfold aset. cbn [map fst]. constructor; [|apply adel_keys_nodup; exact H].
  intros Hin. apply adel_keys_sub in Hin. tauto.
Qed.

Lemma fill_keys_nodup p ents cs : forall acc ve acc' ve',
  fill p ents cs acc ve = Some (acc', ve') -> NoDup (map fst acc) -> NoDup (map fst acc').
Proof.
  induction cs as [|n r IH]; intros acc ve acc' ve' Hf Hnd; cbn [fill] in Hf.
  - injection Hf as <- <-. exact Hnd.
  - destruct (node_power p ents n) as [pw|]; [|discriminate].
    pose proof (aset_keys_nodup (n_cons n) (n_id n, n_ent n, pw) acc Hnd) as H1.
    destruct (p_max p <=? len (aset (n_cons n) (n_id n, n_ent n, pw) acc)).
    + injection Hf as <- <-. exact H1.
    + eapply IH; eassumption.
Qed.

(* every elected validator set is a map (distinct consensus keys) *)
Theorem core_keys_nodup p ents pe cands sh vals vents :
  elect_core p ents pe cands sh = VOk vals vents -> NoDup (map fst (powers_of vals)).
Proof.
  intros H. destruct (elect_ok_inv _ _ _ _ _ _ _ H) as [acc [Hf [-> _]]].
  unfold powers_of. rewrite map_map. cbn [fst].
  eapply Permutation_NoDup; [apply Permutation_map; symmetry; apply sort_by_perm|].
  eapply fill_keys_nodup; [exact Hf|constructor].
Qed.

Lemma core_powers_nonzero p ents epoch nodes pe sh vals vents :
  (forall n, In n sh -> In n (vcands p ents epoch nodes)) ->
  elect_core p ents pe (vcands p ents epoch nodes) sh = VOk vals vents ->
  Forall (fun kv => snd kv <> 0) (powers_of vals).
Proof.
  intros Hsh H. destruct (core_sound _ _ _ _ _ _ _ _ Hsh H) as [Hv _].
  unfold powers_of. rewrite Forall_map. eapply Forall_impl; [|exact Hv].
  intros kv [n [pw [_ [-> [_ [_ [_ [_ [_ Hpw]]]]]]]]]. cbn [fst snd]. lia.
Qed.

(* ---------- the engine over a sequence of blocks ---------- *)
Definition same_map (a b : pmap) : Prop := forall k, aget k a = aget k b.

(* one block: the set elected in it (None: no election, or it failed) and the
   validator updates handed to the engine in EndBlock *)
Definition block := (option pmap * list (N * N))%type.

(* scheduler side: CurrentValidators; engine side: its own copy *)
Fixpoint run_blocks (cur eng : pmap) (bs : list block) : pmap * pmap :=
  match bs with
  | [] => (cur, eng)
  | (None, ups) :: r => run_blocks cur (apply_updates eng ups) r
  | (Some pend, ups) :: r => run_blocks pend (apply_updates eng ups) r
  end.

(* what updateValidators does: nothing without a pending set, otherwise the
   diff against the tracked current set, emitted in any order *)
Fixpoint blocks_ok (cur : pmap) (bs : list block) : Prop :=
  match bs with
  | [] => True
  | (None, ups) :: r => ups = [] /\ blocks_ok cur r
  | (Some pend, ups) :: r =>
      NoDup (map fst pend) /\ Forall (fun kv => snd kv <> 0) pend /\
      Permutation ups (diff_validators cur pend) /\ blocks_ok pend r
  end.

Lemma diff_applies_map cur eng pend ups :
  NoDup (map fst cur) -> NoDup (map fst pend) -> Forall (fun kv => snd kv <> 0) pend ->
  Permutation ups (diff_validators cur pend) -> same_map eng cur ->
  same_map (apply_updates eng ups) pend.
Proof.
  intros Hc Hp Hnz Hperm Hsame k.
  assert (Hu : NoDup (map fst ups)).
  { eapply Permutation_NoDup; [apply Permutation_map; symmetry; exact Hperm|].
    apply diff_keys_nodup; assumption. }
  rewrite (apply_updates_aget k ups eng Hu), (Hsame k), <- (apply_updates_aget k ups cur Hu).
  apply diff_applies; assumption.
Qed.

(* after ANY sequence of blocks -- elections that succeed, fail or do not
   happen, with membership, stake and parameters changing arbitrarily in
   between -- the engine holds exactly the last elected set *)
Theorem engine_tracks_elected bs : forall cur eng,
  NoDup (map fst cur) -> same_map eng cur -> blocks_ok cur bs ->
  same_map (snd (run_blocks cur eng bs)) (fst (run_blocks cur eng bs)) /\
  NoDup (map fst (fst (run_blocks cur eng bs))).
Proof.
  induction bs as [|[[pend|] ups] r IH]; intros cur eng Hc Hs Hok; cbn [run_blocks blocks_ok] in *.
  - cbn [fst snd]. split; assumption.
  - destruct Hok as [Hp [Hnz [Hperm Hr]]]. apply IH; [exact Hp| |exact Hr].
    exact (diff_applies_map cur eng pend ups Hc Hp Hnz Hperm Hs).
  - destruct Hok as [-> Hr]. unfold apply_updates. cbn [fold_left]. apply IH; assumption.
Qed.

(* the premise of blocks_ok holds for every set the election produces *)
Theorem elected_block_ok p ents epoch nodes pe sh vals vents cur ups :
  (forall n, In n sh -> In n (vcands p ents epoch nodes)) ->
  elect_core p ents pe (vcands p ents epoch nodes) sh = VOk vals vents ->
  Permutation ups (diff_validators cur (powers_of vals)) ->
  NoDup (map fst (powers_of vals)) /\ Forall (fun kv => snd kv <> 0) (powers_of vals) /\
  Permutation ups (diff_validators cur (powers_of vals)).
Proof.
  intros Hsh H Hp. split; [eapply core_keys_nodup; exact H|].
  split; [eapply core_powers_nonzero; eassumption|exact Hp].
Qed.

(* ---------- the election trigger (shouldElect) ---------- *)
Theorem should_elect_spec base epoch changed slashed :
  (fst (should_elect base epoch changed slashed) = true <->
     epoch <> base /\ (changed = true \/ slashed = true)) /\
  (snd (should_elect base epoch changed slashed) = true <->
     epoch <> base /\ changed = true).
Proof.
  unfold should_elect. destruct (epoch =? base) eqn:E; destruct changed, slashed; cbn [fst snd];
    intuition (try discriminate; try lia).
Qed.

Example ex_engine :
  let b1 := [(101, 312); (102, 62)] in
  let b2 := [(101, 400); (103, 62)] in
  run_blocks [] [] [(Some b1, diff_validators [] b1); (None, []);
                    (Some b2, rev (diff_validators b1 b2)); (Some b2, diff_validators b2 b2)]
  = (b2, [(101, 400); (103, 62)]) /\
  blocks_ok [] [(Some b1, diff_validators [] b1); (None, []);
                (Some b2, rev (diff_validators b1 b2)); (Some b2, diff_validators b2 b2)].
Proof.
  split; [vm_compute; reflexivity|].
  cbn [blocks_ok]. repeat split; try reflexivity;
    try (repeat constructor; cbn; intros H; repeat (destruct H as [H|H]; [discriminate|]); exact H);
    try (repeat constructor; cbn; lia).
  vm_compute. symmetry. apply Permutation_rev.
Qed.
