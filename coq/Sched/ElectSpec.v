(* Relational statement of C14 ("what an election result must satisfy") and
   the boolean checker evaluated on the implementation's output by the
   correspondence files.  Definitions only. *)
From Verif Require Import Lib.Base Sched.Elect.
From Coq Require Import Permutation.

(* an index list that really is a permutation of 0..n-1 *)
Definition is_perm (p : list N) (n : nat) : Prop := Permutation (map N.to_nat p) (seq 0 n).

Definition ent_of (kv : N * vinfo) : N := snd (fst (snd kv)).
Definition pow_of (kv : N * vinfo) : N := snd (snd kv).
Definition count_ent (e : N) (vals : vmap) : N := len (filter (fun kv => ent_of kv =? e) vals).

(* a validator entry is backed by a registered, unexpired, unfrozen node with
   the validator role whose entity's escrow covers its stake claims, listed
   under its own consensus key, with the voting power of the entity's stake *)
Definition validator_ok (p : params) (ents : list entity) (epoch : N) (nodes : list node)
  (kv : N * vinfo) : Prop :=
  exists n pw,
    In n nodes /\ kv = (n_cons n, (n_id n, n_ent n, pw)) /\
    n_freeze n = 0 /\ epoch <= n_exp n /\
    has_role ROLE_VALIDATOR n = true /\
    (p_bypass p = true \/ stake_ok ents (n_ent n) = true) /\
    node_power p ents n = Some pw /\ 1 <= pw.

(* an entity that runs at least one eligible validator node *)
Definition eligible_ent (p : params) (ents : list entity) (epoch : N) (nodes : list node) (e : N) : Prop :=
  exists n, In n nodes /\ live epoch n = true /\ is_vcand p ents n = true /\ n_ent n = e.
Definition represented (vals : vmap) (e : N) : Prop := exists kv, In kv vals /\ ent_of kv = e.

Definition by_descending_stake (p : params) (ents : list entity) (epoch : N) (nodes : list node)
  (vals : vmap) : Prop :=
  forall e e', eligible_ent p ents epoch nodes e -> ~ represented vals e -> represented vals e' ->
               escrow_of ents e <= escrow_of ents e'.

Definition election_ok (p : params) (ents : list entity) (epoch : N) (nodes : list node)
  (vals : vmap) : Prop :=
  Forall (validator_ok p ents epoch nodes) vals /\
  len vals <= N.max 1 (p_max p) /\
  (forall e, count_ent e vals <= p_per p) /\
  p_min p <= len vals /\ 1 <= len vals /\
  (p_bypass p = false -> by_descending_stake p ents epoch nodes vals).

(* ---------- boolean checker ---------- *)
Definition validator_ok_b (p : params) (ents : list entity) (epoch : N) (nodes : list node)
  (kv : N * vinfo) : bool :=
  let '(k, (id, e, pw)) := kv in
  existsb (fun n => (n_id n =? id) && (n_cons n =? k) && (n_ent n =? e) &&
                    live epoch n && is_vcand p ents n &&
                    match node_power p ents n with Some w => (w =? pw) && (1 <=? w) | None => false end)
          nodes.

Definition represented_b (vals : vmap) (e : N) : bool := existsb (fun kv => ent_of kv =? e) vals.

Definition election_ok_b (p : params) (ents : list entity) (epoch : N) (nodes : list node)
  (vals : vmap) : bool :=
  forallb (validator_ok_b p ents epoch nodes) vals &&
  (len vals <=? N.max 1 (p_max p)) &&
  forallb (fun kv => count_ent (ent_of kv) vals <=? p_per p) vals &&
  (p_min p <=? len vals) && (1 <=? len vals) &&
  (p_bypass p ||
   forallb (fun n => negb (live epoch n && is_vcand p ents n) || represented_b vals (n_ent n) ||
                     forallb (fun kv => escrow_of ents (n_ent n) <=? escrow_of ents (ent_of kv)) vals)
           nodes).

(* the implementation's output for one epoch is acceptable: the validator set
   passes the checker and the emitted updates turn the engine's set into it *)
Definition pmap_eqb (a b : pmap) : bool := list_eqb pair_eqb (sort_by fst a) (sort_by fst b).
Definition impl_ok_b (i : epoch_in) (o : epoch_out) : bool :=
  match o with
  | EErr _ => true
  | EOk vals ups _ =>
      election_ok_b (i_params i) (sort_by e_addr (i_ents i)) (i_epoch i) (i_nodes i) vals &&
      pmap_eqb (apply_updates (i_current i) ups) (powers_of vals)
  end.

(* ---------- committees ---------- *)
Definition count_node_ent (e : N) (l : list node) : N := len (filter (fun n => n_ent n =? e) l).

(* the members elected for one role: exact size, every member eligible,
   per-entity limit, pool not below MinPoolSize *)
Definition role_ok (p : params) (ents : list entity) (vents : list N) (epoch : N) (rt : runtime)
  (cs : constr) (wanted : N) (cnodes : list node) (el : list node) : Prop :=
  len el = wanted /\
  Forall (fun n => In n cnodes /\ role_eligible p ents vents epoch rt cs n = true) el /\
  (forall lim, c_max cs = Some lim -> forall e, count_node_ent e el <= lim) /\
  min_pool cs <= len (role_pool p ents vents epoch rt cs cnodes).

Definition committee_ok (fv261 : bool) (p : params) (ents : list entity) (vents : list N) (epoch : N)
  (rt : runtime) (cnodes : list node) (ms : committee) : Prop :=
  r_suspended rt = false /\ (fv261 = true -> r_compute rt = true) /\ 1 <= r_gsize rt /\
  exists w b,
    ms = map (fun n => (ROLE_WORKER, n_id n)) w ++ map (fun n => (ROLE_BACKUP, n_id n)) b /\
    role_ok p ents vents epoch rt (r_cw rt) (r_gsize rt) cnodes w /\
    (if r_bsize rt =? 0 then b = []
     else role_ok p ents vents epoch rt (r_cb rt) (r_bsize rt) cnodes b).
