(* Relational statement of C14 ("what an election result must satisfy") and
   the boolean checker evaluated on the implementation's output by the
   correspondence files.  Definitions only. *)
From Verif Require Import Lib.Base Sched.Elect.
From Coq Require Import Permutation.

(* an index list that really is a permutation of 0..n-1 *)
Definition is_perm (p : list N) (n : nat) : Prop := Permutation (map N.to_nat p) (seq 0 n).

Definition ent_of (kv : N * vinfo) : N := snd (fst (snd kv)).
Definition pow_of (kv : N * vinfo) : N := snd (snd kv).
Definition count_ent (e : N) (vals : vmap) : N := len (filter (fun kv => ent_of kv =? e) vals).

(* a validator entry is backed by a registered, unexpired, unfrozen node with
   the validator role whose entity's escrow covers its stake claims, listed
   under its own consensus key, with the voting power of the entity's stake *)
Definition validator_ok (p : params) (ents : list entity) (epoch : N) (nodes : list node)
  (kv : N * vinfo) : Prop :=
  exists n pw,
    In n nodes /\ kv = (n_cons n, (n_id n, n_ent n, pw)) /\
    n_freeze n = 0 /\ epoch <= n_exp n /\
    has_role ROLE_VALIDATOR n = true /\
    (p_bypass p = true \/ stake_ok ents (n_ent n) = true) /\
    node_power p ents n = Some pw /\ 1 <= pw.

(* an entity that runs at least one eligible validator node; [extra] is the
   additional per-node condition of the shuffle in use (entropy: none; VRF
   sortition: the node submitted a proof) *)
Definition eligible_ent (p : params) (ents : list entity) (epoch : N) (nodes : list node)
  (extra : node -> bool) (e : N) : Prop :=
  exists n, In n nodes /\ live epoch n = true /\ is_vcand p ents n = true /\ extra n = true /\ n_ent n = e.
Definition no_extra : node -> bool := fun _ => true.
Definition represented (vals : vmap) (e : N) : Prop := exists kv, In kv vals /\ ent_of kv = e.

Definition by_descending_stake (p : params) (ents : list entity) (epoch : N) (nodes : list node)
  (extra : node -> bool) (vals : vmap) : Prop :=
  forall e e', eligible_ent p ents epoch nodes extra e -> ~ represented vals e -> represented vals e' ->
               escrow_of ents e <= escrow_of ents e'.

Definition election_ok (p : params) (ents : list entity) (epoch : N) (nodes : list node)
  (extra : node -> bool) (vals : vmap) : Prop :=
  Forall (validator_ok p ents epoch nodes) vals /\
  len vals <= N.max 1 (p_max p) /\
  (forall e, count_ent e vals <= p_per p) /\
  p_min p <= len vals /\ 1 <= len vals /\
  (p_bypass p = false -> by_descending_stake p ents epoch nodes extra vals).

(* ---------- boolean checker ---------- *)
Definition validator_ok_b (p : params) (ents : list entity) (epoch : N) (nodes : list node)
  (kv : N * vinfo) : bool :=
  let '(k, (id, e, pw)) := kv in
  existsb (fun n => (n_id n =? id) && (n_cons n =? k) && (n_ent n =? e) &&
                    live epoch n && is_vcand p ents n &&
                    match node_power p ents n with Some w => (w =? pw) && (1 <=? w) | None => false end)
          nodes.

Definition represented_b (vals : vmap) (e : N) : bool := existsb (fun kv => ent_of kv =? e) vals.

Definition election_ok_b (p : params) (ents : list entity) (epoch : N) (nodes : list node)
  (extra : node -> bool) (vals : vmap) : bool :=
  forallb (validator_ok_b p ents epoch nodes) vals &&
  (len vals <=? N.max 1 (p_max p)) &&
  forallb (fun kv => count_ent (ent_of kv) vals <=? p_per p) vals &&
  (p_min p <=? len vals) && (1 <=? len vals) &&
  (p_bypass p ||
   forallb (fun n => negb (live epoch n && is_vcand p ents n && extra n) || represented_b vals (n_ent n) ||
                     forallb (fun kv => escrow_of ents (n_ent n) <=? escrow_of ents (ent_of kv)) vals)
           nodes).

(* ---------- committees ---------- *)
Definition count_node_ent (e : N) (l : list node) : N := len (filter (fun n => n_ent n =? e) l).

(* the members elected for one role: exact size, every member eligible,
   per-entity limit, pool not below MinPoolSize *)
Definition role_ok (p : params) (ents : list entity) (vents : list N) (epoch : N) (rt : runtime)
  (src : shuffle_src) (cs : constr) (wanted : N) (cnodes : list node) (el : list node) : Prop :=
  len el = wanted /\
  Forall (fun n => In n cnodes /\ role_eligible p ents vents epoch rt (src_haspi src) cs n = true) el /\
  (forall lim, c_max cs = Some lim -> forall e, count_node_ent e el <= lim) /\
  min_pool cs <= len (role_pool p ents vents epoch rt src cs cnodes).

Definition committee_ok (fv261 : bool) (p : params) (ents : list entity) (vents : list N) (epoch : N)
  (rt : runtime) (cnodes : list node) (blocked : bool) (sw sb : shuffle_src) (ms : committee) : Prop :=
  r_suspended rt = false /\ (fv261 = true -> r_compute rt = true) /\ blocked = false /\
  1 <= r_gsize rt /\
  exists w b,
    ms = map (fun n => (ROLE_WORKER, n_id n)) w ++ map (fun n => (ROLE_BACKUP, n_id n)) b /\
    role_ok p ents vents epoch rt sw (r_cw rt) (r_gsize rt) cnodes w /\
    (if r_bsize rt =? 0 then b = []
     else role_ok p ents vents epoch rt sb (r_cb rt) (r_bsize rt) cnodes b).

(* boolean checker for a committee *)
Definition find_node (id : N) (l : list node) : option node := find (fun n => n_id n =? id) l.
Fixpoint lookup_all (ids : list N) (l : list node) : option (list node) :=
  match ids with
  | [] => Some []
  | id :: r =>
      match find_node id l, lookup_all r l with
      | Some n, Some ns => Some (n :: ns)
      | _, _ => None
      end
  end.
Definition role_ok_b (p : params) (ents : list entity) (vents : list N) (epoch : N) (rt : runtime)
  (src : shuffle_src) (cs : constr) (wanted : N) (cnodes : list node) (el : list node) : bool :=
  (len el =? wanted) &&
  forallb (role_eligible p ents vents epoch rt (src_haspi src) cs) el &&
  match c_max cs with
  | Some lim => forallb (fun n => count_node_ent (n_ent n) el <=? lim) el
  | None => true
  end &&
  (min_pool cs <=? len (role_pool p ents vents epoch rt src cs cnodes)).
Definition committee_ok_b (fv261 : bool) (p : params) (ents : list entity) (vents : list N) (epoch : N)
  (rt : runtime) (cnodes : list node) (blocked : bool) (sw sb : shuffle_src) (ms : committee) : bool :=
  negb (r_suspended rt) && (negb fv261 || r_compute rt) && negb blocked && (1 <=? r_gsize rt) &&
  match lookup_all (map snd (filter (fun m => fst m =? ROLE_WORKER) ms)) cnodes,
        lookup_all (map snd (filter (fun m => fst m =? ROLE_BACKUP) ms)) cnodes with
  | Some w, Some b =>
      list_eqb pair_eqb ms (map (fun n => (ROLE_WORKER, n_id n)) w ++ map (fun n => (ROLE_BACKUP, n_id n)) b) &&
      role_ok_b p ents vents epoch rt sw (r_cw rt) (r_gsize rt) cnodes w &&
      (if r_bsize rt =? 0 then len b =? 0
       else role_ok_b p ents vents epoch rt sb (r_cb rt) (r_bsize rt) cnodes b)
  | _, _ => false
  end.

(* all committees of one epoch, runtime by runtime; "no committee" is always acceptable *)
Fixpoint comms_ok (fv261 : bool) (p : params) (ents : list entity) (vents : list N) (epoch : N)
  (cnodes : list node) (blocked : bool) (rts : list runtime) (srcs : list (shuffle_src * shuffle_src))
  (outs : list (N * option committee)) : Prop :=
  match rts, outs with
  | [], [] => True
  | rt :: r, (id, oc) :: o =>
      let pc := match srcs with pc :: _ => pc | [] => (ByTable [], ByTable []) end in
      r_id rt = id /\
      match oc with
      | None => True
      | Some ms => committee_ok fv261 p ents vents epoch rt cnodes blocked (fst pc) (snd pc) ms
      end /\
      comms_ok fv261 p ents vents epoch cnodes blocked r (tl srcs) o
  | _, _ => False
  end.
Fixpoint comms_ok_b (fv261 : bool) (p : params) (ents : list entity) (vents : list N) (epoch : N)
  (cnodes : list node) (blocked : bool) (rts : list runtime) (srcs : list (shuffle_src * shuffle_src))
  (outs : list (N * option committee)) : bool :=
  match rts, outs with
  | [], [] => true
  | rt :: r, (id, oc) :: o =>
      let pc := match srcs with pc :: _ => pc | [] => (ByTable [], ByTable []) end in
      (r_id rt =? id) &&
      match oc with
      | None => true
      | Some ms => committee_ok_b fv261 p ents vents epoch rt cnodes blocked (fst pc) (snd pc) ms
      end &&
      comms_ok_b fv261 p ents vents epoch cnodes blocked r (tl srcs) o
  | _, _ => false
  end.

(* the implementation's output for one epoch is acceptable: the validator set
   passes the checker, the emitted updates turn the engine's set into it, and
   every committee passes the committee checker (validator-set constraint
   evaluated against the entities of the implementation's validator set) *)
Definition pmap_eqb (a b : pmap) : bool := list_eqb pair_eqb (sort_by fst a) (sort_by fst b).
(* the extra eligibility condition of the validator shuffle in use *)
Definition val_extra (i : epoch_in) : node -> bool :=
  match i_vrf i with
  | None => no_extra
  | Some v =>
      let beta := tbl_of (v_val v) in
      let cands := vcands (i_params i) (sort_by e_addr (post_ents i)) (i_epoch i) (sort_by n_id (post_nodes i)) in
      if len (filter (has_pi beta) cands) <? p_min (i_params i) then no_extra else has_pi beta
  end.
Definition impl_ok_b (i : epoch_in) (o : epoch_out) : bool :=
  match o with
  | EErr _ => true
  | ESkip => true
  | EOk vals ups comms =>
      let ents := sort_by e_addr (post_ents i) in
      election_ok_b (i_params i) ents (i_epoch i) (post_nodes i) (val_extra i) vals &&
      pmap_eqb (apply_updates (i_current i) ups) (powers_of vals) &&
      comms_ok_b (i_fv261 i) (i_params i) ents (map ent_of vals) (i_epoch i)
        (committee_nodes i (sort_by n_id (post_nodes i))) (vrf_blocked i) (i_rts i) (committee_srcs i) comms
  end.
