(* Executable port of the scheduler elections of oasis-core
   (go/consensus/cometbft/apps/scheduler/{scheduler.go,shuffle.go}).
   Definitions only; proofs are in ElectSpec.v / ElectProofs.v.

   Identifiers (node id, consensus key, entity staking address, runtime id)
   are the big-endian numeric values of the fixed-length byte strings, so
   [bytes.Compare] order = numeric order.  The DRBG / math.rand shuffles are
   abstract: every shuffle is an explicit index list [p] with
   shuffled[i] = original[p[i]] (what rng.Perm / rng.Shuffle produce); the
   theorems quantify over all of them.  Likewise the hashed VRF betas and the
   TEE attestation verdict are inputs. *)
From Verif Require Import Lib.Base.

(* ---------- inputs ---------- *)
Record node := mkNode {
  n_id : N;                       (* node.ID *)
  n_ent : N;                      (* staking.NewAddress(node.EntityID) *)
  n_cons : N;                     (* node.Consensus.ID *)
  n_roles : N;                    (* node.Roles bitmask: bit 0 compute, bit 3 validator *)
  n_exp : N;                      (* node.Expiration *)
  n_freeze : N;                   (* NodeStatus.FreezeEndTime *)
  n_elig : N;                     (* NodeStatus.ElectionEligibleAfter *)
  n_rts : list (N * N * option (N * bool));
     (* node.Runtimes: (runtime id, Version.ToU64, Capabilities.TEE: None = nil,
        Some (hardware, the attestation verifies against the active deployment)) *)
  n_faults : list (N * N)         (* NodeStatus.Faults: runtime id -> SuspendedUntil *)
}.

Record entity := mkEnt {
  e_addr : N;                     (* staking address *)
  e_escrow : N;                   (* Escrow.Active.Balance *)
  e_claims : list N               (* values of all thresholds of all stake claims *)
}.

Record params := mkParams {
  p_min : N;                      (* MinValidators *)
  p_max : N;                      (* MaxValidators *)
  p_per : N;                      (* MaxValidatorsPerEntity *)
  p_bypass : bool;                (* DebugBypassStake *)
  p_sqrt : bool                   (* VotingPowerDistribution == Sqrt *)
}.

Record constr := mkCs {
  c_vset : bool;                  (* ValidatorSet != nil *)
  c_max : option N;               (* MaxNodes.Limit *)
  c_min : option N                (* MinPoolSize.Limit *)
}.

Record runtime := mkRt {
  r_id : N;
  r_compute : bool;               (* Kind == KindCompute *)
  r_suspended : bool;             (* stored under the suspended prefix: not returned by Runtimes() *)
  r_gsize : N;                    (* Executor.GroupSize *)
  r_bsize : N;                    (* Executor.GroupBackupSize *)
  r_deps : list (N * N);          (* Deployments: (Version.ToU64, ValidFrom) *)
  r_cw : constr;                  (* Constraints[executor][worker] *)
  r_cb : constr;                  (* Constraints[executor][backup] *)
  r_tee : N                       (* TEEHardware, 0 = TEEHardwareInvalid (no TEE) *)
}.

Definition ROLE_COMPUTE : N := 0.   (* bit index of node.RoleComputeWorker *)
Definition ROLE_VALIDATOR : N := 3. (* bit index of node.RoleValidator *)
Definition has_role (bit : N) (n : node) : bool := N.testbit (n_roles n) bit.

(* ---------- generic helpers ---------- *)
Definition len {A} (l : list A) : N := N.of_nat (length l).

Fixpoint sum (l : list N) : N := match l with [] => 0 | x :: r => x + sum r end.

Definition memN (x : N) (l : list N) : bool := existsb (N.eqb x) l.

(* stable insertion sort, ascending by [key] *)
Section SortBy.
  Context {A : Type} (key : A -> N).
  Fixpoint insert_by (x : A) (l : list A) : list A :=
    match l with
    | [] => [x]
    | y :: r => if key x <=? key y then x :: l else y :: insert_by x r
    end.
  Definition sort_by (l : list A) : list A := fold_right insert_by [] l.

  (* stable insertion sort, DESCENDING by [key]: sort.SliceStable with
     less(i,j) = key i > key j (scheduler.go:646-652) *)
  Fixpoint insert_desc (x : A) (l : list A) : list A :=
    match l with
    | [] => [x]
    | y :: r => if key y <=? key x then x :: l else y :: insert_desc x r
    end.
  Definition sort_desc (l : list A) : list A := fold_right insert_desc [] l.
End SortBy.

(* sorted set of numbers (map keys collected and sorted, scheduler.go:619-620) *)
Fixpoint uinsert (x : N) (l : list N) : list N :=
  match l with
  | [] => [x]
  | y :: r => if x <? y then x :: l else if x =? y then l else y :: uinsert x r
  end.
Definition usort (l : list N) : list N := fold_right uinsert [] l.

(* shuffled[i] = l[p[i]]  (shuffle.go:103-113; rng.Shuffle likewise).
   Indices out of range (never produced by a permutation) are dropped. *)
Definition apply_perm {A} (p : list N) (l : list A) : list A :=
  flat_map (fun i => match nth_error l (N.to_nat i) with Some x => [x] | None => [] end) p.

(* ---------- staking view ---------- *)
Definition find_ent (ents : list entity) (a : N) : option entity :=
  find (fun e => e_addr e =? a) ents.
(* StakeAccumulatorCache.GetEscrowBalance; a missing account is the empty account *)
Definition escrow_of (ents : list entity) (a : N) : N :=
  match find_ent ents a with Some e => e_escrow e | None => 0 end.
(* EscrowAccount.CheckStakeClaims (staking/api/api.go:1082-1091):
   Active.Balance >= sum of all claim thresholds *)
Definition stake_ok (ents : list entity) (a : N) : bool :=
  match find_ent ents a with Some e => sum (e_claims e) <=? e_escrow e | None => true end.

(* scheduler/api/api.go:300-333, BaseUnitsPerVotingPower = 16.  None = error. *)
Definition BASE_UNITS_PER_POWER : N := 16.
Definition voting_power (sqrt : bool) (stake : N) : option N :=
  let q := if sqrt then stake else stake / BASE_UNITS_PER_POWER in
  if q =? 0 then Some 1
  else let pw := if sqrt then N.sqrt q else q in
       if pw <? 2 ^ 63 then Some pw else None.

(* ---------- node filtering (scheduler.go:212-236) ---------- *)
Definition live (epoch : N) (n : node) : bool :=
  (n_freeze n =? 0) && negb (n_exp n <? epoch).
(* regState.Nodes returns the nodes sorted by ID (registry state.go:250) *)
Definition live_nodes (epoch : N) (nodes : list node) : list node :=
  filter (live epoch) (sort_by n_id nodes).

(* ---------- validator election (scheduler.go:505-616) ---------- *)
Definition is_vcand (p : params) (ents : list entity) (n : node) : bool :=
  has_role ROLE_VALIDATOR n && (p_bypass p || stake_ok ents (n_ent n)).
Definition vcands (p : params) (ents : list entity) (epoch : N) (nodes : list node) : list node :=
  filter (is_vcand p ents) (live_nodes epoch nodes).

(* stakingAddressMapToSliceByStake (scheduler.go:610-644) *)
Definition by_stake (p : params) (ents : list entity) (perm_e : list N) (cands : list node) : list N :=
  let sh := apply_perm perm_e (usort (map n_ent cands)) in
  if p_bypass p then sh else sort_desc (escrow_of ents) sh.

(* entityNodesMap[e][0 : MaxValidatorsPerEntity] *)
Definition picks (p : params) (shuffled : list node) (e : N) : list node :=
  firstn (N.to_nat (p_per p)) (filter (fun n => n_ent n =? e) shuffled).

(* [sh] is the shuffled candidate list (shuffleValidators) *)
Definition cand_seq_sh (p : params) (ents : list entity) (perm_e : list N) (cands sh : list node) : list node :=
  flat_map (picks p sh) (by_stake p ents perm_e cands).
Definition cand_seq (p : params) (ents : list entity) (perm_e perm_n : list N) (cands : list node) : list node :=
  cand_seq_sh p ents perm_e cands (apply_perm perm_n cands).

Definition vinfo := (N * N * N)%type.          (* node id, entity, voting power *)
Definition vmap := list (N * vinfo).           (* keyed by consensus key *)

Definition node_power (p : params) (ents : list entity) (n : node) : option N :=
  if p_bypass p then Some 1 else voting_power (p_sqrt p) (escrow_of ents (n_ent n)).

(* the electLoop (scheduler.go:553-598), flattened: insert, then
   `if len(newValidators) >= MaxValidators { break electLoop }`.
   None = voting power error. *)
Fixpoint fill (p : params) (ents : list entity) (cs : list node) (acc : vmap) (ve : list N)
  : option (vmap * list N) :=
  match cs with
  | [] => Some (acc, ve)
  | n :: r =>
      match node_power p ents n with
      | None => None
      | Some pw =>
          let acc' := aset (n_cons n) (n_id n, n_ent n, pw) acc in
          let ve' := n_ent n :: ve in
          if p_max p <=? len acc' then Some (acc', ve') else fill p ents r acc' ve'
      end
  end.

Inductive vres :=
| VOk (vals : vmap) (vents : list N)   (* vals sorted by consensus key; vents = validatorEntities *)
| VErrPower                            (* VotingPowerFromStake failed *)
| VErrNone                             (* "failed to elect any validators" *)
| VErrInsufficient.                    (* "insufficient validators" *)

Definition elect_core (p : params) (ents : list entity) (perm_e : list N) (cands sh : list node) : vres :=
  match fill p ents (cand_seq_sh p ents perm_e cands sh) [] [] with
  | None => VErrPower
  | Some (acc, ve) =>
      if len acc =? 0 then VErrNone
      else if len acc <? p_min p then VErrInsufficient
      else VOk (sort_by fst acc) ve
  end.

(* entropy path: the nodes are shuffled with rng.Perm (shuffle.go:88-113) *)
Definition elect_validators (p : params) (ents : list entity) (epoch : N) (nodes : list node)
  (perm_e perm_n : list N) : vres :=
  let cands := vcands p ents epoch nodes in
  elect_core p ents perm_e cands (apply_perm perm_n cands).

(* ---------- VRF sortition (shuffle.go:525-560) ----------
   [beta id] is the hashed beta of the VRF proof node [id] submitted for the
   previous epoch in the election's hash context (None: no proof).  The
   TupleHash over (domain, chain context, epoch, runtime, kind, role, beta)
   is abstract: the theorems hold for every function [beta].
   sortNodesByHashedBeta: nodes without a proof are dropped, of two nodes
   with the same hashed beta the first one wins, the rest is sorted by it. *)
Fixpoint vrf_collect (beta : N -> option N) (nodes : list node) (seen : list N) : list (N * node) :=
  match nodes with
  | [] => []
  | n :: r =>
      match beta (n_id n) with
      | None => vrf_collect beta r seen
      | Some b => if memN b seen then vrf_collect beta r seen
                  else (b, n) :: vrf_collect beta r (b :: seen)
      end
  end.
Definition vrf_sort (beta : N -> option N) (nodes : list node) : list node :=
  map snd (sort_by fst (vrf_collect beta nodes [])).
Definition has_pi (beta : N -> option N) (n : node) : bool :=
  match beta (n_id n) with Some _ => true | None => false end.

(* shuffleValidators with the VRF backend (shuffle.go:38-86): sortition when
   at least MinValidators candidates submitted a proof, otherwise the
   entropy shuffle *)
Definition elect_validators_vrf (p : params) (ents : list entity) (epoch : N) (nodes : list node)
  (perm_e perm_n : list N) (beta : N -> option N) : vres :=
  let cands := vcands p ents epoch nodes in
  elect_core p ents perm_e cands
    (if len (filter (has_pi beta) cands) <? p_min p then apply_perm perm_n cands
     else vrf_sort beta cands).

(* ---------- validator diff (scheduler.go:361-392) and its application ---------- *)
Definition pmap := list (N * N).   (* consensus key -> voting power *)

Definition diff_validators (current pending : pmap) : list (N * N) :=
  map (fun kv => (fst kv, 0))
      (filter (fun kv => match aget (fst kv) pending with None => true | Some _ => false end) current)
  ++ filter (fun kv => match aget (fst kv) current with
                       | Some pw => negb (pw =? snd kv)
                       | None => true
                       end) pending.

(* what CometBFT does with an update list: power 0 removes, otherwise upsert *)
Definition apply_update (m : pmap) (u : N * N) : pmap :=
  if snd u =? 0 then adel (fst u) m else aset (fst u) (snd u) m.
Definition apply_updates (m : pmap) (us : list (N * N)) : pmap := fold_left apply_update us m.

Definition powers_of (v : vmap) : pmap := map (fun kv => (fst kv, snd (snd kv))) v.

(* ---------- committee election (shuffle.go:116-520), entropy path ---------- *)
(* Runtime.ActiveDeployment (registry/api/runtime.go:483-500) *)
Definition active_deployment (epoch : N) (deps : list (N * N)) : option (N * N) :=
  fold_left (fun acc d =>
               if epoch <? snd d then acc
               else match acc with
                    | None => Some d
                    | Some a => if snd a <? snd d then Some d else acc
                    end) deps None.

(* NodeStatus.IsSuspended (registry/api/status.go:86-98) *)
Definition suspended (epoch rt_id : N) (n : node) : bool :=
  negb (n_freeze n =? 0) ||
  match aget rt_id (n_faults n) with
  | Some u => (0 <? u) && (epoch <? u)
  | None => false
  end.

(* the loop of isSuitableExecutorWorker (scheduler.go:413-458): the first entry
   with matching id and version decides; a runtime without TEE hardware wants
   no TEE capability, a TEE runtime wants the same hardware and an attestation
   that verifies (CapabilityTEE.Verify is abstract: its verdict is an input) *)
Definition tee_ok (hw : N) (tee : option (N * bool)) : bool :=
  if hw =? 0 then match tee with None => true | Some _ => false end
  else match tee with None => false | Some (h, verified) => (h =? hw) && verified end.
Fixpoint suitable_rts (rt_id ver hw : N) (susp : bool) (rts : list (N * N * option (N * bool))) : bool :=
  match rts with
  | [] => false
  | (id, v, tee) :: r =>
      if (id =? rt_id) && (v =? ver) then (if susp then false else tee_ok hw tee)
      else suitable_rts rt_id ver hw susp r
  end.

Definition suitable (epoch : N) (rt : runtime) (n : node) : bool :=
  has_role ROLE_COMPUTE n &&
  match active_deployment epoch (r_deps rt) with
  | None => false
  | Some (ver, _) => suitable_rts (r_id rt) ver (r_tee rt) (suspended epoch (r_id rt) n) (n_rts n)
  end.

(* pre-election eligibility for one role (shuffle.go:273-330) *)
Definition role_eligible (p : params) (ents : list entity) (vents : list N) (epoch : N)
  (rt : runtime) (haspi : node -> bool) (cs : constr) (n : node) : bool :=
  (p_bypass p || stake_ok ents (n_ent n)) && suitable epoch rt n && haspi n &&
  (negb (c_vset cs) || memN (n_ent n) vents).

(* where the randomness of one role's election comes from *)
Inductive shuffle_src :=
| ByTable (tbl : list (list N))                 (* entropy: pool length k -> rng.Perm(k) *)
| ByBeta (dedup_beta elect_beta : N -> option N). (* VRF: hashed betas in the dedup / election contexts *)
Definition src_haspi (src : shuffle_src) : node -> bool :=
  match src with ByTable _ => fun _ => true | ByBeta _ eb => has_pi eb end.

(* committeeVRFBetaIndexes (shuffle.go:497-520): index of each sorted node in
   the pool (map id -> index, the last index wins) *)
Fixpoint index_last (id : N) (l : list node) (i acc : N) : N :=
  match l with
  | [] => acc
  | n :: r => index_last id r (i + 1) (if n_id n =? id then i else acc)
  end.
Definition beta_indexes (beta : N -> option N) (pool : list node) : list N :=
  map (fun n => index_last (n_id n) pool 0 0) (vrf_sort beta pool).

Definition cnt_of (k : N) (m : list (N * N)) : N := match aget k m with Some c => c | None => 0 end.

(* dedupEntityNodesTrivial (shuffle.go:685-700) *)
Fixpoint dedup (lim : N) (seen : list (N * N)) (nodes : list node) : list node :=
  match nodes with
  | [] => []
  | n :: r =>
      let c := cnt_of (n_ent n) seen in
      if lim <=? c then dedup lim seen r
      else n :: dedup lim (aset (n_ent n) (c + 1) seen) r
  end.

Definition role_pool (p : params) (ents : list entity) (vents : list N) (epoch : N)
  (rt : runtime) (src : shuffle_src) (cs : constr) (cnodes : list node) : list node :=
  let pool0 := filter (role_eligible p ents vents epoch rt (src_haspi src) cs) cnodes in
  match c_max cs with
  | Some lim =>
      if 0 <? lim then
        match src with
        | ByTable _ => dedup lim [] pool0                       (* first seen, shuffle.go:364-369 *)
        | ByBeta db _ => dedup lim [] (vrf_sort db pool0)       (* dedupEntityNodesByHashedBeta *)
        end
      else pool0
  | None => pool0
  end.

(* the election loop over the shuffled indexes (shuffle.go:448-483).
   None = "max nodes per committee exceeded" (no committee). *)
Fixpoint elect_loop (cs : constr) (wanted : N) (pool : list node) (idxs : list N)
  (elected : list node) (cnt : list (N * N)) : option (list node) :=
  match idxs with
  | [] => Some elected
  | i :: r =>
      if wanted <=? len elected then Some elected
      else match nth_error pool (N.to_nat i) with
           | None => elect_loop cs wanted pool r elected cnt
           | Some n =>
               match c_max cs with
               | Some lim =>
                   let c := cnt_of (n_ent n) cnt in
                   if lim <=? c then None
                   else elect_loop cs wanted pool r (elected ++ [n]) (aset (n_ent n) (c + 1) cnt)
               | None => elect_loop cs wanted pool r (elected ++ [n]) cnt
               end
           end
  end.

Definition min_pool (cs : constr) : N := match c_min cs with Some m => m | None => 0 end.

(* one role.  None = no committee. *)
Definition role_idxs (src : shuffle_src) (pool : list node) : list N :=
  match src with
  | ByTable tbl => nth (length pool) tbl []
  | ByBeta _ eb => beta_indexes eb pool
  end.
Definition elect_role (p : params) (ents : list entity) (vents : list N) (epoch : N)
  (rt : runtime) (cs : constr) (wanted : N) (cnodes : list node) (src : shuffle_src)
  : option (list node) :=
  let pool := role_pool p ents vents epoch rt src cs cnodes in
  let idxs := role_idxs src pool in
  if len pool <? min_pool cs then None
  else if len pool <? wanted then None
  else match elect_loop cs wanted pool idxs [] [] with
       | None => None
       | Some el => if len el =? wanted then Some el else None
       end.

Definition ROLE_WORKER : N := 1.
Definition ROLE_BACKUP : N := 2.
Definition committee := list (N * N).   (* (scheduler role, node id), workers first *)

(* electCommittee / electCommitteeMembers for KindComputeExecutor.
   None = no committee (dropped / never stored). *)
(* [blocked]: VRF backend, weak alpha (not CanElectCommittees) and no
   DebugAllowWeakAlpha (shuffle.go:218-235) *)
Definition elect_committee (fv261 : bool) (p : params) (ents : list entity) (vents : list N) (epoch : N)
  (rt : runtime) (cnodes : list node) (blocked : bool) (idx_w idx_b : shuffle_src) : option committee :=
  if r_suspended rt then None
  else if fv261 && negb (r_compute rt) then None   (* shuffle.go:139-148, kind is always executor *)
  else if blocked then None
  else if r_gsize rt =? 0 then None
  else match elect_role p ents vents epoch rt (r_cw rt) (r_gsize rt) cnodes idx_w with
       | None => None
       | Some w =>
           let wm := map (fun n => (ROLE_WORKER, n_id n)) w in
           if r_bsize rt =? 0 then Some wm
           else match elect_role p ents vents epoch rt (r_cb rt) (r_bsize rt) cnodes idx_b with
                | None => None
                | Some b => Some (wm ++ map (fun n => (ROLE_BACKUP, n_id n)) b)
                end
       end.

(* ---------- one epoch transition: BeginBlock (maybeElect) + EndBlock ---------- *)
Record vrf_in := mkVrf {
  v_can : bool;                  (* PrevVRFState.CanElectCommittees *)
  v_weak : bool;                 (* DebugAllowWeakAlpha *)
  v_val : list (N * N);          (* node id -> hashed beta, validator context; exactly the nodes with a proof *)
  v_rts : list (list (N * N) * list (N * N) * list (N * N) * list (N * N))
     (* per runtime: worker dedup / worker election / backup dedup / backup election contexts *)
}.

Record epoch_in := mkIn {
  i_params : params;
  i_ents : list entity;
  i_epoch : N;
  i_nodes : list node;
  i_rts : list runtime;
  i_perm_e : list (list N);                (* entity tie-break shuffle, by number of entities *)
  i_perm_n : list (list N);                (* validator node shuffle, by number of candidate nodes *)
  i_perm_c : list (list (list N) * list (list N));  (* per runtime: worker / backup index lists by pool size *)
  i_current : pmap;                        (* validator set held by the consensus engine *)
  i_fv261 : bool;                          (* consensus feature version >= 26.1 *)
  i_vrf : option vrf_in;                   (* Some: beacon backend VRF *)
  i_base : N;                              (* base epoch *)
  i_changed : bool;                        (* the epoch changed in this block *)
  i_slashed : bool;                        (* a staking TakeEscrowEvent was already emitted in this block *)
  i_slashes : list (N * N * option (N * N))
     (* slashing before the scheduler's BeginBlock (staking onEvidence, roothash):
        (entity address, amount, node to freeze: (id, FreezeEndTime)) *)
}.

Inductive epoch_out :=
| EOk (vals : vmap) (updates : list (N * N)) (comms : list (N * option committee))
| EErr (code : N)    (* 1 power, 2 none elected, 3 insufficient *)
| ESkip.             (* no election in this block *)

(* shouldElect (scheduler.go:117-157): (elect, reward) *)
Definition should_elect (base epoch : N) (changed slashed : bool) : bool * bool :=
  if epoch =? base then (false, false)
  else if changed then (true, true)
  else if slashed then (true, false)
  else (false, false).

Definition tbl_of (m : list (N * N)) : N -> option N := fun id => aget id m.

(* ---------- slashing inside a block (staking/state SlashEscrow, staking/slashing.go) ----------
   The escrow loses min(amount, balance) (no debonding pool in the model); a
   TakeEscrowEvent is emitted iff something was taken; the offending node is
   frozen.  The scheduler then re-elects in the same block against the
   post-slash state. *)
Definition slash_one (addr amt : N) (e : entity) : entity :=
  if e_addr e =? addr then mkEnt (e_addr e) (e_escrow e - amt) (e_claims e) else e.
Definition freeze_one (id until : N) (n : node) : node :=
  if n_id n =? id
  then mkNode (n_id n) (n_ent n) (n_cons n) (n_roles n) (n_exp n) until (n_elig n) (n_rts n) (n_faults n)
  else n.
Definition slash_op := (N * N * option (N * N))%type.
Definition apply_slash (st : list entity * list node * bool) (s : slash_op) : list entity * list node * bool :=
  let '(ents, nodes, fl) := st in
  let '(addr, amt, fr) := s in
  (map (slash_one addr amt) ents,
   match fr with Some (id, until) => map (freeze_one id until) nodes | None => nodes end,
   fl || (0 <? N.min amt (escrow_of ents addr))).
Definition post_state (i : epoch_in) : list entity * list node * bool :=
  fold_left apply_slash (i_slashes i) (i_ents i, i_nodes i, i_slashed i).
Definition post_ents (i : epoch_in) : list entity := fst (fst (post_state i)).
Definition post_nodes (i : epoch_in) : list node := snd (fst (post_state i)).
Definition post_slashed (i : epoch_in) : bool := snd (post_state i).

Fixpoint elect_committees (fv261 : bool) (p : params) (ents : list entity) (vents : list N) (epoch : N)
  (cnodes : list node) (blocked : bool) (rts : list runtime) (srcs : list (shuffle_src * shuffle_src))
  : list (N * option committee) :=
  match rts with
  | [] => []
  | rt :: r =>
      let pc := match srcs with pc :: _ => pc | [] => (ByTable [], ByTable []) end in
      (r_id rt, elect_committee fv261 p ents vents epoch rt cnodes blocked (fst pc) (snd pc))
        :: elect_committees fv261 p ents vents epoch cnodes blocked r (tl srcs)
  end.

(* the shuffles are selected by the length of the list being shuffled *)
Definition elect_validators_t (p : params) (ents : list entity) (epoch : N) (nodes : list node)
  (tbl_e tbl_n : list (list N)) (vrf : option vrf_in) : vres :=
  let cands := vcands p ents epoch nodes in
  let pe := nth (length (usort (map n_ent cands))) tbl_e [] in
  let pn := nth (length cands) tbl_n [] in
  match vrf with
  | None => elect_validators p ents epoch nodes pe pn
  | Some v => elect_validators_vrf p ents epoch nodes pe pn (tbl_of (v_val v))
  end.

Definition committee_srcs (i : epoch_in) : list (shuffle_src * shuffle_src) :=
  match i_vrf i with
  | None => map (fun pc => (ByTable (fst pc), ByTable (snd pc))) (i_perm_c i)
  | Some v => map (fun t => let '(dw, ew, db, eb) := t in
                            (ByBeta (tbl_of dw) (tbl_of ew), ByBeta (tbl_of db) (tbl_of eb))) (v_rts v)
  end.
Definition vrf_blocked (i : epoch_in) : bool :=
  match i_vrf i with Some v => negb (v_can v) && negb (v_weak v) | None => false end.
(* scheduler.go:199-236: with the VRF backend (and no weak alpha allowed) only
   nodes with epoch > ElectionEligibleAfter are committee candidates *)
Definition committee_nodes (i : epoch_in) (nodes : list node) : list node :=
  let live := live_nodes (i_epoch i) nodes in
  match i_vrf i with
  | Some v => if v_weak v then live else filter (fun n => n_elig n <? i_epoch i) live
  | None => live
  end.

(* The registry and the staking ledger are key-value maps: the election sees
   the nodes ordered by ID and the accounts by address whatever the order in
   which they were written. *)
Definition run_epoch (i : epoch_in) : epoch_out :=
  let nodes := sort_by n_id (post_nodes i) in
  let ents := sort_by e_addr (post_ents i) in
  if negb (fst (should_elect (i_base i) (i_epoch i) (i_changed i) (post_slashed i))) then ESkip else
  match elect_validators_t (i_params i) ents (i_epoch i) nodes (i_perm_e i) (i_perm_n i) (i_vrf i) with
  | VErrPower => EErr 1
  | VErrNone => EErr 2
  | VErrInsufficient => EErr 3
  | VOk vals vents =>
      EOk vals
          (sort_by fst (diff_validators (i_current i) (powers_of vals)))
          (elect_committees (i_fv261 i) (i_params i) ents vents (i_epoch i)
             (committee_nodes i nodes) (vrf_blocked i) (i_rts i) (committee_srcs i))
  end.

(* ---------- comparison of outputs (for the correspondence files) ---------- *)
Definition vinfo_eqb (a b : N * vinfo) : bool :=
  let '(k, (i, e, w)) := a in let '(k', (i', e', w')) := b in
  (k =? k') && (i =? i') && (e =? e') && (w =? w').
Definition pair_eqb (a b : N * N) : bool := (fst a =? fst b) && (snd a =? snd b).
Definition ocomm_eqb (a b : N * option committee) : bool :=
  (fst a =? fst b) &&
  match snd a, snd b with
  | None, None => true
  | Some x, Some y => list_eqb pair_eqb x y
  | _, _ => false
  end.
Definition out_eqb (a b : epoch_out) : bool :=
  match a, b with
  | EErr x, EErr y => x =? y
  | ESkip, ESkip => true
  | EOk v u c, EOk v' u' c' =>
      list_eqb vinfo_eqb v v' && list_eqb pair_eqb u u' && list_eqb ocomm_eqb c c'
  | _, _ => false
  end.
