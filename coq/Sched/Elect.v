(* Executable port of the scheduler elections of oasis-core
   (go/consensus/cometbft/apps/scheduler/{scheduler.go,shuffle.go}).
   Definitions only; proofs are in ElectSpec.v / ElectProofs.v.

   Identifiers (node id, consensus key, entity staking address, runtime id)
   are the big-endian numeric values of the fixed-length byte strings, so
   [bytes.Compare] order = numeric order.  The DRBG / math.rand shuffles are
   abstract: every shuffle is an explicit index list [p] with
   shuffled[i] = original[p[i]] (what rng.Perm / rng.Shuffle produce); the
   theorems quantify over all of them.  Only the entropy (non-VRF) election
   path and non-TEE runtimes are ported. *)
From Verif Require Import Lib.Base.

(* ---------- inputs ---------- *)
Record node := mkNode {
  n_id : N;                       (* node.ID *)
  n_ent : N;                      (* staking.NewAddress(node.EntityID) *)
  n_cons : N;                     (* node.Consensus.ID *)
  n_roles : N;                    (* node.Roles bitmask: bit 0 compute, bit 3 validator *)
  n_exp : N;                      (* node.Expiration *)
  n_freeze : N;                   (* NodeStatus.FreezeEndTime *)
  n_rts : list (N * N * bool);    (* node.Runtimes: (runtime id, Version.ToU64, Capabilities.TEE != nil) *)
  n_faults : list (N * N)         (* NodeStatus.Faults: runtime id -> SuspendedUntil *)
}.

Record entity := mkEnt {
  e_addr : N;                     (* staking address *)
  e_escrow : N;                   (* Escrow.Active.Balance *)
  e_claims : list N               (* values of all thresholds of all stake claims *)
}.

Record params := mkParams {
  p_min : N;                      (* MinValidators *)
  p_max : N;                      (* MaxValidators *)
  p_per : N;                      (* MaxValidatorsPerEntity *)
  p_bypass : bool;                (* DebugBypassStake *)
  p_sqrt : bool                   (* VotingPowerDistribution == Sqrt *)
}.

Record constr := mkCs {
  c_vset : bool;                  (* ValidatorSet != nil *)
  c_max : option N;               (* MaxNodes.Limit *)
  c_min : option N                (* MinPoolSize.Limit *)
}.

Record runtime := mkRt {
  r_id : N;
  r_compute : bool;               (* Kind == KindCompute *)
  r_suspended : bool;             (* stored under the suspended prefix: not returned by Runtimes() *)
  r_gsize : N;                    (* Executor.GroupSize *)
  r_bsize : N;                    (* Executor.GroupBackupSize *)
  r_deps : list (N * N);          (* Deployments: (Version.ToU64, ValidFrom) *)
  r_cw : constr;                  (* Constraints[executor][worker] *)
  r_cb : constr                   (* Constraints[executor][backup] *)
}.

Definition ROLE_COMPUTE : N := 0.   (* bit index of node.RoleComputeWorker *)
Definition ROLE_VALIDATOR : N := 3. (* bit index of node.RoleValidator *)
Definition has_role (bit : N) (n : node) : bool := N.testbit (n_roles n) bit.

(* ---------- generic helpers ---------- *)
Definition len {A} (l : list A) : N := N.of_nat (length l).

Fixpoint sum (l : list N) : N := match l with [] => 0 | x :: r => x + sum r end.

Definition memN (x : N) (l : list N) : bool := existsb (N.eqb x) l.

(* stable insertion sort, ascending by [key] *)
Section SortBy.
  Context {A : Type} (key : A -> N).
  Fixpoint insert_by (x : A) (l : list A) : list A :=
    match l with
    | [] => [x]
    | y :: r => if key x <=? key y then x :: l else y :: insert_by x r
    end.
  Definition sort_by (l : list A) : list A := fold_right insert_by [] l.

  (* stable insertion sort, DESCENDING by [key]: sort.SliceStable with
     less(i,j) = key i > key j (scheduler.go:646-652) *)
  Fixpoint insert_desc (x : A) (l : list A) : list A :=
    match l with
    | [] => [x]
    | y :: r => if key y <=? key x then x :: l else y :: insert_desc x r
    end.
  Definition sort_desc (l : list A) : list A := fold_right insert_desc [] l.
End SortBy.

(* sorted set of numbers (map keys collected and sorted, scheduler.go:619-620) *)
Fixpoint uinsert (x : N) (l : list N) : list N :=
  match l with
  | [] => [x]
  | y :: r => if x <? y then x :: l else if x =? y then l else y :: uinsert x r
  end.
Definition usort (l : list N) : list N := fold_right uinsert [] l.

(* shuffled[i] = l[p[i]]  (shuffle.go:103-113; rng.Shuffle likewise).
   Indices out of range (never produced by a permutation) are dropped. *)
Definition apply_perm {A} (p : list N) (l : list A) : list A :=
  flat_map (fun i => match nth_error l (N.to_nat i) with Some x => [x] | None => [] end) p.

(* ---------- staking view ---------- *)
Definition find_ent (ents : list entity) (a : N) : option entity :=
  find (fun e => e_addr e =? a) ents.
(* StakeAccumulatorCache.GetEscrowBalance; a missing account is the empty account *)
Definition escrow_of (ents : list entity) (a : N) : N :=
  match find_ent ents a with Some e => e_escrow e | None => 0 end.
(* EscrowAccount.CheckStakeClaims (staking/api/api.go:1082-1091):
   Active.Balance >= sum of all claim thresholds *)
Definition stake_ok (ents : list entity) (a : N) : bool :=
  match find_ent ents a with Some e => sum (e_claims e) <=? e_escrow e | None => true end.

(* scheduler/api/api.go:300-333, BaseUnitsPerVotingPower = 16.  None = error. *)
Definition BASE_UNITS_PER_POWER : N := 16.
Definition voting_power (sqrt : bool) (stake : N) : option N :=
  let q := if sqrt then stake else stake / BASE_UNITS_PER_POWER in
  if q =? 0 then Some 1
  else let pw := if sqrt then N.sqrt q else q in
       if pw <? 2 ^ 63 then Some pw else None.

(* ---------- node filtering (scheduler.go:212-236) ---------- *)
Definition live (epoch : N) (n : node) : bool :=
  (n_freeze n =? 0) && negb (n_exp n <? epoch).
(* regState.Nodes returns the nodes sorted by ID (registry state.go:250) *)
Definition live_nodes (epoch : N) (nodes : list node) : list node :=
  filter (live epoch) (sort_by n_id nodes).

(* ---------- validator election (scheduler.go:505-616) ---------- *)
Definition is_vcand (p : params) (ents : list entity) (n : node) : bool :=
  has_role ROLE_VALIDATOR n && (p_bypass p || stake_ok ents (n_ent n)).
Definition vcands (p : params) (ents : list entity) (epoch : N) (nodes : list node) : list node :=
  filter (is_vcand p ents) (live_nodes epoch nodes).

(* stakingAddressMapToSliceByStake (scheduler.go:610-644) *)
Definition by_stake (p : params) (ents : list entity) (perm_e : list N) (cands : list node) : list N :=
  let sh := apply_perm perm_e (usort (map n_ent cands)) in
  if p_bypass p then sh else sort_desc (escrow_of ents) sh.

(* entityNodesMap[e][0 : MaxValidatorsPerEntity] *)
Definition picks (p : params) (shuffled : list node) (e : N) : list node :=
  firstn (N.to_nat (p_per p)) (filter (fun n => n_ent n =? e) shuffled).

Definition cand_seq (p : params) (ents : list entity) (perm_e perm_n : list N) (cands : list node) : list node :=
  flat_map (picks p (apply_perm perm_n cands)) (by_stake p ents perm_e cands).

Definition vinfo := (N * N * N)%type.          (* node id, entity, voting power *)
Definition vmap := list (N * vinfo).           (* keyed by consensus key *)

Definition node_power (p : params) (ents : list entity) (n : node) : option N :=
  if p_bypass p then Some 1 else voting_power (p_sqrt p) (escrow_of ents (n_ent n)).

(* the electLoop (scheduler.go:553-598), flattened: insert, then
   `if len(newValidators) >= MaxValidators { break electLoop }`.
   None = voting power error. *)
Fixpoint fill (p : params) (ents : list entity) (cs : list node) (acc : vmap) (ve : list N)
  : option (vmap * list N) :=
  match cs with
  | [] => Some (acc, ve)
  | n :: r =>
      match node_power p ents n with
      | None => None
      | Some pw =>
          let acc' := aset (n_cons n) (n_id n, n_ent n, pw) acc in
          let ve' := n_ent n :: ve in
          if p_max p <=? len acc' then Some (acc', ve') else fill p ents r acc' ve'
      end
  end.

Inductive vres :=
| VOk (vals : vmap) (vents : list N)   (* vals sorted by consensus key; vents = validatorEntities *)
| VErrPower                            (* VotingPowerFromStake failed *)
| VErrNone                             (* "failed to elect any validators" *)
| VErrInsufficient.                    (* "insufficient validators" *)

Definition elect_validators (p : params) (ents : list entity) (epoch : N) (nodes : list node)
  (perm_e perm_n : list N) : vres :=
  let cands := vcands p ents epoch nodes in
  match fill p ents (cand_seq p ents perm_e perm_n cands) [] [] with
  | None => VErrPower
  | Some (acc, ve) =>
      if len acc =? 0 then VErrNone
      else if len acc <? p_min p then VErrInsufficient
      else VOk (sort_by fst acc) ve
  end.

(* ---------- validator diff (scheduler.go:361-392) and its application ---------- *)
Definition pmap := list (N * N).   (* consensus key -> voting power *)

Definition diff_validators (current pending : pmap) : list (N * N) :=
  map (fun kv => (fst kv, 0))
      (filter (fun kv => match aget (fst kv) pending with None => true | Some _ => false end) current)
  ++ filter (fun kv => match aget (fst kv) current with
                       | Some pw => negb (pw =? snd kv)
                       | None => true
                       end) pending.

(* what CometBFT does with an update list: power 0 removes, otherwise upsert *)
Definition apply_update (m : pmap) (u : N * N) : pmap :=
  if snd u =? 0 then adel (fst u) m else aset (fst u) (snd u) m.
Definition apply_updates (m : pmap) (us : list (N * N)) : pmap := fold_left apply_update us m.

Definition powers_of (v : vmap) : pmap := map (fun kv => (fst kv, snd (snd kv))) v.

(* ---------- committee election (shuffle.go:116-520), entropy path ---------- *)
(* Runtime.ActiveDeployment (registry/api/runtime.go:483-500) *)
Definition active_deployment (epoch : N) (deps : list (N * N)) : option (N * N) :=
  fold_left (fun acc d =>
               if epoch <? snd d then acc
               else match acc with
                    | None => Some d
                    | Some a => if snd a <? snd d then Some d else acc
                    end) deps None.

(* NodeStatus.IsSuspended (registry/api/status.go:86-98) *)
Definition suspended (epoch rt_id : N) (n : node) : bool :=
  negb (n_freeze n =? 0) ||
  match aget rt_id (n_faults n) with
  | Some u => (0 <? u) && (epoch <? u)
  | None => false
  end.

(* the loop of isSuitableExecutorWorker (scheduler.go:413-458) for a runtime
   without TEE hardware: the first entry with matching id and version decides *)
Fixpoint suitable_rts (rt_id ver : N) (susp : bool) (rts : list (N * N * bool)) : bool :=
  match rts with
  | [] => false
  | (id, v, tee) :: r =>
      if (id =? rt_id) && (v =? ver) then (if susp then false else negb tee)
      else suitable_rts rt_id ver susp r
  end.

Definition suitable (epoch : N) (rt : runtime) (n : node) : bool :=
  has_role ROLE_COMPUTE n &&
  match active_deployment epoch (r_deps rt) with
  | None => false
  | Some (ver, _) => suitable_rts (r_id rt) ver (suspended epoch (r_id rt) n) (n_rts n)
  end.

(* pre-election eligibility for one role (shuffle.go:273-330) *)
Definition role_eligible (p : params) (ents : list entity) (vents : list N) (epoch : N)
  (rt : runtime) (cs : constr) (n : node) : bool :=
  (p_bypass p || stake_ok ents (n_ent n)) && suitable epoch rt n &&
  (negb (c_vset cs) || memN (n_ent n) vents).

Definition cnt_of (k : N) (m : list (N * N)) : N := match aget k m with Some c => c | None => 0 end.

(* dedupEntityNodesTrivial (shuffle.go:685-700) *)
Fixpoint dedup (lim : N) (seen : list (N * N)) (nodes : list node) : list node :=
  match nodes with
  | [] => []
  | n :: r =>
      let c := cnt_of (n_ent n) seen in
      if lim <=? c then dedup lim seen r
      else n :: dedup lim (aset (n_ent n) (c + 1) seen) r
  end.

Definition role_pool (p : params) (ents : list entity) (vents : list N) (epoch : N)
  (rt : runtime) (cs : constr) (cnodes : list node) : list node :=
  let pool0 := filter (role_eligible p ents vents epoch rt cs) cnodes in
  match c_max cs with
  | Some lim => if 0 <? lim then dedup lim [] pool0 else pool0
  | None => pool0
  end.

(* the election loop over the shuffled indexes (shuffle.go:448-483).
   None = "max nodes per committee exceeded" (no committee). *)
Fixpoint elect_loop (cs : constr) (wanted : N) (pool : list node) (idxs : list N)
  (elected : list node) (cnt : list (N * N)) : option (list node) :=
  match idxs with
  | [] => Some elected
  | i :: r =>
      if wanted <=? len elected then Some elected
      else match nth_error pool (N.to_nat i) with
           | None => elect_loop cs wanted pool r elected cnt
           | Some n =>
               match c_max cs with
               | Some lim =>
                   let c := cnt_of (n_ent n) cnt in
                   if lim <=? c then None
                   else elect_loop cs wanted pool r (elected ++ [n]) (aset (n_ent n) (c + 1) cnt)
               | None => elect_loop cs wanted pool r (elected ++ [n]) cnt
               end
           end
  end.

Definition min_pool (cs : constr) : N := match c_min cs with Some m => m | None => 0 end.

(* one role; [tbl] maps a pool length k to the index list rng.Perm(k) that
   the role's RNG yields (the RNG depends only on entropy, runtime and role).
   None = no committee. *)
Definition elect_role (p : params) (ents : list entity) (vents : list N) (epoch : N)
  (rt : runtime) (cs : constr) (wanted : N) (cnodes : list node) (tbl : list (list N))
  : option (list node) :=
  let pool := role_pool p ents vents epoch rt cs cnodes in
  let idxs := nth (length pool) tbl [] in
  if len pool <? min_pool cs then None
  else if len pool <? wanted then None
  else match elect_loop cs wanted pool idxs [] [] with
       | None => None
       | Some el => if len el =? wanted then Some el else None
       end.

Definition ROLE_WORKER : N := 1.
Definition ROLE_BACKUP : N := 2.
Definition committee := list (N * N).   (* (scheduler role, node id), workers first *)

(* electCommittee / electCommitteeMembers for KindComputeExecutor.
   None = no committee (dropped / never stored). *)
Definition elect_committee (fv261 : bool) (p : params) (ents : list entity) (vents : list N) (epoch : N)
  (rt : runtime) (cnodes : list node) (idx_w idx_b : list (list N)) : option committee :=
  if r_suspended rt then None
  else if fv261 && negb (r_compute rt) then None   (* shuffle.go:139-148, kind is always executor *)
  else if r_gsize rt =? 0 then None
  else match elect_role p ents vents epoch rt (r_cw rt) (r_gsize rt) cnodes idx_w with
       | None => None
       | Some w =>
           let wm := map (fun n => (ROLE_WORKER, n_id n)) w in
           if r_bsize rt =? 0 then Some wm
           else match elect_role p ents vents epoch rt (r_cb rt) (r_bsize rt) cnodes idx_b with
                | None => None
                | Some b => Some (wm ++ map (fun n => (ROLE_BACKUP, n_id n)) b)
                end
       end.

(* ---------- one epoch transition: elect + EndBlock ---------- *)
Record epoch_in := mkIn {
  i_params : params;
  i_ents : list entity;
  i_epoch : N;
  i_nodes : list node;
  i_rts : list runtime;
  i_perm_e : list (list N);                (* entity tie-break shuffle, by number of entities *)
  i_perm_n : list (list N);                (* validator node shuffle, by number of candidate nodes *)
  i_perm_c : list (list (list N) * list (list N));  (* per runtime: worker / backup index lists by pool size *)
  i_current : pmap;                        (* validator set held by the consensus engine *)
  i_fv261 : bool                           (* consensus feature version >= 26.1 *)
}.

Inductive epoch_out :=
| EOk (vals : vmap) (updates : list (N * N)) (comms : list (N * option committee))
| EErr (code : N).   (* 1 power, 2 none elected, 3 insufficient *)

Fixpoint elect_committees (fv261 : bool) (p : params) (ents : list entity) (vents : list N) (epoch : N)
  (cnodes : list node) (rts : list runtime) (perms : list (list (list N) * list (list N)))
  : list (N * option committee) :=
  match rts with
  | [] => []
  | rt :: r =>
      let pc := match perms with pc :: _ => pc | [] => ([], []) end in
      (r_id rt, elect_committee fv261 p ents vents epoch rt cnodes (fst pc) (snd pc))
        :: elect_committees fv261 p ents vents epoch cnodes r (tl perms)
  end.

(* the shuffles are selected by the length of the list being shuffled *)
Definition elect_validators_t (p : params) (ents : list entity) (epoch : N) (nodes : list node)
  (tbl_e tbl_n : list (list N)) : vres :=
  let cands := vcands p ents epoch nodes in
  elect_validators p ents epoch nodes
    (nth (length (usort (map n_ent cands))) tbl_e [])
    (nth (length cands) tbl_n []).

(* The registry and the staking ledger are key-value maps: the election sees
   the nodes ordered by ID and the accounts by address whatever the order in
   which they were written. *)
Definition run_epoch (i : epoch_in) : epoch_out :=
  let nodes := sort_by n_id (i_nodes i) in
  let ents := sort_by e_addr (i_ents i) in
  match elect_validators_t (i_params i) ents (i_epoch i) nodes (i_perm_e i) (i_perm_n i) with
  | VErrPower => EErr 1
  | VErrNone => EErr 2
  | VErrInsufficient => EErr 3
  | VOk vals vents =>
      EOk vals
          (sort_by fst (diff_validators (i_current i) (powers_of vals)))
          (elect_committees (i_fv261 i) (i_params i) ents vents (i_epoch i)
             (live_nodes (i_epoch i) nodes) (i_rts i) (i_perm_c i))
  end.

(* ---------- comparison of outputs (for the correspondence files) ---------- *)
Definition vinfo_eqb (a b : N * vinfo) : bool :=
  let '(k, (i, e, w)) := a in let '(k', (i', e', w')) := b in
  (k =? k') && (i =? i') && (e =? e') && (w =? w').
Definition pair_eqb (a b : N * N) : bool := (fst a =? fst b) && (snd a =? snd b).
Definition ocomm_eqb (a b : N * option committee) : bool :=
  (fst a =? fst b) &&
  match snd a, snd b with
  | None, None => true
  | Some x, Some y => list_eqb pair_eqb x y
  | _, _ => false
  end.
Definition out_eqb (a b : epoch_out) : bool :=
  match a, b with
  | EErr x, EErr y => x =? y
  | EOk v u c, EOk v' u' c' =>
      list_eqb vinfo_eqb v v' && list_eqb pair_eqb u u' && list_eqb ocomm_eqb c c'
  | _, _ => false
  end.
