(* C14 proofs, part 3: committee election. *)
From Verif Require Import Lib.Base Sched.Elect Sched.ElectSpec Sched.ElectLemmas Sched.ElectProofs.
From Coq Require Import Permutation.

Lemma dedup_sub lim : forall l seen n, In n (dedup lim seen l) -> In n l.
Proof.
  induction l as [|x r IH]; intros seen n; cbn [dedup]; [tauto|].
  destruct (lim <=? cnt_of (n_ent x) seen).
  - intros H. right. eapply IH. exact H.
  - intros [<-|H]; [left; reflexivity|right; eapply IH; exact H].
Qed.

Lemma role_pool_sub p ents vents epoch rt src cs cnodes n :
  In n (role_pool p ents vents epoch rt src cs cnodes) ->
  In n cnodes /\ role_eligible p ents vents epoch rt (src_haspi src) cs n = true.
Proof.
  unfold role_pool. intros H.
  assert (H0 : In n (filter (role_eligible p ents vents epoch rt (src_haspi src) cs) cnodes)).
  { destruct (c_max cs) as [lim|]; [|exact H].
    destruct (0 <? lim); [|exact H].
    destruct src as [tbl|db eb]; apply dedup_sub in H; [exact H|].
    apply vrf_sort_In in H. tauto. }
  apply filter_In in H0. exact H0.
Qed.

Lemma cnt_of_aset e k v m : cnt_of e (aset k v m) = if k =? e then v else cnt_of e m.
Proof.
  unfold cnt_of. destruct (k =? e) eqn:E.
  - apply N.eqb_eq in E. subst. rewrite aget_aset_same. reflexivity.
  - rewrite aget_aset_other by lia. reflexivity.
Qed.

Lemma elect_loop_sound cs wanted pool : forall idxs elected cnt el,
  elect_loop cs wanted pool idxs elected cnt = Some el ->
  (forall n, In n elected -> In n pool) ->
  (forall lim, c_max cs = Some lim ->
     forall e, cnt_of e cnt = count_node_ent e elected /\ count_node_ent e elected <= lim) ->
  (forall n, In n el -> In n pool) /\
  (forall lim, c_max cs = Some lim -> forall e, count_node_ent e el <= lim).
Proof.
  induction idxs as [|i r IH]; intros elected cnt el H Hsub Hcnt; cbn [elect_loop] in H.
  - injection H as <-. split; [exact Hsub|]. intros lim Hl e. apply (Hcnt lim Hl e).
  - destruct (wanted <=? len elected).
    { injection H as <-. split; [exact Hsub|]. intros lim Hl e. apply (Hcnt lim Hl e). }
    destruct (nth_error pool (N.to_nat i)) as [n|] eqn:En; [|eapply IH; eassumption].
    assert (Hn : In n pool) by (eapply nth_error_In; exact En).
    assert (Hsub' : forall m, In m (elected ++ [n]) -> In m pool).
    { intros m Hm. apply in_app_or in Hm. destruct Hm as [Hm|[<-|[]]]; [apply Hsub; exact Hm|exact Hn]. }
    destruct (c_max cs) as [lim|] eqn:Ec.
    + destruct (lim <=? cnt_of (n_ent n) cnt) eqn:El; [discriminate|].
      eapply IH; [exact H|exact Hsub'|].
      intros lim' [= <-] e. destruct (Hcnt lim eq_refl e) as [H1 H2].
      destruct (Hcnt lim eq_refl (n_ent n)) as [H3 _].
      rewrite cnt_of_aset, count_node_ent_app, count_node_ent_cons.
      change (count_node_ent e []) with 0.
      destruct (n_ent n =? e) eqn:E; cbn [ind].
      * assert (e = n_ent n) by lia. subst e. lia.
      * lia.
    + eapply IH; [exact H|exact Hsub'|]. intros lim' [=].
Qed.

Lemma elect_role_sound p ents vents epoch rt cs wanted cnodes src el :
  elect_role p ents vents epoch rt cs wanted cnodes src = Some el ->
  role_ok p ents vents epoch rt src cs wanted cnodes el.
Proof.
  unfold elect_role, role_ok.
  set (pool := role_pool p ents vents epoch rt src cs cnodes).
  destruct (len pool <? min_pool cs) eqn:E1; [discriminate|].
  destruct (len pool <? wanted) eqn:E2; [discriminate|].
  destruct (elect_loop cs wanted pool (role_idxs src pool) [] []) as [el'|] eqn:El; [|discriminate].
  destruct (len el' =? wanted) eqn:E3; [|discriminate]. intros [= <-].
  destruct (elect_loop_sound _ _ _ _ _ _ _ El) as [H1 H2].
  - intros n [].
  - intros lim _ e. unfold cnt_of, count_node_ent. cbn. split; [reflexivity|lia].
  - split; [lia|]. split; [|split; [exact H2|lia]].
    rewrite Forall_forall. intros n Hn. eapply role_pool_sub. apply H1. exact Hn.
Qed.

(* only eligible nodes, per-entity limit, exact sizes or no committee at all --
   for the entropy tables AND for VRF sortition with any beta hashing *)
Theorem committee_sound fv p ents vents epoch rt cnodes blocked sw sb ms :
  elect_committee fv p ents vents epoch rt cnodes blocked sw sb = Some ms ->
  committee_ok fv p ents vents epoch rt cnodes blocked sw sb ms.
Proof.
  unfold elect_committee, committee_ok.
  destruct (r_suspended rt); [discriminate|].
  destruct (fv && negb (r_compute rt)) eqn:Ek; [discriminate|].
  destruct blocked; [discriminate|].
  destruct (r_gsize rt =? 0) eqn:Eg; [discriminate|].
  destruct (elect_role p ents vents epoch rt (r_cw rt) (r_gsize rt) cnodes sw) as [w|] eqn:Ew; [|discriminate].
  apply elect_role_sound in Ew.
  intros H. split; [reflexivity|]. split; [intros ->; destruct (r_compute rt); [reflexivity|discriminate]|].
  split; [reflexivity|]. split; [lia|].
  destruct (r_bsize rt =? 0) eqn:Eb.
  - injection H as <-. exists w, []. cbn [map]. rewrite app_nil_r. split; [reflexivity|]. split; [exact Ew|reflexivity].
  - destruct (elect_role p ents vents epoch rt (r_cb rt) (r_bsize rt) cnodes sb) as [b|] eqn:Ebk; [|discriminate].
    apply elect_role_sound in Ebk. injection H as <-. exists w, b.
    split; [reflexivity|]. split; [exact Ew|exact Ebk].
Qed.

(* ---------- what eligibility means ---------- *)
Lemma suitable_rts_spec rt_id ver hw susp rts :
  suitable_rts rt_id ver hw susp rts = true ->
  exists tee, In (rt_id, ver, tee) rts /\ tee_ok hw tee = true /\ susp = false.
Proof.
  induction rts as [|[[id v] tee] r IH]; cbn [suitable_rts]; [discriminate|].
  destruct ((id =? rt_id) && (v =? ver)) eqn:E.
  - destruct susp; [discriminate|]. intros H. exists tee. split; [|split; [exact H|reflexivity]]. left.
    assert (id = rt_id) by lia. assert (v = ver) by lia. subst. reflexivity.
  - intros H. destruct (IH H) as [t [H1 H2]]. exists t. split; [right; exact H1|exact H2].
Qed.

(* a runtime without TEE hardware takes only nodes without a TEE capability; a
   TEE runtime only nodes with the same hardware and a verifying attestation *)
Lemma tee_ok_spec hw tee :
  tee_ok hw tee = true ->
  (hw = 0 /\ tee = None) \/ (hw <> 0 /\ tee = Some (hw, true)).
Proof.
  unfold tee_ok. destruct (hw =? 0) eqn:E.
  - destruct tee; [discriminate|]. intros _. left. split; [lia|reflexivity].
  - destruct tee as [[h v]|]; [|discriminate]. intros H. right. split; [lia|].
    assert (h = hw) by lia. subst. destruct v; [reflexivity|lia].
Qed.

Lemma role_eligible_spec p ents vents epoch rt haspi cs n :
  role_eligible p ents vents epoch rt haspi cs n = true ->
  (p_bypass p = true \/ stake_ok ents (n_ent n) = true) /\
  has_role ROLE_COMPUTE n = true /\
  (exists ver from tee, active_deployment epoch (r_deps rt) = Some (ver, from) /\
                        In (r_id rt, ver, tee) (n_rts n) /\ tee_ok (r_tee rt) tee = true) /\
  suspended epoch (r_id rt) n = false /\
  haspi n = true /\
  (c_vset cs = true -> In (n_ent n) vents).
Proof.
  unfold role_eligible, suitable. intros H.
  apply andb_true_iff in H. destruct H as [H Hv].
  apply andb_true_iff in H. destruct H as [H Hpi].
  apply andb_true_iff in H. destruct H as [Hs H].
  apply andb_true_iff in H. destruct H as [Hr H].
  split; [apply orb_true_iff; exact Hs|]. split; [exact Hr|].
  destruct (active_deployment epoch (r_deps rt)) as [[ver from]|] eqn:Ea; [|discriminate].
  apply suitable_rts_spec in H. destruct H as [tee [H1 [H2 H3]]].
  split; [exists ver, from, tee; split; [reflexivity|split; assumption]|]. split; [exact H3|].
  split; [exact Hpi|].
  intros Hc. rewrite Hc in Hv. cbn [negb orb] in Hv. unfold memN in Hv.
  apply existsb_exists in Hv. destruct Hv as [x [Hx Ex]]. assert (x = n_ent n) by lia. subst. exact Hx.
Qed.

(* every committee member is a registered, unexpired, unfrozen node with the
   compute role, a deployment of the active runtime version with the right TEE
   capability, not suspended, with a VRF proof when sortition is used, whose
   entity's escrow covers its claims and, under the validator-set constraint,
   whose entity is in the validator set *)
Theorem committee_members_eligible fv p ents vents epoch rt nodes cnodes blocked sw sb ms role id :
  (forall n, In n cnodes -> In n (live_nodes epoch nodes)) ->
  elect_committee fv p ents vents epoch rt cnodes blocked sw sb = Some ms ->
  In (role, id) ms ->
  exists n cs src,
    In n nodes /\ n_id n = id /\ n_freeze n = 0 /\ epoch <= n_exp n /\
    ((role = ROLE_WORKER /\ cs = r_cw rt /\ src = sw) \/ (role = ROLE_BACKUP /\ cs = r_cb rt /\ src = sb)) /\
    (p_bypass p = true \/ stake_ok ents (n_ent n) = true) /\
    has_role ROLE_COMPUTE n = true /\
    (exists ver from tee, active_deployment epoch (r_deps rt) = Some (ver, from) /\
                          In (r_id rt, ver, tee) (n_rts n) /\ tee_ok (r_tee rt) tee = true) /\
    suspended epoch (r_id rt) n = false /\
    src_haspi src n = true /\
    (c_vset cs = true -> In (n_ent n) vents).
Proof.
  intros Hsub H Hin. apply committee_sound in H.
  destruct H as [_ [_ [_ [_ [w [b [-> [Hw Hb]]]]]]]].
  assert (Hgen : forall src cs wanted el n,
             role_ok p ents vents epoch rt src cs wanted cnodes el -> In n el ->
             In n nodes /\ n_freeze n = 0 /\ epoch <= n_exp n /\
             role_eligible p ents vents epoch rt (src_haspi src) cs n = true).
  { intros src cs wanted el n [_ [Hall _]] Hn. rewrite Forall_forall in Hall.
    destruct (Hall n Hn) as [H1 H2]. apply Hsub in H1. apply live_nodes_spec in H1. destruct H1 as [H1 H3].
    apply live_spec in H3. tauto. }
  apply in_app_or in Hin. destruct Hin as [Hin|Hin]; apply in_map_iff in Hin; destruct Hin as [n [E Hn]];
    injection E as <- <-.
  - destruct (Hgen _ _ _ _ _ Hw Hn) as [H1 [H2 [H3 H4]]]. apply role_eligible_spec in H4.
    exists n, (r_cw rt), sw. repeat split; tauto.
  - destruct (r_bsize rt =? 0); [subst b; contradiction|].
    destruct (Hgen _ _ _ _ _ Hb Hn) as [H1 [H2 [H3 H4]]]. apply role_eligible_spec in H4.
    exists n, (r_cb rt), sb. repeat split; tauto.
Qed.

Lemma committee_nodes_live i nodes n :
  In n (committee_nodes i nodes) -> In n (live_nodes (i_epoch i) nodes).
Proof.
  unfold committee_nodes. destruct (i_vrf i) as [v|]; [|tauto].
  destruct (v_weak v); [tauto|]. rewrite filter_In. tauto.
Qed.

(* ---------- the boolean committee checker ---------- *)
Lemma lookup_all_In ids l : forall ns, lookup_all ids l = Some ns -> Forall (fun n => In n l) ns.
Proof.
  induction ids as [|id r IH]; intros ns; cbn [lookup_all].
  - intros [= <-]. constructor.
  - unfold find_node. destruct (find (fun n => n_id n =? id) l) as [n|] eqn:Ef; [|discriminate].
    destruct (lookup_all r l) as [ns'|]; [|discriminate]. intros [= <-].
    constructor; [|apply IH; reflexivity]. apply find_some in Ef. tauto.
Qed.

Lemma count_node_zero_or_in e el :
  count_node_ent e el = 0 \/ exists n, In n el /\ n_ent n = e.
Proof.
  unfold count_node_ent. destruct (filter (fun n => n_ent n =? e) el) as [|n r] eqn:E.
  - left. reflexivity.
  - right. exists n. assert (H : In n (filter (fun n => n_ent n =? e) el)) by (rewrite E; left; reflexivity).
    apply filter_In in H. destruct H as [H1 H2]. split; [exact H1|lia].
Qed.

Lemma role_ok_b_sound p ents vents epoch rt src cs wanted cnodes el :
  Forall (fun n => In n cnodes) el ->
  role_ok_b p ents vents epoch rt src cs wanted cnodes el = true ->
  role_ok p ents vents epoch rt src cs wanted cnodes el.
Proof.
  unfold role_ok_b, role_ok. intros Hin H.
  apply andb_true_iff in H. destruct H as [H Hmin].
  apply andb_true_iff in H. destruct H as [H Hmax].
  apply andb_true_iff in H. destruct H as [Hlen Hel].
  split; [lia|]. split; [|split; [|lia]].
  - rewrite Forall_forall in *. intros n Hn. split; [apply Hin; exact Hn|].
    rewrite forallb_forall in Hel. apply Hel. exact Hn.
  - intros lim Hl e. rewrite Hl in Hmax.
    destruct (count_node_zero_or_in e el) as [->|[n [Hn <-]]]; [lia|].
    rewrite forallb_forall in Hmax. specialize (Hmax n Hn). lia.
Qed.

Lemma list_eqb_pair_eq' (a b : list (N * N)) : list_eqb pair_eqb a b = true -> a = b.
Proof.
  revert b. induction a as [|[x y] a IH]; intros [|[x' y'] b]; cbn [list_eqb]; try discriminate; [reflexivity|].
  intros H. apply andb_true_iff in H. destruct H as [H1 H2]. unfold pair_eqb in H1. cbn [fst snd] in H1.
  rewrite (IH _ H2). f_equal. f_equal; lia.
Qed.

(* whatever committee passes the checker satisfies the relational statement *)
Theorem committee_ok_b_sound fv p ents vents epoch rt cnodes blocked sw sb ms :
  committee_ok_b fv p ents vents epoch rt cnodes blocked sw sb ms = true ->
  committee_ok fv p ents vents epoch rt cnodes blocked sw sb ms.
Proof.
  unfold committee_ok_b, committee_ok. intros H.
  apply andb_true_iff in H. destruct H as [H Hm].
  apply andb_true_iff in H. destruct H as [H Hg].
  apply andb_true_iff in H. destruct H as [H Hb].
  apply andb_true_iff in H. destruct H as [Hs Hc].
  split; [destruct (r_suspended rt); [discriminate|reflexivity]|].
  split; [intros ->; cbn [negb orb] in Hc; exact Hc|].
  split; [destruct blocked; [discriminate|reflexivity]|]. split; [lia|].
  destruct (lookup_all (map snd (filter (fun m => fst m =? ROLE_WORKER) ms)) cnodes) as [w|] eqn:Ew; [|discriminate].
  destruct (lookup_all (map snd (filter (fun m => fst m =? ROLE_BACKUP) ms)) cnodes) as [b|] eqn:Eb; [|discriminate].
  apply lookup_all_In in Ew. apply lookup_all_In in Eb.
  apply andb_true_iff in Hm. destruct Hm as [Hm Hbk].
  apply andb_true_iff in Hm. destruct Hm as [Heq Hw].
  exists w, b. split; [apply list_eqb_pair_eq'; exact Heq|].
  split; [apply role_ok_b_sound; assumption|].
  destruct (r_bsize rt =? 0).
  - destruct b; [reflexivity|]. rewrite len_cons in Hbk. lia.
  - apply role_ok_b_sound; assumption.
Qed.

Theorem comms_ok_b_sound fv p ents vents epoch cnodes blocked : forall rts srcs outs,
  comms_ok_b fv p ents vents epoch cnodes blocked rts srcs outs = true ->
  comms_ok fv p ents vents epoch cnodes blocked rts srcs outs.
Proof.
  induction rts as [|rt r IH]; intros srcs [|[id oc] o]; cbn [comms_ok_b comms_ok]; try discriminate; [tauto|].
  intros H. apply andb_true_iff in H. destruct H as [H Hr].
  apply andb_true_iff in H. destruct H as [Hid Hc].
  split; [lia|]. split; [|apply IH; exact Hr].
  destruct oc as [ms|]; [|exact I]. apply committee_ok_b_sound. exact Hc.
Qed.
