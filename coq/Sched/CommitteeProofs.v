(* C14 proofs, part 3: committee election. *)
From Verif Require Import Lib.Base Sched.Elect Sched.ElectSpec Sched.ElectLemmas Sched.ElectProofs.
From Coq Require Import Permutation.

Lemma dedup_sub lim : forall l seen n, In n (dedup lim seen l) -> In n l.
Proof.
  induction l as [|x r IH]; intros seen n; cbn [dedup]; [tauto|].
  destruct (lim <=? cnt_of (n_ent x) seen).
  - intros H. right. eapply IH. exact H.
  - intros [<-|H]; [left; reflexivity|right; eapply IH; exact H].
Qed.

Lemma role_pool_sub p ents vents epoch rt cs cnodes n :
  In n (role_pool p ents vents epoch rt cs cnodes) ->
  In n cnodes /\ role_eligible p ents vents epoch rt cs n = true.
Proof.
  unfold role_pool. intros H.
  assert (H0 : In n (filter (role_eligible p ents vents epoch rt cs) cnodes)).
  { destruct (c_max cs) as [lim|]; [|exact H].
    destruct (0 <? lim); [eapply dedup_sub; exact H|exact H]. }
  apply filter_In in H0. exact H0.
Qed.

Lemma cnt_of_aset e k v m : cnt_of e (aset k v m) = if k =? e then v else cnt_of e m.
Proof.
  unfold cnt_of. destruct (k =? e) eqn:E.
  - apply N.eqb_eq in E. subst. rewrite aget_aset_same. reflexivity.
  - rewrite aget_aset_other by lia. reflexivity.
Qed.

Lemma elect_loop_sound cs wanted pool : forall idxs elected cnt el,
  elect_loop cs wanted pool idxs elected cnt = Some el ->
  (forall n, In n elected -> In n pool) ->
  (forall lim, c_max cs = Some lim ->
     forall e, cnt_of e cnt = count_node_ent e elected /\ count_node_ent e elected <= lim) ->
  (forall n, In n el -> In n pool) /\
  (forall lim, c_max cs = Some lim -> forall e, count_node_ent e el <= lim).
Proof.
  induction idxs as [|i r IH]; intros elected cnt el H Hsub Hcnt; cbn [elect_loop] in H.
  - injection H as <-. split; [exact Hsub|]. intros lim Hl e. apply (Hcnt lim Hl e).
  - destruct (wanted <=? len elected).
    { injection H as <-. split; [exact Hsub|]. intros lim Hl e. apply (Hcnt lim Hl e). }
    destruct (nth_error pool (N.to_nat i)) as [n|] eqn:En; [|eapply IH; eassumption].
    assert (Hn : In n pool) by (eapply nth_error_In; exact En).
    assert (Hsub' : forall m, In m (elected ++ [n]) -> In m pool).
    { intros m Hm. apply in_app_or in Hm. destruct Hm as [Hm|[<-|[]]]; [apply Hsub; exact Hm|exact Hn]. }
    destruct (c_max cs) as [lim|] eqn:Ec.
    + destruct (lim <=? cnt_of (n_ent n) cnt) eqn:El; [discriminate|].
      eapply IH; [exact H|exact Hsub'|].
      intros lim' [= <-] e. destruct (Hcnt lim eq_refl e) as [H1 H2].
      destruct (Hcnt lim eq_refl (n_ent n)) as [H3 _].
      rewrite cnt_of_aset, count_node_ent_app, count_node_ent_cons.
      change (count_node_ent e []) with 0.
      destruct (n_ent n =? e) eqn:E; cbn [ind].
      * assert (e = n_ent n) by lia. subst e. lia.
      * lia.
    + eapply IH; [exact H|exact Hsub'|]. intros lim' [=].
Qed.

Lemma elect_role_sound p ents vents epoch rt cs wanted cnodes tbl el :
  elect_role p ents vents epoch rt cs wanted cnodes tbl = Some el ->
  role_ok p ents vents epoch rt cs wanted cnodes el.
Proof.
  unfold elect_role, role_ok.
  set (pool := role_pool p ents vents epoch rt cs cnodes).
  destruct (len pool <? min_pool cs) eqn:E1; [discriminate|].
  destruct (len pool <? wanted) eqn:E2; [discriminate|].
  destruct (elect_loop cs wanted pool (nth (length pool) tbl []) [] []) as [el'|] eqn:El; [|discriminate].
  destruct (len el' =? wanted) eqn:E3; [|discriminate]. intros [= <-].
  destruct (elect_loop_sound _ _ _ _ _ _ _ El) as [H1 H2].
  - intros n [].
  - intros lim _ e. unfold cnt_of, count_node_ent. cbn. split; [reflexivity|lia].
  - split; [lia|]. split; [|split; [exact H2|lia]].
    rewrite Forall_forall. intros n Hn. eapply role_pool_sub. apply H1. exact Hn.
Qed.

(* only eligible nodes, per-entity limit, exact sizes or no committee at all *)
Theorem committee_sound fv p ents vents epoch rt cnodes tw tb ms :
  elect_committee fv p ents vents epoch rt cnodes tw tb = Some ms ->
  committee_ok fv p ents vents epoch rt cnodes ms.
Proof.
  unfold elect_committee, committee_ok.
  destruct (r_suspended rt); [discriminate|].
  destruct (fv && negb (r_compute rt)) eqn:Ek; [discriminate|].
  destruct (r_gsize rt =? 0) eqn:Eg; [discriminate|].
  destruct (elect_role p ents vents epoch rt (r_cw rt) (r_gsize rt) cnodes tw) as [w|] eqn:Ew; [|discriminate].
  apply elect_role_sound in Ew.
  intros H. split; [reflexivity|]. split; [intros ->; destruct (r_compute rt); [reflexivity|discriminate]|].
  split; [lia|].
  destruct (r_bsize rt =? 0) eqn:Eb.
  - injection H as <-. exists w, []. cbn [map]. rewrite app_nil_r. split; [reflexivity|]. split; [exact Ew|reflexivity].
  - destruct (elect_role p ents vents epoch rt (r_cb rt) (r_bsize rt) cnodes tb) as [b|] eqn:Ebk; [|discriminate].
    apply elect_role_sound in Ebk. injection H as <-. exists w, b.
    split; [reflexivity|]. split; [exact Ew|exact Ebk].
Qed.

(* ---------- what eligibility means ---------- *)
Lemma suitable_rts_spec rt_id ver susp rts :
  suitable_rts rt_id ver susp rts = true -> In (rt_id, ver, false) rts /\ susp = false.
Proof.
  induction rts as [|[[id v] tee] r IH]; cbn [suitable_rts]; [discriminate|].
  destruct ((id =? rt_id) && (v =? ver)) eqn:E.
  - destruct susp; [discriminate|]. intros H. split; [|reflexivity]. left.
    assert (id = rt_id) by lia. assert (v = ver) by lia. subst. destruct tee; [discriminate|reflexivity].
  - intros H. destruct (IH H) as [H1 H2]. split; [right; exact H1|exact H2].
Qed.

Lemma role_eligible_spec p ents vents epoch rt cs n :
  role_eligible p ents vents epoch rt cs n = true ->
  (p_bypass p = true \/ stake_ok ents (n_ent n) = true) /\
  has_role ROLE_COMPUTE n = true /\
  (exists ver from, active_deployment epoch (r_deps rt) = Some (ver, from) /\
                    In (r_id rt, ver, false) (n_rts n)) /\
  suspended epoch (r_id rt) n = false /\
  (c_vset cs = true -> In (n_ent n) vents).
Proof.
  unfold role_eligible, suitable. intros H.
  apply andb_true_iff in H. destruct H as [H Hv].
  apply andb_true_iff in H. destruct H as [Hs H].
  apply andb_true_iff in H. destruct H as [Hr H].
  split; [apply orb_true_iff; exact Hs|]. split; [exact Hr|].
  destruct (active_deployment epoch (r_deps rt)) as [[ver from]|] eqn:Ea; [|discriminate].
  apply suitable_rts_spec in H. destruct H as [H1 H2].
  split; [exists ver, from; split; [reflexivity|exact H1]|]. split; [exact H2|].
  intros Hc. rewrite Hc in Hv. cbn [negb orb] in Hv. unfold memN in Hv.
  apply existsb_exists in Hv. destruct Hv as [x [Hx Ex]]. assert (x = n_ent n) by lia. subst. exact Hx.
Qed.

(* every committee member is a registered, unexpired, unfrozen node with the
   compute role, a deployment of the active runtime version, not suspended,
   whose entity's escrow covers its claims and, under the validator-set
   constraint, whose entity is in the validator set *)
Theorem committee_members_eligible fv p ents vents epoch rt nodes tw tb ms role id :
  elect_committee fv p ents vents epoch rt (live_nodes epoch nodes) tw tb = Some ms ->
  In (role, id) ms ->
  exists n cs,
    In n nodes /\ n_id n = id /\ n_freeze n = 0 /\ epoch <= n_exp n /\
    ((role = ROLE_WORKER /\ cs = r_cw rt) \/ (role = ROLE_BACKUP /\ cs = r_cb rt)) /\
    (p_bypass p = true \/ stake_ok ents (n_ent n) = true) /\
    has_role ROLE_COMPUTE n = true /\
    (exists ver from, active_deployment epoch (r_deps rt) = Some (ver, from) /\
                      In (r_id rt, ver, false) (n_rts n)) /\
    suspended epoch (r_id rt) n = false /\
    (c_vset cs = true -> In (n_ent n) vents).
Proof.
  intros H Hin. apply committee_sound in H.
  destruct H as [_ [_ [_ [w [b [-> [Hw Hb]]]]]]].
  assert (Hgen : forall cs wanted el n,
             role_ok p ents vents epoch rt cs wanted (live_nodes epoch nodes) el -> In n el ->
             In n nodes /\ n_freeze n = 0 /\ epoch <= n_exp n /\
             role_eligible p ents vents epoch rt cs n = true).
  { intros cs wanted el n [_ [Hall _]] Hn. rewrite Forall_forall in Hall.
    destruct (Hall n Hn) as [H1 H2]. apply live_nodes_spec in H1. destruct H1 as [H1 H3].
    apply live_spec in H3. tauto. }
  apply in_app_or in Hin. destruct Hin as [Hin|Hin]; apply in_map_iff in Hin; destruct Hin as [n [E Hn]];
    injection E as <- <-.
  - destruct (Hgen _ _ _ _ Hw Hn) as [H1 [H2 [H3 H4]]]. apply role_eligible_spec in H4.
    exists n, (r_cw rt). repeat split; tauto.
  - destruct (r_bsize rt =? 0); [subst b; contradiction|].
    destruct (Hgen _ _ _ _ Hb Hn) as [H1 [H2 [H3 H4]]]. apply role_eligible_spec in H4.
    exists n, (r_cb rt). repeat split; tauto.
Qed.
