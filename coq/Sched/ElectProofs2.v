(* C14 proofs, part 2: descending-stake order, determinism, validator diff. *)
From Verif Require Import Lib.Base Sched.Elect Sched.ElectSpec Sched.ElectLemmas Sched.ElectProofs.
From Coq Require Import Permutation Sorting.Sorted.

(* ---------- NoDup helpers ---------- *)
Lemma nodup_app {A} (a b : list A) :
  NoDup a -> NoDup b -> (forall x, In x a -> ~ In x b) -> NoDup (a ++ b).
Proof.
  induction a as [|x r IH]; cbn [app]; intros Ha Hb Hd; [exact Hb|].
  inversion Ha as [|? ? Hx Hr]; subst. constructor.
  - intros Hin. apply in_app_or in Hin. destruct Hin as [Hin|Hin]; [tauto|].
    apply (Hd x); [left; reflexivity|exact Hin].
  - apply IH; [exact Hr|exact Hb|]. intros y Hy. apply Hd. right. exact Hy.
Qed.
Lemma nodup_map_filter {A B} (f : A -> B) (g : A -> bool) l :
  NoDup (map f l) -> NoDup (map f (filter g l)).
Proof.
  induction l as [|x r IH]; cbn [map filter]; intros H; [constructor|].
  inversion H as [|? ? Hx Hr]; subst. destruct (g x); [|apply IH; exact Hr].
  cbn [map]. constructor; [|apply IH; exact Hr].
  intros Hin. apply Hx. apply in_map_iff in Hin. destruct Hin as [y [Hy Hin]].
  apply filter_In in Hin. rewrite <- Hy. apply in_map. tauto.
Qed.
Lemma nodup_map_firstn {A B} (f : A -> B) k l :
  NoDup (map f l) -> NoDup (map f (firstn k l)).
Proof.
  revert l. induction k as [|k IH]; intros [|x r]; cbn [firstn map]; intros H; try constructor.
  - inversion H as [|? ? Hx Hr]; subst. intros Hin. apply Hx.
    apply in_map_iff in Hin. destruct Hin as [y [Hy Hin]]. apply In_firstn_own in Hin.
    rewrite <- Hy. apply in_map. exact Hin.
  - inversion H; subst. apply IH. assumption.
Qed.
Lemma app_eq_app_own {A} (a b c d : list A) :
  a ++ b = c ++ d ->
  exists l, (a = c ++ l /\ d = l ++ b) \/ (c = a ++ l /\ b = l ++ d).
Proof.
  revert c. induction a as [|x a IH]; intros c H; cbn [app] in H.
  - exists c. right. split; [reflexivity|exact H].
  - destruct c as [|y c]; cbn [app] in H.
    + exists (x :: a). left. split; [reflexivity|]. rewrite <- H. reflexivity.
    + injection H as -> H. destruct (IH c H) as [l [[-> ->]|[-> ->]]].
      * exists l. left. split; reflexivity.
      * exists l. right. split; reflexivity.
Qed.

(* ---------- the loop keeps what it has processed ---------- *)
Lemma fill_keeps p ents cs : forall acc ve acc' ve',
  NoDup (map n_cons cs) ->
  fill p ents cs acc ve = Some (acc', ve') ->
  exists cs1 cs2,
    cs = cs1 ++ cs2 /\ ve' = rev (map n_ent cs1) ++ ve /\
    (forall n, In n cs1 -> exists pw, In (n_cons n, (n_id n, n_ent n, pw)) acc') /\
    (forall kv, In kv acc -> ~ In (fst kv) (map n_cons cs) -> In kv acc') /\
    (forall kv, In kv acc' ->
       In kv acc \/ exists n pw, In n cs1 /\ kv = (n_cons n, (n_id n, n_ent n, pw))).
Proof.
  induction cs as [|n r IH]; intros acc ve acc' ve' Hnd Hf; cbn [fill] in Hf.
  - injection Hf as <- <-. exists [], []. cbn. repeat split; try tauto.
  - cbn [map] in Hnd. inversion Hnd as [|? ? Hk Hr]; subst.
    destruct (node_power p ents n) as [pw|] eqn:Epw; [|discriminate].
    set (acc1 := aset (n_cons n) (n_id n, n_ent n, pw) acc) in *.
    assert (Hhead : In (n_cons n, (n_id n, n_ent n, pw)) acc1) by (left; reflexivity).
    assert (Hold : forall kv, In kv acc -> fst kv <> n_cons n -> In kv acc1).
    { intros kv H1 H2. right. apply In_adel_other; assumption. }
    assert (Hin1 : forall kv, In kv acc1 -> In kv acc \/ kv = (n_cons n, (n_id n, n_ent n, pw))).
    { intros kv [<-|H]; [right; reflexivity|left; eapply In_adel; exact H]. }
    clearbody acc1.
    destruct (p_max p <=? len acc1) eqn:Eb.
    + injection Hf as <- <-. exists [n], r. cbn [app map rev]. split; [reflexivity|]. split; [reflexivity|].
      split; [|split].
      * intros m [<-|[]]. exists pw. exact Hhead.
      * intros kv H1 H2. apply Hold; [exact H1|]. intros E. apply H2. left. symmetry. exact E.
      * intros kv H. destruct (Hin1 kv H) as [H1| ->]; [left; exact H1|].
        right. exists n, pw. split; [left; reflexivity|reflexivity].
    + destruct (IH _ _ _ _ Hr Hf) as [cs1 [cs2 [-> [-> [H3 [H4 H5]]]]]].
      exists (n :: cs1), cs2. cbn [app map rev]. split; [reflexivity|].
      split; [rewrite <- app_assoc; reflexivity|]. split; [|split].
      * intros m [<-|Hm]; [|apply H3; exact Hm].
        exists pw. apply H4; [exact Hhead|exact Hk].
      * intros kv H1 H2. apply H4.
        -- apply Hold; [exact H1|]. intros E. apply H2. left. symmetry. exact E.
        -- intros E. apply H2. right. exact E.
      * intros kv H. destruct (H5 kv H) as [H1|[m [pw' [Hm ->]]]].
        -- destruct (Hin1 kv H1) as [H2| ->]; [left; exact H2|].
           right. exists n, pw. split; [left; reflexivity|reflexivity].
        -- right. exists m, pw'. split; [right; exact Hm|reflexivity].
Qed.

(* where a split of a concatenation of blocks falls *)
Lemma flat_split {A B} (f : B -> list A) (g : A -> B) :
  (forall x n, In n (f x) -> g n = x) ->
  forall L cs1 cs2 n' m,
    flat_map f L = cs1 ++ cs2 -> In n' cs1 -> In m cs2 ->
    exists l1 a l2, L = l1 ++ a :: l2 /\ In (g n') (l1 ++ [a]) /\ In (g m) (a :: l2).
Proof.
  intros Hg. induction L as [|x r IH]; intros cs1 cs2 n' m H Hn Hm; cbn [flat_map] in H.
  - destruct cs1; [contradiction|discriminate].
  - assert (Hflat : forall z, In z (flat_map f r) -> In (g z) r).
    { intros z Hz. apply in_flat_map in Hz. destruct Hz as [y [Hy Hz]].
      rewrite (Hg _ _ Hz). exact Hy. }
    destruct (app_eq_app_own _ _ _ _ H) as [l [[E1 E2]|[E1 E2]]].
    + (* the split falls inside the block of x *)
      exists [], x, r. split; [reflexivity|]. split.
      * left. symmetry. apply Hg. rewrite E1. apply in_or_app. left. exact Hn.
      * rewrite E2 in Hm. apply in_app_or in Hm. destruct Hm as [Hm|Hm].
        -- left. symmetry. apply Hg. rewrite E1. apply in_or_app. right. exact Hm.
        -- right. apply Hflat. exact Hm.
    + rewrite E1 in Hn. apply in_app_or in Hn. destruct Hn as [Hn|Hn].
      * exists [], x, r. split; [reflexivity|]. split.
        -- left. symmetry. apply Hg. exact Hn.
        -- right. apply Hflat. rewrite E2. apply in_or_app. right. exact Hm.
      * destruct (IH _ _ _ _ E2 Hn Hm) as [l1 [a [l2 [-> [H1 H2]]]]].
        exists (x :: l1), a, l2. split; [reflexivity|]. split; [right; exact H1|exact H2].
Qed.

Lemma cand_seq_nodup p ents pe cands sh :
  NoDup (map n_cons sh) ->
  is_perm pe (length (usort (map n_ent cands))) ->
  NoDup (map n_cons (cand_seq_sh p ents pe cands sh)).
Proof.
  intros Hsh Hpe. unfold cand_seq_sh.
  pose proof (by_stake_nodup p ents pe cands Hpe) as HL.
  induction (by_stake p ents pe cands) as [|a r IH]; cbn [flat_map map]; [constructor|].
  inversion HL as [|? ? Ha Hr]; subst. rewrite map_app. apply nodup_app.
  - unfold picks. apply nodup_map_firstn, nodup_map_filter. exact Hsh.
  - apply IH. exact Hr.
  - intros k H1 H2. apply in_map_iff in H1. destruct H1 as [n1 [<- H1]].
    apply in_map_iff in H2. destruct H2 as [n2 [Hk H2]].
    apply in_flat_map in H2. destruct H2 as [e' [He' H2]].
    apply picks_ent in H1. apply picks_ent in H2. destruct H1 as [E1 S1], H2 as [E2 S2].
    assert (n2 = n1) by (eapply (key_inj_of_nodup n_cons sh); eassumption).
    subst n2. apply Ha. rewrite <- E1, E2. exact He'.
Qed.

(* descending-stake order for ANY shuffled candidate list [sh] with unique
   consensus keys: an entity with a node in [sh] that is left out never has
   more escrow than a represented one *)
Theorem core_by_descending_stake p ents pe cands sh vals vents :
  NoDup (map n_cons sh) -> (forall n, In n sh -> In n cands) ->
  is_perm pe (length (usort (map n_ent cands))) ->
  1 <= p_per p -> p_bypass p = false ->
  elect_core p ents pe cands sh = VOk vals vents ->
  forall e e', (exists n, In n sh /\ n_ent n = e) -> ~ represented vals e -> represented vals e' ->
               escrow_of ents e <= escrow_of ents e'.
Proof.
  intros Hsh Hincl Hpe Hper Hby H e e' Hel Hnr Hr.
  destruct (elect_ok_inv _ _ _ _ _ _ _ H) as [acc [Hf [-> _]]].
  pose proof (cand_seq_nodup p ents pe cands sh Hsh Hpe) as Hcs.
  destruct (fill_keeps _ _ _ _ _ _ _ Hcs Hf) as [cs1 [cs2 [Hsplit [_ [H3 [_ H5]]]]]].
  destruct Hr as [kv [Hkv Hek]]. apply In_sort_by in Hkv.
  destruct (H5 kv Hkv) as [[]|[n' [pw' [Hn' ->]]]]. unfold ent_of in Hek. cbn [fst snd] in Hek.
  destruct Hel as [n0 [Hn0s He0]].
  assert (HeL : In e (by_stake p ents pe cands)).
  { eapply Permutation_in; [symmetry; apply by_stake_perm; exact Hpe|].
    apply In_usort. rewrite <- He0. apply in_map. apply Hincl. exact Hn0s. }
  assert (Hblock : exists m, In m (picks p sh e)).
  { unfold picks. assert (Hf0 : In n0 (filter (fun n => n_ent n =? e) sh)) by (apply filter_In; split; [exact Hn0s|lia]).
    destruct (filter (fun n => n_ent n =? e) sh) as [|m fr]; [contradiction|].
    exists m. destruct (N.to_nat (p_per p)) eqn:Ek; [lia|]. left. reflexivity. }
  destruct Hblock as [m Hm].
  assert (Hmc : In m (cs1 ++ cs2)).
  { rewrite <- Hsplit. unfold cand_seq_sh. apply in_flat_map. exists e. split; [exact HeL|exact Hm]. }
  pose proof (picks_ent _ _ _ _ Hm) as [Hme _].
  apply in_app_or in Hmc. destruct Hmc as [Hmc|Hmc].
  { exfalso. apply Hnr. destruct (H3 m Hmc) as [pw Hin]. eexists. split.
    - apply In_sort_by. exact Hin.
    - unfold ent_of. cbn [fst snd]. exact Hme. }
  unfold cand_seq_sh in Hsplit.
  destruct (flat_split (picks p sh) n_ent (fun x n Hx => proj1 (picks_ent p sh x n Hx))
              _ _ _ n' m Hsplit Hn' Hmc) as [l1 [a [l2 [HL [H1 H2]]]]].
  rewrite Hek in H1. rewrite Hme in H2.
  assert (Hsorted : StronglySorted (ge_key (escrow_of ents)) (l1 ++ a :: l2)).
  { rewrite <- HL. unfold by_stake. rewrite Hby. apply sort_desc_sorted. }
  exact (sorted_desc_split (escrow_of ents) l1 a l2 e' e Hsorted H1 H2).
Qed.

Lemma vcands_nodup_cons p ents epoch nodes :
  NoDup (map n_cons nodes) -> NoDup (map n_cons (vcands p ents epoch nodes)).
Proof.
  intros Hnd. unfold vcands, live_nodes. apply nodup_map_filter, nodup_map_filter.
  eapply Permutation_NoDup; [|exact Hnd]. apply Permutation_map. symmetry. apply sort_by_perm.
Qed.

(* validators are taken in descending entity-stake order: an eligible entity
   left out never has more escrow than a represented one (ties are free) *)
Theorem validators_by_descending_stake p ents epoch nodes pe pn vals vents :
  NoDup (map n_cons nodes) ->
  is_perm pe (length (usort (map n_ent (vcands p ents epoch nodes)))) ->
  is_perm pn (length (vcands p ents epoch nodes)) ->
  1 <= p_per p -> p_bypass p = false ->
  elect_validators p ents epoch nodes pe pn = VOk vals vents ->
  by_descending_stake p ents epoch nodes no_extra vals.
Proof.
  intros Hnd Hpe Hpn Hper Hby H e e' Hel Hnr Hr.
  set (cands := vcands p ents epoch nodes) in *.
  pose proof (apply_perm_perm _ _ Hpn) as Hperm.
  unfold elect_validators in H. fold cands in H.
  eapply (core_by_descending_stake p ents pe cands (apply_perm pn cands)); try eassumption.
  - eapply Permutation_NoDup; [apply Permutation_map; symmetry; exact Hperm|].
    apply vcands_nodup_cons. exact Hnd.
  - intros n Hn. eapply In_apply_perm. exact Hn.
  - destruct Hel as [n0 [Hn0 [Hl0 [Hc0 [_ He0]]]]]. exists n0. split; [|exact He0].
    eapply Permutation_in; [symmetry; exact Hperm|]. apply vcands_spec. tauto.
Qed.

(* sortNodesByHashedBeta keeps the consensus keys distinct *)
Lemma vrf_collect_nodup beta l : forall seen,
  NoDup (map n_cons l) -> NoDup (map n_cons (map snd (vrf_collect beta l seen))).
Proof.
  induction l as [|x r IH]; intros seen Hnd; cbn [vrf_collect map]; [constructor|].
  cbn [map] in Hnd. inversion Hnd as [|? ? Hx Hr]; subst.
  destruct (beta (n_id x)) as [bx|]; [|apply IH; exact Hr].
  destruct (memN bx seen); [apply IH; exact Hr|].
  cbn [map snd]. constructor; [|apply IH; exact Hr].
  intros Hin. apply Hx. apply in_map_iff in Hin. destruct Hin as [m [Hm Hin]].
  apply in_map_iff in Hin. destruct Hin as [[b m'] [E Hin]]. cbn [snd] in E. subst m'.
  apply vrf_collect_In in Hin. rewrite <- Hm. apply in_map. tauto.
Qed.
Lemma vrf_sort_nodup beta l : NoDup (map n_cons l) -> NoDup (map n_cons (vrf_sort beta l)).
Proof.
  intros Hnd. unfold vrf_sort.
  eapply Permutation_NoDup; [|apply (vrf_collect_nodup beta l [] Hnd)].
  apply Permutation_map, Permutation_map. symmetry. apply sort_by_perm.
Qed.
(* with distinct hashed betas every candidate with a proof takes part in the sortition *)
Lemma vrf_collect_complete beta l : forall seen n b,
  In n l -> beta (n_id n) = Some b -> ~ In b seen ->
  (forall m, In m l -> beta (n_id m) = Some b -> m = n) ->
  In (b, n) (vrf_collect beta l seen).
Proof.
  induction l as [|x r IH]; intros seen n b Hn Hb Hs Hinj; [contradiction|].
  cbn [vrf_collect]. destruct Hn as [->|Hn].
  - rewrite Hb. destruct (memN b seen) eqn:Em.
    + exfalso. apply Hs. unfold memN in Em. apply existsb_exists in Em.
      destruct Em as [y [Hy Ey]]. assert (y = b) by lia. subst. exact Hy.
    + left. reflexivity.
  - assert (Hrec : forall seen', ~ In b seen' -> In (b, n) (vrf_collect beta r seen')).
    { intros seen' Hs'. apply IH; [exact Hn|exact Hb|exact Hs'|].
      intros m Hm. apply Hinj. right. exact Hm. }
    destruct (beta (n_id x)) as [bx|] eqn:Ex; [|apply Hrec; exact Hs].
    destruct (memN bx seen); [apply Hrec; exact Hs|].
    destruct (N.eq_dec bx b) as [->|Hne].
    + assert (x = n) by (apply Hinj; [left; reflexivity|exact Ex]). subst. left. reflexivity.
    + right. apply Hrec. intros [E|E]; [exact (Hne E)|exact (Hs E)].
Qed.
Lemma vrf_sort_complete beta l n b :
  In n l -> beta (n_id n) = Some b ->
  (forall m, In m l -> beta (n_id m) = Some b -> m = n) ->
  In n (vrf_sort beta l).
Proof.
  intros Hn Hb Hinj. unfold vrf_sort. apply in_map_iff. exists (b, n). split; [reflexivity|].
  apply In_sort_by. apply vrf_collect_complete; try assumption. intros [].
Qed.

(* VRF backend: the same order among the entities that take part in the
   shuffle in use -- all eligible ones when the election falls back to the
   entropy shuffle, the ones with a submitted proof under sortition (hashed
   betas pairwise distinct, i.e. no TupleHash collision) *)
Definition vrf_extra (p : params) (beta : N -> option N) (cands : list node) : node -> bool :=
  if len (filter (has_pi beta) cands) <? p_min p then no_extra else has_pi beta.
Theorem validators_by_descending_stake_vrf p ents epoch nodes pe pn beta vals vents :
  NoDup (map n_cons nodes) ->
  is_perm pe (length (usort (map n_ent (vcands p ents epoch nodes)))) ->
  is_perm pn (length (vcands p ents epoch nodes)) ->
  (forall m n b, In m (vcands p ents epoch nodes) -> In n (vcands p ents epoch nodes) ->
                 beta (n_id m) = Some b -> beta (n_id n) = Some b -> m = n) ->
  1 <= p_per p -> p_bypass p = false ->
  elect_validators_vrf p ents epoch nodes pe pn beta = VOk vals vents ->
  by_descending_stake p ents epoch nodes (vrf_extra p beta (vcands p ents epoch nodes)) vals.
Proof.
  intros Hnd Hpe Hpn Hinj Hper Hby H e e' Hel Hnr Hr.
  set (cands := vcands p ents epoch nodes) in *.
  pose proof (apply_perm_perm _ _ Hpn) as Hperm.
  unfold elect_validators_vrf in H. fold cands in H. unfold vrf_extra in Hel.
  destruct Hel as [n0 [Hn0 [Hl0 [Hc0 [Hx0 He0]]]]].
  assert (Hn0c : In n0 cands) by (apply vcands_spec; tauto).
  destruct (len (filter (has_pi beta) cands) <? p_min p).
  - eapply (core_by_descending_stake p ents pe cands (apply_perm pn cands)); try eassumption.
    + eapply Permutation_NoDup; [apply Permutation_map; symmetry; exact Hperm|].
      apply vcands_nodup_cons. exact Hnd.
    + intros n Hn. eapply In_apply_perm. exact Hn.
    + exists n0. split; [|exact He0]. eapply Permutation_in; [symmetry; exact Hperm|exact Hn0c].
  - eapply (core_by_descending_stake p ents pe cands (vrf_sort beta cands)); try eassumption.
    + apply vrf_sort_nodup, vcands_nodup_cons. exact Hnd.
    + intros n Hn. apply vrf_sort_In in Hn. tauto.
    + exists n0. split; [|exact He0]. unfold has_pi in Hx0.
      destruct (beta (n_id n0)) as [b|] eqn:Eb; [|discriminate].
      apply (vrf_sort_complete beta cands n0 b Hn0c Eb).
      intros m Hm Hbm. eapply Hinj; eassumption.
Qed.

(* ---------- determinism: the result is a function of the SETS of nodes and accounts ---------- *)
Lemma find_ent_perm ents ents' a :
  Permutation ents ents' -> NoDup (map e_addr ents) -> find_ent ents a = find_ent ents' a.
Proof.
  unfold find_ent. induction 1 as [|x l l' H IH|x y l|l l' l'' H1 IH1 H2 IH2]; intros Hnd; cbn [find map] in *.
  - reflexivity.
  - inversion Hnd; subst. destruct (e_addr x =? a); [reflexivity|apply IH; assumption].
  - inversion Hnd as [|? ? Hy Hr]; subst.
    destruct (e_addr y =? a) eqn:Ey, (e_addr x =? a) eqn:Ex; try reflexivity.
    exfalso. apply Hy. left. lia.
  - rewrite IH1 by exact Hnd. apply IH2.
    eapply Permutation_NoDup; [apply Permutation_map; exact H1|exact Hnd].
Qed.
Lemma slash_addrs addr amt ents : map e_addr (map (slash_one addr amt) ents) = map e_addr ents.
Proof.
  rewrite map_map. apply map_ext. intros e. unfold slash_one. destruct (e_addr e =? addr); reflexivity.
Qed.
Lemma freeze_ids id u nodes : map n_id (map (freeze_one id u) nodes) = map n_id nodes.
Proof.
  rewrite map_map. apply map_ext. intros n. unfold freeze_one. destruct (n_id n =? id); reflexivity.
Qed.
Lemma post_state_perm sl : forall ents ents' nodes nodes' fl,
  Permutation ents ents' -> NoDup (map e_addr ents) ->
  Permutation nodes nodes' -> NoDup (map n_id nodes) ->
  let a := fold_left apply_slash sl (ents, nodes, fl) in
  let b := fold_left apply_slash sl (ents', nodes', fl) in
  Permutation (fst (fst a)) (fst (fst b)) /\ NoDup (map e_addr (fst (fst a))) /\
  Permutation (snd (fst a)) (snd (fst b)) /\ NoDup (map n_id (snd (fst a))) /\ snd a = snd b.
Proof.
  induction sl as [|[[addr amt] fr] r IH]; intros ents ents' nodes nodes' fl He Hne Hn Hnn; cbn [fold_left].
  - cbn [fst snd]. tauto.
  - cbn [apply_slash]. unfold escrow_of. rewrite (find_ent_perm _ _ addr He Hne).
    apply IH.
    + apply Permutation_map. exact He.
    + rewrite slash_addrs. exact Hne.
    + destruct fr as [[id u]|]; [apply Permutation_map|]; exact Hn.
    + destruct fr as [[id u]|]; [rewrite freeze_ids|]; exact Hnn.
Qed.

Theorem elect_deterministic i i' :
  Permutation (i_nodes i) (i_nodes i') -> NoDup (map n_id (i_nodes i)) ->
  Permutation (i_ents i) (i_ents i') -> NoDup (map e_addr (i_ents i)) ->
  i_params i = i_params i' -> i_epoch i = i_epoch i' -> i_rts i = i_rts i' ->
  i_perm_e i = i_perm_e i' -> i_perm_n i = i_perm_n i' -> i_perm_c i = i_perm_c i' ->
  i_current i = i_current i' -> i_fv261 i = i_fv261 i' -> i_vrf i = i_vrf i' ->
  i_base i = i_base i' -> i_changed i = i_changed i' -> i_slashed i = i_slashed i' ->
  i_slashes i = i_slashes i' ->
  run_epoch i = run_epoch i'.
Proof.
  intros Hn Hnn He Hne E1 E2 E3 E4 E5 E6 E7 E8 E9 E10 E11 E12 E13.
  unfold run_epoch, committee_nodes, vrf_blocked, committee_srcs, post_ents, post_nodes, post_slashed, post_state.
  rewrite <- E13, <- E12.
  destruct (post_state_perm (i_slashes i) _ _ _ _ (i_slashed i) He Hne Hn Hnn) as [P1 [P2 [P3 [P4 P5]]]].
  cbv zeta in P1, P2, P3, P4, P5.
  rewrite (sort_by_unique n_id _ _ P3 P4), (sort_by_unique e_addr _ _ P1 P2), P5.
  rewrite E1, E2, E3, E4, E5, E6, E7, E8, E9, E10, E11. reflexivity.
Qed.

(* ---------- the validator diff ---------- *)
Lemma apply_updates_aget k us : forall m,
  NoDup (map fst us) ->
  aget k (apply_updates m us) =
  match aget k us with
  | Some v => if v =? 0 then None else Some v
  | None => aget k m
  end.
Proof.
  unfold apply_updates. induction us as [|[k' v] r IH]; intros m Hnd; cbn [fold_left aget]; [reflexivity|].
  cbn [map fst] in Hnd. inversion Hnd as [|? ? Hk Hr]; subst. rewrite (IH _ Hr).
  destruct (k' =? k) eqn:E.
  - apply N.eqb_eq in E. subst k'.
    assert (Hnone : aget k r = None) by (apply aget_none_notin; exact Hk).
    rewrite Hnone. unfold apply_update. cbn [fst snd].
    destruct (v =? 0); [apply aget_adel_same|apply aget_aset_same].
  - destruct (aget k r) as [w|]; [reflexivity|]. unfold apply_update. cbn [fst snd].
    destruct (v =? 0); [apply aget_adel_other|apply aget_aset_other]; lia.
Qed.

Lemma aget_filter {V} k (f : N * V -> bool) (l : list (N * V)) :
  NoDup (map fst l) ->
  aget k (filter f l) = match aget k l with
                        | Some v => if f (k, v) then Some v else None
                        | None => None
                        end.
Proof.
  induction l as [|[k' v] r IH]; cbn [filter aget map fst]; intros Hnd; [reflexivity|].
  inversion Hnd as [|? ? Hk Hr]; subst. specialize (IH Hr).
  destruct (k' =? k) eqn:E.
  - apply N.eqb_eq in E. subst k'.
    assert (Hnone : aget k r = None) by (apply aget_none_notin; exact Hk).
    rewrite Hnone in IH. destruct (f (k, v)); cbn [aget]; [rewrite N.eqb_refl; reflexivity|exact IH].
  - destruct (f (k', v)); cbn [aget]; [rewrite E|]; exact IH.
Qed.
Lemma aget_map_zero k (l : pmap) :
  aget k (map (fun kv => (fst kv, 0)) l) = match aget k l with Some _ => Some 0 | None => None end.
Proof.
  induction l as [|[k' v] r IH]; cbn [map aget fst]; [reflexivity|].
  destruct (k' =? k); [reflexivity|exact IH].
Qed.

Lemma aget_diff k cur pend :
  NoDup (map fst cur) -> NoDup (map fst pend) ->
  aget k (diff_validators cur pend) =
  match aget k pend with
  | Some v => match aget k cur with
              | Some w => if w =? v then None else Some v
              | None => Some v
              end
  | None => match aget k cur with Some _ => Some 0 | None => None end
  end.
Proof.
  intros Hc Hp. unfold diff_validators. rewrite aget_app, aget_map_zero.
  rewrite (aget_filter k _ cur Hc), (aget_filter k _ pend Hp). cbn [fst snd].
  destruct (aget k pend) as [v|] eqn:Ep; destruct (aget k cur) as [w|] eqn:Ec; try reflexivity.
  destruct (w =? v); reflexivity.
Qed.

Lemma diff_keys_nodup cur pend :
  NoDup (map fst cur) -> NoDup (map fst pend) -> NoDup (map fst (diff_validators cur pend)).
Proof.
  intros Hc Hp. unfold diff_validators. rewrite map_app, map_map. cbn [fst].
  apply nodup_app.
  - apply nodup_map_filter. exact Hc.
  - apply nodup_map_filter. exact Hp.
  - intros k H1 H2. apply in_map_iff in H1. destruct H1 as [[k1 v1] [<- H1]].
    apply filter_In in H1. destruct H1 as [_ H1]. cbn [fst] in *.
    apply in_map_iff in H2. destruct H2 as [[k2 v2] [E H2]]. cbn [fst] in E. subst k2.
    apply filter_In in H2. destruct H2 as [H2 _].
    destruct (aget k1 pend) eqn:Ea; [discriminate|].
    apply aget_none_notin in Ea. apply Ea. change k1 with (fst (k1, v2)). apply in_map. exact H2.
Qed.

(* the updates handed to the consensus engine, applied in ANY order to the
   previous set, give exactly the newly elected set (as key -> power maps) *)
Theorem diff_applies cur pend ups :
  NoDup (map fst cur) -> NoDup (map fst pend) ->
  Forall (fun kv => snd kv <> 0) pend ->
  Permutation ups (diff_validators cur pend) ->
  forall k, aget k (apply_updates cur ups) = aget k pend.
Proof.
  intros Hc Hp Hnz Hperm k.
  pose proof (diff_keys_nodup cur pend Hc Hp) as Hd.
  assert (Hu : NoDup (map fst ups)).
  { eapply Permutation_NoDup; [apply Permutation_map; symmetry; exact Hperm|exact Hd]. }
  rewrite (apply_updates_aget k ups cur Hu).
  rewrite (aget_perm k _ _ Hperm Hu), (aget_diff k cur pend Hc Hp).
  destruct (aget k pend) as [v|] eqn:Ep.
  - assert (Hv : v <> 0).
    { rewrite Forall_forall in Hnz. apply (Hnz (k, v)). apply aget_In. exact Ep. }
    destruct (aget k cur) as [w|] eqn:Ec.
    + destruct (w =? v) eqn:E; [f_equal; lia|]. destruct (v =? 0) eqn:E0; [lia|reflexivity].
    + destruct (v =? 0) eqn:E0; [lia|reflexivity].
  - destruct (aget k cur) as [w|] eqn:Ec; reflexivity.
Qed.

(* elected powers are never 0, so a pending entry is never read as a removal *)
Lemma elect_powers_nonzero p ents epoch nodes pe pn vals vents :
  elect_validators p ents epoch nodes pe pn = VOk vals vents ->
  Forall (fun kv => snd kv <> 0) (powers_of vals).
Proof.
  intros H. destruct (elect_sound _ _ _ _ _ _ _ _ H) as [Hv _].
  unfold powers_of. rewrite Forall_map. eapply Forall_impl; [|exact Hv].
  intros kv [n [pw [_ [-> [_ [_ [_ [_ [_ Hpw]]]]]]]]]. cbn [fst snd]. lia.
Qed.
