(* C14: soundness of the boolean checker evaluated on the implementation's
   output, and the worked examples (non-vacuity, boundary cases, witnesses). *)
From Verif Require Import Lib.Base Sched.Elect Sched.ElectSpec Sched.ElectLemmas
  Sched.ElectProofs Sched.ElectProofs2 Sched.CommitteeProofs Sched.EngineProofs.
From Coq Require Import Permutation.

Lemma validator_ok_b_sound p ents epoch nodes kv :
  validator_ok_b p ents epoch nodes kv = true -> validator_ok p ents epoch nodes kv.
Proof.
  destruct kv as [k [[id e] pw]]. unfold validator_ok_b. intros H.
  apply existsb_exists in H. destruct H as [n [Hn H]].
  repeat (apply andb_true_iff in H; let H' := fresh "C" in destruct H as [H H']).
  destruct (node_power p ents n) as [w|] eqn:Ew; [|discriminate].
  apply live_spec in C1. destruct C1 as [Hfr Hexp].
  unfold is_vcand in C0. apply andb_true_iff in C0. destruct C0 as [Hrole Hstake].
  assert (w = pw) by lia. subst w.
  exists n, pw. split; [exact Hn|]. split.
  - assert (n_id n = id) by lia. assert (n_cons n = k) by lia. assert (n_ent n = e) by lia.
    subst. reflexivity.
  - split; [exact Hfr|]. split; [exact Hexp|]. split; [exact Hrole|].
    split; [apply orb_true_iff; exact Hstake|]. split; [exact Ew|lia].
Qed.

Lemma count_ent_zero_or_in e vals :
  count_ent e vals = 0 \/ exists kv, In kv vals /\ ent_of kv = e.
Proof.
  unfold count_ent. destruct (filter (fun kv => ent_of kv =? e) vals) as [|kv r] eqn:E.
  - left. reflexivity.
  - right. exists kv. assert (H : In kv (filter (fun kv => ent_of kv =? e) vals)) by (rewrite E; left; reflexivity).
    apply filter_In in H. destruct H as [H1 H2]. split; [exact H1|lia].
Qed.

(* whatever passes the checker satisfies the relational statement *)
Theorem election_ok_b_sound p ents epoch nodes extra vals :
  election_ok_b p ents epoch nodes extra vals = true -> election_ok p ents epoch nodes extra vals.
Proof.
  unfold election_ok_b, election_ok. intros H.
  repeat (apply andb_true_iff in H; let H' := fresh "C" in destruct H as [H H']).
  split; [|split; [lia|split; [|split; [lia|split; [lia|]]]]].
  - rewrite Forall_forall. intros kv Hkv. apply validator_ok_b_sound.
    rewrite forallb_forall in H. apply H. exact Hkv.
  - intros e. destruct (count_ent_zero_or_in e vals) as [->|[kv [Hkv <-]]]; [lia|].
    rewrite forallb_forall in C2. specialize (C2 kv Hkv). lia.
  - intros Hby e e' [n [Hn [Hl [Hc [Hx He]]]]] Hnr [kv [Hkv Hek]].
    rewrite Hby in C. cbn [orb] in C. rewrite forallb_forall in C. specialize (C n Hn).
    rewrite Hl, Hc, Hx in C. cbn [andb negb orb] in C.
    destruct (represented_b vals (n_ent n)) eqn:Er.
    + exfalso. apply Hnr. unfold represented_b in Er. apply existsb_exists in Er.
      destruct Er as [kv' [H1 H2]]. exists kv'. split; [exact H1|lia].
    + cbn [orb] in C. rewrite forallb_forall in C. specialize (C kv Hkv). subst. lia.
Qed.

(* what a [true] of the per-epoch check on the implementation's output means *)
Theorem impl_ok_b_sound i vals ups comms :
  impl_ok_b i (EOk vals ups comms) = true ->
  election_ok (i_params i) (sort_by e_addr (post_ents i)) (i_epoch i) (post_nodes i) (val_extra i) vals /\
  Permutation (apply_updates (i_current i) ups) (powers_of vals) /\
  comms_ok (i_fv261 i) (i_params i) (sort_by e_addr (post_ents i)) (map ent_of vals) (i_epoch i)
    (committee_nodes i (sort_by n_id (post_nodes i))) (vrf_blocked i) (i_rts i) (committee_srcs i) comms.
Proof.
  unfold impl_ok_b. intros H. apply andb_true_iff in H. destruct H as [H H3].
  apply andb_true_iff in H. destruct H as [H1 H2].
  split; [apply election_ok_b_sound; exact H1|]. split; [|apply comms_ok_b_sound; exact H3].
  unfold pmap_eqb in H2. apply list_eqb_pair_eq' in H2.
  rewrite <- (sort_by_perm fst (apply_updates (i_current i) ups)), H2. apply sort_by_perm.
Qed.

(* ================= examples ================= *)
(* five entities: A 5000, B = C = 1000 (a tie), D exactly at its claim
   threshold (100 + 200), E one unit below it.  Each runs one validator node;
   A also has a frozen and an expired node. *)
Definition ex_ents : list entity :=
  [ mkEnt 11 5000 [100; 200]; mkEnt 12 1000 [100; 200]; mkEnt 13 1000 [100; 200];
    mkEnt 14 300 [100; 200]; mkEnt 15 299 [100; 200] ].
Definition vnode (id ent : N) (exp freeze : N) : node := mkNode id ent (id + 100) 8 exp freeze 0 [] [].
Definition ex_nodes : list node :=
  [ vnode 5 15 9 0; vnode 4 14 9 0; vnode 3 13 9 0; vnode 2 12 7 0; vnode 1 11 9 0;
    vnode 6 11 9 3; vnode 7 11 6 0 ].
Definition ex_params (maxv : N) : params := mkParams 1 maxv 1 false false.
Definition ex_vals (maxv : N) (pe : list N) : vres :=
  elect_validators (ex_params maxv) ex_ents 7 ex_nodes pe [0; 1; 2; 3].

(* MaxValidators = 2 cuts through the tie: the shuffle decides between B and C *)
Example ex_tie_identity :
  ex_vals 2 [0; 1; 2; 3] = VOk [(101, (1, 11, 312)); (102, (2, 12, 62))] [12; 11].
Proof. vm_compute. reflexivity. Qed.
Example ex_tie_swapped :
  ex_vals 2 [0; 2; 1; 3] = VOk [(101, (1, 11, 312)); (103, (3, 13, 62))] [13; 11].
Proof. vm_compute. reflexivity. Qed.
(* the entity exactly at its threshold is electable, the one just below never is *)
Example ex_threshold :
  ex_vals 6 [3; 2; 1; 0] =
  VOk [(101, (1, 11, 312)); (102, (2, 12, 62)); (103, (3, 13, 62)); (104, (4, 14, 18))] [14; 12; 13; 11].
Proof. vm_compute. reflexivity. Qed.
(* both tie outcomes pass the checker; a result electing the under-staked
   entity, a frozen node, or skipping a higher stake is rejected *)
Example ex_checker_accepts :
  election_ok_b (ex_params 2) ex_ents 7 ex_nodes no_extra [(101, (1, 11, 312)); (102, (2, 12, 62))] = true /\
  election_ok_b (ex_params 2) ex_ents 7 ex_nodes no_extra [(101, (1, 11, 312)); (103, (3, 13, 62))] = true.
Proof. vm_compute. split; reflexivity. Qed.
Example ex_checker_rejects :
  election_ok_b (ex_params 2) ex_ents 7 ex_nodes no_extra [(101, (1, 11, 312)); (105, (5, 15, 18))] = false /\
  election_ok_b (ex_params 2) ex_ents 7 ex_nodes no_extra [(106, (6, 11, 312)); (102, (2, 12, 62))] = false /\
  election_ok_b (ex_params 2) ex_ents 7 ex_nodes no_extra [(101, (1, 11, 312)); (104, (4, 14, 18))] = false /\
  election_ok_b (ex_params 2) ex_ents 7 ex_nodes no_extra [(101, (1, 11, 312)); (102, (2, 12, 62)); (103, (3, 13, 62))] = false /\
  election_ok_b (ex_params 2) ex_ents 7 ex_nodes no_extra [(101, (1, 11, 312)); (102, (2, 12, 63))] = false.
Proof. vm_compute. repeat split; reflexivity. Qed.

(* the hypotheses of validators_by_descending_stake hold on the example *)
Example ex_hypotheses :
  NoDup (map n_cons ex_nodes) /\
  is_perm [0; 2; 1; 3] (length (usort (map n_ent (vcands (ex_params 2) ex_ents 7 ex_nodes)))) /\
  is_perm [0; 1; 2; 3] (length (vcands (ex_params 2) ex_ents 7 ex_nodes)) /\
  1 <= p_per (ex_params 2) /\ p_bypass (ex_params 2) = false.
Proof.
  split; [|split; [|split; [|split; [cbn; lia|reflexivity]]]].
  - vm_compute. repeat constructor; cbn; intros H; repeat (destruct H as [H|H]; [discriminate|]); exact H.
  - vm_compute. apply perm_skip, perm_swap.
  - vm_compute. reflexivity.
Qed.

(* diff: a removal, a power change, an unchanged entry and an addition *)
Example ex_diff :
  let cur := [(101, 312); (102, 62); (107, 5)] in
  let pend := [(101, 400); (102, 62); (103, 62)] in
  diff_validators cur pend = [(107, 0); (101, 400); (103, 62)] /\
  sort_by fst (apply_updates cur (diff_validators cur pend)) = pend.
Proof. vm_compute. split; reflexivity. Qed.

(* a committee: two workers and one backup out of three eligible compute nodes
   of two entities with MaxNodes = 1 for workers; with only one entity there is
   no committee at all.  Entropy tables and VRF sortition. *)
Definition cnode (id ent : N) : node := mkNode id ent (id + 100) 1 9 0 0 [(77, 4294967296, None)] [].
Definition ex_rt : runtime :=
  mkRt 77 true false 2 1 [(4294967296, 0)] (mkCs false (Some 1) (Some 2)) (mkCs false None None) 0.
Definition ex_tbl : shuffle_src := ByTable [[]; [0]; [1; 0]; [2; 0; 1]].
Example ex_committee :
  elect_committee true (ex_params 2) ex_ents [] 7 ex_rt [cnode 21 11; cnode 22 11; cnode 23 12] false ex_tbl ex_tbl
  = Some [(1, 23); (1, 21); (2, 23)] /\
  elect_committee true (ex_params 2) ex_ents [] 7 ex_rt [cnode 21 11; cnode 22 11] false ex_tbl ex_tbl
  = None /\
  committee_ok_b true (ex_params 2) ex_ents [] 7 ex_rt [cnode 21 11; cnode 22 11; cnode 23 12] false ex_tbl ex_tbl
    [(1, 23); (1, 21); (2, 23)] = true /\
  committee_ok_b true (ex_params 2) ex_ents [] 7 ex_rt [cnode 21 11; cnode 22 11; cnode 23 12] false ex_tbl ex_tbl
    [(1, 22); (1, 21); (2, 23)] = false /\
  committee_ok_b true (ex_params 2) ex_ents [] 7 ex_rt [cnode 21 11; cnode 22 11; cnode 23 12] false ex_tbl ex_tbl
    [(1, 23); (2, 23)] = false.
Proof. vm_compute. repeat split; reflexivity. Qed.

(* VRF: node 22 wins the de-duplication of entity 11 by its dedup beta, node 21
   has no proof and is ineligible; the election order follows the election betas *)
Definition ex_dedup : N -> option N := tbl_of [(22, 5); (23, 9); (24, 7)].
Definition ex_elect : N -> option N := tbl_of [(22, 30); (23, 10); (24, 20)].
Example ex_committee_vrf :
  elect_committee true (ex_params 2) ex_ents [] 7 ex_rt
    [cnode 21 11; cnode 22 11; cnode 23 12; cnode 24 11] false (ByBeta ex_dedup ex_elect) (ByBeta ex_dedup ex_elect)
  = Some [(1, 23); (1, 22); (2, 23)] /\
  elect_committee true (ex_params 2) ex_ents [] 7 ex_rt
    [cnode 21 11; cnode 22 11; cnode 23 12; cnode 24 11] true (ByBeta ex_dedup ex_elect) (ByBeta ex_dedup ex_elect)
  = None.
Proof. vm_compute. split; reflexivity. Qed.

(* a TEE runtime takes only nodes whose capability has the same hardware and a verifying attestation *)
Example ex_tee :
  tee_ok 1 (Some (1, true)) = true /\ tee_ok 1 (Some (1, false)) = false /\ tee_ok 1 (Some (2, true)) = false /\
  tee_ok 1 None = false /\ tee_ok 0 None = true /\ tee_ok 0 (Some (1, true)) = false.
Proof. vm_compute. repeat split; reflexivity. Qed.

(* ---------- an observation about a degenerate parameter ----------
   The limit check runs after the insertion (scheduler.go:594), so with
   MaxValidators = 0 one validator is still elected.  InitChain rejects
   MaxValidators <= 0 (genesis.go:32) but a governance parameter change is not
   checked; this is why the count bound is stated as max 1 MaxValidators. *)
Theorem max_validators_zero_elects_one_refuted :
  exists p ents epoch nodes pe pn vals vents,
    p_max p = 0 /\ elect_validators p ents epoch nodes pe pn = VOk vals vents /\ len vals = 1.
Proof.
  exists (ex_params 0), ex_ents, 7, ex_nodes, [0; 1; 2; 3], [0; 1; 2; 3].
  eexists. eexists. split; [reflexivity|]. split; [vm_compute; reflexivity|reflexivity].
Qed.
