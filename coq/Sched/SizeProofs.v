(* C14: exact sizes of the elected sets, soundness of a whole epoch step
   (run_epoch), and the re-election after a slash. *)
From Verif Require Import Lib.Base Sched.Elect Sched.ElectSpec Sched.ElectLemmas
  Sched.ElectProofs Sched.ElectProofs2 Sched.CommitteeProofs Sched.EngineProofs.
From Coq Require Import Permutation.

(* ---------- exact number of validators ---------- *)
Lemma len_adel_notin {V} k (l : list (N * V)) : ~ In k (map fst l) -> adel k l = l.
Proof.
  induction l as [|[k' v] r IH]; cbn [adel map fst]; intros H; [reflexivity|].
  destruct (k' =? k) eqn:E; [exfalso; apply H; left; lia|].
  f_equal. apply IH. intros Hin. apply H. right. exact Hin.
Qed.

Lemma fill_len p ents cs : forall acc ve acc' ve',
  NoDup (map n_cons cs) ->
  (forall k, In k (map fst acc) -> ~ In k (map n_cons cs)) ->
  len acc < N.max 1 (p_max p) ->
  fill p ents cs acc ve = Some (acc', ve') ->
  len acc' = N.min (len acc + len cs) (N.max 1 (p_max p)).
Proof.
  induction cs as [|n r IH]; intros acc ve acc' ve' Hnd Hdis Hlen Hf; cbn [fill] in Hf.
  - injection Hf as <- <-. rewrite len_nil. lia.
  - cbn [map] in Hnd. inversion Hnd as [|? ? Hk Hr]; subst.
    destruct (node_power p ents n) as [pw|]; [|discriminate].
    assert (Hfresh : ~ In (n_cons n) (map fst acc)).
    { intros Hin. apply (Hdis _ Hin). left. reflexivity. }
    assert (Hadel : @adel (N * N * N) (n_cons n) acc = acc) by (apply len_adel_notin; exact Hfresh).
    assert (Hl1 : len (aset (n_cons n) (n_id n, n_ent n, pw) acc) = len acc + 1).
    { unfold aset. rewrite len_cons, Hadel. reflexivity. }
    assert (Hkeys : forall k, In k (map fst (aset (n_cons n) (n_id n, n_ent n, pw) acc)) -> ~ In k (map n_cons r)).
    { unfold aset. rewrite Hadel. cbn [map fst]. intros k [<-|Hin]; [exact Hk|].
      intros Hr'. apply (Hdis _ Hin). right. exact Hr'. }
    set (acc1 := aset (n_cons n) (n_id n, n_ent n, pw) acc) in *. clearbody acc1.
    rewrite len_cons. unfold vmap, vinfo in *.
    destruct (p_max p <=? len acc1) eqn:Eb.
    + injection Hf as <- <-. lia.
    + assert (Hlt : len acc1 < N.max 1 (p_max p)) by lia.
      rewrite (IH _ _ _ _ Hr Hkeys Hlt Hf). lia.
Qed.

Lemma len_firstn {A} k (l : list A) : len (firstn k l) = N.min (N.of_nat k) (len l).
Proof. unfold len. rewrite firstn_length. lia. Qed.

(* nodes the entity can contribute: min(its nodes in the shuffled list, MaxValidatorsPerEntity) *)
Definition ent_quota (p : params) (sh : list node) (e : N) : N := N.min (count_node_ent e sh) (p_per p).
Lemma len_picks p sh e : len (picks p sh e) = ent_quota p sh e.
Proof. unfold picks, ent_quota, count_node_ent. rewrite len_firstn, N2Nat.id. lia. Qed.
Lemma len_flat_picks p sh L : len (flat_map (picks p sh) L) = sum (map (ent_quota p sh) L).
Proof.
  induction L as [|a r IH]; cbn [flat_map map sum]; [reflexivity|].
  rewrite len_app, len_picks, IH. reflexivity.
Qed.
Lemma sum_perm l l' : Permutation l l' -> sum l = sum l'.
Proof. induction 1; cbn [sum]; lia. Qed.

(* In the success case the number of validators is EXACTLY
   min(sum over eligible entities of min(nodes, MaxValidatorsPerEntity), max(1, MaxValidators)). *)
Theorem validators_exact_count p ents pe cands sh vals vents :
  NoDup (map n_cons sh) ->
  is_perm pe (length (usort (map n_ent cands))) ->
  elect_core p ents pe cands sh = VOk vals vents ->
  len vals = N.min (sum (map (ent_quota p sh) (usort (map n_ent cands)))) (N.max 1 (p_max p)).
Proof.
  intros Hsh Hpe H. destruct (elect_ok_inv _ _ _ _ _ _ _ H) as [acc [Hf [-> _]]].
  rewrite (len_perm _ _ (sort_by_perm fst acc)).
  assert (Hl0 : len (@nil (N * vinfo)) < N.max 1 (p_max p)) by (rewrite len_nil; lia).
  assert (Hdis : forall k, In k (map fst (@nil (N * vinfo))) -> ~ In k (map n_cons (cand_seq_sh p ents pe cands sh))) by (intros k []).
  rewrite (fill_len _ _ _ _ _ _ _ (cand_seq_nodup p ents pe cands sh Hsh Hpe) Hdis Hl0 Hf).
  rewrite len_nil, N.add_0_l. unfold cand_seq_sh. rewrite len_flat_picks.
  rewrite (sum_perm _ _ (Permutation_map (ent_quota p sh) (by_stake_perm p ents pe cands Hpe))). reflexivity.
Qed.

(* a committee has exactly GroupSize + GroupBackupSize members *)
Theorem committee_exact_size fv p ents vents epoch rt cnodes blocked sw sb ms :
  elect_committee fv p ents vents epoch rt cnodes blocked sw sb = Some ms ->
  len ms = r_gsize rt + r_bsize rt /\
  len (filter (fun m => fst m =? ROLE_WORKER) ms) = r_gsize rt /\
  len (filter (fun m => fst m =? ROLE_BACKUP) ms) = r_bsize rt.
Proof.
  intros H. apply committee_sound in H.
  destruct H as [_ [_ [_ [_ [w [b [-> [[Hw _] Hb]]]]]]]].
  assert (Hlb : len b = r_bsize rt).
  { destruct (r_bsize rt =? 0) eqn:E; [subst b; rewrite len_nil; lia|destruct Hb as [Hb _]; exact Hb]. }
  assert (Hfw : forall l, filter (fun m : N * N => fst m =? ROLE_WORKER) (map (fun n => (ROLE_WORKER, n_id n)) l)
                          = map (fun n => (ROLE_WORKER, n_id n)) l).
  { induction l as [|x r IH]; cbn [map filter fst]; [reflexivity|]. rewrite N.eqb_refl, IH. reflexivity. }
  assert (Hfb : forall l, filter (fun m : N * N => fst m =? ROLE_BACKUP) (map (fun n => (ROLE_BACKUP, n_id n)) l)
                          = map (fun n => (ROLE_BACKUP, n_id n)) l).
  { induction l as [|x r IH]; cbn [map filter fst]; [reflexivity|]. rewrite N.eqb_refl, IH. reflexivity. }
  assert (Hnw : forall l, filter (fun m : N * N => fst m =? ROLE_WORKER) (map (fun n => (ROLE_BACKUP, n_id n)) l) = []).
  { induction l as [|x r IH]; cbn [map filter fst]; [reflexivity|]. exact IH. }
  assert (Hnb : forall l, filter (fun m : N * N => fst m =? ROLE_BACKUP) (map (fun n => (ROLE_WORKER, n_id n)) l) = []).
  { induction l as [|x r IH]; cbn [map filter fst]; [reflexivity|]. exact IH. }
  rewrite !filter_app, Hfw, Hfb, Hnw, Hnb, app_nil_r. cbn [app].
  rewrite len_app. unfold len in *. rewrite !map_length. lia.
Qed.

(* ---------- a whole epoch step ---------- *)
Lemma elect_committees_ok fv p ents vents epoch cnodes blocked : forall rts srcs,
  comms_ok fv p ents vents epoch cnodes blocked rts srcs
           (elect_committees fv p ents vents epoch cnodes blocked rts srcs).
Proof.
  induction rts as [|rt r IH]; intros srcs; cbn [elect_committees comms_ok]; [exact I|].
  split; [reflexivity|]. split; [|apply IH].
  destruct (elect_committee fv p ents vents epoch rt cnodes blocked _ _) as [ms|] eqn:E; [|exact I].
  apply committee_sound. exact E.
Qed.

(* the validator election of the epoch, whatever backend is in use *)
Lemma elect_validators_t_sound p ents epoch nodes te tn vrf vals vents :
  elect_validators_t p ents epoch nodes te tn vrf = VOk vals vents ->
  Forall (validator_ok p ents epoch nodes) vals /\
  len vals <= N.max 1 (p_max p) /\ p_min p <= len vals /\ 1 <= len vals.
Proof.
  unfold elect_validators_t. destruct vrf as [v|]; [apply elect_sound_vrf|apply elect_sound].
Qed.

(* Whenever a block elects (epoch change OR a slash inside the epoch), the
   elected validators satisfy every eligibility clause against the state the
   election ran on -- the post-slash stakes and freezes --, the updates are the
   diff against the tracked set, and every committee is acceptable. *)
Theorem run_epoch_sound i vals ups comms :
  run_epoch i = EOk vals ups comms ->
  let ents := sort_by e_addr (post_ents i) in
  let nodes := sort_by n_id (post_nodes i) in
  fst (should_elect (i_base i) (i_epoch i) (i_changed i) (post_slashed i)) = true /\
  Forall (validator_ok (i_params i) ents (i_epoch i) nodes) vals /\
  len vals <= N.max 1 (p_max (i_params i)) /\ p_min (i_params i) <= len vals /\ 1 <= len vals /\
  ups = sort_by fst (diff_validators (i_current i) (powers_of vals)) /\
  exists vents,
    comms_ok (i_fv261 i) (i_params i) ents vents (i_epoch i) (committee_nodes i nodes)
             (vrf_blocked i) (i_rts i) (committee_srcs i) comms.
Proof.
  unfold run_epoch. cbv zeta.
  destruct (fst (should_elect (i_base i) (i_epoch i) (i_changed i) (post_slashed i))) eqn:Es; cbn [negb]; [|discriminate].
  destruct (elect_validators_t _ _ _ _ _ _ _) as [v ve| | |] eqn:Ev; try discriminate.
  intros [= <- <- <-]. apply elect_validators_t_sound in Ev. destruct Ev as [H1 [H2 [H3 H4]]].
  split; [reflexivity|]. repeat (split; [assumption|]). split; [reflexivity|].
  exists ve. apply elect_committees_ok.
Qed.

(* ---------- re-election after a slash ---------- *)
Lemma validator_ok_stake p ents epoch nodes kv :
  validator_ok p ents epoch nodes kv -> p_bypass p = false -> stake_ok ents (ent_of kv) = true.
Proof.
  intros [n [pw [_ [-> [_ [_ [_ [[Hb|Hs] _]]]]]]]] Hby; [congruence|exact Hs].
Qed.

(* an entity whose post-slash escrow no longer covers its claims has no
   validator in the re-elected set, and a node frozen by the slash is not in it *)
Theorem reelect_after_slash_excludes i vals ups comms :
  run_epoch i = EOk vals ups comms -> p_bypass (i_params i) = false ->
  (forall kv, In kv vals -> stake_ok (sort_by e_addr (post_ents i)) (ent_of kv) = true) /\
  (forall kv, In kv vals ->
     exists n, In n (post_nodes i) /\ n_id n = fst (fst (snd kv)) /\ n_freeze n = 0 /\ i_epoch i <= n_exp n).
Proof.
  intros H Hby. apply run_epoch_sound in H. cbv zeta in H. destruct H as [_ [Hv _]].
  rewrite Forall_forall in Hv. split; intros kv Hkv.
  - eapply validator_ok_stake; [apply Hv; exact Hkv|exact Hby].
  - destruct (Hv kv Hkv) as [n [pw [Hn [-> [Hf [He _]]]]]]. exists n. cbn [fst snd].
    apply In_sort_by in Hn. tauto.
Qed.

(* what the slash does to the state the election sees *)
Lemma slash_one_escrow addr amt ents :
  NoDup (map e_addr ents) ->
  escrow_of (map (slash_one addr amt) ents) addr = escrow_of ents addr - amt.
Proof.
  unfold escrow_of, find_ent. induction ents as [|e r IH]; intros Hnd; cbn [map find]; [lia|].
  destruct (e_addr e =? addr) eqn:E.
  - unfold slash_one. rewrite E. cbn [e_addr]. rewrite E. reflexivity.
  - assert (Hs : slash_one addr amt e = e) by (unfold slash_one; rewrite E; reflexivity).
    rewrite Hs, E. apply IH. cbn [map] in Hnd. inversion Hnd; assumption.
Qed.
Lemma freeze_one_frozen id u nodes n :
  In n (map (freeze_one id u) nodes) -> n_id n = id -> n_freeze n = u.
Proof.
  rewrite in_map_iff. intros [m [<- _]]. unfold freeze_one. destruct (n_id m =? id) eqn:E; cbn [n_id n_freeze]; [reflexivity|lia].
Qed.

Example ex_slash :
  let nodes := [mkNode 1 11 101 8 9 0 0 [] []; mkNode 2 12 102 8 9 0 0 [] []; mkNode 3 13 103 8 9 0 0 [] []] in
  let ents := [mkEnt 11 5000 [100; 200]; mkEnt 12 1000 [100; 200]; mkEnt 13 800 [100; 200]] in
  let mk := fun changed sl => mkIn (mkParams 1 2 1 false false) ents 7 nodes [] [[]; [0]; [0; 1]; [0; 1; 2]]
                               [[]; [0]; [0; 1]; [0; 1; 2]] [] [(101, 312); (102, 62)] true None 0 changed false sl in
  (* no epoch change, nothing slashed: no election *)
  run_epoch (mk false []) = ESkip /\
  (* entity 12 slashed below its claims and its node frozen: re-election replaces it by 13 *)
  run_epoch (mk false [(12, 800, Some (2, 9))]) =
    EOk [(101, (1, 11, 312)); (103, (3, 13, 50))] [(102, 0); (103, 50)] [] /\
  (* a slash of an empty account takes nothing: no event, no election *)
  run_epoch (mk false [(14, 800, None)]) = ESkip.
Proof. vm_compute. repeat split; reflexivity. Qed.

(* ---------- MinPoolSize is checked on the de-duplicated pool; MaxNodes ---------- *)
Lemma dedup_count lim : forall l seen e,
  cnt_of e seen <= lim -> count_node_ent e (dedup lim seen l) + cnt_of e seen <= lim.
Proof.
  induction l as [|x r IH]; intros seen e Hs; cbn [dedup].
  - unfold count_node_ent. cbn. lia.
  - destruct (lim <=? cnt_of (n_ent x) seen) eqn:El; [apply IH; exact Hs|].
    rewrite count_node_ent_cons.
    assert (Hs' : cnt_of e (aset (n_ent x) (cnt_of (n_ent x) seen + 1) seen) <= lim).
    { rewrite cnt_of_aset. destruct (n_ent x =? e) eqn:E; [lia|exact Hs]. }
    specialize (IH (aset (n_ent x) (cnt_of (n_ent x) seen + 1) seen) e Hs').
    rewrite cnt_of_aset in IH. destruct (n_ent x =? e) eqn:E; cbn [ind].
    + assert (n_ent x = e) by lia. subst e. lia.
    + lia.
Qed.

(* the candidate pool of a role IS the per-entity de-duplicated one *)
Theorem role_pool_deduplicated p ents vents epoch rt src cs cnodes lim e :
  c_max cs = Some lim -> 0 < lim ->
  count_node_ent e (role_pool p ents vents epoch rt src cs cnodes) <= lim.
Proof.
  intros Hc Hl. unfold role_pool. rewrite Hc.
  assert (E : (0 <? lim) = true) by lia. rewrite E.
  assert (H0 : cnt_of e (@nil (N * N)) <= lim) by (unfold cnt_of; cbn; lia).
  destruct src as [tbl|db eb].
  - pose proof (dedup_count lim (filter (role_eligible p ents vents epoch rt (src_haspi (ByTable tbl)) cs) cnodes) [] e H0). lia.
  - pose proof (dedup_count lim (vrf_sort db (filter (role_eligible p ents vents epoch rt (src_haspi (ByBeta db eb)) cs) cnodes)) [] e H0). lia.
Qed.

(* an elected committee's candidate pool AFTER per-entity de-duplication has at
   least MinPoolSize nodes, for each role that is filled; and no entity has
   more than MaxNodes members in a role (workers and backups each) *)
Theorem committee_pool_and_limits fv p ents vents epoch rt cnodes blocked sw sb ms :
  elect_committee fv p ents vents epoch rt cnodes blocked sw sb = Some ms ->
  min_pool (r_cw rt) <= len (role_pool p ents vents epoch rt sw (r_cw rt) cnodes) /\
  (r_bsize rt <> 0 -> min_pool (r_cb rt) <= len (role_pool p ents vents epoch rt sb (r_cb rt) cnodes)) /\
  exists w b,
    ms = map (fun n => (ROLE_WORKER, n_id n)) w ++ map (fun n => (ROLE_BACKUP, n_id n)) b /\
    (forall lim, c_max (r_cw rt) = Some lim -> forall e, count_node_ent e w <= lim) /\
    (forall lim, c_max (r_cb rt) = Some lim -> forall e, count_node_ent e b <= lim).
Proof.
  intros H. apply committee_sound in H.
  destruct H as [_ [_ [_ [_ [w [b [-> [[_ [_ [Hwl Hwm]]] Hb]]]]]]]].
  split; [exact Hwm|].
  destruct (r_bsize rt =? 0) eqn:E.
  - split; [intros; lia|]. exists w, b. split; [reflexivity|]. split; [exact Hwl|].
    subst b. intros lim _ e. unfold count_node_ent. cbn. lia.
  - destruct Hb as [_ [_ [Hbl Hbm]]]. split; [intros _; exact Hbm|].
    exists w, b. split; [reflexivity|]. split; assumption.
Qed.

(* the boundary: entity 11 has three eligible nodes, entity 12 one; MaxNodes 1,
   group size 2.  Raw pool 4, de-duplicated pool 2: MinPoolSize 3 => no
   committee, MinPoolSize 2 => committee. *)
Example ex_minpool_after_dedup :
  let mkn := fun id ent => mkNode id ent (id + 100) 1 9 0 0 [(77, 4294967296, None)] [] in
  let nodes := [mkn 21 11; mkn 22 11; mkn 23 11; mkn 24 12] in
  let rt := fun m => mkRt 77 true false 2 0 [(4294967296, 0)] (mkCs false (Some 1) (Some m)) (mkCs false None None) 0 in
  let tbl := ByTable [[]; [0]; [1; 0]; [2; 0; 1]; [3; 1; 0; 2]] in
  let ents := [mkEnt 11 5000 []; mkEnt 12 5000 []] in
  elect_committee true (mkParams 1 2 1 false false) ents [] 7 (rt 3) nodes false tbl tbl = None /\
  elect_committee true (mkParams 1 2 1 false false) ents [] 7 (rt 2) nodes false tbl tbl = Some [(1, 24); (1, 21)].
Proof. vm_compute. split; reflexivity. Qed.
