(* Reachability invariant of the commitment pool: in every pool reached from
   NewPool by adding verified commitments and processing, the entry of the
   highest-ranked scheduler holds that scheduler's own commitment. *)
From Verif Require Import Lib.Base Roothash.Pool Roothash.PoolSpec Roothash.PoolProofs.

(* what VerifyExecutorCommitment (pool.go:84-221) guarantees and the pool relies on:
   the commitment is for the round being processed (IsParentOf, :107) and a scheduler
   does not submit a failure for its own proposal (:118-126) *)
Definition verified (R : N) (ec : commitment) : Prop :=
  ec_round ec = R /\ (ec_node ec = ec_sched ec -> ec_fail ec = false).

Definition verified_op (R : N) (o : op) : Prop :=
  match o with OAdd ec => verified R ec | _ => True end.

(* distinct nodes have distinct scheduler ranks in round R *)
Definition rank_inj (c : committee) (R : N) : Prop :=
  forall a b r, scheduler_rank c R a = Some r -> scheduler_rank c R b = Some r -> a = b.

Definition small (c : committee) : Prop := N.of_nat (length c) <= U64MAX.

Definition below_ok (c : committee) (R : N) (p : pool) : Prop :=
  forall r sc n v, aget r (scs p) = Some sc -> r < hr p ->
                   aget n (sc_votes sc) = Some v -> scheduler_rank c R n <> Some r.
Definition hr_present (p : pool) : Prop :=
  hr p < U64MAX -> exists sc, aget (hr p) (scs p) = Some sc.
Definition no_worse (p : pool) : Prop :=
  forall r sc, aget r (scs p) = Some sc -> r <= hr p.

Definition inv (c : committee) (R : N) (p : pool) : Prop :=
  hr_entry_ok c p /\ below_ok c R p /\ hr_present p /\ no_worse p.

Lemma inv_new c R : inv c R new_pool.
Proof.
  repeat split.
  - intros sc H. discriminate H.
  - intros r sc n v H. discriminate H.
  - intros H. cbn in H. unfold U64MAX in H. lia.
  - intros r sc H. discriminate H.
Qed.

Lemma inv_process c R p strag timeout : inv c R p -> inv c R (fst (process c p strag timeout)).
Proof.
  intros (I1 & I2 & I3 & I4).
  pose proof (otherwise_wait_resolve_or_fail c p strag timeout) as S.
  destruct (process c p strag timeout) as [p' o]. cbn [fst snd] in *.
  destruct o; cbn [outcome_shape] in S;
    try (destruct S as [-> _]; repeat split; assumption).
  destruct S as (D & [sc0 Hsc0] & ->). repeat split.
  - intros sc H. cbn [hr scs] in H. rewrite aget_filter_eq, N.eqb_refl in H. apply I1. exact H.
  - intros r sc n v H Hlt. cbn [hr scs] in H, Hlt. rewrite aget_filter_eq in H.
    destruct (r =? hr p) eqn:E; [lia|discriminate H].
  - intros _. cbn [hr scs]. rewrite aget_filter_eq, N.eqb_refl. exists sc0. exact Hsc0.
  - intros r sc H. cbn [hr scs] in *. rewrite aget_filter_eq in H.
    destruct (r =? hr p) eqn:E; [lia|discriminate H].
Qed.

Lemma inv_add c R p ec :
  small c -> rank_inj c R -> verified R ec -> inv c R p -> inv c R (fst (add c p ec)).
Proof.
  intros Hsmall Hinj [HR Hvf] (I1 & I2 & I3 & I4). unfold add.
  destruct (negb (disc p) && negb (is_member c (ec_node ec))); [repeat split; assumption|].
  destruct (disc p && negb (is_backup_worker c (ec_node ec))); [repeat split; assumption|].
  rewrite HR.
  destruct (scheduler_rank c R (ec_sched ec)) as [rank|] eqn:Er; [|repeat split; assumption].
  destruct (scheduler_rank_some _ _ _ _ Er) as [Hprim Hlen].
  assert (Hrk : rank < U64MAX) by (unfold small in Hsmall; lia).
  destruct (hr p <? rank) eqn:E1; [repeat split; assumption|].
  destruct (negb (rank =? hr p) && disc p) eqn:E2; [repeat split; assumption|].
  destruct ((rank <? hr p) && (ec_node ec =? ec_sched ec)) eqn:El.
  - (* the scheduler of a better rank commits: highest rank lowered *)
    apply andb_true_iff in El as [El1 El2]. apply N.eqb_eq in El2.
    cbn [hr scs disc]. rewrite aget_filter_le, N.leb_refl.
    assert (Hnone : aget (ec_node ec)
                      (sc_votes (match aget rank (scs p) with Some sc => sc | None => empty_sc end)) = None).
    { destruct (aget rank (scs p)) as [sc0|] eqn:E0; [|reflexivity].
      destruct (aget (ec_node ec) (sc_votes sc0)) as [v|] eqn:Ev; [|reflexivity].
      exfalso. apply (I2 rank sc0 (ec_node ec) v E0 ltac:(lia) Ev). rewrite El2. exact Er. }
    unfold sc_add. rewrite Hnone. rewrite El2 at 1. rewrite N.eqb_refl.
    rewrite (Hvf El2). cbn [fst hr scs disc].
    repeat split; unfold hr_entry_ok, below_ok, hr_present, no_worse; cbn [hr scs disc].
    + intros sc H. rewrite aget_aset_same in H. injection H as <-. cbn [sc_commit sc_votes].
      exists ec. repeat split; try assumption; try (apply Hvf; exact El2).
      * rewrite El2. exact Hprim.
      * rewrite aget_aset_same. reflexivity.
    + intros r sc n v H Hlt. rewrite aget_aset_other in H by lia.
      rewrite aget_filter_le in H. destruct (r <=? rank); [|discriminate H].
      apply (I2 r sc n v H). lia.
    + intros _. rewrite aget_aset_same. eexists. reflexivity.
    + intros r sc H. destruct (N.eq_dec r rank) as [->|Hne]; [lia|].
      rewrite aget_aset_other in H by exact Hne. rewrite aget_filter_le in H.
      destruct (r <=? rank) eqn:E; [lia|discriminate H].
  - (* highest rank unchanged *)
    destruct (sc_add (match aget rank (scs p) with Some sc => sc | None => empty_sc end) ec) as [sc'|] eqn:Ea;
      cbn [fst]; [|repeat split; assumption].
    unfold sc_add in Ea.
    destruct (aget (ec_node ec) (sc_votes (match aget rank (scs p) with Some sc => sc | None => empty_sc end)))
      eqn:Hnone; [discriminate Ea|]. injection Ea as <-.
    assert (Hcase : rank = hr p \/ (rank < hr p /\ ec_node ec <> ec_sched ec)).
    { destruct (N.eq_dec rank (hr p)) as [->|Hne]; [left; reflexivity|right].
      assert (rank <? hr p = true) by lia. rewrite H in El. cbn [andb] in El.
      split; [lia|]. intros Heq. rewrite Heq, N.eqb_refl in El. discriminate El. }
    destruct Hcase as [Heq|[Hlt Hns]].
    + (* a vote for the highest-ranked scheduler *)
      destruct (I3 ltac:(lia)) as [sc0 Hsc0]. rewrite Heq in *. rewrite Hsc0 in *.
      destruct (I1 sc0 Hsc0) as (ec0 & Hc0 & Hn0 & Hf0 & Hp0 & Hv0).
      repeat split; unfold hr_entry_ok, below_ok, hr_present, no_worse; cbn [hr scs disc].
      * intros sc H. rewrite aget_aset_same in H. injection H as <-. cbn [sc_commit sc_votes].
        destruct (ec_node ec =? ec_sched ec) eqn:Eown.
        -- apply N.eqb_eq in Eown. exists ec. repeat split; try assumption; try (apply Hvf; exact Eown).
           ++ rewrite Eown. exact Hprim.
           ++ rewrite (Hvf Eown). rewrite aget_aset_same. reflexivity.
        -- exists ec0. repeat split; try assumption.
           rewrite aget_aset_other; [exact Hv0|]. intros Heq'. rewrite Heq' in Hv0. congruence.
      * intros r sc n v H Hlt. rewrite aget_aset_other in H by lia. apply (I2 r sc n v H Hlt).
      * intros _. rewrite aget_aset_same. eexists. reflexivity.
      * intros r sc H. destruct (N.eq_dec r (hr p)) as [->|Hne]; [lia|].
        rewrite aget_aset_other in H by exact Hne. apply (I4 r sc H).
    + (* a vote for a better-ranked scheduler that has not committed yet *)
      repeat split; unfold hr_entry_ok, below_ok, hr_present, no_worse; cbn [hr scs disc].
      * intros sc H. rewrite aget_aset_other in H by lia. apply I1. exact H.
      * intros r sc n v H Hlt'. destruct (N.eq_dec r rank) as [->|Hne].
        -- rewrite aget_aset_same in H. injection H as <-. cbn [sc_votes].
           destruct (N.eq_dec n (ec_node ec)) as [->|Hnn].
           ++ intros _ Hx. apply Hns. apply (Hinj _ _ rank Hx Er).
           ++ rewrite aget_aset_other by exact Hnn.
              destruct (aget rank (scs p)) as [sc0|] eqn:E0.
              ** intros Hv. apply (I2 rank sc0 n v E0 Hlt Hv).
              ** cbn. discriminate.
        -- rewrite aget_aset_other in H by exact Hne. apply (I2 r sc n v H Hlt').
      * intros Hx. rewrite aget_aset_other by lia. apply I3. exact Hx.
      * intros r sc H. destruct (N.eq_dec r rank) as [->|Hne]; [lia|].
        rewrite aget_aset_other in H by exact Hne. apply (I4 r sc H).
Qed.

Lemma inv_run c R ops : forall p,
  small c -> rank_inj c R -> Forall (verified_op R) ops -> inv c R p -> inv c R (run c ops p).
Proof.
  induction ops as [|o ops IH]; intros p Hs Hi Hv Hinv; cbn [run fold_left]; [exact Hinv|].
  change (fold_left (step c) ops (step c p o)) with (run c ops (step c p o)).
  inversion Hv as [|x xs Hvo Hvr]; subst.
  apply IH; try assumption.
  destruct o; cbn [step].
  - apply inv_add; assumption.
  - apply inv_process; assumption.
  - exact Hinv.
Qed.

(* the rule over every history of verified commitments *)
Lemma finalize_only_if_rule_reachable c R ops strag timeout p' sc :
  small c -> rank_inj c R -> Forall (verified_op R) ops ->
  process c (run c ops new_pool) strag timeout = (p', POk sc) ->
  rule c strag (disc (run c ops new_pool)) sc.
Proof.
  intros Hs Hi Hv H.
  destruct (inv_run c R ops new_pool Hs Hi Hv (inv_new c R)) as (I1 & _).
  eapply finalize_only_if_rule; eassumption.
Qed.

Lemma no_panic_reachable c R ops strag timeout :
  small c -> rank_inj c R -> Forall (verified_op R) ops ->
  snd (process c (run c ops new_pool) strag timeout) <> PPanic.
Proof.
  intros Hs Hi Hv.
  destruct (inv_run c R ops new_pool Hs Hi Hv (inv_new c R)) as (I1 & _).
  apply no_panic. exact I1.
Qed.

(* no entry of a scheduler ranked worse than the best committed one survives *)
Lemma no_worse_reachable c R ops r sc :
  small c -> rank_inj c R -> Forall (verified_op R) ops ->
  aget r (scs (run c ops new_pool)) = Some sc -> r <= hr (run c ops new_pool).
Proof.
  intros Hs Hi Hv.
  destruct (inv_run c R ops new_pool Hs Hi Hv (inv_new c R)) as (_ & _ & _ & I4).
  apply I4.
Qed.

(* ---------- distinct workers have distinct ranks unless round + size wraps around 2^64 ---------- *)

Fixpoint wprefix (l : committee) : list N :=
  match l with
  | (ro, k) :: r => if is_rworker ro then k :: wprefix r else []
  | [] => []
  end.

Lemma rank_scan_idx l id : forall total idx isw t' i' w',
  rank_scan l id total idx isw = (t', i', w') ->
  t' = total + N.of_nat (length (wprefix l)) /\
  (w' = true -> (isw = true /\ i' = idx) \/
                (total <= i' /\ nth_error (wprefix l) (N.to_nat (i' - total)) = Some id)).
Proof.
  induction l as [|[ro k] r IH]; intros total idx isw t' i' w'; cbn [rank_scan wprefix].
  - intros H. injection H as <- <- <-. cbn [length]. split; [lia|]. intros ->. left. split; reflexivity.
  - destruct (is_rworker ro).
    + cbn [length]. destruct (k =? id) eqn:E; intros H; apply IH in H as [H1 H2]; (split; [lia|]); intros Hw;
        destruct (H2 Hw) as [[Ha Hb]|[Ha Hb]].
      * right. subst i'. split; [lia|]. replace (N.to_nat (total - total)) with 0%nat by lia.
        cbn [nth_error]. apply N.eqb_eq in E. congruence.
      * right. split; [lia|]. replace (N.to_nat (i' - total)) with (S (N.to_nat (i' - (total + 1)))) by lia.
        cbn [nth_error]. exact Hb.
      * left. split; assumption.
      * right. split; [lia|]. replace (N.to_nat (i' - total)) with (S (N.to_nat (i' - (total + 1)))) by lia.
        cbn [nth_error]. exact Hb.
    + intros H. injection H as <- <- <-. cbn [length]. split; [lia|]. intros ->. left. split; reflexivity.
Qed.

Lemma mod_inj_window T x y : 0 < T -> x mod T = y mod T -> x <= y -> y - x < T -> x = y.
Proof.
  intros HT Hm Hle Hlt.
  pose proof (N.div_mod x T ltac:(lia)) as Hx. pose proof (N.div_mod y T ltac:(lia)) as Hy.
  rewrite Hm in Hx.
  assert (x / T <= y / T) by (apply N.div_le_mono; lia).
  assert (y / T = x / T) by nia. nia.
Qed.

Lemma rank_inj_no_wrap c R : R + N.of_nat (length c) <= W64 -> rank_inj c R.
Proof.
  intros Hnw a b r Ha Hb. unfold scheduler_rank in Ha, Hb.
  destruct (rank_scan c a 0 0 false) as [[Ta ia] wa] eqn:Ea.
  destruct (rank_scan c b 0 0 false) as [[Tb ib] wb] eqn:Eb.
  pose proof (rank_scan_spec _ _ _ _ _ _ _ _ Ea) as (_ & HTa & _).
  apply rank_scan_idx in Ea as [HTa' Hia]. apply rank_scan_idx in Eb as [HTb' Hib].
  destruct wa; [|discriminate Ha]. destruct wb; [|discriminate Hb].
  destruct (Hia eq_refl) as [[Hf _]|[_ Hna]]; [discriminate Hf|].
  destruct (Hib eq_refl) as [[Hf _]|[_ Hnb]]; [discriminate Hf|].
  rewrite N.sub_0_r in Hna, Hnb.
  assert (Hla : (N.to_nat ia < length (wprefix c))%nat) by (apply nth_error_Some; congruence).
  assert (Hlb : (N.to_nat ib < length (wprefix c))%nat) by (apply nth_error_Some; congruence).
  injection Ha as Ha. injection Hb as Hb. subst Tb. rewrite HTa' in *.
  set (T := 0 + N.of_nat (length (wprefix c))) in *.
  assert (HT : 0 < T) by (unfold T; lia).
  assert (Hia' : ia < T) by (unfold T; lia). assert (Hib' : ib < T) by (unfold T; lia).
  rewrite (N.mod_small (R + ia) W64) in Ha by lia.
  rewrite (N.mod_small (R + ib) W64) in Hb by lia.
  assert (Heq : ia = ib).
  { destruct (N.le_ge_cases ia ib) as [Hle|Hle].
    - assert (R + ia = R + ib) by (apply (mod_inj_window T); [exact HT|congruence|lia|lia]). lia.
    - assert (R + ib = R + ia) by (apply (mod_inj_window T); [exact HT|congruence|lia|lia]). lia. }
  subst ib. congruence.
Qed.

Lemma finalize_only_if_rule_history c R ops strag timeout p' sc :
  R + N.of_nat (length c) < W64 -> Forall (verified_op R) ops ->
  process c (run c ops new_pool) strag timeout = (p', POk sc) ->
  rule c strag (disc (run c ops new_pool)) sc.
Proof.
  intros Hnw. apply finalize_only_if_rule_reachable.
  - unfold small, U64MAX. unfold W64 in Hnw. lia.
  - apply rank_inj_no_wrap. lia.
Qed.

Example ex_history_premises :
  0 + N.of_nat (length ex_c) < W64 /\ Forall (verified_op 0) ex_discrepant /\ Forall (verified_op 0) ex_unanimous.
Proof.
  split; [vm_compute; reflexivity|].
  split; repeat constructor; cbn; try discriminate; try reflexivity.
Qed.
