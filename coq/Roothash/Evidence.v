(* Executable model of equivocation evidence: go/roothash/api/api.go (Evidence.ValidateBasic 259,
   EquivocationExecutorEvidence.ValidateBasic 281-336, EquivocationProposalEvidence.ValidateBasic
   347-379), commitment/proposal.go (ProposalHeader.Equal 53) and submitEvidence
   (consensus/cometbft/apps/roothash/transactions.go:176-310, with the repaired transaction
   layer: the evidence hash is recorded and the node slashed in one transaction).
   Definitions only.  Signatures are abstract booleans measured by the harness. *)
From Verif Require Import Lib.Base Roothash.Pool Roothash.Verify Roothash.App.

(* a commitment inside evidence: the projected commitment plus the (interned) values of the
   result fields compared by the evidence check; 0 when absent *)
Record ecommit := mkEV { e_vc : vcommit; e_io : N; e_state : N; e_mh : N }.

Inductive ev_res :=
| EvOk
| EvEqual            (* api.go:282 commits are (mostly) equal *)
| EvNodeMismatch     (* :286 *)
| EvSchedMismatch    (* :290 *)
| EvRoundMismatch    (* :294 *)
| EvHasMessages      (* :298 *)
| EvBadA | EvBadB    (* :302, :305 ValidateBasic of a commitment *)
| EvHeadersMatch     (* :319 *)
| EvFailureMatch     (* :323 *)
| EvSigA | EvSigB.   (* :328, :331 *)

(* executor.go:140 ExecutorCommitmentHeader.MostlyEqual *)
Definition mostly_equal (a b : vcommit) : bool :=
  (vc_fcode a =? vc_fcode b) && (vc_vote a =? vc_vote b).

(* api.go:281 *)
Definition exec_evidence_check (a b : ecommit) : ev_res :=
  let va := e_vc a in let vb := e_vc b in
  if mostly_equal va vb then EvEqual
  else if negb (vc_node va =? vc_node vb) then EvNodeMismatch
  else if negb (vc_sched va =? vc_sched vb) then EvSchedMismatch
  else if negb (vc_round va =? vc_round vb) then EvRoundMismatch
  else if (0 <? vc_nmsgs va) || (0 <? vc_nmsgs vb) then EvHasMessages
  else if negb (validate_basic va) then EvBadA
  else if negb (validate_basic vb) then EvBadB
  else if (vc_fcode va =? 0) && (vc_fcode vb =? 0) then
    (if (vc_prev va =? vc_prev vb) && (e_io a =? e_io b) && (e_state a =? e_state b)
        && (e_mh a =? e_mh b)
     then EvHeadersMatch
     else if negb (vc_sig_ok va) then EvSigA else if negb (vc_sig_ok vb) then EvSigB else EvOk)
  else if vc_fcode va =? vc_fcode vb then EvFailureMatch
  else if negb (vc_sig_ok va) then EvSigA else if negb (vc_sig_ok vb) then EvSigB else EvOk.

(* commitment/proposal.go:66 Proposal, projected *)
Record proposal := mkPR {
  pr_node : N; pr_round : N; pr_prev : N; pr_batch_hash : N;
  pr_nbatch : N; pr_has_bsig : bool; pr_sig_ok : bool }.

Inductive pev_res :=
| PvOk | PvEqual | PvNodeMismatch | PvRoundMismatch | PvHasBatch | PvHasBatchSig | PvSigA | PvSigB.

(* proposal.go:53 *)
Definition header_equal (a b : proposal) : bool :=
  (pr_round a =? pr_round b) && (pr_prev a =? pr_prev b) && (pr_batch_hash a =? pr_batch_hash b).

(* api.go:347 *)
Definition prop_evidence_check (a b : proposal) : pev_res :=
  if header_equal a b then PvEqual
  else if negb (pr_node a =? pr_node b) then PvNodeMismatch
  else if negb (pr_round a =? pr_round b) then PvRoundMismatch
  else if (0 <? pr_nbatch a) || (0 <? pr_nbatch b) then PvHasBatch
  else if pr_has_bsig a || pr_has_bsig b then PvHasBatchSig
  else if negb (pr_sig_ok a) then PvSigA else if negb (pr_sig_ok b) then PvSigB else PvOk.

Inductive evidence :=
| EExec (a b : ecommit)
| EProp (a b : proposal)
| EBoth            (* api.go:261 both fields set *)
| ENone.           (* api.go:267 no field set *)

(* api.go:259 *)
Definition evidence_valid (e : evidence) : bool :=
  match e with
  | EExec a b => match exec_evidence_check a b with EvOk => true | _ => false end
  | EProp a b => match prop_evidence_check a b with PvOk => true | _ => false end
  | _ => false
  end.

Definition ev_round (e : evidence) : N :=
  match e with EExec a _ => vc_round (e_vc a) | EProp a _ => pr_round a | _ => 0 end.
Definition ev_node (e : evidence) : N :=
  match e with EExec a _ => vc_node (e_vc a) | EProp a _ => pr_node a | _ => 0 end.

(* transactions.go:176 submitEvidence.  store = evidence hashes recorded for the runtime;
   id = evidence.Hash() interned; slashes = the runtime has a non-zero equivocation penalty;
   registered = the accused key is a registered node (onEvidenceRuntimeEquivocation).
   Codes: 0 ok, 40 invalid evidence, 41 runtime does not slash, 42 duplicate, 30/31/32 as
   getRuntimeState. *)
Definition submit_evidence (st : rt_state) (store : list N) (slashes : bool) (max_age : N)
           (e : evidence) (id : N) (registered : bool) : list N * N :=
  if negb (evidence_valid e) then (store, 40)                                  (* :182 *)
  else if rs_suspended st then (store, 30)                                     (* :213 getRuntimeState *)
  else match rs_committee st, rs_pool st with
  | None, _ => (store, 31)
  | _, None => (store, 32)
  | Some _, Some _ =>
      if negb slashes then (store, 41)                                         (* :218-232 *)
      else if (ev_round e + max_age) mod W64 <? rs_round st then (store, 40)   (* :241, :255 expired *)
      else if existsb (N.eqb id) store then (store, 42)                        (* :279-281 *)
      else if negb registered then (store, 40)    (* :298-305: slashing fails, nothing is recorded *)
      else (id :: store, 0)
  end.

(* ---------- observables ---------- *)
Definition evidence_code (e : evidence) : N :=
  match e with
  | EExec a b =>
      match exec_evidence_check a b with
      | EvOk => 0 | EvEqual => 1 | EvNodeMismatch => 2 | EvSchedMismatch => 3 | EvRoundMismatch => 4
      | EvHasMessages => 5 | EvBadA => 6 | EvBadB => 7 | EvHeadersMatch => 8 | EvFailureMatch => 9
      | EvSigA => 10 | EvSigB => 11
      end
  | EProp a b =>
      match prop_evidence_check a b with
      | PvOk => 0 | PvEqual => 21 | PvNodeMismatch => 22 | PvRoundMismatch => 23 | PvHasBatch => 24
      | PvHasBatchSig => 25 | PvSigA => 26 | PvSigB => 27
      end
  | EBoth => 31
  | ENone => 32
  end.

(* evidence transactions inside the application history *)
Record ev_tx := mkET { et_ev : evidence; et_id : N; et_registered : bool }.

Fixpoint run_evs (st : rt_state) (store : list N) (slashes : bool) (max_age : N) (evs : list ev_tx)
  : list N * list N :=
  match evs with
  | [] => (store, [])
  | t :: r =>
      let '(s1, code) := submit_evidence st store slashes max_age (et_ev t) (et_id t) (et_registered t) in
      let '(s2, codes) := run_evs st s1 slashes max_age r in
      (s2, code :: codes)
  end.

Record eblock := mkEB { eb_block : ablock; eb_evs : list ev_tx }.

(* evidence transactions do not touch the fields they read (round, suspension, presence of
   committee and pool are only changed in BeginBlock / EndBlock), so they are evaluated on the
   state after BeginBlock *)
Fixpoint app_run_ev (prm : rt_params) (slashes : bool) (max_age : N) (st : rt_state) (store : list N)
         (bs : list eblock) : list (block_obs * list N) :=
  match bs with
  | [] => []
  | b :: r =>
      let st_begin := fst (begin_block prm st (ab_epoch (eb_block b))) in
      let '(store1, codes) := run_evs st_begin store slashes max_age (eb_evs b) in
      let '(st1, o) := app_block prm st (eb_block b) in
      (o, codes) :: app_run_ev prm slashes max_age st1 store1 r
  end.

Definition run_ecase (x : rt_params * (bool * N) * (N * N) * list eblock) : list (block_obs * list N) :=
  match x with
  | (prm, (slashes, max_age), (round, root), bs) =>
      app_run_ev prm slashes max_age (new_runtime prm round root) [] bs
  end.
Definition ecase_eqb (a b : list (block_obs * list N)) : bool :=
  list_eqb (fun x y => bo_eqb (fst x) (fst y) && list_eqb N.eqb (snd x) (snd y)) a b.
Definition noEvs : list ev_tx := [].
