(* Executable model of the roothash application's round finalization:
   go/consensus/cometbft/apps/roothash/finalization.go (tryFinalizeRoundInsideTx 67-277,
   finalizeBlock 279-329, failRound 331-358), timeout.go (processRoundTimeouts 19-51,
   rearmRoundTimeout 53-83), transactions.go (getRuntimeState 21-42, executorCommit 44-174)
   and the committee-change part of roothash.go (onRuntimeCommitteeChanged 129-253,
   EndBlock 418-428).  Definitions only.

   Abstractions: one runtime; the runtime block is (round, header type, state root); block
   hashes and the state root carried by a commitment are tables supplied with the input
   (hash of the block of round r; state root of the header whose vote hash is v); the
   scheduler's election result is an input of the block in which the committee changes;
   liveness statistics, slashing, runtime messages and round results are not modelled; the
   round-timeout index is identified with the field NextTimeout (all writers go through
   rearmRoundTimeout). *)
From Verif Require Import Lib.Base Roothash.Pool Roothash.Verify.

(* roothash/api/block/header.go HeaderType *)
Inductive hdr_type := HInvalid | HNormal | HRoundFailed | HEpochTransition | HSuspended.
Definition hdr_code (h : hdr_type) : N :=
  match h with HInvalid => 0 | HNormal => 1 | HRoundFailed => 2 | HEpochTransition => 3 | HSuspended => 4 end.

(* roothash/api/api.go:35 *)
Definition TimeoutNever : Z := 0%Z.

(* roothash/api/liveness.go:4 LivenessStatistics, counters in committee order *)
Record liveness := mkLV {
  lv_total : N;                   (* TotalRounds *)
  lv_live : list N;               (* LiveRounds *)
  lv_fin : list N;                (* FinalizedProposals *)
  lv_miss : list N }.             (* MissedProposals *)
(* liveness.go:29 *)
Definition new_liveness (n : nat) : liveness := mkLV 0 (repeat 0 n) (repeat 0 n) (repeat 0 n).
(* counter[i]++ ; out of range = Go index panic, the list is returned unchanged *)
Fixpoint inc_nth (i : nat) (l : list N) : list N :=
  match l, i with
  | [], _ => []
  | x :: r, O => (x + 1) :: r
  | x :: r, S j => x :: inc_nth j r
  end.

Record rt_state := mkRS {
  rs_round : N;                   (* LastBlock.Header.Round *)
  rs_root : N;                    (* LastBlock.Header.StateRoot, interned *)
  rs_htype : hdr_type;            (* LastBlock.Header.HeaderType *)
  rs_pool : option pool;          (* CommitmentPool *)
  rs_committee : option committee;
  rs_suspended : bool;
  rs_next_timeout : Z;
  rs_io : N;                      (* LastBlock.Header.IORoot *)
  rs_prev : N;                    (* LastBlock.Header.PreviousHash *)
  rs_msgs : N;                    (* LastBlock.Header.MessagesHash *)
  rs_live : option liveness;      (* LivenessStatistics (nil until the first finalization attempt of an epoch) *)
  rs_results : list N * list N }. (* last normal round results: good / bad compute nodes *)

Record rt_params := mkRP {
  rp_strag : N;                   (* Runtime.Executor.AllowedStragglers *)
  rp_round_timeout : Z;           (* Runtime.Executor.RoundTimeout *)
  rp_max_msgs : N;
  rp_hashes : list (N * N);       (* round -> encoded hash of the runtime block of that round *)
  rp_roots : list (N * N);        (* vote hash -> state root of that header *)
  rp_ios : list (N * N);          (* vote hash -> IO root of that header *)
  rp_mhs : list (N * N);          (* vote hash -> messages hash of that header *)
  rp_empty : N }.                 (* the empty hash *)

Definition lookup (k : N) (l : list (N * N)) : N := match aget k l with Some v => v | None => 0 end.

Inductive app_event :=
| EvFinalized (round : N)
| EvDiscrepancy (round rank : N) (timeout : bool).

(* finalization.go:279 finalizeBlock; hdr = (state root, IO root, messages hash) of the chosen
   commitment's header for a Normal block.  block.NewEmptyBlock (block.go:33): round + 1,
   previous hash = hash of the last block, state root unchanged, IO root / messages hash empty. *)
Definition finalize_block (prm : rt_params) (st : rt_state) (ht : hdr_type) (hdr : option (N * N * N))
  : rt_state * list app_event :=
  let round := (rs_round st + 1) mod W64 in
  let '(sr, io, mh) :=
    match ht, hdr with
    | HNormal, Some x => x                                                 (* :283-289 *)
    | _, _ => (rs_root st, rp_empty prm, rp_empty prm)
    end in
  (mkRS round sr ht
        (match ht with HSuspended => None | _ => Some new_pool end)       (* :317-322 *)
        (rs_committee st) (rs_suspended st)
        TimeoutNever                                                       (* :325-328 *)
        io (lookup (rs_round st) (rp_hashes prm)) mh
        (rs_live st) (rs_results st),
   [EvFinalized round]).

(* scheduler/api/api.go:211 SchedulerIdx *)
Fixpoint worker_count (c : committee) : N :=
  match c with
  | (ro, _) :: r => if is_rworker ro then 1 + worker_count r else 0
  | [] => 0
  end.
Definition scheduler_idx (c : committee) (round rank : N) : option N :=
  let total := worker_count c in
  if total <=? rank then None
  else Some ((rank + total - round mod total) mod total).

(* finalization.go:198-243: the loop computing good / bad compute nodes and LiveRounds; a node
   holding several roles is counted once, at its first position (the [seen] map) *)
Fixpoint live_loop (votes : list (N * option N)) (sv : N) (ms : committee) (i : nat) (seen : list N)
         (live : list N) (good bad : list N) : list N * list N * list N :=
  match ms with
  | [] => (live, good, bad)
  | (_, k) :: r =>
      match aget k votes with
      | Some (Some v) =>
          if existsb (N.eqb k) seen then live_loop votes sv r (S i) seen live good bad
          else if v =? sv
               then live_loop votes sv r (S i) (k :: seen) (inc_nth i live) (good ++ [k]) bad
               else live_loop votes sv r (S i) (k :: seen) live good (bad ++ [k])
      | _ => live_loop votes sv r (S i) seen live good bad
      end
  end.

Definition live_of (st : rt_state) (c : committee) : liveness :=
  match rs_live st with Some l => l | None => new_liveness (length c) end.   (* :77-80 *)

Inductive tf_result :=
| TFOk (st : rt_state) (evs : list app_event)
| TFErrDiscrepancy            (* finalization.go:134-138: second ErrDiscrepancyDetected is returned *)
| TFErrNilCommitment          (* nil dereference of sc.Commitment *)
| TFErrPanic                  (* the pool panicked *)
| TFErrNoWorkers.             (* finalization.go:153, :348: no primary scheduler *)

Definition with_pool (s : rt_state) (p2 : pool) (l : liveness) (res : list N * list N) : rt_state :=
  mkRS (rs_round s) (rs_root s) (rs_htype s) (Some p2) (rs_committee s) (rs_suspended s)
       (rs_next_timeout s) (rs_io s) (rs_prev s) (rs_msgs s) (Some l) res.

(* finalization.go:140-276: the round has been finalized with scheduler commitment [sc] whose own
   commitment is [ec].  None = no primary scheduler (error return at :153). *)
Definition finalize_normal (prm : rt_params) (c : committee) (s : rt_state) (p2 : pool) (lv : liveness)
           (sc : sched_commitment) (ec : commitment) : option (rt_state * list app_event) :=
  let round := (rs_round s + 1) mod W64 in
  match scheduler_idx c round 0 with                                       (* :150 *)
  | None => None
  | Some first =>
      let fi := N.to_nat first in
      let first_is_sched :=
        match nth_error c fi with
        | Some (_, k) => k =? ec_sched ec | None => false end in           (* :157-162 *)
      let '(live, good, bad) :=
        live_loop (sc_votes sc) (ec_vote ec) c 0 [] (lv_live lv) [] [] in  (* :196-243 *)
      let lv' := mkLV (lv_total lv + 1) live                               (* :147 *)
                      (if first_is_sched then inc_nth fi (lv_fin lv) else lv_fin lv)
                      (if first_is_sched then lv_miss lv else inc_nth fi (lv_miss lv)) in
      let v := ec_vote ec in
      Some (finalize_block prm (with_pool s p2 lv' (good, bad)) HNormal
              (Some (lookup v (rp_roots prm), lookup v (rp_ios prm), lookup v (rp_mhs prm))))  (* :276 *)
  end.

(* finalization.go:331 failRound *)
Definition fail_round (prm : rt_params) (c : committee) (s : rt_state) (p2 : pool) (lv : liveness)
  : option (rt_state * list app_event) :=
  let round := (rs_round s + 1) mod W64 in
  match scheduler_idx c round 0 with                                       (* :346 *)
  | None => None
  | Some first =>
      let lv' := mkLV (lv_total lv) (lv_live lv) (lv_fin lv)
                      (inc_nth (N.to_nat first) (lv_miss lv)) in           (* :351 *)
      Some (finalize_block prm (with_pool s p2 lv' (rs_results s)) HRoundFailed None)   (* :353 *)
  end.

(* finalization.go:81-115: ProcessCommitments, and on a detected discrepancy the event, the
   re-armed timeout and the second ProcessCommitments *)
Definition tf_decide (H : Z) (prm : rt_params) (c : committee) (p : pool) (st : rt_state)
           (timeout : bool) : rt_state * pool * outcome * list app_event :=
  let round := (rs_round st + 1) mod W64 in
  let '(p1, o1) := process c p (rp_strag prm) timeout in                   (* :81 *)
  match o1 with
  | PDiscrepancy =>                                                        (* :83 *)
      let nt := (H + (rp_round_timeout prm * 15) / 10)%Z in                (* :104 *)
      let timeout' := (nt =? H)%Z in                                       (* :111 *)
      let '(p2, o2) := process c p1 (rp_strag prm) timeout' in             (* :114 *)
      (mkRS (rs_round st) (rs_root st) (rs_htype st) (rs_pool st) (rs_committee st)
            (rs_suspended st) nt (rs_io st) (rs_prev st) (rs_msgs st) (rs_live st) (rs_results st),
       p2, o2, [EvDiscrepancy round (hr p1) timeout])
  | _ => (st, p1, o1, [])
  end.

Definition opt_result (ev : list app_event) (r : option (rt_state * list app_event)) : tf_result :=
  match r with
  | Some (st2, e2) => TFOk st2 (ev ++ e2)
  | None => TFErrNoWorkers
  end.

(* finalization.go:67 tryFinalizeRoundInsideTx (pool and committee present) *)
Definition try_finalize (H : Z) (prm : rt_params) (c : committee) (p : pool) (st : rt_state)
           (timeout : bool) : tf_result :=
  let lv := live_of st c in                                                 (* :77-80 *)
  let '(st1, p2, o2, ev) := tf_decide H prm c p st timeout in
  match o2 with
  | POk sc =>
      match sc_commit sc with
      | None => TFErrNilCommitment
      | Some ec => opt_result ev (finalize_normal prm c st1 p2 lv sc ec)
      end
  | PStillWaiting => TFOk (with_pool st1 p2 lv (rs_results st1)) ev        (* :120-126 *)
  | PNoScheduler | PBadScheduler | PInsufficientVotes =>                   (* :127-132 *)
      opt_result ev (fail_round prm c st1 p2 lv)
  | PDiscrepancy => TFErrDiscrepancy
  | PPanic => TFErrPanic
  end.

(* the transaction result only shows the Go error value: ErrBadExecutorCommitment and
   ErrNotInCommittee are the same value whether returned by verify or by add *)
Definition tx_code (c : N) : N := if c =? 22 then 2 else if c =? 24 then 1 else c.

(* transactions.go:94-121: the verify-and-add loop over the commitments of ONE transaction;
   code 0 = all accepted, otherwise the error of the first rejected commitment *)
Fixpoint commit_all (round bh mm : N) (c : committee) (p : pool) (vcs : list vcommit) : pool * N :=
  match vcs with
  | [] => (p, 0)
  | vc :: r =>
      match verify round bh mm vc with
      | VOk =>
          let '(p1, e) := add c p (vc_ec vc) in
          match e with
          | AOk => commit_all round bh mm c p1 r
          | _ => (p1, add_class e)
          end
      | e => (p, tx_code (verify_code e))
      end
  end.

(* transactions.go:44 executorCommit.  All-or-nothing: the runtime state is stored only when
   every commitment of the transaction was accepted (:159).  Result: (state, code, registered
   for finalization in EndBlock).  Code: 0 ok, verify / add classes as in Verify.v / Pool.v,
   30 suspended, 31 no committee, 32 no pool. *)
Definition executor_commit (H : Z) (prm : rt_params) (st : rt_state) (vcs : list vcommit)
  : rt_state * N * bool :=
  match vcs with
  | [] => (st, 0, false)                                                   (* :69-71 *)
  | _ =>
  if rs_suspended st then (st, 30, false)                                  (* :31 *)
  else match rs_committee st, rs_pool st with
  | None, _ => (st, 31, false)                                             (* :34 *)
  | _, None => (st, 32, false)                                             (* :37 *)
  | Some c, Some p =>
      let '(p1, code) := commit_all (rs_round st) (lookup (rs_round st) (rp_hashes prm))
                                    (rp_max_msgs prm) c p vcs in
      if code =? 0 then
        let nt := if hr p =? hr p1 then rs_next_timeout st
                  else (H + rp_round_timeout prm)%Z in                     (* :135-151 *)
        (mkRS (rs_round st) (rs_root st) (rs_htype st) (Some p1) (rs_committee st)
              (rs_suspended st) nt (rs_io st) (rs_prev st) (rs_msgs st) (rs_live st) (rs_results st), 0, true)                               (* :159, :172 *)
      else (st, code, false)          (* the transaction fails, nothing is stored *)
  end
  end.

(* one consensus block *)
Record ablock := mkAB {
  ab_height : Z;
  (* BeginBlock: None = no committee change for this runtime; Some None = no committee
     elected (suspend); Some (Some c) = new committee *)
  ab_epoch : option (option committee);
  ab_txs : list (list vcommit) }.   (* ExecutorCommit transactions, each with its commitments *)

Fixpoint run_txs (H : Z) (prm : rt_params) (st : rt_state) (txs : list (list vcommit)) (fin : bool)
  : rt_state * list N * bool :=
  match txs with
  | [] => (st, [], fin)
  | vcs :: r =>
      let '(st1, code, reg) := executor_commit H prm st vcs in
      let '(st2, codes, fin2) := run_txs H prm st1 r (fin || reg) in
      (st2, code :: codes, fin2)
  end.

(* roothash.go:129 onRuntimeCommitteeChanged *)
Definition begin_block (prm : rt_params) (st : rt_state) (ep : option (option committee))
  : rt_state * list app_event :=
  match ep with
  | None => (st, [])
  | Some None =>
      let '(s, e) := finalize_block prm st HSuspended None in             (* :219 *)
      (mkRS (rs_round s) (rs_root s) (rs_htype s) (rs_pool s) None true (rs_next_timeout s)
            (rs_io s) (rs_prev s) (rs_msgs s) None (rs_results s), e)     (* :243 liveness cleared *)
  | Some (Some c) =>
      let '(s, e) := finalize_block prm st HEpochTransition None in       (* :233 *)
      (mkRS (rs_round s) (rs_root s) (rs_htype s) (rs_pool s) (Some c) false (rs_next_timeout s)
            (rs_io s) (rs_prev s) (rs_msgs s) None (rs_results s), e)
  end.

Inductive end_result :=
| EndOk (st : rt_state) (evs : list app_event)
| EndHalt (code : N).   (* EndBlock returns an error: 1 getRuntimeState failed, 2 discrepancy, 3 nil commitment, 4 panic *)

Definition tf_end (r : tf_result) : end_result :=
  match r with
  | TFOk s e => EndOk s e
  | TFErrDiscrepancy => EndHalt 2 | TFErrNilCommitment => EndHalt 3 | TFErrPanic => EndHalt 4
  | TFErrNoWorkers => EndHalt 5
  end.

(* finalization.go:36 tryFinalizeRound: getRuntimeState, then finalize *)
Definition try_finalize_round (H : Z) (prm : rt_params) (st : rt_state) (timeout : bool) : end_result :=
  if rs_suspended st then EndHalt 1
  else match rs_committee st, rs_pool st with
       | Some c, Some p => tf_end (try_finalize H prm c p st timeout)
       | _, _ => EndHalt 1
       end.

(* roothash.go:418 EndBlock: registered runtimes, then expired round timeouts *)
Definition end_block (H : Z) (prm : rt_params) (st : rt_state) (fin : bool) : end_result :=
  let r1 := if fin then try_finalize_round H prm st false else EndOk st [] in
  match r1 with
  | EndHalt c => EndHalt c
  | EndOk st1 e1 =>
      if (rs_next_timeout st1 =? H)%Z && negb (H =? TimeoutNever)%Z then    (* timeout.go:22 *)
        match try_finalize_round H prm st1 true with
        | EndOk st2 e2 => EndOk st2 (e1 ++ e2)
        | EndHalt c => EndHalt c
        end
      else EndOk st1 e1
  end.

Record block_obs := mkBO {
  bo_codes : list N;
  bo_begin : list app_event;
  bo_end : list app_event;
  bo_halt : N;                 (* 0 = EndBlock succeeded *)
  bo_round : N; bo_htype : N; bo_root : N;
  bo_next_timeout : Z; bo_suspended : bool;
  bo_pool : option (N * bool);
  bo_io : N; bo_prev : N; bo_msgs : N;
  bo_live : option (N * list N * list N * list N);
  bo_results : N * N }.        (* number of good / bad compute nodes of the last normal round *)

Definition app_block (prm : rt_params) (st : rt_state) (b : ablock) : rt_state * block_obs :=
  let H := ab_height b in
  let '(st1, eb) := begin_block prm st (ab_epoch b) in
  let '(st2, codes, fin) := run_txs H prm st1 (ab_txs b) false in
  let '(st3, ee, halt) :=
    match end_block H prm st2 fin with
    | EndOk s e => (s, e, 0)
    | EndHalt c => (st2, [], c)
    end in
  (st3, mkBO codes eb ee halt (rs_round st3) (hdr_code (rs_htype st3)) (rs_root st3)
             (rs_next_timeout st3) (rs_suspended st3)
             (match rs_pool st3 with Some p => Some (hr p, disc p) | None => None end)
             (rs_io st3) (rs_prev st3) (rs_msgs st3)
             (match rs_live st3 with
              | Some l => Some (lv_total l, lv_live l, lv_fin l, lv_miss l) | None => None end)
             (N.of_nat (length (fst (rs_results st3))), N.of_nat (length (snd (rs_results st3))))).

Fixpoint app_run (prm : rt_params) (st : rt_state) (bs : list ablock) : list block_obs :=
  match bs with
  | [] => []
  | b :: r => let '(st1, o) := app_block prm st b in o :: app_run prm st1 r
  end.

Definition app_states (prm : rt_params) (st : rt_state) (bs : list ablock) : rt_state :=
  fold_left (fun s b => fst (app_block prm s b)) bs st.

(* roothash.go:343 onNewRuntime: suspended, genesis block, no timeout *)
Definition new_runtime (prm : rt_params) (round root : N) : rt_state :=
  mkRS round root HNormal None None true TimeoutNever
       (rp_empty prm) (rp_empty prm) (rp_empty prm) None ([], []).

Definition run_acase (x : rt_params * (N * N) * list ablock) : list block_obs :=
  match x with (prm, (round, root), bs) => app_run prm (new_runtime prm round root) bs end.

(* ---- comparison ---- *)
Definition ev_eqb (a b : app_event) : bool :=
  match a, b with
  | EvFinalized x, EvFinalized y => x =? y
  | EvDiscrepancy r1 k1 t1, EvDiscrepancy r2 k2 t2 => (r1 =? r2) && (k1 =? k2) && Bool.eqb t1 t2
  | _, _ => false
  end.
Definition opool_eqb (a b : option (N * bool)) : bool :=
  match a, b with
  | None, None => true
  | Some (h1, d1), Some (h2, d2) => (h1 =? h2) && Bool.eqb d1 d2
  | _, _ => false
  end.
Definition olive_eqb (a b : option (N * list N * list N * list N)) : bool :=
  match a, b with
  | None, None => true
  | Some (t1, l1, f1, m1), Some (t2, l2, f2, m2) =>
      (t1 =? t2) && list_eqb N.eqb l1 l2 && list_eqb N.eqb f1 f2 && list_eqb N.eqb m1 m2
  | _, _ => false
  end.
Definition bo_eqb (a b : block_obs) : bool :=
  list_eqb N.eqb (bo_codes a) (bo_codes b) && list_eqb ev_eqb (bo_begin a) (bo_begin b)
  && list_eqb ev_eqb (bo_end a) (bo_end b) && (bo_halt a =? bo_halt b)
  && (bo_round a =? bo_round b) && (bo_htype a =? bo_htype b) && (bo_root a =? bo_root b)
  && (bo_next_timeout a =? bo_next_timeout b)%Z && Bool.eqb (bo_suspended a) (bo_suspended b)
  && opool_eqb (bo_pool a) (bo_pool b)
  && (bo_io a =? bo_io b) && (bo_prev a =? bo_prev b) && (bo_msgs a =? bo_msgs b)
  && olive_eqb (bo_live a) (bo_live b)
  && (fst (bo_results a) =? fst (bo_results b)) && (snd (bo_results a) =? snd (bo_results b)).
Definition acase_eqb (a b : list block_obs) : bool := list_eqb bo_eqb a b.
Definition noPool : option (N * bool) := None.
Definition noEpoch : option (option committee) := None.
Definition noCommittee : option committee := None.
Definition noLive : option (N * list N * list N * list N) := None.
