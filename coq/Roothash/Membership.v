(* Every path that adds a vote to the pool checks that the signer is a committee member with
   the role required in the current phase, and that the scheduler is a primary worker whose
   rank for the commitment's round selects the bucket. *)
From Verif Require Import Lib.Base Roothash.Pool Roothash.PoolSpec Roothash.PoolProofs Roothash.PoolInv.

(* what an accepted add establishes *)
Lemma add_ok_roles c p ec p1 :
  add c p ec = (p1, AOk) ->
  (disc p = false -> is_member c (ec_node ec) = true) /\
  (disc p = true -> is_backup_worker c (ec_node ec) = true) /\
  is_member c (ec_node ec) = true /\
  exists r, scheduler_rank c (ec_round ec) (ec_sched ec) = Some r /\
            In (ec_sched ec) (primary_nodes c) /\ r <= hr p /\ (disc p = true -> r = hr p) /\
            exists sc, aget r (scs p1) = Some sc /\
                       aget (ec_node ec) (sc_votes sc) = Some (if ec_fail ec then None else Some (ec_vote ec)).
Proof.
  unfold add. intros H.
  destruct (negb (disc p) && negb (is_member c (ec_node ec))) eqn:C1; [discriminate H|].
  destruct (disc p && negb (is_backup_worker c (ec_node ec))) eqn:C2; [discriminate H|].
  destruct (scheduler_rank c (ec_round ec) (ec_sched ec)) as [r|] eqn:Er; [|discriminate H].
  destruct (hr p <? r) eqn:E1; [discriminate H|].
  destruct (negb (r =? hr p) && disc p) eqn:E2; [discriminate H|].
  assert (Hmem : is_member c (ec_node ec) = true).
  { destruct (disc p) eqn:D; cbn [negb andb] in C1, C2.
    - apply backup_is_member. destruct (is_backup_worker c (ec_node ec)); [reflexivity|discriminate C2].
    - destruct (is_member c (ec_node ec)); [reflexivity|discriminate C1]. }
  split; [intros _; exact Hmem|]. split.
  { intros D. rewrite D in C2. cbn [andb] in C2. destruct (is_backup_worker c (ec_node ec)); [reflexivity|discriminate C2]. }
  split; [exact Hmem|]. exists r. split; [reflexivity|].
  destruct (scheduler_rank_some _ _ _ _ Er) as [Hprim _]. split; [exact Hprim|].
  split; [lia|]. split.
  { intros D. rewrite D, andb_true_r in E2. apply negb_false_iff in E2. lia. }
  set (p0 := if (r <? hr p) && (ec_node ec =? ec_sched ec)
             then mkPool r (filter (fun e => fst e <=? r) (scs p)) (disc p) else p) in H.
  unfold sc_add in H.
  destruct (aget (ec_node ec) (sc_votes (match aget r (scs p0) with Some sc => sc | None => empty_sc end)));
    [discriminate H|].
  injection H as <-. cbn [scs]. eexists. split; [apply aget_aset_same|].
  cbn [sc_votes]. apply aget_aset_same.
Qed.

(* every vote held by the pool belongs to a committee member *)
Definition votes_members (c : committee) (p : pool) : Prop :=
  forall r sc n v, aget r (scs p) = Some sc -> aget n (sc_votes sc) = Some v -> is_member c n = true.

Lemma votes_members_new c : votes_members c new_pool.
Proof. intros r sc n v H. discriminate H. Qed.

Lemma votes_members_process c p s t : votes_members c p -> votes_members c (fst (process c p s t)).
Proof.
  intros I. pose proof (otherwise_wait_resolve_or_fail c p s t) as S.
  destruct (process c p s t) as [p' o]. cbn [fst snd] in *.
  destruct o; cbn [outcome_shape] in S; try (destruct S as [-> _]; exact I).
  destruct S as (_ & _ & ->). intros r sc n v H. cbn [scs] in H. rewrite aget_filter_eq in H.
  destruct (r =? hr p); [exact (I r sc n v H)|discriminate H].
Qed.

Lemma votes_members_add c p ec : votes_members c p -> votes_members c (fst (add c p ec)).
Proof.
  intros I. destruct (add c p ec) as [p1 e] eqn:A. cbn [fst].
  assert (Hmem : e = AOk -> is_member c (ec_node ec) = true).
  { intros ->. apply add_ok_roles in A as (_ & _ & M & _). exact M. }
  unfold add in A.
  destruct (negb (disc p) && negb (is_member c (ec_node ec))); [injection A as <- _; exact I|].
  destruct (disc p && negb (is_backup_worker c (ec_node ec))); [injection A as <- _; exact I|].
  destruct (scheduler_rank c (ec_round ec) (ec_sched ec)) as [rank|]; [|injection A as <- _; exact I].
  destruct (hr p <? rank); [injection A as <- _; exact I|].
  destruct (negb (rank =? hr p) && disc p); [injection A as <- _; exact I|].
  set (p0 := if (rank <? hr p) && (ec_node ec =? ec_sched ec)
             then mkPool rank (filter (fun e => fst e <=? rank) (scs p)) (disc p) else p) in A.
  assert (I0 : votes_members c p0).
  { unfold p0. destruct ((rank <? hr p) && (ec_node ec =? ec_sched ec)); [|exact I].
    intros r sc n v H. cbn [scs] in H. rewrite aget_filter_le in H.
    destruct (r <=? rank); [exact (I r sc n v H)|discriminate H]. }
  destruct (sc_add (match aget rank (scs p0) with Some sc => sc | None => empty_sc end) ec) as [sc'|] eqn:Ea.
  2:{ injection A as <- _. exact I0. }
  injection A as <- <-. specialize (Hmem eq_refl).
  intros r sc n v H Hv. cbn [scs] in H. destruct (N.eq_dec r rank) as [->|Hne].
  - rewrite aget_aset_same in H. injection H as <-. unfold sc_add in Ea.
    destruct (aget (ec_node ec) _); [discriminate Ea|]. injection Ea as <-. cbn [sc_votes] in Hv.
    destruct (N.eq_dec n (ec_node ec)) as [->|Hn]; [exact Hmem|].
    rewrite aget_aset_other in Hv by exact Hn.
    destruct (aget rank (scs p0)) as [sc0|] eqn:E0; [apply (I0 rank sc0 n v E0 Hv)|discriminate Hv].
  - rewrite aget_aset_other in H by exact Hne. apply (I0 r sc n v H Hv).
Qed.

Lemma votes_members_run c ops : forall p, votes_members c p -> votes_members c (run c ops p).
Proof.
  induction ops as [|o ops IH]; intros p I; cbn [run fold_left]; [exact I|].
  change (fold_left (step c) ops (step c p o)) with (run c ops (step c p o)).
  apply IH. destruct o; cbn [step]; [apply votes_members_add|apply votes_members_process|]; exact I.
Qed.

(* no vote of a non-member is ever held by a reachable pool (no premise on the commitments) *)
Lemma votes_members_reachable c ops r sc n v :
  aget r (scs (run c ops new_pool)) = Some sc -> aget n (sc_votes sc) = Some v -> is_member c n = true.
Proof. apply (votes_members_run c ops new_pool (votes_members_new c)). Qed.
