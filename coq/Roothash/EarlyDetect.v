(* Early discrepancy detection inside the member loop (pool.go:365-388) is equivalent to
   evaluating the same condition on the complete tally after the loop. *)
From Verif Require Import Lib.Base Roothash.Pool Roothash.PoolSpec Roothash.PoolProofs.

(* the loop without the early exit *)
Fixpoint gather_all (d : bool) (votes : list (N * option N)) (ms : committee) (t : tally) : tally :=
  match ms with
  | [] => t
  | (ro, k) :: r =>
      if negb (counts d ro) then gather_all d votes r t
      else match aget k votes with
           | None => gather_all d votes r (mkT (t_total t + 1) (t_commits t) (t_failures t) (t_votes t))
           | Some None => gather_all d votes r (mkT (t_total t + 1) (t_commits t + 1) (t_failures t + 1) (t_votes t))
           | Some (Some h) => gather_all d votes r (mkT (t_total t + 1) (t_commits t + 1) (t_failures t) (vinc h (t_votes t)))
           end
  end.

(* pool.go:370 / :394, negated: a discrepancy is visible in the tally *)
Definition bad (strag : N) (t : tally) : bool := (1 <? vlen (t_votes t)) || (strag <? t_failures t).
(* pool.go:373: backup schedulers only detect on timeout *)
Definition exit_enabled (hr0 : N) (timeout : bool) : bool := negb ((0 <? hr0) && negb timeout).

Lemma gather_some_all d hr0 strag timeout votes ms : forall t t',
  gather d hr0 strag timeout votes ms t = Some t' -> t' = gather_all d votes ms t.
Proof.
  induction ms as [|[ro k] r IH]; intros t t'; cbn [gather gather_all].
  - intros H. injection H as <-. reflexivity.
  - destruct (negb (counts d ro)); [apply IH|].
    destruct (aget k votes) as [[h|]|]; [| |apply IH].
    + destruct d; [apply IH|]. destruct (_ && _); [apply IH|]. destruct (_ && _); [apply IH|discriminate].
    + destruct d; [apply IH|]. destruct (_ && _); [apply IH|]. destruct (_ && _); [apply IH|discriminate].
Qed.

Lemma gather_enabled_good hr0 strag timeout votes ms : forall t t',
  exit_enabled hr0 timeout = true ->
  gather false hr0 strag timeout votes ms t = Some t' -> bad strag t = false -> bad strag t' = false.
Proof.
  unfold exit_enabled. intros t t' He. apply negb_true_iff in He. revert t t'.
  induction ms as [|[ro k] r IH]; intros t t'; cbn [gather].
  - intros H. injection H as <-. exact (fun x => x).
  - destruct (negb (counts false ro)); [apply IH|].
    destruct (aget k votes) as [v|]; [|intros H Hb; apply (IH _ _ H); exact Hb].
    set (t2 := match v with Some h => _ | None => _ end).
    destruct ((vlen (t_votes t2) <=? 1) && (t_failures t2 <=? strag)) eqn:E.
    + intros H _. apply (IH _ _ H). unfold bad. apply andb_true_iff in E as [E1 E2].
      apply orb_false_iff. split; lia.
    + rewrite He. discriminate.
Qed.

Lemma adel_notin {V} k (l : list (N * V)) : ~ In k (keys l) -> adel k l = l.
Proof.
  induction l as [|[a v] r IH]; cbn [adel keys map fst In]; [reflexivity|].
  intros H. destruct (a =? k) eqn:E.
  - apply N.eqb_eq in E. exfalso. apply H. left. exact E.
  - f_equal. apply IH. intros Hi. apply H. right. exact Hi.
Qed.

Lemma adel_length {V} k (l : list (N * V)) : NoDup (keys l) -> (length l <= S (length (adel k l)))%nat.
Proof.
  induction l as [|[a v] r IH]; cbn [adel keys map fst length]; [lia|].
  intros H. inversion H as [|x xs Hni Hnd]; subst. destruct (a =? k) eqn:E.
  - apply N.eqb_eq in E. subst a. rewrite adel_notin by exact Hni. lia.
  - cbn [length]. specialize (IH Hnd). lia.
Qed.

Lemma vlen_vinc h l : NoDup (keys l) -> vlen l <= vlen (vinc h l).
Proof.
  intros H. unfold vlen, vinc, aset. cbn [length]. pose proof (adel_length h l H). lia.
Qed.

Lemma bad_monotone d strag votes ms : forall t,
  NoDup (keys (t_votes t)) -> bad strag t = true -> bad strag (gather_all d votes ms t) = true.
Proof.
  induction ms as [|[ro k] r IH]; intros t Hnd Hb; cbn [gather_all]; [exact Hb|].
  destruct (negb (counts d ro)); [apply IH; assumption|].
  unfold bad in *. apply orb_true_iff in Hb.
  destruct (aget k votes) as [[h|]|]; apply IH; cbn [t_votes t_failures]; try assumption.
  - apply nodup_aset. exact Hnd.
  - apply orb_true_iff. destruct Hb as [Hb|Hb]; [left|right; exact Hb].
    pose proof (vlen_vinc h (t_votes t) Hnd). lia.
  - apply orb_true_iff. destruct Hb as [Hb|Hb]; [left; exact Hb|right; lia].
  - apply orb_true_iff. exact Hb.
Qed.

Lemma gather_none_bad hr0 strag timeout votes ms : forall t,
  NoDup (keys (t_votes t)) ->
  gather false hr0 strag timeout votes ms t = None ->
  exit_enabled hr0 timeout = true /\ bad strag (gather_all false votes ms t) = true.
Proof.
  induction ms as [|[ro k] r IH]; intros t Hnd; cbn [gather gather_all]; [discriminate|].
  destruct (negb (counts false ro)); [apply IH; exact Hnd|].
  destruct (aget k votes) as [[h|]|]; [| |apply IH; exact Hnd].
  - set (t2 := mkT (t_total t + 1) (t_commits t + 1) (t_failures t) (vinc h (t_votes t))).
    assert (Hnd2 : NoDup (keys (t_votes t2))) by (apply nodup_aset; exact Hnd).
    destruct ((vlen (t_votes t2) <=? 1) && (t_failures t2 <=? strag)) eqn:E; [apply IH; exact Hnd2|].
    destruct ((0 <? hr0) && negb timeout) eqn:E2; [apply IH; exact Hnd2|].
    intros _. split; [unfold exit_enabled; rewrite E2; reflexivity|].
    apply bad_monotone; [exact Hnd2|]. unfold bad. apply andb_false_iff in E.
    apply orb_true_iff. destruct E; [left|right]; lia.
  - set (t2 := mkT (t_total t + 1) (t_commits t + 1) (t_failures t + 1) (t_votes t)).
    destruct ((vlen (t_votes t2) <=? 1) && (t_failures t2 <=? strag)) eqn:E; [apply IH; exact Hnd|].
    destruct ((0 <? hr0) && negb timeout) eqn:E2; [apply IH; exact Hnd|].
    intros _. split; [unfold exit_enabled; rewrite E2; reflexivity|].
    apply bad_monotone; [exact Hnd|]. unfold bad. apply andb_false_iff in E.
    apply orb_true_iff. destruct E; [left|right]; lia.
Qed.

(* the loop stops early exactly when the complete tally shows a discrepancy (and detection is
   enabled: primary scheduler, or timeout); otherwise it returns the complete tally *)
Lemma early_detection_equals_final hr0 strag timeout votes ms :
  (gather false hr0 strag timeout votes ms tally0 = None <->
   exit_enabled hr0 timeout = true /\ bad strag (gather_all false votes ms tally0) = true)
  /\ (forall t, gather false hr0 strag timeout votes ms tally0 = Some t ->
                t = gather_all false votes ms tally0).
Proof.
  split; [split|].
  - apply gather_none_bad. constructor.
  - intros [He Hb]. destruct (gather false hr0 strag timeout votes ms tally0) as [t|] eqn:G; [|reflexivity].
    assert (H0 : bad strag tally0 = false).
    { unfold bad, tally0, vlen. cbn [t_votes t_failures length]. apply orb_false_iff. split; lia. }
    pose proof (gather_enabled_good _ _ _ _ _ _ _ He G H0) as Hg.
    apply gather_some_all in G. subst t. congruence.
  - intros t G. apply gather_some_all in G. exact G.
Qed.
