(* Liveness bookkeeping of the roothash application (finalization.go:140-243, :331-358):
   who is credited / blamed in each outcome, consistent with the pool outcome. *)
From Verif Require Import Lib.Base Roothash.Pool Roothash.PoolSpec Roothash.PoolProofs
  Roothash.Verify Roothash.App Roothash.AppProofs.

Fixpoint lsum (l : list N) : N := match l with [] => 0 | x :: r => x + lsum r end.

Lemma inc_nth_length i l : length (inc_nth i l) = length l.
Proof. revert i. induction l as [|x r IH]; intros [|i]; cbn [inc_nth length]; try reflexivity; rewrite IH; reflexivity. Qed.

Lemma inc_nth_sum i l : (i < length l)%nat -> lsum (inc_nth i l) = lsum l + 1.
Proof.
  revert i. induction l as [|x r IH]; intros [|i] H; cbn [inc_nth lsum length] in *; try lia.
  rewrite IH by lia. lia.
Qed.

Lemma inc_nth_sum_le i l : lsum (inc_nth i l) <= lsum l + 1.
Proof.
  revert i. induction l as [|x r IH]; intros [|i]; cbn [inc_nth lsum]; try lia. specialize (IH i). lia.
Qed.

(* ---------- the good / bad loop ---------- *)

Lemma live_loop_spec votes sv ms : forall i seen live good bad live' good' bad',
  live_loop votes sv ms i seen live good bad = (live', good', bad') ->
  length live' = length live /\
  (forall n, In n good' -> In n good \/ (In n (map snd ms) /\ ~ In n seen /\ aget n votes = Some (Some sv))) /\
  (forall n, In n bad' -> In n bad \/ (In n (map snd ms) /\ ~ In n seen /\
                                      exists v, aget n votes = Some (Some v) /\ v <> sv)) /\
  (forall n, In n good -> In n good') /\ (forall n, In n bad -> In n bad') /\
  (forall n, In n (map snd ms) -> ~ In n seen -> aget n votes = Some (Some sv) -> In n good') /\
  (forall n v, In n (map snd ms) -> ~ In n seen -> aget n votes = Some (Some v) -> v <> sv -> In n bad') /\
  lsum live' + N.of_nat (length good) <= lsum live + N.of_nat (length good') /\
  ((i + length ms <= length live)%nat -> lsum live' + N.of_nat (length good) = lsum live + N.of_nat (length good')).
Proof.
  induction ms as [|[ro k] r IH]; intros i seen live good bad live' good' bad'; cbn [live_loop map snd].
  - intros H. injection H as <- <- <-. cbn [map In]. repeat split; auto; try lia; try (intros n []); try (intros n v []).
  - assert (Hseen : forall l n, existsb (N.eqb k) l = false -> n = k -> ~ In n l).
    { intros l n Hx -> Hin. assert (existsb (N.eqb k) l = true); [|congruence].
      apply existsb_exists. exists k. split; [exact Hin|apply N.eqb_refl]. }
    destruct (aget k votes) as [[v|]|] eqn:Ek.
    + destruct (existsb (N.eqb k) seen) eqn:Es.
      * intros H. apply IH in H as (A & B & C & D & E & F & G & Hs & Hs').
        apply existsb_exists in Es as [k' [Hk' Ek']]. apply N.eqb_eq in Ek'. subst k'.
        split; [exact A|]. split; [|split; [|split; [exact D|split; [exact E|split; [|split; [|split]]]]]].
        -- intros n Hn. destruct (B n Hn) as [X|(X & Y & Z)]; [left; exact X|right]. split; [right; exact X|]. split; assumption.
        -- intros n Hn. destruct (C n Hn) as [X|(X & Y & Z)]; [left; exact X|right]. split; [right; exact X|]. split; assumption.
        -- intros n [Hn|Hn] Hns Hv; [subst n; contradiction|]. apply F; assumption.
        -- intros n w [Hn|Hn] Hns Hv Hw; [subst n; contradiction|]. eapply G; eassumption.
        -- exact Hs.
        -- intros Hl. apply Hs'. cbn [length] in Hl. lia.
      * destruct (v =? sv) eqn:Ev.
        -- apply N.eqb_eq in Ev. subst v.
           intros H. apply IH in H as (A & B & C & D & E & F & G & Hs & Hs').
           rewrite inc_nth_length in A. rewrite app_length in Hs, Hs'. cbn [length] in Hs, Hs'.
           split; [exact A|]. split; [|split; [|split; [|split; [exact E|split; [|split; [|split]]]]]].
           ++ intros n Hn. destruct (B n Hn) as [X|(X & Y & Z)].
              ** apply in_app_or in X as [X|[X|[]]]; [left; exact X|right]. subst n.
                 split; [left; reflexivity|]. split; [apply (Hseen seen k Es eq_refl)|exact Ek].
              ** right. split; [right; exact X|]. split; [intros Hq; apply Y; right; exact Hq|exact Z].
           ++ intros n Hn. destruct (C n Hn) as [X|(X & Y & Z)]; [left; exact X|right].
              split; [right; exact X|]. split; [intros Hq; apply Y; right; exact Hq|exact Z].
           ++ intros n Hn. apply D. apply in_or_app. left. exact Hn.
           ++ intros n [Hn|Hn] Hns Hv.
              ** subst n. apply D. apply in_or_app. right. left. reflexivity.
              ** destruct (N.eq_dec n k) as [->|Hne]; [apply D; apply in_or_app; right; left; reflexivity|].
                 apply F; [exact Hn| |exact Hv]. intros [Hq|Hq]; [congruence|contradiction].
           ++ intros n w [Hn|Hn] Hns Hv Hw.
              ** subst n. rewrite Ek in Hv. injection Hv as <-. contradiction.
              ** destruct (N.eq_dec n k) as [->|Hne]; [rewrite Ek in Hv; injection Hv as <-; contradiction|].
                 eapply G; [exact Hn| |exact Hv|exact Hw]. intros [Hq|Hq]; [congruence|contradiction].
           ++ pose proof (inc_nth_sum_le i live). lia.
           ++ intros Hl. cbn [length] in Hl. rewrite inc_nth_length in Hs'.
              rewrite inc_nth_sum in Hs' by lia. specialize (Hs' ltac:(lia)). lia.
        -- assert (Hvs : v <> sv) by (intros ->; rewrite N.eqb_refl in Ev; discriminate).
           intros H. apply IH in H as (A & B & C & D & E & F & G & Hs & Hs').
           split; [exact A|]. split; [|split; [|split; [exact D|split; [|split; [|split; [|split]]]]]].
           ++ intros n Hn. destruct (B n Hn) as [X|(X & Y & Z)]; [left; exact X|right].
              split; [right; exact X|]. split; [intros Hq; apply Y; right; exact Hq|exact Z].
           ++ intros n Hn. destruct (C n Hn) as [X|(X & Y & Z)].
              ** apply in_app_or in X as [X|[X|[]]]; [left; exact X|right]. subst n.
                 split; [left; reflexivity|]. split; [apply (Hseen seen k Es eq_refl)|]. exists v. split; assumption.
              ** right. split; [right; exact X|]. split; [intros Hq; apply Y; right; exact Hq|exact Z].
           ++ intros n Hn. apply E. apply in_or_app. left. exact Hn.
           ++ intros n [Hn|Hn] Hns Hv.
              ** subst n. rewrite Ek in Hv. injection Hv as ->. contradiction.
              ** destruct (N.eq_dec n k) as [->|Hne]; [rewrite Ek in Hv; injection Hv as ->; contradiction|].
                 apply F; [exact Hn| |exact Hv]. intros [Hq|Hq]; [congruence|contradiction].
           ++ intros n w [Hn|Hn] Hns Hv Hw.
              ** subst n. apply E. apply in_or_app. right. left. reflexivity.
              ** destruct (N.eq_dec n k) as [->|Hne]; [apply E; apply in_or_app; right; left; reflexivity|].
                 eapply G; [exact Hn| |exact Hv|exact Hw]. intros [Hq|Hq]; [congruence|contradiction].
           ++ exact Hs.
           ++ intros Hl. apply Hs'. cbn [length] in Hl. lia.
    + intros H. apply IH in H as (A & B & C & D & E & F & G & Hs & Hs').
      split; [exact A|]. split; [|split; [|split; [exact D|split; [exact E|split; [|split; [|split]]]]]].
      * intros n Hn. destruct (B n Hn) as [X|(X & Y & Z)]; [left; exact X|right]. split; [right; exact X|]. split; assumption.
      * intros n Hn. destruct (C n Hn) as [X|(X & Y & Z)]; [left; exact X|right]. split; [right; exact X|]. split; assumption.
      * intros n [Hn|Hn] Hns Hv; [subst n; rewrite Ek in Hv; discriminate|]. apply F; assumption.
      * intros n w [Hn|Hn] Hns Hv Hw; [subst n; rewrite Ek in Hv; discriminate|]. eapply G; eassumption.
      * exact Hs.
      * intros Hl. apply Hs'. cbn [length] in Hl. lia.
    + intros H. apply IH in H as (A & B & C & D & E & F & G & Hs & Hs').
      split; [exact A|]. split; [|split; [|split; [exact D|split; [exact E|split; [|split; [|split]]]]]].
      * intros n Hn. destruct (B n Hn) as [X|(X & Y & Z)]; [left; exact X|right]. split; [right; exact X|]. split; assumption.
      * intros n Hn. destruct (C n Hn) as [X|(X & Y & Z)]; [left; exact X|right]. split; [right; exact X|]. split; assumption.
      * intros n [Hn|Hn] Hns Hv; [subst n; rewrite Ek in Hv; discriminate|]. apply F; assumption.
      * intros n w [Hn|Hn] Hns Hv Hw; [subst n; rewrite Ek in Hv; discriminate|]. eapply G; eassumption.
      * exact Hs.
      * intros Hl. apply Hs'. cbn [length] in Hl. lia.
Qed.

Lemma inc_nth_other i l j : i <> j -> nth j (inc_nth i l) 0 = nth j l 0.
Proof.
  revert i j. induction l as [|x r IH]; intros [|i] [|j] H; cbn [inc_nth nth]; try reflexivity; try congruence.
  apply IH. congruence.
Qed.
Lemma inc_nth_same_le i l : nth i (inc_nth i l) 0 <= nth i l 0 + 1.
Proof.
  revert i. induction l as [|x r IH]; intros [|i]; cbn [inc_nth nth]; try lia. apply IH.
Qed.

(* every counter grows by at most one per finalized round, counters before position i are untouched *)
Lemma live_loop_counters votes sv ms : forall i seen live good bad live' good' bad',
  live_loop votes sv ms i seen live good bad = (live', good', bad') ->
  forall j, ((j < i)%nat -> nth j live' 0 = nth j live 0) /\ nth j live' 0 <= nth j live 0 + 1.
Proof.
  induction ms as [|[ro k] r IH]; intros i seen live good bad live' good' bad'; cbn [live_loop].
  - intros H. injection H as <- _ _. intros j. split; [reflexivity|lia].
  - destruct (aget k votes) as [[v|]|]; try (intros H j; destruct (IH _ _ _ _ _ _ _ _ H j) as [A B]; split; [intros Hj; apply A; lia|exact B]).
    destruct (existsb (N.eqb k) seen); [intros H j; destruct (IH _ _ _ _ _ _ _ _ H j) as [A B]; split; [intros Hj; apply A; lia|exact B]|].
    destruct (v =? sv); [|intros H j; destruct (IH _ _ _ _ _ _ _ _ H j) as [A B]; split; [intros Hj; apply A; lia|exact B]].
    intros H j. destruct (IH _ _ _ _ _ _ _ _ H j) as [A B]. split.
    + intros Hj. rewrite A by lia. apply inc_nth_other. lia.
    + destruct (Nat.eq_dec i j) as [->|Hne].
      * rewrite (proj1 (IH _ _ _ _ _ _ _ _ H j)) by lia. apply inc_nth_same_le.
      * rewrite inc_nth_other in B by exact Hne. exact B.
Qed.

Definition live_ok (c : committee) (l : liveness) : Prop :=
  length (lv_live l) = length c /\ length (lv_fin l) = length c /\ length (lv_miss l) = length c /\
  lsum (lv_fin l) <= lv_total l /\ lv_total l <= lsum (lv_fin l) + lsum (lv_miss l) /\
  (forall j, nth j (lv_live l) 0 <= lv_total l).

Lemma lsum_repeat0 n : lsum (repeat 0 n) = 0.
Proof. induction n; cbn; [reflexivity|rewrite IHn; reflexivity]. Qed.
Lemma nth_repeat0 n j : nth j (repeat 0 n) 0 = 0.
Proof. revert j. induction n; intros [|j]; cbn; try reflexivity. apply IHn. Qed.

Lemma live_ok_new c : live_ok c (new_liveness (length c)).
Proof.
  unfold live_ok, new_liveness. cbn. rewrite !repeat_length, !lsum_repeat0.
  repeat split; try reflexivity; try lia. intros j. rewrite nth_repeat0. lia.
Qed.

Lemma worker_count_le c : worker_count c <= N.of_nat (length c).
Proof. induction c as [|[ro k] r IH]; cbn [worker_count length]; [lia|]. destruct (is_rworker ro); lia. Qed.

Lemma scheduler_idx_lt c round rank i : scheduler_idx c round rank = Some i -> (N.to_nat i < length c)%nat.
Proof.
  unfold scheduler_idx. destruct (worker_count c <=? rank) eqn:E; [discriminate|]. intros H. injection H as <-.
  pose proof (worker_count_le c). assert (worker_count c <> 0) by lia.
  pose proof (N.mod_lt (rank + worker_count c - round mod worker_count c) (worker_count c) H0). lia.
Qed.

(* a finalized round: the bookkeeping agrees with the pool outcome *)
Theorem finalize_normal_liveness prm c s p2 lv sc ec st2 e2 :
  finalize_normal prm c s p2 lv sc ec = Some (st2, e2) -> live_ok c lv ->
  exists lv' good bad,
    rs_live st2 = Some lv' /\ rs_results st2 = (good, bad) /\ live_ok c lv' /\
    lv_total lv' = lv_total lv + 1 /\
    lsum (lv_fin lv') + lsum (lv_miss lv') = lsum (lv_fin lv) + lsum (lv_miss lv) + 1 /\
    lsum (lv_live lv') = lsum (lv_live lv) + N.of_nat (length good) /\
    (* whoever committed to the finalized result is credited and never blamed *)
    (forall n, is_member c n = true -> aget n (sc_votes sc) = Some (Some (ec_vote ec)) -> In n good) /\
    (forall n, aget n (sc_votes sc) = Some (Some (ec_vote ec)) -> ~ In n bad) /\
    (forall n, In n good -> is_member c n = true /\ aget n (sc_votes sc) = Some (Some (ec_vote ec))) /\
    (forall n, In n bad -> is_member c n = true /\
                           exists v, aget n (sc_votes sc) = Some (Some v) /\ v <> ec_vote ec).
Proof.
  unfold finalize_normal. intros H (L1 & L2 & L3 & L4 & L5 & L6).
  destruct (scheduler_idx c _ 0) as [first|] eqn:Es; [|discriminate H].
  pose proof (scheduler_idx_lt _ _ _ _ Es) as Hlt.
  destruct (live_loop (sc_votes sc) (ec_vote ec) c 0 [] (lv_live lv) [] []) as [[live good] bad] eqn:El.
  pose proof (live_loop_counters _ _ _ _ _ _ _ _ _ _ _ El) as Hcnt.
  apply live_loop_spec in El as (A & B & C & _ & _ & F & G & _ & Hs).
  specialize (Hs ltac:(cbn; lia)). cbn [length] in Hs.
  unfold finalize_block in H. cbn in H. injection H as <- _.
  eexists. exists good, bad. cbn [rs_live rs_results with_pool].
  split; [reflexivity|]. split; [reflexivity|].
  set (fs := match nth_error c (N.to_nat first) with Some (_, k) => k =? ec_sched ec | None => false end).
  split.
  { unfold live_ok. cbn [lv_live lv_fin lv_miss lv_total].
    split; [lia|]. split; [destruct fs; rewrite ?inc_nth_length; exact L2|].
    split; [destruct fs; rewrite ?inc_nth_length; exact L3|].
    split; [destruct fs; [rewrite inc_nth_sum by lia|]; lia|].
    split; [destruct fs; rewrite inc_nth_sum by lia; lia|].
    intros j. destruct (Hcnt j) as [_ Hj]. specialize (L6 j). lia. }
  cbn [lv_live lv_fin lv_miss lv_total].
  split; [reflexivity|]. split; [destruct fs; rewrite inc_nth_sum by lia; lia|]. split; [lia|].
  split; [intros n Hm Hv; apply F; [apply is_member_in; exact Hm|intros []|exact Hv]|].
  split.
  { intros n Hv Hin. destruct (C n Hin) as [[]|(_ & _ & v & Hv' & Hne)]. rewrite Hv in Hv'. injection Hv' as <-. contradiction. }
  split.
  { intros n Hin. destruct (B n Hin) as [[]|(X & _ & Z)]. split; [apply is_member_in; exact X|exact Z]. }
  intros n Hin. destruct (C n Hin) as [[]|(X & _ & Z)]. split; [apply is_member_in; exact X|exact Z].
Qed.

(* a failed round: only the primary scheduler's missed-proposal counter moves *)
Theorem fail_round_liveness prm c s p2 lv st2 e2 :
  fail_round prm c s p2 lv = Some (st2, e2) -> live_ok c lv ->
  exists lv', rs_live st2 = Some lv' /\ live_ok c lv' /\
    lv_total lv' = lv_total lv /\ lv_live lv' = lv_live lv /\ lv_fin lv' = lv_fin lv /\
    lsum (lv_miss lv') = lsum (lv_miss lv) + 1.
Proof.
  unfold fail_round. intros H (L1 & L2 & L3 & L4 & L5 & L6).
  destruct (scheduler_idx c _ 0) as [first|] eqn:Es; [|discriminate H].
  pose proof (scheduler_idx_lt _ _ _ _ Es) as Hlt.
  unfold finalize_block in H. cbn in H. injection H as <- _.
  eexists. cbn [rs_live with_pool]. split; [reflexivity|].
  cbn [lv_live lv_fin lv_miss lv_total]. rewrite inc_nth_sum by lia.
  split; [|repeat split; reflexivity].
  unfold live_ok. cbn [lv_live lv_fin lv_miss lv_total]. rewrite inc_nth_length, inc_nth_sum by lia.
  repeat split; try assumption; lia.
Qed.

(* ---------- over arbitrary histories ---------- *)

Definition live_inv (st : rt_state) : Prop :=
  match rs_live st with
  | Some l => exists c, rs_committee st = Some c /\ live_ok c l
  | None => True
  end.

Lemma live_of_ok st c : rs_committee st = Some c -> live_inv st -> live_ok c (live_of st c).
Proof.
  intros Ec I. unfold live_of, live_inv in *. destruct (rs_live st) as [l|]; [|apply live_ok_new].
  destruct I as (c0 & E0 & L). rewrite Ec in E0. injection E0 as <-. exact L.
Qed.

Lemma try_finalize_live_inv H prm c p st timeout st' evs :
  rs_committee st = Some c -> live_inv st ->
  try_finalize H prm c p st timeout = TFOk st' evs -> live_inv st'.
Proof.
  intros Ec I. pose proof (live_of_ok st c Ec I) as L. unfold try_finalize.
  destruct (tf_decide H prm c p st timeout) as [[[st1 p2] o2] ev] eqn:E.
  apply tf_decide_spec in E as (Sb & _). destruct Sb as (_ & _ & _ & B4 & _).
  destruct o2; try discriminate.
  - destruct (sc_commit sc) as [ec|]; [|discriminate].
    destruct (finalize_normal prm c st1 p2 (live_of st c) sc ec) as [[s2 e2]|] eqn:F; [|discriminate].
    intros Hx. injection Hx as <- _.
    pose proof (finalize_normal_spec _ _ _ _ _ _ _ _ _ F) as (_ & _ & _ & _ & _ & _ & _ & _ & _ & C & _).
    destruct (finalize_normal_liveness _ _ _ _ _ _ _ _ _ F L) as (lv' & good & bad & R1 & _ & R3 & _).
    unfold live_inv. rewrite R1. exists c. split; [congruence|exact R3].
  - intros Hx. injection Hx as <- _. unfold live_inv, with_pool. cbn [rs_live rs_committee].
    exists c. split; [congruence|exact L].
  - destruct (fail_round prm c st1 p2 (live_of st c)) as [[s2 e2]|] eqn:F; [|discriminate].
    intros Hx. injection Hx as <- _.
    pose proof (fail_round_spec _ _ _ _ _ _ _ F) as (_ & _ & _ & _ & _ & _ & _ & _ & _ & C & _).
    destruct (fail_round_liveness _ _ _ _ _ _ _ F L) as (lv' & R1 & R2 & _).
    unfold live_inv. rewrite R1. exists c. split; [congruence|exact R2].
  - destruct (fail_round prm c st1 p2 (live_of st c)) as [[s2 e2]|] eqn:F; [|discriminate].
    intros Hx. injection Hx as <- _.
    pose proof (fail_round_spec _ _ _ _ _ _ _ F) as (_ & _ & _ & _ & _ & _ & _ & _ & _ & C & _).
    destruct (fail_round_liveness _ _ _ _ _ _ _ F L) as (lv' & R1 & R2 & _).
    unfold live_inv. rewrite R1. exists c. split; [congruence|exact R2].
  - destruct (fail_round prm c st1 p2 (live_of st c)) as [[s2 e2]|] eqn:F; [|discriminate].
    intros Hx. injection Hx as <- _.
    pose proof (fail_round_spec _ _ _ _ _ _ _ F) as (_ & _ & _ & _ & _ & _ & _ & _ & _ & C & _).
    destruct (fail_round_liveness _ _ _ _ _ _ _ F L) as (lv' & R1 & R2 & _).
    unfold live_inv. rewrite R1. exists c. split; [congruence|exact R2].
Qed.

Lemma try_finalize_round_live_inv H prm st timeout st' evs :
  live_inv st -> try_finalize_round H prm st timeout = EndOk st' evs -> live_inv st'.
Proof.
  intros I. unfold try_finalize_round. destruct (rs_suspended st); [discriminate|].
  destruct (rs_committee st) as [c|] eqn:Ec; [|discriminate].
  destruct (rs_pool st) as [p|]; [|discriminate].
  destruct (try_finalize H prm c p st timeout) as [s e| | | |] eqn:E; cbn [tf_end]; try discriminate.
  intros Hx. injection Hx as <- _. eapply try_finalize_live_inv; eassumption.
Qed.

Lemma executor_commit_live_inv H prm st vcs : live_inv st -> live_inv (fst (fst (executor_commit H prm st vcs))).
Proof.
  intros I. destruct (executor_commit_cases H prm st vcs) as [[-> _]|(_ & _ & _ & p1 & nt & ->)]; [exact I|].
  unfold live_inv in *. cbn [rs_live rs_committee]. exact I.
Qed.

Lemma run_txs_live_inv H prm txs : forall st fin st' codes fin',
  run_txs H prm st txs fin = (st', codes, fin') -> live_inv st -> live_inv st'.
Proof.
  induction txs as [|vcs r IH]; intros st fin st' codes fin'; cbn [run_txs].
  - intros Hx. injection Hx as <- _ _. exact (fun x => x).
  - destruct (executor_commit H prm st vcs) as [[st1 code] reg] eqn:E1.
    destruct (run_txs H prm st1 r (fin || reg)) as [[st2 codes2] fin2] eqn:E2.
    intros Hx. injection Hx as <- _ _. intros I. apply (IH _ _ _ _ _ E2).
    pose proof (executor_commit_live_inv H prm st vcs I) as I1. rewrite E1 in I1. exact I1.
Qed.

Lemma begin_block_live_inv prm st ep : live_inv st -> live_inv (fst (begin_block prm st ep)).
Proof.
  intros I. destruct ep as [[c|]|]; cbn [begin_block]; [| |exact I].
  - destruct (finalize_block prm st HEpochTransition None) as [s e]. exact Logic.I.
  - destruct (finalize_block prm st HSuspended None) as [s e]. exact Logic.I.
Qed.

Lemma app_block_live_inv prm st b : live_inv st -> live_inv (fst (app_block prm st b)).
Proof.
  intros I. unfold app_block.
  pose proof (begin_block_live_inv prm st (ab_epoch b) I) as I1.
  destruct (begin_block prm st (ab_epoch b)) as [st1 eb]. cbn [fst] in I1.
  destruct (run_txs (ab_height b) prm st1 (ab_txs b) false) as [[st2 codes] fin] eqn:Et.
  pose proof (run_txs_live_inv _ _ _ _ _ _ _ _ Et I1) as I2.
  destruct (end_block (ab_height b) prm st2 fin) as [s e|cd] eqn:Ee; cbn [fst]; [|exact I2].
  unfold end_block in Ee.
  set (r1 := if fin then try_finalize_round (ab_height b) prm st2 false else EndOk st2 []) in Ee.
  assert (S1 : forall s1 e1, r1 = EndOk s1 e1 -> live_inv s1).
  { unfold r1. destruct fin; intros s1 e1 Hx; [eapply try_finalize_round_live_inv; eassumption|].
    injection Hx as <- _. exact I2. }
  destruct r1 as [s1 e1|cd]; [|discriminate Ee].
  destruct (_ && _).
  - destruct (try_finalize_round (ab_height b) prm s1 true) as [s2 e2|cd] eqn:E2; [|discriminate Ee].
    injection Ee as <- _. eapply try_finalize_round_live_inv; [apply (S1 s1 e1 eq_refl)|exact E2].
  - injection Ee as <- _. apply (S1 s1 e1 eq_refl).
Qed.

(* over every history: the statistics have one counter per committee member, the finalized
   proposals never exceed the finalized rounds, every finalized round is accounted to exactly
   one of finalized / missed proposals of the primary scheduler, no node is live more often
   than there were finalized rounds *)
Theorem liveness_consistent_history prm bs round root :
  live_inv (app_states prm (new_runtime prm round root) bs).
Proof.
  unfold app_states.
  assert (G : forall l st, live_inv st -> live_inv (fold_left (fun s b => fst (app_block prm s b)) l st)).
  { induction l as [|b r IH]; intros st I; cbn [fold_left]; [exact I|]. apply IH. apply app_block_live_inv. exact I. }
  apply G. exact Logic.I.
Qed.
