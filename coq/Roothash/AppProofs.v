(* Proofs about the model of the roothash application's finalization (App.v). *)
From Verif Require Import Lib.Base Roothash.Pool Roothash.PoolSpec Roothash.PoolProofs
  Roothash.PoolInv Roothash.Verify Roothash.VerifyProofs Roothash.App.

Lemma process_disc_shape c p s t p1 :
  process c p s t = (p1, PDiscrepancy) ->
  disc p = false /\ p1 = mkPool (hr p) (filter (fun e => fst e =? hr p) (scs p)) true.
Proof.
  intros H. pose proof (otherwise_wait_resolve_or_fail c p s t) as S. rewrite H in S.
  cbn [fst snd outcome_shape] in S. destruct S as (D & _ & E). split; assumption.
Qed.

Lemma process_not_disc_same c p s t p1 o :
  process c p s t = (p1, o) -> o <> PDiscrepancy -> p1 = p.
Proof.
  intros H Hn. pose proof (otherwise_wait_resolve_or_fail c p s t) as S. rewrite H in S.
  cbn [fst snd] in S. destruct o; cbn [outcome_shape] in S; try (destruct S as [S _]; exact S).
  contradiction.
Qed.

Lemma hr_entry_ok_process c p s t : hr_entry_ok c p -> hr_entry_ok c (fst (process c p s t)).
Proof.
  intros I. destruct (process c p s t) as [p1 o] eqn:E. cbn [fst].
  destruct o; try (rewrite (process_not_disc_same _ _ _ _ _ _ E); [exact I|discriminate]).
  apply process_disc_shape in E as [_ ->]. intros sc H. cbn [hr scs] in H.
  rewrite aget_filter_eq, N.eqb_refl in H. apply I. exact H.
Qed.

(* ---------- second_process_never_detects, lifted to the application ---------- *)

Lemma app_second_process_never_detects H prm c p st timeout :
  try_finalize H prm c p st timeout <> TFErrDiscrepancy.
Proof.
  unfold try_finalize. destruct (process c p (rp_strag prm) timeout) as [p1 o1] eqn:E1.
  destruct o1.
  - destruct (sc_commit sc); [destruct (finalize_block _ _ _)|]; discriminate.
  - discriminate.
  - destruct (process c p1 (rp_strag prm) _) as [p2 o2] eqn:E2.
    assert (Hd : disc p1 = true) by (apply process_disc_shape in E1 as [_ ->]; reflexivity).
    pose proof (second_process_never_detects c p1 (rp_strag prm)
                  ((H + rp_round_timeout prm * 15 / 10 =? H)%Z) Hd) as Hn.
    rewrite E2 in Hn. cbn [snd] in Hn.
    destruct o2; try discriminate; try contradiction.
    destruct (sc_commit sc); discriminate.
  - destruct (finalize_block _ _ _); discriminate.
  - destruct (finalize_block _ _ _); discriminate.
  - destruct (finalize_block _ _ _); discriminate.
  - discriminate.
Qed.

(* ---------- classification of a successful finalization attempt ---------- *)

Definition next_round_of (st : rt_state) : N := (rs_round st + 1) mod W64.

(* the pool / timeout flag of the deciding ProcessCommitments call *)
Definition deciding (H : Z) (prm : rt_params) (c : committee) (p : pool) (timeout : bool) : pool * bool :=
  match process c p (rp_strag prm) timeout with
  | (p1, PDiscrepancy) => (p1, (H + rp_round_timeout prm * 15 / 10 =? H)%Z)
  | _ => (p, timeout)
  end.

Inductive tf_kind := KWaiting | KNormal | KFailed.

Definition tf_shape (H : Z) (prm : rt_params) (c : committee) (p : pool) (st : rt_state) (timeout : bool)
           (st' : rt_state) (evs : list app_event) : Prop :=
  let pe := fst (deciding H prm c p timeout) in
  let te := snd (deciding H prm c p timeout) in
  let o := snd (process c pe (rp_strag prm) te) in
  match o with
  | POk sc =>
      exists ec, sc_commit sc = Some ec /\
        rs_round st' = next_round_of st /\ rs_htype st' = HNormal /\
        rs_root st' = lookup (ec_vote ec) (rp_roots prm) /\
        rs_pool st' = Some new_pool /\ rs_next_timeout st' = TimeoutNever /\
        In (EvFinalized (next_round_of st)) evs
  | PStillWaiting =>
      rs_round st' = rs_round st /\ rs_root st' = rs_root st /\ rs_htype st' = rs_htype st /\
      (forall r, ~ In (EvFinalized r) evs)
  | PNoScheduler | PBadScheduler | PInsufficientVotes =>
      rs_round st' = next_round_of st /\ rs_htype st' = HRoundFailed /\
      rs_root st' = rs_root st /\
      rs_pool st' = Some new_pool /\ rs_next_timeout st' = TimeoutNever /\
      In (EvFinalized (next_round_of st)) evs
  | _ => False
  end.

Lemma try_finalize_shape H prm c p st timeout st' evs :
  try_finalize H prm c p st timeout = TFOk st' evs -> tf_shape H prm c p st timeout st' evs.
Proof.
  unfold try_finalize, tf_shape, deciding.
  destruct (process c p (rp_strag prm) timeout) as [p1 o1] eqn:E1.
  assert (Hsame : o1 <> PDiscrepancy -> p1 = p) by (apply (process_not_disc_same _ _ _ _ _ _ E1)).
  destruct o1; cbn [fst snd]; try rewrite E1; cbn [snd].
  - (* Ok *) destruct (sc_commit sc) as [ec|] eqn:Ec; [|discriminate].
    unfold finalize_block. intros Hx. injection Hx as <- <-. exists ec. cbn.
    repeat split; try reflexivity. left. reflexivity.
  - intros Hx. injection Hx as <- <-. cbn. repeat split; try reflexivity. intros r [].
  - (* discrepancy, second call *)
    destruct (process c p1 (rp_strag prm) _) as [p2 o2] eqn:E2. cbn [snd].
    destruct o2.
    + destruct (sc_commit sc) as [ec|] eqn:Ec; [|discriminate].
      unfold finalize_block. intros Hx. injection Hx as <- <-. exists ec. cbn.
      repeat split; try reflexivity. right. left. reflexivity.
    + intros Hx. injection Hx as <- <-. cbn. repeat split; try reflexivity.
      intros r [Hf|[]]. discriminate Hf.
    + discriminate.
    + unfold finalize_block. intros Hx. injection Hx as <- <-. cbn. repeat split; try reflexivity.
      right. left. reflexivity.
    + unfold finalize_block. intros Hx. injection Hx as <- <-. cbn. repeat split; try reflexivity.
      right. left. reflexivity.
    + unfold finalize_block. intros Hx. injection Hx as <- <-. cbn. repeat split; try reflexivity.
      right. left. reflexivity.
    + discriminate.
  - unfold finalize_block. intros Hx. injection Hx as <- <-. cbn. repeat split; try reflexivity.
    left. reflexivity.
  - unfold finalize_block. intros Hx. injection Hx as <- <-. cbn. repeat split; try reflexivity.
    left. reflexivity.
  - unfold finalize_block. intros Hx. injection Hx as <- <-. cbn. repeat split; try reflexivity.
    left. reflexivity.
  - discriminate.
Qed.

Lemma deciding_hr_entry_ok H prm c p timeout :
  hr_entry_ok c p -> hr_entry_ok c (fst (deciding H prm c p timeout)).
Proof.
  intros I. unfold deciding.
  pose proof (hr_entry_ok_process c p (rp_strag prm) timeout I) as I'.
  destruct (process c p (rp_strag prm) timeout) as [p1 o1]. cbn [fst] in I'.
  destruct o1; cbn [fst]; assumption.
Qed.

(* a Normal block is produced only if the rule held for the chosen commitment, and it carries
   that commitment's state root *)
Lemma normal_block_only_if_rule H prm c p st timeout st' evs :
  hr_entry_ok c p ->
  try_finalize H prm c p st timeout = TFOk st' evs ->
  In (EvFinalized (next_round_of st)) evs -> rs_htype st' = HNormal ->
  exists sc ec,
    snd (process c (fst (deciding H prm c p timeout)) (rp_strag prm) (snd (deciding H prm c p timeout))) = POk sc /\
    sc_commit sc = Some ec /\
    rs_root st' = lookup (ec_vote ec) (rp_roots prm) /\
    rule c (rp_strag prm) (disc (fst (deciding H prm c p timeout))) sc.
Proof.
  intros I Htf Hev Hn. apply try_finalize_shape in Htf. unfold tf_shape in Htf.
  set (pe := fst (deciding H prm c p timeout)) in *.
  set (te := snd (deciding H prm c p timeout)) in *.
  destruct (process c pe (rp_strag prm) te) as [pe' o] eqn:E. cbn [snd] in *.
  destruct o; try contradiction.
  - destruct Htf as (ec & Hc & _ & _ & Hroot & _). exists sc, ec. repeat split; try assumption.
    eapply finalize_only_if_rule; [|exact E]. apply deciding_hr_entry_ok. exact I.
  - destruct Htf as (_ & _ & _ & Hno). exfalso. apply (Hno _ Hev).
  - destruct Htf as (_ & Hf & _). congruence.
  - destruct Htf as (_ & Hf & _). congruence.
  - destruct Htf as (_ & Hf & _). congruence.
Qed.

(* whenever the state root changes, a Normal block for the next round was produced *)
Lemma failed_round_keeps_state_root H prm c p st timeout st' evs :
  try_finalize H prm c p st timeout = TFOk st' evs ->
  rs_htype st' = HRoundFailed -> In (EvFinalized (next_round_of st)) evs ->
  rs_root st' = rs_root st /\ rs_round st' = next_round_of st /\
  rs_pool st' = Some new_pool /\ rs_next_timeout st' = TimeoutNever.
Proof.
  intros Htf Hf Hev. apply try_finalize_shape in Htf. unfold tf_shape in Htf.
  destruct (snd (process c _ (rp_strag prm) _)); try contradiction.
  - destruct Htf as (ec & _ & _ & Hn & _). congruence.
  - destruct Htf as (_ & _ & _ & Hno). exfalso. apply (Hno _ Hev).
  - destruct Htf as (A & _ & B & C & D & _). repeat split; assumption.
  - destruct Htf as (A & _ & B & C & D & _). repeat split; assumption.
  - destruct Htf as (A & _ & B & C & D & _). repeat split; assumption.
Qed.

Lemma state_root_changes_only_with_normal_block H prm c p st timeout st' evs :
  try_finalize H prm c p st timeout = TFOk st' evs ->
  rs_root st' <> rs_root st -> rs_htype st' = HNormal /\ rs_round st' = next_round_of st.
Proof.
  intros Htf Hne. apply try_finalize_shape in Htf. unfold tf_shape in Htf.
  destruct (snd (process c _ (rp_strag prm) _)); try contradiction.
  - destruct Htf as (ec & _ & A & B & _). split; assumption.
  - destruct Htf as (_ & A & _). contradiction.
  - destruct Htf as (_ & _ & A & _). contradiction.
  - destruct Htf as (_ & _ & A & _). contradiction.
  - destruct Htf as (_ & _ & A & _). contradiction.
Qed.

(* after the round timer expired the attempt never just keeps waiting: either a block is
   produced, or a discrepancy was detected in this very call and the timer was re-armed to a
   LATER height for the backup workers *)
Lemma timeout_never_keeps_waiting H prm c p st st' evs :
  try_finalize H prm c p st true = TFOk st' evs ->
  (forall r, ~ In (EvFinalized r) evs) ->
  exists rank,
    evs = [EvDiscrepancy (next_round_of st) rank true] /\
    snd (process c p (rp_strag prm) true) = PDiscrepancy /\
    rs_next_timeout st' = (H + rp_round_timeout prm * 15 / 10)%Z /\
    rs_next_timeout st' <> H.
Proof.
  unfold try_finalize. intros Htf Hno.
  pose proof (no_wait_after_timeout c p (rp_strag prm)) as Hnw.
  destruct (process c p (rp_strag prm) true) as [p1 o1] eqn:E1. cbn [snd] in *.
  destruct o1.
  - destruct (sc_commit sc); [|discriminate]. unfold finalize_block in Htf. injection Htf as <- <-.
    exfalso. apply (Hno (next_round_of st)). left. reflexivity.
  - contradiction.
  - destruct (process c p1 (rp_strag prm) (H + rp_round_timeout prm * 15 / 10 =? H)%Z) as [p2 o2] eqn:E2.
    destruct o2.
    + destruct (sc_commit sc); [|discriminate]. unfold finalize_block in Htf. injection Htf as <- <-.
      exfalso. apply (Hno (next_round_of st)). right. left. reflexivity.
    + injection Htf as <- <-. exists (hr p1). cbn. repeat split; try reflexivity.
      destruct (H + rp_round_timeout prm * 15 / 10 =? H)%Z eqn:Et; [|lia].
      exfalso. pose proof (no_wait_after_timeout c p1 (rp_strag prm)) as Hn2.
      rewrite E2 in Hn2. apply Hn2. reflexivity.
    + discriminate.
    + unfold finalize_block in Htf. injection Htf as <- <-.
      exfalso. apply (Hno (next_round_of st)). right. left. reflexivity.
    + unfold finalize_block in Htf. injection Htf as <- <-.
      exfalso. apply (Hno (next_round_of st)). right. left. reflexivity.
    + unfold finalize_block in Htf. injection Htf as <- <-.
      exfalso. apply (Hno (next_round_of st)). right. left. reflexivity.
    + discriminate.
  - unfold finalize_block in Htf. injection Htf as <- <-.
    exfalso. apply (Hno (next_round_of st)). left. reflexivity.
  - unfold finalize_block in Htf. injection Htf as <- <-.
    exfalso. apply (Hno (next_round_of st)). left. reflexivity.
  - unfold finalize_block in Htf. injection Htf as <- <-.
    exfalso. apply (Hno (next_round_of st)). left. reflexivity.
  - discriminate.
Qed.

(* ====================================================================== *)
(* ---------- the round timeout is armed only for an active runtime ---------- *)

Definition active (st : rt_state) : Prop :=
  rs_suspended st = false /\ rs_committee st <> None /\ rs_pool st <> None.

Definition armed_ok (st : rt_state) : Prop := rs_next_timeout st <> TimeoutNever -> active st.

Lemma armed_ok_new round root : armed_ok (new_runtime round root).
Proof. intros H. cbn in H. contradiction. Qed.

Lemma finalize_block_timeout st ht root : rs_next_timeout (fst (finalize_block st ht root)) = TimeoutNever.
Proof. reflexivity. Qed.

Lemma begin_block_armed_ok st ep : armed_ok st -> armed_ok (fst (begin_block st ep)).
Proof.
  intros I. destruct ep as [[c|]|]; cbn [begin_block finalize_block fst]; [| |exact I];
    intros H; cbn in H; contradiction.
Qed.

Lemma executor_commit_cases H prm st vcs :
  (fst (fst (executor_commit H prm st vcs)) = st /\ snd (executor_commit H prm st vcs) = false) \/
  (snd (executor_commit H prm st vcs) = true /\
   rs_suspended st = false /\ rs_committee st <> None /\
   exists p1 nt, fst (fst (executor_commit H prm st vcs)) =
     mkRS (rs_round st) (rs_root st) (rs_htype st) (Some p1) (rs_committee st) (rs_suspended st) nt).
Proof.
  unfold executor_commit. destruct vcs as [|vc r]; [left; split; reflexivity|].
  destruct (rs_suspended st) eqn:Es; [left; split; reflexivity|].
  destruct (rs_committee st) as [c|] eqn:Ec; [|left; split; reflexivity].
  destruct (rs_pool st) as [p|] eqn:Ep; [|left; split; reflexivity].
  destruct (commit_all _ _ _ c p (vc :: r)) as [p1 code].
  destruct (code =? 0); [|left; split; reflexivity].
  right. cbn [fst snd]. split; [reflexivity|]. split; [reflexivity|]. split; [discriminate|].
  eexists. eexists. reflexivity.
Qed.

Lemma executor_commit_armed_ok H prm st vcs :
  armed_ok st -> armed_ok (fst (fst (executor_commit H prm st vcs))).
Proof.
  intros I. destruct (executor_commit_cases H prm st vcs) as [[-> _]|(_ & Hs & Hc & p1 & nt & ->)]; [exact I|].
  intros _. unfold active. cbn. repeat split; [exact Hs|exact Hc|discriminate].
Qed.

Lemma executor_commit_ok_active H prm st vcs :
  snd (executor_commit H prm st vcs) = true -> active (fst (fst (executor_commit H prm st vcs))).
Proof.
  intros Hr. destruct (executor_commit_cases H prm st vcs) as [[_ Hf]|(_ & Hs & Hc & p1 & nt & ->)]; [congruence|].
  unfold active. cbn. repeat split; [exact Hs|exact Hc|discriminate].
Qed.

Lemma executor_commit_keeps_active H prm st vcs :
  active st -> active (fst (fst (executor_commit H prm st vcs))).
Proof.
  intros A. destruct (executor_commit_cases H prm st vcs) as [[-> _]|(_ & Hs & Hc & p1 & nt & ->)]; [exact A|].
  unfold active. cbn. repeat split; [exact Hs|exact Hc|discriminate].
Qed.

Lemma run_txs_spec H prm txs : forall st fin st' codes fin',
  run_txs H prm st txs fin = (st', codes, fin') ->
  (armed_ok st -> armed_ok st') /\ ((fin = true -> active st) -> fin' = true -> active st').
Proof.
  induction txs as [|vc r IH]; intros st fin st' codes fin'; cbn [run_txs].
  - intros Hx. injection Hx as <- <- <-. split; auto.
  - destruct (executor_commit H prm st vc) as [[st1 code] reg] eqn:E1.
    destruct (run_txs H prm st1 r (fin || reg)) as [[st2 codes2] fin2] eqn:E2.
    intros Hx. injection Hx as <- <- <-. apply IH in E2 as [A B]. split.
    + intros I. apply A. pose proof (executor_commit_armed_ok H prm st vc I) as I1.
      rewrite E1 in I1. exact I1.
    + intros Hf Hf2. apply B; [|exact Hf2]. intros Ho. apply orb_true_iff in Ho as [Ho|Ho].
      * pose proof (executor_commit_keeps_active H prm st vc (Hf Ho)) as K. rewrite E1 in K. exact K.
      * pose proof (executor_commit_ok_active H prm st vc) as K. rewrite E1 in K. cbn [fst snd] in K.
        apply K. exact Ho.
Qed.

Lemma try_finalize_armed_ok H prm c p st timeout st' evs :
  rs_suspended st = false -> rs_committee st = Some c ->
  try_finalize H prm c p st timeout = TFOk st' evs -> active st' \/ rs_next_timeout st' = TimeoutNever.
Proof.
  intros Hs Hc. unfold try_finalize.
  destruct (process c p (rp_strag prm) timeout) as [p1 o1].
  assert (Hfb : forall s ht root s' e, finalize_block s ht root = (s', e) -> rs_next_timeout s' = TimeoutNever).
  { intros s ht root s' e Hx. unfold finalize_block in Hx. injection Hx as <- _. reflexivity. }
  destruct o1.
  - destruct (sc_commit sc); [|discriminate]. destruct (finalize_block _ _ _) as [s e] eqn:F.
    intros Hx. injection Hx as <- _. right. eapply Hfb. exact F.
  - intros Hx. injection Hx as <- _. left. unfold active. cbn. rewrite ?Hs, ?Hc. repeat split; try reflexivity; discriminate.
  - destruct (process c p1 (rp_strag prm) _) as [p2 o2]. destruct o2.
    + destruct (sc_commit sc); [|discriminate]. destruct (finalize_block _ _ _) as [s e] eqn:F.
      intros Hx. injection Hx as <- _. right. eapply Hfb. exact F.
    + intros Hx. injection Hx as <- _. left. unfold active. cbn. rewrite ?Hs, ?Hc. repeat split; try reflexivity; discriminate.
    + discriminate.
    + destruct (finalize_block _ _ _) as [s e] eqn:F. intros Hx. injection Hx as <- _. right. eapply Hfb. exact F.
    + destruct (finalize_block _ _ _) as [s e] eqn:F. intros Hx. injection Hx as <- _. right. eapply Hfb. exact F.
    + destruct (finalize_block _ _ _) as [s e] eqn:F. intros Hx. injection Hx as <- _. right. eapply Hfb. exact F.
    + discriminate.
  - destruct (finalize_block _ _ _) as [s e] eqn:F. intros Hx. injection Hx as <- _. right. eapply Hfb. exact F.
  - destruct (finalize_block _ _ _) as [s e] eqn:F. intros Hx. injection Hx as <- _. right. eapply Hfb. exact F.
  - destruct (finalize_block _ _ _) as [s e] eqn:F. intros Hx. injection Hx as <- _. right. eapply Hfb. exact F.
  - discriminate.
Qed.

Lemma try_finalize_round_armed_ok H prm st timeout st' evs :
  try_finalize_round H prm st timeout = EndOk st' evs -> armed_ok st'.
Proof.
  unfold try_finalize_round. destruct (rs_suspended st) eqn:Es; [discriminate|].
  destruct (rs_committee st) as [c|] eqn:Ec; [|discriminate].
  destruct (rs_pool st) as [p|] eqn:Ep; [|discriminate].
  destruct (try_finalize H prm c p st timeout) as [s e| | |] eqn:E; cbn [tf_end]; try discriminate.
  intros Hx. injection Hx as <- _.
  destruct (try_finalize_armed_ok _ _ _ _ _ _ _ _ Es Ec E) as [A|A]; intros Hn; [exact A|contradiction].
Qed.

Lemma end_block_armed_ok H prm st fin st' evs :
  armed_ok st -> end_block H prm st fin = EndOk st' evs -> armed_ok st'.
Proof.
  intros I. unfold end_block.
  set (r1 := if fin then try_finalize_round H prm st false else EndOk st []).
  assert (I1 : forall s e, r1 = EndOk s e -> armed_ok s).
  { unfold r1. destruct fin; intros s e Hx; [eapply try_finalize_round_armed_ok; exact Hx|].
    injection Hx as <- _. exact I. }
  destruct r1 as [st1 e1|cd]; [|discriminate].
  destruct ((rs_next_timeout st1 =? H)%Z && negb (H =? TimeoutNever)%Z).
  - destruct (try_finalize_round H prm st1 true) as [st2 e2|cd] eqn:E2; [|discriminate].
    intros Hx. injection Hx as <- _. eapply try_finalize_round_armed_ok. exact E2.
  - intros Hx. injection Hx as <- _. eapply I1. reflexivity.
Qed.

Lemma app_block_armed_ok prm st b : armed_ok st -> armed_ok (fst (app_block prm st b)).
Proof.
  intros I. unfold app_block.
  pose proof (begin_block_armed_ok st (ab_epoch b) I) as I1.
  destruct (begin_block st (ab_epoch b)) as [st1 eb]. cbn [fst] in I1.
  destruct (run_txs (ab_height b) prm st1 (ab_txs b) false) as [[st2 codes] fin] eqn:Et.
  apply run_txs_spec in Et as [A _]. specialize (A I1).
  destruct (end_block (ab_height b) prm st2 fin) as [s e|cd] eqn:Ee; cbn [fst].
  - eapply end_block_armed_ok; [exact A|exact Ee].
  - exact A.
Qed.

Lemma app_states_armed_ok prm bs : forall st, armed_ok st -> armed_ok (app_states prm st bs).
Proof.
  unfold app_states. induction bs as [|b r IH]; intros st I; cbn [fold_left]; [exact I|].
  apply IH. apply app_block_armed_ok. exact I.
Qed.

(* whenever the runtime is suspended, no round timeout is armed *)
Lemma suspended_runtime_has_no_armed_timeout prm bs round root :
  rs_suspended (app_states prm (new_runtime round root) bs) = true ->
  rs_next_timeout (app_states prm (new_runtime round root) bs) = TimeoutNever.
Proof.
  intros Hs. pose proof (app_states_armed_ok prm bs _ (armed_ok_new round root)) as I.
  destruct (Z.eq_dec (rs_next_timeout (app_states prm (new_runtime round root) bs)) TimeoutNever) as [E|E];
    [exact E|]. destruct (I E) as [A _]. congruence.
Qed.

(* EndBlock never fails because an expired round timeout belongs to a runtime that cannot be
   finalized (the failure mode of a suspended runtime with an armed timeout) *)
Lemma end_block_never_fails_on_inactive_runtime prm st b :
  armed_ok st -> (0 < ab_height b)%Z -> bo_halt (snd (app_block prm st b)) <> 1.
Proof.
  intros I Hpos. unfold app_block.
  pose proof (begin_block_armed_ok st (ab_epoch b) I) as I1.
  destruct (begin_block st (ab_epoch b)) as [st1 eb]. cbn [fst] in I1.
  destruct (run_txs (ab_height b) prm st1 (ab_txs b) false) as [[st2 codes] fin] eqn:Et.
  apply run_txs_spec in Et as [A B]. specialize (A I1).
  assert (Hact : fin = true -> active st2) by (apply B; discriminate).
  destruct (end_block (ab_height b) prm st2 fin) as [s e|cd] eqn:Ee; cbn [snd bo_halt]; [discriminate|].
  intros ->. unfold end_block in Ee.
  assert (Hround : forall s t, active s -> try_finalize_round (ab_height b) prm s t <> EndHalt 1).
  { intros s t (X & Y & Z). unfold try_finalize_round. rewrite X.
    destruct (rs_committee s); [|contradiction]. destruct (rs_pool s); [|contradiction].
    destruct (try_finalize _ _ _ _ _ _); cbn; discriminate. }
  destruct fin.
  - destruct (try_finalize_round (ab_height b) prm st2 false) as [st3 e3|cd] eqn:E3.
    + destruct ((rs_next_timeout st3 =? ab_height b)%Z && negb (ab_height b =? TimeoutNever)%Z) eqn:Ec; [|discriminate].
      destruct (try_finalize_round (ab_height b) prm st3 true) as [st4 e4|cd] eqn:E4; [discriminate|].
      injection Ee as ->. apply (Hround st3 true); [|exact E4].
      apply (try_finalize_round_armed_ok _ _ _ _ _ _ E3). unfold TimeoutNever in *. lia.
    + injection Ee as ->. apply (Hround st2 false (Hact eq_refl)). exact E3.
  - destruct ((rs_next_timeout st2 =? ab_height b)%Z && negb (ab_height b =? TimeoutNever)%Z) eqn:Ec; [|discriminate].
    destruct (try_finalize_round (ab_height b) prm st2 true) as [st4 e4|cd] eqn:E4; [discriminate|].
    injection Ee as ->. apply (Hround st2 true); [|exact E4]. apply A. unfold TimeoutNever in *. lia.
Qed.

(* a multi-commitment transaction is all-or-nothing *)
Lemma executor_commit_all_or_nothing H prm st vcs :
  snd (fst (executor_commit H prm st vcs)) <> 0 ->
  fst (fst (executor_commit H prm st vcs)) = st /\ snd (executor_commit H prm st vcs) = false.
Proof.
  unfold executor_commit. destruct vcs as [|vc r]; [cbn; intros H0; contradiction|].
  destruct (rs_suspended st); [split; reflexivity|].
  destruct (rs_committee st) as [c|]; [|split; reflexivity].
  destruct (rs_pool st) as [p|]; [|split; reflexivity].
  destruct (commit_all _ _ _ c p (vc :: r)) as [p1 code].
  destruct (code =? 0) eqn:E; cbn [fst snd]; [intros H0; contradiction|split; reflexivity].
Qed.

(* when it succeeds, every commitment in it passed verification and was added, in order *)
Lemma commit_all_ok round bh mm c : forall vcs p p1,
  commit_all round bh mm c p vcs = (p1, 0) ->
  Forall (fun vc => verify round bh mm vc = VOk) vcs /\
  p1 = fold_left (fun q vc => fst (add c q (vc_ec vc))) vcs p.
Proof.
  induction vcs as [|vc r IH]; intros p p1; cbn [commit_all fold_left].
  - intros H. injection H as <-. split; [constructor|reflexivity].
  - destruct (verify round bh mm vc) eqn:V; try (cbn; discriminate).
    destruct (add c p (vc_ec vc)) as [q e] eqn:A. destruct e; try (cbn; discriminate).
    intros H. apply IH in H as [F E]. split; [constructor; assumption|]. cbn [fst]. exact E.
Qed.
