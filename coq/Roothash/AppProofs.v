(* Proofs about the model of the roothash application's finalization (App.v). *)
From Verif Require Import Lib.Base Roothash.Pool Roothash.PoolSpec Roothash.PoolProofs
  Roothash.PoolInv Roothash.Verify Roothash.VerifyProofs Roothash.App.

Lemma process_disc_shape c p s t p1 :
  process c p s t = (p1, PDiscrepancy) ->
  disc p = false /\ p1 = mkPool (hr p) (filter (fun e => fst e =? hr p) (scs p)) true.
Proof.
  intros H. pose proof (otherwise_wait_resolve_or_fail c p s t) as S. rewrite H in S.
  cbn [fst snd outcome_shape] in S. destruct S as (D & _ & E). split; assumption.
Qed.

Lemma process_not_disc_same c p s t p1 o :
  process c p s t = (p1, o) -> o <> PDiscrepancy -> p1 = p.
Proof.
  intros H Hn. pose proof (otherwise_wait_resolve_or_fail c p s t) as S. rewrite H in S.
  cbn [fst snd] in S. destruct o; cbn [outcome_shape] in S; try (destruct S as [S _]; exact S).
  contradiction.
Qed.

Lemma hr_entry_ok_process c p s t : hr_entry_ok c p -> hr_entry_ok c (fst (process c p s t)).
Proof.
  intros I. destruct (process c p s t) as [p1 o] eqn:E. cbn [fst].
  destruct o; try (rewrite (process_not_disc_same _ _ _ _ _ _ E); [exact I|discriminate]).
  apply process_disc_shape in E as [_ ->]. intros sc H. cbn [hr scs] in H.
  rewrite aget_filter_eq, N.eqb_refl in H. apply I. exact H.
Qed.

(* ---------- the stages of a finalization attempt ---------- *)

Definition next_round_of (st : rt_state) : N := (rs_round st + 1) mod W64.

(* the pool / timeout flag of the deciding ProcessCommitments call *)
Definition deciding (H : Z) (prm : rt_params) (c : committee) (p : pool) (timeout : bool) : pool * bool :=
  match process c p (rp_strag prm) timeout with
  | (p1, PDiscrepancy) => (p1, (H + rp_round_timeout prm * 15 / 10 =? H)%Z)
  | _ => (p, timeout)
  end.

(* everything but the armed timeout is untouched by the first stage *)
Definition same_block (st st1 : rt_state) : Prop :=
  rs_round st1 = rs_round st /\ rs_root st1 = rs_root st /\ rs_htype st1 = rs_htype st /\
  rs_committee st1 = rs_committee st /\ rs_suspended st1 = rs_suspended st /\
  rs_io st1 = rs_io st /\ rs_prev st1 = rs_prev st /\ rs_msgs st1 = rs_msgs st /\
  rs_live st1 = rs_live st /\ rs_results st1 = rs_results st.

Lemma tf_decide_spec H prm c p st timeout st1 p2 o2 ev :
  tf_decide H prm c p st timeout = (st1, p2, o2, ev) ->
  same_block st st1 /\
  process c (fst (deciding H prm c p timeout)) (rp_strag prm) (snd (deciding H prm c p timeout)) = (p2, o2) /\
  o2 <> PDiscrepancy /\
  ((ev = [] /\ st1 = st /\ snd (process c p (rp_strag prm) timeout) = o2) \/
   (exists rank, ev = [EvDiscrepancy (next_round_of st) rank timeout] /\
      snd (process c p (rp_strag prm) timeout) = PDiscrepancy /\
      rs_next_timeout st1 = (H + rp_round_timeout prm * 15 / 10)%Z /\
      snd (deciding H prm c p timeout) = (H + rp_round_timeout prm * 15 / 10 =? H)%Z)).
Proof.
  unfold tf_decide, deciding.
  destruct (process c p (rp_strag prm) timeout) as [p1 o1] eqn:E1.
  assert (Hsame : o1 <> PDiscrepancy -> p1 = p) by (apply (process_not_disc_same _ _ _ _ _ _ E1)).
  assert (Hrefl : same_block st st) by (repeat split; reflexivity).
  destruct o1; cbn [fst snd];
    try (intros Hx; injection Hx as <- <- <- <-; rewrite (Hsame ltac:(discriminate)) in *;
         split; [exact Hrefl|]; split; [exact E1|]; split; [discriminate|]; left; repeat split; reflexivity).
  destruct (process c p1 (rp_strag prm) _) as [q2 q] eqn:E2.
  intros Hx. injection Hx as <- <- <- <-.
  split; [repeat split; reflexivity|]. split; [first [exact E2|reflexivity]|]. split.
  - assert (Hd : disc p1 = true) by (apply process_disc_shape in E1 as [_ ->]; reflexivity).
    pose proof (second_process_never_detects c p1 (rp_strag prm)
                  ((H + rp_round_timeout prm * 15 / 10 =? H)%Z) Hd) as Hn.
    rewrite E2 in Hn. exact Hn.
  - right. exists (hr p1). repeat split; reflexivity.
Qed.

Lemma finalize_normal_spec prm c s p2 lv sc ec st2 e2 :
  finalize_normal prm c s p2 lv sc ec = Some (st2, e2) ->
  e2 = [EvFinalized (next_round_of s)] /\
  rs_round st2 = next_round_of s /\ rs_htype st2 = HNormal /\
  rs_root st2 = lookup (ec_vote ec) (rp_roots prm) /\
  rs_io st2 = lookup (ec_vote ec) (rp_ios prm) /\
  rs_msgs st2 = lookup (ec_vote ec) (rp_mhs prm) /\
  rs_prev st2 = lookup (rs_round s) (rp_hashes prm) /\
  rs_pool st2 = Some new_pool /\ rs_next_timeout st2 = TimeoutNever /\
  rs_committee st2 = rs_committee s /\ rs_suspended st2 = rs_suspended s.
Proof.
  unfold finalize_normal. destruct (scheduler_idx c _ 0) as [first|]; [|discriminate].
  destruct (live_loop _ _ _ _ _ _ _ _) as [[live good] bad].
  unfold finalize_block. cbn. intros Hx. injection Hx as <- <-. repeat split; reflexivity.
Qed.

Lemma fail_round_spec prm c s p2 lv st2 e2 :
  fail_round prm c s p2 lv = Some (st2, e2) ->
  e2 = [EvFinalized (next_round_of s)] /\
  rs_round st2 = next_round_of s /\ rs_htype st2 = HRoundFailed /\
  rs_root st2 = rs_root s /\ rs_io st2 = rp_empty prm /\ rs_msgs st2 = rp_empty prm /\
  rs_prev st2 = lookup (rs_round s) (rp_hashes prm) /\
  rs_pool st2 = Some new_pool /\ rs_next_timeout st2 = TimeoutNever /\
  rs_committee st2 = rs_committee s /\ rs_suspended st2 = rs_suspended s /\
  rs_results st2 = rs_results s.
Proof.
  unfold fail_round. destruct (scheduler_idx c _ 0) as [first|]; [|discriminate].
  unfold finalize_block. cbn. intros Hx. injection Hx as <- <-. repeat split; reflexivity.
Qed.

(* ---------- second_process_never_detects, lifted to the application ---------- *)

Lemma app_second_process_never_detects H prm c p st timeout :
  try_finalize H prm c p st timeout <> TFErrDiscrepancy.
Proof.
  unfold try_finalize. destruct (tf_decide H prm c p st timeout) as [[[st1 p2] o2] ev] eqn:E.
  apply tf_decide_spec in E as (_ & _ & Hn & _).
  destruct o2; try discriminate; try contradiction.
  - destruct (sc_commit sc); [|discriminate].
    destruct (finalize_normal _ _ _ _ _ _ _) as [[? ?]|]; discriminate.
  - destruct (fail_round _ _ _ _ _) as [[? ?]|]; discriminate.
  - destruct (fail_round _ _ _ _ _) as [[? ?]|]; discriminate.
  - destruct (fail_round _ _ _ _ _) as [[? ?]|]; discriminate.
Qed.

(* ---------- classification of a successful finalization attempt ---------- *)

Definition tf_shape (H : Z) (prm : rt_params) (c : committee) (p : pool) (st : rt_state) (timeout : bool)
           (st' : rt_state) (evs : list app_event) : Prop :=
  let pe := fst (deciding H prm c p timeout) in
  let te := snd (deciding H prm c p timeout) in
  let o := snd (process c pe (rp_strag prm) te) in
  match o with
  | POk sc =>
      exists ec, sc_commit sc = Some ec /\
        rs_round st' = next_round_of st /\ rs_htype st' = HNormal /\
        rs_root st' = lookup (ec_vote ec) (rp_roots prm) /\
        rs_pool st' = Some new_pool /\ rs_next_timeout st' = TimeoutNever /\
        In (EvFinalized (next_round_of st)) evs /\
        rs_io st' = lookup (ec_vote ec) (rp_ios prm) /\
        rs_msgs st' = lookup (ec_vote ec) (rp_mhs prm) /\
        rs_prev st' = lookup (rs_round st) (rp_hashes prm)
  | PStillWaiting =>
      rs_round st' = rs_round st /\ rs_root st' = rs_root st /\ rs_htype st' = rs_htype st /\
      (forall r, ~ In (EvFinalized r) evs) /\
      rs_io st' = rs_io st /\ rs_msgs st' = rs_msgs st /\ rs_prev st' = rs_prev st
  | PNoScheduler | PBadScheduler | PInsufficientVotes =>
      rs_round st' = next_round_of st /\ rs_htype st' = HRoundFailed /\
      rs_root st' = rs_root st /\
      rs_pool st' = Some new_pool /\ rs_next_timeout st' = TimeoutNever /\
      In (EvFinalized (next_round_of st)) evs /\
      rs_io st' = rp_empty prm /\ rs_msgs st' = rp_empty prm /\
      rs_prev st' = lookup (rs_round st) (rp_hashes prm)
  | _ => False
  end.

Lemma try_finalize_shape H prm c p st timeout st' evs :
  try_finalize H prm c p st timeout = TFOk st' evs -> tf_shape H prm c p st timeout st' evs.
Proof.
  unfold try_finalize, tf_shape.
  destruct (tf_decide H prm c p st timeout) as [[[st1 p2] o2] ev] eqn:E.
  apply tf_decide_spec in E as (Sb & Ep & Hn & Hev). rewrite Ep. cbn [snd].
  destruct Sb as (B1 & B2 & B3 & B4 & B5 & B6 & B7 & B8 & B9 & B10).
  assert (Hnofin : forall r, ~ In (EvFinalized r) ev).
  { intros r Hin. destruct Hev as [(-> & _)|(rank & -> & _)]; [destruct Hin|].
    destruct Hin as [Hf|[]]. discriminate Hf. }
  assert (Hnr : next_round_of st1 = next_round_of st) by (unfold next_round_of; rewrite B1; reflexivity).
  destruct o2; try contradiction.
  - destruct (sc_commit sc) as [ec|] eqn:Ec; [|discriminate].
    destruct (finalize_normal prm c st1 p2 (live_of st c) sc ec) as [[s2 e2]|] eqn:F; [|discriminate].
    cbn [opt_result]. intros Hx. injection Hx as <- <-.
    apply finalize_normal_spec in F as (-> & F1 & F2 & F3 & F4 & F5 & F6 & F7 & F8 & _).
    exists ec. rewrite Hnr in *. rewrite B1 in F6. repeat split; try assumption.
    apply in_or_app. right. left. reflexivity.
  - intros Hx. injection Hx as <- <-. cbn. repeat split; try assumption.
  - destruct (fail_round prm c st1 p2 (live_of st c)) as [[s2 e2]|] eqn:F; [|discriminate].
    cbn [opt_result]. intros Hx. injection Hx as <- <-.
    apply fail_round_spec in F as (-> & F1 & F2 & F3 & F4 & F5 & F6 & F7 & F8 & _).
    rewrite Hnr in *. rewrite B1 in F6. rewrite B2 in F3. repeat split; try assumption.
    apply in_or_app. right. left. reflexivity.
  - destruct (fail_round prm c st1 p2 (live_of st c)) as [[s2 e2]|] eqn:F; [|discriminate].
    cbn [opt_result]. intros Hx. injection Hx as <- <-.
    apply fail_round_spec in F as (-> & F1 & F2 & F3 & F4 & F5 & F6 & F7 & F8 & _).
    rewrite Hnr in *. rewrite B1 in F6. rewrite B2 in F3. repeat split; try assumption.
    apply in_or_app. right. left. reflexivity.
  - destruct (fail_round prm c st1 p2 (live_of st c)) as [[s2 e2]|] eqn:F; [|discriminate].
    cbn [opt_result]. intros Hx. injection Hx as <- <-.
    apply fail_round_spec in F as (-> & F1 & F2 & F3 & F4 & F5 & F6 & F7 & F8 & _).
    rewrite Hnr in *. rewrite B1 in F6. rewrite B2 in F3. repeat split; try assumption.
    apply in_or_app. right. left. reflexivity.
  - discriminate.
Qed.

Lemma deciding_hr_entry_ok H prm c p timeout :
  hr_entry_ok c p -> hr_entry_ok c (fst (deciding H prm c p timeout)).
Proof.
  intros I. unfold deciding.
  pose proof (hr_entry_ok_process c p (rp_strag prm) timeout I) as I'.
  destruct (process c p (rp_strag prm) timeout) as [p1 o1]. cbn [fst] in I'.
  destruct o1; cbn [fst]; assumption.
Qed.

(* a Normal block is produced only if the rule held for the chosen commitment, and it carries
   that commitment's state root, IO root and messages hash *)
Lemma normal_block_only_if_rule H prm c p st timeout st' evs :
  hr_entry_ok c p ->
  try_finalize H prm c p st timeout = TFOk st' evs ->
  In (EvFinalized (next_round_of st)) evs -> rs_htype st' = HNormal ->
  exists sc ec,
    snd (process c (fst (deciding H prm c p timeout)) (rp_strag prm) (snd (deciding H prm c p timeout))) = POk sc /\
    sc_commit sc = Some ec /\
    rs_root st' = lookup (ec_vote ec) (rp_roots prm) /\
    rule c (rp_strag prm) (disc (fst (deciding H prm c p timeout))) sc.
Proof.
  intros I Htf Hev Hn. apply try_finalize_shape in Htf. unfold tf_shape in Htf.
  set (pe := fst (deciding H prm c p timeout)) in *.
  set (te := snd (deciding H prm c p timeout)) in *.
  destruct (process c pe (rp_strag prm) te) as [pe' o] eqn:E. cbn [snd] in *.
  destruct o; try contradiction.
  - destruct Htf as (ec & Hc & _ & _ & Hroot & _). exists sc, ec. repeat split; try assumption.
    eapply finalize_only_if_rule; [|exact E]. apply deciding_hr_entry_ok. exact I.
  - destruct Htf as (_ & _ & _ & Hno & _). exfalso. apply (Hno _ Hev).
  - destruct Htf as (_ & Hf & _). congruence.
  - destruct Htf as (_ & Hf & _). congruence.
  - destruct Htf as (_ & Hf & _). congruence.
Qed.

(* a failed round keeps the previous state root; its IO root and messages hash are empty *)
Lemma failed_round_keeps_state_root H prm c p st timeout st' evs :
  try_finalize H prm c p st timeout = TFOk st' evs ->
  rs_htype st' = HRoundFailed -> In (EvFinalized (next_round_of st)) evs ->
  rs_root st' = rs_root st /\ rs_round st' = next_round_of st /\
  rs_pool st' = Some new_pool /\ rs_next_timeout st' = TimeoutNever.
Proof.
  intros Htf Hf Hev. apply try_finalize_shape in Htf. unfold tf_shape in Htf.
  destruct (snd (process c _ (rp_strag prm) _)); try contradiction.
  - destruct Htf as (ec & _ & _ & Hn & _). congruence.
  - destruct Htf as (_ & _ & _ & Hno & _). exfalso. apply (Hno _ Hev).
  - destruct Htf as (A & _ & B & C & D & _). repeat split; assumption.
  - destruct Htf as (A & _ & B & C & D & _). repeat split; assumption.
  - destruct Htf as (A & _ & B & C & D & _). repeat split; assumption.
Qed.

Lemma failed_round_header H prm c p st timeout st' evs :
  try_finalize H prm c p st timeout = TFOk st' evs ->
  rs_htype st' = HRoundFailed -> In (EvFinalized (next_round_of st)) evs ->
  rs_root st' = rs_root st /\ rs_io st' = rp_empty prm /\ rs_msgs st' = rp_empty prm /\
  rs_prev st' = lookup (rs_round st) (rp_hashes prm) /\ rs_round st' = next_round_of st.
Proof.
  intros Htf Hf Hev. apply try_finalize_shape in Htf. unfold tf_shape in Htf.
  destruct (snd (process c _ (rp_strag prm) _)); try contradiction.
  - destruct Htf as (ec & _ & _ & Hn & _). congruence.
  - destruct Htf as (_ & _ & _ & Hno & _). exfalso. apply (Hno _ Hev).
  - destruct Htf as (A & _ & B & _ & _ & _ & C & D & E). repeat split; assumption.
  - destruct Htf as (A & _ & B & _ & _ & _ & C & D & E). repeat split; assumption.
  - destruct Htf as (A & _ & B & _ & _ & _ & C & D & E). repeat split; assumption.
Qed.

Lemma state_root_changes_only_with_normal_block H prm c p st timeout st' evs :
  try_finalize H prm c p st timeout = TFOk st' evs ->
  rs_root st' <> rs_root st -> rs_htype st' = HNormal /\ rs_round st' = next_round_of st.
Proof.
  intros Htf Hne. apply try_finalize_shape in Htf. unfold tf_shape in Htf.
  destruct (snd (process c _ (rp_strag prm) _)); try contradiction.
  - destruct Htf as (ec & _ & A & B & _). split; assumption.
  - destruct Htf as (_ & A & _). contradiction.
  - destruct Htf as (_ & _ & A & _). contradiction.
  - destruct Htf as (_ & _ & A & _). contradiction.
  - destruct Htf as (_ & _ & A & _). contradiction.
Qed.

(* after the round timer expired the attempt never just keeps waiting: either a block is
   produced, or a discrepancy was detected in this very call and the timer was re-armed to a
   LATER height for the backup workers *)
Lemma timeout_never_keeps_waiting H prm c p st st' evs :
  try_finalize H prm c p st true = TFOk st' evs ->
  (forall r, ~ In (EvFinalized r) evs) ->
  exists rank,
    evs = [EvDiscrepancy (next_round_of st) rank true] /\
    snd (process c p (rp_strag prm) true) = PDiscrepancy /\
    rs_next_timeout st' = (H + rp_round_timeout prm * 15 / 10)%Z /\
    rs_next_timeout st' <> H.
Proof.
  unfold try_finalize. intros Htf Hno.
  destruct (tf_decide H prm c p st true) as [[[st1 p2] o2] ev] eqn:E.
  apply tf_decide_spec in E as (Sb & Ep & Hn & Hev).
  destruct o2; try contradiction.
  - destruct (sc_commit sc) as [ec|]; [|discriminate].
    destruct (finalize_normal _ _ _ _ _ _ _) as [[s2 e2]|] eqn:F; [|discriminate].
    injection Htf as <- <-. apply finalize_normal_spec in F as (-> & _).
    exfalso. apply (Hno (next_round_of st1)). apply in_or_app. right. left. reflexivity.
  - injection Htf as <- <-.
    destruct Hev as [(-> & -> & Ho)|(rank & -> & Ho & Hnt & Hte)].
    + exfalso. apply (no_wait_after_timeout c p (rp_strag prm)). exact Ho.
    + exists rank. cbn [with_pool rs_next_timeout]. repeat split; try assumption.
      rewrite Hnt. destruct (H + rp_round_timeout prm * 15 / 10 =? H)%Z eqn:Et; [|lia].
      exfalso. rewrite Hte in Ep.
      pose proof (no_wait_after_timeout c (fst (deciding H prm c p true)) (rp_strag prm)) as Hn2.
      rewrite Ep in Hn2. apply Hn2. reflexivity.
  - destruct (fail_round _ _ _ _ _) as [[s2 e2]|] eqn:F; [|discriminate].
    injection Htf as <- <-. apply fail_round_spec in F as (-> & _).
    exfalso. apply (Hno (next_round_of st1)). apply in_or_app. right. left. reflexivity.
  - destruct (fail_round _ _ _ _ _) as [[s2 e2]|] eqn:F; [|discriminate].
    injection Htf as <- <-. apply fail_round_spec in F as (-> & _).
    exfalso. apply (Hno (next_round_of st1)). apply in_or_app. right. left. reflexivity.
  - destruct (fail_round _ _ _ _ _) as [[s2 e2]|] eqn:F; [|discriminate].
    injection Htf as <- <-. apply fail_round_spec in F as (-> & _).
    exfalso. apply (Hno (next_round_of st1)). apply in_or_app. right. left. reflexivity.
  - discriminate.
Qed.

(* ====================================================================== *)
(* ---------- the round timeout is armed only for an active runtime ---------- *)

Definition active (st : rt_state) : Prop :=
  rs_suspended st = false /\ rs_committee st <> None /\ rs_pool st <> None.

Definition armed_ok (st : rt_state) : Prop := rs_next_timeout st <> TimeoutNever -> active st.

Lemma armed_ok_new prm round root : armed_ok (new_runtime prm round root).
Proof. intros H. cbn in H. contradiction. Qed.

Lemma finalize_block_fields prm st ht hdr :
  let s := fst (finalize_block prm st ht hdr) in
  rs_next_timeout s = TimeoutNever /\ rs_round s = (rs_round st + 1) mod W64 /\ rs_htype s = ht /\
  rs_prev s = lookup (rs_round st) (rp_hashes prm) /\
  rs_committee s = rs_committee st /\ rs_suspended s = rs_suspended st /\
  rs_pool s = (match ht with HSuspended => None | _ => Some new_pool end) /\
  snd (finalize_block prm st ht hdr) = [EvFinalized ((rs_round st + 1) mod W64)] /\
  (ht <> HNormal -> rs_root s = rs_root st /\ rs_io s = rp_empty prm /\ rs_msgs s = rp_empty prm).
Proof.
  unfold finalize_block. destruct ht, hdr as [[[a b] d]|]; cbn; repeat split; try reflexivity;
    try (intros Hx; first [contradiction|repeat split; reflexivity]); try contradiction.
Qed.

Lemma finalize_block_timeout prm st ht root : rs_next_timeout (fst (finalize_block prm st ht root)) = TimeoutNever.
Proof. apply (finalize_block_fields prm st ht root). Qed.

Lemma begin_block_armed_ok prm st ep : armed_ok st -> armed_ok (fst (begin_block prm st ep)).
Proof.
  intros I. destruct ep as [[c|]|]; cbn [begin_block]; [| |exact I].
  - pose proof (finalize_block_timeout prm st HEpochTransition None) as T.
    destruct (finalize_block prm st HEpochTransition None) as [s e]. cbn [fst] in *.
    intros H. cbn in H. contradiction.
  - pose proof (finalize_block_timeout prm st HSuspended None) as T.
    destruct (finalize_block prm st HSuspended None) as [s e]. cbn [fst] in *.
    intros H. cbn in H. contradiction.
Qed.

Lemma executor_commit_cases H prm st vcs :
  (fst (fst (executor_commit H prm st vcs)) = st /\ snd (executor_commit H prm st vcs) = false) \/
  (snd (executor_commit H prm st vcs) = true /\
   rs_suspended st = false /\ rs_committee st <> None /\
   exists p1 nt, fst (fst (executor_commit H prm st vcs)) =
     mkRS (rs_round st) (rs_root st) (rs_htype st) (Some p1) (rs_committee st) (rs_suspended st) nt
          (rs_io st) (rs_prev st) (rs_msgs st) (rs_live st) (rs_results st)).
Proof.
  unfold executor_commit. destruct vcs as [|vc r]; [left; split; reflexivity|].
  destruct (rs_suspended st) eqn:Es; [left; split; reflexivity|].
  destruct (rs_committee st) as [c|] eqn:Ec; [|left; split; reflexivity].
  destruct (rs_pool st) as [p|] eqn:Ep; [|left; split; reflexivity].
  destruct (commit_all _ _ _ c p (vc :: r)) as [p1 code].
  destruct (code =? 0); [|left; split; reflexivity].
  right. cbn [fst snd]. split; [reflexivity|]. split; [reflexivity|]. split; [discriminate|].
  eexists. eexists. reflexivity.
Qed.

Lemma executor_commit_armed_ok H prm st vcs :
  armed_ok st -> armed_ok (fst (fst (executor_commit H prm st vcs))).
Proof.
  intros I. destruct (executor_commit_cases H prm st vcs) as [[-> _]|(_ & Hs & Hc & p1 & nt & ->)]; [exact I|].
  intros _. unfold active. cbn. repeat split; [exact Hs|exact Hc|discriminate].
Qed.

Lemma executor_commit_ok_active H prm st vcs :
  snd (executor_commit H prm st vcs) = true -> active (fst (fst (executor_commit H prm st vcs))).
Proof.
  intros Hr. destruct (executor_commit_cases H prm st vcs) as [[_ Hf]|(_ & Hs & Hc & p1 & nt & ->)]; [congruence|].
  unfold active. cbn. repeat split; [exact Hs|exact Hc|discriminate].
Qed.

Lemma executor_commit_keeps_active H prm st vcs :
  active st -> active (fst (fst (executor_commit H prm st vcs))).
Proof.
  intros A. destruct (executor_commit_cases H prm st vcs) as [[-> _]|(_ & Hs & Hc & p1 & nt & ->)]; [exact A|].
  unfold active. cbn. repeat split; [exact Hs|exact Hc|discriminate].
Qed.

Lemma run_txs_spec H prm txs : forall st fin st' codes fin',
  run_txs H prm st txs fin = (st', codes, fin') ->
  (armed_ok st -> armed_ok st') /\ ((fin = true -> active st) -> fin' = true -> active st').
Proof.
  induction txs as [|vc r IH]; intros st fin st' codes fin'; cbn [run_txs].
  - intros Hx. injection Hx as <- <- <-. split; auto.
  - destruct (executor_commit H prm st vc) as [[st1 code] reg] eqn:E1.
    destruct (run_txs H prm st1 r (fin || reg)) as [[st2 codes2] fin2] eqn:E2.
    intros Hx. injection Hx as <- <- <-. apply IH in E2 as [A B]. split.
    + intros I. apply A. pose proof (executor_commit_armed_ok H prm st vc I) as I1.
      rewrite E1 in I1. exact I1.
    + intros Hf Hf2. apply B; [|exact Hf2]. intros Ho. apply orb_true_iff in Ho as [Ho|Ho].
      * pose proof (executor_commit_keeps_active H prm st vc (Hf Ho)) as K. rewrite E1 in K. exact K.
      * pose proof (executor_commit_ok_active H prm st vc) as K. rewrite E1 in K. cbn [fst snd] in K.
        apply K. exact Ho.
Qed.

Lemma try_finalize_armed_ok H prm c p st timeout st' evs :
  rs_suspended st = false -> rs_committee st = Some c ->
  try_finalize H prm c p st timeout = TFOk st' evs -> active st' \/ rs_next_timeout st' = TimeoutNever.
Proof.
  intros Hs Hc. unfold try_finalize.
  destruct (tf_decide H prm c p st timeout) as [[[st1 p2] o2] ev] eqn:E.
  apply tf_decide_spec in E as (Sb & _).
  destruct Sb as (_ & _ & _ & B4 & B5 & _).
  destruct o2; try discriminate.
  - destruct (sc_commit sc); [|discriminate].
    destruct (finalize_normal _ _ _ _ _ _ _) as [[s2 e2]|] eqn:F; [|discriminate].
    intros Hx. injection Hx as <- _. apply finalize_normal_spec in F as (_ & _ & _ & _ & _ & _ & _ & _ & F & _).
    right. exact F.
  - intros Hx. injection Hx as <- _. left. unfold active. cbn. rewrite B4, B5, Hs, Hc.
    repeat split; try reflexivity; discriminate.
  - destruct (fail_round _ _ _ _ _) as [[s2 e2]|] eqn:F; [|discriminate].
    intros Hx. injection Hx as <- _. apply fail_round_spec in F as (_ & _ & _ & _ & _ & _ & _ & _ & F & _).
    right. exact F.
  - destruct (fail_round _ _ _ _ _) as [[s2 e2]|] eqn:F; [|discriminate].
    intros Hx. injection Hx as <- _. apply fail_round_spec in F as (_ & _ & _ & _ & _ & _ & _ & _ & F & _).
    right. exact F.
  - destruct (fail_round _ _ _ _ _) as [[s2 e2]|] eqn:F; [|discriminate].
    intros Hx. injection Hx as <- _. apply fail_round_spec in F as (_ & _ & _ & _ & _ & _ & _ & _ & F & _).
    right. exact F.
Qed.

Lemma try_finalize_round_armed_ok H prm st timeout st' evs :
  try_finalize_round H prm st timeout = EndOk st' evs -> armed_ok st'.
Proof.
  unfold try_finalize_round. destruct (rs_suspended st) eqn:Es; [discriminate|].
  destruct (rs_committee st) as [c|] eqn:Ec; [|discriminate].
  destruct (rs_pool st) as [p|] eqn:Ep; [|discriminate].
  destruct (try_finalize H prm c p st timeout) as [s e| | | |] eqn:E; cbn [tf_end]; try discriminate.
  intros Hx. injection Hx as <- _.
  destruct (try_finalize_armed_ok _ _ _ _ _ _ _ _ Es Ec E) as [A|A]; intros Hn; [exact A|contradiction].
Qed.

Lemma end_block_armed_ok H prm st fin st' evs :
  armed_ok st -> end_block H prm st fin = EndOk st' evs -> armed_ok st'.
Proof.
  intros I. unfold end_block.
  set (r1 := if fin then try_finalize_round H prm st false else EndOk st []).
  assert (I1 : forall s e, r1 = EndOk s e -> armed_ok s).
  { unfold r1. destruct fin; intros s e Hx; [eapply try_finalize_round_armed_ok; exact Hx|].
    injection Hx as <- _. exact I. }
  destruct r1 as [st1 e1|cd]; [|discriminate].
  destruct ((rs_next_timeout st1 =? H)%Z && negb (H =? TimeoutNever)%Z).
  - destruct (try_finalize_round H prm st1 true) as [st2 e2|cd] eqn:E2; [|discriminate].
    intros Hx. injection Hx as <- _. eapply try_finalize_round_armed_ok. exact E2.
  - intros Hx. injection Hx as <- _. eapply I1. reflexivity.
Qed.

Lemma app_block_armed_ok prm st b : armed_ok st -> armed_ok (fst (app_block prm st b)).
Proof.
  intros I. unfold app_block.
  pose proof (begin_block_armed_ok prm st (ab_epoch b) I) as I1.
  destruct (begin_block prm st (ab_epoch b)) as [st1 eb]. cbn [fst] in I1.
  destruct (run_txs (ab_height b) prm st1 (ab_txs b) false) as [[st2 codes] fin] eqn:Et.
  apply run_txs_spec in Et as [A _]. specialize (A I1).
  destruct (end_block (ab_height b) prm st2 fin) as [s e|cd] eqn:Ee; cbn [fst].
  - eapply end_block_armed_ok; [exact A|exact Ee].
  - exact A.
Qed.

Lemma app_states_armed_ok prm bs : forall st, armed_ok st -> armed_ok (app_states prm st bs).
Proof.
  unfold app_states. induction bs as [|b r IH]; intros st I; cbn [fold_left]; [exact I|].
  apply IH. apply app_block_armed_ok. exact I.
Qed.

(* whenever the runtime is suspended, no round timeout is armed *)
Lemma suspended_runtime_has_no_armed_timeout prm bs round root :
  rs_suspended (app_states prm (new_runtime prm round root) bs) = true ->
  rs_next_timeout (app_states prm (new_runtime prm round root) bs) = TimeoutNever.
Proof.
  intros Hs. pose proof (app_states_armed_ok prm bs _ (armed_ok_new prm round root)) as I.
  destruct (Z.eq_dec (rs_next_timeout (app_states prm (new_runtime prm round root) bs)) TimeoutNever) as [E|E];
    [exact E|]. destruct (I E) as [A _]. congruence.
Qed.

(* EndBlock never fails because an expired round timeout belongs to a runtime that cannot be
   finalized (the failure mode of a suspended runtime with an armed timeout) *)
Lemma end_block_never_fails_on_inactive_runtime prm st b :
  armed_ok st -> (0 < ab_height b)%Z -> bo_halt (snd (app_block prm st b)) <> 1.
Proof.
  intros I Hpos. unfold app_block.
  pose proof (begin_block_armed_ok prm st (ab_epoch b) I) as I1.
  destruct (begin_block prm st (ab_epoch b)) as [st1 eb]. cbn [fst] in I1.
  destruct (run_txs (ab_height b) prm st1 (ab_txs b) false) as [[st2 codes] fin] eqn:Et.
  apply run_txs_spec in Et as [A B]. specialize (A I1).
  assert (Hact : fin = true -> active st2) by (apply B; discriminate).
  destruct (end_block (ab_height b) prm st2 fin) as [s e|cd] eqn:Ee; cbn [snd bo_halt]; [discriminate|].
  intros ->. unfold end_block in Ee.
  assert (Hround : forall s t, active s -> try_finalize_round (ab_height b) prm s t <> EndHalt 1).
  { intros s t (X & Y & Z). unfold try_finalize_round. rewrite X.
    destruct (rs_committee s); [|contradiction]. destruct (rs_pool s); [|contradiction].
    destruct (try_finalize _ _ _ _ _ _); cbn; discriminate. }
  destruct fin.
  - destruct (try_finalize_round (ab_height b) prm st2 false) as [st3 e3|cd] eqn:E3.
    + destruct ((rs_next_timeout st3 =? ab_height b)%Z && negb (ab_height b =? TimeoutNever)%Z) eqn:Ec; [|discriminate].
      destruct (try_finalize_round (ab_height b) prm st3 true) as [st4 e4|cd] eqn:E4; [discriminate|].
      injection Ee as ->. apply (Hround st3 true); [|exact E4].
      apply (try_finalize_round_armed_ok _ _ _ _ _ _ E3). unfold TimeoutNever in *. lia.
    + injection Ee as ->. apply (Hround st2 false (Hact eq_refl)). exact E3.
  - destruct ((rs_next_timeout st2 =? ab_height b)%Z && negb (ab_height b =? TimeoutNever)%Z) eqn:Ec; [|discriminate].
    destruct (try_finalize_round (ab_height b) prm st2 true) as [st4 e4|cd] eqn:E4; [discriminate|].
    injection Ee as ->. apply (Hround st2 true); [|exact E4]. apply A. unfold TimeoutNever in *. lia.
Qed.

(* a multi-commitment transaction is all-or-nothing *)
Lemma executor_commit_all_or_nothing H prm st vcs :
  snd (fst (executor_commit H prm st vcs)) <> 0 ->
  fst (fst (executor_commit H prm st vcs)) = st /\ snd (executor_commit H prm st vcs) = false.
Proof.
  unfold executor_commit. destruct vcs as [|vc r]; [cbn; intros H0; contradiction|].
  destruct (rs_suspended st); [split; reflexivity|].
  destruct (rs_committee st) as [c|]; [|split; reflexivity].
  destruct (rs_pool st) as [p|]; [|split; reflexivity].
  destruct (commit_all _ _ _ c p (vc :: r)) as [p1 code].
  destruct (code =? 0) eqn:E; cbn [fst snd]; [intros H0; contradiction|split; reflexivity].
Qed.

(* when it succeeds, every commitment in it passed verification and was added, in order *)
Lemma commit_all_ok round bh mm c : forall vcs p p1,
  commit_all round bh mm c p vcs = (p1, 0) ->
  Forall (fun vc => verify round bh mm vc = VOk) vcs /\
  p1 = fold_left (fun q vc => fst (add c q (vc_ec vc))) vcs p.
Proof.
  induction vcs as [|vc r IH]; intros p p1; cbn [commit_all fold_left].
  - intros H. injection H as <-. split; [constructor|reflexivity].
  - destruct (verify round bh mm vc) eqn:V; try (cbn; discriminate).
    destruct (add c p (vc_ec vc)) as [q e] eqn:A. destruct e; try (cbn; discriminate).
    intros H. apply IH in H as [F E]. split; [constructor; assumption|]. cbn [fst]. exact E.
Qed.
