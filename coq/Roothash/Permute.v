(* The order of the committee member list and the iteration order of Go's vote map do not
   influence ProcessCommitments. *)
From Coq Require Import Permutation.
From Verif Require Import Lib.Base Roothash.Pool Roothash.PoolSpec Roothash.PoolProofs Roothash.EarlyDetect.

(* ---------- the complete tally in closed form ---------- *)
Lemma gather_all_spec d votes ms : forall t,
  let t' := gather_all d votes ms t in
  t_total t' = t_total t + N.of_nat (length (sel d ms)) /\
  t_failures t' = t_failures t + count (is_fail votes) (sel d ms) /\
  t_commits t' = t_commits t + count (has_vote votes) (sel d ms) /\
  t_votes t' = tallyv (nonfail votes (sel d ms)) (t_votes t).
Proof.
  unfold count, sel. induction ms as [|[ro k] r IH]; intros t; cbn [gather_all].
  - cbn. repeat split; lia.
  - cbn [filter fst]. destruct (counts d ro); cbn [negb]; [|apply IH].
    cbn [map snd length nonfail flat_map filter]. unfold is_fail at 1, has_vote at 1.
    destruct (aget k votes) as [[h|]|] eqn:Ev.
    + specialize (IH (mkT (t_total t + 1) (t_commits t + 1) (t_failures t) (vinc h (t_votes t)))).
      cbn [t_total t_commits t_failures t_votes] in IH. destruct IH as (H1 & H2 & H3 & H4).
      cbn [length app]. unfold nonfail in H4. repeat split; try lia. rewrite H4. reflexivity.
    + specialize (IH (mkT (t_total t + 1) (t_commits t + 1) (t_failures t + 1) (t_votes t))).
      cbn [t_total t_commits t_failures t_votes] in IH. destruct IH as (H1 & H2 & H3 & H4).
      cbn [length app]. unfold nonfail in H4. repeat split; try lia. exact H4.
    + specialize (IH (mkT (t_total t + 1) (t_commits t) (t_failures t) (t_votes t))).
      cbn [t_total t_commits t_failures t_votes] in IH. destruct IH as (H1 & H2 & H3 & H4).
      cbn [length app]. unfold nonfail in H4. repeat split; try lia. exact H4.
Qed.

(* ---------- permutations ---------- *)
Lemma perm_filter {A} (f : A -> bool) l l' : Permutation l l' -> Permutation (filter f l) (filter f l').
Proof.
  induction 1 as [|x l l' _ IH|x y l|l l' l'' _ IH1 _ IH2]; cbn [filter].
  - constructor.
  - destruct (f x); [constructor|]; exact IH.
  - destruct (f x), (f y); try apply Permutation_refl. apply perm_swap.
  - eapply Permutation_trans; eassumption.
Qed.

Lemma perm_sel d c c' : Permutation c c' -> Permutation (sel d c) (sel d c').
Proof. intros H. unfold sel. apply Permutation_map. apply perm_filter. exact H. Qed.

Lemma perm_count f l l' : Permutation l l' -> count f l = count f l'.
Proof. intros H. unfold count. f_equal. apply Permutation_length. apply perm_filter. exact H. Qed.

Lemma perm_nonfail votes l l' : Permutation l l' -> Permutation (nonfail votes l) (nonfail votes l').
Proof.
  unfold nonfail. induction 1 as [|x l l' _ IH|x y l|l l' l'' _ IH1 _ IH2]; cbn [flat_map].
  - constructor.
  - apply Permutation_app_head. exact IH.
  - rewrite !app_assoc. apply Permutation_app_tail. apply Permutation_app_comm.
  - eapply Permutation_trans; eassumption.
Qed.

Lemma perm_occ h l l' : Permutation l l' -> occ h l = occ h l'.
Proof. intros H. unfold occ. f_equal. apply Permutation_length. apply perm_filter. exact H. Qed.

(* ---------- equivalent tallies ---------- *)
Definition vpos (l : list (N * N)) : Prop := forall k v, In (k, v) l -> 0 < v.
Definition teq (l l' : list (N * N)) : Prop :=
  NoDup (keys l) /\ NoDup (keys l') /\ vpos l /\ vpos l' /\ forall h, vget h l = vget h l'.

Lemma in_adel {V} (k k' : N) (v : V) l : In (k, v) (adel k' l) -> In (k, v) l.
Proof.
  induction l as [|[a w] r IH]; cbn [adel]; [intros []|].
  destruct (a =? k'); [intros H; right; apply IH; exact H|].
  intros [H|H]; [left; exact H|right; apply IH; exact H].
Qed.

Lemma vpos_vinc h l : vpos l -> vpos (vinc h l).
Proof.
  intros P k v [H|H].
  - injection H as <- <-. destruct (aget h l); lia.
  - apply in_adel in H. apply (P k v H).
Qed.

Lemma vpos_tallyv hs : forall l, vpos l -> vpos (tallyv hs l).
Proof.
  induction hs as [|h hs IH]; intros l P; cbn [tallyv fold_left]; [exact P|].
  apply IH. apply vpos_vinc. exact P.
Qed.

Lemma teq_tallyv hs hs' : Permutation hs hs' -> teq (tallyv hs []) (tallyv hs' []).
Proof.
  intros H. repeat split.
  - apply tallyv_nodup. constructor.
  - apply tallyv_nodup. constructor.
  - apply vpos_tallyv. intros k v [].
  - apply vpos_tallyv. intros k v [].
  - intros h. rewrite !tallyv_vget. rewrite (perm_occ h _ _ H). reflexivity.
Qed.

Lemma in_keys_ex {V} k (l : list (N * V)) : In k (keys l) -> exists v, In (k, v) l.
Proof.
  unfold keys. intros H. apply in_map_iff in H as [[a v] [E H]]. cbn in E. subst a. exists v. exact H.
Qed.

Lemma key_iff_pos l k : NoDup (keys l) -> vpos l -> (In k (keys l) <-> 0 < vget k l).
Proof.
  intros Hn Hp. split.
  - intros H. apply in_keys_ex in H as [v H]. pose proof (Hp k v H).
    unfold vget. rewrite (in_aget k v l Hn H). assumption.
  - unfold vget. destruct (aget k l) eqn:E; [|lia]. intros _. eapply aget_in_keys. exact E.
Qed.

Lemma teq_vlen l l' : teq l l' -> vlen l = vlen l'.
Proof.
  intros (N1 & N2 & P1 & P2 & E). unfold vlen. f_equal.
  change (length l) with (length l). rewrite <- (map_length fst l), <- (map_length fst l').
  apply Permutation_length. apply NoDup_Permutation; try assumption.
  intros k. fold (keys l) (keys l'). rewrite (key_iff_pos l k N1 P1), (key_iff_pos l' k N2 P2), E. reflexivity.
Qed.

(* ---------- the best vote ---------- *)
Lemma vbest_max l : forall h0 b0 h b, vbest l h0 b0 = (h, b) ->
  b0 <= b /\ (forall k v, In (k, v) l -> v <= b) /\ ((h = h0 /\ b = b0) \/ In (h, b) l).
Proof.
  induction l as [|[k v] r IH]; intros h0 b0 h b; cbn [vbest].
  - intros H. injection H as <- <-. split; [lia|]. split; [intros k v []|left; split; reflexivity].
  - destruct (b0 <? v) eqn:E; intros H; apply IH in H as (A & B & C).
    + split; [lia|]. split.
      * intros k' v' [Hx|Hx]; [injection Hx as <- <-; exact A|apply (B k' v' Hx)].
      * destruct C as [[-> ->]|C]; [right; left; reflexivity|right; right; exact C].
    + split; [exact A|]. split.
      * intros k' v' [Hx|Hx]; [injection Hx as <- <-; lia|apply (B k' v' Hx)].
      * destruct C as [C|C]; [left; exact C|right; right; exact C].
Qed.

Lemma teq_best l l' h b h' b' :
  teq l l' -> vbest l 0 0 = (h, b) -> vbest l' 0 0 = (h', b') -> b = b'.
Proof.
  intros (N1 & N2 & P1 & P2 & E) H H'.
  apply vbest_max in H as (_ & B & C). apply vbest_max in H' as (_ & B' & C').
  assert (Hle : forall l1 l2 h1 b1 b2, NoDup (keys l1) -> NoDup (keys l2) ->
            (forall x, vget x l1 = vget x l2) -> (forall k v, In (k, v) l2 -> v <= b2) ->
            ((h1 = 0 /\ b1 = 0) \/ In (h1, b1) l1) -> b1 <= b2).
  { intros l1 l2 h1 b1 b2 M1 M2 Eq Bd [[_ ->]|Hin]; [lia|].
    pose proof (in_aget h1 b1 l1 M1 Hin) as G.
    assert (V : vget h1 l2 = b1) by (rewrite <- Eq; unfold vget; rewrite G; reflexivity).
    unfold vget in V. destruct (aget h1 l2) as [w|] eqn:G2; [|lia]. subst w.
    assert (In (h1, b1) l2).
    { clear - G2. induction l2 as [|[a w] r IH]; cbn [aget] in G2; [discriminate|].
      destruct (a =? h1) eqn:Ea; [apply N.eqb_eq in Ea; injection G2 as ->; left; congruence|right; apply IH; exact G2]. }
    apply (Bd h1 b1 H). }
  assert (b <= b') by (apply (Hle l l' h b b' N1 N2 E B' C)).
  assert (b' <= b) by (apply (Hle l' l h' b' b N2 N1 (fun x => eq_sym (E x)) B C')).
  lia.
Qed.

Lemma vget_le_vsum h l : NoDup (keys l) -> vget h l <= vsum l.
Proof. intros H. pose proof (vsum_adel h l H). lia. Qed.

Lemma vget_two_le_vsum h h' l : NoDup (keys l) -> h <> h' -> vget h l + vget h' l <= vsum l.
Proof.
  intros Hn Hne. pose proof (vsum_adel h l Hn) as E.
  assert (vget h' (adel h l) = vget h' l) by (unfold vget; rewrite aget_adel_other by congruence; reflexivity).
  pose proof (vget_le_vsum h' (adel h l) (nodup_adel h l Hn)). lia.
Qed.

(* pool.go:418-448 as a function of the tally *)
Definition resolution_code (total commits : N) (timeout : bool) (sc : sched_commitment) (l : list (N * N)) : N :=
  let required := total / 2 + 1 in
  let remaining := total - commits in
  let '(h, best) := vbest l 0 0 in
  if best + remaining <? required then 13
  else if (best <? required) && timeout then 13
  else if best <? required then 11
  else match sc_commit sc with
       | None => 16
       | Some ec => if negb (h =? ec_vote ec) then 15 else 10
       end.

(* equivalent tallies (in particular: the same map iterated in another order) give the same
   outcome of discrepancy resolution *)
Lemma resolution_code_teq total commits timeout sc l l' :
  teq l l' -> vsum l <= total ->
  resolution_code total commits timeout sc l = resolution_code total commits timeout sc l'.
Proof.
  intros T Hs. unfold resolution_code.
  destruct (vbest l 0 0) as [h b] eqn:V. destruct (vbest l' 0 0) as [h' b'] eqn:V'.
  pose proof (teq_best _ _ _ _ _ _ T V V') as Eb. subst b'.
  destruct (b + (total - commits) <? total / 2 + 1); [reflexivity|].
  destruct (b <? total / 2 + 1) eqn:Er; cbn [andb]; [reflexivity|].
  destruct (sc_commit sc) as [ec|]; [|reflexivity].
  assert (h = h'); [|subst h'; reflexivity].
  destruct T as (N1 & N2 & P1 & P2 & E).
  apply vbest_max in V as (_ & _ & C). apply vbest_max in V' as (_ & _ & C').
  assert (Hb : total / 2 + 1 <= b) by lia.
  destruct C as [[_ ->]|C]; [lia|]. destruct C' as [[_ Hz]|C']; [lia|].
  destruct (N.eq_dec h h') as [Eq|Ne]; [exact Eq|exfalso].
  pose proof (in_aget h b l N1 C) as G. pose proof (in_aget h' b l' N2 C') as G'.
  assert (vget h l = b) by (unfold vget; rewrite G; reflexivity).
  assert (vget h' l = b) by (rewrite E; unfold vget; rewrite G'; reflexivity).
  pose proof (vget_two_le_vsum h h' l N1 Ne).
  pose proof (N.div_mod total 2 ltac:(lia)). pose proof (N.mod_lt total 2 ltac:(lia)). lia.
Qed.

Lemma teq_perm l l' : Permutation l l' -> NoDup (keys l) -> vpos l -> teq l l'.
Proof.
  intros H Hn Hp.
  assert (Hk : Permutation (keys l) (keys l')) by (apply Permutation_map; exact H).
  assert (Hn' : NoDup (keys l')) by (eapply Permutation_NoDup; eassumption).
  repeat split; try assumption.
  - intros k v Hin. apply (Hp k v). eapply Permutation_in; [apply Permutation_sym; exact H|exact Hin].
  - intros h. unfold vget. destruct (aget h l) as [v|] eqn:G.
    + assert (In (h, v) l).
      { clear - G. induction l as [|[a w] r IH]; cbn [aget] in G; [discriminate|].
        destruct (a =? h) eqn:Ea; [apply N.eqb_eq in Ea; injection G as ->; left; congruence|right; apply IH; exact G]. }
      rewrite (in_aget h v l' Hn' (Permutation_in _ H H0)). reflexivity.
    + destruct (aget h l') as [v|] eqn:G'; [|reflexivity]. exfalso.
      apply aget_none_keys in G. apply G. eapply Permutation_in; [apply Permutation_sym; exact Hk|].
      eapply aget_in_keys. exact G'.
Qed.

(* Go iterates the vote map in an unspecified order (pool.go:427): irrelevant *)
Lemma resolution_map_order_irrelevant total commits timeout sc l l' :
  Permutation l l' -> NoDup (keys l) -> vpos l -> vsum l <= total ->
  resolution_code total commits timeout sc l = resolution_code total commits timeout sc l'.
Proof. intros H Hn Hp Hs. apply resolution_code_teq; [apply teq_perm; assumption|exact Hs]. Qed.

(* ---------- process is invariant under permutations of the member list ---------- *)

Lemma process_inner_resolution c p strag timeout sc t :
  aget (hr p) (scs p) = Some sc -> disc p = true ->
  gather true (hr p) strag timeout (sc_votes sc) c tally0 = Some t ->
  outcome_code (process_inner c p strag timeout) = resolution_code (t_total t) (t_commits t) timeout sc (t_votes t)
  /\ (forall sc', process_inner c p strag timeout = POk sc' -> sc' = sc).
Proof.
  intros Ha Hd G. unfold process_inner, resolution_code. rewrite Ha, Hd, G. cbn [negb].
  destruct (vbest (t_votes t) 0 0) as [h best].
  destruct (_ <? _); [split; [reflexivity|discriminate]|].
  destruct (_ && _); [split; [reflexivity|discriminate]|].
  destruct (best <? _); [split; [reflexivity|discriminate]|].
  destruct (sc_commit sc); [|split; [reflexivity|discriminate]].
  destruct (negb _); split; try reflexivity; try discriminate. intros sc' H. congruence.
Qed.

Lemma nonfail_le votes nodes : N.of_nat (length (nonfail votes nodes)) <= N.of_nat (length nodes).
Proof. rewrite nonfail_length. apply count_le_length. Qed.

Theorem process_member_order_irrelevant c c' p strag timeout :
  Permutation c c' ->
  outcome_code (process_inner c p strag timeout) = outcome_code (process_inner c' p strag timeout) /\
  chosen (process_inner c p strag timeout) = chosen (process_inner c' p strag timeout).
Proof.
  intros HP.
  destruct (aget (hr p) (scs p)) as [sc|] eqn:Ha.
  2:{ unfold process_inner. rewrite Ha. split; reflexivity. }
  set (votes := sc_votes sc).
  pose proof (gather_all_spec (disc p) votes c tally0) as S.
  pose proof (gather_all_spec (disc p) votes c' tally0) as S'.
  cbn zeta in S, S'. cbn [tally0 t_total t_failures t_commits t_votes] in S, S'.
  destruct S as (St & Sf & Sc & Sv). destruct S' as (St' & Sf' & Sc' & Sv').
  pose proof (perm_sel (disc p) c c' HP) as Psel.
  assert (Et : t_total (gather_all (disc p) votes c tally0) = t_total (gather_all (disc p) votes c' tally0)).
  { rewrite St, St'. f_equal. f_equal. apply Permutation_length. exact Psel. }
  assert (Ef : t_failures (gather_all (disc p) votes c tally0) = t_failures (gather_all (disc p) votes c' tally0)).
  { rewrite Sf, Sf'. f_equal. apply perm_count. exact Psel. }
  assert (Ec : t_commits (gather_all (disc p) votes c tally0) = t_commits (gather_all (disc p) votes c' tally0)).
  { rewrite Sc, Sc'. f_equal. apply perm_count. exact Psel. }
  assert (T : teq (t_votes (gather_all (disc p) votes c tally0)) (t_votes (gather_all (disc p) votes c' tally0))).
  { rewrite Sv, Sv'. apply teq_tallyv. apply perm_nonfail. exact Psel. }
  assert (El : vlen (t_votes (gather_all (disc p) votes c tally0)) = vlen (t_votes (gather_all (disc p) votes c' tally0)))
    by (apply teq_vlen; exact T).
  assert (Es : vsum (t_votes (gather_all (disc p) votes c tally0)) = vsum (t_votes (gather_all (disc p) votes c' tally0))).
  { rewrite Sv, Sv', !tallyv_vsum by constructor. f_equal. f_equal. apply Permutation_length.
    apply perm_nonfail. exact Psel. }
  destruct (disc p) eqn:D.
  - (* discrepancy resolution *)
    destruct (gather_resolution_total (hr p) strag timeout votes c tally0) as [t G].
    destruct (gather_resolution_total (hr p) strag timeout votes c' tally0) as [t' G'].
    pose proof (gather_some_all _ _ _ _ _ _ _ _ G) as Ht. pose proof (gather_some_all _ _ _ _ _ _ _ _ G') as Ht'.
    destruct (process_inner_resolution c p strag timeout sc t Ha D G) as [R Rs].
    destruct (process_inner_resolution c' p strag timeout sc t' Ha D G') as [R' Rs'].
    assert (Hcode : outcome_code (process_inner c p strag timeout) = outcome_code (process_inner c' p strag timeout)).
    { rewrite R, R'. subst t t'. rewrite <- Et, <- Ec. apply resolution_code_teq; [exact T|].
      rewrite Sv, tallyv_vsum by constructor. cbn [vsum]. rewrite St.
      pose proof (nonfail_le votes (sel true c)). lia. }
    split; [exact Hcode|].
    destruct (process_inner c p strag timeout) eqn:O; destruct (process_inner c' p strag timeout) eqn:O';
      cbn [outcome_code] in Hcode; try discriminate Hcode; try reflexivity.
    rewrite (Rs sc0 eq_refl), (Rs' sc1 eq_refl). reflexivity.
  - (* discrepancy detection *)
    pose proof (early_detection_equals_final (hr p) strag timeout votes c) as [Hn Hs].
    pose proof (early_detection_equals_final (hr p) strag timeout votes c') as [Hn' Hs'].
    assert (Eb : bad strag (gather_all false votes c tally0) = bad strag (gather_all false votes c' tally0)).
    { unfold bad. rewrite El, Ef. reflexivity. }
    unfold process_inner. rewrite Ha, D. fold votes.
    destruct (gather false (hr p) strag timeout votes c tally0) as [t|] eqn:G;
      destruct (gather false (hr p) strag timeout votes c' tally0) as [t'|] eqn:G'.
    + rewrite (Hs t eq_refl), (Hs' t' eq_refl). cbn [negb]. rewrite El, Ef, Et, Es.
      destruct (_ || _); [split; reflexivity|]. destruct (0 <? _)%Z; [destruct timeout|]; split; reflexivity.
    + exfalso. destruct (proj1 Hn' eq_refl) as [He Hb]. rewrite <- Eb in Hb.
      assert (Hx : Some t = None) by (apply Hn; split; assumption). discriminate Hx.
    + exfalso. destruct (proj1 Hn eq_refl) as [He Hb]. rewrite Eb in Hb.
      assert (Hx : Some t' = None) by (apply Hn'; split; assumption). discriminate Hx.
    + split; reflexivity.
Qed.

(* the same for ProcessCommitments itself: the resulting pool does not depend on the member
   order either (it is determined by the outcome class) *)
Theorem process_member_order_irrelevant_full c c' p strag timeout :
  Permutation c c' ->
  fst (process c p strag timeout) = fst (process c' p strag timeout) /\
  outcome_code (snd (process c p strag timeout)) = outcome_code (snd (process c' p strag timeout)) /\
  chosen (snd (process c p strag timeout)) = chosen (snd (process c' p strag timeout)).
Proof.
  intros HP. destruct (process_member_order_irrelevant c c' p strag timeout HP) as [Hc Hch].
  unfold process.
  destruct (process_inner c p strag timeout) eqn:O; destruct (process_inner c' p strag timeout) eqn:O';
    cbn [outcome_code] in Hc; try discriminate Hc; cbn [fst snd outcome_code]; repeat split; try reflexivity; exact Hch.
Qed.
