(* Equivocation evidence: valid evidence proves a double vote; a node that follows the
   protocol cannot be accused. *)
From Verif Require Import Lib.Base Roothash.Pool Roothash.Verify Roothash.App Roothash.Evidence.

(* valid executor evidence: one node signed two commitments for the same round and scheduler
   whose content differs *)
Lemma valid_evidence_means_double_vote a b :
  exec_evidence_check a b = EvOk ->
  vc_node (e_vc a) = vc_node (e_vc b) /\ vc_sched (e_vc a) = vc_sched (e_vc b) /\
  vc_round (e_vc a) = vc_round (e_vc b) /\
  vc_sig_ok (e_vc a) = true /\ vc_sig_ok (e_vc b) = true /\
  validate_basic (e_vc a) = true /\ validate_basic (e_vc b) = true /\
  (vc_fcode (e_vc a) <> vc_fcode (e_vc b) \/ vc_vote (e_vc a) <> vc_vote (e_vc b)) /\
  (* the difference is in a result field, not only in the header hash *)
  ((vc_fcode (e_vc a) = 0 /\ vc_fcode (e_vc b) = 0 /\
    (vc_prev (e_vc a) <> vc_prev (e_vc b) \/ e_io a <> e_io b \/ e_state a <> e_state b \/ e_mh a <> e_mh b))
   \/ vc_fcode (e_vc a) <> vc_fcode (e_vc b)).
Proof.
  unfold exec_evidence_check, mostly_equal.
  destruct ((vc_fcode (e_vc a) =? vc_fcode (e_vc b)) && (vc_vote (e_vc a) =? vc_vote (e_vc b))) eqn:E0; [discriminate|].
  destruct (vc_node (e_vc a) =? vc_node (e_vc b)) eqn:E1; cbn [negb]; [|discriminate].
  destruct (vc_sched (e_vc a) =? vc_sched (e_vc b)) eqn:E2; cbn [negb]; [|discriminate].
  destruct (vc_round (e_vc a) =? vc_round (e_vc b)) eqn:E3; cbn [negb]; [|discriminate].
  destruct ((0 <? vc_nmsgs (e_vc a)) || (0 <? vc_nmsgs (e_vc b))); [discriminate|].
  destruct (validate_basic (e_vc a)) eqn:E4; cbn [negb]; [|discriminate].
  destruct (validate_basic (e_vc b)) eqn:E5; cbn [negb]; [|discriminate].
  assert (Hdiff : vc_fcode (e_vc a) <> vc_fcode (e_vc b) \/ vc_vote (e_vc a) <> vc_vote (e_vc b)).
  { apply andb_false_iff in E0 as [E0|E0]; [left|right]; lia. }
  destruct ((vc_fcode (e_vc a) =? 0) && (vc_fcode (e_vc b) =? 0)) eqn:E6.
  - destruct ((vc_prev (e_vc a) =? vc_prev (e_vc b)) && (e_io a =? e_io b) && (e_state a =? e_state b) && (e_mh a =? e_mh b)) eqn:E7;
      [discriminate|].
    destruct (vc_sig_ok (e_vc a)) eqn:E8; cbn [negb]; [|discriminate].
    destruct (vc_sig_ok (e_vc b)) eqn:E9; cbn [negb]; [|discriminate].
    intros _. apply andb_true_iff in E6 as [F1 F2].
    repeat split; try lia; try exact Hdiff;
      left; repeat split; try lia; repeat (apply andb_false_iff in E7 as [E7|E7]); lia.
  - destruct (vc_fcode (e_vc a) =? vc_fcode (e_vc b)) eqn:E7; [discriminate|].
    destruct (vc_sig_ok (e_vc a)) eqn:E8; cbn [negb]; [|discriminate].
    destruct (vc_sig_ok (e_vc b)) eqn:E9; cbn [negb]; [|discriminate].
    intros _. repeat split; try lia; try exact Hdiff; right; lia.
Qed.

Lemma valid_proposal_evidence_means_double_proposal a b :
  prop_evidence_check a b = PvOk ->
  pr_node a = pr_node b /\ pr_round a = pr_round b /\
  pr_sig_ok a = true /\ pr_sig_ok b = true /\
  (pr_prev a <> pr_prev b \/ pr_batch_hash a <> pr_batch_hash b).
Proof.
  unfold prop_evidence_check, header_equal.
  destruct ((pr_round a =? pr_round b) && (pr_prev a =? pr_prev b) && (pr_batch_hash a =? pr_batch_hash b)) eqn:E0; [discriminate|].
  destruct (pr_node a =? pr_node b) eqn:E1; cbn [negb]; [|discriminate].
  destruct (pr_round a =? pr_round b) eqn:E2; cbn [negb]; [|discriminate].
  destruct ((0 <? pr_nbatch a) || (0 <? pr_nbatch b)); [discriminate|].
  destruct (pr_has_bsig a || pr_has_bsig b); [discriminate|].
  destruct (pr_sig_ok a) eqn:E3; cbn [negb]; [|discriminate].
  destruct (pr_sig_ok b) eqn:E4; cbn [negb]; [|discriminate].
  intros _. repeat split; try lia; try reflexivity.
Qed.

(* A node following the protocol.  [signed] is the set of commitments the node ever signed;
   signatures are unforgeable (every commitment carrying a valid signature of the node is in
   the set) and the node signs at most one content per round and scheduler. *)
Section Honest.
  Variable n : N.
  Variable signed : vcommit -> Prop.
  Hypothesis unforgeable : forall vc, vc_node vc = n -> vc_sig_ok vc = true -> signed vc.
  Hypothesis one_vote : forall x y, signed x -> signed y ->
    vc_round x = vc_round y -> vc_sched x = vc_sched y ->
    vc_fcode x = vc_fcode y /\ vc_vote x = vc_vote y.

  Lemma honest_node_never_accused a b :
    vc_node (e_vc a) = n -> exec_evidence_check a b <> EvOk.
  Proof.
    intros Hn H. apply valid_evidence_means_double_vote in H
      as (H1 & H2 & H3 & H4 & H5 & _ & _ & Hd & _).
    assert (Sa : signed (e_vc a)) by (apply unforgeable; assumption).
    assert (Sb : signed (e_vc b)) by (apply unforgeable; [congruence|assumption]).
    destruct (one_vote _ _ Sa Sb H3 H2) as [F V]. destruct Hd; contradiction.
  Qed.
End Honest.

Section HonestProposer.
  Variable n : N.
  Variable proposed : proposal -> Prop.
  Hypothesis unforgeable : forall p, pr_node p = n -> pr_sig_ok p = true -> proposed p.
  Hypothesis one_proposal : forall x y, proposed x -> proposed y -> pr_round x = pr_round y ->
    pr_prev x = pr_prev y /\ pr_batch_hash x = pr_batch_hash y.

  Lemma honest_proposer_never_accused a b :
    pr_node a = n -> prop_evidence_check a b <> PvOk.
  Proof.
    intros Hn H. apply valid_proposal_evidence_means_double_proposal in H as (H1 & H2 & H3 & H4 & Hd).
    assert (Sa : proposed a) by (apply unforgeable; assumption).
    assert (Sb : proposed b) by (apply unforgeable; [congruence|assumption]).
    destruct (one_proposal _ _ Sa Sb H2) as [F V]. destruct Hd; contradiction.
  Qed.
End HonestProposer.

(* the pool's one-vote rule is the protocol: commitments of one node accepted by the pool for
   one round and scheduler never form valid evidence against it -- accepted means AOk twice,
   which [one_vote_per_member] excludes; stated here on the evidence side: two commitments with
   the same (failure, vote) are never valid evidence *)
Lemma same_content_is_no_evidence a b :
  vc_fcode (e_vc a) = vc_fcode (e_vc b) -> vc_vote (e_vc a) = vc_vote (e_vc b) ->
  exec_evidence_check a b = EvEqual.
Proof.
  intros F V. unfold exec_evidence_check, mostly_equal. rewrite F, V, !N.eqb_refl. reflexivity.
Qed.

(* submitEvidence: recorded exactly when accepted; a rejected submission leaves nothing behind *)
Lemma submit_evidence_spec st store slashes max_age e id registered :
  let r := submit_evidence st store slashes max_age e id registered in
  (snd r = 0 ->
     evidence_valid e = true /\ ~ In id store /\ fst r = id :: store /\ registered = true /\
     slashes = true /\ rs_suspended st = false) /\
  (snd r <> 0 -> fst r = store).
Proof.
  unfold submit_evidence.
  destruct (evidence_valid e); cbn [negb]; [|split; [discriminate|reflexivity]].
  destruct (rs_suspended st); [split; [discriminate|reflexivity]|].
  destruct (rs_committee st); [|split; [discriminate|reflexivity]].
  destruct (rs_pool st); [|split; [discriminate|reflexivity]].
  destruct slashes; cbn [negb]; [|split; [discriminate|reflexivity]].
  destruct (_ <? rs_round st); [split; [discriminate|reflexivity]|].
  destruct (existsb (N.eqb id) store) eqn:Ex; [split; [discriminate|reflexivity]|].
  destruct registered; cbn [negb]; [|split; [discriminate|reflexivity]].
  split; [|intros H; contradiction]. intros _. repeat split; try reflexivity.
  intros Hin. assert (existsb (N.eqb id) store = true); [|congruence].
  apply existsb_exists. exists id. split; [exact Hin|apply N.eqb_refl].
Qed.

Lemma duplicate_evidence_rejected st store slashes max_age e id registered :
  In id store -> snd (submit_evidence st store slashes max_age e id registered) <> 0.
Proof.
  intros Hin H. apply (proj1 (submit_evidence_spec st store slashes max_age e id registered)) in H
    as (_ & Hn & _). contradiction.
Qed.
