(* Executable model of VerifyExecutorCommitment (go/roothash/api/commitment/pool.go:84-221)
   with the header checks it relies on: ExecutorCommitment.ValidateBasic
   (executor.go:195-246) and ComputeResultsHeader.IsParentOf (executor.go:60-67),
   followed by AddVerifiedExecutorCommitment exactly as the roothash application
   does (consensus/cometbft/apps/roothash/transactions.go:95-105).
   Definitions only.  Signature, RAK attestation, message hashing and the custom
   message validator are abstract results carried by the input. *)
From Verif Require Import Lib.Base Roothash.Pool.

Inductive verify_res :=
| VOk
| VSigInvalid              (* pool.go:94  commit.Verify, wrapped p2p permanent error *)
| VBadExecutorCommitment   (* pool.go:103, :125 *)
| VNotBasedOnCorrectBlock  (* pool.go:113 *)
| VNotInCommittee          (* pool.go:137, :159 (TEE runtimes only) *)
| VNoRuntime               (* pool.go:148 *)
| VRakSigInvalid           (* pool.go:168, :172 *)
| VInvalidMessages         (* pool.go:186, :194, :215 *)
| VValidatorError.         (* pool.go:205 *)

(* a signed executor commitment as submitted, projected *)
Record vcommit := mkVC {
  vc_node : N; vc_sched : N; vc_round : N;
  vc_prev : N;                 (* header.PreviousHash, interned *)
  vc_fcode : N;                (* header.Failure: 0 none, 1 unknown, 2 state unavailable, else invalid *)
  vc_vote : N;                 (* ToVote(), interned *)
  vc_has_io : bool; vc_has_state : bool; vc_has_msgs_hash : bool; vc_has_inmsgs_hash : bool;
  vc_inmsgs_count : N;
  vc_has_rak : bool;           (* header.RAKSignature present *)
  vc_nmsgs : N;                (* len(commit.Messages) *)
  (* abstract results *)
  vc_sig_ok : bool;            (* commit.Verify(rt.ID) *)
  vc_msgs_basic_ok : bool;     (* every msg.ValidateBasic() *)
  vc_msgs_hash_ok : bool;      (* MessagesHash(commit.Messages) == header.MessagesHash *)
  vc_tee : option verify_res;  (* None: non-TEE runtime; Some r: outcome of pool.go:129-173 *)
  vc_validator_ok : bool }.    (* msgValidator(commit.Messages) *)

(* executor.go:258 IsIndicatingFailure *)
Definition vc_fail (vc : vcommit) : bool := negb (vc_fcode vc =? 0).
Definition vc_ec (vc : vcommit) : commitment :=
  mkEC (vc_node vc) (vc_sched vc) (vc_round vc) (vc_fail vc) (vc_vote vc).

(* executor.go:195 ValidateBasic *)
Definition validate_basic (vc : vcommit) : bool :=
  if vc_fcode vc =? 0 then
    vc_has_io vc && vc_has_state vc && vc_has_msgs_hash vc && vc_has_inmsgs_hash vc
    && vc_msgs_basic_ok vc
  else if (vc_fcode vc =? 1) || (vc_fcode vc =? 2) then
    negb (vc_has_io vc) && negb (vc_has_state vc) && negb (vc_has_msgs_hash vc)
    && negb (vc_has_inmsgs_hash vc) && (vc_inmsgs_count vc =? 0)
    && negb (vc_has_rak vc) && (vc_nmsgs vc =? 0)
  else false.

(* executor.go:60 IsParentOf: h.Round == child.Round+1 (uint64) and previous hash *)
Definition is_parent_of (vc : vcommit) (blk_round blk_hash : N) : bool :=
  (vc_round vc =? (blk_round + 1) mod W64) && (vc_prev vc =? blk_hash).

(* pool.go:84 VerifyExecutorCommitment *)
Definition verify (blk_round blk_hash max_msgs : N) (vc : vcommit) : verify_res :=
  if negb (vc_sig_ok vc) then VSigInvalid                                   (* :94 *)
  else if negb (validate_basic vc) then VBadExecutorCommitment              (* :99 *)
  else if negb (is_parent_of vc blk_round blk_hash) then VNotBasedOnCorrectBlock  (* :107 *)
  else if vc_fail vc then                                                   (* :118 *)
    (if vc_node vc =? vc_sched vc then VBadExecutorCommitment else VOk)     (* :121 *)
  else
    match vc_tee vc with                                                    (* :129 *)
    | Some VOk | None =>
        if vc_node vc =? vc_sched vc then                                   (* :177 *)
          if max_msgs <? vc_nmsgs vc then VInvalidMessages                  (* :180 *)
          else if negb (vc_msgs_hash_ok vc) then VInvalidMessages           (* :188 *)
          else if (0 <? vc_nmsgs vc) && negb (vc_validator_ok vc) then VValidatorError  (* :198 *)
          else VOk
        else if 0 <? vc_nmsgs vc then VInvalidMessages                      (* :210 *)
        else VOk
    | Some e => e
    end.

(* ---------- verify-then-add histories (transactions.go:95-105) ---------- *)
Inductive vop :=
| VAdd (vc : vcommit)
| VProc (strag : N) (timeout : bool)
| VProbe (strag : N) (timeout : bool).

Record blockinfo := mkBlk { blk_round : N; blk_hash : N; blk_max_msgs : N }.

Definition lower1 (b : blockinfo) (o : vop) : list op :=
  match o with
  | VAdd vc => match verify (blk_round b) (blk_hash b) (blk_max_msgs b) vc with
               | VOk => [OAdd (vc_ec vc)] | _ => [] end
  | VProc s t => [OProc s t]
  | VProbe s t => [OProbe s t]
  end.
Definition lower (b : blockinfo) (ops : list vop) : list op := flat_map (lower1 b) ops.
Definition vrun (b : blockinfo) (c : committee) (ops : list vop) (p : pool) : pool :=
  run c (lower b ops) p.

Definition verify_code (r : verify_res) : N :=
  match r with
  | VOk => 0 | VSigInvalid => 21 | VBadExecutorCommitment => 22 | VNotBasedOnCorrectBlock => 23
  | VNotInCommittee => 24 | VNoRuntime => 25 | VRakSigInvalid => 26 | VInvalidMessages => 27
  | VValidatorError => 28
  end.

Fixpoint vrun_obs (b : blockinfo) (c : committee) (ops : list vop) (p : pool) : list obs * pool :=
  match ops with
  | [] => ([], p)
  | VAdd vc :: r =>
      match verify (blk_round b) (blk_hash b) (blk_max_msgs b) vc with
      | VOk =>
          let '(p1, e) := add c p (vc_ec vc) in
          let '(l, pf) := vrun_obs b c r p1 in
          ((add_class e, noCh, hr p1, disc p1) :: l, pf)
      | e =>
          let '(l, pf) := vrun_obs b c r p in
          ((verify_code e, noCh, hr p, disc p) :: l, pf)
      end
  | VProc s t :: r =>
      let '(p1, o) := process c p s t in
      let '(l, pf) := vrun_obs b c r p1 in
      ((outcome_code o, chosen o, hr p1, disc p1) :: l, pf)
  | VProbe s t :: r =>
      let '(p1, o) := process c p s t in
      let '(l, pf) := vrun_obs b c r p in
      ((outcome_code o, chosen o, hr p1, disc p1) :: l, pf)
  end.

Definition run_vcase (x : blockinfo * committee * list vop) : list obs * list snap_entry :=
  match x with
  | (b, c, ops) => let '(l, pf) := vrun_obs b c ops new_pool in (l, snapshot pf)
  end.
