(* Declarative statement of the finalization rule of property C11, written from
   the property text (not from the code): predicates over the SET of votes
   recorded for the chosen scheduler.  No accumulators, no early exits. *)
From Verif Require Import Lib.Base Roothash.Pool.

(* nodes holding a role, with the multiplicity of the member list *)
Definition primary_nodes (c : committee) : list N :=
  map snd (filter (fun m => is_rworker (fst m)) c).
Definition backup_nodes (c : committee) : list N :=
  map snd (filter (fun m => is_rbackup (fst m)) c).

Definition vote_of (sc : sched_commitment) (n : N) : option (option N) := aget n (sc_votes sc).

Definition voted_for (sc : sched_commitment) (h : N) (n : N) : bool :=
  match vote_of sc n with Some (Some v) => v =? h | _ => false end.
Definition voted_failure (sc : sched_commitment) (n : N) : bool :=
  match vote_of sc n with Some None => true | _ => false end.

Definition count (f : N -> bool) (l : list N) : N := N.of_nat (length (filter f l)).

(* "all primary executor votes received for the chosen scheduler's proposal agree
   with it, with no dissenting result, at most the allowed number of failures, and
   at least (primary size minus allowed stragglers) of them present" *)
Definition unanimity (c : committee) (strag : N) (sc : sched_commitment) : Prop :=
  exists ec,
    sc_commit sc = Some ec /\
    (* the proposal is the scheduler's own, non-failure commitment *)
    ec_node ec = ec_sched ec /\ ec_fail ec = false /\
    (* no dissenting result among the primary workers *)
    (forall n v, In n (primary_nodes c) -> vote_of sc n = Some (Some v) -> v = ec_vote ec) /\
    (* at most the allowed number of failures *)
    count (voted_failure sc) (primary_nodes c) <= strag /\
    (* at least |primary| - stragglers agreeing votes present *)
    N.of_nat (length (primary_nodes c)) <= count (voted_for sc (ec_vote ec)) (primary_nodes c) + strag.

(* "after a discrepancy, a strict majority of the backup workers voted for exactly that result" *)
Definition backup_majority (c : committee) (sc : sched_commitment) : Prop :=
  exists ec,
    sc_commit sc = Some ec /\
    N.of_nat (length (backup_nodes c)) < 2 * count (voted_for sc (ec_vote ec)) (backup_nodes c).

Definition rule (c : committee) (strag : N) (d : bool) (sc : sched_commitment) : Prop :=
  (d = false /\ unanimity c strag sc) \/ (d = true /\ backup_majority c sc).
