(* Proofs about the commitment pool model (property C11). *)
From Verif Require Import Lib.Base Roothash.Pool Roothash.PoolSpec.

(* ---------- vote tallies (association list hash -> count) ---------- *)

Definition keys {V} (l : list (N * V)) : list N := map fst l.

Lemma in_keys_adel {V} k k' (l : list (N * V)) : In k (keys (adel k' l)) -> In k (keys l) /\ k <> k'.
Proof.
  induction l as [|[a v] r IH]; cbn [adel keys map fst]; [intros []|].
  destruct (a =? k') eqn:E.
  - intros H. apply IH in H as [H1 H2]. split; [right; exact H1|exact H2].
  - cbn [keys map fst In]. intros [H|H].
    + subst a. split; [left; reflexivity|]. intros ->. rewrite N.eqb_refl in E. discriminate.
    + apply IH in H as [H1 H2]. split; [right; exact H1|exact H2].
Qed.

Lemma keys_adel_in {V} k k' (l : list (N * V)) : In k (keys l) -> k <> k' -> In k (keys (adel k' l)).
Proof.
  induction l as [|[a v] r IH]; cbn [adel keys map fst In]; [intros []|].
  intros [H|H] Hne.
  - subst a. destruct (k =? k') eqn:E; [apply N.eqb_eq in E; contradiction|]. left. reflexivity.
  - destruct (a =? k'); [apply IH; assumption|]. right. apply IH; assumption.
Qed.

Lemma nodup_adel {V} k (l : list (N * V)) : NoDup (keys l) -> NoDup (keys (adel k l)).
Proof.
  induction l as [|[a v] r IH]; cbn [adel keys map fst]; [intros; constructor|].
  intros H. inversion H as [|x xs Hni Hnd]; subst.
  destruct (a =? k); [apply IH; exact Hnd|].
  cbn [keys map fst]. constructor; [|apply IH; exact Hnd].
  intros Hin. apply in_keys_adel in Hin as [Hin _]. apply Hni. exact Hin.
Qed.

Lemma nodup_aset {V} k (v : V) l : NoDup (keys l) -> NoDup (keys (aset k v l)).
Proof.
  intros H. unfold aset. cbn [keys map fst]. constructor; [|apply nodup_adel; exact H].
  intros Hin. apply in_keys_adel in Hin as [_ Hne]. apply Hne. reflexivity.
Qed.

Lemma aget_in_keys {V} k (l : list (N * V)) v : aget k l = Some v -> In k (keys l).
Proof.
  induction l as [|[a w] r IH]; cbn [aget keys map fst In]; [discriminate|].
  destruct (a =? k) eqn:E; [apply N.eqb_eq in E; left; exact E|]. intros H. right. apply IH. exact H.
Qed.

Lemma aget_none_keys {V} k (l : list (N * V)) : aget k l = None -> ~ In k (keys l).
Proof.
  induction l as [|[a w] r IH]; cbn [aget keys map fst In]; [intros _ []|].
  destruct (a =? k) eqn:E; [discriminate|]. intros H [H1|H1].
  - subst a. rewrite N.eqb_refl in E. discriminate.
  - apply IH; assumption.
Qed.

Lemma in_aget {V} k (v : V) l : NoDup (keys l) -> In (k, v) l -> aget k l = Some v.
Proof.
  induction l as [|[a w] r IH]; cbn [aget keys map fst In]; [intros _ []|].
  intros Hnd [H|H].
  - injection H as -> ->. rewrite N.eqb_refl. reflexivity.
  - inversion Hnd as [|x xs Hni Hnd']; subst.
    destruct (a =? k) eqn:E.
    + apply N.eqb_eq in E. subst a. exfalso. apply Hni.
      change (In (fst (k, v)) (map fst r)). apply in_map. exact H.
    + apply IH; assumption.
Qed.

Definition vget (h : N) (l : list (N * N)) : N := match aget h l with Some n => n | None => 0 end.

Lemma vsum_adel h l : NoDup (keys l) -> vsum (adel h l) + vget h l = vsum l.
Proof.
  unfold vget. induction l as [|[a w] r IH]; cbn [adel vsum aget keys map fst]; [intros; lia|].
  intros Hnd. inversion Hnd as [|x xs Hni Hnd']; subst.
  destruct (a =? h) eqn:E.
  - apply N.eqb_eq in E. subst a.
    assert (Hn : aget h r = None).
    { destruct (aget h r) eqn:G; [|reflexivity]. apply aget_in_keys in G. contradiction. }
    specialize (IH Hnd'). rewrite Hn in IH. lia.
  - cbn [vsum]. specialize (IH Hnd'). lia.
Qed.

Lemma vsum_vinc h l : NoDup (keys l) -> vsum (vinc h l) = vsum l + 1.
Proof.
  intros Hnd. unfold vinc, aset. cbn [vsum].
  pose proof (vsum_adel h l Hnd) as H. unfold vget in H.
  destruct (aget h l); lia.
Qed.

Lemma vget_vinc_same h l : vget h (vinc h l) = vget h l + 1.
Proof. unfold vget at 1, vinc. rewrite aget_aset_same. unfold vget. destruct (aget h l); lia. Qed.

Lemma vget_vinc_other h h' l : h <> h' -> vget h (vinc h' l) = vget h l.
Proof. intros Hne. unfold vget, vinc. rewrite aget_aset_other by exact Hne. reflexivity. Qed.

Definition tallyv (hs : list N) (l : list (N * N)) : list (N * N) :=
  fold_left (fun l h => vinc h l) hs l.

Lemma tallyv_nodup hs : forall l, NoDup (keys l) -> NoDup (keys (tallyv hs l)).
Proof.
  induction hs as [|h hs IH]; intros l H; cbn [tallyv fold_left]; [exact H|].
  apply IH. apply nodup_aset. exact H.
Qed.

Lemma tallyv_vsum hs : forall l, NoDup (keys l) -> vsum (tallyv hs l) = vsum l + N.of_nat (length hs).
Proof.
  induction hs as [|h hs IH]; intros l H; cbn [tallyv fold_left length]; [lia|].
  change (fold_left (fun l0 h0 => vinc h0 l0) hs (vinc h l)) with (tallyv hs (vinc h l)).
  rewrite IH by (apply nodup_aset; exact H). rewrite vsum_vinc by exact H. lia.
Qed.

Lemma tallyv_keys_mono hs : forall l k, In k (keys l) -> In k (keys (tallyv hs l)).
Proof.
  induction hs as [|h hs IH]; intros l k H; cbn [tallyv fold_left]; [exact H|].
  apply IH. unfold vinc, aset. cbn [keys map fst In].
  destruct (N.eq_dec h k) as [->|Hne]; [left; reflexivity|right].
  apply keys_adel_in; [exact H|congruence].
Qed.

Lemma tallyv_keys_in hs : forall l k, In k hs -> In k (keys (tallyv hs l)).
Proof.
  induction hs as [|h hs IH]; intros l k H; cbn [tallyv fold_left]; [destruct H|].
  destruct H as [->|H]; [|apply IH; exact H].
  apply tallyv_keys_mono. unfold vinc, aset. cbn [keys map fst In]. left. reflexivity.
Qed.

Definition occ (h : N) (hs : list N) : N := N.of_nat (length (filter (fun x => x =? h) hs)).

Lemma tallyv_vget hs h : forall l, vget h (tallyv hs l) = vget h l + occ h hs.
Proof.
  unfold occ. induction hs as [|x hs IH]; intros l; cbn [tallyv fold_left filter length]; [lia|].
  change (fold_left (fun l0 h0 => vinc h0 l0) hs (vinc x l)) with (tallyv hs (vinc x l)).
  rewrite IH. destruct (x =? h) eqn:E.
  - apply N.eqb_eq in E. subst x. rewrite vget_vinc_same. cbn [length]. lia.
  - rewrite vget_vinc_other; [lia|]. intros ->. rewrite N.eqb_refl in E. discriminate.
Qed.

Lemma vbest_spec l : forall h b h' b', vbest l h b = (h', b') ->
  (h' = h /\ b' = b) \/ (In (h', b') l /\ b < b').
Proof.
  induction l as [|[k v] r IH]; intros h b h' b'; cbn [vbest].
  - intros H. injection H as <- <-. left. split; reflexivity.
  - destruct (b <? v) eqn:E; intros H; apply IH in H as [[-> ->]|[H1 H2]].
    + right. split; [left; reflexivity|lia].
    + right. split; [right; exact H1|lia].
    + left. split; reflexivity.
    + right. split; [right; exact H1|exact H2].
Qed.

(* ---------- the member loop ---------- *)

Definition sel (d : bool) (ms : committee) : list N :=
  map snd (filter (fun m => counts d (fst m)) ms).

Lemma sel_primary c : sel false c = primary_nodes c.
Proof. reflexivity. Qed.
Lemma sel_backup c : sel true c = backup_nodes c.
Proof. reflexivity. Qed.

Definition nonfail (votes : list (N * option N)) (nodes : list N) : list N :=
  flat_map (fun n => match aget n votes with Some (Some h) => [h] | _ => [] end) nodes.
Definition is_fail (votes : list (N * option N)) (n : N) : bool :=
  match aget n votes with Some None => true | _ => false end.
Definition has_vote (votes : list (N * option N)) (n : N) : bool :=
  match aget n votes with Some _ => true | None => false end.

Lemma gather_some d hr0 strag timeout votes ms : forall t t',
  gather d hr0 strag timeout votes ms t = Some t' ->
  t_total t' = t_total t + N.of_nat (length (sel d ms)) /\
  t_failures t' = t_failures t + count (is_fail votes) (sel d ms) /\
  t_commits t' = t_commits t + count (has_vote votes) (sel d ms) /\
  t_votes t' = tallyv (nonfail votes (sel d ms)) (t_votes t).
Proof.
  unfold count, sel.
  induction ms as [|[ro k] r IH]; intros t t'; cbn [gather].
  - intros H. injection H as <-. cbn. repeat split; lia.
  - cbn [filter fst]. destruct (counts d ro) eqn:Ec; cbn [negb].
    2:{ apply IH. }
    cbn [map snd length nonfail flat_map filter]. unfold is_fail at 1, has_vote at 1.
    destruct (aget k votes) as [[h|]|] eqn:Ev.
    + intros H.
      assert (H' : gather d hr0 strag timeout votes r
                     (mkT (t_total t + 1) (t_commits t + 1) (t_failures t) (vinc h (t_votes t))) = Some t').
      { destruct d; [exact H|].
        destruct ((vlen (t_votes (mkT (t_total t + 1) (t_commits t + 1) (t_failures t) (vinc h (t_votes t)))) <=? 1) &&
                  (t_failures (mkT (t_total t + 1) (t_commits t + 1) (t_failures t) (vinc h (t_votes t))) <=? strag));
          [exact H|]. destruct ((0 <? hr0) && negb timeout); [exact H|discriminate]. }
      apply IH in H'. cbn [t_total t_commits t_failures t_votes] in H'.
      destruct H' as (H1 & H2 & H3 & H4). cbn [length app]. unfold nonfail in H4.
      repeat split; try lia. rewrite H4. reflexivity.
    + intros H.
      assert (H' : gather d hr0 strag timeout votes r
                     (mkT (t_total t + 1) (t_commits t + 1) (t_failures t + 1) (t_votes t)) = Some t').
      { destruct d; [exact H|].
        destruct ((vlen (t_votes (mkT (t_total t + 1) (t_commits t + 1) (t_failures t + 1) (t_votes t))) <=? 1) &&
                  (t_failures (mkT (t_total t + 1) (t_commits t + 1) (t_failures t + 1) (t_votes t)) <=? strag));
          [exact H|]. destruct ((0 <? hr0) && negb timeout); [exact H|discriminate]. }
      apply IH in H'. cbn [t_total t_commits t_failures t_votes] in H'.
      destruct H' as (H1 & H2 & H3 & H4). cbn [length app]. unfold nonfail in H4.
      repeat split; try lia. exact H4.
    + intros H. apply IH in H. cbn [t_total t_commits t_failures t_votes] in H.
      destruct H as (H1 & H2 & H3 & H4). cbn [length app]. unfold nonfail in H4.
      repeat split; try lia. exact H4.
Qed.

Definition cond (strag : N) (t : tally) : Prop :=
  vlen (t_votes t) <= 1 /\ t_failures t <= strag.

(* with an expired timer the loop only continues while no discrepancy is visible *)
Lemma gather_timeout_cond hr0 strag votes ms : forall t t',
  gather false hr0 strag true votes ms t = Some t' -> cond strag t -> cond strag t'.
Proof.
  induction ms as [|[ro k] r IH]; intros t t'; cbn [gather].
  - intros H. injection H as <-. exact (fun x => x).
  - destruct (counts false ro); cbn [negb]; [|apply IH].
    destruct (aget k votes) as [v|].
    + set (t2 := match v with Some h => _ | None => _ end).
      destruct ((vlen (t_votes t2) <=? 1) && (t_failures t2 <=? strag)) eqn:E.
      * intros H _. apply IH in H; [exact H|].
        apply andb_true_iff in E as [E1 E2]. split; lia.
      * rewrite andb_false_r. discriminate.
    + intros H Hc. apply IH in H; [exact H|]. exact Hc.
Qed.

(* ---------- no_wait_after_timeout ---------- *)

Lemma no_wait_after_timeout_inner c p strag : process_inner c p strag true <> PStillWaiting.
Proof.
  unfold process_inner. destruct (aget (hr p) (scs p)) as [sc|]; [|discriminate].
  destruct (gather (disc p) (hr p) strag true (sc_votes sc) c tally0) as [t|] eqn:G; [|discriminate].
  destruct (disc p) eqn:D; cbn [negb].
  - destruct (vbest (t_votes t) 0 0) as [h best].
    destruct (best + (t_total t - t_commits t) <? t_total t / 2 + 1); [discriminate|].
    destruct (best <? t_total t / 2 + 1); cbn [andb]; [discriminate|].
    destruct (sc_commit sc) as [ec|]; [|discriminate].
    destruct (negb (h =? ec_vote ec)); discriminate.
  - apply gather_timeout_cond in G; [|split; cbn; lia]. destruct G as [G1 G2].
    assert (E : (1 <? vlen (t_votes t)) || (strag <? t_failures t) = false).
    { apply orb_false_iff. split; lia. }
    rewrite E.
    destruct (0 <? Z.of_N (t_total t) - Z.of_N strag - Z.of_N (vsum (t_votes t)))%Z; discriminate.
Qed.

Lemma no_wait_after_timeout c p strag : snd (process c p strag true) <> PStillWaiting.
Proof.
  unfold process. pose proof (no_wait_after_timeout_inner c p strag) as H.
  destruct (process_inner c p strag true); cbn [snd]; congruence.
Qed.

(* ---------- process: shape of the outcomes ---------- *)

Lemma process_ok_inner c p strag timeout p' sc :
  process c p strag timeout = (p', POk sc) ->
  p' = p /\ process_inner c p strag timeout = POk sc.
Proof.
  unfold process. destruct (process_inner c p strag timeout); intros H; inversion H; subst; split; reflexivity.
Qed.

Lemma process_ok_is_highest c p strag timeout p' sc :
  process c p strag timeout = (p', POk sc) -> aget (hr p) (scs p) = Some sc.
Proof.
  intros H. apply process_ok_inner in H as [_ H]. unfold process_inner in H.
  destruct (aget (hr p) (scs p)) as [sc0|]; [|destruct timeout; discriminate].
  destruct (gather _ _ _ _ _ _ _) as [t|]; [|discriminate].
  destruct (negb (disc p)).
  - destruct (_ || _); [discriminate|].
    destruct (0 <? _)%Z; [destruct timeout; discriminate|]. congruence.
  - destruct (vbest _ _ _) as [h best].
    destruct (_ <? _); [discriminate|]. destruct (_ && _); [discriminate|].
    destruct (_ <? _); [discriminate|]. destruct (sc_commit sc0); [|discriminate].
    destruct (negb _); [discriminate|congruence].
Qed.

(* the entry of the highest-ranked scheduler holds that scheduler's own, non-failure
   commitment, the scheduler is a primary worker and its vote is recorded *)
Definition hr_entry_ok (c : committee) (p : pool) : Prop :=
  forall sc, aget (hr p) (scs p) = Some sc ->
    exists ec, sc_commit sc = Some ec /\ ec_node ec = ec_sched ec /\ ec_fail ec = false /\
               In (ec_node ec) (primary_nodes c) /\
               aget (ec_node ec) (sc_votes sc) = Some (Some (ec_vote ec)).

Lemma count_le_length f l : count f l <= N.of_nat (length l).
Proof.
  unfold count. induction l as [|x l IH]; cbn [filter length]; [lia|].
  destruct (f x); cbn [length]; lia.
Qed.

Lemma count_ext f g l : (forall x, In x l -> f x = g x) -> count f l = count g l.
Proof.
  unfold count. induction l as [|x l IH]; intros H; cbn [filter]; [reflexivity|].
  rewrite (H x (or_introl eq_refl)).
  assert (IH' : N.of_nat (length (filter f l)) = N.of_nat (length (filter g l))).
  { apply IH. intros y Hy. apply H. right. exact Hy. }
  destruct (g x); cbn [length]; lia.
Qed.

Lemma nonfail_in votes nodes n h :
  In n nodes -> aget n votes = Some (Some h) -> In h (nonfail votes nodes).
Proof.
  intros Hin Hv. unfold nonfail. apply in_flat_map. exists n. split; [exact Hin|].
  rewrite Hv. left. reflexivity.
Qed.

Lemma nonfail_length votes nodes :
  N.of_nat (length (nonfail votes nodes)) =
  count (fun n => match aget n votes with Some (Some _) => true | _ => false end) nodes.
Proof.
  unfold count, nonfail. induction nodes as [|n r IH]; cbn [flat_map filter length]; [reflexivity|].
  destruct (aget n votes) as [[h|]|]; cbn [app length]; lia.
Qed.

Lemma nonfail_occ votes nodes h :
  occ h (nonfail votes nodes) =
  count (fun n => match aget n votes with Some (Some v) => v =? h | _ => false end) nodes.
Proof.
  unfold count, occ, nonfail. induction nodes as [|n r IH]; cbn [flat_map filter length]; [reflexivity|].
  destruct (aget n votes) as [[v|]|]; cbn [app filter]; try exact IH.
  destruct (v =? h); cbn [length]; lia.
Qed.

Lemma keys_len_le1 (l : list (N * N)) a b :
  vlen l <= 1 -> In a (keys l) -> In b (keys l) -> a = b.
Proof.
  unfold vlen. destruct l as [|[k v] [|y r]]; cbn [length keys map fst In].
  - intros _ [].
  - intros _ [<-|[]] [<-|[]]. reflexivity.
  - lia.
Qed.

(* ---------- finalize_only_if_rule ---------- *)

Lemma finalize_only_if_rule c p strag timeout p' sc :
  hr_entry_ok c p ->
  process c p strag timeout = (p', POk sc) ->
  rule c strag (disc p) sc.
Proof.
  intros Hinv H. pose proof (process_ok_is_highest _ _ _ _ _ _ H) as Hsc.
  apply process_ok_inner in H as [_ H]. unfold process_inner in H. rewrite Hsc in H.
  destruct (Hinv sc Hsc) as (ec & Hc & Hns & Hnf & Hprim & Hvote).
  destruct (gather (disc p) (hr p) strag timeout (sc_votes sc) c tally0) as [t|] eqn:G; [|discriminate].
  apply gather_some in G. cbn [tally0 t_total t_failures t_commits t_votes] in G.
  destruct G as (Gt & Gf & Gc & Gv).
  unfold rule. destruct (disc p) eqn:D; cbn [negb] in H.
  - right. split; [reflexivity|]. rewrite sel_backup in *.
    destruct (vbest (t_votes t) 0 0) as [h best] eqn:Eb.
    destruct (best + (t_total t - t_commits t) <? t_total t / 2 + 1) eqn:E1; [discriminate|].
    destruct ((best <? t_total t / 2 + 1) && timeout) eqn:E2; [discriminate|].
    destruct (best <? t_total t / 2 + 1) eqn:E3; [discriminate|].
    rewrite Hc in H. destruct (h =? ec_vote ec) eqn:E4; cbn [negb] in H; [|discriminate].
    apply N.eqb_eq in E4. subst h.
    exists ec. split; [exact Hc|].
    apply vbest_spec in Eb as [[_ ->]|[Hin Hpos]].
    { exfalso. apply N.ltb_ge in E3. lia. }
    assert (Hnd : NoDup (keys (t_votes t))).
    { rewrite Gv. apply tallyv_nodup. constructor. }
    apply in_aget in Hin; [|exact Hnd].
    assert (Hg : vget (ec_vote ec) (t_votes t) = best) by (unfold vget; rewrite Hin; reflexivity).
    rewrite Gv, tallyv_vget, nonfail_occ in Hg. unfold vget in Hg. cbn [aget] in Hg.
    apply N.ltb_ge in E3.
    assert (Heq : count (voted_for sc (ec_vote ec)) (backup_nodes c) = best).
    { rewrite <- Hg. cbn. apply count_ext. intros x _. reflexivity. }
    rewrite Heq. rewrite Gt in E3.
    pose proof (N.mod_lt (N.of_nat (length (backup_nodes c))) 2 ltac:(lia)) as Hm.
    pose proof (N.div_mod (N.of_nat (length (backup_nodes c))) 2 ltac:(lia)) as Hd.
    lia.
  - left. split; [reflexivity|]. rewrite sel_primary in *.
    destruct ((1 <? vlen (t_votes t)) || (strag <? t_failures t)) eqn:E1; [discriminate|].
    apply orb_false_iff in E1 as [E1 E1'].
    destruct (0 <? Z.of_N (t_total t) - Z.of_N strag - Z.of_N (vsum (t_votes t)))%Z eqn:E2;
      [destruct timeout; discriminate|].
    exists ec. split; [exact Hc|]. split; [exact Hns|]. split; [exact Hnf|].
    assert (Hnd : NoDup (keys (t_votes t))).
    { rewrite Gv. apply tallyv_nodup. constructor. }
    assert (Hown : In (ec_vote ec) (keys (t_votes t))).
    { rewrite Gv. apply tallyv_keys_in. eapply nonfail_in; [exact Hprim|exact Hvote]. }
    assert (Hnodissent : forall n v, In n (primary_nodes c) -> vote_of sc n = Some (Some v) -> v = ec_vote ec).
    { intros n v Hn Hv. apply (keys_len_le1 (t_votes t)); [lia| |exact Hown].
      rewrite Gv. apply tallyv_keys_in. eapply nonfail_in; [exact Hn|exact Hv]. }
    split; [exact Hnodissent|]. split.
    + assert (Hf : count (voted_failure sc) (primary_nodes c) = t_failures t).
      { rewrite Gf. cbn. apply count_ext. intros x _. reflexivity. }
      rewrite Hf. lia.
    + assert (Hs : vsum (t_votes t) = count (voted_for sc (ec_vote ec)) (primary_nodes c)).
      { rewrite Gv, tallyv_vsum by constructor. cbn [vsum]. rewrite nonfail_length.
        rewrite N.add_0_l. apply count_ext. intros x Hx. unfold voted_for.
        destruct (vote_of sc x) as [[v|]|] eqn:Ev; unfold vote_of in Ev; rewrite Ev; try reflexivity.
        rewrite (Hnodissent x v Hx Ev). symmetry. apply N.eqb_refl. }
      rewrite <- Hs. rewrite Gt in E2. lia.
Qed.

(* ====================================================================== *)
(* ---------- committee helpers ---------- *)

Lemma scan_backup_in l id : scan_backup l id = true -> In id (map snd l).
Proof.
  induction l as [|[ro k] r IH]; cbn [scan_backup map snd In]; [discriminate|].
  destruct (is_rbackup ro); [|discriminate].
  destruct (k =? id) eqn:E; [apply N.eqb_eq in E; left; exact E|]. intros H. right. apply IH. exact H.
Qed.

Lemma is_member_in c id : is_member c id = true <-> In id (map snd c).
Proof.
  induction c as [|[ro k] r IH]; cbn [is_member map snd In]; [split; [discriminate|intros []]|].
  destruct (k =? id) eqn:E.
  - apply N.eqb_eq in E. split; [left; exact E|reflexivity].
  - rewrite IH. split; [right; assumption|]. intros [H|H]; [|exact H]. subst. rewrite N.eqb_refl in E. discriminate.
Qed.

Lemma backup_is_member c id : is_backup_worker c id = true -> is_member c id = true.
Proof.
  unfold is_backup_worker. intros H. apply scan_backup_in in H. apply is_member_in.
  rewrite map_rev in H. apply in_rev in H. exact H.
Qed.

Lemma rank_scan_spec l id : forall total idx isw total' idx' isw',
  rank_scan l id total idx isw = (total', idx', isw') ->
  total <= total' /\ total' <= total + N.of_nat (length l) /\
  (isw' = true -> isw = true \/ (In id (primary_nodes l) /\ total < total')).
Proof.
  induction l as [|[ro k] r IH]; intros total idx isw total' idx' isw'; cbn [rank_scan].
  - intros H. injection H as <- <- <-. cbn [length]. repeat split; try lia; intros ->; left; reflexivity.
  - unfold primary_nodes. cbn [filter fst length]. destruct (is_rworker ro).
    + destruct (k =? id) eqn:E; intros H; apply IH in H as (H1 & H2 & H3).
      * repeat split; try lia. intros _. right. split; [|lia]. cbn [map snd In]. left. apply N.eqb_eq. exact E.
      * repeat split; try lia. intros Hi. destruct (H3 Hi) as [Hl|[Hr Hlt]]; [left; exact Hl|].
        right. split; [|lia]. cbn [map snd In]. right. exact Hr.
    + intros H. injection H as <- <- <-. repeat split; try lia; intros ->; left; reflexivity.
Qed.

Lemma scheduler_rank_some c round id r :
  scheduler_rank c round id = Some r ->
  In id (primary_nodes c) /\ r < N.of_nat (length c).
Proof.
  unfold scheduler_rank. destruct (rank_scan c id 0 0 false) as [[total idx] isw] eqn:E.
  apply rank_scan_spec in E as (H1 & H2 & H3).
  destruct isw; [|discriminate]. intros H. injection H as <-.
  destruct (H3 eq_refl) as [Hf|[Hin Hpos]]; [discriminate|]. split; [exact Hin|].
  pose proof (N.mod_lt ((round + idx) mod W64) total ltac:(lia)). lia.
Qed.

(* ====================================================================== *)
(* ---------- adding commitments ---------- *)

Lemma aget_filter_key {V} (f : N -> bool) k (l : list (N * V)) :
  aget k (filter (fun e => f (fst e)) l) = if f k then aget k l else None.
Proof.
  induction l as [|[a v] r IH]; cbn [filter aget fst]; [destruct (f k); reflexivity|].
  destruct (f a) eqn:Ea; cbn [aget].
  - destruct (a =? k) eqn:E; [apply N.eqb_eq in E; subst; rewrite Ea; reflexivity|exact IH].
  - destruct (a =? k) eqn:E; [apply N.eqb_eq in E; subst; rewrite Ea in *; exact IH|exact IH].
Qed.
Lemma aget_filter_le {V} rank k (l : list (N * V)) :
  aget k (filter (fun e => fst e <=? rank) l) = if k <=? rank then aget k l else None.
Proof. exact (aget_filter_key (fun x => x <=? rank) k l). Qed.
Lemma aget_filter_eq {V} h k (l : list (N * V)) :
  aget k (filter (fun e => fst e =? h) l) = if k =? h then aget k l else None.
Proof. exact (aget_filter_key (fun x => x =? h) k l). Qed.

(* non-members never count: their commitments are rejected, the pool is unchanged *)
Lemma add_non_member c p ec :
  is_member c (ec_node ec) = false ->
  exists e, add c p ec = (p, e) /\ (e = ANotInCommittee \/ e = ANotBackup).
Proof.
  intros Hm. unfold add. rewrite Hm. destruct (disc p); cbn [negb andb].
  - destruct (is_backup_worker c (ec_node ec)) eqn:Eb.
    + apply backup_is_member in Eb. congruence.
    + cbn [negb]. exists ANotBackup. split; [reflexivity|right; reflexivity].
  - exists ANotInCommittee. split; [reflexivity|left; reflexivity].
Qed.

(* during discrepancy resolution only backup workers are admitted *)
Lemma add_non_backup_in_resolution c p ec :
  disc p = true -> is_backup_worker c (ec_node ec) = false -> add c p ec = (p, ANotBackup).
Proof. intros Hd Hb. unfold add. rewrite Hd, Hb. reflexivity. Qed.

(* commitments for a scheduler ranked worse than a committed one are rejected *)
Lemma add_worse_rank c p ec r :
  scheduler_rank c (ec_round ec) (ec_sched ec) = Some r -> hr p < r ->
  exists e, add c p ec = (p, e) /\ e <> AOk.
Proof.
  intros Hr Hlt. unfold add.
  destruct (negb (disc p) && negb (is_member c (ec_node ec))); [eexists; split; [reflexivity|discriminate]|].
  destruct (disc p && negb (is_backup_worker c (ec_node ec))); [eexists; split; [reflexivity|discriminate]|].
  rewrite Hr. assert (E : hr p <? r = true) by lia. rewrite E.
  eexists; split; [reflexivity|discriminate].
Qed.

(* a scheduler's own accepted commitment makes its rank the highest rank at least *)
Lemma add_own_sets_rank c p ec p1 r :
  add c p ec = (p1, AOk) -> ec_node ec = ec_sched ec ->
  scheduler_rank c (ec_round ec) (ec_sched ec) = Some r -> hr p1 = r.
Proof.
  intros H Hown Hr. unfold add in H.
  destruct (negb (disc p) && negb (is_member c (ec_node ec))); [discriminate|].
  destruct (disc p && negb (is_backup_worker c (ec_node ec))); [discriminate|].
  rewrite Hr in H. destruct (hr p <? r) eqn:E1; [discriminate|].
  destruct (negb (r =? hr p) && disc p); [discriminate|].
  rewrite Hown, N.eqb_refl, andb_true_r in H.
  destruct (r <? hr p) eqn:E2.
  - cbn [hr scs disc] in H. destruct (sc_add _ ec); inversion H. reflexivity.
  - destruct (sc_add _ ec); inversion H. cbn [hr]. lia.
Qed.

Lemma add_hr_mono c p ec : hr (fst (add c p ec)) <= hr p.
Proof.
  unfold add.
  destruct (negb (disc p) && negb (is_member c (ec_node ec))); [cbn; lia|].
  destruct (disc p && negb (is_backup_worker c (ec_node ec))); [cbn; lia|].
  destruct (scheduler_rank c (ec_round ec) (ec_sched ec)) as [r|]; [|cbn; lia].
  destruct (hr p <? r) eqn:E1; [cbn; lia|].
  destruct (negb (r =? hr p) && disc p); [cbn; lia|].
  destruct ((r <? hr p) && (ec_node ec =? ec_sched ec)) eqn:E2.
  - apply andb_true_iff in E2 as [E2 _]. cbn [hr scs disc]. destruct (sc_add _ ec); cbn; lia.
  - destruct (sc_add _ ec); cbn; lia.
Qed.

Lemma process_hr c p strag timeout : hr (fst (process c p strag timeout)) = hr p.
Proof. unfold process. destruct (process_inner c p strag timeout); reflexivity. Qed.

Lemma run_hr_mono c ops : forall p, hr (run c ops p) <= hr p.
Proof.
  induction ops as [|o ops IH]; intros p; cbn [run fold_left]; [lia|].
  change (fold_left (step c) ops (step c p o)) with (run c ops (step c p o)).
  specialize (IH (step c p o)).
  assert (hr (step c p o) <= hr p).
  { destruct o; cbn [step]; [apply add_hr_mono|rewrite process_hr; lia|lia]. }
  lia.
Qed.

(* one vote per member, round and scheduler *)
Lemma one_vote_per_member c p ec p1 ec' :
  add c p ec = (p1, AOk) ->
  ec_node ec' = ec_node ec -> ec_sched ec' = ec_sched ec -> ec_round ec' = ec_round ec ->
  add c p1 ec' = (p1, AAlreadyCommitted).
Proof.
  intros H Hn Hs Hr. unfold add in H.
  destruct (negb (disc p) && negb (is_member c (ec_node ec))) eqn:C1; [discriminate|].
  destruct (disc p && negb (is_backup_worker c (ec_node ec))) eqn:C2; [discriminate|].
  destruct (scheduler_rank c (ec_round ec) (ec_sched ec)) as [r|] eqn:Er; [|discriminate].
  destruct (hr p <? r) eqn:E1; [discriminate|].
  destruct (negb (r =? hr p) && disc p) eqn:E3; [discriminate|].
  set (p0 := if (r <? hr p) && (ec_node ec =? ec_sched ec)
             then mkPool r (filter (fun e => fst e <=? r) (scs p)) (disc p) else p) in H.
  assert (Hd0 : disc p0 = disc p) by (unfold p0; destruct ((r <? hr p) && (ec_node ec =? ec_sched ec)); reflexivity).
  assert (Hh0 : hr p0 = r \/ (hr p0 = hr p /\ (r <? hr p) && (ec_node ec =? ec_sched ec) = false)).
  { unfold p0. destruct ((r <? hr p) && (ec_node ec =? ec_sched ec)); [left|right]; auto. }
  destruct (sc_add (match aget r (scs p0) with Some sc => sc | None => empty_sc end) ec) as [sc'|] eqn:Ea;
    [|discriminate].
  injection H as <-.
  unfold add. cbn [hr scs disc]. rewrite Hn, Hs, Hr, Hd0, C1, C2, Er.
  assert (F1 : hr p0 <? r = false) by (destruct Hh0 as [->|[-> _]]; lia). rewrite F1.
  assert (F2 : negb (r =? hr p0) && disc p = false).
  { destruct Hh0 as [->|[-> _]]; [rewrite N.eqb_refl; reflexivity|exact E3]. }
  rewrite F2.
  assert (F3 : (r <? hr p0) && (ec_node ec =? ec_sched ec) = false).
  { destruct Hh0 as [->|[-> Hx]]; [|exact Hx]. rewrite N.ltb_irrefl. reflexivity. }
  rewrite F3. cbn [hr scs disc]. rewrite aget_aset_same.
  unfold sc_add in Ea |- *. rewrite Hn.
  destruct (aget (ec_node ec) (sc_votes (match aget r (scs p0) with Some sc => sc | None => empty_sc end)));
    [discriminate|].
  injection Ea as <-. cbn [sc_votes]. rewrite aget_aset_same. reflexivity.
Qed.

(* ====================================================================== *)
(* ---------- classification of the outcomes ---------- *)

Lemma gather_resolution_total hr0 strag timeout votes ms : forall t,
  exists t', gather true hr0 strag timeout votes ms t = Some t'.
Proof.
  induction ms as [|[ro k] r IH]; intros t; cbn [gather]; [eexists; reflexivity|].
  destruct (negb (counts true ro)); [apply IH|].
  destruct (aget k votes) as [[h|]|]; apply IH.
Qed.

Definition outcome_shape (c : committee) (p : pool) (timeout : bool) (p' : pool) (o : outcome) : Prop :=
  match o with
  | POk sc => p' = p /\ aget (hr p) (scs p) = Some sc
  | PStillWaiting => p' = p /\ timeout = false
  | PDiscrepancy =>
      disc p = false /\ (exists sc, aget (hr p) (scs p) = Some sc) /\
      p' = mkPool (hr p) (filter (fun e => fst e =? hr p) (scs p)) true
  | PInsufficientVotes => p' = p /\ disc p = true
  | PBadScheduler => p' = p /\ disc p = true
  | PNoScheduler => p' = p /\ timeout = true /\ aget (hr p) (scs p) = None
  | PPanic => p' = p /\ disc p = true /\ exists sc, aget (hr p) (scs p) = Some sc /\ sc_commit sc = None
  end.

Ltac split_if E :=
  repeat match type of E with
         | (if ?b then _ else _) = _ => destruct b eqn:?
         | (match ?x with Some _ => _ | None => _ end) = _ => destruct x eqn:?
         | (let '(_, _) := ?x in _) = _ => destruct x eqn:?
         end.

Lemma otherwise_wait_resolve_or_fail c p strag timeout :
  outcome_shape c p timeout (fst (process c p strag timeout)) (snd (process c p strag timeout)).
Proof.
  pose proof (no_wait_after_timeout_inner c p strag) as Hnw.
  unfold process. destruct (process_inner c p strag timeout) eqn:E; cbn [fst snd outcome_shape].
  - split; [reflexivity|]. eapply process_ok_is_highest with (p' := p). unfold process. rewrite E. reflexivity.
  - split; [reflexivity|]. destruct timeout; [contradiction|reflexivity].
  - unfold process_inner in E. destruct (aget (hr p) (scs p)) as [sc|] eqn:Ea; [|destruct timeout; discriminate E].
    destruct (disc p) eqn:D.
    + exfalso. destruct (gather_resolution_total (hr p) strag timeout (sc_votes sc) c tally0) as [t Ht].
      rewrite Ht in E. cbn [negb] in E. split_if E; discriminate E.
    + split; [reflexivity|]. split; [eexists; reflexivity|reflexivity].
  - split; [reflexivity|]. unfold process_inner in E.
    destruct (disc p); [reflexivity|]. cbn [negb] in E. split_if E; discriminate E.
  - split; [reflexivity|]. unfold process_inner in E.
    destruct (aget (hr p) (scs p)) as [sc|] eqn:Ea.
    + destruct (disc p); cbn [negb] in E; split_if E; discriminate E.
    + destruct timeout; [split; reflexivity|discriminate E].
  - split; [reflexivity|]. unfold process_inner in E.
    destruct (disc p); [reflexivity|]. cbn [negb] in E. split_if E; discriminate E.
  - split; [reflexivity|]. unfold process_inner in E.
    destruct (aget (hr p) (scs p)) as [sc|] eqn:Ea; [|destruct timeout; discriminate E].
    destruct (disc p); cbn [negb] in E.
    + split; [reflexivity|]. exists sc. split; [reflexivity|]. split_if E; try discriminate E. reflexivity.
    + split_if E; discriminate E.
Qed.

(* once discrepancy resolution has started, processing never detects a discrepancy again *)
Lemma second_process_never_detects c p strag timeout :
  disc p = true -> snd (process c p strag timeout) <> PDiscrepancy.
Proof.
  intros D H. pose proof (otherwise_wait_resolve_or_fail c p strag timeout) as S.
  rewrite H in S. cbn [outcome_shape] in S. destruct S as [S _]. congruence.
Qed.

Lemma no_panic c p strag timeout :
  hr_entry_ok c p -> snd (process c p strag timeout) <> PPanic.
Proof.
  intros Hinv H. pose proof (otherwise_wait_resolve_or_fail c p strag timeout) as S.
  rewrite H in S. cbn [outcome_shape] in S. destruct S as (_ & _ & sc & Ha & Hc).
  destruct (Hinv sc Ha) as (ec & Hec & _). congruence.
Qed.

(* ====================================================================== *)
(* ---------- examples (non-vacuity): primary 3 / backup 3, node 2 in both roles, stragglers 1 ---------- *)

Definition ex_c : committee :=
  [(RWorker, 0); (RWorker, 1); (RWorker, 2); (RBackup, 2); (RBackup, 3); (RBackup, 4)].
(* round 0: the rank of worker i is i *)
Definition ex_unanimous : list op :=
  [OAdd (mkEC 0 0 0 false 7); OAdd (mkEC 1 0 0 false 7); OAdd (mkEC 2 0 0 true 9)].
Definition ex_discrepant : list op :=
  [OAdd (mkEC 0 0 0 false 7); OAdd (mkEC 1 0 0 false 8); OProc 1 false;
   OAdd (mkEC 2 0 0 false 7); OAdd (mkEC 3 0 0 false 7)].

Example ex_unanimous_ok :
  exists sc, process ex_c (run ex_c ex_unanimous new_pool) 1 false = (run ex_c ex_unanimous new_pool, POk sc)
             /\ disc (run ex_c ex_unanimous new_pool) = false.
Proof. eexists. split; vm_compute; reflexivity. Qed.

Example ex_unanimous_strag0_waits_then_detects :
  snd (process ex_c (run ex_c ex_unanimous new_pool) 0 false) = PDiscrepancy.
Proof. vm_compute. reflexivity. Qed.

Example ex_discrepant_ok :
  exists sc, snd (process ex_c (run ex_c ex_discrepant new_pool) 1 false) = POk sc
             /\ disc (run ex_c ex_discrepant new_pool) = true.
Proof. eexists. split; vm_compute; reflexivity. Qed.

Example ex_backup_minority_fails :
  snd (process ex_c (run ex_c [OAdd (mkEC 0 0 0 false 7); OAdd (mkEC 1 0 0 false 8); OProc 1 false;
                               OAdd (mkEC 2 0 0 false 7)] new_pool) 1 true) = PInsufficientVotes.
Proof. vm_compute. reflexivity. Qed.

Example ex_second_vote_rejected :
  snd (add ex_c (run ex_c ex_unanimous new_pool) (mkEC 1 0 0 false 8)) = AAlreadyCommitted.
Proof. vm_compute. reflexivity. Qed.

Example ex_worse_rank_rejected :
  snd (add ex_c (run ex_c ex_unanimous new_pool) (mkEC 1 1 0 false 8)) = AWorseRank.
Proof. vm_compute. reflexivity. Qed.

Example ex_better_rank_preferred :
  hr (run ex_c [OAdd (mkEC 1 1 0 false 8); OAdd (mkEC 2 1 0 false 8); OAdd (mkEC 0 0 0 false 7)] new_pool) = 0
  /\ snd (process ex_c (run ex_c [OAdd (mkEC 1 1 0 false 8); OAdd (mkEC 2 1 0 false 8); OAdd (mkEC 0 0 0 false 7)] new_pool) 1 false)
     = PStillWaiting.
Proof. split; vm_compute; reflexivity. Qed.

(* ====================================================================== *)
(* ---------- votes of non-members do not influence processing ---------- *)

Lemma gather_ext d hr0 strag timeout v1 v2 ms : forall t,
  (forall n, In n (map snd ms) -> aget n v1 = aget n v2) ->
  gather d hr0 strag timeout v1 ms t = gather d hr0 strag timeout v2 ms t.
Proof.
  induction ms as [|[ro k] r IH]; intros t Hext; cbn [gather]; [reflexivity|].
  assert (Hr : forall n, In n (map snd r) -> aget n v1 = aget n v2).
  { intros n Hn. apply Hext. right. exact Hn. }
  rewrite (Hext k (or_introl eq_refl)).
  destruct (negb (counts d ro)); [apply IH; exact Hr|].
  destruct (aget k v2) as [[h|]|]; cbn zeta; rewrite !IH by exact Hr; reflexivity.
Qed.

Lemma process_ignores_non_member_votes c p sc sc' strag timeout :
  aget (hr p) (scs p) = Some sc ->
  sc_commit sc' = sc_commit sc ->
  (forall n, is_member c n = true -> aget n (sc_votes sc') = aget n (sc_votes sc)) ->
  outcome_code (process_inner c (mkPool (hr p) (aset (hr p) sc' (scs p)) (disc p)) strag timeout)
  = outcome_code (process_inner c p strag timeout).
Proof.
  intros Ha Hc Hv. unfold process_inner. cbn [hr scs disc]. rewrite aget_aset_same, Ha.
  rewrite (gather_ext (disc p) (hr p) strag timeout (sc_votes sc') (sc_votes sc) c tally0).
  2:{ intros n Hn. apply Hv. apply is_member_in. exact Hn. }
  destruct (gather (disc p) (hr p) strag timeout (sc_votes sc) c tally0) as [t|]; [|reflexivity].
  destruct (negb (disc p)).
  - destruct (_ || _); [reflexivity|]. destruct (0 <? _)%Z; reflexivity.
  - destruct (vbest (t_votes t) 0 0) as [h best].
    destruct (_ <? _); [reflexivity|]. destruct (_ && _); [reflexivity|].
    destruct (best <? _); [reflexivity|]. rewrite Hc. destruct (sc_commit sc); [|reflexivity].
    destruct (negb _); reflexivity.
Qed.
