(* VerifyExecutorCommitment establishes the premise [verified] of the history
   theorems; rank buckets hold the proposal of the scheduler of that rank. *)
From Verif Require Import Lib.Base Roothash.Pool Roothash.PoolSpec Roothash.PoolProofs
  Roothash.PoolInv Roothash.Verify.

Definition next_round (b : blockinfo) : N := (blk_round b + 1) mod W64.

Lemma verify_ok_verified br bh mm vc :
  verify br bh mm vc = VOk -> verified ((br + 1) mod W64) (vc_ec vc).
Proof.
  unfold verify. intros H.
  destruct (negb (vc_sig_ok vc)); [discriminate H|].
  destruct (negb (validate_basic vc)); [discriminate H|].
  destruct (negb (is_parent_of vc br bh)) eqn:Ep; [discriminate H|].
  apply negb_false_iff in Ep. unfold is_parent_of in Ep. apply andb_true_iff in Ep as [Er _].
  apply N.eqb_eq in Er. split; [exact Er|]. cbn [vc_ec ec_node ec_sched ec_fail].
  intros Heq. destruct (vc_fail vc); [|reflexivity].
  rewrite Heq, N.eqb_refl in H. discriminate H.
Qed.

Lemma verify_ok_header br bh mm vc :
  verify br bh mm vc = VOk ->
  vc_sig_ok vc = true /\ validate_basic vc = true /\
  vc_round vc = (br + 1) mod W64 /\ vc_prev vc = bh.
Proof.
  unfold verify. intros H.
  destruct (vc_sig_ok vc); [|discriminate H]. cbn [negb] in H.
  destruct (validate_basic vc); [|discriminate H]. cbn [negb] in H.
  destruct (is_parent_of vc br bh) eqn:Ep; [|discriminate H].
  unfold is_parent_of in Ep. apply andb_true_iff in Ep as [Er Eh].
  apply N.eqb_eq in Er. apply N.eqb_eq in Eh. repeat split; assumption.
Qed.

Lemma lower_verified b ops : Forall (verified_op (next_round b)) (lower b ops).
Proof.
  unfold lower. induction ops as [|o ops IH]; cbn [flat_map]; [constructor|].
  apply Forall_app. split; [|exact IH].
  destruct o as [vc|s t|s t]; cbn [lower1].
  - destruct (verify (blk_round b) (blk_hash b) (blk_max_msgs b) vc) eqn:E; try constructor.
    + cbn [verified_op]. apply verify_ok_verified in E. exact E.
    + constructor.
  - repeat constructor.
  - repeat constructor.
Qed.

Lemma finalize_only_if_rule_verified_history b c ops strag timeout p' sc :
  next_round b + N.of_nat (length c) < W64 ->
  process c (vrun b c ops new_pool) strag timeout = (p', POk sc) ->
  rule c strag (disc (vrun b c ops new_pool)) sc.
Proof.
  intros Hnw H. unfold vrun in *.
  eapply finalize_only_if_rule_history; [exact Hnw|apply lower_verified|exact H].
Qed.

(* ---------- rank buckets ---------- *)

(* the commitment stored in bucket r is the own proposal of the scheduler of rank r in round R *)
Definition commit_rank_ok (c : committee) (R : N) (p : pool) : Prop :=
  forall r sc ec, aget r (scs p) = Some sc -> sc_commit sc = Some ec ->
    ec_node ec = ec_sched ec /\ ec_round ec = R /\ scheduler_rank c R (ec_sched ec) = Some r.

Lemma commit_rank_new c R : commit_rank_ok c R new_pool.
Proof. intros r sc ec H. discriminate H. Qed.

Lemma commit_rank_process c R p strag timeout :
  commit_rank_ok c R p -> commit_rank_ok c R (fst (process c p strag timeout)).
Proof.
  intros I. pose proof (otherwise_wait_resolve_or_fail c p strag timeout) as S.
  destruct (process c p strag timeout) as [p' o]. cbn [fst snd] in *.
  destruct o; cbn [outcome_shape] in S; try (destruct S as [-> _]; exact I).
  destruct S as (_ & _ & ->). intros r sc ec H. cbn [scs] in H. rewrite aget_filter_eq in H.
  destruct (r =? hr p); [apply I; exact H|discriminate H].
Qed.

Lemma commit_rank_add c R p ec :
  verified R ec -> commit_rank_ok c R p -> commit_rank_ok c R (fst (add c p ec)).
Proof.
  intros [HR _] I. unfold add.
  destruct (negb (disc p) && negb (is_member c (ec_node ec))); [exact I|].
  destruct (disc p && negb (is_backup_worker c (ec_node ec))); [exact I|].
  rewrite HR. destruct (scheduler_rank c R (ec_sched ec)) as [rank|] eqn:Er; [|exact I].
  destruct (hr p <? rank); [exact I|].
  destruct (negb (rank =? hr p) && disc p); [exact I|].
  set (p0 := if (rank <? hr p) && (ec_node ec =? ec_sched ec)
             then mkPool rank (filter (fun e => fst e <=? rank) (scs p)) (disc p) else p).
  assert (I0 : commit_rank_ok c R p0).
  { unfold p0. destruct ((rank <? hr p) && (ec_node ec =? ec_sched ec)); [|exact I].
    intros r sc e H. cbn [scs] in H. rewrite aget_filter_le in H.
    destruct (r <=? rank); [apply I; exact H|discriminate H]. }
  destruct (sc_add (match aget rank (scs p0) with Some sc => sc | None => empty_sc end) ec) as [sc'|] eqn:Ea;
    cbn [fst]; [|exact I0].
  intros r sc e H Hc. cbn [scs] in H.
  destruct (N.eq_dec r rank) as [->|Hne].
  - rewrite aget_aset_same in H. injection H as <-.
    unfold sc_add in Ea. destruct (aget (ec_node ec) _); [discriminate Ea|]. injection Ea as <-.
    cbn [sc_commit] in Hc. destruct (ec_node ec =? ec_sched ec) eqn:Eown.
    + injection Hc as <-. apply N.eqb_eq in Eown. repeat split; assumption.
    + destruct (aget rank (scs p0)) as [sc0|] eqn:E0; [|discriminate Hc].
      apply (I0 rank sc0 e E0 Hc).
  - rewrite aget_aset_other in H by exact Hne. apply (I0 r sc e H Hc).
Qed.

Lemma commit_rank_run c R ops : forall p,
  Forall (verified_op R) ops -> commit_rank_ok c R p -> commit_rank_ok c R (run c ops p).
Proof.
  induction ops as [|o ops IH]; intros p Hv I; cbn [run fold_left]; [exact I|].
  change (fold_left (step c) ops (step c p o)) with (run c ops (step c p o)).
  inversion Hv as [|x xs Hvo Hvr]; subst. apply IH; [exact Hvr|].
  destruct o; cbn [step].
  - apply commit_rank_add; assumption.
  - apply commit_rank_process; assumption.
  - exact I.
Qed.

(* the finalized proposal is the own proposal of the scheduler whose rank, computed for
   round (latest block round + 1), is the pool's highest rank *)
Lemma rank_priority_verified_history b c ops strag timeout p' sc :
  next_round b + N.of_nat (length c) < W64 ->
  process c (vrun b c ops new_pool) strag timeout = (p', POk sc) ->
  exists ec, sc_commit sc = Some ec /\ ec_node ec = ec_sched ec /\ ec_round ec = next_round b /\
             scheduler_rank c (next_round b) (ec_sched ec) = Some (hr (vrun b c ops new_pool)).
Proof.
  intros Hnw H. pose proof (process_ok_is_highest _ _ _ _ _ _ H) as Hsc. unfold vrun in *.
  assert (Hs : small c) by (unfold small, U64MAX; unfold W64 in Hnw; lia).
  assert (Hi : rank_inj c (next_round b)) by (apply rank_inj_no_wrap; lia).
  destruct (inv_run c _ _ new_pool Hs Hi (lower_verified b ops) (inv_new c _)) as (I1 & _).
  destruct (I1 sc Hsc) as (ec & Hc & _).
  destruct (commit_rank_run c _ _ new_pool (lower_verified b ops) (commit_rank_new c _) _ _ _ Hsc Hc)
    as (H1 & H2 & H3).
  exists ec. repeat split; assumption.
Qed.

(* every bucket of a reachable pool: its stored proposal belongs to the scheduler of that rank *)
Lemma rank_buckets_verified_history b c ops r sc ec :
  aget r (scs (vrun b c ops new_pool)) = Some sc -> sc_commit sc = Some ec ->
  ec_node ec = ec_sched ec /\ ec_round ec = next_round b /\
  scheduler_rank c (next_round b) (ec_sched ec) = Some r.
Proof.
  apply (commit_rank_run c _ _ new_pool (lower_verified b ops) (commit_rank_new c _)).
Qed.

(* once a scheduler's own verified commitment was accepted, the highest rank stays at least
   as good as that scheduler's rank for the rest of the round *)
Lemma rank_priority_best_committed b c ops1 vc ops2 p1 r :
  verify (blk_round b) (blk_hash b) (blk_max_msgs b) vc = VOk ->
  add c (vrun b c ops1 new_pool) (vc_ec vc) = (p1, AOk) ->
  vc_node vc = vc_sched vc ->
  scheduler_rank c (next_round b) (vc_sched vc) = Some r ->
  hr (vrun b c (ops1 ++ VAdd vc :: ops2) new_pool) <= r.
Proof.
  intros Hv Ha Hown Hr. unfold vrun, lower. rewrite flat_map_app. cbn [flat_map lower1]. rewrite Hv.
  unfold run. rewrite fold_left_app. cbn [app fold_left step].
  change (fold_left (step c) (flat_map (lower1 b) ops1) new_pool) with (vrun b c ops1 new_pool).
  rewrite Ha. cbn [fst].
  pose proof (run_hr_mono c (flat_map (lower1 b) ops2) p1) as Hm. unfold run in Hm.
  assert (hr p1 = r).
  { eapply add_own_sets_rank; [exact Ha|exact Hown|].
    cbn [vc_ec ec_round ec_sched]. apply verify_ok_header in Hv as (_ & _ & -> & _). exact Hr. }
  lia.
Qed.
