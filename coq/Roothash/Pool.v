(* Executable model of the executor commitment pool.
   Ported from go/roothash/api/commitment/pool.go (AddVerifiedExecutorCommitment
   224-307, ProcessCommitments 310-326, processCommitments 328-452),
   go/roothash/api/commitment/votes.go (SchedulerCommitment.Add 22-47) and the
   committee helpers of go/scheduler/api/api.go (IsMember 156, IsBackupWorker
   180, SchedulerRank 236).  Definitions only, no proofs.

   Abstractions: a node is a number (its public key), a commitment is "already
   verified" (signature / RAK / message checks of VerifyExecutorCommitment are
   not modelled) and reduced to (node, scheduler id, round, failure flag, vote)
   where vote = ToVote() = hash of the compute results header, an opaque number. *)
From Verif Require Import Lib.Base.

Definition U64MAX : N := 18446744073709551615.
Definition W64 : N := 18446744073709551616.

(* scheduler/api/api.go:25-30 *)
Inductive role := RInvalid | RWorker | RBackup.
Definition is_rworker (r : role) : bool := match r with RWorker => true | _ => false end.
Definition is_rbackup (r : role) : bool := match r with RBackup => true | _ => false end.

Definition member := (role * N)%type.
Definition committee := list member.

(* api.go:156 IsMember *)
Fixpoint is_member (c : committee) (id : N) : bool :=
  match c with
  | [] => false
  | (_, k) :: r => if k =? id then true else is_member r id
  end.

(* api.go:180 IsBackupWorker: scans from the END, gives up at the first entry
   whose role is not backup worker.  [scan_backup] runs on the reversed list. *)
Fixpoint scan_backup (l : committee) (id : N) : bool :=
  match l with
  | [] => false
  | (ro, k) :: r =>
      if is_rbackup ro then (if k =? id then true else scan_backup r id) else false
  end.
Definition is_backup_worker (c : committee) (id : N) : bool := scan_backup (rev c) id.

(* api.go:236 SchedulerRank: loop over the worker prefix; the LAST matching
   position wins; rank = (round + idx) % total in uint64 arithmetic. *)
Fixpoint rank_scan (l : committee) (id : N) (total idx : N) (isw : bool) : N * N * bool :=
  match l with
  | [] => (total, idx, isw)
  | (ro, k) :: r =>
      if is_rworker ro then
        (if k =? id then rank_scan r id (total + 1) total true
         else rank_scan r id (total + 1) idx isw)
      else (total, idx, isw)
  end.
Definition scheduler_rank (c : committee) (round id : N) : option N :=
  match rank_scan c id 0 0 false with
  | (total, idx, isw) =>
      if isw then Some (((round + idx) mod W64) mod total) else None
  end.

(* executor.go:150 ExecutorCommitment, projected *)
Record commitment := mkEC {
  ec_node : N; ec_sched : N; ec_round : N; ec_fail : bool; ec_vote : N }.

(* votes.go:9 SchedulerCommitment; votes: node -> Some hash | None (= nil vote, failure) *)
Record sched_commitment := mkSC {
  sc_commit : option commitment;
  sc_votes : list (N * option N) }.
Definition empty_sc : sched_commitment := mkSC None [].

(* pool.go:64 Pool *)
Record pool := mkPool {
  hr : N;
  scs : list (N * sched_commitment);
  disc : bool }.
(* pool.go:77 NewPool *)
Definition new_pool : pool := mkPool U64MAX [] false.

(* votes.go:22 Add; None = ErrAlreadyCommitted *)
Definition sc_add (sc : sched_commitment) (ec : commitment) : option sched_commitment :=
  match aget (ec_node ec) (sc_votes sc) with
  | Some _ => None                                              (* votes.go:24 *)
  | None =>
      let vote := if ec_fail ec then None else Some (ec_vote ec) in     (* :29-33 *)
      Some (mkSC (if ec_node ec =? ec_sched ec then Some ec else sc_commit sc)  (* :42 *)
                 (aset (ec_node ec) vote (sc_votes sc)))                (* :39 *)
  end.

Inductive add_res :=
| AOk
| ANotInCommittee      (* pool.go:234 ErrNotInCommittee *)
| ANotBackup           (* pool.go:242 ErrBadExecutorCommitment *)
| ABadScheduler        (* pool.go:255 ErrBadExecutorCommitment *)
| AWorseRank           (* pool.go:269 ErrBadExecutorCommitment *)
| ARankMismatch        (* pool.go:279 ErrBadExecutorCommitment *)
| AAlreadyCommitted.   (* votes.go:25 ErrAlreadyCommitted *)

(* the Go error value seen by a caller: 0 nil, 1 ErrNotInCommittee,
   2 ErrBadExecutorCommitment, 3 ErrAlreadyCommitted *)
Definition add_class (r : add_res) : N :=
  match r with
  | AOk => 0 | ANotInCommittee => 1
  | ANotBackup | ABadScheduler | AWorseRank | ARankMismatch => 2
  | AAlreadyCommitted => 3
  end.

(* pool.go:224 AddVerifiedExecutorCommitment.  Note that the pool is already
   modified (HighestRank lowered, worse entries dropped, :286-293) when
   sc.Add fails at :306. *)
Definition add (c : committee) (p : pool) (ec : commitment) : pool * add_res :=
  if negb (disc p) && negb (is_member c (ec_node ec)) then (p, ANotInCommittee)      (* :227 *)
  else if disc p && negb (is_backup_worker c (ec_node ec)) then (p, ANotBackup)       (* :235 *)
  else match scheduler_rank c (ec_round ec) (ec_sched ec) with                         (* :246 *)
  | None => (p, ABadScheduler)
  | Some rank =>
      if hr p <? rank then (p, AWorseRank)                                             (* :260 *)
      else if negb (rank =? hr p) && disc p then (p, ARankMismatch)                    (* :270 *)
      else
        let p1 :=
          if (rank <? hr p) && (ec_node ec =? ec_sched ec)                             (* :280-282 *)
          then mkPool rank (filter (fun e => fst e <=? rank) (scs p)) (disc p)         (* :286-293 *)
          else p in
        let sc := match aget rank (scs p1) with Some sc => sc | None => empty_sc end in (* :300-304 *)
        match sc_add sc ec with                                                        (* :306 *)
        | None =>
            (* a freshly created entry never fails; an existing one is unchanged *)
            (p1, AAlreadyCommitted)
        | Some sc' => (mkPool (hr p1) (aset rank sc' (scs p1)) (disc p1), AOk)
        end
  end.

Inductive outcome :=
| POk (sc : sched_commitment)
| PStillWaiting            (* ErrStillWaiting *)
| PDiscrepancy             (* ErrDiscrepancyDetected *)
| PInsufficientVotes       (* ErrInsufficientVotes *)
| PNoScheduler             (* ErrNoSchedulerCommitment *)
| PBadScheduler            (* ErrBadSchedulerCommitment *)
| PPanic.                  (* nil dereference of sc.Commitment at pool.go:445 *)

Record tally := mkT {
  t_total : N; t_commits : N; t_failures : N; t_votes : list (N * N) }.
Definition tally0 : tally := mkT 0 0 0 [].

Definition vinc (h : N) (l : list (N * N)) : list (N * N) :=
  aset h (match aget h l with Some n => n + 1 | None => 1 end) l.
Definition vlen (l : list (N * N)) : N := N.of_nat (length l).

Definition counts (d : bool) (ro : role) : bool :=
  if d then is_rbackup ro else is_rworker ro.                    (* pool.go:346-351 *)

(* pool.go:345-389, the member loop; None = early ErrDiscrepancyDetected (:388) *)
Fixpoint gather (d : bool) (hr0 strag : N) (timeout : bool)
         (votes : list (N * option N)) (ms : committee) (t : tally) : option tally :=
  match ms with
  | [] => Some t
  | (ro, k) :: r =>
      if negb (counts d ro) then gather d hr0 strag timeout votes r t
      else
        let total := t_total t + 1 in                                               (* :353 *)
        match aget k votes with
        | None => gather d hr0 strag timeout votes r
                    (mkT total (t_commits t) (t_failures t) (t_votes t))            (* :356 *)
        | Some v =>
            let t2 := match v with
                      | None => mkT total (t_commits t + 1) (t_failures t + 1) (t_votes t)
                      | Some h => mkT total (t_commits t + 1) (t_failures t) (vinc h (t_votes t))
                      end in
            if d then gather d hr0 strag timeout votes r t2                         (* :367 *)
            else if (vlen (t_votes t2) <=? 1) && (t_failures t2 <=? strag)
                 then gather d hr0 strag timeout votes r t2                         (* :370 *)
            else if (0 <? hr0) && negb timeout
                 then gather d hr0 strag timeout votes r t2                         (* :373 *)
            else None                                                               (* :388 *)
        end
  end.

Fixpoint vsum (l : list (N * N)) : N :=
  match l with [] => 0 | (_, v) :: r => v + vsum r end.

(* pool.go:427-432; Go's map order is unspecified, any order gives the same
   outcome because only a count >= total/2+1 matters afterwards *)
Fixpoint vbest (l : list (N * N)) (h best : N) : N * N :=
  match l with
  | [] => (h, best)
  | (h', v) :: r => if best <? v then vbest r h' v else vbest r h best
  end.

(* pool.go:328 processCommitments *)
Definition process_inner (c : committee) (p : pool) (strag : N) (timeout : bool) : outcome :=
  match aget (hr p) (scs p) with
  | None => if timeout then PNoScheduler else PStillWaiting                          (* :331-338 *)
  | Some sc =>
      match gather (disc p) (hr p) strag timeout (sc_votes sc) c tally0 with
      | None => PDiscrepancy
      | Some t =>
          if negb (disc p) then
            if (1 <? vlen (t_votes t)) || (strag <? t_failures t) then PStillWaiting  (* :394-398 *)
            else
              let required := (Z.of_N (t_total t) - Z.of_N strag - Z.of_N (vsum (t_votes t)))%Z in
              if (0 <? required)%Z then (if timeout then PDiscrepancy else PStillWaiting) (* :409-416 *)
              else POk sc
          else
            let required := t_total t / 2 + 1 in                                     (* :419 *)
            let remaining := t_total t - t_commits t in                              (* :420 *)
            let '(h, best) := vbest (t_votes t) 0 0 in
            if best + remaining <? required then PInsufficientVotes                  (* :435 *)
            else if (best <? required) && timeout then PInsufficientVotes            (* :439 *)
            else if best <? required then PStillWaiting                              (* :442 *)
            else match sc_commit sc with
                 | None => PPanic
                 | Some ec => if negb (h =? ec_vote ec) then PBadScheduler           (* :445 *)
                              else POk sc
                 end
      end
  end.

(* pool.go:310 ProcessCommitments *)
Definition process (c : committee) (p : pool) (strag : N) (timeout : bool) : pool * outcome :=
  match process_inner c p strag timeout with
  | PDiscrepancy =>
      (mkPool (hr p) (filter (fun e => fst e =? hr p) (scs p)) true, PDiscrepancy)  (* :313-322 *)
  | o => (p, o)
  end.

(* ---------- operation sequences ---------- *)
Inductive op :=
| OAdd (ec : commitment)
| OProc (strag : N) (timeout : bool)
| OProbe (strag : N) (timeout : bool).   (* harness only: ProcessCommitments on a copy of the pool *)

Definition step (c : committee) (p : pool) (o : op) : pool :=
  match o with
  | OAdd ec => fst (add c p ec)
  | OProc s t => fst (process c p s t)
  | OProbe _ _ => p
  end.
Definition run (c : committee) (ops : list op) (p : pool) : pool := fold_left (step c) ops p.

(* ---------- observables for the correspondence check ---------- *)
(* (code, chosen (commit node, commit vote) when Ok, highest rank, discrepancy) *)
Definition obs := (N * option (option (N * N)) * N * bool)%type.

Definition outcome_code (o : outcome) : N :=
  match o with
  | POk _ => 10 | PStillWaiting => 11 | PDiscrepancy => 12 | PInsufficientVotes => 13
  | PNoScheduler => 14 | PBadScheduler => 15 | PPanic => 16
  end.
Definition chosen (o : outcome) : option (option (N * N)) :=
  match o with
  | POk sc => Some (match sc_commit sc with
                    | Some ec => Some (ec_node ec, ec_vote ec) | None => None end)
  | _ => None
  end.

Fixpoint run_obs (c : committee) (ops : list op) (p : pool) : list obs * pool :=
  match ops with
  | [] => ([], p)
  | OAdd ec :: r =>
      let '(p1, e) := add c p ec in
      let '(l, pf) := run_obs c r p1 in
      ((add_class e, None, hr p1, disc p1) :: l, pf)
  | OProc s t :: r =>
      let '(p1, o) := process c p s t in
      let '(l, pf) := run_obs c r p1 in
      ((outcome_code o, chosen o, hr p1, disc p1) :: l, pf)
  | OProbe s t :: r =>
      let '(p1, o) := process c p s t in
      let '(l, pf) := run_obs c r p in
      ((outcome_code o, chosen o, hr p1, disc p1) :: l, pf)
  end.

(* typed [None]s for the case files written by the harness *)
Definition noN : option N := None.
Definition noCh : option (option (N * N)) := None.
Definition noPair : option (N * N) := None.

(* canonical snapshot: entries sorted by rank, votes sorted by node *)
Section KSort.
  Context {V : Type}.
  Fixpoint kinsert (x : N * V) (l : list (N * V)) : list (N * V) :=
    match l with
    | [] => [x]
    | y :: r => if fst x <=? fst y then x :: l else y :: kinsert x r
    end.
  Definition ksort (l : list (N * V)) : list (N * V) := fold_right kinsert [] l.
End KSort.

Definition snap_entry := (N * (option N * list (N * option N)))%type.
Definition snapshot (p : pool) : list snap_entry :=
  ksort (map (fun e => (fst e, (match sc_commit (snd e) with Some ec => Some (ec_node ec) | None => None end,
                                ksort (sc_votes (snd e))))) (scs p)).

Definition run_case (x : committee * list op) : list obs * list snap_entry :=
  let '(l, pf) := run_obs (fst x) (snd x) new_pool in (l, snapshot pf).

Definition optN_eqb (a b : option N) : bool :=
  match a, b with Some x, Some y => x =? y | None, None => true | _, _ => false end.
Definition pairN_eqb (a b : N * N) : bool := (fst a =? fst b) && (snd a =? snd b).
Definition chosen_eqb (a b : option (option (N * N))) : bool :=
  match a, b with
  | None, None => true
  | Some None, Some None => true
  | Some (Some x), Some (Some y) => pairN_eqb x y
  | _, _ => false
  end.
Definition obs_eqb (a b : obs) : bool :=
  match a, b with
  | (c1, ch1, h1, d1), (c2, ch2, h2, d2) =>
      (c1 =? c2) && chosen_eqb ch1 ch2 && (h1 =? h2) && Bool.eqb d1 d2
  end.
Definition vote_eqb (a b : N * option N) : bool := (fst a =? fst b) && optN_eqb (snd a) (snd b).
Definition snap_eqb (a b : snap_entry) : bool :=
  (fst a =? fst b) && optN_eqb (fst (snd a)) (fst (snd b))
  && list_eqb vote_eqb (snd (snd a)) (snd (snd b)).
Definition case_eqb (a b : list obs * list snap_entry) : bool :=
  list_eqb obs_eqb (fst a) (fst b) && list_eqb snap_eqb (snd a) (snd b).
