(* Invariants of the application model over arbitrary block histories: the pool held by the
   runtime state is always one reachable by verified commitments for the CURRENT round, so the
   pool theorems (finalize only by the rule, rank buckets, membership) apply to every Normal
   block the application emits. *)
From Verif Require Import Lib.Base Roothash.Pool Roothash.PoolSpec Roothash.PoolProofs
  Roothash.PoolInv Roothash.Verify Roothash.VerifyProofs Roothash.App Roothash.AppProofs
  Roothash.Membership.

Definition small_c (c : committee) : Prop := N.of_nat (length c) < 4294967296.
Definition ROUND_BOUND : N := 4611686018427387904.   (* 2^62 *)
Definition round_ok (st : rt_state) : Prop := rs_round st < ROUND_BOUND.
Definition committee_ok (st : rt_state) : Prop := forall c, rs_committee st = Some c -> small_c c.

Definition pool_inv (c : committee) (R : N) (p : pool) : Prop :=
  inv c R p /\ commit_rank_ok c R p /\ votes_members c p.

Definition pool_ok (st : rt_state) : Prop :=
  match rs_pool st, rs_committee st with
  | Some p, Some c => pool_inv c (next_round_of st) p
  | _, _ => True
  end.

Lemma pool_inv_new c R : pool_inv c R new_pool.
Proof. split; [apply inv_new|]. split; [apply commit_rank_new|apply votes_members_new]. Qed.

Lemma pool_inv_process c R p s t : pool_inv c R p -> pool_inv c R (fst (process c p s t)).
Proof.
  intros (A & B & C). split; [apply inv_process; exact A|].
  split; [apply commit_rank_process; exact B|apply votes_members_process; exact C].
Qed.

Lemma pool_inv_add c R p ec :
  small c -> rank_inj c R -> verified R ec -> pool_inv c R p -> pool_inv c R (fst (add c p ec)).
Proof.
  intros Hs Hi Hv (A & B & C). split; [apply inv_add; assumption|].
  split; [apply commit_rank_add; assumption|apply votes_members_add; exact C].
Qed.

Lemma next_round_small st : round_ok st -> next_round_of st = rs_round st + 1.
Proof.
  unfold round_ok, ROUND_BOUND, next_round_of, W64. intros H. apply N.mod_small. lia.
Qed.

Lemma commit_all_pool_inv round bh mm c : forall vcs p p1 code,
  small_c c -> round < ROUND_BOUND ->
  pool_inv c ((round + 1) mod W64) p ->
  commit_all round bh mm c p vcs = (p1, code) -> pool_inv c ((round + 1) mod W64) p1.
Proof.
  intros vcs p p1 code Hc Hr. revert p p1 code.
  assert (HR : (round + 1) mod W64 = round + 1).
  { apply N.mod_small. unfold ROUND_BOUND, W64 in *. lia. }
  assert (Hs : small c) by (unfold small, U64MAX; unfold small_c in Hc; lia).
  assert (Hi : rank_inj c ((round + 1) mod W64)).
  { apply rank_inj_no_wrap. rewrite HR. unfold small_c, ROUND_BOUND, W64 in *. lia. }
  induction vcs as [|vc r IH]; intros p p1 code I; cbn [commit_all].
  - intros H. injection H as <- _. exact I.
  - destruct (verify round bh mm vc) eqn:V; try (intros H; injection H as <- _; exact I).
    pose proof (verify_ok_verified _ _ _ _ V) as Hv.
    pose proof (pool_inv_add c _ p (vc_ec vc) Hs Hi Hv I) as I1.
    destruct (add c p (vc_ec vc)) as [q e]. cbn [fst] in I1.
    destruct e; try (intros H; injection H as <- _; exact I1).
    apply IH. exact I1.
Qed.

Lemma executor_commit_pool_ok H prm st vcs :
  pool_ok st -> committee_ok st -> round_ok st ->
  pool_ok (fst (fst (executor_commit H prm st vcs))).
Proof.
  intros I Hc Hr. unfold executor_commit. destruct vcs as [|vc r]; [exact I|].
  destruct (rs_suspended st); [exact I|].
  destruct (rs_committee st) as [c|] eqn:Ec; [|exact I].
  destruct (rs_pool st) as [p|] eqn:Ep; [|exact I].
  destruct (commit_all _ _ _ c p (vc :: r)) as [p1 code] eqn:E.
  destruct (code =? 0); cbn [fst]; [|exact I].
  unfold pool_ok in I |- *. cbn [rs_pool rs_committee]. rewrite ?Ep, ?Ec in I.
  unfold next_round_of in I |- *. cbn [rs_round].
  eapply commit_all_pool_inv; [apply Hc; exact Ec|exact Hr|exact I|exact E].
Qed.

Lemma executor_commit_keeps_block H prm st vcs :
  let st' := fst (fst (executor_commit H prm st vcs)) in
  rs_round st' = rs_round st /\ rs_committee st' = rs_committee st /\ rs_suspended st' = rs_suspended st /\
  rs_root st' = rs_root st /\ rs_htype st' = rs_htype st.
Proof.
  cbn zeta. destruct (executor_commit_cases H prm st vcs) as [[-> _]|(_ & _ & _ & p1 & nt & ->)];
    repeat split; reflexivity.
Qed.

Lemma run_txs_pool_ok H prm txs : forall st fin st' codes fin',
  run_txs H prm st txs fin = (st', codes, fin') ->
  pool_ok st -> committee_ok st -> round_ok st ->
  pool_ok st' /\ committee_ok st' /\ rs_round st' = rs_round st.
Proof.
  induction txs as [|vcs r IH]; intros st fin st' codes fin'; cbn [run_txs].
  - intros Hx. injection Hx as <- _ _. auto.
  - destruct (executor_commit H prm st vcs) as [[st1 code] reg] eqn:E1.
    destruct (run_txs H prm st1 r (fin || reg)) as [[st2 codes2] fin2] eqn:E2.
    intros Hx. injection Hx as <- _ _. intros I Hc Hr.
    pose proof (executor_commit_pool_ok H prm st vcs I Hc Hr) as I1.
    pose proof (executor_commit_keeps_block H prm st vcs) as K. rewrite E1 in I1, K. cbn [fst] in I1, K.
    destruct K as (K1 & K2 & _).
    assert (Hc1 : committee_ok st1) by (intros c Hx; apply Hc; rewrite <- K2; exact Hx).
    assert (Hr1 : round_ok st1) by (unfold round_ok; rewrite K1; exact Hr).
    destruct (IH _ _ _ _ _ E2 I1 Hc1 Hr1) as (A & B & C). repeat split; try assumption. congruence.
Qed.

Lemma begin_block_pool_ok prm st ep : pool_ok (fst (begin_block prm st ep)) \/ ep = None.
Proof.
  destruct ep as [[c|]|]; [left|left|right; reflexivity]; cbn [begin_block].
  - pose proof (finalize_block_fields prm st HEpochTransition None) as F. cbn zeta in F.
    destruct (finalize_block prm st HEpochTransition None) as [s e]. cbn [fst snd] in *.
    destruct F as (_ & _ & _ & _ & _ & _ & Fp & _). unfold pool_ok. cbn [rs_pool rs_committee].
    rewrite Fp. apply pool_inv_new.
  - pose proof (finalize_block_fields prm st HSuspended None) as F. cbn zeta in F.
    destruct (finalize_block prm st HSuspended None) as [s e]. cbn [fst snd] in *.
    destruct F as (_ & _ & _ & _ & _ & _ & Fp & _). unfold pool_ok. cbn [rs_pool rs_committee].
    rewrite Fp. exact I.
Qed.

(* a finalization attempt leaves a pool for the (possibly new) current round *)
Lemma try_finalize_pool_ok H prm c p st timeout st' evs :
  rs_pool st = Some p -> rs_committee st = Some c -> pool_ok st ->
  try_finalize H prm c p st timeout = TFOk st' evs ->
  pool_ok st' /\ rs_committee st' = Some c /\ rs_suspended st' = rs_suspended st.
Proof.
  intros Ep Ec I. unfold pool_ok in I. rewrite Ep, Ec in I. unfold try_finalize.
  destruct (tf_decide H prm c p st timeout) as [[[st1 p2] o2] ev] eqn:E.
  apply tf_decide_spec in E as (Sb & Epr & _ & _).
  destruct Sb as (B1 & _ & _ & B4 & B5 & _).
  assert (Ipe : pool_inv c (next_round_of st) (fst (deciding H prm c p timeout))).
  { unfold deciding. pose proof (pool_inv_process c _ p (rp_strag prm) timeout I) as I'.
    destruct (process c p (rp_strag prm) timeout) as [p1 o1]. cbn [fst] in I'. destruct o1; cbn [fst]; assumption. }
  assert (Ip2 : pool_inv c (next_round_of st) p2).
  { pose proof (pool_inv_process c _ _ (rp_strag prm) (snd (deciding H prm c p timeout)) Ipe) as I'.
    rewrite Epr in I'. exact I'. }
  assert (Hfresh : forall s2, rs_pool s2 = Some new_pool -> rs_committee s2 = rs_committee st1 ->
                    rs_suspended s2 = rs_suspended st1 ->
                    pool_ok s2 /\ rs_committee s2 = Some c /\ rs_suspended s2 = rs_suspended st).
  { intros s2 P C S. rewrite B4, Ec in C. split; [|split; [exact C|congruence]].
    unfold pool_ok. rewrite P, C. apply pool_inv_new. }
  destruct o2; try discriminate.
  - destruct (sc_commit sc); [|discriminate].
    destruct (finalize_normal _ _ _ _ _ _ _) as [[s2 e2]|] eqn:F; [|discriminate].
    intros Hx. injection Hx as <- _.
    apply finalize_normal_spec in F as (_ & _ & _ & _ & _ & _ & _ & P & _ & C & S). apply Hfresh; assumption.
  - intros Hx. injection Hx as <- _. unfold pool_ok, with_pool. cbn [rs_pool rs_committee rs_suspended].
    rewrite B4, Ec, B5. split; [|split; reflexivity].
    change (next_round_of _) with ((rs_round st1 + 1) mod W64). rewrite B1. exact Ip2.
  - destruct (fail_round _ _ _ _ _) as [[s2 e2]|] eqn:F; [|discriminate].
    intros Hx. injection Hx as <- _.
    apply fail_round_spec in F as (_ & _ & _ & _ & _ & _ & _ & P & _ & C & S & _). apply Hfresh; assumption.
  - destruct (fail_round _ _ _ _ _) as [[s2 e2]|] eqn:F; [|discriminate].
    intros Hx. injection Hx as <- _.
    apply fail_round_spec in F as (_ & _ & _ & _ & _ & _ & _ & P & _ & C & S & _). apply Hfresh; assumption.
  - destruct (fail_round _ _ _ _ _) as [[s2 e2]|] eqn:F; [|discriminate].
    intros Hx. injection Hx as <- _.
    apply fail_round_spec in F as (_ & _ & _ & _ & _ & _ & _ & P & _ & C & S & _). apply Hfresh; assumption.
Qed.

(* a Normal block emitted by one finalization attempt: the rule held, the block carries the
   chosen commitment's roots, and that commitment is the own proposal, FOR THIS ROUND, of a
   primary worker of the committee *)
Definition normal_justified (prm : rt_params) (c : committee) (st' : rt_state) : Prop :=
  exists sc ec d,
    sc_commit sc = Some ec /\ rule c (rp_strag prm) d sc /\
    rs_root st' = lookup (ec_vote ec) (rp_roots prm) /\
    rs_io st' = lookup (ec_vote ec) (rp_ios prm) /\
    rs_msgs st' = lookup (ec_vote ec) (rp_mhs prm) /\
    ec_round ec = rs_round st' /\ ec_node ec = ec_sched ec /\
    In (ec_sched ec) (primary_nodes c).

Lemma try_finalize_normal_justified H prm c p st timeout st' evs :
  rs_pool st = Some p -> rs_committee st = Some c -> pool_ok st ->
  try_finalize H prm c p st timeout = TFOk st' evs ->
  (exists r, In (EvFinalized r) evs) -> rs_htype st' = HNormal ->
  normal_justified prm c st'.
Proof.
  intros Ep Ec I Htf [r Hev] Hn. unfold pool_ok in I. rewrite Ep, Ec in I.
  assert (Ipe : pool_inv c (next_round_of st) (fst (deciding H prm c p timeout))).
  { unfold deciding. pose proof (pool_inv_process c _ p (rp_strag prm) timeout I) as I'.
    destruct (process c p (rp_strag prm) timeout) as [p1 o1]. cbn [fst] in I'. destruct o1; cbn [fst]; assumption. }
  destruct Ipe as ((Ie & _) & Icr & _).
  apply try_finalize_shape in Htf. unfold tf_shape in Htf.
  set (pe := fst (deciding H prm c p timeout)) in *.
  set (te := snd (deciding H prm c p timeout)) in *.
  destruct (process c pe (rp_strag prm) te) as [pe' o] eqn:E. cbn [snd] in Htf.
  destruct o; try contradiction.
  - destruct Htf as (ec & Hc & Hr & _ & Hroot & _ & _ & _ & Hio & Hm & _).
    pose proof (process_ok_is_highest _ _ _ _ _ _ E) as Hsc.
    destruct (Icr _ _ _ Hsc Hc) as (K1 & K2 & K3).
    destruct (scheduler_rank_some _ _ _ _ K3) as [Kp _].
    exists sc, ec, (disc pe). repeat split; try assumption.
    + eapply finalize_only_if_rule; [exact Ie|exact E].
    + congruence.
  - destruct Htf as (_ & _ & _ & Hno & _). exfalso. apply (Hno _ Hev).
  - destruct Htf as (_ & Hf & _). congruence.
  - destruct Htf as (_ & Hf & _). congruence.
  - destruct Htf as (_ & Hf & _). congruence.
Qed.

(* ---------- one finalization attempt through getRuntimeState ---------- *)

Lemma try_finalize_round_pool_ok H prm st timeout st' evs :
  pool_ok st -> try_finalize_round H prm st timeout = EndOk st' evs ->
  pool_ok st' /\ rs_committee st' = rs_committee st /\
  ((exists r, In (EvFinalized r) evs) -> rs_htype st' = HNormal ->
     exists c, rs_committee st = Some c /\ normal_justified prm c st').
Proof.
  intros I. unfold try_finalize_round. destruct (rs_suspended st); [discriminate|].
  destruct (rs_committee st) as [c|] eqn:Ec; [|discriminate].
  destruct (rs_pool st) as [p|] eqn:Ep; [|discriminate].
  destruct (try_finalize H prm c p st timeout) as [s e| | | |] eqn:E; cbn [tf_end]; try discriminate.
  intros Hx. injection Hx as <- <-.
  destruct (try_finalize_pool_ok _ _ _ _ _ _ _ _ Ep Ec I E) as (A & B & _).
  split; [exact A|]. split; [exact B|]. intros Hev Hn. exists c. split; [reflexivity|].
  eapply try_finalize_normal_justified; eassumption.
Qed.

Definition fin_count (evs : list app_event) : N :=
  N.of_nat (length (filter (fun e => match e with EvFinalized _ => true | _ => false end) evs)).

Lemma fin_count_app a b : fin_count (a ++ b) = fin_count a + fin_count b.
Proof. unfold fin_count. rewrite filter_app, app_length. lia. Qed.

(* rounds: exactly one per emitted block (rounds far from 2^64) *)
Lemma try_finalize_rounds H prm c p st timeout st' evs :
  round_ok st ->
  try_finalize H prm c p st timeout = TFOk st' evs ->
  fin_count evs <= 1 /\ rs_round st' = rs_round st + fin_count evs.
Proof.
  intros Hr Htf. unfold try_finalize in Htf.
  destruct (tf_decide H prm c p st timeout) as [[[st1 p2] o2] ev] eqn:E.
  apply tf_decide_spec in E as (Sb & _ & _ & Hev). destruct Sb as (B1 & _).
  assert (Hev0 : fin_count ev = 0).
  { destruct Hev as [(-> & _)|(rank & -> & _)]; reflexivity. }
  assert (Hnr : next_round_of st1 = rs_round st + 1).
  { rewrite <- (next_round_small st Hr). unfold next_round_of. rewrite B1. reflexivity. }
  destruct o2; try discriminate.
  - destruct (sc_commit sc); [|discriminate].
    destruct (finalize_normal _ _ _ _ _ _ _) as [[s2 e2]|] eqn:F; [|discriminate].
    injection Htf as <- <-. apply finalize_normal_spec in F as (-> & F1 & _).
    rewrite fin_count_app, Hev0. cbn. split; [lia|]. rewrite F1, Hnr. reflexivity.
  - injection Htf as <- <-. rewrite Hev0. split; [lia|]. cbn [with_pool rs_round]. rewrite B1. lia.
  - destruct (fail_round _ _ _ _ _) as [[s2 e2]|] eqn:F; [|discriminate].
    injection Htf as <- <-. apply fail_round_spec in F as (-> & F1 & _).
    rewrite fin_count_app, Hev0. cbn. split; [lia|]. rewrite F1, Hnr. reflexivity.
  - destruct (fail_round _ _ _ _ _) as [[s2 e2]|] eqn:F; [|discriminate].
    injection Htf as <- <-. apply fail_round_spec in F as (-> & F1 & _).
    rewrite fin_count_app, Hev0. cbn. split; [lia|]. rewrite F1, Hnr. reflexivity.
  - destruct (fail_round _ _ _ _ _) as [[s2 e2]|] eqn:F; [|discriminate].
    injection Htf as <- <-. apply fail_round_spec in F as (-> & F1 & _).
    rewrite fin_count_app, Hev0. cbn. split; [lia|]. rewrite F1, Hnr. reflexivity.
Qed.

Lemma try_finalize_round_rounds H prm st timeout st' evs :
  round_ok st -> try_finalize_round H prm st timeout = EndOk st' evs ->
  fin_count evs <= 1 /\ rs_round st' = rs_round st + fin_count evs /\
  (fin_count evs = 1 -> rs_next_timeout st' = TimeoutNever).
Proof.
  intros Hr. unfold try_finalize_round. destruct (rs_suspended st); [discriminate|].
  destruct (rs_committee st) as [c|]; [|discriminate]. destruct (rs_pool st) as [p|]; [|discriminate].
  destruct (try_finalize H prm c p st timeout) as [s e| | | |] eqn:E; cbn [tf_end]; try discriminate.
  intros Hx. injection Hx as <- <-. destruct (try_finalize_rounds _ _ _ _ _ _ _ _ Hr E) as [A B].
  split; [exact A|]. split; [exact B|]. intros H1.
  apply try_finalize_shape in E. unfold tf_shape in E.
  destruct (snd (process c _ (rp_strag prm) _)); try contradiction.
  - destruct E as (ec & _ & _ & _ & _ & _ & T & _). exact T.
  - destruct E as (_ & _ & _ & Hno & _). exfalso.
    assert (fin_count e = 0); [|lia]. unfold fin_count.
    assert (Hf : filter (fun x => match x with EvFinalized _ => true | _ => false end) e = []); [|rewrite Hf; reflexivity].
    clear - Hno. induction e as [|x r IH]; [reflexivity|]. cbn [filter]. destruct x as [rr|a b d].
    + exfalso. apply (Hno rr). left. reflexivity.
    + apply IH. intros q Hq. apply (Hno q). right. exact Hq.
  - destruct E as (_ & _ & _ & _ & T & _). exact T.
  - destruct E as (_ & _ & _ & _ & T & _). exact T.
  - destruct E as (_ & _ & _ & _ & T & _). exact T.
Qed.

(* EndBlock: at most one runtime block; Normal only when justified *)
Lemma end_block_spec H prm st fin st' evs :
  pool_ok st -> round_ok st -> (0 < H)%Z ->
  end_block H prm st fin = EndOk st' evs ->
  pool_ok st' /\ rs_committee st' = rs_committee st /\
  fin_count evs <= 1 /\ rs_round st' = rs_round st + fin_count evs /\
  (fin_count evs = 1 -> rs_htype st' = HNormal ->
     exists c, rs_committee st = Some c /\ normal_justified prm c st').
Proof.
  intros I Hr Hpos. unfold end_block.
  set (r1 := if fin then try_finalize_round H prm st false else EndOk st []).
  assert (S1 : forall s e, r1 = EndOk s e ->
            pool_ok s /\ rs_committee s = rs_committee st /\ fin_count e <= 1 /\
            rs_round s = rs_round st + fin_count e /\
            (fin_count e = 1 -> rs_next_timeout s = TimeoutNever) /\
            (fin_count e = 1 -> rs_htype s = HNormal -> exists c, rs_committee st = Some c /\ normal_justified prm c s)).
  { unfold r1. destruct fin; intros s e Hx.
    - destruct (try_finalize_round_pool_ok _ _ _ _ _ _ I Hx) as (A & B & C).
      destruct (try_finalize_round_rounds _ _ _ _ _ _ Hr Hx) as (D & E & F).
      repeat split; try assumption. intros H1 Hn. apply C; [|exact Hn].
      unfold fin_count in H1. destruct (filter _ e) as [|x l] eqn:Ef; [cbn in H1; lia|].
      assert (Hin : In x (filter (fun e0 => match e0 with EvFinalized _ => true | _ => false end) e)) by (rewrite Ef; left; reflexivity).
      apply filter_In in Hin as [Hin Hx']. destruct x as [rr|]; [|discriminate Hx']. exists rr. exact Hin.
    - injection Hx as <- <-. cbn. repeat split; try assumption; try lia; try reflexivity. }
  destruct r1 as [st1 e1|cd]; [|discriminate].
  destruct (S1 st1 e1 eq_refl) as (A & B & C & D & E & F).
  destruct ((rs_next_timeout st1 =? H)%Z && negb (H =? TimeoutNever)%Z) eqn:Ec.
  - (* the round timer fired: the first attempt emitted nothing *)
    assert (H0 : fin_count e1 = 0).
    { destruct (N.eq_dec (fin_count e1) 1) as [H1|H1]; [|lia].
      apply E in H1. rewrite H1 in Ec. unfold TimeoutNever in Ec. lia. }
    destruct (try_finalize_round H prm st1 true) as [st2 e2|cd] eqn:E2; [|discriminate].
    intros Hx. injection Hx as <- <-.
    assert (Hr1 : round_ok st1) by (unfold round_ok in *; lia).
    destruct (try_finalize_round_pool_ok _ _ _ _ _ _ A E2) as (A2 & B2 & C2).
    destruct (try_finalize_round_rounds _ _ _ _ _ _ Hr1 E2) as (D2 & E2' & _).
    rewrite fin_count_app, H0. repeat split; try assumption; try congruence; try lia.
    intros H1 Hn. rewrite <- B. apply C2; [|exact Hn].
    assert (H1' : fin_count e2 = 1) by lia. unfold fin_count in H1'.
    destruct (filter _ e2) as [|x l] eqn:Ef; [cbn in H1'; lia|].
    assert (Hin : In x (filter (fun e0 => match e0 with EvFinalized _ => true | _ => false end) e2)) by (rewrite Ef; left; reflexivity).
    apply filter_In in Hin as [Hin Hx']. destruct x as [rr|]; [|discriminate Hx']. exists rr. exact Hin.
  - intros Hx. injection Hx as <- <-. repeat split; assumption.
Qed.

(* ---------- one consensus block ---------- *)

Definition block_ok (st : rt_state) (b : ablock) : Prop :=
  rs_round st + 2 < ROUND_BOUND /\ (0 < ab_height b)%Z /\
  (forall c, ab_epoch b = Some (Some c) -> small_c c).

Lemma begin_block_spec prm st ep :
  pool_ok st -> committee_ok st -> rs_round st + 2 < ROUND_BOUND ->
  (forall c, ep = Some (Some c) -> small_c c) ->
  let st1 := fst (begin_block prm st ep) in
  let e := snd (begin_block prm st ep) in
  pool_ok st1 /\ committee_ok st1 /\ fin_count e <= 1 /\ rs_round st1 = rs_round st + fin_count e /\
  (fin_count e = 1 -> rs_htype st1 <> HNormal /\ rs_root st1 = rs_root st /\ rs_io st1 = rp_empty prm /\
                      rs_msgs st1 = rp_empty prm /\ rs_prev st1 = lookup (rs_round st) (rp_hashes prm)).
Proof.
  intros I Hc Hr Hsm. cbn zeta.
  assert (HR : (rs_round st + 1) mod W64 = rs_round st + 1).
  { apply N.mod_small. unfold ROUND_BOUND, W64 in *. lia. }
  destruct ep as [[c|]|]; cbn [begin_block].
  - pose proof (finalize_block_fields prm st HEpochTransition None) as F. cbn zeta in F.
    destruct (finalize_block prm st HEpochTransition None) as [s e]. cbn [fst snd] in *.
    destruct F as (_ & Fr & Ft & Fpv & _ & _ & Fp & Fe & Fh). destruct (Fh ltac:(discriminate)) as (R1 & R2 & R3).
    subst e. repeat split.
    + unfold pool_ok. cbn [rs_pool rs_committee]. rewrite Fp. apply pool_inv_new.
    + intros c' Hx. cbn in Hx. injection Hx as <-. apply Hsm. reflexivity.
    + cbn. lia.
    + cbn [rs_round]. rewrite Fr, HR. reflexivity.
    + cbn [rs_htype]. rewrite Ft. discriminate.
    + exact R1. + exact R2. + exact R3. + exact Fpv.
  - pose proof (finalize_block_fields prm st HSuspended None) as F. cbn zeta in F.
    destruct (finalize_block prm st HSuspended None) as [s e]. cbn [fst snd] in *.
    destruct F as (_ & Fr & Ft & Fpv & _ & _ & Fp & Fe & Fh). destruct (Fh ltac:(discriminate)) as (R1 & R2 & R3).
    subst e. repeat split.
    + unfold pool_ok. cbn [rs_pool rs_committee]. rewrite Fp. exact Logic.I.
    + intros c' Hx. cbn in Hx. discriminate Hx.
    + cbn. lia.
    + cbn [rs_round]. rewrite Fr, HR. reflexivity.
    + cbn [rs_htype]. rewrite Ft. discriminate.
    + exact R1. + exact R2. + exact R3. + exact Fpv.
  - cbn [fst snd]. assert (F0 : fin_count (@nil app_event) = 0) by reflexivity. rewrite F0.
    repeat split; try assumption; try lia; intros; lia.
Qed.

Lemma app_block_spec prm st b :
  pool_ok st -> committee_ok st -> block_ok st b ->
  let st' := fst (app_block prm st b) in
  let o := snd (app_block prm st b) in
  pool_ok st' /\ committee_ok st' /\
  fin_count (bo_begin o) <= 1 /\ fin_count (bo_end o) <= 1 /\
  rs_round st' = rs_round st + fin_count (bo_begin o) + fin_count (bo_end o) /\
  (fin_count (bo_end o) = 1 -> rs_htype st' = HNormal ->
     exists c, rs_committee st' = Some c /\ normal_justified prm c st').
Proof.
  intros I Hc (Hr & Hpos & Hsm). cbn zeta. unfold app_block.
  pose proof (begin_block_spec prm st (ab_epoch b) I Hc Hr Hsm) as B. cbn zeta in B.
  destruct (begin_block prm st (ab_epoch b)) as [st1 eb]. cbn [fst snd] in B.
  destruct B as (I1 & Hc1 & Bc & Br & _).
  assert (Hr1 : round_ok st1) by (unfold round_ok; lia).
  destruct (run_txs (ab_height b) prm st1 (ab_txs b) false) as [[st2 codes] fin] eqn:Et.
  destruct (run_txs_pool_ok _ _ _ _ _ _ _ _ Et I1 Hc1 Hr1) as (I2 & Hc2 & Rr2).
  assert (Hr2 : round_ok st2) by (unfold round_ok; lia).
  destruct (end_block (ab_height b) prm st2 fin) as [s e|cd] eqn:Ee; cbn [fst snd bo_begin bo_end].
  - destruct (end_block_spec _ _ _ _ _ _ I2 Hr2 Hpos Ee) as (A & B' & C & D & E).
    split; [exact A|]. split; [intros c Hx; apply Hc2; rewrite <- B'; exact Hx|].
    split; [exact Bc|]. split; [exact C|]. split; [lia|].
    intros H1 Hn. destruct (E H1 Hn) as (c & Hcc & J). exists c. split; [congruence|exact J].
  - assert (F0 : fin_count (@nil app_event) = 0) by reflexivity. rewrite F0.
    split; [exact I2|]. split; [exact Hc2|]. split; [exact Bc|]. split; [lia|]. split; [lia|].
    intros Hx. lia.
Qed.

(* ---------- arbitrary histories ---------- *)

Fixpoint history_ok (st_round : N) (bs : list ablock) : Prop :=
  match bs with
  | [] => True
  | b :: r => st_round + 2 < ROUND_BOUND /\ (0 < ab_height b)%Z /\
              (forall c, ab_epoch b = Some (Some c) -> small_c c) /\
              (forall d, d <= 2 -> history_ok (st_round + d) r)
  end.

Lemma app_states_inv prm bs : forall st,
  pool_ok st -> committee_ok st -> history_ok (rs_round st) bs ->
  pool_ok (app_states prm st bs) /\ committee_ok (app_states prm st bs).
Proof.
  unfold app_states. induction bs as [|b r IH]; intros st I Hc Hh; cbn [fold_left]; [split; assumption|].
  destruct Hh as (H1 & H2 & H3 & H4).
  pose proof (app_block_spec prm st b I Hc (conj H1 (conj H2 H3))) as S. cbn zeta in S.
  destruct S as (A & B & C & D & E & _). apply IH; try assumption.
  rewrite E, <- N.add_assoc. apply H4. lia.
Qed.

Lemma pool_ok_new prm round root : pool_ok (new_runtime prm round root) /\ committee_ok (new_runtime prm round root).
Proof. split; [exact I|]. intros c H. discriminate H. Qed.

(* over every history: a Normal block emitted in EndBlock is justified by the rule *)
Theorem normal_block_only_if_rule_history prm bs b round root :
  history_ok round (bs ++ [b]) ->
  let st := app_states prm (new_runtime prm round root) bs in
  let st' := fst (app_block prm st b) in
  let o := snd (app_block prm st b) in
  fin_count (bo_end o) = 1 -> rs_htype st' = HNormal ->
  exists c, rs_committee st' = Some c /\ normal_justified prm c st'.
Proof.
  intros Hh. cbn zeta.
  assert (Hsplit : forall l st0, history_ok st0 (l ++ [b]) ->
            history_ok st0 l /\ forall st1, pool_ok st1 -> committee_ok st1 -> rs_round st1 = st0 -> True) by (intros; split; [|trivial];
            revert st0 H; induction l as [|x l IHl]; intros st0 H; cbn in *; [exact I|];
            destruct H as (A & B & C & D); repeat split; try assumption; intros d Hd; apply IHl; apply D; exact Hd).
  (* generalize over the start state *)
  assert (G : forall l st0, pool_ok st0 -> committee_ok st0 -> history_ok (rs_round st0) (l ++ [b]) ->
            let st := app_states prm st0 l in
            fin_count (bo_end (snd (app_block prm st b))) = 1 -> rs_htype (fst (app_block prm st b)) = HNormal ->
            exists c, rs_committee (fst (app_block prm st b)) = Some c /\ normal_justified prm c (fst (app_block prm st b))).
  { clear. unfold app_states. induction l as [|x l IHl]; intros st0 I Hc Hh; cbn [fold_left app].
    - cbn [app history_ok] in Hh. destruct Hh as (H1 & H2 & H3 & _).
      pose proof (app_block_spec prm st0 b I Hc (conj H1 (conj H2 H3))) as S. cbn zeta in S.
      destruct S as (_ & _ & _ & _ & _ & J). exact J.
    - cbn [app history_ok] in Hh. destruct Hh as (H1 & H2 & H3 & H4).
      pose proof (app_block_spec prm st0 x I Hc (conj H1 (conj H2 H3))) as S. cbn zeta in S.
      destruct S as (A & B & C & D & E & _). apply IHl; try assumption.
      rewrite E, <- N.add_assoc. apply H4. lia. }
  destruct (pool_ok_new prm round root) as [P Q]. apply (G bs _ P Q). exact Hh.
Qed.

(* rounds increase by exactly one per emitted runtime block, over every history *)
Theorem rounds_increase_by_one_per_block prm bs : forall st,
  pool_ok st -> committee_ok st -> history_ok (rs_round st) bs ->
  rs_round (app_states prm st bs) =
  rs_round st + fold_right (fun o acc => fin_count (bo_begin o) + fin_count (bo_end o) + acc) 0 (app_run prm st bs).
Proof.
  unfold app_states. induction bs as [|b r IH]; intros st I Hc Hh; cbn [fold_left app_run fold_right]; [lia|].
  destruct Hh as (H1 & H2 & H3 & H4).
  pose proof (app_block_spec prm st b I Hc (conj H1 (conj H2 H3))) as S. cbn zeta in S.
  destruct (app_block prm st b) as [st1 o] eqn:E. cbn [fst snd] in *.
  destruct S as (A & B & C & D & Er & _). cbn [fold_right].
  rewrite IH; try assumption; [rewrite Er; lia|].
  rewrite Er, <- N.add_assoc. apply H4. lia.
Qed.

(* ---------- stale commitments ---------- *)

(* a transaction containing a commitment whose header round is not the round being decided is
   rejected as a whole and changes nothing *)
Lemma stale_commit_rejected H prm st vcs vc :
  In vc vcs -> vc_round vc <> next_round_of st ->
  snd (fst (executor_commit H prm st vcs)) <> 0 /\ fst (fst (executor_commit H prm st vcs)) = st.
Proof.
  intros Hin Hne.
  assert (Hcode : snd (fst (executor_commit H prm st vcs)) <> 0).
  { unfold executor_commit. destruct vcs as [|v0 r]; [destruct Hin|].
    destruct (rs_suspended st); [cbn; discriminate|].
    destruct (rs_committee st) as [c|]; [|cbn; discriminate].
    destruct (rs_pool st) as [p|]; [|cbn; discriminate].
    destruct (commit_all _ _ _ c p (v0 :: r)) as [p1 code] eqn:E.
    destruct (code =? 0) eqn:Ec; cbn [fst snd]; [|lia].
    exfalso. apply N.eqb_eq in Ec. subst code. apply commit_all_ok in E as [F _].
    rewrite Forall_forall in F. specialize (F vc Hin). apply verify_ok_header in F as (_ & _ & Rr & _).
    apply Hne. exact Rr. }
  split; [exact Hcode|]. apply executor_commit_all_or_nothing. exact Hcode.
Qed.

(* after a block was emitted (failed round or not) a commitment made for the round that just
   ended cannot enter the pool of the next round, and that pool starts empty *)
Theorem no_stale_commit_after_block H prm c p st timeout st' evs vcs vc :
  round_ok st ->
  try_finalize H prm c p st timeout = TFOk st' evs -> fin_count evs = 1 ->
  In vc vcs -> vc_round vc = next_round_of st ->
  rs_pool st' = Some new_pool /\
  snd (fst (executor_commit H prm st' vcs)) <> 0 /\ fst (fst (executor_commit H prm st' vcs)) = st'.
Proof.
  intros Hr Htf H1 Hin Hv.
  destruct (try_finalize_rounds _ _ _ _ _ _ _ _ Hr Htf) as [_ Rr]. rewrite H1 in Rr.
  assert (Hp : rs_pool st' = Some new_pool).
  { apply try_finalize_shape in Htf. unfold tf_shape in Htf.
    destruct (snd (process c _ (rp_strag prm) _)); try contradiction.
    - destruct Htf as (ec & _ & _ & _ & _ & P & _). exact P.
    - destruct Htf as (A & _). lia.
    - destruct Htf as (_ & _ & _ & P & _). exact P.
    - destruct Htf as (_ & _ & _ & P & _). exact P.
    - destruct Htf as (_ & _ & _ & P & _). exact P. }
  split; [exact Hp|]. apply stale_commit_rejected with (vc := vc); [exact Hin|].
  rewrite Hv. unfold next_round_of. rewrite Rr.
  unfold round_ok, ROUND_BOUND in Hr. rewrite !N.mod_small by (unfold W64; lia). lia.
Qed.
