(* C09 -- proofs about Auth/Model.v.  No hypotheses on the abstract pieces of
   [cfg]: hash, signature predicate, decoders, ledger are arbitrary. *)
From Verif Require Import Lib.Base Auth.Model.

(* ------------------------------------------------------------------ *)
(* Lists                                                               *)
(* ------------------------------------------------------------------ *)

Lemma is_prefix_true a b : is_prefix a b = true -> exists t, b = a ++ t.
Proof.
  revert b; induction a as [|x a IH]; intros b Hp.
  - exists b; reflexivity.
  - destruct b as [|y b]; cbn [is_prefix] in Hp; [discriminate|].
    apply andb_true_iff in Hp as [Hxy Hp]. apply N.eqb_eq in Hxy. subst y.
    destruct (IH _ Hp) as [t ->]. exists t; reflexivity.
Qed.

Lemma app_eq_comparable (a b x y : bytes) : a ++ x = b ++ y -> comparable a b = true.
Proof.
  revert b; induction a as [|u a IH]; intros b Heq.
  - reflexivity.
  - destruct b as [|v b].
    + unfold comparable. cbn [is_prefix]. apply orb_true_r.
    + cbn [app] in Heq. injection Heq as -> Heq. apply IH in Heq.
      unfold comparable in *. cbn [is_prefix]. rewrite N.eqb_refl. exact Heq.
Qed.

Lemma comparable_sym a b : comparable a b = comparable b a.
Proof. unfold comparable. apply orb_comm. Qed.

Lemma app_inj_len (a b x y : bytes) :
  length a = length b -> a ++ x = b ++ y -> a = b /\ x = y.
Proof.
  revert b; induction a as [|u a IH]; intros [|v b] Hl Heq; cbn in Hl; try discriminate.
  - split; [reflexivity|exact Heq].
  - cbn [app] in Heq. injection Heq as -> Heq. injection Hl as Hl.
    destruct (IH _ Hl Heq) as [-> ->]. split; reflexivity.
Qed.

Lemma NoDup_map_inj_on {A B} (f : A -> B) (l : list A) :
  (forall x y, In x l -> In y l -> f x = f y -> x = y) -> NoDup l -> NoDup (map f l).
Proof.
  induction l as [|a l IH]; intros Hinj Hnd; cbn [map]; [constructor|].
  inversion Hnd as [|? ? Hni Hnd']; subst. constructor.
  - intros Hin. apply in_map_iff in Hin as [y [Hy Hin]].
    assert (y = a) by (apply Hinj; [right; exact Hin|left; reflexivity|exact Hy]).
    subst y. contradiction.
  - apply IH; [|exact Hnd']. intros x y Hx Hy. apply Hinj; right; assumption.
Qed.

(* ------------------------------------------------------------------ *)
(* Domain separation of the signed preimage                            *)
(* ------------------------------------------------------------------ *)

Section DomSep.
  Variable SEP : bytes.

  Lemma raw_context_head c d h : exists t, raw_context SEP c d h = head SEP c ++ t.
  Proof.
    destruct c as [[b ch] [[sfx mx]|]]; unfold raw_context, head, cbase, cdyn, cchain; cbn [fst snd].
    - exists (d ++ (if ch then SEP ++ h else [])). rewrite <- !app_assoc. reflexivity.
    - destruct ch.
      + exists h. cbn [app]. rewrite <- !app_assoc. reflexivity.
      + exists []. cbn [app]. rewrite !app_nil_r. reflexivity.
  Qed.

  Lemma prefix_free_in l c1 c2 :
    prefix_free_b SEP l = true -> In c1 l -> In c2 l ->
    c1 = c2 \/ comparable (head SEP c1) (head SEP c2) = false.
  Proof.
    induction l as [|c r IH]; intros Hpf H1 H2; [contradiction|].
    cbn [prefix_free_b] in Hpf. apply andb_true_iff in Hpf as [Hall Hr].
    rewrite forallb_forall in Hall.
    destruct H1 as [->|H1], H2 as [->|H2].
    - left; reflexivity.
    - right. specialize (Hall _ H2). apply negb_true_iff in Hall. exact Hall.
    - right. specialize (Hall _ H1). apply negb_true_iff in Hall.
      rewrite comparable_sym. exact Hall.
    - apply IH; assumption.
  Qed.

  (* the preimage determines the context, the message and the parts of the
     context that are in use, provided the dynamic strings have equal length
     and the chain contexts have equal length *)
  Lemma preimage_inj l c1 c2 d1 d2 h1 h2 m1 m2 :
    prefix_free_b SEP l = true -> In c1 l -> In c2 l ->
    length d1 = length d2 -> length h1 = length h2 ->
    signing_preimage SEP c1 d1 h1 m1 = signing_preimage SEP c2 d2 h2 m2 ->
    c1 = c2 /\ m1 = m2 /\ (cdyn c1 <> None -> d1 = d2) /\ (cchain c1 = true -> h1 = h2).
  Proof.
    intros Hpf H1 H2 Hd Hh Heq.
    assert (Hc : c1 = c2).
    { destruct (prefix_free_in _ _ _ Hpf H1 H2) as [E|Hnc]; [exact E|].
      exfalso. unfold signing_preimage in Heq.
      destruct (raw_context_head c1 d1 h1) as [t1 E1].
      destruct (raw_context_head c2 d2 h2) as [t2 E2].
      rewrite E1, E2, <- !app_assoc in Heq.
      apply app_eq_comparable in Heq. congruence. }
    subst c2. split; [reflexivity|].
    unfold signing_preimage, raw_context in Heq.
    destruct c1 as [[b ch] [[sfx mx]|]]; unfold cbase, cdyn, cchain in *; cbn [fst snd] in *.
    - rewrite <- !app_assoc in Heq. apply app_inv_head in Heq. apply app_inv_head in Heq.
      apply app_inj_len in Heq; [|exact Hd]. destruct Heq as [-> Heq].
      destruct ch.
      + rewrite <- !app_assoc in Heq. apply app_inv_head in Heq.
        apply app_inj_len in Heq; [|exact Hh]. destruct Heq as [-> ->].
        repeat split; reflexivity.
      + cbn [app] in Heq. subst. repeat split; try reflexivity. discriminate.
    - cbn [app] in Heq. rewrite <- !app_assoc in Heq. apply app_inv_head in Heq.
      destruct ch.
      + rewrite <- !app_assoc in Heq. apply app_inv_head in Heq.
        apply app_inj_len in Heq; [|exact Hh]. destruct Heq as [-> ->].
        repeat split; try reflexivity. intros X; contradiction.
      + cbn [app] in Heq. subst. repeat split; try reflexivity.
        * intros X; contradiction.
        * discriminate.
  Qed.

  Definition collision (Hf : bytes -> bytes) : Prop := exists x y, x <> y /\ Hf x = Hf y.

  Lemma digest_domain_separation (Hf : bytes -> bytes) l c1 c2 d1 d2 h1 h2 m1 m2 :
    prefix_free_b SEP l = true -> In c1 l -> In c2 l ->
    length d1 = length d2 -> length h1 = length h2 ->
    Hf (signing_preimage SEP c1 d1 h1 m1) = Hf (signing_preimage SEP c2 d2 h2 m2) ->
    (c1 = c2 /\ m1 = m2 /\ (cdyn c1 <> None -> d1 = d2) /\ (cchain c1 = true -> h1 = h2))
    \/ collision Hf.
  Proof.
    intros Hpf H1 H2 Hd Hh Heq.
    destruct (list_eq_dec N.eq_dec (signing_preimage SEP c1 d1 h1 m1)
                (signing_preimage SEP c2 d2 h2 m2)) as [E|NE].
    - left. eapply preimage_inj; eassumption.
    - right. exists (signing_preimage SEP c1 d1 h1 m1), (signing_preimage SEP c2 d2 h2 m2).
      split; assumption.
  Qed.
End DomSep.

(* ------------------------------------------------------------------ *)
(* deliver                                                             *)
(* ------------------------------------------------------------------ *)

Lemma nonce_in_aset_same a v ns : nonce_in (aset a v ns) a = v.
Proof. unfold nonce_in. rewrite aget_aset_same. reflexivity. Qed.
Lemma nonce_in_aset_other a a' v ns : a' <> a -> nonce_in (aset a v ns) a' = nonce_in ns a'.
Proof. intros Hne. unfold nonce_in. rewrite aget_aset_other by exact Hne. reflexivity. Qed.

Section DeliverProofs.
  Context {L Raw : Type}.
  Variable C : cfg L Raw.

  Lemma post_spec ns l raw e t b :
    nonces (fst (post C ns l raw e t b)) = ns /\ exists o, snd (post C ns l raw e t b) = RPost b o.
  Proof.
    unfold post.
    destruct (gas_size_ok C l raw t); cbn [negb].
    2:{ split; [reflexivity|eexists; reflexivity]. }
    destruct (gas_price_ok C t); cbn [negb].
    2:{ split; [reflexivity|eexists; reflexivity]. }
    destruct (exec C l (e_pk e) t) as [l' ok]. split; [reflexivity|eexists; reflexivity].
  Qed.

  Lemma decode_DTx raw e t :
    decode C raw = DTx e t ->
    dec_env C raw = Some e /\ verify C e = true /\ dec_tx C (e_blob e) = Some t.
  Proof.
    unfold decode.
    destruct ((0 <? max_tx_size C) && (max_tx_size C <? raw_len C raw)); [discriminate|].
    destruct (dec_env C raw) as [e0|]; [|discriminate].
    destruct (verify C e0) eqn:Hv; cbn [negb]; [|discriminate].
    destruct (dec_tx C (e_blob e0)) as [t0|] eqn:Ht; [|discriminate].
    destruct (bytes_eqb (t_method t0) []); [discriminate|].
    destruct (is_system C (t_method t0)); [discriminate|].
    destruct (has_app C (t_method t0)); cbn [negb]; [|discriminate].
    intros X; injection X as <- <-. repeat split; assumption.
  Qed.

  Lemma decode_DRej_not_auth raw r :
    decode C raw = DRej r -> authenticated r = false /\ exec_reached r = false.
  Proof.
    unfold decode.
    destruct ((0 <? max_tx_size C) && (max_tx_size C <? raw_len C raw)); [intros X; injection X as <-; split; reflexivity|].
    destruct (dec_env C raw) as [e0|]; [|intros X; injection X as <-; split; reflexivity].
    destruct (verify C e0); cbn [negb]; [|intros X; injection X as <-; split; reflexivity].
    destruct (dec_tx C (e_blob e0)) as [t0|]; [|intros X; injection X as <-; split; reflexivity].
    destruct (bytes_eqb (t_method t0) []); [intros X; injection X as <-; split; reflexivity|].
    destruct (is_system C (t_method t0)); [intros X; injection X as <-; split; reflexivity|].
    destruct (has_app C (t_method t0)); cbn [negb]; [discriminate|intros X; injection X as <-; split; reflexivity].
  Qed.

  (* everything an authenticated delivery implies *)
  Definition auth_facts (s s' : state L) (raw : Raw) (e : envelope) (t : tx) : Prop :=
    dec_env C raw = Some e /\ verify C e = true /\ dec_tx C (e_blob e) = Some t /\
    is_critical C (t_method t) = false /\
    reserved C (addr_of C (e_pk e)) = false /\
    t_nonce t = nonce_of s (addr_of C (e_pk e)) /\
    nonces s' = aset (addr_of C (e_pk e)) ((nonce_of s (addr_of C (e_pk e)) + 1) mod U64) (nonces s).

  Lemma deliver_cases s raw :
    (authenticated (snd (deliver C s raw)) = true /\
       exists e t, auth_facts s (fst (deliver C s raw)) raw e t)
    \/ (authenticated (snd (deliver C s raw)) = false /\
        nonces (fst (deliver C s raw)) = nonces s /\
        ((forall m, is_critical C m = false) ->
           fst (deliver C s raw) = s /\ exec_reached (snd (deliver C s raw)) = false)).
  Proof.
    unfold deliver.
    destruct (decode C raw) as [r|e t] eqn:Hd.
    - right. cbn [fst snd]. destruct (decode_DRej_not_auth _ _ Hd) as [X1 X2].
      split; [exact X1|]. split; [reflexivity|]. intros _; split; [reflexivity|exact X2].
    - destruct (is_critical C (t_method t)) eqn:Hcrit.
      + right. destruct (post_spec (nonces s) (rest s) raw e t false) as [Hn [o Ho]].
        rewrite Ho. split; [reflexivity|]. split; [exact Hn|].
        intros Hall. rewrite Hall in Hcrit. discriminate.
      + cbv zeta.
        destruct (reserved C (addr_of C (e_pk e))) eqn:Hres.
        { right. cbn [fst snd]. repeat split; reflexivity. }
        destruct (nonce_of s (addr_of C (e_pk e)) =? t_nonce t) eqn:Hnon; cbn [negb].
        2:{ right. cbn [fst snd]. repeat split; reflexivity. }
        destruct (fee_ok C (rest s) (addr_of C (e_pk e)) (fee_of t)); cbn [negb].
        2:{ right. cbn [fst snd]. repeat split; reflexivity. }
        destruct (fee_move_ok C (rest s) (addr_of C (e_pk e)) (fee_of t)); cbn [negb].
        2:{ right. cbn [fst snd]. repeat split; reflexivity. }
        left.
        match goal with |- context [post C ?ns ?l raw e t true] =>
          destruct (post_spec ns l raw e t true) as [Hn [o Ho]] end.
        rewrite Ho. split; [reflexivity|].
        exists e, t. apply decode_DTx in Hd. destruct Hd as [H1 [H2 H3]].
        apply N.eqb_eq in Hnon.
        unfold auth_facts. repeat split; try assumption. symmetry; exact Hnon.
  Qed.

  Lemma auth_facts_info s s' raw e t :
    auth_facts s s' raw e t -> auth_info C raw = Some (addr_of C (e_pk e), t_nonce t).
  Proof.
    intros [H1 [_ [H3 _]]]. unfold auth_info. rewrite H1, H3. reflexivity.
  Qed.

  (* ---------- state invariant: nonces are uint64 ---------- *)
  Definition wf (s : state L) : Prop := forall a, nonce_of s a < U64.

  Lemma u64_pos : 0 < U64. Proof. reflexivity. Qed.

  Lemma step_wf s o : wf s -> wf (step C s o).
  Proof.
    intros Hwf. destruct o as [raw|g|]; cbn [step]; [| exact Hwf | exact Hwf].
    destruct (deliver_cases s raw) as [[_ [e [t Hf]]]|[_ [Hn _]]].
    - destruct Hf as [_ [_ [_ [_ [_ [_ Hn]]]]]]. intros a. unfold nonce_of. rewrite Hn.
      destruct (N.eq_dec a (addr_of C (e_pk e))) as [->|Hne].
      + rewrite nonce_in_aset_same. apply N.mod_lt. discriminate.
      + rewrite nonce_in_aset_other by exact Hne. apply Hwf.
    - intros a. unfold nonce_of. rewrite Hn. apply Hwf.
  Qed.

  Lemma run_wf s ops : wf s -> wf (run C s ops).
  Proof.
    revert s; induction ops as [|o r IH]; intros s Hwf; [exact Hwf|].
    cbn [run fold_left]. apply IH. apply step_wf. exact Hwf.
  Qed.

  (* ---------- nonce_monotone ---------- *)
  Lemma other_ops_keep_nonces s o :
    (forall raw, o <> OTx raw) -> nonces (step C s o) = nonces s.
  Proof.
    intros Hno. destruct o as [raw|g|]; [exfalso; eapply Hno; reflexivity| reflexivity | reflexivity].
  Qed.

  Lemma tx_changes_only_signer_nonce s raw a :
    nonce_of (step C s (OTx raw)) a = nonce_of s a
    \/ (authenticated (snd (deliver C s raw)) = true /\
        exists e t, auth_facts s (fst (deliver C s raw)) raw e t /\ a = addr_of C (e_pk e) /\
          nonce_of (step C s (OTx raw)) a = (nonce_of s a + 1) mod U64).
  Proof.
    cbn [step]. destruct (deliver_cases s raw) as [[Ha [e [t Hf]]]|[_ [Hn _]]].
    - destruct (N.eq_dec a (addr_of C (e_pk e))) as [->|Hne].
      + right. split; [exact Ha|]. exists e, t. split; [exact Hf|]. split; [reflexivity|].
        destruct Hf as [_ [_ [_ [_ [_ [_ Hn]]]]]]. unfold nonce_of at 1. rewrite Hn.
        apply nonce_in_aset_same.
      + left. destruct Hf as [_ [_ [_ [_ [_ [_ Hn]]]]]]. unfold nonce_of at 1. rewrite Hn.
        apply nonce_in_aset_other. exact Hne.
    - left. unfold nonce_of. rewrite Hn. reflexivity.
  Qed.


  Lemma nonce_monotone s o :
    ((forall raw, o <> OTx raw) -> nonces (step C s o) = nonces s) /\
    (forall raw a, o = OTx raw ->
       nonce_of (step C s o) a = nonce_of s a
       \/ (authenticated (snd (deliver C s raw)) = true /\
           nonce_of (step C s o) a = (nonce_of s a + 1) mod U64)).
  Proof.
    split; [apply other_ops_keep_nonces|]. intros raw a ->.
    destruct (tx_changes_only_signer_nonce s raw a) as [X|[X [e [t [_ [_ Y]]]]]];
      [left; exact X|right; split; [exact X|exact Y]].
  Qed.

  (* ---------- the trace of authenticated transactions ---------- *)
  Lemma of_addr_app a x y : of_addr a (x ++ y) = of_addr a x ++ of_addr a y.
  Proof. unfold of_addr. rewrite filter_app, map_app. reflexivity. Qed.

  Lemma trace_app s x y : trace C s (x ++ y) = trace C s x ++ trace C (run C s x) y.
  Proof.
    revert s; induction x as [|o r IH]; intros s; [reflexivity|].
    cbn [app trace run fold_left]. rewrite IH, <- app_assoc. reflexivity.
  Qed.

  Lemma run_app s x y : run C s (x ++ y) = run C (run C s x) y.
  Proof. unfold run. apply fold_left_app. Qed.

  Lemma trace_consecutive s ops a :
    wf s ->
    exists k, of_addr a (trace C s ops)
              = map (fun i => (nonce_of s a + N.of_nat i) mod U64) (seq 0 k).
  Proof.
    revert s; induction ops as [|o r IH]; intros s Hwf.
    - exists O. reflexivity.
    - cbn [trace]. rewrite of_addr_app.
      destruct (IH (step C s o) (step_wf s o Hwf)) as [k Hk]. rewrite Hk. clear Hk.
      destruct o as [raw|g|].
      + destruct (tx_changes_only_signer_nonce s raw a) as [Hsame|[Ha [e [t [Hf [-> Hinc]]]]]].
        * (* this tx is not an authenticated tx of [a] *)
          rewrite Hsame.
          destruct (deliver_cases s raw) as [[Ha [e [t Hf]]]|[Ha _]].
          -- rewrite Ha, (auth_facts_info _ _ _ _ _ Hf).
             destruct (N.eq_dec (addr_of C (e_pk e)) a) as [E|NE].
             ++ (* then the nonce did change unless U64 = 1: impossible *)
                exfalso. destruct Hf as [_ [_ [_ [_ [_ [_ Hn]]]]]].
                cbn [step] in Hsame. unfold nonce_of in Hsame at 1. rewrite Hn, <- E in Hsame.
                rewrite nonce_in_aset_same in Hsame. fold (nonce_of s (addr_of C (e_pk e))) in Hsame.
                specialize (Hwf (addr_of C (e_pk e))).
                set (n := nonce_of s (addr_of C (e_pk e))) in *.
                destruct (N.eq_dec (n + 1) U64) as [E1|NE1].
                ** rewrite E1, N.mod_same in Hsame by discriminate. unfold U64 in *. lia.
                ** rewrite N.mod_small in Hsame by (unfold U64 in *; lia). lia.
             ++ exists k. unfold of_addr at 1. cbn [filter fst].
                destruct (addr_of C (e_pk e) =? a) eqn:Q; [apply N.eqb_eq in Q; contradiction|].
                reflexivity.
          -- rewrite Ha. exists k. reflexivity.
        * rewrite Ha, (auth_facts_info _ _ _ _ _ Hf). exists (S k).
          unfold of_addr at 1. cbn [filter fst]. rewrite N.eqb_refl. cbn [map snd app seq].
          f_equal.
          -- destruct Hf as [_ [_ [_ [_ [_ [Hn _]]]]]]. rewrite Hn.
             rewrite N.add_0_r. symmetry. apply N.mod_small. apply Hwf.
          -- rewrite <- seq_shift, map_map. apply map_ext. intros i.
             rewrite Hinc. rewrite N.add_mod_idemp_l by discriminate.
             f_equal. lia.
      + exists k. reflexivity.
      + exists k. reflexivity.
  Qed.

  Lemma consecutive_inj n0 i j :
    N.of_nat i < U64 -> N.of_nat j < U64 ->
    (n0 + N.of_nat i) mod U64 = (n0 + N.of_nat j) mod U64 -> i = j.
  Proof.
    intros Hi Hj Heq.
    pose proof (N.div_mod' (n0 + N.of_nat i) U64) as Di.
    pose proof (N.div_mod' (n0 + N.of_nat j) U64) as Dj.
    rewrite Heq in Di.
    set (qi := (n0 + N.of_nat i) / U64) in *.
    set (qj := (n0 + N.of_nat j) / U64) in *.
    set (r := (n0 + N.of_nat j) mod U64) in *.
    unfold U64 in *. lia.
  Qed.

  Lemma consecutive_NoDup n0 k :
    N.of_nat k <= U64 -> NoDup (map (fun i => (n0 + N.of_nat i) mod U64) (seq 0 k)).
  Proof.
    intros Hk. apply NoDup_map_inj_on; [|apply seq_NoDup].
    intros x y Hx Hy. apply in_seq in Hx, Hy. apply consecutive_inj; lia.
  Qed.

  (* ---------- nonces count the authenticated transactions; they never go back ---------- *)
  (* The nonce map is total (a missing account record reads as nonce 0, state.go
     Account()), so REMOVING an account record would be a nonce write to 0.  No
     operation of the model does that: *)
  Lemma head_count s o a :
    wf s ->
    nonce_of (step C s o) a
      = (nonce_of s a + N.of_nat (length (of_addr a (trace C s [o])))) mod U64.
  Proof.
    intros Hwf. pose proof (Hwf a) as Hlt.
    destruct o as [raw|g|]; cbn [trace step app].
    2,3: (unfold of_addr; cbn [filter map length]; rewrite N.add_0_r, N.mod_small by exact Hlt; reflexivity).
    destruct (deliver_cases s raw) as [[Ha [e [t Hf]]]|[Ha [Hn _]]].
    - rewrite Ha, (auth_facts_info _ _ _ _ _ Hf). cbn [app].
      destruct Hf as [_ [_ [_ [_ [_ [_ Hn]]]]]]. unfold nonce_of at 1. rewrite Hn.
      unfold of_addr. cbn [filter fst].
      destruct (addr_of C (e_pk e) =? a) eqn:Q.
      + apply N.eqb_eq in Q. subst a. rewrite nonce_in_aset_same. cbn [map length]. reflexivity.
      + rewrite nonce_in_aset_other by (intros X; subst a; rewrite N.eqb_refl in Q; discriminate).
        cbn [map length]. fold (nonce_of s a). rewrite N.add_0_r, N.mod_small by exact Hlt. reflexivity.
    - rewrite Ha. cbn [app]. unfold of_addr; cbn [filter map length].
      unfold nonce_of at 1. rewrite Hn. fold (nonce_of s a).
      rewrite N.add_0_r, N.mod_small by exact Hlt. reflexivity.
  Qed.

  Lemma run_nonce_count s ops a :
    wf s ->
    nonce_of (run C s ops) a
      = (nonce_of s a + N.of_nat (length (of_addr a (trace C s ops)))) mod U64.
  Proof.
    revert s; induction ops as [|o r IH]; intros s Hwf.
    - cbn [run fold_left trace]. unfold of_addr; cbn [filter map length].
      rewrite N.add_0_r, N.mod_small by apply Hwf. reflexivity.
    - change (o :: r) with ([o] ++ r). rewrite run_app, trace_app, of_addr_app, app_length.
      change (run C s [o]) with (step C s o).
      rewrite (IH _ (step_wf s o Hwf)), (head_count s o a Hwf).
      rewrite N.add_mod_idemp_l by discriminate. f_equal. lia.
  Qed.

  (* ... hence, as long as the counter does not wrap, the nonce of an account
     never decreases over ANY history (and in particular is never reset) *)
  Lemma nonce_never_decreases s ops a :
    wf s ->
    nonce_of s a + N.of_nat (length (of_addr a (trace C s ops))) < U64 ->
    nonce_of s a <= nonce_of (run C s ops) a.
  Proof.
    intros Hwf Hb. rewrite (run_nonce_count s ops a Hwf), N.mod_small by exact Hb. lia.
  Qed.

  (* ---------- no_replay ---------- *)
  Lemma no_replay s ops a :
    wf s -> N.of_nat (length (of_addr a (trace C s ops))) <= U64 ->
    NoDup (of_addr a (trace C s ops)).
  Proof.
    intros Hwf Hlen. destruct (trace_consecutive s ops a Hwf) as [k Hk].
    rewrite Hk in *. rewrite map_length, seq_length in Hlen.
    apply consecutive_NoDup. exact Hlen.
  Qed.

  (* two byte strings carrying the same (signer address, nonce) -- in particular
     the same bytes, or two encodings of the same envelope -- are never both
     authenticated in a history with at most 2^64 transactions of that signer *)
  Lemma same_content_never_twice s o1 o2 o3 raw raw2 :
    wf s ->
    auth_info C raw2 = auth_info C raw ->
    authenticated (snd (deliver C (run C s o1) raw)) = true ->
    authenticated (snd (deliver C (run C s (o1 ++ OTx raw :: o2)) raw2)) = true ->
    exists a, U64 < N.of_nat (length (of_addr a (trace C s (o1 ++ OTx raw :: o2 ++ OTx raw2 :: o3)))).
  Proof.
    intros Hwf Hsame A1 A2.
    destruct (deliver_cases (run C s o1) raw) as [[_ [e [t Hf]]]|[X _]]; [|congruence].
    pose proof (auth_facts_info _ _ _ _ _ Hf) as Hi.
    pose proof Hi as Hi2. rewrite <- Hsame in Hi2.
    set (a := addr_of C (e_pk e)) in *. exists a.
    destruct (N.ltb_spec U64 (N.of_nat (length (of_addr a (trace C s (o1 ++ OTx raw :: o2 ++ OTx raw2 :: o3)))))) as [Hlt|Hle];
      [exact Hlt|exfalso].
    pose proof (no_replay s _ a Hwf Hle) as Hnd.
    replace (o1 ++ OTx raw :: o2 ++ OTx raw2 :: o3)
      with ((o1 ++ OTx raw :: o2) ++ OTx raw2 :: o3) in Hnd
      by (rewrite <- app_assoc; reflexivity).
    rewrite trace_app in Hnd. rewrite (trace_app s o1) in Hnd.
    cbn [trace] in Hnd. rewrite A1, A2, Hi, Hi2 in Hnd.
    rewrite !of_addr_app in Hnd.
    assert (Hone : of_addr a [(a, t_nonce t)] = [t_nonce t]).
    { unfold of_addr. cbn [filter fst]. rewrite N.eqb_refl. reflexivity. }
    rewrite !Hone in Hnd.
    rewrite <- !app_assoc in Hnd. cbn [app] in Hnd.
    apply NoDup_remove_2 in Hnd. apply Hnd.
    apply in_or_app. right. apply in_or_app. right. left. reflexivity.
  Qed.

  Lemma same_bytes_never_twice s o1 o2 o3 raw :
    wf s ->
    authenticated (snd (deliver C (run C s o1) raw)) = true ->
    authenticated (snd (deliver C (run C s (o1 ++ OTx raw :: o2)) raw)) = true ->
    exists a, U64 < N.of_nat (length (of_addr a (trace C s (o1 ++ OTx raw :: o2 ++ OTx raw :: o3)))).
  Proof. intros Hwf. apply same_content_never_twice; [exact Hwf|reflexivity]. Qed.

  (* ---------- executes_only_if_authentic ---------- *)
  Lemma executes_only_if_authentic s raw :
    (forall m, is_critical C m = false) ->
    fst (deliver C s raw) <> s \/ exec_reached (snd (deliver C s raw)) = true ->
    exists e t rc,
      dec_env C raw = Some e /\ dec_tx C (e_blob e) = Some t /\
      prepare (SEP C) (txc C) None (chain C) = Some rc /\
      blen (e_sig e) = 64 /\
      sig_ok C (e_pk e) (hashf C (rc ++ e_blob e)) (e_sig e) = true /\
      t_nonce t = nonce_of s (addr_of C (e_pk e)) /\
      nonce_of (fst (deliver C s raw)) (addr_of C (e_pk e))
        = (nonce_of s (addr_of C (e_pk e)) + 1) mod U64 /\
      (forall a', a' <> addr_of C (e_pk e) -> nonce_of (fst (deliver C s raw)) a' = nonce_of s a').
  Proof.
    intros Hnc Heff.
    destruct (deliver_cases s raw) as [[Ha [e [t Hf]]]|[Ha [Hn Hs]]].
    - destruct Hf as [H1 [H2 [H3 [_ [_ [H6 H7]]]]]].
      unfold verify in H2.
      apply andb_true_iff in H2 as [H2 Hsig]. apply andb_true_iff in H2 as [H2 _].
      apply andb_true_iff in H2 as [H2 _]. apply andb_true_iff in H2 as [Hlen _].
      destruct (prepare (SEP C) (txc C) None (chain C)) as [rc|] eqn:Hp; [|discriminate].
      exists e, t, rc. apply N.eqb_eq in Hlen.
      repeat split; try assumption.
      + unfold nonce_of at 1. rewrite H7. apply nonce_in_aset_same.
      + intros a' Hne. unfold nonce_of at 1. rewrite H7. apply nonce_in_aset_other. exact Hne.
    - exfalso. destruct (Hs Hnc) as [Hs1 Hs2]. destruct Heff as [Hne|Hex]; [contradiction|congruence].
  Qed.

  (* ---------- rejected transactions have no effect ---------- *)
  Lemma rejected_has_no_effect s raw :
    (forall m, is_critical C m = false) ->
    authenticated (snd (deliver C s raw)) = false ->
    fst (deliver C s raw) = s /\ exec_reached (snd (deliver C s raw)) = false.
  Proof.
    intros Hnc Hna. destruct (deliver_cases s raw) as [[Ha _]|[_ [_ Hs]]]; [congruence|].
    apply Hs. exact Hnc.
  Qed.

  (* what "authentic" requires of the key: with AllowSmallOrderA = false a
     small-order public key is never the sender of an authenticated transaction,
     whatever the signature predicate says *)
  Lemma small_order_key_never_authenticated s raw :
    allow_small_A C = false ->
    authenticated (snd (deliver C s raw)) = true ->
    exists e, dec_env C raw = Some e /\ small_order_A C (e_pk e) = false /\
              (allow_small_R C = false -> small_order_R C (e_sig e) = false).
  Proof.
    intros Hopt Ha. destruct (deliver_cases s raw) as [[_ [e [t Hf]]]|[X _]]; [|congruence].
    destruct Hf as [H1 [H2 _]]. exists e. split; [exact H1|].
    unfold verify in H2. apply andb_true_iff in H2 as [H2 _].
    apply andb_true_iff in H2 as [H2 HR]. apply andb_true_iff in H2 as [_ HA].
    rewrite Hopt in HA. cbn [orb] in HA. apply negb_true_iff in HA. split; [exact HA|].
    intros HoR. rewrite HoR in HR. cbn [orb] in HR. apply negb_true_iff in HR. exact HR.
  Qed.

  Lemma restart_is_identity s : step C s ORestart = s.
  Proof. reflexivity. Qed.

  (* ---------- altered envelopes ---------- *)
  Definition Forgery (rc : bytes) (e e' : envelope) : Prop :=
    sig_ok C (e_pk e') (hashf C (rc ++ e_blob e')) (e_sig e') = true /\
    (e_pk e', hashf C (rc ++ e_blob e'), e_sig e')
      <> (e_pk e, hashf C (rc ++ e_blob e), e_sig e).

  Lemma verify_sig e :
    verify C e = true ->
    exists rc, prepare (SEP C) (txc C) None (chain C) = Some rc /\
               sig_ok C (e_pk e) (hashf C (rc ++ e_blob e)) (e_sig e) = true.
  Proof.
    unfold verify. intros Hv. apply andb_true_iff in Hv as [_ Hs].
    destruct (prepare (SEP C) (txc C) None (chain C)) as [rc|]; [|discriminate].
    exists rc. split; [reflexivity|exact Hs].
  Qed.

  Lemma bit_flip_rejected_or_forgery s1 raw s2 raw' :
    authenticated (snd (deliver C s1 raw)) = true ->
    authenticated (snd (deliver C s2 raw')) = false
    \/ exists e e' t' rc,
         dec_env C raw = Some e /\ dec_env C raw' = Some e' /\
         dec_tx C (e_blob e') = Some t' /\
         prepare (SEP C) (txc C) None (chain C) = Some rc /\
         t_nonce t' = nonce_of s2 (addr_of C (e_pk e')) /\
         (e' = e \/ Forgery rc e e' \/ collision (hashf C)).
  Proof.
    intros A1.
    destruct (deliver_cases s2 raw') as [[A2 [e' [t' Hf']]]|[A2 _]]; [right|left; exact A2].
    destruct (deliver_cases s1 raw) as [[_ [e [t Hf]]]|[X _]]; [|congruence].
    destruct Hf as [E1 [V1 _]]. destruct Hf' as [E2 [V2 [T2 [_ [_ [N2 _]]]]]].
    destruct (verify_sig _ V1) as [rc [Hp S1]].
    destruct (verify_sig _ V2) as [rc' [Hp' S2]].
    rewrite Hp in Hp'. injection Hp' as <-.
    exists e, e', t', rc. repeat split; try assumption.
    destruct (list_eq_dec N.eq_dec (e_pk e') (e_pk e)) as [Epk|Npk].
    2:{ right. left. split; [exact S2|]. intros X. injection X as X _ _. contradiction. }
    destruct (list_eq_dec N.eq_dec (e_sig e') (e_sig e)) as [Esg|Nsg].
    2:{ right. left. split; [exact S2|]. intros X. injection X as _ _ X. contradiction. }
    destruct (list_eq_dec N.eq_dec (hashf C (rc ++ e_blob e')) (hashf C (rc ++ e_blob e))) as [Eh|Nh].
    2:{ right. left. split; [exact S2|]. intros X. injection X as _ X _. contradiction. }
    destruct (list_eq_dec N.eq_dec (e_blob e') (e_blob e)) as [Eb|Nb].
    - left. destruct e, e'. cbn in *. subst. reflexivity.
    - right. right. exists (rc ++ e_blob e'), (rc ++ e_blob e). split; [|exact Eh].
      intros X. apply app_inv_head in X. contradiction.
  Qed.
End DeliverProofs.

(* ------------------------------------------------------------------ *)
(* CheckTx never changes the delivery state                            *)
(* ------------------------------------------------------------------ *)
Section MempoolProofs.
  Context {L Raw : Type}.
  Variable C : cfg L Raw.
  Variable check_exec_ok : L -> bytes -> tx -> bool.

  Lemma checktx_erasure (m : @mstate L) (ops : list (@mop L Raw)) :
    ds (mrun C check_exec_ok m ops) = run C (ds m) (deliver_ops ops).
  Proof.
    revert m; induction ops as [|o r IH]; intros m; [reflexivity|].
    cbn [mrun fold_left]. fold (mrun C check_exec_ok (mstep C check_exec_ok m o) r).
    rewrite IH. destruct o as [o'|raw|]; cbn [mstep ds deliver_ops run fold_left]; reflexivity.
  Qed.

  (* in particular the nonces the delivery path sees, and the trace of
     authenticated transactions, do not depend on interleaved CheckTx calls *)
  Lemma checktx_keeps_delivery_nonces (m : @mstate L) (raw : Raw) a :
    nonce_of (ds (mstep C check_exec_ok m (MCheck raw))) a = nonce_of (ds m) a.
  Proof. reflexivity. Qed.

  (* what CheckTx does to ITS state: at most the signer's nonce, by one *)
  Lemma checktx_own_state (s : state L) raw :
    snd (check_tx C check_exec_ok s raw) = false /\ fst (check_tx C check_exec_ok s raw) = s
    \/ exists e t, dec_env C raw = Some e /\ verify C e = true /\ dec_tx C (e_blob e) = Some t /\
         (is_critical C (t_method t) = false -> t_nonce t = nonce_of s (addr_of C (e_pk e))) /\
         nonces (fst (check_tx C check_exec_ok s raw))
           = aset (addr_of C (e_pk e)) ((nonce_of s (addr_of C (e_pk e)) + 1) mod U64) (nonces s).
  Proof.
    unfold check_tx. destruct (decode C raw) as [r|e t] eqn:Hd; [left; split; reflexivity|].
    cbv zeta.
    match goal with |- context [if negb ?b then _ else _] => destruct b eqn:Hpre end; cbn [negb];
      [|left; split; reflexivity].
    destruct (gas_size_ok C (rest s) raw t); cbn [negb]; [|left; split; reflexivity].
    destruct (gas_price_ok C t); cbn [negb]; [|left; split; reflexivity].
    destruct (check_exec_ok (rest s) (e_pk e) t); cbn [negb]; [|left; split; reflexivity].
    destruct (fee_move_ok C (rest s) (addr_of C (e_pk e)) (fee_of t)); cbn [negb]; [|left; split; reflexivity].
    right. exists e, t. apply decode_DTx in Hd. destruct Hd as [H1 [H2 H3]].
    repeat split; try assumption.
    intros Hc. rewrite Hc in Hpre.
    apply andb_true_iff in Hpre as [Hpre _]. apply andb_true_iff in Hpre as [_ Hn].
    apply N.eqb_eq in Hn. symmetry. exact Hn.
  Qed.
End MempoolProofs.
