(* C09 -- the instance of Auth/Model.v evaluated by the correspondence check.

   The harness (harness/cmd/auth) abstracts every raw byte string of a block
   to a [kraw]: its length, whether the envelope decodes, an id for the
   signer's address, the verdict of the real signature verifier under the
   transaction context of THIS chain, and the decoded transaction fields.
   The ledger rest is the list of general balances; [exec] is a small port of
   staking Transfer / Burn (apps/staking/transactions.go 24-160, 162-250) so
   that the balance effects and the ok / failed-after-authentication split are
   predicted, not copied. *)
From Verif Require Import Lib.Base Auth.Model.

Record ktx := {
  kt_nonce : N;
  kt_fee : option (N * N);      (* amount, gas *)
  kt_method : N;                (* 0 empty, 1 system, 2 unknown, 3 staking.Transfer, 4 staking.Burn,
                                   5 staking.AddEscrow, 6 staking.Allow (add), 8 staking.Allow (subtract),
                                   7 staking.Withdraw *)
  kt_to : N;                    (* address id of the recipient / escrow account / beneficiary / withdrawal source *)
  kt_amount : N;
  kt_body_ok : bool             (* the method body decodes *)
}.

Record kraw := {
  k_len : N;
  k_env : bool;                 (* envelope decodes *)
  k_pk : N;                     (* address id of the claimed signer *)
  k_black : bool;               (* the claimed public key is blacklisted (signature.go:98) *)
  k_small_a : bool;             (* the public key bytes decode to a point of small order *)
  k_small_r : bool;             (* the R half of the signature decodes to a point of small order *)
  k_sigvalid : bool;            (* the (cofactored) Ed25519 equation holds over SHA-512/256(tx context for
                                   this chain || blob), small orders and non-canonical encodings tolerated *)
  k_tx : option ktx             (* blob decodes *)
}.

Record kparams := {
  p_max_tx_size : N;
  p_min_transact : N;           (* staking MinTransactBalance *)
  p_min_transfer : N;           (* staking MinTransferAmount *)
  p_gas_byte : N;               (* consensus GasOpTxByte *)
  p_gas_transfer : N;
  p_gas_burn : N;
  p_min_gas_price : N;
  p_gas_escrow : N;
  p_gas_allow : N;
  p_gas_withdraw : N;
  p_min_deleg : N;              (* staking MinDelegationAmount *)
  p_max_allow : N;              (* staking MaxAllowances *)
  p_reserved : list N           (* address ids that are reserved (staking/api/address.go:80) *)
}.

Definition bal (l : list (N * N)) (a : N) : N := match aget a l with Some b => b | None => 0 end.

(* allowances live in the same association list under keys >= 2^40:
   ALW + owner * 2^20 + beneficiary (address ids are small); value 0 = no entry *)
Definition ALW : N := 1099511627776.
(* the total supply (staking state) lives under its own key; Burn lowers it
   (transactions.go:230-241), Allow compares against it (:664-671) *)
Definition SUPPLY : N := 2199023255552.
Definition akey (owner ben : N) : N := ALW + owner * 1048576 + ben.
Definition alw (l : list (N * N)) (owner ben : N) : N := bal l (akey owner ben).
Definition count_alw (l : list (N * N)) (owner : N) : N :=
  N.of_nat (length (filter (fun kv => (akey owner 0 <=? fst kv) && (fst kv <? akey (owner + 1) 0)
                                      && negb (snd kv =? 0)) l)).

(* blob = the transaction fields as a list of numbers; sig = validity flag *)
Definition enc_tx (len : N) (t : ktx) : bytes :=
  [kt_nonce t;
   match kt_fee t with Some _ => 1 | None => 0 end;
   match kt_fee t with Some (a, _) => a | None => 0 end;
   match kt_fee t with Some (_, g) => g | None => 0 end;
   kt_method t; kt_to t; kt_amount t; if kt_body_ok t then 1 else 0; len].

Definition k_dec_env (r : kraw) : option envelope :=
  if k_env r then
    Some {| e_blob := match k_tx r with Some t => enc_tx (k_len r) t | None => [] end;
            e_pk := [k_pk r; if k_black r then 1 else 0; if k_small_a r then 1 else 0];
            e_sig := (if k_sigvalid r then 1 else 0) :: (if k_small_r r then 1 else 0) :: repeat 0 62 |}
  else None.

Definition k_dec_tx (b : bytes) : option tx :=
  match b with
  | [n; fp; fa; fg; m; to; amt; bok; len] =>
      Some {| t_nonce := n;
              t_fee := if fp =? 1 then Some {| f_amount := fa; f_gas := fg |} else None;
              t_method := if m =? 0 then [] else [m];
              t_body := [to; amt; bok; len] |}
  | _ => None
  end.

Definition k_sig_ok (pk d sg : bytes) : bool :=
  match sg with 1 :: _ => true | _ => false end.

Definition meth (t : tx) : N := hd 0 (t_method t).

(* Fee.GasPrice (transaction/gas.go:57-75): amount / gas, 0 when either is 0 *)
Definition gas_price (f : fee) : N :=
  if (f_amount f =? 0) || (f_gas f =? 0) then 0 else f_amount f / f_gas f.

Definition k_exec (P : kparams) (l : list (N * N)) (pk : bytes) (t : tx) : list (N * N) * bool :=
  let from := hd 0 pk in
  match t_body t with
  | [to; amt; bok; len] =>
      let gas_limit := f_gas (fee_of t) in
      let used := len * p_gas_byte P in
      if bok =? 0 then (l, false) else                       (* staking.go:176 ErrInvalidArgument *)
      if meth t =? 3 then
        if gas_limit <? used + p_gas_transfer P then (l, false) else   (* transactions.go:34 *)
        if amt <? p_min_transfer P then (l, false) else                (* :89 *)
        if from =? to then
          if bal l from <? amt then (l, false) else (l, true)          (* :102-113 *)
        else
          if existsb (N.eqb to) (p_reserved P) then (l, false) else    (* :118 state.Account(reserved) fails *)
          if bal l from <? amt then (l, false) else                    (* :122 quantity.Move *)
          if bal l from - amt <? p_min_transact P then (l, false) else (* :133 *)
          if bal l to + amt <? p_min_transact P then (l, false) else   (* :141 *)
          (aset from (bal l from - amt) (aset to (bal l to + amt) l), true)
      else if meth t =? 4 then
        if gas_limit <? used + p_gas_burn P then (l, false) else       (* :172 *)
        if amt <? p_min_transfer P then (l, false) else                (* :202 *)
        if bal l from <? amt then (l, false) else                      (* :211 *)
        if bal l from - amt <? p_min_transact P then (l, false) else   (* :221 *)
        (aset SUPPLY (bal l SUPPLY - amt) (aset from (bal l from - amt) l), true)
      else if meth t =? 5 then
        (* AddEscrow, transactions.go:253-360; the escrow pool of the target is not tracked *)
        if gas_limit <? used + p_gas_escrow P then (l, false) else
        if amt <? p_min_deleg P then (l, false) else
        if negb (from =? to) && existsb (N.eqb to) (p_reserved P) then (l, false) else
        if bal l from <? amt then (l, false) else
        if bal l from - amt <? p_min_transact P then (l, false) else
        (aset from (bal l from - amt) l, true)
      else if (meth t =? 6) || (meth t =? 8) then
        (* Allow, transactions.go:603-698 *)
        if gas_limit <? used + p_gas_allow P then (l, false) else
        if p_max_allow P =? 0 then (l, false) else
        if existsb (N.eqb to) (p_reserved P) then (l, false) else
        if from =? to then (l, false) else
        let nw := if meth t =? 6 then alw l from to + amt else alw l from to - amt in
        if bal l SUPPLY <? nw then (l, false) else                     (* :669 ErrAllowanceGreaterThanSupply *)
        let l' := aset (akey from to) nw l in
        if p_max_allow P <? count_alw l' from then (l, false) else (l', true)
      else if meth t =? 7 then
        (* Withdraw, transactions.go:701-840: the signer takes [amt] out of account [to] *)
        if gas_limit <? used + p_gas_withdraw P then (l, false) else
        if amt <? p_min_transfer P then (l, false) else
        if p_max_allow P =? 0 then (l, false) else
        if existsb (N.eqb to) (p_reserved P) then (l, false) else
        if from =? to then (l, false) else
        if alw l to from =? 0 then (l, false) else
        if alw l to from <? amt then (l, false) else
        if bal l to <? amt then (l, false) else
        if bal l to - amt <? p_min_transact P then (l, false) else
        if bal l from + amt <? p_min_transact P then (l, false) else
        (aset (akey to from) (alw l to from - amt)
           (aset to (bal l to - amt) (aset from (bal l from + amt) l)), true)
      else (l, false)
  | _ => (l, false)
  end.

Definition kcfg (P : kparams) (SEPc : bytes) (txctx : ctx_spec) (chainc : bytes) (allowA allowR : bool)
  : cfg (list (N * N)) kraw :=
  {| raw_len := k_len;
     dec_env := k_dec_env;
     dec_tx := k_dec_tx;
     hashf := fun b => b;
     sig_ok := k_sig_ok;
     blacklisted := fun pk => nth 1 pk 0 =? 1;
     allow_small_A := allowA;
     allow_small_R := allowR;
     small_order_A := fun pk => nth 2 pk 0 =? 1;
     small_order_R := fun sg => nth 1 sg 0 =? 1;
     addr_of := fun pk => hd 0 pk;
     reserved := fun a => existsb (N.eqb a) (p_reserved P);
     is_system := fun m => hd 0 m =? 1;
     has_app := fun m => (3 <=? hd 0 m) && (hd 0 m <=? 8);
     is_critical := fun _ => false;
     max_tx_size := p_max_tx_size P;
     SEP := SEPc;
     txc := txctx;
     chain := chainc;
     fee_ok := fun l a f => f_amount f + p_min_transact P <=? bal l a;
     fee_move_ok := fun l a f => f_amount f <=? bal l a;
     pay_fee := fun l a f => aset a (bal l a - f_amount f) l;
     gas_size_ok := fun _ r t => k_len r * p_gas_byte P <=? f_gas (fee_of t);
     gas_price_ok := fun t =>
       (p_min_gas_price P =? 0) ||
       match t_fee t with
       | None => false
       | Some f => p_min_gas_price P <=? gas_price f
       end;
     exec := k_exec P |}.

(* observable class of a result (what ResponseDeliverTx lets one tell apart) *)
Definition obs (r : result) : N :=
  match r with
  | ROversized => 1
  | RMalformedEnv | RMalformedTx => 2
  | RBadSig => 3
  | REmptyMethod => 5
  | RSystem => 6
  | RNoMethod => 7
  | RReserved => 13
  | RBadNonce => 8
  | RPost _ OGasPrice => 12
  | RPost _ OOk => 0
  | RBalanceLow | RFeeMove | RPost _ OGasSize | RPost _ OExecFail => 20
  end.

(* one block: parameters, tracked address ids, pre nonces, pre balances, raws *)
Definition kcase : Type := (kparams * list N * list (N * N) * list (N * N) * list kraw)%type.
(* classes per transaction, post nonces and post balances of the tracked ids *)
Definition kout : Type := (list N * list N * list N)%type.

Definition run_block (SEPc : bytes) (txctx : ctx_spec) (allowA allowR : bool) (c : kcase) : kout :=
  let '(P, ids, ns, bs, raws) := c in
  (* any non-empty chain context: the verdict of the verifier is an input *)
  let C := kcfg P SEPc txctx [1] allowA allowR in
  let '(s', rs) := deliver_all C {| nonces := ns; rest := bs |} raws in
  (map obs rs, map (nonce_of s') ids, map (bal (rest s')) ids).

Definition nlist_eqb := list_eqb N.eqb.
Definition kout_eqb (a b : kout) : bool :=
  let '(a1, a2, a3) := a in let '(b1, b2, b3) := b in
  nlist_eqb a1 b1 && nlist_eqb a2 b2 && nlist_eqb a3 b3.

(* second stream: raw contexts.  Input: index into the regenerated context
   list, optional WithSuffix argument, chain context; output: the bytes
   PrepareSignerContext returned (None = an error). *)
Definition run_ctx (SEPc : bytes) (ctxs : list ctx_spec) (c : N * option bytes * bytes) : option bytes :=
  let '(i, d, ch) := c in
  match nth_error ctxs (N.to_nat i) with
  | Some spec => prepare SEPc spec d ch
  | None => None
  end.
Definition obytes_eqb (a b : option bytes) : bool :=
  match a, b with
  | None, None => true
  | Some x, Some y => bytes_eqb x y
  | _, _ => false
  end.
