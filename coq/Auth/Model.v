(* C09 -- executable model of transaction authentication in the consensus layer.

   Ported code (oasis-core, go/):
     common/crypto/signature/signer.go
        WithSuffix 100-123, NewContext 128-166, PrepareSignerContext 314-349,
        PrepareSignerMessage 352-368
     common/crypto/signature/signature.go
        PublicKey.Verify 94-108, Signed.Open 435-442
     consensus/api/transaction/transaction.go
        SignatureContext 34, SanityCheck 136-138, SignedTransaction.Open 213-215
     consensus/cometbft/abci/transaction.go
        decodeTx 17-56, processTx 58-123, executeTx 125-146
     consensus/cometbft/apps/staking/state/gas.go
        AuthenticateAndPayFees 32-140 (DeliverTx mode)
     consensus/cometbft/abci/mux.go DeliverTx 703-750 (no rollback of the
        top-level context: what AuthenticateTx wrote stays when a later step fails)

   Executable definitions only; proofs are in Auth/Proofs.v. *)
From Verif Require Import Lib.Base.

Definition U64 : N := 18446744073709551616. (* 2^64 *)

Definition blen (b : bytes) : N := N.of_nat (length b).

(* ------------------------------------------------------------------ *)
(* Signing contexts and the signed preimage                            *)
(* ------------------------------------------------------------------ *)

(* (registered context string, WithChainSeparation, WithDynamicSuffix (sep, maxLen)) *)
Definition ctx_spec : Type := (bytes * bool * option (bytes * N))%type.
Definition cbase (c : ctx_spec) : bytes := fst (fst c).
Definition cchain (c : ctx_spec) : bool := snd (fst c).
Definition cdyn (c : ctx_spec) : option (bytes * N) := snd c.

Section Sign.
  (* chainContextSeparator, signer.go:18 (regenerated: Gen.SigContexts.chain_separator) *)
  Variable SEP : bytes.

  (* the bytes the code puts in front of the message for context [c], dynamic
     suffix argument [d] (ignored unless the context has one) and chain
     context [chain] (ignored unless chain-separated):
       WithSuffix:            newCtx = c + dynamicSuffix + str        (signer.go:115)
       PrepareSignerContext:  context = context + " for chain " + chainContext (signer.go:342) *)
  Definition raw_context (c : ctx_spec) (d chain : bytes) : bytes :=
    cbase c
      ++ (match cdyn c with Some (sfx, _) => sfx ++ d | None => [] end)
      ++ (if cchain c then SEP ++ chain else []).

  (* PrepareSignerMessage 361-364: h.Write(rawContext); h.Write(message) --
     plain concatenation, no length, no separator. *)
  Definition signing_preimage (c : ctx_spec) (d chain m : bytes) : bytes :=
    raw_context c d chain ++ m.

  (* The error paths of WithSuffix + PrepareSignerContext for a REGISTERED
     context.  [d = None]: the context is used as registered; [Some s]: after
     WithSuffix(s).  [chain = []]: no chain context set. *)
  Definition prepare (c : ctx_spec) (d : option bytes) (chain : bytes) : option bytes :=
    let chain_ok := negb (cchain c) || negb (bytes_eqb chain []) in
    match cdyn c, d with
    | None, None =>
        if chain_ok then Some (raw_context c [] chain) else None        (* errNoChainContext *)
    | None, Some _ => None                                            (* errNoSuffixConfigured *)
    | Some _, None =>
        (* chain context is looked at first (signer.go:336-343), then errNoDynamicSuffix *)
        None
    | Some (_, mx), Some s =>
        if mx <? blen s then None                                     (* suffix too long *)
        else if chain_ok then Some (raw_context c s chain) else None
    end.

  (* what must hold of the set of registered contexts for the preimage to
     determine the context: the constant head of every raw context *)
  Definition head (c : ctx_spec) : bytes :=
    cbase c ++ (match cdyn c with
                | Some (sfx, _) => sfx
                | None => if cchain c then SEP else []
                end).
End Sign.

Fixpoint is_prefix (a b : bytes) : bool :=
  match a, b with
  | [], _ => true
  | x :: a', y :: b' => (x =? y) && is_prefix a' b'
  | _ :: _, [] => false
  end.
Definition comparable (a b : bytes) : bool := is_prefix a b || is_prefix b a.

Fixpoint prefix_free_b (SEP : bytes) (l : list ctx_spec) : bool :=
  match l with
  | [] => true
  | c :: r => forallb (fun c' => negb (comparable (head SEP c) (head SEP c'))) r
              && prefix_free_b SEP r
  end.

Definition spec_eqb (a b : ctx_spec) : bool :=
  bytes_eqb (cbase a) (cbase b) && Bool.eqb (cchain a) (cchain b) &&
  match cdyn a, cdyn b with
  | None, None => true
  | Some (s1, m1), Some (s2, m2) => bytes_eqb s1 s2 && (m1 =? m2)
  | _, _ => false
  end.

(* NewContext's own registration rules (signer.go:128-166), as a checker over
   the regenerated list: non-empty, does not contain the chain separator,
   total length bound, no duplicates. *)
Fixpoint contains (needle hay : bytes) : bool :=
  match hay with
  | [] => is_prefix needle []
  | _ :: t => is_prefix needle hay || contains needle t
  end.
Definition ctx_len_ok (SEP : bytes) (chain_max ed_max : N) (c : ctx_spec) : bool :=
  let l := blen (cbase c)
           + (if cchain c then blen SEP + chain_max else 0)
           + (match cdyn c with Some (s, m) => blen s + m | None => 0 end) in
  negb (blen (cbase c) =? 0) && (l <=? ed_max) && negb (contains SEP (cbase c)).

(* ------------------------------------------------------------------ *)
(* Envelopes, transactions, results                                    *)
(* ------------------------------------------------------------------ *)

Record envelope := { e_blob : bytes; e_pk : bytes; e_sig : bytes }.
Record fee := { f_amount : N; f_gas : N }.
Record tx := { t_nonce : N; t_fee : option fee; t_method : bytes; t_body : bytes }.

Definition fee_of (t : tx) : fee :=
  match t_fee t with Some f => f | None => {| f_amount := 0; f_gas := 0 |} end. (* gas.go:68-70 *)

Inductive outcome := OGasSize | OGasPrice | OExecFail | OOk.

Inductive result :=
| ROversized          (* transaction.go:24 *)
| RMalformedEnv       (* :35 *)
| RBadSig             (* :42, signature.go:437 *)
| RMalformedTx        (* :42, signature.go:441 *)
| REmptyMethod        (* :48 *)
| RSystem             (* :60 system method: no authentication, not modelled further *)
| RNoMethod           (* :66 *)
| RReserved           (* gas.go:50 *)
| RBadNonce           (* gas.go:59 *)
| RBalanceLow         (* gas.go:84 *)
| RFeeMove            (* gas.go:114 *)
| RPost (authd : bool) (o : outcome). (* authentication passed (or was skipped: authd = false) *)

Definition authenticated (r : result) : bool :=
  match r with RPost true _ => true | _ => false end.
Definition exec_reached (r : result) : bool :=
  match r with RPost _ OExecFail | RPost _ OOk => true | _ => false end.

Record state (L : Type) := { nonces : list (N * N); rest : L }.
Arguments nonces {L}. Arguments rest {L}.

Definition nonce_in (ns : list (N * N)) (a : N) : N :=
  match aget a ns with Some n => n | None => 0 end. (* absent account = zero account *)
Definition nonce_of {L} (s : state L) (a : N) : N := nonce_in (nonces s) a.

(* the byte-level and ledger-level pieces the property does not constrain are
   abstract: EVERY theorem holds for every choice of them. *)
Record cfg (L Raw : Type) := {
  raw_len : Raw -> N;
  dec_env : Raw -> option envelope (* cbor.Unmarshal(rawTx, &sigTx) *);
  dec_tx : bytes -> option tx (* cbor.Unmarshal(s.Blob, dst) *);
  hashf : bytes -> bytes (* SHA-512/256 *);
  sig_ok : bytes -> bytes -> bytes -> bool (* Ed25519 verify pk digest sig *);
  blacklisted : bytes -> bool;
  (* ed25519.VerifyOptions (signature.go:75-82, regenerated: Gen.SigOptions): whether a
     small-order public key A / commitment R is tolerated, and the (abstract)
     tests "this encoding decodes to a point of order 1, 2, 4 or 8" *)
  allow_small_A : bool;
  allow_small_R : bool;
  small_order_A : bytes -> bool;
  small_order_R : bytes -> bool;
  addr_of : bytes -> N (* staking.NewAddress *);
  reserved : N -> bool;
  is_system : bytes -> bool;
  has_app : bytes -> bool (* resolveAppForMethod succeeds *);
  is_critical : bytes -> bool;
  max_tx_size : N (* consensus parameter; 0 = unlimited *);
  SEP : bytes;
  txc : ctx_spec (* transaction.SignatureContext *);
  chain : bytes (* the process-wide chain context *);
  fee_ok : L -> N -> fee -> bool (* balance >= fee + MinTransactBalance *);
  fee_move_ok : L -> N -> fee -> bool (* quantity.Move succeeds *);
  pay_fee : L -> N -> fee -> L;
  gas_size_ok : L -> Raw -> tx -> bool (* UseGas(txSize, GasOpTxByte) *);
  gas_price_ok : tx -> bool;
  exec : L -> bytes -> tx -> L * bool (* app.ExecuteTx, failed execution = its own rollback *)
}.
Arguments raw_len {L Raw}.
Arguments dec_env {L Raw}.
Arguments dec_tx {L Raw}.
Arguments hashf {L Raw}.
Arguments sig_ok {L Raw}.
Arguments blacklisted {L Raw}.
Arguments allow_small_A {L Raw}.
Arguments allow_small_R {L Raw}.
Arguments small_order_A {L Raw}.
Arguments small_order_R {L Raw}.
Arguments addr_of {L Raw}.
Arguments reserved {L Raw}.
Arguments is_system {L Raw}.
Arguments has_app {L Raw}.
Arguments is_critical {L Raw}.
Arguments max_tx_size {L Raw}.
Arguments SEP {L Raw}.
Arguments txc {L Raw}.
Arguments chain {L Raw}.
Arguments fee_ok {L Raw}.
Arguments fee_move_ok {L Raw}.
Arguments pay_fee {L Raw}.
Arguments gas_size_ok {L Raw}.
Arguments gas_price_ok {L Raw}.
Arguments exec {L Raw}.

Section Deliver.
  Context {L Raw : Type}.
  Variable C : cfg L Raw.

  (* PublicKey.Verify signature.go:94-108 under the transaction context *)
  Definition verify (e : envelope) : bool :=
    (blen (e_sig e) =? 64) &&
    negb ((blacklisted C) (e_pk e)) &&
    (* curve25519-voi VerifyWithOptions: small-order checks before the equation.
       With a small-order A the equation holds for EVERY message once
       [8][S]B = [8]R, so "signed by A" means nothing: authenticity needs the reject. *)
    (allow_small_A C || negb (small_order_A C (e_pk e))) &&
    (allow_small_R C || negb (small_order_R C (e_sig e))) &&
    match prepare (SEP C) (txc C) None (chain C) with
    | None => false
    | Some rc => (sig_ok C) (e_pk e) (hashf C (rc ++ e_blob e)) (e_sig e)
    end.

  (* decodeTx + the dispatch part of processTx, up to the authentication handler *)
  Inductive decoded := DRej (r : result) | DTx (e : envelope) (t : tx).

  Definition decode (raw : Raw) : decoded :=
    if (0 <? (max_tx_size C)) && ((max_tx_size C) <? (raw_len C) raw) then DRej ROversized else
    match (dec_env C) raw with
    | None => DRej RMalformedEnv
    | Some e =>
        if negb (verify e) then DRej RBadSig else
        match (dec_tx C) (e_blob e) with
        | None => DRej RMalformedTx
        | Some t =>
            if bytes_eqb (t_method t) [] then DRej REmptyMethod else
            if (is_system C) (t_method t) then DRej RSystem else
            if negb ((has_app C) (t_method t)) then DRej RNoMethod else
            DTx e t
        end
    end.

  (* the part of processTx after authentication: gas for the size, minimum gas
     price, ExecuteTx.  Does not touch nonces. *)
  Definition post (ns : list (N * N)) (l : L) (raw : Raw) (e : envelope) (t : tx) (authd : bool)
    : state L * result :=
    if negb ((gas_size_ok C) l raw t) then ({| nonces := ns; rest := l |}, RPost authd OGasSize) else
    if negb ((gas_price_ok C) t) then ({| nonces := ns; rest := l |}, RPost authd OGasPrice) else
    let '(l', ok) := (exec C) l (e_pk e) t in
    ({| nonces := ns; rest := l' |}, RPost authd (if ok then OOk else OExecFail)).

  Definition deliver (s : state L) (raw : Raw) : state L * result :=
    match decode raw with
    | DRej r => (s, r)
    | DTx e t =>
        if (is_critical C) (t_method t) then
          (* transaction.go:74: the authentication handler is skipped *)
          post (nonces s) (rest s) raw e t false
        else
          let a := (addr_of C) (e_pk e) in
          let f := fee_of t in
          if (reserved C) a then (s, RReserved) else
          if negb (nonce_of s a =? t_nonce t) then (s, RBadNonce) else      (* gas.go:57 *)
          if negb ((fee_ok C) (rest s) a f) then (s, RBalanceLow) else          (* gas.go:84 *)
          if negb ((fee_move_ok C) (rest s) a f) then (s, RFeeMove) else        (* gas.go:114 *)
          (* gas.go:118  account.General.Nonce++  on a uint64 *)
          let ns := aset a ((nonce_of s a + 1) mod U64) (nonces s) in
          post ns ((pay_fee C) (rest s) a f) raw e t true
    end.

  (* histories: transactions, every other state transition of the application
     (BeginBlock, EndBlock, Commit, other apps: they act on the rest only), and
     restarts (the committed state is reloaded: identity). *)
  Inductive op := OTx (r : Raw) | OOther (g : L -> L) | ORestart.

  Definition step (s : state L) (o : op) : state L :=
    match o with
    | OTx r => fst (deliver s r)
    | OOther g => {| nonces := nonces s; rest := g (rest s) |}
    | ORestart => s
    end.

  Definition run (s : state L) (ops : list op) : state L := fold_left step ops s.

  (* (address, nonce) carried by a raw transaction *)
  Definition auth_info (raw : Raw) : option (N * N) :=
    match (dec_env C) raw with
    | Some e => match (dec_tx C) (e_blob e) with
                | Some t => Some ((addr_of C) (e_pk e), t_nonce t)
                | None => None
                end
    | None => None
    end.

  (* the authenticated transactions of a history, in order *)
  Fixpoint trace (s : state L) (ops : list op) : list (N * N) :=
    match ops with
    | [] => []
    | o :: r =>
        (match o with
         | OTx raw => if authenticated (snd (deliver s raw))
                      then match auth_info raw with Some p => [p] | None => [] end
                      else []
         | _ => []
         end) ++ trace (step s o) r
    end.

  Definition of_addr (a : N) (tr : list (N * N)) : list N :=
    map snd (filter (fun p => fst p =? a) tr).

  (* results of a block: used by the correspondence check *)
  Fixpoint deliver_all (s : state L) (raws : list Raw) : state L * list result :=
    match raws with
    | [] => (s, [])
    | r :: rs => let '(s1, x) := deliver s r in
                 let '(s2, xs) := deliver_all s1 rs in (s2, x :: xs)
    end.
End Deliver.

(* ------------------------------------------------------------------ *)
(* The mempool path: CheckTx works on its own copy of the state        *)
(* ------------------------------------------------------------------ *)
(* abci/mux.go CheckTx -> executeTx with a ContextCheckTx context, whose state
   is the check tree (abci/state.go: checkTxTree, re-created from the committed
   state at Commit).  gas.go 94-108 (CheckOnly branch: no fee move, no nonce
   write), auth.go PostExecuteTx 20-56 (CheckTx only: fee deducted and nonce
   incremented IN THE CHECK STATE once everything else passed). *)
Section Mempool.
  Context {L Raw : Type}.
  Variable C : cfg L Raw.
  (* app.ExecuteTx in CheckTx mode and the node-local minimum gas price: arbitrary *)
  Variable check_exec_ok : L -> bytes -> tx -> bool.

  Definition check_tx (s : state L) (raw : Raw) : state L * bool :=
    match decode C raw with
    | DRej _ => (s, false)
    | DTx e t =>
        let a := addr_of C (e_pk e) in
        let f := fee_of t in
        let pre_ok :=
          if is_critical C (t_method t) then true
          else negb (reserved C a) && (nonce_of s a =? t_nonce t) && fee_ok C (rest s) a f in
        if negb pre_ok then (s, false) else
        if negb (gas_size_ok C (rest s) raw t) then (s, false) else
        if negb (gas_price_ok C t) then (s, false) else
        if negb (check_exec_ok (rest s) (e_pk e) t) then (s, false) else
        if negb (fee_move_ok C (rest s) a f) then (s, false) else      (* auth.go:46 *)
        ({| nonces := aset a ((nonce_of s a + 1) mod U64) (nonces s);   (* auth.go:50 *)
            rest := pay_fee C (rest s) a f |}, true)
    end.

  (* delivery state and check state side by side *)
  Record mstate := { ds : state L; cs : state L }.

  Inductive mop :=
  | MDeliver (o : @op L Raw)   (* anything of the delivery path *)
  | MCheck (r : Raw)           (* CheckTx / re-CheckTx *)
  | MCommit.                   (* the check state is reset to the committed state *)

  Definition mstep (m : mstate) (o : mop) : mstate :=
    match o with
    | MDeliver o' => {| ds := step C (ds m) o'; cs := cs m |}
    | MCheck r => {| ds := ds m; cs := fst (check_tx (cs m) r) |}
    | MCommit => {| ds := ds m; cs := ds m |}
    end.

  Definition mrun (m : mstate) (ops : list mop) : mstate := fold_left mstep ops m.

  Fixpoint deliver_ops (ops : list mop) : list (@op L Raw) :=
    match ops with
    | [] => []
    | MDeliver o :: r => o :: deliver_ops r
    | _ :: r => deliver_ops r
    end.
End Mempool.
