(* C09 -- facts about the REGENERATED context list (coq/Gen/SigContexts.v is
   rewritten from the Go sources on every run), the hypotheses-needed
   witnesses, and non-vacuity examples. *)
From Verif Require Import Lib.Base Auth.Model Auth.Proofs Auth.Corr Gen.SigContexts Gen.SigOptions.

(* ed25519.ContextMaxSize (curve25519-voi), the bound of NewContext signer.go:147 *)
Definition ed25519_context_max_size : N := 255.

Lemma contexts_prefix_free : prefix_free_b chain_separator contexts = true.
Proof. vm_compute. reflexivity. Qed.

Lemma contexts_wellformed :
  forallb (ctx_len_ok chain_separator chain_context_max_size ed25519_context_max_size) contexts = true.
Proof. vm_compute. reflexivity. Qed.

Lemma spec_eqb_eq a b : spec_eqb a b = true -> a = b.
Proof.
  destruct a as [[b1 c1] d1], b as [[b2 c2] d2]. unfold spec_eqb, cbase, cchain, cdyn; cbn [fst snd].
  intros Hq. apply andb_true_iff in Hq as [Hq H3]. apply andb_true_iff in Hq as [H1 H2].
  apply bytes_eqb_eq in H1. apply Bool.eqb_prop in H2. subst.
  destruct d1 as [[s1 m1]|], d2 as [[s2 m2]|]; try discriminate; [|reflexivity].
  apply andb_true_iff in H3 as [H3 H4]. apply bytes_eqb_eq in H3. apply N.eqb_eq in H4.
  subst. reflexivity.
Qed.

Lemma existsb_spec_in c l : existsb (spec_eqb c) l = true -> In c l.
Proof.
  intros Hq. apply existsb_exists in Hq as [x [Hin Hq]]. apply spec_eqb_eq in Hq. subst. exact Hin.
Qed.

Lemma tx_context_registered : In tx_context contexts.
Proof. apply existsb_spec_in. vm_compute. reflexivity. Qed.

(* the transaction context is chain-separated and has no dynamic suffix *)
Lemma tx_context_shape : cchain tx_context = true /\ cdyn tx_context = None.
Proof. split; reflexivity. Qed.

Lemma tx_prepare (ch : bytes) :
  ch <> [] ->
  prepare chain_separator tx_context None ch
    = Some (cbase tx_context ++ chain_separator ++ ch).
Proof.
  intros Hne. unfold prepare, raw_context.
  destruct tx_context_shape as [Hc Hd]. rewrite Hd, Hc. cbn [negb orb].
  destruct (bytes_eqb ch []) eqn:Q; [apply bytes_eqb_eq in Q; contradiction|].
  cbn [negb app]. reflexivity.
Qed.

Lemma tx_prepare_nochain : prepare chain_separator tx_context None [] = None.
Proof. reflexivity. Qed.

Lemma no_critical_methods : method_metadata_providers = [].
Proof. reflexivity. Qed.

(* a signature made for the transaction context of chain [ch] is over a digest
   that no other registered context / chain of the same length / message yields *)
Lemma tx_cross_domain (Hf : bytes -> bytes) c d h m ch blob :
  In c contexts -> length h = length ch ->
  Hf (signing_preimage chain_separator tx_context [] ch blob)
    = Hf (signing_preimage chain_separator c d h m) ->
  (c = tx_context /\ m = blob /\ h = ch) \/ collision Hf.
Proof.
  intros Hin Hl Heq.
  assert (Hr : signing_preimage chain_separator tx_context [] ch blob
               = signing_preimage chain_separator tx_context d ch blob).
  { unfold signing_preimage, raw_context. destruct tx_context_shape as [_ Hd]. rewrite Hd. reflexivity. }
  rewrite Hr in Heq.
  destruct (digest_domain_separation chain_separator Hf contexts tx_context c d d ch h blob m
              contexts_prefix_free tx_context_registered Hin eq_refl (eq_sym Hl) Heq)
    as [[E1 [E2 [_ E4]]]|Hc]; [left|right; exact Hc].
  destruct tx_context_shape as [Hc _]. specialize (E4 Hc). subst. repeat split; reflexivity.
Qed.

(* ---------- why the two length hypotheses are there ---------- *)
(* The construction  context ++ " for chain " ++ chain ++ message  has no
   length field: two chain contexts one of which is a prefix of the other are
   NOT separated.  (SetChainContext accepts any length 1..64; production chain
   contexts are the 64 hex characters of the genesis document hash.) *)
Lemma chain_length_hypothesis_needed (SEPc : bytes) (c : ctx_spec) d :
  cchain c = true ->
  exists h1 h2 m1 m2, h1 <> h2 /\
    signing_preimage SEPc c d h1 m1 = signing_preimage SEPc c d h2 m2.
Proof.
  intros Hc. exists [97], [97; 98], [98; 1], [1]. split; [discriminate|].
  unfold signing_preimage, raw_context. rewrite Hc. rewrite <- !app_assoc. reflexivity.
Qed.

(* likewise the dynamic suffix argument (WithSuffix accepts any length up to
   maxLen; all callers pass the 64 hex characters of a runtime id) *)
Lemma suffix_length_hypothesis_needed (SEPc : bytes) (c : ctx_spec) sfx mx :
  cdyn c = Some (sfx, mx) -> cchain c = true -> 2 + blen SEPc <= mx ->
  exists d1 d2 h1 h2 m1 m2, d1 <> d2 /\ blen d1 <= mx /\ blen d2 <= mx /\ length h1 = length h2 /\
    signing_preimage SEPc c d1 h1 m1 = signing_preimage SEPc c d2 h2 m2.
Proof.
  intros Hd Hc Hmx.
  exists [97], ([97] ++ SEPc ++ [113]), [113], [122], (SEPc ++ [122]), [].
  split.
  { intros X. cbn [app] in X. injection X as X. destruct SEPc; discriminate. }
  split. { unfold blen in *. cbn [length]. lia. }
  split. { unfold blen in *. rewrite !app_length. cbn [length]. lia. }
  split; [reflexivity|].
  unfold signing_preimage, raw_context. rewrite Hd, Hc. rewrite <- !app_assoc.
  cbn [app]. rewrite ?app_nil_r. reflexivity.
Qed.

(* instance on the regenerated list: some registered context has both options *)
Lemma suffix_length_witness_applies :
  existsb (fun c => cchain c && match cdyn c with
                                | Some (_, mx) => 2 + blen chain_separator <=? mx
                                | None => false end) contexts = true
  \/ forallb (fun c => match cdyn c with Some _ => false | None => true end) contexts = true.
Proof. vm_compute. left. reflexivity. Qed.

(* ------------------------------------------------------------------ *)
(* Non-vacuity: a concrete history                                     *)
(* ------------------------------------------------------------------ *)
Definition exP : kparams :=
  {| p_max_tx_size := 32768; p_min_transact := 0; p_min_transfer := 10; p_gas_byte := 1;
     p_gas_transfer := 1000; p_gas_burn := 1000; p_min_gas_price := 0;
     p_gas_escrow := 1300; p_gas_allow := 1100; p_gas_withdraw := 1200; p_min_deleg := 10; p_max_allow := 8;
     p_reserved := [] |}.
Definition exC := kcfg exP chain_separator tx_context [1] allow_small_order_A allow_small_order_R.

Definition ex_tx (signer nonce : N) (valid : bool) : kraw :=
  {| k_len := 200; k_env := true; k_pk := signer; k_black := false; k_small_a := false; k_small_r := false; k_sigvalid := valid;
     k_tx := Some {| kt_nonce := nonce; kt_fee := Some (10, 10000); kt_method := 3;
                     kt_to := 9; kt_amount := 100; kt_body_ok := true |} |}.

Definition ex_s0 : state (list (N * N)) :=
  {| nonces := [(1, 0); (2, 18446744073709551615)]; rest := [(1, 100000); (2, 100000)] |}.

(* two signers, interleaved fresh, replayed, forged, across a restart and other
   operations; signer 2 starts at 2^64-1 and wraps to 0 *)
Definition ex_ops : list (@op (list (N * N)) kraw) :=
  [OTx (ex_tx 1 0 true); OTx (ex_tx 1 0 true); OTx (ex_tx 2 18446744073709551615 true);
   OOther (fun l => aset 7 5 l); ORestart; OTx (ex_tx 1 0 true); OTx (ex_tx 1 1 false);
   OTx (ex_tx 2 0 true); OTx (ex_tx 1 1 true); OTx (ex_tx 2 18446744073709551615 true)].

Example ex_wf : wf ex_s0.
Proof.
  intros a. unfold nonce_of, nonce_in, ex_s0. cbn [nonces aget].
  destruct (1 =? a); [reflexivity|]. destruct (2 =? a); reflexivity.
Qed.

Example ex_trace :
  trace exC ex_s0 ex_ops = [(1, 0); (2, 18446744073709551615); (2, 0); (1, 1)].
Proof. vm_compute. reflexivity. Qed.

Example ex_final_nonces :
  nonce_of (run exC ex_s0 ex_ops) 1 = 2 /\ nonce_of (run exC ex_s0 ex_ops) 2 = 1.
Proof. vm_compute. split; reflexivity. Qed.

Example ex_no_critical : forall m, is_critical exC m = false.
Proof. reflexivity. Qed.

Example ex_replay_rejected :
  map (fun r => obs (snd (deliver exC (run exC ex_s0 [OTx (ex_tx 1 0 true)]) r)))
      [ex_tx 1 0 true; ex_tx 1 1 false; ex_tx 1 1 true; ex_tx 1 5 true]
  = [8; 3; 0; 8].
Proof. vm_compute. reflexivity. Qed.

(* ------------------------------------------------------------------ *)
(* executes_only_if_authentic with the regenerated transaction context *)
(* ------------------------------------------------------------------ *)
Lemma executes_only_if_authentic_tx {L Raw} (C : cfg L Raw) s raw :
  SEP C = chain_separator -> txc C = tx_context -> chain C <> [] ->
  (forall m, is_critical C m = false) ->
  fst (deliver C s raw) <> s \/ exec_reached (snd (deliver C s raw)) = true ->
  exists e t,
    dec_env C raw = Some e /\ dec_tx C (e_blob e) = Some t /\
    blen (e_sig e) = 64 /\
    sig_ok C (e_pk e)
      (hashf C (signing_preimage chain_separator tx_context [] (chain C) (e_blob e)))
      (e_sig e) = true /\
    t_nonce t = nonce_of s (addr_of C (e_pk e)) /\
    nonce_of (fst (deliver C s raw)) (addr_of C (e_pk e))
      = (nonce_of s (addr_of C (e_pk e)) + 1) mod U64 /\
    (forall a', a' <> addr_of C (e_pk e) -> nonce_of (fst (deliver C s raw)) a' = nonce_of s a').
Proof.
  intros HS HT HC Hnc Heff.
  destruct (executes_only_if_authentic C s raw Hnc Heff)
    as [e [t [rc [H1 [H2 [H3 [H4 [H5 [H6 [H7 H8]]]]]]]]]].
  exists e, t. rewrite HS, HT, (tx_prepare _ HC) in H3. injection H3 as <-.
  repeat split; assumption.
Qed.

Example ex_effective :
  SEP exC = chain_separator /\ txc exC = tx_context /\ chain exC <> [] /\
  fst (deliver exC ex_s0 (ex_tx 1 0 true)) <> ex_s0.
Proof. repeat split; discriminate. Qed.

(* ------------------------------------------------------------------ *)
(* "An altered byte string never takes effect" is FALSE for a decoder   *)
(* with two preimages of one envelope                                  *)
(* ------------------------------------------------------------------ *)
(* The signature covers (blob) and is bound to (pk, sig); it cannot cover the
   envelope framing.  Witness decoder: a raw transaction is (payload, number of
   trailing bytes) and the trailing bytes are ignored -- which is what
   cbor.Unmarshal of fxamacker/cbor v2.4.0 (go/common/cbor) does on the real
   code, like its case-insensitive match of the field names "signature",
   "public_key", "untrusted_raw_value" (observed by harness/cmd/auth: finding
   C09:altered-envelope-bytes-same-signed-content-executes). *)
Definition malC : cfg (list (N * N)) (kraw * N) :=
  {| raw_len := fun r => k_len (fst r) + snd r;
     dec_env := fun r => k_dec_env (fst r);
     dec_tx := dec_tx exC; hashf := hashf exC; sig_ok := sig_ok exC;
     blacklisted := blacklisted exC; allow_small_A := allow_small_A exC; allow_small_R := allow_small_R exC;
     small_order_A := small_order_A exC; small_order_R := small_order_R exC; addr_of := addr_of exC; reserved := reserved exC;
     is_system := is_system exC; has_app := has_app exC; is_critical := is_critical exC;
     max_tx_size := max_tx_size exC; SEP := SEP exC; txc := txc exC; chain := chain exC;
     fee_ok := fee_ok exC; fee_move_ok := fee_move_ok exC; pay_fee := pay_fee exC;
     gas_size_ok := fun l r t => gas_size_ok exC l (fst r) t;
     gas_price_ok := gas_price_ok exC; exec := exec exC |}.

Lemma bit_flip_never_executes_refuted :
  exists (L Raw : Type) (C : cfg L Raw) (s : state L) (raw raw' : Raw),
    raw' <> raw /\ (forall m, is_critical C m = false) /\
    dec_env C raw' = dec_env C raw /\
    authenticated (snd (deliver C s raw)) = true /\
    authenticated (snd (deliver C s raw')) = true /\
    exec_reached (snd (deliver C s raw')) = true.
Proof.
  exists (list (N * N)), (kraw * N)%type, malC, ex_s0, (ex_tx 1 0 true, 0), (ex_tx 1 0 true, 2).
  split; [discriminate|]. split; [reflexivity|]. split; [reflexivity|].
  vm_compute. repeat split; reflexivity.
Qed.

(* ------------------------------------------------------------------ *)
(* The Ed25519 verification options the property is stated for         *)
(* ------------------------------------------------------------------ *)
(* regenerated from the ed25519.VerifyOptions literal of signature.go on every
   run: small-order A (and R) rejected; no other option field set; no
   verification call bypasses the literal *)
Lemma verify_options_expected :
  allow_small_order_A = false /\ allow_small_order_R = false /\
  allow_noncanonical_A = true /\ allow_noncanonical_R = true /\
  other_option_fields = [] /\ verification_bypassing_options = [].
Proof. repeat split; reflexivity. Qed.

(* with these options: a universal-forgery envelope (small-order key, equation
   holds) is rejected by the model, and would be authenticated if the option were flipped *)
Definition ex_forged : kraw :=
  {| k_len := 200; k_env := true; k_pk := 1; k_black := false; k_small_a := true; k_small_r := false;
     k_sigvalid := true;
     k_tx := Some {| kt_nonce := 0; kt_fee := Some (10, 10000); kt_method := 3;
                     kt_to := 9; kt_amount := 100; kt_body_ok := true |} |}.
Example ex_small_order_rejected :
  obs (snd (deliver exC ex_s0 ex_forged)) = 3 /\
  obs (snd (deliver (kcfg exP chain_separator tx_context [1] true false) ex_s0 ex_forged)) = 0.
Proof. vm_compute. split; reflexivity. Qed.

(* ------------------------------------------------------------------ *)
(* Removing an account record is a nonce write to 0 and re-admits old   *)
(* transactions                                                        *)
(* ------------------------------------------------------------------ *)
(* state.go Account() returns the zero account for a missing record, so an
   operation that deletes the record of a drained account resets its nonce.  No
   operation of the model does (Proofs.run_nonce_count / nonce_never_decreases);
   in the sources this is pinned by Gen.NonceWriters.account_record_writers.
   Witness of what would happen otherwise: *)
Definition remove_account {L} (s : state L) (a : N) : state L :=
  {| nonces := adel a (nonces s); rest := rest s |}.

Lemma account_removal_enables_replay :
  exists (L Raw : Type) (C : cfg L Raw) (s : state L) (raw : Raw) (a : N),
    (forall a', nonce_of s a' < U64) /\
    authenticated (snd (deliver C s raw)) = true /\
    authenticated (snd (deliver C (fst (deliver C s raw)) raw)) = false /\
    authenticated (snd (deliver C (remove_account (fst (deliver C s raw)) a) raw)) = true.
Proof.
  exists (list (N * N)), kraw, exC, ex_s0, (ex_tx 1 0 true), 1.
  split; [exact ex_wf|]. vm_compute. repeat split; reflexivity.
Qed.
