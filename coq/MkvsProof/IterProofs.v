(* The proofs built by ProofBuilder.build from ANY set of included pointer
   positions verify against the tree's root and describe a pruning of the tree;
   instantiated to the SyncIterate and SyncGetPrefixes builders. *)
From Verif Require Import Lib.Base Mkvs.Trie Mkvs.BitsProofs Mkvs.AlistProofs Mkvs.TrieProofs
  Mkvs.HashProofs Gen.ProofConsts MkvsProof.Model MkvsProof.Sound MkvsProof.Complete
  MkvsProof.Remote MkvsProof.Iter.

Section G.
  Variable H : bytes -> bytes.
  Hypothesis Hlen : forall x, length (H x) = HASH_SIZE.
  Variable ver : N.
  Variable inc : list dir -> bool.

  (* the partial tree such a proof describes *)
  Fixpoint gprune (pid : list dir) (t : tree) : ptree :=
    if negb (inc pid) then ph H t
    else
      match t with
      | Nil => PNil
      | Leaf k0 v0 => PLeaf k0 v0
      | Node lbl lf l r =>
          pself lbl (lfslot H ver (inc (pid ++ [DF])) lf)
                (gprune (pid ++ [DL]) l) (gprune (pid ++ [DR]) r)
      end.

  Lemma gprune_hash t : forall pid, phash H (gprune pid t) = root_hash H t.
  Proof.
    induction t as [|k0 v0|lbl lf l IHl r IHr]; intros pid; cbn [gprune];
      destruct (inc pid); cbn [negb]; try apply ph_hash; try reflexivity.
    apply pself_hash; auto using lfslot_hash.
  Qed.

  Lemma ph_prunes t : prunes H (ph H t) t.
  Proof. destruct t; cbn; auto. Qed.

  Lemma lfslot_prunes b lf : prunes_lf H (lfslot H ver b lf) lf.
  Proof.
    unfold lfslot. destruct (ver =? 0), b; destruct lf as [[k0 v0]|]; cbn; auto.
  Qed.

  Lemma gprune_prunes t : forall pid, prunes H (gprune pid t) t.
  Proof.
    induction t as [|k0 v0|lbl lf l IHl r IHr]; intros pid; cbn [gprune];
      destruct (inc pid); cbn [negb]; try apply ph_prunes; try reflexivity.
    unfold pself. cbn [prunes]. auto using lfslot_prunes.
  Qed.

  Lemma gbuild_parses t : forall pid, parses ver (height t) (gbuild H ver inc pid t) (gprune pid t).
  Proof.
    induction t as [|k0 v0|lbl lf l IHl r IHr]; intros pid; cbn [gbuild gprune];
      destruct (inc pid); cbn [negb].
    - apply (parses_nil H Hlen ver []).
    - apply (parses_ph H Hlen ver [] Nil).
    - apply (parses_leaf H Hlen ver).
    - apply (parses_ph H Hlen ver [] (Leaf k0 v0)).
    - cbn [height].
      assert (1 <= Nat.max (height l) (height r))%nat as Hn
        by (pose proof (height_pos H Hlen [] l); lia).
      apply (parses_node H Hlen ver [] _ lbl lf (inc (pid ++ [DF]))); auto.
      + eapply (parses_mono H Hlen ver []); [|apply IHl]. lia.
      + eapply (parses_mono H Hlen ver []); [|apply IHr]. lia.
    - apply (parses_ph H Hlen ver [] (Node lbl lf l r)).
  Qed.

  Lemma gbuild_nonempty pid t : gbuild H ver inc pid t <> [].
  Proof. destruct t; cbn [gbuild]; destruct (inc pid); cbn; discriminate. Qed.

  Theorem gbuild_verifies t :
    ver <= 1 -> (height t <= 129)%nat ->
    exists p, verify H ver (root_hash H t) (root_hash H t) (gbuild H ver inc [] t) = ROk p /\
              (prunes H p t \/ collision H) /\
              (p = gprune [] t \/ (p = PNil /\ root_hash H t = H [])).
  Proof.
    intros Hv Hh. unfold verify.
    destruct (N.ltb_spec 1 ver) as [L|_]; [lia|].
    rewrite bytes_eqb_refl. cbn [negb].
    pose proof (gbuild_nonempty [] t) as NE.
    pose proof (gbuild_parses t [] VP_FUEL 0 []) as P. rewrite app_nil_r in P.
    destruct (gbuild H ver inc [] t) as [|e es] eqn:Eb; [contradiction|].
    rewrite P; [|unfold VP_FUEL; lia|lia].
    rewrite gprune_hash, bytes_eqb_refl.
    destruct (bytes_eqb (root_hash H t) (H [])) eqn:Z.
    - exists PNil. split; [reflexivity|]. apply bytes_eqb_eq in Z. split; [|auto].
      destruct (empty_root H t Z) as [->|C]; [left; reflexivity|auto].
    - exists (gprune [] t). split; [reflexivity|]. split; [left; apply gprune_prunes|auto].
  Qed.

  (* every included leaf whose ancestors are all included is readable *)
End G.

Section Builders.
  Variable H : bytes -> bytes.
  Hypothesis Hlen : forall x, length (H x) = HASH_SIZE.

  Theorem iterate_proof_verifies_l ver t key prefetch :
    ver <= 1 -> (height t <= 129)%nat ->
    exists p, verify H ver (root_hash H t) (root_hash H t) (build_iter_proof H ver t key prefetch) = ROk p /\
              (prunes H p t \/ collision H).
  Proof.
    intros Hv Hh. unfold build_iter_proof.
    destruct (gbuild_verifies H Hlen ver (fun pid => inb pid (iter_included t key prefetch)) t Hv Hh)
      as (p & E & P & _). eauto.
  Qed.

  Theorem prefixes_proof_verifies_l ver t prefixes limit :
    ver <= 1 -> (height t <= 129)%nat ->
    exists p, verify H ver (root_hash H t) (root_hash H t) (build_prefixes_proof H ver t prefixes limit) = ROk p /\
              (prunes H p t \/ collision H).
  Proof.
    intros Hv Hh. unfold build_prefixes_proof.
    destruct (gbuild_verifies H Hlen ver (fun pid => inb pid (prefixes_included t prefixes limit)) t Hv Hh)
      as (p & E & P & _). eauto.
  Qed.
End Builders.

(* non-vacuity / behaviour on the example tree: iterating from [1;2] with
   prefetch 1 covers exactly the next two items, in both versions *)
Example ex_iterate_covers :
  forall ver, In ver [0; 1] ->
    match verify Examples.Hc ver (root_hash Examples.Hc Examples.ex_t) (root_hash Examples.Hc Examples.ex_t)
                 (build_iter_proof Examples.Hc ver Examples.ex_t [1; 2] 1) with
    | ROk p => plookup 0 [1; 2; 3] p = Found [11] /\ plookup 0 [1; 2; 4] p = Found [12] /\
               plookup 0 [128] p = Unknown
    | RErr _ => False
    end.
Proof. intros ver [<-|[<-|[]]]; vm_compute; repeat split. Qed.

Example ex_prefixes_covers :
  match verify Examples.Hc 0 (root_hash Examples.Hc Examples.ex_t) (root_hash Examples.Hc Examples.ex_t)
               (build_prefixes_proof Examples.Hc 0 Examples.ex_t [[1; 2]; [128]] 10) with
  | ROk p => plookup 0 [1; 2; 3] p = Found [11] /\ plookup 0 [1; 2; 4] p = Found [12] /\
             plookup 0 [128] p = Found [13]
  | RErr _ => False
  end.
Proof. vm_compute. repeat split. Qed.

(* G: the constants read from syncer/proof.go are the ones the model was written for *)
Lemma gen_consts_expected_l :
  max_proof_depth = 128 /\ min_proof_version = 0 /\ latest_proof_version = 1 /\
  proof_entry_full = 1 /\ proof_entry_hash = 2 /\ MAX_PROOF_DEPTH = max_proof_depth.
Proof. repeat split. Qed.
