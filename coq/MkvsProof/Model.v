(* Model of the MKVS Merkle proofs of oasis-core (go/storage/mkvs/syncer/proof.go,
   lookup.go, cache.go), at the STRUCTURED level: a proof entry is what
   node.UnmarshalBinary returns for it (the byte-level decoders are C16's).
   Executable definitions only; proofs are in MkvsProof/Proofs.v.

   Builds on the trie model Mkvs/Trie.v (tree, lookup, hash_expr, root_hash). *)
From Verif Require Import Lib.Base Mkvs.Trie Gen.ProofConsts.

(* hash.Size (common/crypto/hash): every hash.Hash is a [32]byte; an 0x02 entry
   whose payload is not exactly 32 bytes fails hash.UnmarshalBinary (proof.go:420) *)
Definition HASH_SIZE : nat := 32.
(* proof.go:20 maxProofDepth, regenerated from the source (Gen/ProofConsts.v) *)
Definition MAX_PROOF_DEPTH : N := max_proof_depth.

(* ------------------------------------------------------------------ *)
(* Partial trees: what ProofVerifier.VerifyProof returns               *)
(* ------------------------------------------------------------------ *)
(* A *node.Pointer tree: nil pointer, pointer with only a hash, pointer to a
   LeafNode, pointer to an InternalNode.  The label of an internal node is kept
   as the raw pair (LabelBitLength, Label bytes) because the verifier hashes the
   bytes as received (padding bits included, node.go:355).  The LeafNode slot is
   a full [ptree]: in a version 1 proof it is filled by a recursive verifyProof
   call (proof.go:386) and so can hold anything an entry can describe. *)
Inductive ptree :=
| PNil
| PHash (h : bytes)
| PLeaf (k v : bytes)
| PNode (bl : N) (lb : bytes) (lf l r : ptree).

(* hash of a pointer: Pointer.GetHash (node.go:196) of what verifyProof built:
   nil -> empty hash; hash entry -> the hash as given; full nodes -> recomputed
   (LeafNode.UpdateHash in SizedUnmarshalBinary node.go:672, InternalNode.UpdateHash
   proof.go:407) *)
Fixpoint phash_expr (p : ptree) : hexpr :=
  match p with
  | PNil => empty_hexpr
  | PHash h => HBytes h
  | PLeaf k v => leaf_hexpr k v
  | PNode bl lb lf l r =>
      HHash (HCat (HBytes [PREFIX_INTERNAL])
            (HCat (HBytes (le_bytes 2 bl))
            (HCat (HBytes lb)
            (HCat (phash_expr lf)
            (HCat (phash_expr l) (phash_expr r))))))
  end.
Definition phash (H : bytes -> bytes) (p : ptree) : bytes := eval_hexpr H (phash_expr p).

(* ------------------------------------------------------------------ *)
(* Proof entries                                                        *)
(* ------------------------------------------------------------------ *)
(* the result of node.UnmarshalBinary on the payload of an 0x01 entry:
   a leaf (key, value) or an internal node (LabelBitLength, Label, embedded
   LeafNode or nil, and -- when the entry carries the FULL, non-compact
   encoding, node.go:520-545 -- the claimed Left/Right hashes [claimed]).
   verifyProof overwrites Left/Right with what the following entries give and
   recomputes the hash (proof.go:396-407), so [claimed] never enters a hash;
   trailing bytes are ignored by the decoder. *)
Inductive nodesum :=
| NLeaf (k v : bytes)
| NInt (bl : N) (lb : bytes) (lf : option (bytes * bytes)) (claimed : option (bytes * bytes)).

Inductive pentry :=
| ENil                    (* entry == nil              proof.go:359 *)
| EFull (n : nodesum)     (* 0x01 || node              proof.go:367 *)
| EHash (h : bytes)       (* 0x02 || hash              proof.go:417 *)
| EBad.                   (* anything else: empty non-nil entry, unknown tag,
                             undecodable node (proof.go:362,371,426) *)

Inductive verr := EVersion | EUntrusted | EEmpty | EMalformed | EDepth | EUnused | EBadRoot | EFuel.

Inductive vres :=
| VOk (p : ptree) (rest : list pentry)
| VErr (e : verr).

Definition olf_ptree (lf : option (bytes * bytes)) : ptree :=
  match lf with None => PNil | Some (k, v) => PLeaf k v end.

(* verifyProof, proof.go:347-428.  [es] is proof.Entries[idx:], the returned
   rest is proof.Entries[pos:].  [fuel] only makes the recursion structural:
   because of the depth check, fuel 130 is never exhausted
   (Proofs.vp_fuel_enough). *)
Fixpoint vp (fuel : nat) (ver : N) (depth : N) (es : list pentry) : vres :=
  match fuel with
  | O => VErr EFuel
  | S f =>
      match es with
      | [] => VErr EMalformed                                        (* :351 idx >= len *)
      | e :: rest =>
          if MAX_PROOF_DEPTH <? depth then VErr EDepth               (* :354 *)
          else
            match e with
            | ENil => VOk PNil rest                                  (* :359 *)
            | EBad => VErr EMalformed                                (* :362 :371 :426 *)
            | EHash h =>                                             (* :417-424 *)
                if (length h =? HASH_SIZE)%nat then VOk (PHash h) rest else VErr EMalformed
            | EFull (NLeaf k v) => VOk (PLeaf k v) rest              (* :369, :410 *)
            | EFull (NInt bl lb lf _) =>                             (* :376-408; claimed child hashes unused: :396-407 *)
                let rlf :=
                  if ver =? 0 then VOk (olf_ptree lf) rest           (* :378 leaf is embedded *)
                  else vp f ver (depth + 1) rest in                  (* :386 leaf is a child *)
                match rlf with
                | VErr e => VErr e
                | VOk plf rest1 =>
                    match vp f ver (depth + 1) rest1 with            (* :396 left *)
                    | VErr e => VErr e
                    | VOk pl rest2 =>
                        match vp f ver (depth + 1) rest2 with        (* :401 right *)
                        | VErr e => VErr e
                        | VOk pr rest3 => VOk (PNode bl lb plf pl pr) rest3
                        end
                    end
                end
            end
      end
  end.

Definition VP_FUEL : nat := 130.

Inductive result :=
| ROk (p : ptree)
| RErr (e : verr).

(* verifyProofOpts, proof.go:301-345.  [root] is the trusted root, [untrusted]
   is proof.UntrustedRoot. *)
Definition verify (H : bytes -> bytes) (ver : N) (root untrusted : bytes) (es : list pentry) : result :=
  if 1 <? ver then RErr EVersion                                     (* :302 *)
  else if negb (bytes_eqb untrusted root) then RErr EUntrusted       (* :308 *)
  else
    match es with
    | [] => RErr EEmpty                                              (* :314 *)
    | _ :: _ =>
        match vp VP_FUEL ver 0 es with                               (* :319 *)
        | VErr e => RErr e
        | VOk p rest =>
            match rest with
            | _ :: _ => RErr EUnused                                 (* :325 *)
            | [] =>
                let h := phash H p in                                (* :328 *)
                if bytes_eqb h root then                             (* :335 *)
                  ROk (if bytes_eqb h (H []) then PNil else p)       (* :329-333 *)
                else RErr EBadRoot
            end
        end
    end.

(* the write log of VerifyProofToWriteLog: every LeafNode reached, in visiting
   order (proof.go:270-279, :381, :413): an internal node's leaf, then left,
   then right *)
Fixpoint pleaves (p : ptree) : list (bytes * bytes) :=
  match p with
  | PNil | PHash _ => []
  | PLeaf k v => [(k, v)]
  | PNode _ _ lf l r => pleaves lf ++ pleaves l ++ pleaves r
  end.

Definition verify_to_writelog (H : bytes -> bytes) (ver : N) (root untrusted : bytes) (es : list pentry)
  : option (list (bytes * bytes)) :=
  match vp VP_FUEL ver 0 es, verify H ver root untrusted es with
  | VOk p _, ROk _ => Some (pleaves p)
  | _, _ => None
  end.

(* ------------------------------------------------------------------ *)
(* Lookup in a partial tree                                             *)
(* ------------------------------------------------------------------ *)
Inductive pres := Found (v : bytes) | Absent | Unknown.

(* what a proof determines about key [k]: doGet (lookup.go:98-196) walked over
   the partial tree, [Unknown] when the walk reaches a pointer that carries only
   a hash.  [d] = bitDepth. *)
Fixpoint plookup (d : N) (k : bytes) (p : ptree) : pres :=
  match p with
  | PNil => Absent                                                   (* :125 *)
  | PHash _ => Unknown
  | PLeaf k' v' => if bytes_eqb k' k then Found v' else Absent       (* :186 *)
  | PNode bl _ lf l r =>
      let d' := d + bl in                                            (* :130 *)
      let kl := N.of_nat (length (bits_of k)) in
      if kl =? d' then plookup d' k lf                               (* :133-150 *)
      else if kl <? d' then Absent                                   (* :153 *)
      else if bit (bits_of k) (N.to_nat d') then plookup d' k r else plookup d' k l
  end.

(* what Tree.Get of a tree created with NewWithRoot answers after the verified
   subtree was merged at the root and no further fetch succeeds: doGet +
   cache.derefNodePtr (cache.go:333-383).  Differences from [plookup]:
   a hash-only pointer whose hash is the empty hash is a nil node (:356);
   an internal node that is already in memory when it is dereferenced and whose
   LeafNode pointer is hash-only is re-fetched as a whole (:343-349), whatever
   the key.  The node that the fetch itself just delivered ([fresh]: the root
   of the merged subtree) is returned without that test (:372-378). *)
Definition is_phash (p : ptree) : bool := match p with PHash _ => true | _ => false end.

Fixpoint plookup_go (H : bytes -> bytes) (fresh : bool) (d : N) (k : bytes) (p : ptree) : pres :=
  match p with
  | PNil => Absent
  | PHash h => if bytes_eqb h (H []) then Absent else Unknown
  | PLeaf k' v' => if bytes_eqb k' k then Found v' else Absent
  | PNode bl _ lf l r =>
      if negb fresh && is_phash lf then Unknown
      else
        let d' := d + bl in
        let kl := N.of_nat (length (bits_of k)) in
        if kl =? d' then plookup_go H false d' k lf
        else if kl <? d' then Absent
        else if bit (bits_of k) (N.to_nat d') then plookup_go H false d' k r
        else plookup_go H false d' k l
  end.

(* ------------------------------------------------------------------ *)
(* The proof builder for a key lookup                                   *)
(* ------------------------------------------------------------------ *)
Section Build.
  Variable H : bytes -> bytes.
  Variable ver : N.
  Variable sib : bool.          (* GetRequest.IncludeSiblings *)
  Variable k : bytes.

  (* ProofBuilder.build for a pointer whose node was NOT included:
     nil entry for a nil pointer (empty hash), else the hash (proof.go:227-241) *)
  Definition hent (t : tree) : pentry :=
    match t with Nil => ENil | _ => EHash (root_hash H t) end.
  Definition hent_lf (lf : option (bytes * bytes)) : pentry :=
    match lf with None => ENil | Some (k0, v0) => EHash (eval_hexpr H (leaf_hexpr k0 v0)) end.
  Definition full_lf (lf : option (bytes * bytes)) : pentry :=
    match lf with None => ENil | Some (k0, v0) => EFull (NLeaf k0 v0) end.

  (* the 0x01 entry of an internal node: CompactMarshalBinaryV0 carries the leaf,
     CompactMarshalBinaryV1 never does (node.go:406-441) *)
  Definition self_entry (lbl : path) (lf : option (bytes * bytes)) : pentry :=
    EFull (NInt (N.of_nat (length lbl)) (pack lbl) (if ver =? 0 then lf else None) None).

  (* in version 1 the LeafNode pointer is the first child (proof.go:152-158) *)
  Definition v1 (e : pentry) : list pentry := if ver =? 0 then [] else [e].

  (* a pointer visited with stop=true (lookup.go:118-121): only the node itself
     is included, its children appear as hashes *)
  Definition stub (t : tree) : list pentry :=
    match t with
    | Nil => [ENil]
    | Leaf k0 v0 => [EFull (NLeaf k0 v0)]
    | Node lbl lf l r => self_entry lbl lf :: v1 (hent_lf lf) ++ [hent l; hent r]
    end.

  Definition side (t : tree) : list pentry := if sib then stub t else [hent t].

  (* doGet with a proof builder (lookup.go:98-196) fused with the pre-order
     ProofBuilder.build (proof.go:222-254) *)
  Fixpoint bgp (d : nat) (t : tree) : list pentry :=
    match t with
    | Nil => [ENil]
    | Leaf k0 v0 => [EFull (NLeaf k0 v0)]
    | Node lbl lf l r =>
        let d' := (d + length lbl)%nat in
        let kl := length (bits_of k) in
        if (kl =? d')%nat then                                       (* :133 key ends here *)
          self_entry lbl lf :: v1 (full_lf lf) ++ side l ++ side r
        else if (kl <? d')%nat then                                  (* :153 *)
          self_entry lbl lf :: v1 (hent_lf lf) ++ [hent l; hent r]
        else if bit (bits_of k) d' then                              (* :186 right *)
          self_entry lbl lf :: v1 (if sib then full_lf lf else hent_lf lf) ++ side l ++ bgp d' r
        else
          self_entry lbl lf :: v1 (if sib then full_lf lf else hent_lf lf) ++ bgp d' l ++ side r
    end.

  Definition build_get_proof (t : tree) : list pentry := bgp 0 t.
End Build.

(* number of proof-entry levels of a tree: every pointer (nil ones too) of an
   included internal node is verified one level deeper (proof.go:386-401) *)
Fixpoint height (t : tree) : nat :=
  match t with
  | Nil => 1%nat
  | Leaf _ _ => 1%nat
  | Node _ _ l r => S (Nat.max (height l) (height r))
  end.
