(* Soundness of proof verification: an accepted proof describes the real tree
   with some subtrees replaced by their hashes, or exhibits a collision of H. *)
From Verif Require Import Lib.Base Mkvs.Trie Mkvs.BitsProofs Mkvs.AlistProofs Mkvs.TrieProofs
  Mkvs.HashProofs Gen.ProofConsts MkvsProof.Model.

(* the fields of a decoded entry fit the fixed-width wire fields they were read
   from: LabelBitLength is a uint16 (node.Depth), the key length is read from a
   uint16 and the value length from a uint32 field (node.go:640-660) *)
Definition lf_wire (lf : option (bytes * bytes)) : Prop :=
  match lf with
  | None => True
  | Some (k, v) => N.of_nat (length k) < 2 ^ 32 /\ N.of_nat (length v) < 2 ^ 32
  end.
Definition entry_wire (e : pentry) : Prop :=
  match e with
  | EFull (NLeaf k v) => N.of_nat (length k) < 2 ^ 32 /\ N.of_nat (length v) < 2 ^ 32
  | EFull (NInt bl _ lf _) => bl < 2 ^ 16 /\ lf_wire lf
  | _ => True
  end.

Fixpoint pwf (p : ptree) : Prop :=
  match p with
  | PNil => True
  | PHash h => length h = HASH_SIZE
  | PLeaf k v => N.of_nat (length k) < 2 ^ 32 /\ N.of_nat (length v) < 2 ^ 32
  | PNode bl _ lf l r => bl < 2 ^ 16 /\ pwf lf /\ pwf l /\ pwf r
  end.

Definition of_opt (o : option bytes) : pres :=
  match o with Some v => Found v | None => Absent end.

Section Sound.
  Variable H : bytes -> bytes.
  Hypothesis Hlen : forall x, length (H x) = HASH_SIZE.

  (* [prunes p t]: the partial tree [p] is the tree [t] with some subtrees (or
     LeafNode pointers) replaced by their hashes *)
  Definition prunes_lf (lf : ptree) (olf : option (bytes * bytes)) : Prop :=
    match lf with
    | PNil => olf = None
    | PHash h => h = eval_hexpr H (opt_leaf_hexpr olf)
    | PLeaf k v => olf = Some (k, v)
    | PNode _ _ _ _ _ => False
    end.

  Fixpoint prunes (p : ptree) (t : tree) : Prop :=
    match p with
    | PNil => t = Nil
    | PHash h => h = root_hash H t
    | PLeaf k v => t = Leaf k v
    | PNode bl lb lf l r =>
        match t with
        | Node lbl olf tl tr =>
            bl = N.of_nat (length lbl) /\ lb = pack lbl /\
            prunes_lf lf olf /\ prunes l tl /\ prunes r tr
        | _ => False
        end
    end.

  (* ---------------- hash pre-images ---------------- *)
  Definition pnode_pre (bl : N) (lb hlf hl hr : bytes) : bytes :=
    [PREFIX_INTERNAL] ++ le_bytes 2 bl ++ lb ++ hlf ++ hl ++ hr.

  Lemma phash_node bl lb lf l r :
    phash H (PNode bl lb lf l r) = H (pnode_pre bl lb (phash H lf) (phash H l) (phash H r)).
  Proof. reflexivity. Qed.

  Lemma phash_len p : pwf p -> length (phash H p) = HASH_SIZE.
  Proof. destruct p; cbn; intros W; try apply Hlen. exact W. Qed.

  Lemma pnode_pre_inj bl lb a b c lbl a' b' c' :
    bl < 2 ^ 16 -> N.of_nat (length lbl) < 2 ^ 16 ->
    length a = HASH_SIZE -> length a' = HASH_SIZE -> length b = HASH_SIZE -> length b' = HASH_SIZE ->
    length c = HASH_SIZE -> length c' = HASH_SIZE ->
    pnode_pre bl lb a b c = node_pre lbl a' b' c' ->
    bl = N.of_nat (length lbl) /\ lb = pack lbl /\ a = a' /\ b = b' /\ c = c'.
  Proof.
    intros Bl Bl' La La' Lb Lb' Lc Lc' E. unfold pnode_pre, node_pre in E.
    apply app_inv_len in E as [_ E]; [|reflexivity].
    apply app_inv_len in E as [E1 E]; [|now rewrite !le_bytes_len].
    apply (le_bytes_inj 2) in E1; [|exact Bl|exact Bl'].
    assert (length lb = length (pack lbl)) as Ll.
    { apply (f_equal (@length N)) in E. rewrite !app_length in E. lia. }
    apply app_inv_len in E as [E2 E]; [|exact Ll].
    apply app_inv_len in E as [E3 E]; [|congruence].
    apply app_inv_len in E as [E4 E5]; [|congruence]. auto.
  Qed.

  Lemma nil_ne_leaf_pre k v : [] <> leaf_pre k v.
  Proof. discriminate. Qed.
  Lemma nil_ne_node_pre lbl a b c : [] <> node_pre lbl a b c.
  Proof. discriminate. Qed.
  Lemma leaf_ne_node_pre k v lbl a b c : leaf_pre k v <> node_pre lbl a b c.
  Proof. discriminate. Qed.
  Lemma leaf_ne_pnode_pre k v bl lb a b c : leaf_pre k v <> pnode_pre bl lb a b c.
  Proof. discriminate. Qed.
  Lemma nil_ne_pnode_pre bl lb a b c : [] <> pnode_pre bl lb a b c.
  Proof. discriminate. Qed.

  Lemma opt_none_eval : eval_hexpr H (opt_leaf_hexpr None) = H [].
  Proof. reflexivity. Qed.
  Lemma opt_some_eval k v : eval_hexpr H (opt_leaf_hexpr (Some (k, v))) = H (leaf_pre k v).
  Proof. reflexivity. Qed.
  Lemma root_nil : root_hash H Nil = H [].
  Proof. reflexivity. Qed.
  Lemma root_leaf k v : root_hash H (Leaf k v) = H (leaf_pre k v).
  Proof. reflexivity. Qed.

  Lemma coll x y : x <> y -> H x = H y -> collision H.
  Proof. intros N E. exists x, y. auto. Qed.

  Lemma empty_root t : root_hash H t = H [] -> t = Nil \/ collision H.
  Proof.
    destruct t as [|k v|lbl lf l r]; intros E; auto; right.
    - change (H (leaf_pre k v) = H []) in E. symmetry in E. eapply coll; [|exact E]. apply nil_ne_leaf_pre.
    - rewrite node_hexpr_eval in E. symmetry in E. eapply coll; [|exact E]. apply nil_ne_node_pre.
  Qed.

  (* the LeafNode slot *)
  Lemma lf_prunes lf olf :
    pwf lf -> lf_wire olf ->
    phash H lf = eval_hexpr H (opt_leaf_hexpr olf) -> prunes_lf lf olf \/ collision H.
  Proof.
    intros W B E. destruct lf as [|h|k v|bl lb lf' l r]; cbn [prunes_lf].
    - destruct olf as [[k' v']|]; [|auto]. right.
      change (H [] = H (leaf_pre k' v')) in E. eapply coll; [|exact E]. apply nil_ne_leaf_pre.
    - left. exact E.
    - destruct olf as [[k' v']|].
      + change (H (leaf_pre k v) = H (leaf_pre k' v')) in E.
        apply H_inj_or in E as [E|C]; [|auto]. cbn in W, B. destruct W, B.
        apply leaf_pre_inj in E as [-> ->]; auto.
      + right. change (H (leaf_pre k v) = H []) in E. symmetry in E.
        eapply coll; [|exact E]. apply nil_ne_leaf_pre.
    - right. rewrite phash_node in E. destruct olf as [[k' v']|].
      + rewrite opt_some_eval in E. symmetry in E.
        eapply coll; [|exact E]. apply leaf_ne_pnode_pre.
      + rewrite opt_none_eval in E. symmetry in E. eapply coll; [|exact E]. apply nil_ne_pnode_pre.
  Qed.

  (* any partial tree with the hash of [t] prunes [t] *)
  Theorem hash_prunes p : forall t,
    pwf p -> bounded t -> phash H p = root_hash H t -> prunes p t \/ collision H.
  Proof.
    induction p as [|h|k v|bl lb lf _ l IHl r IHr]; intros t W B E.
    - cbn [prunes]. apply empty_root. symmetry. exact E.
    - left. exact E.
    - cbn [prunes]. destruct t as [|k' v'|lbl olf tl tr].
      + right. change (H (leaf_pre k v) = H []) in E. symmetry in E.
        eapply coll; [|exact E]. apply nil_ne_leaf_pre.
      + change (H (leaf_pre k v) = H (leaf_pre k' v')) in E.
        apply H_inj_or in E as [E|C]; [|auto]. cbn in W, B. destruct W, B.
        apply leaf_pre_inj in E as [-> ->]; auto.
      + right. rewrite node_hexpr_eval in E. change (phash H (PLeaf k v)) with (H (leaf_pre k v)) in E.
        eapply coll; [|exact E]. apply leaf_ne_node_pre.
    - rewrite phash_node in E. cbn [prunes]. destruct t as [|k' v'|lbl olf tl tr].
      + right. rewrite root_nil in E. symmetry in E. eapply coll; [|exact E]. apply nil_ne_pnode_pre.
      + right. rewrite root_leaf in E. symmetry in E.
        eapply coll; [|exact E]. apply leaf_ne_pnode_pre.
      + rewrite node_hexpr_eval in E. apply H_inj_or in E as [E|C]; [|auto].
        cbn [pwf] in W. destruct W as (Wb & Wlf & Wl & Wr).
        cbn [bounded] in B. destruct B as (Bl & Blf & Btl & Btr).
        apply pnode_pre_inj in E as (E1 & E2 & E3 & E4 & E5);
          auto using phash_len, (opt_leaf_len H HASH_SIZE Hlen), (root_hash_len H HASH_SIZE Hlen).
        assert (lf_wire olf) as Bw by (destruct olf as [[? ?]|]; exact Blf).
        destruct (lf_prunes lf olf Wlf Bw E3) as [Plf|C]; auto.
        destruct (IHl tl Wl Btl E4) as [Pl|C]; auto.
        destruct (IHr tr Wr Btr E5) as [Pr|C]; auto.
        left. auto.
  Qed.

  (* ---------------- the verifier ---------------- *)
  Lemma olf_ptree_pwf lf : lf_wire lf -> pwf (olf_ptree lf).
  Proof. destruct lf as [[k v]|]; cbn; auto. Qed.

  Lemma vp_pwf fuel : forall ver depth es p rest,
    Forall entry_wire es -> vp fuel ver depth es = VOk p rest ->
    pwf p /\ Forall entry_wire rest.
  Proof.
    induction fuel as [|f IH]; intros ver depth es p rest F E; [discriminate|].
    cbn [vp] in E. destruct es as [|e es]; [discriminate|].
    destruct (MAX_PROOF_DEPTH <? depth); [discriminate|].
    inversion F as [|e0 es0 We Wes]; subst.
    destruct e as [|[k v|bl lb lf cl]|h|].
    - injection E as <- <-. cbn; auto.
    - injection E as <- <-. cbn in We. cbn; auto.
    - cbn in We. destruct We as [Wb Wlf].
      destruct (ver =? 0).
      + destruct (vp f ver (depth + 1) es) as [pl r2|] eqn:El; [|discriminate].
        destruct (vp f ver (depth + 1) r2) as [pr r3|] eqn:Er; [|discriminate].
        injection E as <- <-.
        destruct (IH _ _ _ _ _ Wes El) as [Pl F2]. destruct (IH _ _ _ _ _ F2 Er) as [Pr F3].
        cbn [pwf]. auto using olf_ptree_pwf.
      + destruct (vp f ver (depth + 1) es) as [plf r1|] eqn:Elf; [|discriminate].
        destruct (vp f ver (depth + 1) r1) as [pl r2|] eqn:El; [|discriminate].
        destruct (vp f ver (depth + 1) r2) as [pr r3|] eqn:Er; [|discriminate].
        injection E as <- <-.
        destruct (IH _ _ _ _ _ Wes Elf) as [Plf F1].
        destruct (IH _ _ _ _ _ F1 El) as [Pl F2]. destruct (IH _ _ _ _ _ F2 Er) as [Pr F3].
        cbn [pwf]. auto.
    - destruct (length h =? HASH_SIZE)%nat eqn:L; [|discriminate]. injection E as <- <-.
      apply Nat.eqb_eq in L. cbn; auto.
    - discriminate.
  Qed.

  (* every entry is consumed exactly once, in order: the verifier returns a
     suffix of its input, strictly shorter *)
  Lemma vp_suffix fuel : forall ver depth es p rest,
    vp fuel ver depth es = VOk p rest ->
    exists used, es = used ++ rest /\ used <> [].
  Proof.
    induction fuel as [|f IH]; intros ver depth es p rest E; [discriminate|].
    cbn [vp] in E. destruct es as [|e es]; [discriminate|].
    destruct (MAX_PROOF_DEPTH <? depth); [discriminate|].
    destruct e as [|[k v|bl lb lf cl]|h|].
    - injection E as <- <-. exists [ENil]. split; [reflexivity|discriminate].
    - injection E as <- <-. eexists [_]. split; [reflexivity|discriminate].
    - destruct (ver =? 0).
      + destruct (vp f ver (depth + 1) es) as [pl r2|] eqn:El; [|discriminate].
        destruct (vp f ver (depth + 1) r2) as [pr r3|] eqn:Er; [|discriminate].
        injection E as <- <-.
        destruct (IH _ _ _ _ _ El) as (u1 & -> & _). destruct (IH _ _ _ _ _ Er) as (u2 & -> & _).
        exists (EFull (NInt bl lb lf cl) :: u1 ++ u2). split; [cbn [app]; now rewrite <- ?app_assoc|discriminate].
      + destruct (vp f ver (depth + 1) es) as [plf r1|] eqn:Elf; [|discriminate].
        destruct (vp f ver (depth + 1) r1) as [pl r2|] eqn:El; [|discriminate].
        destruct (vp f ver (depth + 1) r2) as [pr r3|] eqn:Er; [|discriminate].
        injection E as <- <-.
        destruct (IH _ _ _ _ _ Elf) as (u0 & -> & _).
        destruct (IH _ _ _ _ _ El) as (u1 & -> & _). destruct (IH _ _ _ _ _ Er) as (u2 & -> & _).
        exists (EFull (NInt bl lb lf cl) :: u0 ++ u1 ++ u2). split; [cbn [app]; now rewrite <- ?app_assoc|discriminate].
    - destruct (length h =? HASH_SIZE)%nat; [|discriminate]. injection E as <- <-.
      eexists [_]. split; [reflexivity|discriminate].
    - discriminate.
  Qed.

  (* the recursion never goes deeper than maxProofDepth + 1 levels: the fuel of
     [verify] is never exhausted, and more fuel changes nothing *)
  Lemma vp_fuel_enough fuel : forall ver depth es,
    depth + N.of_nat fuel >= 130 -> (0 < fuel)%nat -> vp fuel ver depth es <> VErr EFuel.
  Proof.
    induction fuel as [|f IH]; intros ver depth es Hf Hpos; [lia|].
    cbn [vp]. destruct es as [|e es]; [discriminate|].
    destruct (MAX_PROOF_DEPTH <? depth) eqn:D; [discriminate|].
    unfold MAX_PROOF_DEPTH, max_proof_depth in D.
    assert (forall es', vp f ver (depth + 1) es' <> VErr EFuel) as IH'.
    { intros es'. apply IH; lia. }
    destruct e as [|[k v|bl lb lf cl]|h|]; try discriminate.
    - destruct (ver =? 0).
      + destruct (vp f ver (depth + 1) es) as [pl r2|e1] eqn:El.
        * destruct (vp f ver (depth + 1) r2) as [pr r3|e2] eqn:Er; [discriminate|].
          intros [= ->]. exact (IH' _ Er).
        * intros [= ->]. exact (IH' _ El).
      + destruct (vp f ver (depth + 1) es) as [plf r1|e0] eqn:Elf.
        * destruct (vp f ver (depth + 1) r1) as [pl r2|e1] eqn:El.
          -- destruct (vp f ver (depth + 1) r2) as [pr r3|e2] eqn:Er; [discriminate|].
             intros [= ->]. exact (IH' _ Er).
          -- intros [= ->]. exact (IH' _ El).
        * intros [= ->]. exact (IH' _ Elf).
    - destruct (length h =? HASH_SIZE)%nat; discriminate.
  Qed.

  Lemma verify_inv ver root untrusted es p :
    verify H ver root untrusted es = ROk p ->
    exists p0, vp VP_FUEL ver 0 es = VOk p0 [] /\ phash H p0 = root /\
               p = (if bytes_eqb root (H []) then PNil else p0) /\
               ver <= 1 /\ untrusted = root /\ es <> [].
  Proof.
    unfold verify. intros E.
    destruct (1 <? ver) eqn:V; [discriminate|].
    destruct (bytes_eqb untrusted root) eqn:U; [|discriminate]. cbn [negb] in E.
    apply bytes_eqb_eq in U.
    destruct es as [|e es]; [discriminate|].
    destruct (vp VP_FUEL ver 0 (e :: es)) as [p0 rest|] eqn:Evp; [|discriminate].
    destruct rest; [|discriminate].
    destruct (bytes_eqb (phash H p0) root) eqn:R; [|discriminate].
    apply bytes_eqb_eq in R. injection E as <-. exists p0. rewrite R.
    repeat split; auto; [lia|discriminate].
  Qed.

  Theorem verify_sound_l ver untrusted es p t :
    verify H ver (root_hash H t) untrusted es = ROk p ->
    Forall entry_wire es -> bounded t ->
    prunes p t \/ collision H.
  Proof.
    intros E F B. apply verify_inv in E as (p0 & Evp & Eh & -> & _).
    destruct (vp_pwf _ _ _ _ _ _ F Evp) as [W _].
    destruct (bytes_eqb (root_hash H t) (H [])) eqn:Z.
    - apply bytes_eqb_eq in Z. cbn [prunes]. apply empty_root. exact Z.
    - apply hash_prunes; auto.
  Qed.

  Lemma verify_never_out_of_fuel ver root untrusted es :
    verify H ver root untrusted es <> RErr EFuel.
  Proof.
    unfold verify. destruct (1 <? ver); [discriminate|].
    destruct (negb (bytes_eqb untrusted root)); [discriminate|].
    destruct es as [|e es]; [discriminate|].
    destruct (vp VP_FUEL ver 0 (e :: es)) as [p0 rest|err] eqn:Evp.
    - destruct rest; [|discriminate]. destruct (bytes_eqb _ _); discriminate.
    - intros [= ->]. revert Evp. apply vp_fuel_enough; unfold VP_FUEL; lia.
  Qed.

  (* ---------------- lookups in a pruned tree ---------------- *)
  Lemma plookup_prunes p : forall t d k,
    prunes p t ->
    plookup (N.of_nat d) k p = Unknown \/ plookup (N.of_nat d) k p = of_opt (lookup d k t).
  Proof.
    induction p as [|h|k0 v0|bl lb lf IHlf l IHl r IHr]; intros t d k P; cbn [prunes] in P.
    - subst t. right. reflexivity.
    - left. reflexivity.
    - subst t. right. cbn [plookup lookup]. destruct (bytes_eqb k0 k); reflexivity.
    - destruct t as [|k' v'|lbl olf tl tr]; try contradiction.
      destruct P as (-> & -> & Plf & Pl & Pr). cbn [plookup lookup].
      rewrite <- Nat2N.inj_add, Nat2N.id.
      set (d' := (d + length lbl)%nat). set (kl := length (bits_of k)).
      destruct (Nat.eqb_spec kl d') as [Ek|Nk].
      + rewrite Ek, N.eqb_refl.
        destruct lf as [|h|k1 v1|]; cbn [prunes_lf] in Plf; cbn [plookup].
        * subst olf. right. reflexivity.
        * left. reflexivity.
        * subst olf. right. destruct (bytes_eqb k1 k); reflexivity.
        * contradiction.
      + destruct (N.eqb_spec (N.of_nat kl) (N.of_nat d')) as [E2|_]; [lia|].
        destruct (Nat.ltb_spec kl d') as [Lt|Ge].
        * destruct (N.ltb_spec (N.of_nat kl) (N.of_nat d')) as [_|G2]; [|lia]. right. reflexivity.
        * destruct (N.ltb_spec (N.of_nat kl) (N.of_nat d')) as [L2|_]; [lia|].
          destruct (bit (bits_of k) d'); [apply IHr|apply IHl]; assumption.
  Qed.

  Theorem plookup_sound_l p t d k :
    prunes p t ->
    (forall v, plookup (N.of_nat d) k p = Found v -> lookup d k t = Some v) /\
    (plookup (N.of_nat d) k p = Absent -> lookup d k t = None).
  Proof.
    intros P. destruct (plookup_prunes p t d k P) as [E|E]; rewrite E.
    - split; [intros v|]; discriminate.
    - destruct (lookup d k t); cbn; split; try intros v'; congruence.
  Qed.

  Definition olf_lookup (k : bytes) (olf : option (bytes * bytes)) : option bytes :=
    match olf with Some (k0, v0) => if bytes_eqb k0 k then Some v0 else None | None => None end.

  Lemma lf_go_prunes lf olf :
    prunes_lf lf olf ->
    (forall fresh d k, plookup_go H fresh d k lf = Unknown \/
                       plookup_go H fresh d k lf = of_opt (olf_lookup k olf)) \/ collision H.
  Proof.
    destruct lf as [|h|k1 v1|]; cbn [prunes_lf]; intros P; try contradiction.
    - subst olf. left. intros fresh d k. right. reflexivity.
    - destruct (bytes_eqb h (H [])) eqn:Z.
      + pose proof Z as Z'. apply bytes_eqb_eq in Z'. subst h.
        destruct olf as [[k0 v0]|].
        * right. rewrite opt_some_eval in Z'. symmetry in Z'. eapply coll; [|exact Z']. apply nil_ne_leaf_pre.
        * left. intros fresh d k. right. cbn [plookup_go]. rewrite Z. reflexivity.
      + left. intros fresh d k. left. cbn [plookup_go]. rewrite Z. reflexivity.
    - subst olf. left. intros fresh d k. right. cbn [plookup_go olf_lookup]. destruct (bytes_eqb k1 k); reflexivity.
  Qed.

  Lemma plookup_go_prunes p : forall t,
    prunes p t ->
    (forall fresh d k, plookup_go H fresh (N.of_nat d) k p = Unknown \/
                       plookup_go H fresh (N.of_nat d) k p = of_opt (lookup d k t)) \/ collision H.
  Proof.
    induction p as [|h|k0 v0|bl lb lf IHlf l IHl r IHr]; intros t P; cbn [prunes] in P.
    - subst t. left. intros fresh d k. right. reflexivity.
    - destruct (bytes_eqb h (H [])) eqn:Z.
      + pose proof Z as Z'. apply bytes_eqb_eq in Z'. subst h.
        destruct (empty_root t Z') as [->|C]; [|auto].
        left. intros fresh d k. right. cbn [plookup_go]. rewrite Z. reflexivity.
      + left. intros fresh d k. left. cbn [plookup_go]. rewrite Z. reflexivity.
    - subst t. left. intros fresh d k. right. cbn [plookup_go lookup]. destruct (bytes_eqb k0 k); reflexivity.
    - destruct t as [|k' v'|lbl olf tl tr]; try contradiction.
      destruct P as (-> & -> & Plf & Pl & Pr).
      destruct (lf_go_prunes lf olf Plf) as [Glf|C]; [|auto].
      destruct (IHl tl Pl) as [Gl|C]; [|auto]. destruct (IHr tr Pr) as [Gr|C]; [|auto].
      left. intros fresh d k. cbn [plookup_go lookup].
      destruct (negb fresh && is_phash lf); [left; reflexivity|].
      rewrite <- Nat2N.inj_add, Nat2N.id.
      set (d' := (d + length lbl)%nat). set (kl := length (bits_of k)).
      destruct (Nat.eqb_spec kl d') as [Ek|Nk].
      + rewrite Ek, N.eqb_refl. exact (Glf false (N.of_nat d') k).
      + destruct (N.eqb_spec (N.of_nat kl) (N.of_nat d')) as [E2|_]; [lia|].
        destruct (Nat.ltb_spec kl d') as [Lt|Ge].
        * destruct (N.ltb_spec (N.of_nat kl) (N.of_nat d')) as [_|G2]; [|lia]. right. reflexivity.
        * destruct (N.ltb_spec (N.of_nat kl) (N.of_nat d')) as [L2|_]; [lia|].
          destruct (bit (bits_of k) d'); [apply Gr|apply Gl].
  Qed.

  (* the write log *)
  Lemma pleaves_prunes p : forall t, prunes p t -> incl (pleaves p) (contents t).
  Proof.
    induction p as [|h|k0 v0|bl lb lf IHlf l IHl r IHr]; intros t P; cbn [prunes] in P; cbn [pleaves].
    - intros x [].
    - intros x [].
    - subst t. cbn. apply incl_refl.
    - destruct t as [|k' v'|lbl olf tl tr]; try contradiction.
      destruct P as (_ & _ & Plf & Pl & Pr). cbn [contents].
      apply incl_app; [|apply incl_app].
      + apply incl_appl. destruct lf as [|h|k1 v1|]; cbn [prunes_lf] in Plf; cbn [pleaves].
        * intros x [].
        * intros x [].
        * subst olf. cbn. apply incl_refl.
        * contradiction.
      + apply incl_appr, incl_appl, IHl, Pl.
      + apply incl_appr, incl_appr, IHr, Pr.
  Qed.
End Sound.
