(* The proof builders of SyncIterate (iterator.go:14-61) and SyncGetPrefixes
   (prefetch.go:55-120) over the trie model: a port of treeIterator.doNext /
   Next (iterator.go:196-330) that records which pointers are dereferenced
   (ProofBuilder.Include), and the generic pre-order ProofBuilder.build over
   a set of included pointer positions.  Executable definitions only.

   Go keys are byte strings whose bit length is 8 * (number of bytes); the
   helper operations below are Key.AppendBit / Key.Split+AppendBit
   (advanceKeyToRight) / Key.Compare on that representation. *)
From Verif Require Import Lib.Base Mkvs.Trie Mkvs.Key Mkvs.Overlay Mkvs.Iter MkvsProof.Model MkvsProof.Remote.

(* The iterator machine is the one of Mkvs/Iter.v (do_next / node_step /
   it_next, proved to refine al_seek in Mkvs/IterLift.v), re-stated over
   PARTIAL trees: a hash-only pointer makes the walk stop with [U3] (the Go
   tree would fetch / fail there), and every dereferenced pointer position is
   recorded (ProofBuilder.Include, iterator.go:236-239). *)
Record patom := mkP { p_state : vstate; p_pid : list dir; p_node : ptree; p_depth : N; p_path : bytes }.

Inductive f3 :=
| F3 (e : bytes * bytes) (stk : list patom)   (* found: it.key/it.value and the new part of it.pos *)
| N3                                          (* nothing here *)
| U3.                                         (* met a pointer that only carries a hash *)

Definition res3 := (f3 * list (list dir))%type.

Definition push3 (r : res3) (a : patom) : res3 :=
  match r with (F3 e stk, R) => (F3 e (stk ++ [a]), R) | x => x end.
Definition orelse3 (r : res3) (k : unit -> res3) : res3 :=
  match r with (N3, R) => let '(f, R') := k tt in (f, R ++ R') | x => x end.

(* Mkvs.Iter.node_step with three-valued results *)
Definition node_step3 (try_lf try_l try_r : bytes -> res3) (nd : N) (npath key : bytes)
           (st : vstate) : res3 :=
  let take_first := (0 <? nd) && (nd <=? k_bitlen key) && cmp_lt key npath in
  let key_not_longer := k_bitlen key <=? nd in
  let from_at (key : bytes) : res3 :=
    let key := if key_not_longer then k_appendbit key nd false else key in
    if negb (k_getbit key nd) || take_first
    then orelse3 (try_l key) (fun _ => try_r (adv_key nd key))
    else try_r key in
  match st with
  | VBefore =>
      if key_not_longer || take_first
      then orelse3 (try_lf key) (fun _ => from_at key)
      else from_at key
  | VAt => from_at key
  | VAtLeft => try_r (adv_key nd key)
  | VAfter => (N3, [])
  end.

Fixpoint pdo (p : ptree) (pid : list dir) (d : N) (path key : bytes) (st : vstate) : res3 :=
  match p with
  | PNil => (N3, [])                                  (* nil pointer: no Include *)
  | PHash _ => (U3, [])
  | PLeaf k v => ((if cmp_lt k key then N3 else F3 (k, v) []), [pid])
  | PNode bl lb lf l r =>
      let nd := d + bl in
      let npath := k_merge path d lb bl in
      let me := fun s => mkP s pid p d path in
      let '(f, R) :=
        node_step3
          (fun key => match lf with
                      | PLeaf k0 v0 =>
                          ((if cmp_lt k0 key then N3 else F3 (k0, v0) [me VAt]), [pid ++ [DF]])
                      | PNil => (N3, [])
                      | _ => (U3, [])
                      end)
          (fun key => push3 (pdo l (pid ++ [DL]) nd npath key VBefore) (me VAtLeft))
          (fun key => push3 (pdo r (pid ++ [DR]) nd npath key VBefore) (me VAfter))
          nd npath key st in
      (f, pid :: R)
  end.

Definition pseek (p : ptree) (key : bytes) : res3 := pdo p [] 0 [] key VBefore.

Fixpoint pit_next (key : bytes) (pos : list patom) : res3 :=
  match pos with
  | [] => (N3, [])
  | a :: rem =>
      match pdo (p_node a) (p_pid a) (p_depth a) (p_path a) key (p_state a) with
      | (F3 e stk, R) => (F3 e (stk ++ rem), R)
      | (N3, R) => let '(f, R') := pit_next key rem in (f, R ++ R')
      | (U3, R) => (U3, R)
      end
  end.

(* Seek then up to [n] Next while valid (SyncIterate, iterator.go:41-47; also
   what a reader of a proof does): the items, or None if a hash was met *)
Fixpoint pcollect (n : nat) (cur : res3) : option (list (bytes * bytes)) * list (list dir) :=
  match cur with
  | (U3, R) => (None, R)
  | (N3, R) => (Some [], R)
  | (F3 e pos, R) =>
      match n with
      | O => (Some [e], R)
      | S m => let '(items, R') := pcollect m (pit_next (fst e) pos) in
               (option_map (cons e) items, R ++ R')
      end
  end.

Definition piter (p : ptree) (key : bytes) (n : nat) : option (list (bytes * bytes)) :=
  fst (pcollect n (pseek p key)).

(* the whole tree as a partial tree *)
Fixpoint full (t : tree) : ptree :=
  match t with
  | Nil => PNil
  | Leaf k v => PLeaf k v
  | Node lbl lf l r => PNode (N.of_nat (length lbl)) (pack lbl) (olf_ptree lf) (full l) (full r)
  end.

Definition iter_included (t : tree) (key : bytes) (prefetch : nat) : list (list dir) :=
  snd (pcollect prefetch (pseek (full t) key)).

(* SyncGetPrefixes (prefetch.go:93-113) / a reader of its proof *)
Fixpoint has_prefix (p k : bytes) : bool :=
  match p, k with
  | [], _ => true
  | x :: p', y :: k' => (x =? y) && has_prefix p' k'
  | _ :: _, [] => false
  end.

Fixpoint pf_inner (fuel : nat) (prefix : bytes) (cur : res3) (total limit : nat)
  : bool * nat * option (list (bytes * bytes)) * list (list dir) :=
  match fuel with
  | O => (true, total, Some [], snd cur)
  | S f =>
      match cur with
      | (U3, R) => (true, total, None, R)
      | (N3, R) => (false, total, Some [], R)
      | (F3 e pos, R) =>
          if (limit <=? total)%nat then (true, total, Some [], R)             (* :100 break prefixLoop *)
          else if negb (has_prefix prefix (fst e)) then (false, total, Some [], R)   (* :103 *)
          else let '(stop, total', items, R') := pf_inner f prefix (pit_next (fst e) pos) (S total) limit in
               (stop, total', option_map (cons e) items, R ++ R')
      end
  end.

Fixpoint pf_outer (p : ptree) (prefixes : list bytes) (total limit : nat)
  : option (list (bytes * bytes)) * list (list dir) :=
  match prefixes with
  | [] => (Some [], [])
  | pre :: rest =>
      let '(stop, total', items, R) := pf_inner (S limit) pre (pseek p pre) total limit in
      if stop then (items, R)
      else let '(items', R') := pf_outer p rest total' limit in
           (match items, items' with Some a, Some b => Some (a ++ b) | _, _ => None end, R ++ R')
  end.

Definition pprefixes (p : ptree) (prefixes : list bytes) (limit : nat) : option (list (bytes * bytes)) :=
  fst (pf_outer p prefixes 0 limit).

Definition prefixes_included (t : tree) (prefixes : list bytes) (limit : nat) : list (list dir) :=
  snd (pf_outer (full t) prefixes 0 limit).

(* ---------------- ProofBuilder.build over included positions ---------------- *)
Definition dir_eqb (a b : dir) : bool :=
  match a, b with DF, DF | DL, DL | DR, DR => true | _, _ => false end.
Definition inb (pid : list dir) (inc : list (list dir)) : bool :=
  existsb (list_eqb dir_eqb pid) inc.

Section GBuild.
  Variable H : bytes -> bytes.
  Variable ver : N.
  Variable inc : list dir -> bool.

  Fixpoint gbuild (pid : list dir) (t : tree) : list pentry :=
    if negb (inc pid) then [hent H t]                                (* proof.go:227-241 *)
    else
      match t with
      | Nil => [ENil]
      | Leaf k0 v0 => [EFull (NLeaf k0 v0)]
      | Node lbl lf l r =>
          self_entry ver lbl lf ::
          v1 ver (if inc (pid ++ [DF]) then full_lf lf else hent_lf H lf) ++
          gbuild (pid ++ [DL]) l ++ gbuild (pid ++ [DR]) r
      end.
End GBuild.

Definition build_iter_proof (H : bytes -> bytes) (ver : N) (t : tree) (key : bytes) (prefetch : nat) : list pentry :=
  let inc := iter_included t key prefetch in gbuild H ver (fun pid => inb pid inc) [] t.

Definition build_prefixes_proof (H : bytes -> bytes) (ver : N) (t : tree) (prefixes : list bytes) (limit : nat) : list pentry :=
  let inc := prefixes_included t prefixes limit in gbuild H ver (fun pid => inb pid inc) [] t.
