(* The proof builders of SyncIterate (iterator.go:14-61) and SyncGetPrefixes
   (prefetch.go:55-120) over the trie model: a port of treeIterator.doNext /
   Next (iterator.go:196-330) that records which pointers are dereferenced
   (ProofBuilder.Include), and the generic pre-order ProofBuilder.build over
   a set of included pointer positions.  Executable definitions only.

   Go keys are byte strings whose bit length is 8 * (number of bytes); the
   helper operations below are Key.AppendBit / Key.Split+AppendBit
   (advanceKeyToRight) / Key.Compare on that representation. *)
From Verif Require Import Lib.Base Mkvs.Trie MkvsProof.Model MkvsProof.Remote.

Definition kv := (bytes * bytes)%type.

Inductive vstate := VBefore | VAt | VAtLeft | VAfter.          (* iterator.go:113-120 *)

(* pathAtom (iterator.go:122-127): pointer position, the node, bitDepth, path bits, state *)
Definition atom := (list dir * tree * nat * path * vstate)%type.

Definition cmp_ge (a b : bytes) : bool :=
  match bytes_cmp a b with Lt => false | _ => true end.
Definition cmp_lt (a b : bytes) : bool :=
  match bytes_cmp a b with Lt => true | _ => false end.

(* key.AppendBit(n, b) for a key with no bits set at or beyond position n *)
Definition append_bit (k : bytes) (n : nat) (b : bool) : bytes :=
  pack (firstn n (bits_of k ++ repeat false n) ++ [b]).
(* advanceKeyToRight (iterator.go:262-265): Split at n, then AppendBit(n, true) *)
Definition advance (k : bytes) (n : nat) : bytes :=
  pack (firstn n (bits_of k) ++ [true]).

Definition res := (option kv * list atom * list (list dir))%type.

Fixpoint donext (t : tree) (pid : list dir) (d : nat) (q : path) (key : bytes) (st : vstate) : res :=
  match t with
  | Nil => (None, [], [])                                            (* :238, no Include for a nil pointer *)
  | Leaf k0 v0 =>                                                    (* :318 *)
      ((if cmp_ge k0 key then Some (k0, v0) else None), [], [pid])
  | Node lbl lf l r =>
      let n := (d + length lbl)%nat in                               (* :243 newBitDepth *)
      let q' := q ++ lbl in                                          (* :244 newPath *)
      let me := fun ps : vstate => (pid, t, d, q, ps) in
      let take_first := ((0 <? n)%nat && (n <=? 8 * length key)%nat && cmp_lt key (pack q'))%bool in   (* :269 *)
      let not_longer := (8 * length key <=? n)%nat in                (* :270 *)
      (* tryNext on the LeafNode pointer (:275) *)
      let leaf_phase : option res * list (list dir) :=
        match st with
        | VBefore =>
            if (not_longer || take_first)%bool then
              match lf with
              | Some (k0, v0) =>
                  if cmp_ge k0 key then (Some (Some (k0, v0), [me VAt], [pid; pid ++ [DF]]), [])
                  else (None, [pid; pid ++ [DF]])
              | None => (None, [pid])
              end
            else (None, [pid])
        | _ => (None, [pid])
        end in
      match leaf_phase with
      | (Some rr, _) => rr
      | (None, inc0) =>
          let right_phase (key2 : bytes) (inc1 : list (list dir)) : res :=
            let '(f, pos, i) := donext r (pid ++ [DR]) n q' key2 VBefore in      (* :296 / :302 *)
            match f with
            | Some _ => (f, pos ++ [me VAfter], inc1 ++ i)
            | None => (None, [], inc1 ++ i)
            end in
          match st with
          | VBefore | VAt =>
              let key1 := if not_longer then append_bit key n false else key in  (* :283 *)
              if (negb (bit (bits_of key1) n) || take_first)%bool then           (* :287 *)
                let '(f, pos, i) := donext l (pid ++ [DL]) n q' key1 VBefore in
                match f with
                | Some _ => (f, pos ++ [me VAtLeft], inc0 ++ i)
                | None => right_phase (advance key1 n) (inc0 ++ i)               (* :291 *)
                end
              else right_phase key1 inc0
          | VAtLeft => right_phase (advance key n) inc0                          (* :300 *)
          | VAfter => (None, [], inc0)
          end
      end
  end.

(* Next (iterator.go:208-248): resume at the innermost atom, pop on failure *)
Fixpoint next_loop (stack : list atom) (key : bytes) : res :=
  match stack with
  | [] => (None, [], [])
  | (pid, t, d, q, st) :: rem =>
      let '(f, pos, i) := donext t pid d q key st in
      match f with
      | Some _ => (f, pos ++ rem, i)
      | None => let '(f', pos', i') := next_loop rem key in (f', pos', i ++ i')
      end
  end.

Definition seek (t : tree) (key : bytes) : res := donext t [] 0 [] key VBefore.

(* SyncIterate: Seek, then up to [n] Next while valid (iterator.go:41-47) *)
Fixpoint iter_n (n : nat) (cur : option kv) (stack : list atom) (inc : list (list dir)) : list (list dir) :=
  match n with
  | O => inc
  | S m =>
      match cur with
      | None => inc
      | Some (k, _) => let '(f, pos, i) := next_loop stack k in iter_n m f pos (inc ++ i)
      end
  end.

Definition iter_included (t : tree) (key : bytes) (prefetch : nat) : list (list dir) :=
  let '(f, pos, i) := seek t key in iter_n prefetch f pos i.

(* SyncGetPrefixes (prefetch.go:93-113) *)
Fixpoint has_prefix (p k : bytes) : bool :=
  match p, k with
  | [], _ => true
  | x :: p', y :: k' => (x =? y) && has_prefix p' k'
  | _ :: _, [] => false
  end.

Fixpoint pf_inner (fuel : nat) (prefix : bytes) (cur : option kv) (stack : list atom)
         (total limit : nat) (inc : list (list dir)) : bool * nat * list (list dir) :=
  match fuel with
  | O => (true, total, inc)
  | S f =>
      match cur with
      | None => (false, total, inc)
      | Some (k, _) =>
          if (limit <=? total)%nat then (true, total, inc)           (* :100 break prefixLoop *)
          else if negb (has_prefix prefix k) then (false, total, inc)   (* :103 *)
          else let '(c', st', i) := next_loop stack k in
               pf_inner f prefix c' st' (S total) limit (inc ++ i)
      end
  end.

Fixpoint pf_outer (t : tree) (prefixes : list bytes) (total limit : nat) (inc : list (list dir)) : list (list dir) :=
  match prefixes with
  | [] => inc
  | p :: rest =>
      let '(f, pos, i) := seek t p in
      let '(stop, total', inc') := pf_inner (S limit) p f pos total limit (inc ++ i) in
      if stop then inc' else pf_outer t rest total' limit inc'
  end.

Definition prefixes_included (t : tree) (prefixes : list bytes) (limit : nat) : list (list dir) :=
  pf_outer t prefixes 0 limit [].

(* ---------------- ProofBuilder.build over included positions ---------------- *)
Definition dir_eqb (a b : dir) : bool :=
  match a, b with DF, DF | DL, DL | DR, DR => true | _, _ => false end.
Definition inb (pid : list dir) (inc : list (list dir)) : bool :=
  existsb (list_eqb dir_eqb pid) inc.

Section GBuild.
  Variable H : bytes -> bytes.
  Variable ver : N.
  Variable inc : list dir -> bool.

  Fixpoint gbuild (pid : list dir) (t : tree) : list pentry :=
    if negb (inc pid) then [hent H t]                                (* proof.go:227-241 *)
    else
      match t with
      | Nil => [ENil]
      | Leaf k0 v0 => [EFull (NLeaf k0 v0)]
      | Node lbl lf l r =>
          self_entry ver lbl lf ::
          v1 ver (if inc (pid ++ [DF]) then full_lf lf else hent_lf H lf) ++
          gbuild (pid ++ [DL]) l ++ gbuild (pid ++ [DR]) r
      end.
End GBuild.

Definition build_iter_proof (H : bytes -> bytes) (ver : N) (t : tree) (key : bytes) (prefetch : nat) : list pentry :=
  let inc := iter_included t key prefetch in gbuild H ver (fun pid => inb pid inc) [] t.

Definition build_prefixes_proof (H : bytes -> bytes) (ver : N) (t : tree) (prefixes : list bytes) (limit : nat) : list pentry :=
  let inc := prefixes_included t prefixes limit in gbuild H ver (fun pid => inb pid inc) [] t.
