(* A remote-backed reader (mkvs.NewWithRoot over an untrusted ReadSyncer):
   the cached partial tree, the merge of verified subtrees by hash equality
   (syncer/merge.go:15-72), the acceptance rule of cache.remoteSync
   (cache.go:385-451: a proof is only accepted for ptr.Hash or for
   syncRoot.Hash), eviction of whole subtrees (cache.removeNode), and the
   partial removal that cache.tryRemoveNode performs when it hits the locked
   pointer (cache.go:243-275) -- the bounded-cache defect, kept as a separate
   step kind that the safety theorem excludes and the refutation uses. *)
From Verif Require Import Lib.Base Mkvs.Trie Mkvs.BitsProofs Mkvs.AlistProofs Mkvs.TrieProofs
  Mkvs.HashProofs MkvsProof.Model MkvsProof.Sound MkvsProof.Final.

(* a pointer position: LeafNode / Left / Right steps from the root pointer *)
Inductive dir := DF | DL | DR.

Fixpoint sub_at (p : ptree) (path : list dir) {struct path} : option ptree :=
  match path with
  | [] => Some p
  | d :: rest =>
      match p with
      | PNode _ _ lf l r => sub_at (match d with DF => lf | DL => l | DR => r end) rest
      | _ => None
      end
  end.

Fixpoint upd_at (p : ptree) (path : list dir) (f : ptree -> ptree) {struct path} : ptree :=
  match path with
  | [] => f p
  | d :: rest =>
      match p with
      | PNode bl lb lf l r =>
          match d with
          | DF => PNode bl lb (upd_at lf rest f) l r
          | DL => PNode bl lb lf (upd_at l rest f) r
          | DR => PNode bl lb lf l (upd_at r rest f)
          end
      | _ => p
      end
  end.

Section Remote.
  Variable H : bytes -> bytes.

  (* MergeVerifiedSubtree, merge.go:15-72: (merged tree, no error).  Only Left
     and Right are merged below an existing internal node; an error stops the
     merge where it is (what was merged before stays). *)
  Fixpoint merge (dst sub : ptree) : ptree * bool :=
    match dst, sub with
    | PNil, _ => (dst, true)                                         (* :21 dst == nil *)
    | _, PNil => (dst, true)                                         (* :21 subtree == nil *)
    | _, _ =>
        if negb (bytes_eqb (phash H dst) (phash H sub)) then (dst, false)   (* :34 hash mismatch *)
        else
          match sub with
          | PHash _ => (dst, true)                                   (* :42 subtree.Node == nil *)
          | _ =>
              match dst with
              | PHash _ => (sub, true)                               (* :47 dst.Node == nil: take it *)
              | PNode bl lb lf l r =>                                (* :52 *)
                  match sub with
                  | PNode _ _ _ sl sr =>
                      let '(l', ok) := merge l sl in
                      if ok then let '(r', ok2) := merge r sr in (PNode bl lb lf l' r', ok2)
                      else (PNode bl lb lf l' r, false)
                  | _ => (dst, false)                                (* type assertion would panic *)
                  end
              | _ => (dst, true)                                     (* :64 clean leaf: untouched *)
              end
          end
    end.

  (* cache.remoteSync for a response received while dereferencing the pointer
     at [path]: which root the proof is checked against, then merge *)
  Definition apply_resp (root : bytes) (p : ptree) (path : list dir)
             (ver : N) (untrusted : bytes) (es : list pentry) : ptree :=
    match sub_at p path with
    | None => p
    | Some cur =>
        let h := phash H cur in                                      (* ptr.Hash *)
        if bytes_eqb untrusted h then                                (* cache.go:399 *)
          match verify H ver h untrusted es with
          | ROk sub => upd_at p path (fun c => fst (merge c sub))
          | RErr _ => p
          end
        else if bytes_eqb untrusted root then                        (* :402 syncRoot.Hash *)
          match verify H ver root untrusted es with
          | ROk sub => fst (merge p sub)
          | RErr _ => p
          end
        else p                                                       (* :405 unknown root *)
    end.

  Inductive rstep :=
  | SResp (path : list dir) (ver : N) (untrusted : bytes) (es : list pentry)
  | SEvict (path : list dir)                    (* removeNode: a cached subtree back to its hash *)
  | SPartialRemove (path : list dir) (d : dir). (* tryRemoveNode hit the locked pointer after
                                                   having nil-ed LeafNode / Left of the node at [path] *)

  Definition apply_step (root : bytes) (p : ptree) (s : rstep) : ptree :=
    match s with
    | SResp path ver untrusted es => apply_resp root p path ver untrusted es
    | SEvict path => upd_at p path (fun c => match c with PNil => PNil | _ => PHash (phash H c) end)
    | SPartialRemove path d =>
        upd_at p path (fun c =>
          match c with
          | PNode bl lb lf l r =>
              match d with
              | DF => PNode bl lb PNil l r
              | DL => PNode bl lb PNil PNil r
              | DR => PNode bl lb PNil PNil PNil
              end
          | _ => c
          end)
    end.

  Definition run_steps (root : bytes) (steps : list rstep) : ptree :=
    fold_left (apply_step root) steps (PHash root).

  (* unbounded cache: tryRemoveNode is never entered with a locked pointer, so
     no partial removal; and response entries are wire-sized *)
  Definition step_ok (s : rstep) : Prop :=
    match s with
    | SResp _ _ _ es => Forall entry_wire es
    | SEvict _ => True
    | SPartialRemove _ _ => False
    end.

  (* an executable Get: answer from the cached tree if it decides the key,
     else one fetch per round for the pointer the walk stopped at *)
  Fixpoint need (fresh : bool) (d : N) (k : bytes) (p : ptree) : option (list dir) :=
    match p with
    | PHash _ => Some []
    | PNode bl _ lf l r =>
        if negb fresh && is_phash lf then Some []
        else
          let d' := d + bl in
          let kl := N.of_nat (length (bits_of k)) in
          if kl =? d' then option_map (cons DF) (need false d' k lf)
          else if kl <? d' then None
          else if bit (bits_of k) (N.to_nat d') then option_map (cons DR) (need false d' k r)
          else option_map (cons DL) (need false d' k l)
    | _ => None
    end.

  Inductive resp := RespErr | RespProof (ver : N) (untrusted : bytes) (es : list pentry).

  Fixpoint rget (root : bytes) (p : ptree) (k : bytes) (rs : list resp) : pres * ptree :=
    match plookup_go H true 0 k p with
    | Unknown =>
        match need true 0 k p, rs with
        | Some path, RespProof ver untrusted es :: rest =>
            let p1 := apply_step root p (SEvict path) in             (* refetch drops the node first *)
            let p2 := apply_resp root p1 path ver untrusted es in
            match sub_at p2 path with
            | Some (PHash _) => (Unknown, p2)                        (* cache.go:377 no node received *)
            | _ => rget root p2 k rest
            end
        | _, _ => (Unknown, p)
        end
    | a => (a, p)
    end.

  (* ------------------------------------------------------------------ *)
  Hypothesis Hlen : forall x, length (H x) = HASH_SIZE.

  Definition otree (olf : option (bytes * bytes)) : tree :=
    match olf with None => Nil | Some (k, v) => Leaf k v end.

  Lemma prunes_lf_otree lf olf : prunes_lf H lf olf <-> prunes H lf (otree olf).
  Proof.
    destruct lf as [|h|k v|]; destruct olf as [[k' v']|]; cbn; split; intros E;
      try congruence; try contradiction; try discriminate.
  Qed.

  Lemma prunes_hash p : forall t, prunes H p t -> phash H p = root_hash H t.
  Proof.
    induction p as [|h|k v|bl lb lf IHlf l IHl r IHr]; intros t P; cbn [prunes] in P.
    - subst. reflexivity.
    - subst. reflexivity.
    - subst. reflexivity.
    - destruct t as [|k' v'|lbl olf tl tr]; try contradiction.
      destruct P as (-> & -> & Plf & Pl & Pr).
      rewrite phash_node, node_hexpr_eval. apply prunes_lf_otree in Plf.
      rewrite (IHlf _ Plf), (IHl _ Pl), (IHr _ Pr).
      destruct olf as [[? ?]|]; reflexivity.
  Qed.

  Lemma bounded_otree olf :
    match olf with None => True | Some (k, v) => N.of_nat (length k) < 2 ^ 32 /\ N.of_nat (length v) < 2 ^ 32 end ->
    bounded (otree olf).
  Proof. destruct olf as [[k v]|]; cbn; auto. Qed.

  (* the subtree at a position prunes the corresponding subtree of [t], and may
     be replaced by anything that does *)
  Lemma prunes_at path : forall p t cur,
    prunes H p t -> bounded t -> sub_at p path = Some cur ->
    exists t', prunes H cur t' /\ bounded t' /\
               forall f, prunes H (f cur) t' -> prunes H (upd_at p path f) t.
  Proof.
    induction path as [|d rest IH]; intros p t cur P B S; simpl in S.
    - assert (cur = p) as -> by congruence. exists t. split; [exact P|]. split; [exact B|]. intros f Pf. exact Pf.
    - destruct p as [| | |bl lb lf l r]; try discriminate.
      cbn [prunes] in P. destruct t as [|k' v'|lbl olf tl tr]; try contradiction.
      destruct P as (E1 & E2 & Plf & Pl & Pr). cbn [bounded] in B. destruct B as (Bl & Bf & Btl & Btr).
      destruct d.
      + apply prunes_lf_otree in Plf.
        destruct (IH lf (otree olf) cur Plf (bounded_otree olf Bf) S) as (t' & Pc & Bt' & Hf).
        exists t'. split; [exact Pc|]. split; [exact Bt'|]. intros f Pf. cbn [upd_at prunes].
        repeat split; auto. apply prunes_lf_otree. apply Hf, Pf.
      + destruct (IH l tl cur Pl Btl S) as (t' & Pc & Bt' & Hf).
        exists t'. split; [exact Pc|]. split; [exact Bt'|]. intros f Pf. cbn [upd_at prunes].
        repeat split; auto.
      + destruct (IH r tr cur Pr Btr S) as (t' & Pc & Bt' & Hf).
        exists t'. split; [exact Pc|]. split; [exact Bt'|]. intros f Pf. cbn [upd_at prunes].
        repeat split; auto.
  Qed.

  Lemma merge_prunes dst : forall sub t,
    prunes H dst t -> prunes H sub t -> prunes H (fst (merge dst sub)) t.
  Proof.
    induction dst as [|h|k v|bl lb lf _ l IHl r IHr]; intros sub t Pd Ps.
    - exact Pd.
    - destruct sub as [|h'|k' v'|bl' lb' lf' l' r']; cbn [merge]; try exact Pd;
        destruct (negb (bytes_eqb _ _)); cbn [fst]; auto.
    - destruct sub as [|h'|k' v'|bl' lb' lf' l' r']; cbn [merge]; try exact Pd;
        destruct (negb (bytes_eqb _ _)); cbn [fst]; auto.
    - destruct sub as [|h'|k' v'|bl' lb' lf' l' r']; cbn [merge]; try exact Pd;
        destruct (negb (bytes_eqb _ _)); cbn [fst]; auto.
      cbn [prunes] in Pd, Ps. destruct t as [|k0 v0|lbl olf tl tr]; try contradiction.
      destruct Pd as (E1 & E2 & Plf & Pl & Pr). destruct Ps as (_ & _ & _ & Psl & Psr).
      specialize (IHl l' tl Pl Psl). specialize (IHr r' tr Pr Psr).
      destruct (merge l l') as [lm okl]. cbn [fst] in IHl.
      destruct okl.
      + destruct (merge r r') as [rm okr]. cbn [fst] in IHr. cbn [fst prunes]. auto.
      + cbn [fst prunes]. auto.
  Qed.

  Lemma upd_at_none path : forall p f, sub_at p path = None -> upd_at p path f = p.
  Proof.
    induction path as [|d rest IH]; intros p f S; [discriminate|].
    cbn [sub_at] in S. destruct p as [| | |bl lb lf l r]; cbn [upd_at]; try reflexivity.
    destruct d; rewrite IH by exact S; reflexivity.
  Qed.

  Lemma apply_step_prunes root p t s :
    root = root_hash H t -> bounded t -> step_ok s ->
    prunes H p t -> prunes H (apply_step root p s) t \/ collision H.
  Proof.
    intros Er B Ok P. destruct s as [path ver untrusted es|path|path d]; cbn [step_ok] in Ok; [| |contradiction].
    - cbn [apply_step]. unfold apply_resp.
      destruct (sub_at p path) as [cur|] eqn:S; [|auto].
      destruct (prunes_at path p t cur P B S) as (t' & Pc & Bt' & Hf).
      destruct (bytes_eqb untrusted (phash H cur)) eqn:E1.
      + rewrite (prunes_hash cur t' Pc).
        destruct (verify H ver (root_hash H t') untrusted es) as [sub|e] eqn:V; [|auto].
        destruct (verify_sound_l H Hlen _ _ _ _ _ V Ok Bt') as [Ps|C]; [|auto].
        left. apply Hf. apply merge_prunes; assumption.
      + destruct (bytes_eqb untrusted root) eqn:E2; [|auto].
        destruct (verify H ver root untrusted es) as [sub|e] eqn:V; [|auto].
        rewrite Er in V.
        destruct (verify_sound_l H Hlen _ _ _ _ _ V Ok B) as [Ps|C]; [|auto].
        left. apply merge_prunes; assumption.
    - cbn [apply_step]. left.
      destruct (sub_at p path) as [cur|] eqn:S.
      + destruct (prunes_at path p t cur P B S) as (t' & Pc & Bt' & Hf).
        apply Hf. destruct cur; try exact Pc; cbn [prunes]; apply prunes_hash; exact Pc.
      + rewrite upd_at_none by exact S. exact P.
  Qed.

  Lemma run_prunes root t steps : forall p,
    root = root_hash H t -> bounded t -> Forall step_ok steps ->
    prunes H p t -> prunes H (fold_left (apply_step root) steps p) t \/ collision H.
  Proof.
    induction steps as [|s rest IH]; intros p Er B F P; cbn [fold_left]; [auto|].
    inversion F as [|s0 r0 Fs Fr]; subst s0 r0.
    destruct (apply_step_prunes root p t s Er B Fs P) as [P'|C]; [|auto].
    apply IH; auto.
  Qed.

  (* Every answer a reader holding only the trusted root can derive -- after
     ANY sequence of responses (honest, corrupt, for sub-pointers or for the
     root, accepted or rejected) and evictions -- is the full replica's answer,
     or no answer (Unknown = the Go tree returns an error). *)
  Theorem remote_tree_safe_l t steps :
    wf t -> bounded t -> Forall step_ok steps ->
    (forall fresh k, agrees t k (plookup_go H fresh 0 k (run_steps (root_hash H t) steps)) /\
                     agrees t k (plookup 0 k (run_steps (root_hash H t) steps))) \/ collision H.
  Proof.
    intros W B F. unfold run_steps.
    destruct (run_prunes (root_hash H t) t steps (PHash (root_hash H t)) eq_refl B F eq_refl) as [P|C]; [|auto].
    destruct (plookup_go_prunes H Hlen _ t P) as [G|C]; [|auto].
    left. intros fresh k. split.
    - apply agrees_of_opt; [exact W|]. exact (G fresh 0%nat k).
    - apply agrees_of_opt; [exact W|]. exact (plookup_prunes H Hlen _ t 0%nat k P).
  Qed.

  (* the write-log / iteration side: whatever leaf the reader can see is a real pair *)
  Theorem remote_tree_leaves_safe_l t steps :
    bounded t -> Forall step_ok steps ->
    incl (pleaves (run_steps (root_hash H t) steps)) (contents t) \/ collision H.
  Proof.
    intros B F. unfold run_steps.
    destruct (run_prunes (root_hash H t) t steps (PHash (root_hash H t)) eq_refl B F eq_refl) as [P|C]; [|auto].
    left. apply pleaves_prunes with (H := H). exact P.
  Qed.

  (* the executable Get over any list of responses *)
  Definition resp_ok (r : resp) : Prop :=
    match r with RespErr => True | RespProof _ _ es => Forall entry_wire es end.

  Theorem rget_safe_l t rs : forall p k,
    wf t -> bounded t -> Forall resp_ok rs -> prunes H p t ->
    (agrees t k (fst (rget (root_hash H t) p k rs)) /\ prunes H (snd (rget (root_hash H t) p k rs)) t)
    \/ collision H.
  Proof.
    induction rs as [|r rest IH]; intros p k W B F P.
    - destruct (plookup_go_prunes H Hlen p t P) as [G|C]; [|auto]. left.
      pose proof (agrees_of_opt t k _ W (G true 0%nat k)) as A. change (N.of_nat 0) with 0 in A.
      cbn [rget]. destruct (plookup_go H true 0 k p); cbn [fst snd]; auto.
      destruct (need true 0 k p); cbn [fst snd agrees]; auto.
    - destruct (plookup_go_prunes H Hlen p t P) as [G|C]; [|auto].
      pose proof (agrees_of_opt t k _ W (G true 0%nat k)) as A. change (N.of_nat 0) with 0 in A.
      cbn [rget]. destruct (plookup_go H true 0 k p) eqn:E; cbn [fst snd]; auto.
      destruct (need true 0 k p) as [path|]; cbn [fst snd agrees]; auto.
      inversion F as [|r0 rs0 Fr Frest]; subst r0 rs0.
      destruct r as [|ver untrusted es]; cbn [fst snd agrees]; auto.
      destruct (apply_step_prunes (root_hash H t) p t (SEvict path) eq_refl B I P) as [P1|C]; [|auto].
      destruct (apply_step_prunes (root_hash H t) _ t (SResp path ver untrusted es) eq_refl B Fr P1) as [P2|C]; [|auto].
      cbn [apply_step] in P2.
      destruct (sub_at _ path) as [[|h| |]|]; cbn [fst snd agrees]; auto; apply IH; auto.
  Qed.
End Remote.

(* ---------------- the bounded-cache defect ---------------- *)
(* With the partial removal of cache.tryRemoveNode (an ancestor keeps its place
   in the cache with LeafNode / Left nil-ed after errRemoveLocked) safety is
   false: a present key resolves absent.  The witness is the shape of the known
   replay: the root's own leaf (the empty key) disappears. *)
Theorem remote_tree_safe_bounded_cache_refuted_l :
  exists H t steps k v,
    (forall x, length (H x) = HASH_SIZE) /\ wf t /\ bounded t /\
    tlookup k t = Some v /\
    plookup_go H true 0 k (run_steps H (root_hash H t) steps) = Absent.
Proof.
  exists Examples.Hc, Examples.ex_t.
  exists [SResp [] 0 (root_hash Examples.Hc Examples.ex_t)
                (build_get_proof Examples.Hc 0 false [1] Examples.ex_t);
          SPartialRemove [] DF].
  exists [], [14].
  split; [exact Examples.Hc_len|]. split; [exact Examples.ex_t_wf|]. split; [exact Examples.ex_t_bounded|].
  split; vm_compute; reflexivity.
Qed.
