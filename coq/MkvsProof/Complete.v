(* Completeness of the key-lookup proof builder: the proof built for any key
   verifies against the tree's root and determines the key. *)
From Verif Require Import Lib.Base Mkvs.Trie Mkvs.BitsProofs Mkvs.AlistProofs Mkvs.TrieProofs
  Mkvs.HashProofs Gen.ProofConsts MkvsProof.Model MkvsProof.Sound.

Section Complete.
  Variable H : bytes -> bytes.
  Hypothesis Hlen : forall x, length (H x) = HASH_SIZE.
  Variable ver : N.
  Variable sib : bool.
  Variable k : bytes.

  (* the partial tree a get-proof describes (same shape as [bgp]) *)
  Definition ph (t : tree) : ptree :=
    match t with Nil => PNil | _ => PHash (root_hash H t) end.
  Definition ph_lf (lf : option (bytes * bytes)) : ptree :=
    match lf with None => PNil | Some (k0, v0) => PHash (eval_hexpr H (leaf_hexpr k0 v0)) end.
  Definition lfslot (full : bool) (lf : option (bytes * bytes)) : ptree :=
    if ver =? 0 then olf_ptree lf else if full then olf_ptree lf else ph_lf lf.
  Definition pself (lbl : path) (plf pl pr : ptree) : ptree :=
    PNode (N.of_nat (length lbl)) (pack lbl) plf pl pr.
  Definition pstub (t : tree) : ptree :=
    match t with
    | Nil => PNil
    | Leaf k0 v0 => PLeaf k0 v0
    | Node lbl lf l r => pself lbl (lfslot false lf) (ph l) (ph r)
    end.
  Definition pside (t : tree) : ptree := if sib then pstub t else ph t.

  Fixpoint bgt (d : nat) (t : tree) : ptree :=
    match t with
    | Nil => PNil
    | Leaf k0 v0 => PLeaf k0 v0
    | Node lbl lf l r =>
        let d' := (d + length lbl)%nat in
        let kl := length (bits_of k) in
        if (kl =? d')%nat then pself lbl (lfslot true lf) (pside l) (pside r)
        else if (kl <? d')%nat then pself lbl (lfslot false lf) (ph l) (ph r)
        else if bit (bits_of k) d' then pself lbl (lfslot sib lf) (pside l) (bgt d' r)
        else pself lbl (lfslot sib lf) (bgt d' l) (pside r)
    end.

  (* ---------------- hashes ---------------- *)
  Lemma ph_hash t : phash H (ph t) = root_hash H t.
  Proof. destruct t; reflexivity. Qed.
  Lemma olf_hash lf : phash H (olf_ptree lf) = eval_hexpr H (opt_leaf_hexpr lf).
  Proof. destruct lf as [[? ?]|]; reflexivity. Qed.
  Lemma ph_lf_hash lf : phash H (ph_lf lf) = eval_hexpr H (opt_leaf_hexpr lf).
  Proof. destruct lf as [[? ?]|]; reflexivity. Qed.
  Lemma lfslot_hash b lf : phash H (lfslot b lf) = eval_hexpr H (opt_leaf_hexpr lf).
  Proof. unfold lfslot. destruct (ver =? 0), b; auto using olf_hash, ph_lf_hash. Qed.
  Lemma pself_hash lbl lf plf pl pr l r :
    phash H plf = eval_hexpr H (opt_leaf_hexpr lf) -> phash H pl = root_hash H l -> phash H pr = root_hash H r ->
    phash H (pself lbl plf pl pr) = root_hash H (Node lbl lf l r).
  Proof.
    intros E1 E2 E3. unfold pself. rewrite phash_node, node_hexpr_eval, E1, E2, E3. reflexivity.
  Qed.
  Lemma pstub_hash t : phash H (pstub t) = root_hash H t.
  Proof.
    destruct t as [|k0 v0|lbl lf l r]; try reflexivity.
    cbn [pstub]. apply pself_hash; auto using lfslot_hash, ph_hash.
  Qed.
  Lemma pside_hash t : phash H (pside t) = root_hash H t.
  Proof. unfold pside. destruct sib; auto using pstub_hash, ph_hash. Qed.
  Lemma bgt_hash t : forall d, phash H (bgt d t) = root_hash H t.
  Proof.
    induction t as [|k0 v0|lbl lf l IHl r IHr]; intros d; try reflexivity.
    cbn [bgt]. destruct (_ =? _)%nat; [|destruct (_ <? _)%nat; [|destruct (bit _ _)]];
      apply pself_hash; auto using lfslot_hash, ph_hash, pside_hash.
  Qed.

  (* ---------------- the proof determines the key ---------------- *)
  Lemma lfslot_true_lookup d lf :
    plookup d k (lfslot true lf) =
    of_opt (match lf with Some (k0, v0) => if bytes_eqb k0 k then Some v0 else None | None => None end).
  Proof.
    unfold lfslot. assert (plookup d k (olf_ptree lf) =
      of_opt (match lf with Some (k0, v0) => if bytes_eqb k0 k then Some v0 else None | None => None end)) as E.
    { destruct lf as [[k0 v0]|]; cbn; [destruct (bytes_eqb k0 k)|]; reflexivity. }
    destruct (ver =? 0); exact E.
  Qed.

  Lemma bgt_lookup t : forall d, plookup (N.of_nat d) k (bgt d t) = of_opt (lookup d k t).
  Proof.
    induction t as [|k0 v0|lbl lf l IHl r IHr]; intros d.
    - reflexivity.
    - cbn [bgt plookup lookup]. destruct (bytes_eqb k0 k); reflexivity.
    - cbn [bgt lookup].
      set (d' := (d + length lbl)%nat). set (kl := length (bits_of k)).
      assert (forall plf pl pr, plookup (N.of_nat d) k (pself lbl plf pl pr) =
                if (kl =? d')%nat then plookup (N.of_nat d') k plf
                else if (kl <? d')%nat then Absent
                else if bit (bits_of k) d' then plookup (N.of_nat d') k pr
                else plookup (N.of_nat d') k pl) as Es.
      { intros plf pl pr. unfold pself. cbn [plookup]. fold kl.
        rewrite <- Nat2N.inj_add, Nat2N.id. fold d'.
        destruct (Nat.eqb_spec kl d') as [Ek|Nk].
        - rewrite Ek, N.eqb_refl. reflexivity.
        - destruct (N.eqb_spec (N.of_nat kl) (N.of_nat d')) as [E2|_]; [lia|].
          destruct (Nat.ltb_spec kl d'); destruct (N.ltb_spec (N.of_nat kl) (N.of_nat d')); try lia; reflexivity. }
      destruct (kl =? d')%nat eqn:E1.
      + rewrite Es. apply lfslot_true_lookup.
      + destruct (kl <? d')%nat eqn:E2.
        * rewrite Es. reflexivity.
        * destruct (bit (bits_of k) d') eqn:E3; rewrite Es; auto.
  Qed.

  (* ---------------- the verifier accepts it ---------------- *)
  (* [parses n X p]: the entry list [X] is consumed by verifyProof as the
     partial tree [p] using at most [n] levels *)
  Definition parses (n : nat) (X : list pentry) (p : ptree) : Prop :=
    forall f depth rest, (n <= f)%nat -> depth + N.of_nat n <= 129 ->
      vp f ver depth (X ++ rest) = VOk p rest.

  Lemma parses_mono n m X p : (n <= m)%nat -> parses n X p -> parses m X p.
  Proof. intros L P f depth rest Hf Hd. apply P; lia. Qed.

  Lemma parses_hent t : parses 1 [hent H t] (ph t).
  Proof.
    intros f depth rest Hf Hd. destruct f as [|f]; [lia|]. cbn [app vp].
    destruct (N.ltb_spec MAX_PROOF_DEPTH depth) as [L|_]; [unfold MAX_PROOF_DEPTH, max_proof_depth in L; lia|].
    destruct t; cbn [hent ph]; try reflexivity;
      rewrite (root_hash_len H HASH_SIZE Hlen), Nat.eqb_refl; reflexivity.
  Qed.
  Lemma parses_hent_lf lf : parses 1 [hent_lf H lf] (ph_lf lf).
  Proof.
    intros f depth rest Hf Hd. destruct f as [|f]; [lia|]. cbn [app vp].
    destruct (N.ltb_spec MAX_PROOF_DEPTH depth) as [L|_]; [unfold MAX_PROOF_DEPTH, max_proof_depth in L; lia|].
    destruct lf as [[k0 v0]|]; cbn [hent_lf ph_lf]; try reflexivity.
    cbn [eval_hexpr leaf_hexpr]. rewrite Hlen, Nat.eqb_refl. reflexivity.
  Qed.
  Lemma parses_full_lf lf : parses 1 [full_lf lf] (olf_ptree lf).
  Proof.
    intros f depth rest Hf Hd. destruct f as [|f]; [lia|]. cbn [app vp].
    destruct (N.ltb_spec MAX_PROOF_DEPTH depth) as [L|_]; [unfold MAX_PROOF_DEPTH, max_proof_depth in L; lia|].
    destruct lf as [[k0 v0]|]; reflexivity.
  Qed.
  Lemma parses_nil : parses 1 [ENil] PNil.
  Proof.
    intros f depth rest Hf Hd. destruct f as [|f]; [lia|]. cbn [app vp].
    destruct (N.ltb_spec MAX_PROOF_DEPTH depth) as [L|_]; [unfold MAX_PROOF_DEPTH, max_proof_depth in L; lia|]. reflexivity.
  Qed.
  Lemma parses_leaf k0 v0 : parses 1 [EFull (NLeaf k0 v0)] (PLeaf k0 v0).
  Proof.
    intros f depth rest Hf Hd. destruct f as [|f]; [lia|]. cbn [app vp].
    destruct (N.ltb_spec MAX_PROOF_DEPTH depth) as [L|_]; [unfold MAX_PROOF_DEPTH, max_proof_depth in L; lia|]. reflexivity.
  Qed.

  (* an internal node: in version 0 the leaf slot is the embedded leaf, in
     version 1 it is parsed from [L] *)
  Lemma parses_node n lbl lf (full : bool) L A B pl pr :
    (1 <= n)%nat ->
    L = (if full then full_lf lf else hent_lf H lf) ->
    parses n A pl -> parses n B pr ->
    parses (S n) (self_entry ver lbl lf :: v1 ver L ++ A ++ B) (pself lbl (lfslot full lf) pl pr).
  Proof.
    intros Hn EL PA PB f depth rest Hf Hd. destruct f as [|f]; [lia|].
    unfold self_entry, v1, lfslot, pself. cbn [app vp].
    destruct (N.ltb_spec MAX_PROOF_DEPTH depth) as [Ld|_]; [unfold MAX_PROOF_DEPTH, max_proof_depth in Ld; lia|].
    destruct (ver =? 0) eqn:V.
    - cbn [app]. rewrite <- app_assoc. rewrite PA by lia. rewrite PB by lia. reflexivity.
    - cbn [app]. rewrite <- app_assoc.
      assert (parses n [L] (if full then olf_ptree lf else ph_lf lf)) as PL.
      { subst L. destruct full; (eapply parses_mono; [exact Hn|]);
          [apply parses_full_lf|apply parses_hent_lf]. }
      change (L :: A ++ B ++ rest) with ([L] ++ A ++ B ++ rest).
      rewrite PL by lia. rewrite PA by lia. rewrite PB by lia. reflexivity.
  Qed.

  Lemma height_pos t : (1 <= height t)%nat.
  Proof. destruct t; cbn; lia. Qed.

  Lemma parses_ph t : parses (height t) [hent H t] (ph t).
  Proof. eapply parses_mono; [apply height_pos|apply parses_hent]. Qed.

  Lemma parses_stub t : parses (height t) (stub H ver t) (pstub t).
  Proof.
    destruct t as [|k0 v0|lbl lf l r]; cbn [stub pstub height].
    - apply parses_nil.
    - apply parses_leaf.
    - change [hent H l; hent H r] with ([hent H l] ++ [hent H r]).
      apply (parses_node _ lbl lf false); auto.
      + pose proof (height_pos l). lia.
      + eapply parses_mono; [|apply parses_ph]. lia.
      + eapply parses_mono; [|apply parses_ph]. lia.
  Qed.

  Lemma parses_side t : parses (height t) (side H ver sib t) (pside t).
  Proof. unfold side, pside. destruct sib; [apply parses_stub|apply parses_ph]. Qed.

  Lemma parses_bgp t : forall d, parses (height t) (bgp H ver sib k d t) (bgt d t).
  Proof.
    induction t as [|k0 v0|lbl lf l IHl r IHr]; intros d.
    - apply parses_nil.
    - apply parses_leaf.
    - cbn [bgp bgt height].
      assert (1 <= Nat.max (height l) (height r))%nat as Hn by (pose proof (height_pos l); lia).
      assert (forall X p, parses (height l) X p -> parses (Nat.max (height l) (height r)) X p) as ML.
      { intros X p. apply parses_mono. lia. }
      assert (forall X p, parses (height r) X p -> parses (Nat.max (height l) (height r)) X p) as MR.
      { intros X p. apply parses_mono. lia. }
      destruct (_ =? _)%nat; [|destruct (_ <? _)%nat; [|destruct (bit _ _)]].
      + apply (parses_node _ lbl lf true); auto using parses_side.
      + change [hent H l; hent H r] with ([hent H l] ++ [hent H r]).
        apply (parses_node _ lbl lf false); auto using parses_ph.
      + apply (parses_node _ lbl lf sib); auto using parses_side.
      + apply (parses_node _ lbl lf sib); auto using parses_side.
  Qed.

  Lemma bgp_nonempty d t : bgp H ver sib k d t <> [].
  Proof.
    destruct t as [|k0 v0|lbl lf l r]; cbn [bgp]; try discriminate.
    destruct (_ =? _)%nat; [|destruct (_ <? _)%nat; [|destruct (bit _ _)]]; discriminate.
  Qed.

  Theorem get_proof_complete_l t :
    ver <= 1 -> (height t <= 129)%nat ->
    exists p, verify H ver (root_hash H t) (root_hash H t) (build_get_proof H ver sib k t) = ROk p /\
              plookup 0 k p <> Unknown /\
              (plookup 0 k p = of_opt (tlookup k t) \/ collision H).
  Proof.
    intros Hv Hh. unfold verify, build_get_proof.
    destruct (N.ltb_spec 1 ver) as [L|_]; [lia|].
    rewrite bytes_eqb_refl. cbn [negb].
    pose proof (bgp_nonempty 0 t) as NE.
    pose proof (parses_bgp t 0%nat VP_FUEL 0 []) as P. rewrite app_nil_r in P.
    destruct (bgp H ver sib k 0 t) as [|e es] eqn:Eb; [contradiction|].
    rewrite P; [|unfold VP_FUEL; lia|lia].
    rewrite bgt_hash, bytes_eqb_refl.
    destruct (bytes_eqb (root_hash H t) (H [])) eqn:Z.
    - exists PNil. split; [reflexivity|]. split; [discriminate|].
      apply bytes_eqb_eq in Z. destruct (empty_root H t Z) as [->|C]; auto.
    - exists (bgt 0 t). split; [reflexivity|].
      pose proof (bgt_lookup t 0%nat) as E. cbn [N.of_nat] in E. rewrite E. split; [|auto].
      unfold tlookup. destruct (lookup 0 k t); discriminate.
  Qed.

  (* the walk of the real remote-backed tree agrees for version 0 proofs
     (the version mkvs requests, lookup.go:12): no LeafNode pointer on the path
     is hash-only and no hash pointer is walked *)
  Lemma bgt_lookup_go t : ver = 0 -> forall fresh d,
    plookup_go H fresh (N.of_nat d) k (bgt d t) = of_opt (lookup d k t).
  Proof.
    intros V0. induction t as [|k0 v0|lbl lf l IHl r IHr]; intros fresh d.
    - reflexivity.
    - cbn [bgt plookup_go lookup]. destruct (bytes_eqb k0 k); reflexivity.
    - cbn [bgt lookup].
      set (d' := (d + length lbl)%nat). set (kl := length (bits_of k)).
      assert (forall b, lfslot b lf = olf_ptree lf) as El by (intros b; unfold lfslot; now rewrite V0).
      assert (forall pl pr, plookup_go H fresh (N.of_nat d) k (pself lbl (olf_ptree lf) pl pr) =
                if (kl =? d')%nat then plookup_go H false (N.of_nat d') k (olf_ptree lf)
                else if (kl <? d')%nat then Absent
                else if bit (bits_of k) d' then plookup_go H false (N.of_nat d') k pr
                else plookup_go H false (N.of_nat d') k pl) as Es.
      { intros pl pr. unfold pself. cbn [plookup_go]. fold kl.
        rewrite <- Nat2N.inj_add, Nat2N.id. fold d'.
        assert (is_phash (olf_ptree lf) = false) as Em by (destruct lf as [[? ?]|]; reflexivity).
        rewrite Em, andb_false_r.
        destruct (Nat.eqb_spec kl d') as [Ek|Nk].
        - rewrite Ek, N.eqb_refl. reflexivity.
        - destruct (N.eqb_spec (N.of_nat kl) (N.of_nat d')) as [E2|_]; [lia|].
          destruct (Nat.ltb_spec kl d'); destruct (N.ltb_spec (N.of_nat kl) (N.of_nat d')); try lia; reflexivity. }
      rewrite !El.
      destruct (kl =? d')%nat eqn:E1.
      + rewrite Es. destruct lf as [[k0 v0]|]; cbn; [destruct (bytes_eqb k0 k)|]; reflexivity.
      + destruct (kl <? d')%nat eqn:E2.
        * rewrite Es. reflexivity.
        * destruct (bit (bits_of k) d') eqn:E3; rewrite Es; auto.
  Qed.
End Complete.
