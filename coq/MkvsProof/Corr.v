(* Correspondence interface used by harness/cmd/mkvsproof: case types, the
   model runner and the comparison function.  Definitions only. *)
From Verif Require Import Lib.Base Mkvs.Trie MkvsProof.Model MkvsProof.Remote MkvsProof.Iter.

(* the hash function as a finite table (pre-image -> SHA-512/256 digest)
   computed by the harness with the real hash; a miss yields [] which can never
   equal a 32-byte digest *)
Definition tab_H (tab : list (bytes * bytes)) (x : bytes) : bytes :=
  match al_get x tab with Some d => d | None => [] end.

Inductive c04_in :=
(* the proof SyncGet builds: tree given by the inserted pairs *)
| CBuild (tab : list (bytes * bytes)) (kvs : list (bytes * bytes)) (ver : N) (sib : bool) (k : bytes)
(* the proofs SyncIterate / SyncGetPrefixes build *)
| CIter (tab : list (bytes * bytes)) (kvs : list (bytes * bytes)) (ver : N) (k : bytes) (prefetch : nat)
| CPrefixes (tab : list (bytes * bytes)) (kvs : list (bytes * bytes)) (ver : N) (prefixes : list bytes) (limit : nat)
(* a group of (version, untrusted root, entries) candidates checked against
   one trusted root; [keys] are then looked up through each accepted one *)
| CVerify (tab : list (bytes * bytes)) (root : bytes) (keys : list bytes)
          (ms : list (N * bytes * list pentry)).

Inductive vout :=
| VRej
| VAcc (wl : list (bytes * bytes)) (ans : list pres).

Inductive c04_out :=
| OBuild (root : bytes) (es : list pentry)
| OVerify (vs : list vout).

(* Tree.Get on a tree created with NewWithRoot whose syncer answers the first
   request with the candidate and fails afterwards: a root pointer with the
   empty hash is nil (cache.go:356) *)
Definition remote_get (H : bytes -> bytes) (root : bytes) (p : ptree) (k : bytes) : pres :=
  if bytes_eqb root (H []) then Absent else plookup_go H true 0 k p.

Definition run_one (H : bytes -> bytes) (root : bytes) (keys : list bytes)
           (m : N * bytes * list pentry) : vout :=
  let '(ver, untrusted, es) := m in
  match verify H ver root untrusted es, verify_to_writelog H ver root untrusted es with
  | ROk p, Some wl => VAcc wl (map (remote_get H root p) keys)
  | _, _ => VRej
  end.

Definition run_c04 (i : c04_in) : c04_out :=
  match i with
  | CBuild tab kvs ver sib k =>
      let H := tab_H tab in
      let t := fold_left (fun t kv => tinsert (fst kv) (snd kv) t) kvs Nil in
      OBuild (root_hash H t) (build_get_proof H ver sib k t)
  | CIter tab kvs ver k prefetch =>
      let H := tab_H tab in
      let t := fold_left (fun t kv => tinsert (fst kv) (snd kv) t) kvs Nil in
      OBuild (root_hash H t) (build_iter_proof H ver t k prefetch)
  | CPrefixes tab kvs ver prefixes limit =>
      let H := tab_H tab in
      let t := fold_left (fun t kv => tinsert (fst kv) (snd kv) t) kvs Nil in
      OBuild (root_hash H t) (build_prefixes_proof H ver t prefixes limit)
  | CVerify tab root keys ms =>
      OVerify (map (run_one (tab_H tab) root keys) ms)
  end.

(* ---------------- comparison ---------------- *)
Definition kv_eqb (a b : bytes * bytes) : bool := bytes_eqb (fst a) (fst b) && bytes_eqb (snd a) (snd b).
Definition olf_eqb (a b : option (bytes * bytes)) : bool :=
  match a, b with
  | None, None => true
  | Some x, Some y => kv_eqb x y
  | _, _ => false
  end.
Definition pentry_eqb (a b : pentry) : bool :=
  match a, b with
  | ENil, ENil => true
  | EBad, EBad => true
  | EHash h, EHash h' => bytes_eqb h h'
  | EFull (NLeaf k v), EFull (NLeaf k' v') => bytes_eqb k k' && bytes_eqb v v'
  | EFull (NInt bl lb lf cl), EFull (NInt bl' lb' lf' cl') =>
      (bl =? bl') && bytes_eqb lb lb' && olf_eqb lf lf' && olf_eqb cl cl'
  | _, _ => false
  end.
Definition pres_eqb (a b : pres) : bool :=
  match a, b with
  | Found v, Found v' => bytes_eqb v v'
  | Absent, Absent => true
  | Unknown, Unknown => true
  | _, _ => false
  end.
Definition vout_eqb (a b : vout) : bool :=
  match a, b with
  | VRej, VRej => true
  | VAcc wl ans, VAcc wl' ans' => list_eqb kv_eqb wl wl' && list_eqb pres_eqb ans ans'
  | _, _ => false
  end.
Definition c04_eqb (a b : c04_out) : bool :=
  match a, b with
  | OBuild r es, OBuild r' es' => bytes_eqb r r' && list_eqb pentry_eqb es es'
  | OVerify vs, OVerify vs' => list_eqb vout_eqb vs vs'
  | _, _ => false
  end.
