(* cache.tryRemoveNode (go/storage/mkvs/cache.go:233-280) with its lock: while
   remoteSync commits the nodes of a verified response, an eviction may be
   attempted on any cached node, with the pointer being dereferenced LOCKED.

   [try_remove] ports the recursion with the check order of the code: the lock
   test comes BEFORE the "not yet committed to the LRU" test (:234, :237).  That
   order matters because the locked pointer is not yet in the LRU at the moment
   it is committed.  The result is the node OBJECT as an iterator frame that
   still holds it sees it (links cleared one by one, :248-266), and whether the
   removal succeeded.

   lock_protects_remainder: with the code's order an attempt that meets the
   locked pointer aborts, and everything an in-order walk still has to read
   after reaching the locked pointer -- the locked subtree and the siblings to
   the right of the path to it -- is untouched (what was cleared, LeafNode and
   Left links of path nodes, lies behind the walk: that damage is the known
   bounded-cache finding and only hurts LATER operations of the same reader).
   swapped_lock_order_refuted: with the two tests swapped the attempt succeeds,
   clears the right siblings too, and an iterator frame resuming there reports
   the end of the tree although entries remain. *)
From Verif Require Import Lib.Base Mkvs.Trie Mkvs.Key Mkvs.Overlay Mkvs.Iter
  MkvsProof.Model MkvsProof.Remote MkvsProof.Iter MkvsProof.Examples.

Definition has_node (p : ptree) : bool :=
  match p with PNil | PHash _ => false | _ => true end.

Section Evict.
  Variable committed : list dir -> bool.    (* ptr.LRU != nil *)
  Variable locked : list dir.               (* lockedPtr *)
  Variable swapped : bool.                  (* false: the order of the code *)

  Fixpoint try_remove (p : ptree) (pid : list dir) : ptree * bool :=
    let is_locked := list_eqb dir_eqb pid locked in
    if (if swapped then negb (committed pid) else is_locked) then
      (p, swapped)                                       (* code: :234 errRemoveLocked; swapped: :237 first *)
    else if (if swapped then is_locked else negb (committed pid)) then
      (p, negb swapped)                                  (* code: :237 not committed: nothing to do *)
    else
      match p with
      | PNode bl lb lf l r =>
          (* :248-266: LeafNode, Left, Right in this order; a child link is cleared
             after its removal returned nil *)
          let child (c : ptree) (d : dir) : ptree * bool :=
            if has_node c then
              let '(c', ok) := try_remove c (pid ++ [d]) in ((if ok then PNil else c'), ok)
            else (c, true) in
          let '(lf1, ok1) := child lf DF in
          if negb ok1 then (PNode bl lb lf1 l r, false)
          else
            let '(l1, ok2) := child l DL in
            if negb ok2 then (PNode bl lb lf1 l1 r, false)
            else
              let '(r1, ok3) := child r DR in
              (PNode bl lb lf1 l1 r1, ok3)
      | _ => (p, true)
      end.
End Evict.

(* what an in-order walk that has reached the pointer at [rel] still reads:
   that subtree, then the siblings to the right of the path, innermost first *)
Fixpoint remainder (p : ptree) (rel : list dir) {struct rel} : list ptree :=
  match rel with
  | [] => [p]
  | d :: rest =>
      match p with
      | PNode _ _ lf l r =>
          match d with
          | DF => remainder lf rest ++ [l; r]
          | DL => remainder l rest ++ [r]
          | DR => remainder r rest
          end
      | _ => []
      end
  end.

Lemma dir_eqb_refl d : dir_eqb d d = true.
Proof. destruct d; reflexivity. Qed.
Lemma dir_eqb_eq a b : dir_eqb a b = true -> a = b.
Proof. destruct a, b; cbn; congruence. Qed.

Lemma pid_eqb_refl x : list_eqb dir_eqb x x = true.
Proof. induction x as [|d x IH]; cbn; [reflexivity|]. now rewrite dir_eqb_refl, IH. Qed.

Lemma pid_eqb_eq x : forall y, list_eqb dir_eqb x y = true -> x = y.
Proof.
  induction x as [|d x IH]; intros [|e y] E; cbn in E; try discriminate; [reflexivity|].
  apply andb_true_iff in E as [E1 E2]. apply dir_eqb_eq in E1. apply IH in E2. congruence.
Qed.

Lemma pid_eqb_ext x d rest : list_eqb dir_eqb x (x ++ d :: rest) = false.
Proof.
  destruct (list_eqb dir_eqb x (x ++ d :: rest)) eqn:E; [|reflexivity].
  apply pid_eqb_eq in E. apply (f_equal (@length dir)) in E. rewrite app_length in E. cbn in E. lia.
Qed.

Section Faithful.
  Variable committed : list dir -> bool.
  Variable locked : list dir.

  Notation tr := (try_remove committed locked false).

  (* an attempt fails only below a prefix of the locked position *)
  Lemma try_remove_fail p : forall pid, snd (tr p pid) = false -> exists s, locked = pid ++ s.
  Proof.
    induction p as [|h|k v|bl lb lf IHlf l IHl r IHr]; intros pid F; cbn [try_remove] in F;
      destruct (list_eqb dir_eqb pid locked) eqn:E;
      try (apply pid_eqb_eq in E; exists []; now rewrite app_nil_r);
      destruct (committed pid); cbn [negb snd] in F; try discriminate.
    assert (forall c d, (forall pid, snd (tr c pid) = false -> exists s, locked = pid ++ s) ->
              snd (if has_node c then let '(c', ok) := tr c (pid ++ [d]) in ((if ok then PNil else c'), ok) else (c, true)) = false ->
              exists s, locked = pid ++ s) as Hc.
    { intros c d IH Fc. destruct (has_node c); [|discriminate].
      destruct (tr c (pid ++ [d])) as [c' ok] eqn:Ec. cbn [snd] in Fc. subst ok.
      destruct (IH (pid ++ [d])) as [s Es]; [now rewrite Ec|]. exists (d :: s). now rewrite Es, <- app_assoc. }
    destruct (if has_node lf then _ else _) as [lf1 ok1] eqn:E1.
    destruct ok1; cbn [negb] in F.
    - destruct (if has_node l then _ else _) as [l1 ok2] eqn:E2.
      destruct ok2; cbn [negb] in F.
      + destruct (if has_node r then _ else _) as [r1 ok3] eqn:E3. cbn [snd] in F. subst ok3.
        apply (Hc r DR IHr). now rewrite E3.
      + apply (Hc l DL IHl). now rewrite E2.
    - apply (Hc lf DF IHlf). now rewrite E1.
  Qed.

  Lemma app_inv_dir (pid : list dir) d s e rest : pid ++ d :: s = pid ++ e :: rest -> d = e.
  Proof. intros E. apply app_inv_head in E. congruence. Qed.

  (* the sibling before the path is removed or left alone, never a failure *)
  Lemma sibling_ok c pid d e rest :
    locked = pid ++ e :: rest -> d <> e ->
    exists c1, (if has_node c then let '(c', ok) := tr c (pid ++ [d]) in ((if ok then PNil else c'), ok) else (c, true)) = (c1, true).
  Proof.
    intros EL Ne. destruct (has_node c); [|eauto].
    destruct (tr c (pid ++ [d])) as [c' ok] eqn:Ec. destruct ok; [eauto|].
    destruct (try_remove_fail c (pid ++ [d])) as [s Es]; [now rewrite Ec|].
    rewrite EL, <- app_assoc in Es. cbn in Es. apply app_inv_dir in Es. congruence.
  Qed.

  Theorem lock_protects_remainder_l rel : forall p pid cur,
    locked = pid ++ rel ->
    sub_at p rel = Some cur -> has_node cur = true ->
    (forall pre suf, rel = pre ++ suf -> suf <> [] -> committed (pid ++ pre) = true) ->
    snd (tr p pid) = false /\
    sub_at (fst (tr p pid)) rel = Some cur /\
    remainder (fst (tr p pid)) rel = remainder p rel.
  Proof.
    induction rel as [|d rest IH]; intros p pid cur EL S HN HC.
    - rewrite app_nil_r in EL. subst pid. cbn [sub_at] in S. injection S as ->.
      destruct cur; cbn [try_remove]; rewrite pid_eqb_refl; cbn; auto.
    - cbn [sub_at] in S. destruct p as [| | |bl lb lf l r]; try discriminate.
      assert (list_eqb dir_eqb pid locked = false) as En by (rewrite EL; apply pid_eqb_ext).
      cbn [try_remove]. rewrite En.
      pose proof (HC [] (d :: rest) eq_refl ltac:(discriminate)) as Cp. rewrite app_nil_r in Cp.
      rewrite Cp. cbn [negb].
      assert (locked = (pid ++ [d]) ++ rest) as EL' by (now rewrite <- app_assoc).
      assert (forall pre suf, rest = pre ++ suf -> suf <> [] -> committed ((pid ++ [d]) ++ pre) = true) as HC'.
      { intros pre suf E Ns. rewrite <- app_assoc. apply (HC (d :: pre) suf); [now rewrite E|exact Ns]. }
      assert (forall c, sub_at c rest = Some cur -> has_node c = true) as HNc.
      { intros c Sc. destruct rest; cbn in Sc; [injection Sc as ->; exact HN|destruct c; try discriminate; reflexivity]. }
      destruct d.
      + (* the path goes through LeafNode *)
        rewrite (HNc lf S).
        destruct (IH lf (pid ++ [DF]) cur EL' S HN HC') as (F & S' & R').
        destruct (tr lf (pid ++ [DF])) as [lf' ok]. cbn [fst snd] in *. subst ok. cbn [negb fst snd sub_at remainder].
        rewrite S', R'. auto.
      + (* through Left: LeafNode is removed or kept, then Left aborts *)
        destruct (sibling_ok lf pid DF DL rest EL ltac:(discriminate)) as [lf1 ->]. cbn [negb].
        rewrite (HNc l S).
        destruct (IH l (pid ++ [DL]) cur EL' S HN HC') as (F & S' & R').
        destruct (tr l (pid ++ [DL])) as [l' ok]. cbn [fst snd] in *. subst ok. cbn [negb fst snd sub_at remainder].
        rewrite S', R'. auto.
      + (* through Right *)
        destruct (sibling_ok lf pid DF DR rest EL ltac:(discriminate)) as [lf1 ->]. cbn [negb].
        destruct (sibling_ok l pid DL DR rest EL ltac:(discriminate)) as [l1 ->]. cbn [negb].
        rewrite (HNc r S).
        destruct (IH r (pid ++ [DR]) cur EL' S HN HC') as (F & S' & R').
        destruct (tr r (pid ++ [DR])) as [r' ok]. cbn [fst snd] in *. subst ok. cbn [fst snd sub_at remainder].
        rewrite S', R'. auto.
  Qed.
End Faithful.

(* ---------------- the swapped order ---------------- *)
(* the example tree fully cached; only the root is in the LRU yet, the left
   child of the root is the pointer being committed (locked, not yet in the LRU) *)
Definition ev_p : ptree := full ex_t.
Definition ev_committed (pid : list dir) : bool := match pid with [] => true | _ => false end.
Definition ev_locked : list dir := [DL].

Theorem swapped_lock_order_refuted_l :
  (* the code's order: the attempt aborts, the right sibling survives *)
  snd (try_remove ev_committed ev_locked false ev_p []) = false /\
  remainder (fst (try_remove ev_committed ev_locked false ev_p [])) ev_locked = remainder ev_p ev_locked /\
  (* swapped: the attempt succeeds and clears the right sibling *)
  snd (try_remove ev_committed ev_locked true ev_p []) = true /\
  remainder (fst (try_remove ev_committed ev_locked true ev_p [])) ev_locked <> remainder ev_p ev_locked /\
  (* an iterator frame resuming at the root after its left subtree: on the intact
     node it finds the next entry, on the node the swapped removal left behind it
     reports the end of the tree although ([128],[13]) remains *)
  fst (pit_next [1; 2; 4] [mkP VAtLeft [] ev_p 0 []]) = F3 ([128], [13]) [mkP VAfter [] ev_p 0 []] /\
  fst (pit_next [1; 2; 4] [mkP VAtLeft [] (fst (try_remove ev_committed ev_locked false ev_p [])) 0 []])
    = F3 ([128], [13]) [mkP VAfter [] (fst (try_remove ev_committed ev_locked false ev_p [])) 0 []] /\
  fst (pit_next [1; 2; 4] [mkP VAtLeft [] (fst (try_remove ev_committed ev_locked true ev_p [])) 0 []]) = N3 /\
  tlookup [128] ex_t = Some [13].
Proof. vm_compute. repeat split; discriminate. Qed.
