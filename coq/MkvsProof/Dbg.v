(* Non-vacuity examples and the refutation witness for unbounded completeness. *)
From Verif Require Import Lib.Base Mkvs.Trie Mkvs.BitsProofs Mkvs.AlistProofs Mkvs.TrieProofs
  Mkvs.HashProofs MkvsProof.Model MkvsProof.Sound MkvsProof.Complete.

(* a toy 32-byte hash, only to evaluate examples (the theorems are about any H) *)
Definition Hc (x : bytes) : bytes :=
  le_bytes 32 (fold_left (fun a b => a * 257 + b + 1) x 7).
Lemma Hc_len x : length (Hc x) = HASH_SIZE.
Proof. unfold Hc. apply le_bytes_len. Qed.

(* a 5-key tree with a key that is a prefix of others, and the empty key *)
Definition ex_ops : list op :=
  [OIns [1] [10]; OIns [1; 2; 3] [11]; OIns [1; 2; 4] [12]; OIns [128] [13]; OIns [] [14]].
Definition ex_t : tree := run ex_ops.

Lemma ex_t_wf : wf ex_t.
Proof. apply run_wf. repeat constructor; cbn; lia. Qed.
Lemma ex_t_bounded : bounded ex_t.
Proof. unfold ex_t. cbv [run fold_left ex_ops apply_op]. vm_compute. repeat split. Qed.

(* an absent key that is a prefix of a present one (and an extension of
   another): both versions, siblings on and off *)
Example ex_absent_prefix :
  forall ver sib, In ver [0; 1] ->
    match verify Hc ver (root_hash Hc ex_t) (root_hash Hc ex_t) (build_get_proof Hc ver sib [1; 2] ex_t) with
    | ROk p => plookup 0 [1; 2] p = Absent /\ plookup 0 [128] p <> Absent
    | RErr _ => False
    end.
Proof.
  intros ver sib [<-|[<-|[]]]; destruct sib; vm_compute; (split; [reflexivity|discriminate]).
Qed.

(* the hypotheses of verify_sound / proof_cannot_lie are satisfiable by a
   non-trivial proof *)
Example ex_sound_hyps :
  exists es p, verify Hc 1 (root_hash Hc ex_t) (root_hash Hc ex_t) es = ROk p /\
               Forall entry_wire es /\ bounded ex_t /\ wf ex_t /\ (3 < length es)%nat /\
               plookup 0 [1; 2; 4] p = Found [12].
Proof.
  exists (build_get_proof Hc 1 false [1; 2; 4] ex_t).
  eexists. split; [vm_compute; reflexivity|].
  split; [|split; [exact ex_t_bounded|split; [exact ex_t_wf|split; [vm_compute; lia|vm_compute; reflexivity]]]].
  match goal with |- Forall _ ?l => let l' := eval vm_compute in l in change (Forall entry_wire l') end.
  repeat constructor.
Qed.


Eval vm_compute in (let es := build_get_proof Hc 0 false [1; 2; 4] ex_t in
  let root := root_hash Hc ex_t in
  (verify Hc 0 root root (removelast es), verify Hc 0 root root (es ++ [ENil]), verify Hc 0 root root (rev es), verify Hc 2 root root es, verify Hc 1 root root es)).
