(* The partial-tree iterator (MkvsProof/Iter.v) against the iterator port of
   Mkvs/Iter.v: on a pruning of [t] it either stops at a hash or does exactly
   what do_next / it_next do on [t] (soundness); on the partial tree described
   by a proof whose included set contains every pointer the full walk
   dereferences it does exactly what it does on the full tree (no hash is met). *)
From Verif Require Import Lib.Base Mkvs.Trie Mkvs.BitsProofs Mkvs.AlistProofs Mkvs.TrieProofs
  Mkvs.HashProofs Mkvs.Key Mkvs.Overlay Mkvs.OverlayProofs Mkvs.Iter Mkvs.IterLift
  MkvsProof.Model MkvsProof.Sound MkvsProof.Complete MkvsProof.Remote MkvsProof.Iter MkvsProof.IterProofs.

Section Snd.
  Variable H : bytes -> bytes.

  Definition arel (a : patom) (b : atom) : Prop :=
    p_state a = a_state b /\ p_depth a = a_depth b /\ p_path a = a_path b /\
    prunes H (p_node a) (a_node b).

  Definition Rel (r3 : res3) (r : found) : Prop :=
    match fst r3 with
    | U3 => True
    | N3 => r = None
    | F3 e stk => exists tstk, r = Some (e, tstk) /\ Forall2 arel stk tstk
    end.

  Lemma rel_push r3 r a b : Rel r3 r -> arel a b -> Rel (push3 r3 a) (push r b).
  Proof.
    destruct r3 as [[e stk| |] R]; unfold Rel; cbn; intros HR Ha; auto.
    - destruct HR as (tstk & -> & F). exists (tstk ++ [b]). split; [reflexivity|].
      apply Forall2_app; auto.
    - subst. reflexivity.
  Qed.

  Lemma rel_orelse r3 r k3 k : Rel r3 r -> Rel (k3 tt) (k tt) -> Rel (orelse3 r3 k3) (orelse r k).
  Proof.
    destruct r3 as [[e stk| |] R]; unfold Rel; cbn; intros HR Hk; auto.
    - destruct HR as (tstk & -> & F). cbn. eauto.
    - subst r. cbn. destruct (k3 tt) as [f R']. exact Hk.
  Qed.

  Lemma rel_node_step tlf3 tl3 tr3 tlf tl tr nd npath key st :
    (forall k, Rel (tlf3 k) (tlf k)) -> (forall k, Rel (tl3 k) (tl k)) -> (forall k, Rel (tr3 k) (tr k)) ->
    Rel (node_step3 tlf3 tl3 tr3 nd npath key st) (node_step tlf tl tr nd npath key st).
  Proof.
    intros Hlf Hl Hr. unfold node_step3, node_step.
    set (tf := (0 <? nd) && (nd <=? k_bitlen key) && cmp_lt key npath).
    set (knl := k_bitlen key <=? nd).
    assert (forall key0,
      Rel (let key1 := if knl then k_appendbit key0 nd false else key0 in
           if negb (k_getbit key1 nd) || tf
           then orelse3 (tl3 key1) (fun _ => tr3 (adv_key nd key1)) else tr3 key1)
          (let key1 := if knl then k_appendbit key0 nd false else key0 in
           if negb (k_getbit key1 nd) || tf
           then orelse (tl key1) (fun _ => tr (adv_key nd key1)) else tr key1)) as Hat.
    { intros key0. cbv zeta. destruct (negb _ || tf); [apply rel_orelse|]; auto. }
    destruct st.
    - destruct (knl || tf); [apply rel_orelse; auto|]; apply Hat.
    - apply Hat.
    - apply Hr.
    - reflexivity.
  Qed.

  Lemma pdo_sound p : forall t pid d path key st,
    prunes H p t -> Rel (pdo p pid d path key st) (do_next t d path key st).
  Proof.
    induction p as [|h|k v|bl lb lf IHlf l IHl r IHr]; intros t pid d path key st P; cbn [prunes] in P.
    - subst t. reflexivity.
    - exact I.
    - subst t. cbn [pdo do_next]. unfold Rel. destruct (cmp_lt k key); cbn; eauto.
    - destruct t as [|k' v'|lbl olf tl tr]; try contradiction.
      destruct P as (-> & -> & Plf & Pl & Pr). cbn [pdo do_next].
      match goal with |- Rel (let '(f, R) := ?X in _) ?Y => assert (Rel X Y) as HR end.
      { apply rel_node_step.
        - intros k0. destruct lf as [|h|k1 v1|]; cbn [prunes_lf] in Plf; try contradiction.
          + subst olf. reflexivity.
          + exact I.
          + subst olf. unfold Rel. destruct (cmp_lt k1 k0); cbn; [reflexivity|].
            eexists. split; [reflexivity|]. constructor; [|constructor].
            unfold arel. cbn. repeat split; auto.
        - intros k0. apply rel_push; [apply IHl, Pl|]. unfold arel. cbn. repeat split; auto.
        - intros k0. apply rel_push; [apply IHr, Pr|]. unfold arel. cbn. repeat split; auto. }
      destruct (node_step3 _ _ _ _ _ _ _) as [f R]. exact HR.
  Qed.

  Lemma pit_next_sound key pos : forall tpos,
    Forall2 arel pos tpos -> Rel (pit_next key pos) (it_next key tpos).
  Proof.
    induction pos as [|a rem IH]; intros tpos F; inversion F as [|a0 b rem0 trem Hab Frem]; subst.
    - reflexivity.
    - cbn [pit_next it_next]. destruct Hab as (Es & Ed & Ep & Pn).
      pose proof (pdo_sound (p_node a) (a_node b) (p_pid a) (p_depth a) (p_path a) key (p_state a) Pn) as HR.
      rewrite Ed, Ep, Es in HR at 2. unfold Rel in HR.
      destruct (pdo (p_node a) (p_pid a) (p_depth a) (p_path a) key (p_state a)) as [[e stk| |] R]; cbn [fst] in HR.
      + destruct HR as (tstk & -> & F2). unfold Rel. cbn. eexists. split; [reflexivity|].
        apply Forall2_app; auto.
      + rewrite HR. specialize (IH trem Frem). destruct (pit_next key rem) as [f R']. exact IH.
      + exact I.
  Qed.

  Lemma pcollect_sound n : forall cur tcur F,
    Rel cur tcur -> (S n <= F)%nat ->
    fst (pcollect n cur) = None \/ fst (pcollect n cur) = Some (firstn (S n) (it_collect F tcur)).
  Proof.
    induction n as [|m IH]; intros cur tcur F HR HF; destruct F as [|F']; try lia;
      destruct cur as [[e pos| |] R]; unfold Rel in HR; cbn [fst] in HR; cbn [pcollect fst]; auto.
    - destruct HR as (tstk & -> & F2). right. reflexivity.
    - subst tcur. right. reflexivity.
    - destruct HR as (tstk & -> & F2). cbn [it_collect firstn].
      pose proof (pit_next_sound (fst e) pos tstk F2) as HN.
      destruct (IH (pit_next (fst e) pos) (it_next (fst e) tstk) F' HN ltac:(lia)) as [E|E];
        destruct (pcollect m (pit_next (fst e) pos)) as [items R']; cbn [fst] in *; subst items; cbn; auto.
    - subst tcur. right. reflexivity.
  Qed.

  (* it_collect with any sufficient fuel (the proof of doNext_refines_seek) *)
  Lemma it_collect_seek t k F :
    wf t -> valid_bytes k -> (length (contents t) < F)%nat ->
    it_collect F (it_seek t k) = al_seek k (contents t).
  Proof.
    intros Hwf Hv HF. unfold it_seek.
    pose proof (do_next_spec t [] k VBefore Hwf Hv ltac:(discriminate)) as Sp.
    cbn [length N.of_nat pack] in Sp. rewrite remaining_before in Sp.
    destruct (al_seek_spec k (contents t) (contents_sorted _ Hwf)) as [Ss Sm].
    apply it_collect_spec.
    - destruct (do_next t 0 [] k VBefore) as [[e stk]|]; cbn [ok_found cur_is] in *; [|exact Sp].
      destruct Sp as (R & S1 & F1 & (A1 & I1 & N1)). rewrite app_nil_r in F1. split; [now rewrite S1, F1|].
      split; [exact A1|split; [exact N1|]]. eapply Forall_impl; [|exact I1]. intros x [_ Hx]. exact Hx.
    - exact Ss.
    - intros [k1 v1] He. apply Sm in He as [He _]. apply (wf_keys _ _ _ _ Hwf He).
    - eapply Nat.le_lt_trans; [apply al_seek_length|exact HF].
  Qed.

  Theorem piter_sound_l p t key n :
    prunes H p t -> wf t -> valid_bytes key ->
    piter p key n = None \/ piter p key n = Some (firstn (S n) (al_seek key (contents t))).
  Proof.
    intros P W V. unfold piter, pseek.
    pose proof (pdo_sound p t [] 0 [] key VBefore P) as HR.
    set (F := (S n + S (length (contents t)))%nat).
    destruct (pcollect_sound n _ _ F HR ltac:(unfold F; lia)) as [E|E]; [auto|].
    right. rewrite E. fold (it_seek t key). rewrite it_collect_seek; auto. unfold F. lia.
  Qed.
End Snd.

(* ---------------- no hash inside the covered range ---------------- *)
Section Cov.
  Variable H : bytes -> bytes.
  Variable ver : N.
  Variable inc : list dir -> bool.

  Definition all_inc (R : list (list dir)) : Prop := forall x, In x R -> inc x = true.

  (* an atom of the walk over the full tree and the same atom over the proof's tree *)
  Definition grel (a a' : patom) : Prop :=
    p_state a = p_state a' /\ p_pid a = p_pid a' /\ p_depth a = p_depth a' /\ p_path a = p_path a' /\
    exists t', p_node a = full t' /\ p_node a' = gprune H ver inc (p_pid a) t'.

  Definition frel (f f' : f3) : Prop :=
    match f, f' with
    | F3 e stk, F3 e' stk' => e = e' /\ Forall2 grel stk stk'
    | N3, N3 => True
    | _, _ => False
    end.

  (* if everything the full-tree walk dereferenced is included, the walk over
     the proof's tree gives the same result *)
  Definition Crel (rf rp : res3) : Prop :=
    all_inc (snd rf) -> snd rp = snd rf /\ frel (fst rf) (fst rp).

  Lemma all_inc_app R R' : all_inc (R ++ R') <-> all_inc R /\ all_inc R'.
  Proof.
    unfold all_inc. split.
    - intros A. split; intros x Hx; apply A, in_or_app; auto.
    - intros [A B] x Hx. apply in_app_or in Hx as [Hx|Hx]; auto.
  Qed.

  Lemma crel_push rf rp a a' : Crel rf rp -> grel a a' -> Crel (push3 rf a) (push3 rp a').
  Proof.
    intros C G. destruct rf as [[e stk| |] R]; cbn [push3]; intros A; cbn [fst snd] in *;
      destruct (C A) as [ES FR]; destruct rp as [[e' stk'| |] R']; cbn [fst snd frel] in *; try contradiction.
    - destruct FR as [-> F2]. cbn [push3 fst snd frel]. split; [exact ES|]. split; [reflexivity|].
      apply Forall2_app; auto.
    - cbn. auto.
  Qed.

  Lemma crel_orelse rf rp kf kp : Crel rf rp -> Crel (kf tt) (kp tt) -> Crel (orelse3 rf kf) (orelse3 rp kp).
  Proof.
    intros C Ck. destruct rf as [[e stk| |] R]; cbn [orelse3].
    - intros A. cbn [fst snd] in *. destruct (C A) as [ES FR].
      destruct rp as [[e' stk'| |] R']; cbn [fst snd frel] in *; try contradiction.
      cbn [orelse3 fst snd frel]. auto.
    - unfold Crel in Ck. destruct (kf tt) as [ff Rf]. intros A. cbn [fst snd] in *.
      apply all_inc_app in A as [A1 A2]. destruct (C A1) as [ES FR].
      destruct rp as [[e' stk'| |] R']; cbn [fst snd frel] in *; try contradiction. subst R'.
      cbn [orelse3]. specialize (Ck A2). destruct (kp tt) as [fp Rp]. cbn [fst snd] in *.
      destruct Ck as [ES2 FR2]. rewrite ES2. auto.
    - intros A. cbn [fst snd] in *. destruct (C A) as [_ FR]. destruct (fst rp); contradiction.
  Qed.

  Lemma crel_node_step f_lf f_l f_r p_lf p_l p_r nd npath key st :
    (forall k, Crel (f_lf k) (p_lf k)) -> (forall k, Crel (f_l k) (p_l k)) -> (forall k, Crel (f_r k) (p_r k)) ->
    Crel (node_step3 f_lf f_l f_r nd npath key st) (node_step3 p_lf p_l p_r nd npath key st).
  Proof.
    intros Hlf Hl Hr. unfold node_step3.
    set (tf := (0 <? nd) && (nd <=? k_bitlen key) && cmp_lt key npath).
    set (knl := k_bitlen key <=? nd).
    assert (forall key0,
      Crel (let key1 := if knl then k_appendbit key0 nd false else key0 in
            if negb (k_getbit key1 nd) || tf
            then orelse3 (f_l key1) (fun _ => f_r (adv_key nd key1)) else f_r key1)
           (let key1 := if knl then k_appendbit key0 nd false else key0 in
            if negb (k_getbit key1 nd) || tf
            then orelse3 (p_l key1) (fun _ => p_r (adv_key nd key1)) else p_r key1)) as Hat.
    { intros key0. cbv zeta. destruct (negb _ || tf); [apply crel_orelse|]; auto. }
    destruct st.
    - destruct (knl || tf); [apply crel_orelse; auto|]; apply Hat.
    - apply Hat.
    - apply Hr.
    - intros _. cbn. auto.
  Qed.

  Lemma gprune_nil pid : gprune H ver inc pid Nil = PNil.
  Proof. cbn. destruct (inc pid); reflexivity. Qed.

  Lemma lfslot_included lf b :
    (match lf with Some _ => b = true | None => True end) -> lfslot H ver b lf = olf_ptree lf.
  Proof.
    unfold lfslot. destruct (ver =? 0); [reflexivity|]. destruct lf as [[k v]|]; intros E.
    - subst b. reflexivity.
    - destruct b; reflexivity.
  Qed.

  Lemma pdo_cov t : forall pid d path key st,
    Crel (pdo (full t) pid d path key st) (pdo (gprune H ver inc pid t) pid d path key st).
  Proof.
    induction t as [|k v|lbl lf l IHl r IHr]; intros pid d path key st.
    - rewrite gprune_nil. cbn [full pdo]. intros _. cbn. auto.
    - cbn [full pdo]. intros A. cbn [snd] in A.
      assert (inc pid = true) as Ei by (apply A; left; reflexivity).
      cbn [gprune]. rewrite Ei. cbn [negb pdo fst snd]. split; [reflexivity|].
      destruct (cmp_lt k key); cbn; auto.
    - cbn [full pdo].
      set (nd := d + N.of_nat (length lbl)). set (npath := k_merge path d (pack lbl) (N.of_nat (length lbl))).
      match goal with |- Crel (let '(f, R) := ?X in _) _ => set (XF := X) end.
      destruct (inc pid) eqn:Ei.
      + cbn [gprune]. rewrite Ei. cbn [negb]. unfold pself. cbn [pdo]. fold nd npath.
        match goal with |- Crel _ (let '(f, R) := ?Y in _) => set (XP := Y) end.
        assert (Crel XF XP) as HC.
        { unfold XF, XP. apply crel_node_step.
          - intros k0. destruct lf as [[k1 v1]|]; cbn [olf_ptree].
            + intros A. cbn [snd] in A.
              assert (inc (pid ++ [DF]) = true) as Ef by (apply A; left; reflexivity).
              rewrite (lfslot_included (Some (k1, v1)) _ Ef). cbn [olf_ptree fst snd].
              split; [reflexivity|]. destruct (cmp_lt k1 k0); cbn [frel]; auto.
              split; [reflexivity|]. constructor; [|constructor].
              unfold grel. cbn. repeat split; auto.
              exists (Node lbl (Some (k1, v1)) l r). split; [reflexivity|].
              cbn [gprune]. rewrite Ei. cbn [negb]. unfold pself.
              rewrite (lfslot_included (Some (k1, v1)) _ Ef). reflexivity.
            + rewrite (lfslot_included None _ I). cbn [olf_ptree]. intros _. cbn. auto.
          - intros k0. apply crel_push; [apply IHl|].
            unfold grel. cbn. repeat split; auto.
            exists (Node lbl lf l r). split; [reflexivity|]. cbn [gprune]. rewrite Ei. reflexivity.
          - intros k0. apply crel_push; [apply IHr|].
            unfold grel. cbn. repeat split; auto.
            exists (Node lbl lf l r). split; [reflexivity|]. cbn [gprune]. rewrite Ei. reflexivity. }
        destruct XF as [ff Rf], XP as [fp Rp]. intros A. cbn [fst snd] in *.
        assert (all_inc Rf) as A' by (intros x Hx; apply A; right; exact Hx).
        destruct (HC A') as [ES FR]. cbn [fst snd] in ES. subst Rp. auto.
      + (* the node itself is not included: the hypothesis is false *)
        destruct XF as [ff Rf]. intros A. cbn [snd] in A.
        rewrite (A pid (or_introl eq_refl)) in Ei. discriminate.
  Qed.

  Lemma pit_next_cov key pos : forall pos',
    Forall2 grel pos pos' -> Crel (pit_next key pos) (pit_next key pos').
  Proof.
    induction pos as [|a rem IH]; intros pos' F; inversion F as [|a0 a' rem0 rem' G Frem]; subst.
    - intros _. cbn. auto.
    - destruct a as [s1 pid1 n1 d1 pa1], a' as [s2 pid2 n2 d2 pa2]. unfold grel in G. cbn in G.
      destruct G as (<- & <- & <- & <- & t' & -> & ->).
      cbn [pit_next p_node p_pid p_depth p_path p_state].
      pose proof (pdo_cov t' pid1 d1 pa1 key s1) as C.
      destruct (pdo (full t') pid1 d1 pa1 key s1) as [[e stk| |] R].
      + intros A. cbn [fst snd] in *. destruct (C A) as [ES FR].
        destruct (pdo (gprune H ver inc pid1 t') pid1 d1 pa1 key s1) as [[e' stk'| |] R']; cbn [fst snd frel] in *; try contradiction.
        destruct FR as [-> F2]. split; [exact ES|]. split; [reflexivity|]. apply Forall2_app; auto.
      + specialize (IH rem' Frem). destruct (pit_next key rem) as [ff Rf].
        intros A. cbn [fst snd] in *. apply all_inc_app in A as [A1 A2]. destruct (C A1) as [ES FR].
        destruct (pdo (gprune H ver inc pid1 t') pid1 d1 pa1 key s1) as [[e' stk'| |] R']; cbn [fst snd frel] in *; try contradiction.
        subst R'. specialize (IH A2). destruct (pit_next key rem') as [fp Rp]. cbn [fst snd] in *.
        destruct IH as [ES2 FR2]. subst Rp. auto.
      + intros A. cbn [fst snd] in *. destruct (C A) as [_ FR].
        destruct (fst (pdo (gprune H ver inc pid1 t') pid1 d1 pa1 key s1)); contradiction.
  Qed.

  Lemma pcollect_cov n : forall cur cur',
    Crel cur cur' -> all_inc (snd (pcollect n cur)) ->
    pcollect n cur' = pcollect n cur.
  Proof.
    induction n as [|m IH]; intros cur cur' C A; destruct cur as [[e pos| |] R]; cbn [pcollect] in *.
    - cbn [snd] in A. destruct (C A) as [ES FR]. destruct cur' as [[e' pos'| |] R']; cbn [fst snd frel] in *; try contradiction.
      destruct FR as [-> _]. subst. reflexivity.
    - cbn [snd] in A. destruct (C A) as [ES FR]. destruct cur' as [[e' pos'| |] R']; cbn [fst snd frel] in *; try contradiction.
      subst. reflexivity.
    - cbn [snd] in A. destruct (C A) as [ES FR]. destruct (fst cur'); contradiction.
    - destruct (pcollect m (pit_next (fst e) pos)) as [items Rn] eqn:En. cbn [snd] in A.
      apply all_inc_app in A as [A1 A2]. destruct (C A1) as [ES FR].
      destruct cur' as [[e' pos'| |] R']; cbn [fst snd frel] in *; try contradiction.
      destruct FR as [<- F2]. subst R'. cbn [pcollect].
      rewrite (IH (pit_next (fst e) pos) (pit_next (fst e) pos') (pit_next_cov (fst e) pos pos' F2)); rewrite En; auto.
    - cbn [snd] in A. destruct (C A) as [ES FR]. destruct cur' as [[e' pos'| |] R']; cbn [fst snd frel] in *; try contradiction.
      subst. reflexivity.
    - cbn [snd] in A. destruct (C A) as [ES FR]. destruct (fst cur'); contradiction.
  Qed.
End Cov.
