(* Non-vacuity examples and the refutation witness for unbounded completeness. *)
From Verif Require Import Lib.Base Mkvs.Trie Mkvs.BitsProofs Mkvs.AlistProofs Mkvs.TrieProofs
  Mkvs.HashProofs MkvsProof.Model MkvsProof.Sound MkvsProof.Complete.

(* a toy 32-byte hash, only to evaluate examples (the theorems are about any H) *)
Definition Hc (x : bytes) : bytes :=
  le_bytes 32 (fold_left (fun a b => a * 257 + b + 1) x 7).
Lemma Hc_len x : length (Hc x) = HASH_SIZE.
Proof. unfold Hc. apply le_bytes_len. Qed.

(* a 5-key tree with a key that is a prefix of others, and the empty key *)
Definition ex_ops : list op :=
  [OIns [1] [10]; OIns [1; 2; 3] [11]; OIns [1; 2; 4] [12]; OIns [128] [13]; OIns [] [14]].
Definition ex_t : tree := run ex_ops.

Lemma ex_t_wf : wf ex_t.
Proof. apply run_wf. repeat constructor; cbn; lia. Qed.
Lemma ex_t_bounded : bounded ex_t.
Proof. unfold ex_t. cbv [run fold_left ex_ops apply_op]. vm_compute. repeat split. Qed.

(* an absent key that is a prefix of a present one (and an extension of
   another): both versions, siblings on and off *)
Example ex_absent_prefix :
  forall ver sib, In ver [0; 1] ->
    match verify Hc ver (root_hash Hc ex_t) (root_hash Hc ex_t) (build_get_proof Hc ver sib [1; 2] ex_t) with
    | ROk p => plookup 0 [1; 2] p = Absent /\ plookup 0 [128] p <> Absent
    | RErr _ => False
    end.
Proof.
  intros ver sib [<-|[<-|[]]]; destruct sib; vm_compute; (split; [reflexivity|discriminate]).
Qed.

(* the hypotheses of verify_sound / proof_cannot_lie are satisfiable by a
   non-trivial proof *)
Example ex_sound_hyps :
  exists es p, verify Hc 1 (root_hash Hc ex_t) (root_hash Hc ex_t) es = ROk p /\
               Forall entry_wire es /\ bounded ex_t /\ wf ex_t /\ (3 < length es)%nat /\
               plookup 0 [1; 2; 4] p = Found [12].
Proof.
  exists (build_get_proof Hc 1 false [1; 2; 4] ex_t).
  eexists. split; [vm_compute; reflexivity|].
  split; [|split; [exact ex_t_bounded|split; [exact ex_t_wf|split; [vm_compute; lia|vm_compute; reflexivity]]]].
  match goal with |- Forall _ ?l => let l' := eval vm_compute in l in change (Forall entry_wire l') end.
  repeat constructor.
Qed.

(* a truncated, an extended and a reordered version of an honest proof are rejected *)
Example ex_mutants_rejected :
  let es := build_get_proof Hc 0 false [1; 2; 4] ex_t in
  let root := root_hash Hc ex_t in
  verify Hc 0 root root (removelast es) = RErr EMalformed /\
  verify Hc 0 root root (es ++ [ENil]) = RErr EUnused /\
  verify Hc 0 root root (rev es) = RErr EUnused /\
  verify Hc 2 root root es = RErr EVersion /\
  verify Hc 1 root root es = RErr EMalformed.
Proof. vm_compute. repeat split. Qed.

(* entries in the FULL (non-compact) node encoding: the claimed child hashes are
   ignored, the node is hashed over the children the proof supplies.  With the
   honest children the proof is accepted exactly as the compact one; with a
   fabricated or missing child it is rejected even though the claimed hashes
   are the real ones. *)
Definition with_claim (c : bytes * bytes) (e : pentry) : pentry :=
  match e with EFull (NInt bl lb lf _) => EFull (NInt bl lb lf (Some c)) | _ => e end.

Example ex_noncompact :
  let es := build_get_proof Hc 0 false [128] ex_t in
  let root := root_hash Hc ex_t in
  let real := (root_hash Hc (match ex_t with Node _ _ l _ => l | _ => Nil end),
               root_hash Hc (match ex_t with Node _ _ _ r => r | _ => Nil end)) in
  let full := match es with e :: rest => with_claim real e :: rest | [] => [] end in
  (* honest children *)
  verify Hc 0 root root full = verify Hc 0 root root es /\
  (exists p, verify Hc 0 root root full = ROk p) /\
  (* fabricated right child: the present key [128] with another value *)
  verify Hc 0 root root (removelast full ++ [EFull (NLeaf [128] [66])]) = RErr EBadRoot /\
  (* dropped right subtree *)
  verify Hc 0 root root (removelast full ++ [ENil]) = RErr EBadRoot /\
  (* no children at all *)
  verify Hc 0 root root (firstn 1 full) = RErr EMalformed.
Proof. vm_compute. repeat split. eexists. reflexivity. Qed.

(* ---------------- the depth limit ---------------- *)
(* 130 keys, each a prefix of the next: the trie is a chain of 129 internal
   nodes and a leaf, so the honest proof for the longest key has an entry at
   depth 129 > maxProofDepth and the verifier rejects it (proof.go:354) *)
Definition deep_keys : list bytes := map (fun i => repeat 0 i) (seq 0 130).
Definition deep_ops : list op := map (fun k => OIns k [1]) deep_keys.
Definition deep_t : tree := run deep_ops.
Definition deep_k : bytes := repeat 0 129%nat.

Lemma deep_t_wf : wf deep_t.
Proof.
  apply run_wf. apply Forall_forall. intros o Hin.
  apply in_map_iff in Hin as (k & <- & Hk). apply in_map_iff in Hk as (i & <- & _).
  cbn. apply Forall_forall. intros x Hx. apply repeat_spec in Hx. subst. lia.
Qed.

Lemma deep_t_present : tlookup deep_k deep_t = Some [1].
Proof. vm_compute. reflexivity. Qed.

(* the verdict does not depend on the hash function: a constant one will do *)
Definition H0 (x : bytes) : bytes := repeat 0 32%nat.
Lemma H0_len x : length (H0 x) = HASH_SIZE.
Proof. reflexivity. Qed.

Lemma deep_proof_rejected ver sib :
  ver <= 1 ->
  verify H0 ver (root_hash H0 deep_t) (root_hash H0 deep_t) (build_get_proof H0 ver sib deep_k deep_t)
  = RErr EDepth.
Proof.
  intros Hv. assert (ver = 0 \/ ver = 1) as [-> | ->] by lia; destruct sib; vm_compute; reflexivity.
Qed.

Theorem get_proof_complete_unbounded_refuted_l :
  exists H t k v, (forall x, length (H x) = HASH_SIZE) /\ wf t /\ tlookup k t = Some v /\
    forall ver sib, ver <= 1 ->
      verify H ver (root_hash H t) (root_hash H t) (build_get_proof H ver sib k t) = RErr EDepth.
Proof.
  exists H0, deep_t, deep_k, [1].
  split; [exact H0_len|]. split; [exact deep_t_wf|]. split; [exact deep_t_present|].
  intros ver sib Hv. apply deep_proof_rejected, Hv.
Qed.

Example deep_t_height : height deep_t = 130%nat.
Proof. vm_compute. reflexivity. Qed.
