(* Answer-level completeness of iterate proofs and ordered safety of iteration
   over a remote-backed reader. *)
From Verif Require Import Lib.Base Mkvs.Trie Mkvs.BitsProofs Mkvs.AlistProofs Mkvs.TrieProofs
  Mkvs.HashProofs Mkvs.Key Mkvs.Overlay Mkvs.OverlayProofs Mkvs.Iter Mkvs.IterLift
  MkvsProof.Model MkvsProof.Sound MkvsProof.Complete MkvsProof.Remote MkvsProof.Iter
  MkvsProof.IterProofs MkvsProof.IterSound.

(* ---------------- the walk over a full tree never meets a hash ---------------- *)
Definition isfull (a : patom) : Prop := exists t', p_node a = full t'.
Definition fullres (r : res3) : Prop :=
  match fst r with U3 => False | N3 => True | F3 _ stk => Forall isfull stk end.

Lemma fullres_push r a : fullres r -> isfull a -> fullres (push3 r a).
Proof.
  destruct r as [[e stk| |] R]; unfold fullres; cbn; auto. intros F I. apply Forall_app. auto.
Qed.
Lemma fullres_orelse r k : fullres r -> fullres (k tt) -> fullres (orelse3 r k).
Proof.
  destruct r as [[e stk| |] R]; unfold fullres; cbn; auto. intros _ Fk. destruct (k tt) as [f R']. exact Fk.
Qed.
Lemma fullres_node_step tlf tl tr nd npath key st :
  (forall k, fullres (tlf k)) -> (forall k, fullres (tl k)) -> (forall k, fullres (tr k)) ->
  fullres (node_step3 tlf tl tr nd npath key st).
Proof.
  intros Hlf Hl Hr. unfold node_step3.
  set (tf := (0 <? nd) && (nd <=? k_bitlen key) && cmp_lt key npath).
  set (knl := k_bitlen key <=? nd).
  assert (forall key0,
    fullres (let key1 := if knl then k_appendbit key0 nd false else key0 in
             if negb (k_getbit key1 nd) || tf
             then orelse3 (tl key1) (fun _ => tr (adv_key nd key1)) else tr key1)) as Hat.
  { intros key0. cbv zeta. destruct (negb _ || tf); [apply fullres_orelse|]; auto. }
  destruct st; auto.
  - destruct (knl || tf); [apply fullres_orelse; auto|]; apply Hat.
  - exact I.
Qed.

Lemma pdo_full t : forall pid d path key st, fullres (pdo (full t) pid d path key st).
Proof.
  induction t as [|k v|lbl lf l IHl r IHr]; intros pid d path key st; cbn [full pdo].
  - exact I.
  - unfold fullres. destruct (cmp_lt k key); cbn; auto.
  - match goal with |- fullres (let '(f, R) := ?X in _) => assert (fullres X) as HF end.
    { apply fullres_node_step.
      - intros k0. destruct lf as [[k1 v1]|]; cbn [olf_ptree]; unfold fullres; [|exact I].
        destruct (cmp_lt k1 k0); cbn; auto. constructor; [|constructor].
        exists (Node lbl (Some (k1, v1)) l r). reflexivity.
      - intros k0. apply fullres_push; [apply IHl|]. exists (Node lbl lf l r). reflexivity.
      - intros k0. apply fullres_push; [apply IHr|]. exists (Node lbl lf l r). reflexivity. }
    destruct (node_step3 _ _ _ _ _ _ _) as [f R]. exact HF.
Qed.

Lemma pit_next_full key pos : Forall isfull pos -> fullres (pit_next key pos).
Proof.
  induction pos as [|a rem IH]; intros F; [exact I|]. inversion F as [|a0 r0 [t' Ea] Fr]; subst.
  cbn [pit_next]. rewrite Ea. pose proof (pdo_full t' (p_pid a) (p_depth a) (p_path a) key (p_state a)) as HF.
  destruct (pdo (full t') _ _ _ _ _) as [[e stk| |] R]; unfold fullres in *; cbn [fst] in *.
  - apply Forall_app. auto.
  - specialize (IH Fr). destruct (pit_next key rem) as [f R']. exact IH.
  - contradiction.
Qed.

Lemma pcollect_full n : forall cur, fullres cur -> fst (pcollect n cur) <> None.
Proof.
  induction n as [|m IH]; intros cur F; destruct cur as [[e pos| |] R]; unfold fullres in F; cbn [fst] in F;
    cbn [pcollect fst]; try discriminate; try contradiction.
  specialize (IH (pit_next (fst e) pos) (pit_next_full (fst e) pos F)).
  destruct (pcollect m (pit_next (fst e) pos)) as [[items|] R']; cbn [fst option_map] in *; [discriminate|congruence].
Qed.

Lemma full_prunes H t : prunes H (full t) t.
Proof.
  induction t as [|k v|lbl lf l IHl r IHr]; cbn; auto.
  repeat split; auto. destruct lf as [[? ?]|]; reflexivity.
Qed.

Lemma dir_list_eqb_refl x : list_eqb dir_eqb x x = true.
Proof. induction x as [|d x IH]; cbn; [reflexivity|]. rewrite IH. destruct d; reflexivity. Qed.
Lemma inb_in x R : In x R -> inb x R = true.
Proof.
  intros Hin. unfold inb. apply existsb_exists. exists x. split; [exact Hin|apply dir_list_eqb_refl].
Qed.

(* ---------------- the prefix reader ---------------- *)
Definition pf_items (x : bool * nat * option (list (bytes * bytes)) * list (list dir)) := snd (fst x).
Definition pf_rec (x : bool * nat * option (list (bytes * bytes)) * list (list dir)) := snd x.

Lemma pf_inner_full fuel : forall prefix cur total limit,
  fullres cur -> pf_items (pf_inner fuel prefix cur total limit) <> None.
Proof.
  induction fuel as [|f IH]; intros prefix cur total limit F; cbn [pf_inner]; [discriminate|].
  destruct cur as [[e pos| |] R]; unfold fullres in F; cbn [fst] in F; try contradiction; [|discriminate].
  destruct (limit <=? total)%nat; [discriminate|]. destruct (negb _); [discriminate|].
  specialize (IH prefix (pit_next (fst e) pos) (S total) limit (pit_next_full (fst e) pos F)).
  destruct (pf_inner f prefix (pit_next (fst e) pos) (S total) limit) as [[[stop tot] [items|]] R'];
    unfold pf_items in *; cbn in *; [discriminate|congruence].
Qed.

Lemma pf_outer_full t prefixes : forall total limit, fst (pf_outer (full t) prefixes total limit) <> None.
Proof.
  induction prefixes as [|pre rest IH]; intros total limit; cbn [pf_outer]; [discriminate|].
  pose proof (pf_inner_full (S limit) pre (pseek (full t) pre) total limit (pdo_full t [] 0 [] pre VBefore)) as NI.
  destruct (pf_inner (S limit) pre (pseek (full t) pre) total limit) as [[[stop tot] items] R].
  unfold pf_items in NI. cbn in NI. destruct stop; [exact NI|].
  specialize (IH tot limit). destruct (pf_outer (full t) rest tot limit) as [items' R'].
  cbn [fst] in *. destruct items, items'; try congruence; try discriminate.
Qed.

Section PfCov.
  Variable H : bytes -> bytes.
  Variable ver : N.
  Variable inc : list dir -> bool.

  Lemma pf_inner_cov fuel : forall prefix cur cur' total limit,
    Crel H ver inc cur cur' -> all_inc inc (pf_rec (pf_inner fuel prefix cur total limit)) ->
    pf_inner fuel prefix cur' total limit = pf_inner fuel prefix cur total limit.
  Proof.
    induction fuel as [|f IH]; intros prefix cur cur' total limit C A; cbn [pf_inner] in *.
    - unfold pf_rec in A. cbn [snd] in A. destruct (C A) as [-> _]. reflexivity.
    - destruct cur as [[e pos| |] R].
      + destruct (limit <=? total)%nat eqn:L.
        * unfold pf_rec in A. cbn [snd] in A. destruct (C A) as [ES FR].
          destruct cur' as [[e' pos'| |] R']; cbn [fst snd frel] in *; try contradiction. subst R'. rewrite ?L. reflexivity.
        * destruct (negb (has_prefix prefix (fst e))) eqn:P.
          -- unfold pf_rec in A. cbn [snd] in A. destruct (C A) as [ES FR].
             destruct cur' as [[e' pos'| |] R']; cbn [fst snd frel] in *; try contradiction.
             destruct FR as [<- _]. subst R'. rewrite ?L, ?P. reflexivity.
          -- destruct (pf_inner f prefix (pit_next (fst e) pos) (S total) limit) as [[[stop tot] items] Rn] eqn:En.
             unfold pf_rec in A. cbn [snd] in A. apply all_inc_app in A as [A1 A2]. destruct (C A1) as [ES FR].
             destruct cur' as [[e' pos'| |] R']; cbn [fst snd frel] in *; try contradiction.
             destruct FR as [<- F2]. subst R'. rewrite ?L, ?P.
             rewrite (IH prefix (pit_next (fst e) pos) (pit_next (fst e) pos') (S total) limit
                        (pit_next_cov H ver inc (fst e) pos pos' F2)); rewrite En; auto.
      + unfold pf_rec in A. cbn [snd] in A. destruct (C A) as [ES FR].
        destruct cur' as [[e' pos'| |] R']; cbn [fst snd frel] in *; try contradiction. subst R'. reflexivity.
      + unfold pf_rec in A. cbn [snd] in A. destruct (C A) as [_ FR]. destruct (fst cur'); contradiction.
  Qed.

  Lemma pf_outer_cov t prefixes : forall total limit,
    all_inc inc (snd (pf_outer (full t) prefixes total limit)) ->
    pf_outer (gprune H ver inc [] t) prefixes total limit = pf_outer (full t) prefixes total limit.
  Proof.
    induction prefixes as [|pre rest IH]; intros total limit A; cbn [pf_outer] in *; [reflexivity|].
    destruct (pf_inner (S limit) pre (pseek (full t) pre) total limit) as [[[stop tot] items] R] eqn:Ei.
    assert (all_inc inc R) as AR.
    { destruct stop; [exact A|]. destruct (pf_outer (full t) rest tot limit) as [i' R'].
      cbn [snd] in A. apply all_inc_app in A as [A1 _]. exact A1. }
    rewrite (pf_inner_cov (S limit) pre (pseek (full t) pre) (pseek (gprune H ver inc [] t) pre) total limit
               (pdo_cov H ver inc t [] 0 [] pre VBefore)); rewrite Ei; [|exact AR].
    destruct stop; [reflexivity|].
    destruct (pf_outer (full t) rest tot limit) as [i' R'] eqn:Eo. cbn [snd] in A.
    apply all_inc_app in A as [_ A2]. rewrite IH; rewrite Eo; auto.
  Qed.
End PfCov.

Section Fin.
  Variable H : bytes -> bytes.
  Hypothesis Hlen : forall x, length (H x) = HASH_SIZE.

  (* the items a full replica yields from [key]: the first n+1 entries >= key *)
  Definition iter_spec (t : tree) (key : bytes) (n : nat) : list (bytes * bytes) :=
    firstn (S n) (al_seek key (contents t)).

  Lemma piter_full t key n : wf t -> valid_bytes key -> piter (full t) key n = Some (iter_spec t key n).
  Proof.
    intros W V. destruct (piter_sound_l H (full t) t key n (full_prunes H t) W V) as [E|E]; [|exact E].
    exfalso. unfold piter in E. revert E. apply pcollect_full. apply pdo_full.
  Qed.

  Theorem iterate_proof_complete_l ver t key n :
    ver <= 1 -> (height t <= 129)%nat -> wf t -> valid_bytes key ->
    exists p, verify H ver (root_hash H t) (root_hash H t) (build_iter_proof H ver t key n) = ROk p /\
              (piter p key n = Some (iter_spec t key n) \/ collision H).
  Proof.
    intros Hv Hh W V. unfold build_iter_proof.
    set (inc := fun pid => inb pid (iter_included t key n)).
    destruct (gbuild_verifies H Hlen ver inc t Hv Hh) as (p & E & _ & [Ep|[Ep Z]]).
    - exists p. split; [exact E|]. left. subst p. rewrite <- (piter_full t key n W V).
      unfold piter. f_equal. apply (pcollect_cov H ver inc).
      + apply pdo_cov.
      + intros x Hx. unfold inc. apply inb_in. exact Hx.
    - exists p. split; [exact E|]. subst p.
      destruct (empty_root H t Z) as [->|C]; [|auto]. left. destruct n; reflexivity.
  Qed.

  (* iteration over the remote-backed reader, in order *)
  Theorem remote_tree_iteration_safe_l t steps key n :
    wf t -> bounded t -> valid_bytes key -> Forall (step_ok) steps ->
    piter (run_steps H (root_hash H t) steps) key n = None \/
    piter (run_steps H (root_hash H t) steps) key n = Some (iter_spec t key n) \/
    collision H.
  Proof.
    intros W B V F. unfold run_steps.
    destruct (run_prunes H Hlen (root_hash H t) t steps (PHash (root_hash H t)) eq_refl B F eq_refl) as [P|C]; [|auto].
    destruct (piter_sound_l H _ t key n P W V) as [E|E]; auto.
  Qed.

  (* The reader of a SyncGetPrefixes proof (the prefix loop of prefetch.go run
     over the verified partial tree) meets no hash and obtains exactly what the
     same loop obtains on the full replica. *)
  Theorem prefix_proof_complete_l ver t prefixes limit :
    ver <= 1 -> (height t <= 129)%nat ->
    exists p, verify H ver (root_hash H t) (root_hash H t) (build_prefixes_proof H ver t prefixes limit) = ROk p /\
              ((pprefixes p prefixes limit = pprefixes (full t) prefixes limit /\
                pprefixes (full t) prefixes limit <> None) \/ collision H).
  Proof.
    intros Hv Hh. unfold build_prefixes_proof.
    set (inc := fun pid => inb pid (prefixes_included t prefixes limit)).
    destruct (gbuild_verifies H Hlen ver inc t Hv Hh) as (p & E & _ & [Ep|[Ep Z]]).
    - exists p. split; [exact E|]. left. subst p. split; [|apply pf_outer_full].
      unfold pprefixes. f_equal. apply pf_outer_cov.
      intros x Hx. unfold inc. apply inb_in. exact Hx.
    - exists p. split; [exact E|]. subst p.
      destruct (empty_root H t Z) as [->|C]; [|auto]. left. split; [reflexivity|apply (pf_outer_full Nil)].
  Qed.
End Fin.
