(* The statements of C04 assembled from Sound.v / Complete.v / Examples.v. *)
From Verif Require Import Lib.Base Mkvs.Trie Mkvs.BitsProofs Mkvs.AlistProofs Mkvs.TrieProofs
  Mkvs.HashProofs MkvsProof.Model MkvsProof.Sound MkvsProof.Complete MkvsProof.Examples.

(* what an answer about key [k] claims, against the real contents *)
Definition agrees (t : tree) (k : bytes) (a : pres) : Prop :=
  match a with
  | Found v => al_get k (contents t) = Some v
  | Absent => al_get k (contents t) = None
  | Unknown => True
  end.

Section Final.
  Variable H : bytes -> bytes.
  Hypothesis Hlen : forall x, length (H x) = HASH_SIZE.

  Lemma agrees_of_opt t k a : wf t -> (a = Unknown \/ a = of_opt (lookup 0 k t)) -> agrees t k a.
  Proof.
    intros W [->| ->]; [exact I|]. pose proof (lookup_contents t k W) as E. unfold tlookup in E.
    destruct (lookup 0 k t); cbn; congruence.
  Qed.

  Theorem proof_cannot_lie_l ver untrusted es p t :
    verify H ver (root_hash H t) untrusted es = ROk p ->
    Forall entry_wire es -> wf t -> bounded t ->
    (forall k, agrees t k (plookup 0 k p) /\ agrees t k (plookup_go H true 0 k p)) \/ collision H.
  Proof.
    intros E F W B. destruct (verify_sound_l H Hlen _ _ _ _ _ E F B) as [P|C]; [|auto].
    destruct (plookup_go_prunes H Hlen p t P) as [G|C]; [|auto].
    left. intros k. split.
    - apply agrees_of_opt; [exact W|]. exact (plookup_prunes H Hlen p t 0%nat k P).
    - apply agrees_of_opt; [exact W|]. exact (G true 0%nat k).
  Qed.

  Theorem plookup_go_sound_l p t fresh d k :
    prunes H p t ->
    ((forall v, plookup_go H fresh (N.of_nat d) k p = Found v -> lookup d k t = Some v) /\
     (plookup_go H fresh (N.of_nat d) k p = Absent -> lookup d k t = None)) \/ collision H.
  Proof.
    intros P. destruct (plookup_go_prunes H Hlen p t P) as [G|C]; [|auto]. left.
    destruct (G fresh d k) as [E|E]; rewrite E.
    - split; [intros v|]; discriminate.
    - destruct (lookup d k t); cbn; split; try intros v'; congruence.
  Qed.

  (* the write log of an accepted proof holds only real entries *)
  Theorem writelog_sound_l ver untrusted es wl t :
    verify_to_writelog H ver (root_hash H t) untrusted es = Some wl ->
    Forall entry_wire es -> bounded t ->
    incl wl (contents t) \/ collision H.
  Proof.
    unfold verify_to_writelog. intros E F B.
    destruct (vp VP_FUEL ver 0 es) as [p0 rest|] eqn:Evp; [|discriminate].
    destruct (verify H ver (root_hash H t) untrusted es) as [p|] eqn:Ev; [|discriminate].
    injection E as <-.
    apply (verify_inv H Hlen) in Ev as (p0' & Evp' & Eh & _).
    rewrite Evp in Evp'. injection Evp' as <- _.
    destruct (vp_pwf _ _ _ _ _ _ F Evp) as [W _].
    destruct (hash_prunes H Hlen p0 t W B Eh) as [P|C]; [|auto].
    left. apply pleaves_prunes with (H := H). exact P.
  Qed.

  (* all entries are consumed, and exactly once: the verifier's recursion
     returns the unconsumed suffix, which must be empty *)
  Theorem verify_consumes_all_l ver root untrusted es p :
    verify H ver root untrusted es = ROk p ->
    exists p0, vp VP_FUEL ver 0 es = VOk p0 [] /\ phash H p0 = root.
  Proof.
    intros E. apply (verify_inv H Hlen) in E as (p0 & Evp & Eh & _). eauto.
  Qed.

  Theorem get_proof_complete_go_v0_l sib k t :
    (height t <= 129)%nat ->
    exists p, verify H 0 (root_hash H t) (root_hash H t) (build_get_proof H 0 sib k t) = ROk p /\
              plookup_go H true 0 k p <> Unknown /\
              (plookup_go H true 0 k p = of_opt (tlookup k t) \/ collision H).
  Proof.
    intros Hh.
    destruct (get_proof_complete_l H Hlen 0 sib k t) as (p & Ev & _); [lia|exact Hh|].
    exists p. split; [exact Ev|].
    pose proof Ev as Ev'. apply (verify_inv H Hlen) in Ev' as (p0 & Evp & Eh & Ep & _).
    unfold build_get_proof in Evp.
    pose proof (parses_bgp H Hlen 0 sib k t 0%nat VP_FUEL 0 []) as P. rewrite app_nil_r in P.
    rewrite P in Evp; [|unfold VP_FUEL; lia|lia]. injection Evp as <-.
    destruct (bytes_eqb (root_hash H t) (H [])) eqn:Z; subst p.
    - cbn [plookup_go]. split; [discriminate|].
      apply bytes_eqb_eq in Z. destruct (empty_root H t Z) as [->|C]; auto.
    - pose proof (bgt_lookup_go H Hlen 0 sib k t eq_refl true 0%nat) as E. cbn [N.of_nat] in E.
      rewrite E. split; [|auto]. unfold tlookup. destruct (lookup 0 k t); discriminate.
  Qed.
End Final.
