(* Model of go/runtime/txpool/main_queue_scheduler.go (+ heap.go).

   Two layers over the same record:
   - the REFERENCE ("Ref"): contents [txs], per-sender current sequence
     [senders], the per-pass map [sched]; the ready set is *computed*
     ([ready]); this is the "straightforward reference model" of C20.
   - the BOOKKEEPING ("Book"): the code's incrementally maintained max-heap,
     abstracted to the *set* of transaction ids it holds ([maxh]); every
     function of main_queue_scheduler.go is ported with its check order, the
     uint64 wrap-around of [seq+1] and the literal stop constant of
     [nextSchedulable] (a parameter, regenerated from the source into
     Gen/TxpoolConsts.v).
   Heaps are sets: which of several equal-priority elements a heap yields is
   the implementation's free choice, so [Add] and [Schedule] operations carry
   the implementation's choice and the model *validates* it.

   No proofs in this file. *)
From Verif Require Import Lib.Base.

Definition U64MAX : N := 18446744073709551615.
Definition MAXBATCH : N := 100.

Record tx := mkTx { tid : N; tsender : N; tseq : N; tprio : N }.

Record st := mkSt {
  cap : N;
  txs : list tx;                (* = s.txs = element set of minHeap = union of sender heaps *)
  senders : list (N * N);       (* sender -> senderTxHeap.seq ; key present iff s.senders has it *)
  sched : list (N * N);         (* s.scheduled *)
  maxh : list N                 (* ids in s.maxHeap (Book layer only) *)
}.

Definition init (c : N) : st := mkSt c [] [] [] [].

Inductive code := COk | CExpired | CReplUnderpriced | CUnderpriced | CBadChoice | CDupId.

Definition code_eqb (a b : code) : bool :=
  match a, b with
  | COk, COk | CExpired, CExpired | CReplUnderpriced, CReplUnderpriced
  | CUnderpriced, CUnderpriced | CBadChoice, CBadChoice | CDupId, CDupId => true
  | _, _ => false
  end.

Inductive op :=
| OAdd (t : tx) (stateSeq : N) (evict : N)  (* evict: id the implementation trimmed, if it trimmed *)
| OSchedule (limit : N) (picks : list N)    (* picks: ids the implementation returned, in order *)
| OReset
| OUsed (id : N)
| OForward (sender seq : N)
| OClear.

(* ---------- queries ---------- *)
Definition find_id (i : N) (l : list tx) : option tx := find (fun t => tid t =? i) l.
Definition sender_txs (a : N) (l : list tx) : list tx := filter (fun t => tsender t =? a) l.
Definition get_seq (a q : N) (l : list tx) : option tx :=
  find (fun t => (tsender t =? a) && (tseq t =? q)) l.
Definition del_id (i : N) (l : list tx) : list tx := filter (fun t => negb (tid t =? i)) l.
Definition has_sender (a : N) (l : list tx) : bool := existsb (fun t => tsender t =? a) l.
(* the sender heap's minimum *)
Fixpoint min_seq (l : list tx) : option tx :=
  match l with
  | [] => None
  | t :: r => match min_seq r with
              | None => Some t
              | Some m => if tseq t <=? tseq m then Some t else Some m
              end
  end.
Definition head (a : N) (l : list tx) : option tx := min_seq (sender_txs a l).

(* isSchedulable (main_queue_scheduler.go:346-354) *)
Definition is_ready (s : st) (t : tx) : bool :=
  match aget (tsender t) (sched s) with
  | Some last => if last =? U64MAX then false else tseq t =? last + 1
  | None => match aget (tsender t) (senders s) with
            | Some c => tseq t =? c
            | None => false
            end
  end.
Definition ready (s : st) : list tx := filter (is_ready s) (txs s).

Definition set_txs s l := mkSt (cap s) l (senders s) (sched s) (maxh s).
Definition set_senders s l := mkSt (cap s) (txs s) l (sched s) (maxh s).
Definition set_sched s l := mkSt (cap s) (txs s) (senders s) l (maxh s).
Definition set_maxh s l := mkSt (cap s) (txs s) (senders s) (sched s) l.

Definition nremove (i : N) (l : list N) : list N := filter (fun j => negb (j =? i)) l.
Definition nmem (i : N) (l : list N) : bool := existsb (N.eqb i) l.

(* ---------- Book layer: port of the code ---------- *)
Section Book.
  Variable STOP : N.   (* the literal of nextSchedulable: [tx.seq == STOP] *)

  (* Removal of all transactions of sender [a] that satisfy [P]; closed form
     of one or several calls of remove (main_queue_scheduler.go:287-300): the
     transactions leave txs / sender heap / minHeap / maxHeap, and the sender
     entry is deleted when its heap became empty through a removal. *)
  Definition drop (P : tx -> bool) (a : N) (s : st) : st :=
    let gonep := fun t => (tsender t =? a) && P t in
    let l := filter (fun t => negb (gonep t)) (txs s) in
    let gone := map tid (filter gonep (txs s)) in
    let s1 := set_maxh (set_txs s l) (filter (fun j => negb (nmem j gone)) (maxh s)) in
    if has_sender a (txs s) && negb (has_sender a l)
    then set_senders s1 (adel a (senders s1)) else s1.

  Definition b_remove (t : tx) (s : st) : st := drop (fun u => tid u =? tid t) (tsender t) s.

  (* insert (296-305) *)
  Definition b_insert (t : tx) (s : st) : st :=
    let s1 := set_txs s (t :: txs s) in
    if is_ready s t then set_maxh s1 (tid t :: maxh s1) else s1.

  (* replace (307-317) *)
  Definition b_replace (new old : tx) (s : st) : st :=
    let s1 := set_txs s (new :: del_id (tid old) (txs s)) in
    if nmem (tid old) (maxh s) then set_maxh s1 (tid new :: nremove (tid old) (maxh s)) else s1.

  (* add (99-133) + trim (135-150) *)
  Definition b_add (t : tx) (stateSeq evict : N) (s : st) : code * st :=
    match find_id (tid t) (txs s) with
    | Some _ => (CDupId, s)   (* outside the code's contract: ids (hashes) are unique *)
    | None =>
      let '(c, s1) := match aget (tsender t) (senders s) with
                      | Some c => (c, s)
                      | None => (stateSeq, set_senders s (aset (tsender t) stateSeq (senders s)))
                      end in
      if tseq t <? c then (CExpired, s1)
      else match get_seq (tsender t) (tseq t) (txs s1) with
           | Some old =>
               if tprio t <=? tprio old then (CReplUnderpriced, s1)
               else (COk, b_replace t old s1)
           | None =>
               let s2 := b_insert t s1 in
               if N.of_nat (length (txs s2)) <=? cap s2 then (COk, s2)
               else match find_id evict (txs s2) with
                    | None => (CBadChoice, s)
                    | Some low =>
                        if forallb (fun u => tprio low <=? tprio u) (txs s2)
                        then (if tid low =? tid t then CUnderpriced else COk, b_remove low s2)
                        else (CBadChoice, s)
                    end
           end
    end.

  (* forward (152-178): pops the sender heap while its minimum is below seq *)
  Definition b_forward (a q : N) (s : st) : st :=
    match aget a (senders s) with
    | None => s
    | Some c =>
        if q <=? c then s
        else
          let s1 := set_senders s (aset a q (senders s)) in
          (* the loop pops the sender heap while its minimum is below q *)
          let s2 := drop (fun t => tseq t <? q) a s1 in
          (* the new head may have become schedulable *)
          match head a (txs s2) with
          | Some f => if negb (nmem (tid f) (maxh s2)) && is_ready s2 f
                      then set_maxh s2 (tid f :: maxh s2) else s2
          | None => s2
          end
    end.

  (* handleTxUsed (180-194) *)
  Definition b_used (i : N) (s : st) : st :=
    match find_id i (txs s) with
    | None => s
    | Some t =>
        let s1 := b_remove t s in
        if tseq t <? U64MAX then b_forward (tsender t) (tseq t + 1) s1 else s1
    end.

  (* nextSchedulable (319-337): note the uint64 wrap of seq+1 *)
  Definition b_next (t : tx) (s : st) : option tx :=
    if tseq t =? STOP then None
    else match aget (tsender t) (senders s) with
         | None => None
         | Some _ => get_seq (tsender t) ((tseq t + 1) mod (U64MAX + 1)) (txs s)
         end.

  Definition max_prio_in (p : N) (l : list tx) : bool := forallb (fun u => tprio u <=? p) l.

  (* scheduleOne (211-228) with the implementation's pick [i] validated:
     it must be in the max heap and carry the maximal priority there. *)
  Definition b_schedule_one (i : N) (s : st) : option st :=
    if negb (nmem i (maxh s)) then None else
    match find_id i (txs s) with
    | None => None
    | Some t =>
        let heap_txs := filter (fun u => nmem (tid u) (maxh s)) (txs s) in
        if negb (max_prio_in (tprio t) heap_txs) then None else
        let mh := match b_next t s with
                  | Some n => tid n :: nremove i (maxh s)
                  | None => nremove i (maxh s)
                  end in
        Some (set_sched (set_maxh s mh) (aset (tsender t) (tseq t) (sched s)))
    end.

  Fixpoint b_schedule_picks (picks : list N) (s : st) : option st :=
    match picks with
    | [] => Some s
    | i :: r => match b_schedule_one i s with
                | None => None
                | Some s1 => b_schedule_picks r s1
                end
    end.

  (* schedule (196-209): stops at min(limit, maxBatchSize) or when the heap is empty *)
  Definition b_schedule (limit : N) (picks : list N) (s : st) : code * st :=
    let n := N.of_nat (length picks) in
    let lim := N.min limit MAXBATCH in
    if lim <? n then (CBadChoice, s) else
    match b_schedule_picks picks s with
    | None => (CBadChoice, s)
    | Some s1 =>
        if (n =? lim) || (match maxh s1 with [] => true | _ => false end)
        then (COk, s1) else (CBadChoice, s)
    end.

  (* restoreMaxHeap (241-275) *)
  Definition b_restore (a q : N) (s : st) : st :=
    match aget a (senders s) with
    | None => s
    | Some c =>
        match head a (txs s) with
        | None => s                                   (* seqHeap.empty() *)
        | Some h =>
            if (q <? U64MAX) && (c =? q + 1) then s else
            let first := if tseq h =? c then Some h else None in
            let current := if q <? U64MAX then get_seq a (q + 1) (txs s) else None in
            match current, first with
            | Some cu, Some f => set_maxh s (tid f :: nremove (tid cu) (maxh s))
            | Some cu, None => set_maxh s (nremove (tid cu) (maxh s))
            | None, Some f => set_maxh s (tid f :: maxh s)
            | None, None => s
            end
        end
    end.

  (* reset (230-239) *)
  Definition b_reset (s : st) : st :=
    set_sched (fold_left (fun acc e => b_restore (fst e) (snd e) acc) (sched s) s) [].

  (* clear (78-90): the schedule map is deliberately kept *)
  Definition b_clear (s : st) : st := mkSt (cap s) [] [] (sched s) [].

  Definition b_step (s : st) (o : op) : code * st :=
    match o with
    | OAdd t q e => b_add t q e s
    | OSchedule lim picks => b_schedule lim picks s
    | OReset => (COk, b_reset s)
    | OUsed i => (COk, b_used i s)
    | OForward a q => (COk, b_forward a q s)
    | OClear => (COk, b_clear s)
    end.
End Book.

(* ---------- Ref layer: same operations with the ready set computed ---------- *)
Definition r_schedule_one (i : N) (s : st) : option st :=
  match find_id i (ready s) with
  | None => None
  | Some t =>
      if negb (forallb (fun u => tprio u <=? tprio t) (ready s)) then None
      else Some (set_sched s (aset (tsender t) (tseq t) (sched s)))
  end.

Fixpoint r_schedule_picks (picks : list N) (s : st) : option st :=
  match picks with
  | [] => Some s
  | i :: r => match r_schedule_one i s with
              | None => None
              | Some s1 => r_schedule_picks r s1
              end
  end.

Definition r_schedule (limit : N) (picks : list N) (s : st) : code * st :=
  let n := N.of_nat (length picks) in
  let lim := N.min limit MAXBATCH in
  if lim <? n then (CBadChoice, s) else
  match r_schedule_picks picks s with
  | None => (CBadChoice, s)
  | Some s1 =>
      if (n =? lim) || (match ready s1 with [] => true | _ => false end)
      then (COk, s1) else (CBadChoice, s)
  end.

(* The reference ignores [maxh] entirely (it is kept at []). *)
Definition erase (s : st) : st := set_maxh s [].

Definition r_step (s : st) (o : op) : code * st :=
  match o with
  | OSchedule lim picks => r_schedule lim picks s
  | OReset => (COk, set_sched s [])
  | _ => let '(c, s1) := b_step 0 s o in (c, erase s1)
  end.

(* ---------- running, observables ---------- *)
Definition obs := (code * list N)%type.   (* result class, sorted ids of all() *)
Definition observe (c : code) (s : st) : obs := (c, nsort (map tid (txs s))).

Fixpoint run_obs (step : st -> op -> code * st) (s : st) (ops : list op) : list obs :=
  match ops with
  | [] => []
  | o :: r => let '(c, s1) := step s o in observe c s1 :: run_obs step s1 r
  end.

Definition run (step : st -> op -> code * st) (s : st) (ops : list op) : st :=
  fold_left (fun acc o => snd (step acc o)) ops s.

Definition obs_eqb (a b : obs) : bool :=
  code_eqb (fst a) (fst b) && list_eqb N.eqb (snd a) (snd b).

(* a correspondence case: capacity, operations; expected: the observations *)
Definition case_in := (N * list op)%type.
Definition run_case_book (STOP : N) (c : case_in) : list obs := run_obs (b_step STOP) (init (fst c)) (snd c).
Definition run_case_ref (c : case_in) : list obs := run_obs r_step (init (fst c)) (snd c).
