(* Invariant of the bookkeeping layer and its preservation by every operation. *)
From Verif Require Import Lib.Base Txpool.Model.
From Coq Require Import ZifyBool ZifyNat ZifyN.

(* ---------- small list facts ---------- *)
Lemma nmem_In i l : nmem i l = true <-> In i l.
Proof.
  unfold nmem. rewrite existsb_exists. split.
  - intros [x [Hx He]]. apply N.eqb_eq in He. subst. exact Hx.
  - intros H. exists i. split; [exact H|apply N.eqb_refl].
Qed.

Lemma nmem_false i l : nmem i l = false <-> ~ In i l.
Proof.
  split.
  - intros H Hi. apply nmem_In in Hi. congruence.
  - intros H. destruct (nmem i l) eqn:E; [|reflexivity]. apply nmem_In in E. contradiction.
Qed.

Lemma In_nremove j i l : In j (nremove i l) <-> In j l /\ j <> i.
Proof.
  unfold nremove. rewrite filter_In. split.
  - intros [H1 H2]. split; [exact H1|]. intros ->. rewrite N.eqb_refl in H2. discriminate.
  - intros [H1 H2]. split; [exact H1|]. destruct (j =? i) eqn:E; [lia|reflexivity].
Qed.

Lemma nmem_cons i j l : nmem i (j :: l) = (i =? j) || nmem i l.
Proof. reflexivity. Qed.

Lemma nmem_nremove j i l : nmem j (nremove i l) = nmem j l && negb (j =? i).
Proof.
  destruct (nmem j (nremove i l)) eqn:E.
  - apply nmem_In in E. apply In_nremove in E as [H1 H2].
    apply nmem_In in H1. rewrite H1. destruct (j =? i) eqn:E2; [lia|reflexivity].
  - apply nmem_false in E. destruct (nmem j l) eqn:E1; [|reflexivity].
    destruct (j =? i) eqn:E2; [reflexivity|]. exfalso. apply E. apply In_nremove.
    apply nmem_In in E1. split; [exact E1|lia].
Qed.

Lemma find_id_some i l t : find_id i l = Some t -> In t l /\ tid t = i.
Proof.
  unfold find_id. intros H. apply find_some in H as [H1 H2].
  apply N.eqb_eq in H2. split; assumption.
Qed.

Lemma find_id_none i l : find_id i l = None -> forall t, In t l -> tid t <> i.
Proof.
  unfold find_id. intros H t Ht He. eapply find_none in H; [|exact Ht].
  cbn in H. lia.
Qed.

Lemma find_id_unique i l t :
  NoDup (map tid l) -> In t l -> tid t = i -> find_id i l = Some t.
Proof.
  induction l as [|u r IH]; cbn [map find_id find]; intros Hnd Hin He; [contradiction|].
  inversion Hnd as [|x xs Hnot Hnd' Heq]; subst.
  destruct Hin as [->|Hin].
  - rewrite N.eqb_refl. reflexivity.
  - destruct (tid u =? tid t) eqn:E.
    + exfalso. apply Hnot. apply N.eqb_eq in E. rewrite E. apply in_map. exact Hin.
    + apply IH; [exact Hnd'|exact Hin|reflexivity].
Qed.

Lemma get_seq_some a q l t :
  get_seq a q l = Some t -> In t l /\ tsender t = a /\ tseq t = q.
Proof.
  unfold get_seq. intros H. apply find_some in H as [H1 H2].
  apply andb_true_iff in H2 as [H2 H3]. apply N.eqb_eq in H2, H3. auto.
Qed.

Lemma get_seq_none a q l :
  get_seq a q l = None -> forall t, In t l -> tsender t = a -> tseq t = q -> False.
Proof.
  unfold get_seq. intros H t Ht Ha Hq. eapply find_none in H; [|exact Ht].
  cbn in H. rewrite Ha, Hq, !N.eqb_refl in H. discriminate.
Qed.

Lemma has_sender_true a l : has_sender a l = true <-> exists t, In t l /\ tsender t = a.
Proof.
  unfold has_sender. rewrite existsb_exists. split; intros [t [H1 H2]]; exists t; split; auto.
  - apply N.eqb_eq. exact H2.
  - apply N.eqb_eq in H2. exact H2.
Qed.

Lemma has_sender_false a l : has_sender a l = false <-> forall t, In t l -> tsender t <> a.
Proof.
  split.
  - intros H t Ht Ha. assert (has_sender a l = true) by (apply has_sender_true; eauto). congruence.
  - intros H. destruct (has_sender a l) eqn:E; [|reflexivity].
    apply has_sender_true in E as [t [H1 H2]]. exfalso. eapply H; eauto.
Qed.

(* the sender heap's minimum *)
Lemma min_seq_some l m : min_seq l = Some m -> In m l /\ forall t, In t l -> tseq m <= tseq t.
Proof.
  revert m. induction l as [|u r IH]; cbn [min_seq]; intros m H; [discriminate|].
  destruct (min_seq r) as [m'|] eqn:E.
  - destruct (IH m' eq_refl) as [Hin Hle].
    destruct (tseq u <=? tseq m') eqn:E2; injection H as <-.
    + split; [left; reflexivity|]. intros t [->|Ht]; [lia|]. specialize (Hle t Ht). lia.
    + split; [right; exact Hin|]. intros t [->|Ht]; [lia|]. apply Hle. exact Ht.
  - injection H as <-. destruct r as [|x r'].
    + split; [left; reflexivity|]. intros t [->|[]]. lia.
    + cbn [min_seq] in E. destruct (min_seq r'); [destruct (tseq x <=? tseq t)|]; discriminate.
Qed.

Lemma min_seq_none l : min_seq l = None -> l = [].
Proof.
  destruct l as [|u r]; [reflexivity|]. cbn [min_seq].
  destruct (min_seq r); [destruct (tseq u <=? tseq t)|]; discriminate.
Qed.

Lemma head_some a l h :
  head a l = Some h -> In h l /\ tsender h = a /\ forall t, In t l -> tsender t = a -> tseq h <= tseq t.
Proof.
  unfold head, sender_txs. intros H. apply min_seq_some in H as [H1 H2].
  apply filter_In in H1 as [H1 H1']. apply N.eqb_eq in H1'.
  split; [exact H1|split; [exact H1'|]]. intros t Ht Ha. apply H2. apply filter_In.
  split; [exact Ht|]. apply N.eqb_eq. exact Ha.
Qed.

Lemma head_none a l : head a l = None -> forall t, In t l -> tsender t <> a.
Proof.
  unfold head, sender_txs. intros H t Ht Ha. apply min_seq_none in H.
  assert (In t (filter (fun t0 => tsender t0 =? a) l)) as Hin.
  { apply filter_In. split; [exact Ht|]. apply N.eqb_eq. exact Ha. }
  rewrite H in Hin. exact Hin.
Qed.

(* ---------- readiness as a function of (sched, senders, sender, seq) ---------- *)
Definition rdy (sch snd_ : list (N * N)) (a q : N) : bool :=
  match aget a sch with
  | Some last => if last =? U64MAX then false else q =? last + 1
  | None => match aget a snd_ with
            | Some c => q =? c
            | None => false
            end
  end.

Lemma is_ready_rdy s t : is_ready s t = rdy (sched s) (senders s) (tsender t) (tseq t).
Proof. reflexivity. Qed.

Lemma is_ready_ext s1 s2 t : sched s1 = sched s2 -> senders s1 = senders s2 -> is_ready s1 t = is_ready s2 t.
Proof. intros H1 H2. unfold is_ready. rewrite H1, H2. reflexivity. Qed.

(* two ready transactions of one sender occupy the same slot *)
Lemma rdy_same_seq sch snd_ a q1 q2 : rdy sch snd_ a q1 = true -> rdy sch snd_ a q2 = true -> q1 = q2.
Proof.
  unfold rdy. destruct (aget a sch) as [last|].
  - destruct (last =? U64MAX); [discriminate|]. intros H1 H2. lia.
  - destruct (aget a snd_) as [c|]; [|discriminate]. intros H1 H2. lia.
Qed.

(* ---------- the invariant ---------- *)
Record Inv (s : st) : Prop := mkInv {
  i_ids : NoDup (map tid (txs s));
  i_slot : forall t u, In t (txs s) -> In u (txs s) -> tsender t = tsender u -> tseq t = tseq u -> t = u;
  i_entry : forall t, In t (txs s) -> exists c, aget (tsender t) (senders s) = Some c /\ c <= tseq t;
  i_mem : forall t, In t (txs s) -> nmem (tid t) (maxh s) = is_ready s t;
  i_sub : forall j, In j (maxh s) -> exists t, In t (txs s) /\ tid t = j;
  i_btx : forall t, In t (txs s) -> tseq t <= U64MAX;
  i_bsched : forall a q, aget a (sched s) = Some q -> q <= U64MAX
}.

Lemma inv_init c : Inv (init c).
Proof.
  constructor; cbn; try contradiction; try constructor; try discriminate.
Qed.

Lemma inv_id_eq s t u : Inv s -> In t (txs s) -> In u (txs s) -> tid t = tid u -> t = u.
Proof.
  intros HI Ht Hu He.
  assert (find_id (tid u) (txs s) = Some t) by (apply find_id_unique; [apply HI|exact Ht|exact He]).
  assert (find_id (tid u) (txs s) = Some u) by (apply find_id_unique; [apply HI|exact Hu|reflexivity]).
  congruence.
Qed.

(* the maximal heap is the set of ids of ready transactions *)
Lemma inv_maxh_ready s : Inv s -> forall j, In j (maxh s) <-> In j (map tid (ready s)).
Proof.
  intros HI j. split.
  - intros Hj. destruct (i_sub s HI j Hj) as [t [Ht He]]. subst j.
    apply in_map. unfold ready. apply filter_In. split; [exact Ht|].
    rewrite <- (i_mem s HI t Ht). apply nmem_In. exact Hj.
  - intros Hj. apply in_map_iff in Hj as [t [He Ht]]. subst j.
    unfold ready in Ht. apply filter_In in Ht as [Ht Hr].
    apply nmem_In. rewrite (i_mem s HI t Ht). exact Hr.
Qed.

(* ---------- facts about [drop] ---------- *)
Lemma NoDup_map_filter {A B} (f : A -> B) (p : A -> bool) l :
  NoDup (map f l) -> NoDup (map f (filter p l)).
Proof.
  induction l as [|x r IH]; cbn [map filter]; intros H; [constructor|].
  inversion H as [|y ys Hnot Hnd]; subst.
  destruct (p x); cbn [map]; [|apply IH; exact Hnd].
  constructor; [|apply IH; exact Hnd].
  intros Hin. apply Hnot. apply in_map_iff in Hin as [z [Hz Hin]].
  apply filter_In in Hin as [Hin _]. rewrite <- Hz. apply in_map. exact Hin.
Qed.

Section Drop.
  Variables (P : tx -> bool) (a : N) (s : st).
  Let s' := drop P a s.
  Let gonep := fun t => (tsender t =? a) && P t.

  Lemma drop_txs : txs s' = filter (fun t => negb (gonep t)) (txs s).
  Proof. unfold s', drop. destruct (_ && _); reflexivity. Qed.

  Lemma drop_sched : sched s' = sched s.
  Proof. unfold s', drop. destruct (_ && _); reflexivity. Qed.

  Lemma drop_cap : cap s' = cap s.
  Proof. unfold s', drop. destruct (_ && _); reflexivity. Qed.

  Lemma drop_maxh : maxh s' = filter (fun j => negb (nmem j (map tid (filter gonep (txs s))))) (maxh s).
  Proof. unfold s', drop. destruct (_ && _); reflexivity. Qed.

  Lemma drop_In_txs t : In t (txs s') <-> In t (txs s) /\ gonep t = false.
  Proof.
    rewrite drop_txs, filter_In. split; intros [H1 H2]; split; auto.
    - destruct (gonep t); [discriminate|reflexivity].
    - rewrite H2. reflexivity.
  Qed.

  Lemma drop_senders_other b : b <> a -> aget b (senders s') = aget b (senders s).
  Proof.
    intros Hne. unfold s', drop. destruct (_ && _); [|reflexivity].
    cbn. apply aget_adel_other. exact Hne.
  Qed.

  Lemma drop_senders_kept : has_sender a (txs s') = true -> senders s' = senders s.
  Proof.
    intros H. rewrite drop_txs in H. unfold gonep in H. unfold s', drop. cbv zeta.
    rewrite H. rewrite andb_false_r. reflexivity.
  Qed.

  Lemma drop_mem_kept t :
    NoDup (map tid (txs s)) -> In t (txs s) -> gonep t = false ->
    nmem (tid t) (maxh s') = nmem (tid t) (maxh s).
  Proof.
    intros Hnd Ht Hg. rewrite drop_maxh.
    destruct (nmem (tid t) (maxh s)) eqn:E.
    - apply nmem_In. apply filter_In. split; [apply nmem_In; exact E|].
      destruct (nmem (tid t) (map tid (filter gonep (txs s)))) eqn:E2; [|reflexivity].
      exfalso. apply nmem_In in E2. apply in_map_iff in E2 as [u [Hu Hin]].
      apply filter_In in Hin as [Hin Hgu].
      assert (u = t).
      { assert (find_id (tid t) (txs s) = Some u) by (apply find_id_unique; auto).
        assert (find_id (tid t) (txs s) = Some t) by (apply find_id_unique; auto).
        congruence. }
      subst u. congruence.
    - apply nmem_false. intros Hin. apply filter_In in Hin as [Hin _].
      apply nmem_In in Hin. congruence.
  Qed.

  Lemma drop_maxh_sub j : In j (maxh s') -> In j (maxh s) /\
     forall u, In u (txs s) -> tid u = j -> gonep u = false.
  Proof.
    rewrite drop_maxh. intros H. apply filter_In in H as [H1 H2]. split; [exact H1|].
    intros u Hu He. destruct (gonep u) eqn:E; [|reflexivity]. exfalso.
    assert (nmem j (map tid (filter gonep (txs s))) = true) as Hm.
    { apply nmem_In. rewrite <- He. apply in_map. apply filter_In. auto. }
    rewrite Hm in H2. discriminate.
  Qed.
End Drop.

Lemma drop_inv P a s : Inv s -> Inv (drop P a s).
Proof.
  intros HI.
  assert (forall t, In t (txs (drop P a s)) -> In t (txs s)) as Hsub.
  { intros t Ht. apply drop_In_txs in Ht. tauto. }
  assert (forall t, In t (txs (drop P a s)) ->
            aget (tsender t) (senders (drop P a s)) = aget (tsender t) (senders s)) as Hsnd.
  { intros t Ht. destruct (N.eq_dec (tsender t) a) as [Ha|Ha].
    - rewrite drop_senders_kept; [reflexivity|].
      apply has_sender_true. exists t. split; [exact Ht|exact Ha].
    - apply drop_senders_other. exact Ha. }
  constructor.
  - rewrite drop_txs. apply NoDup_map_filter. apply HI.
  - intros t u Ht Hu. apply (i_slot s HI); auto.
  - intros t Ht. rewrite (Hsnd t Ht). apply (i_entry s HI). auto.
  - intros t Ht. pose proof Ht as Ht'. apply drop_In_txs in Ht' as [Ht1 Ht2].
    rewrite drop_mem_kept; [|apply HI|exact Ht1|exact Ht2].
    rewrite (i_mem s HI t Ht1). unfold is_ready.
    rewrite (Hsnd t Ht). rewrite drop_sched. reflexivity.
  - intros j Hj. apply drop_maxh_sub in Hj as [Hj1 Hj2].
    destruct (i_sub s HI j Hj1) as [t [Ht He]]. exists t. split; [|exact He].
    apply drop_In_txs. split; [exact Ht|]. apply Hj2; assumption.
  - intros t Ht. apply (i_btx s HI). auto.
  - intros b q. rewrite drop_sched. apply (i_bsched s HI).
Qed.

(* ---------- add ---------- *)
(* creating the entry of a sender that has no transactions *)
Lemma new_sender_inv s a c :
  Inv s -> aget a (senders s) = None -> Inv (set_senders s (aset a c (senders s))).
Proof.
  intros HI Hn.
  assert (forall t, In t (txs s) -> tsender t <> a) as Hno.
  { intros t Ht Ha. destruct (i_entry s HI t Ht) as [c' [H1 _]]. rewrite Ha in H1. congruence. }
  constructor; cbn [txs senders sched maxh set_senders].
  - apply HI.
  - apply HI.
  - intros t Ht. rewrite aget_aset_other; [apply (i_entry s HI t Ht)|]. intros He. apply (Hno t Ht). auto.
  - intros t Ht. rewrite (i_mem s HI t Ht). unfold is_ready. cbn [senders sched set_senders].
    rewrite aget_aset_other; [reflexivity|]. intros He. apply (Hno t Ht). auto.
  - apply HI.
  - apply HI.
  - apply HI.
Qed.

Lemma insert_inv t s c :
  Inv s -> find_id (tid t) (txs s) = None -> get_seq (tsender t) (tseq t) (txs s) = None ->
  aget (tsender t) (senders s) = Some c -> c <= tseq t -> tseq t <= U64MAX ->
  Inv (b_insert t s).
Proof.
  intros HI Hid Hslot Hc Hle Hb.
  assert (forall u, In u (txs s) -> tid u <> tid t) as Hfresh by (apply find_id_none; exact Hid).
  unfold b_insert.
  assert (Inv (set_txs s (t :: txs s)) \/ True) as _ by (right; exact I).
  destruct (is_ready s t) eqn:Er.
  - constructor; cbn [txs senders sched maxh set_txs set_maxh map].
    + constructor; [|apply HI]. intros Hin. apply in_map_iff in Hin as [u [He Hu]].
      apply (Hfresh u Hu). exact He.
    + intros x y [<-|Hx] [<-|Hy] Hs Hq; try reflexivity.
      * exfalso. eapply get_seq_none; [exact Hslot|exact Hy|auto|auto].
      * exfalso. eapply get_seq_none; [exact Hslot|exact Hx|auto|auto].
      * apply (i_slot s HI); auto.
    + intros x [<-|Hx]; [exists c; auto|apply (i_entry s HI x Hx)].
    + intros x [<-|Hx].
      * rewrite nmem_cons, N.eqb_refl. cbn. unfold is_ready in *. cbn. rewrite Er. reflexivity.
      * rewrite nmem_cons. destruct (tid x =? tid t) eqn:E.
        { exfalso. apply (Hfresh x Hx). lia. }
        cbn [orb]. rewrite (i_mem s HI x Hx). reflexivity.
    + intros j [<-|Hj]; [exists t; split; [left; reflexivity|reflexivity]|].
      destruct (i_sub s HI j Hj) as [u [Hu He]]. exists u. split; [right; exact Hu|exact He].
    + intros x [<-|Hx]; [exact Hb|apply (i_btx s HI x Hx)].
    + apply HI.
  - constructor; cbn [txs senders sched maxh set_txs map].
    + constructor; [|apply HI]. intros Hin. apply in_map_iff in Hin as [u [He Hu]].
      apply (Hfresh u Hu). exact He.
    + intros x y [<-|Hx] [<-|Hy] Hs Hq; try reflexivity.
      * exfalso. eapply get_seq_none; [exact Hslot|exact Hy|auto|auto].
      * exfalso. eapply get_seq_none; [exact Hslot|exact Hx|auto|auto].
      * apply (i_slot s HI); auto.
    + intros x [<-|Hx]; [exists c; auto|apply (i_entry s HI x Hx)].
    + intros x [<-|Hx].
      * unfold is_ready in *. cbn. rewrite Er. apply nmem_false. intros Hj.
        destruct (i_sub s HI _ Hj) as [u [Hu He]]. apply (Hfresh u Hu). exact He.
      * rewrite (i_mem s HI x Hx). reflexivity.
    + intros j Hj. destruct (i_sub s HI j Hj) as [u [Hu He]]. exists u. split; [right; exact Hu|exact He].
    + intros x [<-|Hx]; [exact Hb|apply (i_btx s HI x Hx)].
    + apply HI.
Qed.

Lemma In_del_id u i l : In u (del_id i l) <-> In u l /\ tid u <> i.
Proof.
  unfold del_id. rewrite filter_In. split; intros [H1 H2]; split; auto.
  - intros He. rewrite He, N.eqb_refl in H2. discriminate.
  - destruct (tid u =? i) eqn:E; [lia|reflexivity].
Qed.

Lemma replace_inv t old s :
  Inv s -> find_id (tid t) (txs s) = None -> In old (txs s) ->
  tsender old = tsender t -> tseq old = tseq t ->
  Inv (b_replace t old s).
Proof.
  intros HI Hid Hold Hs Hq.
  assert (forall u, In u (txs s) -> tid u <> tid t) as Hfresh by (apply find_id_none; exact Hid).
  assert (forall u, In u (del_id (tid old) (txs s)) -> In u (txs s) /\ u <> old) as Hdel.
  { intros u Hu. apply In_del_id in Hu as [H1 H2]. split; [exact H1|]. intros ->. apply H2. reflexivity. }
  assert (is_ready s t = is_ready s old) as Hr by (unfold is_ready; rewrite Hs, Hq; reflexivity).
  assert (NoDup (map tid (t :: del_id (tid old) (txs s)))) as Hnd.
  { cbn [map]. constructor.
    - intros Hin. apply in_map_iff in Hin as [u [He Hu]]. apply Hdel in Hu as [Hu _]. apply (Hfresh u Hu). exact He.
    - unfold del_id. apply NoDup_map_filter. apply HI. }
  assert (forall x y, In x (t :: del_id (tid old) (txs s)) -> In y (t :: del_id (tid old) (txs s)) ->
            tsender x = tsender y -> tseq x = tseq y -> x = y) as Hsl.
  { intros x y [<-|Hx] [<-|Hy] Hs' Hq'; try reflexivity.
    - apply Hdel in Hy as [Hy Hne]. exfalso. apply Hne. apply (i_slot s HI); auto; congruence.
    - apply Hdel in Hx as [Hx Hne]. exfalso. apply Hne. apply (i_slot s HI); auto; congruence.
    - apply Hdel in Hx as [Hx _]. apply Hdel in Hy as [Hy _]. apply (i_slot s HI); auto. }
  assert (forall x, In x (t :: del_id (tid old) (txs s)) ->
            exists c, aget (tsender x) (senders s) = Some c /\ c <= tseq x) as Hen.
  { intros x [<-|Hx].
    - destruct (i_entry s HI old Hold) as [c [H1 H2]]. exists c. rewrite <- Hs, <- Hq. auto.
    - apply Hdel in Hx as [Hx _]. apply (i_entry s HI x Hx). }
  assert (forall x, In x (t :: del_id (tid old) (txs s)) -> tseq x <= U64MAX) as Hbt.
  { intros x [<-|Hx]; [rewrite <- Hq; apply (i_btx s HI old Hold)|].
    apply Hdel in Hx as [Hx _]. apply (i_btx s HI x Hx). }
  unfold b_replace. destruct (nmem (tid old) (maxh s)) eqn:Em.
  - constructor; cbn [txs senders sched maxh set_txs set_maxh]; auto; try apply HI.
    + intros x [<-|Hx].
      * rewrite nmem_cons, N.eqb_refl. cbn [orb]. rewrite (is_ready_ext _ s) by reflexivity.
        rewrite Hr, <- (i_mem s HI old Hold). symmetry. exact Em.
      * apply Hdel in Hx as [Hx Hne]. rewrite nmem_cons.
        destruct (tid x =? tid t) eqn:E; [exfalso; apply (Hfresh x Hx); lia|]. cbn [orb].
        rewrite nmem_nremove. destruct (tid x =? tid old) eqn:E2.
        { exfalso. apply Hne. apply (inv_id_eq s); auto. lia. }
        rewrite andb_true_r. rewrite (is_ready_ext _ s) by reflexivity. apply (i_mem s HI x Hx).
    + intros j [<-|Hj]; [exists t; split; [left|]; reflexivity|].
      apply In_nremove in Hj as [Hj Hne]. destruct (i_sub s HI j Hj) as [u [Hu He]].
      exists u. split; [|exact He]. right. apply In_del_id. split; [exact Hu|congruence].
  - constructor; cbn [txs senders sched maxh set_txs]; auto; try apply HI.
    + intros x [<-|Hx].
      * rewrite (is_ready_ext _ s) by reflexivity. rewrite Hr, <- (i_mem s HI old Hold), Em.
        apply nmem_false. intros Hj. destruct (i_sub s HI _ Hj) as [u [Hu He]]. apply (Hfresh u Hu). exact He.
      * apply Hdel in Hx as [Hx _]. rewrite (is_ready_ext _ s) by reflexivity. apply (i_mem s HI x Hx).
    + intros j Hj. destruct (i_sub s HI j Hj) as [u [Hu He]]. exists u. split; [|exact He].
      right. apply In_del_id. split; [exact Hu|]. intros Heq. apply nmem_false in Em. apply Em. congruence.
Qed.

Definition op_ok (o : op) : Prop :=
  match o with OAdd t _ _ => tseq t <= U64MAX | _ => True end.

Lemma add_inv t q e s : Inv s -> tseq t <= U64MAX -> Inv (snd (b_add t q e s)).
Proof.
  intros HI Hb. unfold b_add.
  destruct (find_id (tid t) (txs s)) eqn:Hid; [exact HI|].
  destruct (aget (tsender t) (senders s)) as [c|] eqn:Hc.
  - destruct (tseq t <? c) eqn:Hexp; [exact HI|].
    destruct (get_seq (tsender t) (tseq t) (txs s)) as [old|] eqn:Hg.
    + destruct (tprio t <=? tprio old); [exact HI|]. cbn [snd].
      apply get_seq_some in Hg as [H1 [H2 H3]]. apply replace_inv; auto.
    + assert (Inv (b_insert t s)) as HI2 by (apply (insert_inv t s c); auto; lia).
      destruct (N.of_nat (length (txs (b_insert t s))) <=? cap (b_insert t s)); [exact HI2|].
      destruct (find_id e (txs (b_insert t s))) as [low|]; [|exact HI].
      destruct (forallb _ _); [|exact HI]. cbn [snd]. apply drop_inv. exact HI2.
  - set (s1 := set_senders s (aset (tsender t) q (senders s))).
    assert (Inv s1) as HI1 by (apply new_sender_inv; auto).
    destruct (tseq t <? q) eqn:Hexp; [exact HI1|].
    change (txs s1) with (txs s).
    destruct (get_seq (tsender t) (tseq t) (txs s)) as [old|] eqn:Hg.
    + destruct (tprio t <=? tprio old); [exact HI1|]. cbn [snd].
      apply get_seq_some in Hg as [H1 [H2 H3]]. apply replace_inv; auto.
    + assert (Inv (b_insert t s1)) as HI2.
      { apply (insert_inv t s1 q); auto; [|lia]. cbn. apply aget_aset_same. }
      destruct (N.of_nat (length (txs (b_insert t s1))) <=? cap (b_insert t s1)); [exact HI2|].
      destruct (find_id e (txs (b_insert t s1))) as [low|]; [|exact HI].
      destruct (forallb _ _); [|exact HI]. cbn [snd]. apply drop_inv. exact HI2.
Qed.

(* ---------- scheduleOne (with the corrected stop constant) ---------- *)
Lemma u64_succ q : q <= U64MAX -> q <> U64MAX -> (q + 1) mod (U64MAX + 1) = q + 1.
Proof. intros H1 H2. apply N.mod_small. unfold U64MAX in *. lia. Qed.

Lemma schedule_one_inv i s s1 : Inv s -> b_schedule_one U64MAX i s = Some s1 -> Inv s1.
Proof.
  intros HI H. unfold b_schedule_one in H.
  destruct (nmem i (maxh s)) eqn:Em; [|discriminate]. cbn [negb] in H.
  destruct (find_id i (txs s)) as [t|] eqn:Hf; [|discriminate].
  destruct (max_prio_in _ _); [|discriminate]. cbn [negb] in H.
  apply find_id_some in Hf as [Ht Hid]. subst i.
  assert (is_ready s t = true) as Hrt by (rewrite <- (i_mem s HI t Ht); exact Em).
  pose proof (i_btx s HI t Ht) as Hbt.
  destruct (i_entry s HI t Ht) as [c [Hc Hcle]].
  (* characterise the successor *)
  assert (forall n, b_next U64MAX t s = Some n ->
            In n (txs s) /\ tsender n = tsender t /\ tseq n = tseq t + 1 /\ tseq t <> U64MAX) as Hnext.
  { unfold b_next. intros n Hn. destruct (tseq t =? U64MAX) eqn:E; [discriminate|].
    rewrite Hc in Hn. rewrite u64_succ in Hn by lia.
    apply get_seq_some in Hn as [H1 [H2 H3]]. repeat split; auto. lia. }
  assert (b_next U64MAX t s = None ->
            forall u, In u (txs s) -> tsender u = tsender t -> tseq u = tseq t + 1 -> tseq t = U64MAX) as Hnone.
  { unfold b_next. intros Hn u Hu Hs Hq. destruct (tseq t =? U64MAX) eqn:E; [lia|].
    rewrite Hc in Hn. rewrite u64_succ in Hn by lia. exfalso. eapply get_seq_none; eauto. }
  set (sch' := aset (tsender t) (tseq t) (sched s)).
  (* readiness after the step *)
  assert (forall u, tsender u <> tsender t ->
            rdy sch' (senders s) (tsender u) (tseq u) = is_ready s u) as Hother.
  { intros u Hne. unfold rdy, is_ready, sch'. rewrite aget_aset_other by exact Hne. reflexivity. }
  assert (forall u, tsender u = tsender t ->
            rdy sch' (senders s) (tsender u) (tseq u) =
            if tseq t =? U64MAX then false else tseq u =? tseq t + 1) as Hsame.
  { intros u He. unfold rdy, sch'. rewrite He, aget_aset_same. reflexivity. }
  assert (forall u, In u (txs s) -> tsender u = tsender t -> nmem (tid u) (maxh s) = true -> u = t) as Honly.
  { intros u Hu Hs Hm. rewrite (i_mem s HI u Hu) in Hm. apply (i_slot s HI); auto.
    rewrite !is_ready_rdy in *. rewrite Hs in Hm. eapply rdy_same_seq; eauto. }
  destruct (b_next U64MAX t s) as [n|] eqn:En; injection H as <-.
  - destruct (Hnext n eq_refl) as [Hn1 [Hn2 [Hn3 Hn4]]].
    constructor; cbn [txs senders sched maxh set_sched set_maxh]; try apply HI.
    + intros u Hu. rewrite nmem_cons, nmem_nremove. unfold is_ready. cbn [sched senders set_sched set_maxh].
      fold sch'. fold (rdy sch' (senders s) (tsender u) (tseq u)).
      destruct (N.eq_dec (tsender u) (tsender t)) as [He|He].
      * rewrite (Hsame u He). destruct (tseq t =? U64MAX) eqn:E; [lia|].
        destruct (tseq u =? tseq t + 1) eqn:E2.
        { assert (u = n) by (apply (i_slot s HI); auto; lia). subst u. rewrite N.eqb_refl. reflexivity. }
        { destruct (tid u =? tid n) eqn:E3.
          - exfalso. assert (u = n) by (apply (inv_id_eq s); auto; lia). subst u. lia.
          - cbn [orb]. destruct (nmem (tid u) (maxh s)) eqn:E4; [|reflexivity].
            rewrite (Honly u Hu He E4), N.eqb_refl. reflexivity. }
      * rewrite (Hother u He). rewrite (i_mem s HI u Hu).
        destruct (tid u =? tid n) eqn:E3.
        { exfalso. assert (u = n) by (apply (inv_id_eq s); auto; lia). subst u. congruence. }
        destruct (tid u =? tid t) eqn:E4.
        { exfalso. assert (u = t) by (apply (inv_id_eq s); auto; lia). subst u. congruence. }
        cbn [orb negb]. rewrite andb_true_r. reflexivity.
    + intros j [<-|Hj]; [exists n; auto|]. apply In_nremove in Hj as [Hj _]. apply (i_sub s HI j Hj).
    + intros b q. unfold sch'. destruct (N.eq_dec b (tsender t)) as [->|Hne].
      * rewrite aget_aset_same. intros Hq. injection Hq as <-. exact Hbt.
      * rewrite aget_aset_other by exact Hne. apply (i_bsched s HI).
  - constructor; cbn [txs senders sched maxh set_sched set_maxh]; try apply HI.
    + intros u Hu. rewrite nmem_nremove. unfold is_ready. cbn [sched senders set_sched set_maxh].
      fold sch'. fold (rdy sch' (senders s) (tsender u) (tseq u)).
      destruct (N.eq_dec (tsender u) (tsender t)) as [He|He].
      * rewrite (Hsame u He). destruct (tseq t =? U64MAX) eqn:E.
        { destruct (nmem (tid u) (maxh s)) eqn:E4; [|reflexivity].
          rewrite (Honly u Hu He E4), N.eqb_refl. reflexivity. }
        destruct (tseq u =? tseq t + 1) eqn:E2.
        { exfalso. pose proof (Hnone eq_refl u Hu He). lia. }
        destruct (nmem (tid u) (maxh s)) eqn:E4; [|reflexivity].
        rewrite (Honly u Hu He E4), N.eqb_refl. reflexivity.
      * rewrite (Hother u He). rewrite (i_mem s HI u Hu).
        destruct (tid u =? tid t) eqn:E4.
        { exfalso. assert (u = t) by (apply (inv_id_eq s); auto; lia). subst u. congruence. }
        cbn [negb]. rewrite andb_true_r. reflexivity.
    + intros j Hj. apply In_nremove in Hj as [Hj _]. apply (i_sub s HI j Hj).
    + intros b q. unfold sch'. destruct (N.eq_dec b (tsender t)) as [->|Hne].
      * rewrite aget_aset_same. intros Hq. injection Hq as <-. exact Hbt.
      * rewrite aget_aset_other by exact Hne. apply (i_bsched s HI).
Qed.

Lemma schedule_picks_inv picks : forall s s1,
  Inv s -> b_schedule_picks U64MAX picks s = Some s1 -> Inv s1.
Proof.
  induction picks as [|i r IH]; cbn [b_schedule_picks]; intros s s1 HI H.
  - injection H as <-. exact HI.
  - destruct (b_schedule_one U64MAX i s) as [s2|] eqn:E; [|discriminate].
    eapply IH; [|exact H]. eapply schedule_one_inv; eauto.
Qed.

Lemma schedule_inv lim picks s : Inv s -> Inv (snd (b_schedule U64MAX lim picks s)).
Proof.
  intros HI. unfold b_schedule. destruct (_ <? _); [exact HI|].
  destruct (b_schedule_picks U64MAX picks s) as [s1|] eqn:E; [|exact HI].
  destruct (_ || _); [|exact HI]. cbn [snd]. eapply schedule_picks_inv; eauto.
Qed.

(* ---------- forward ---------- *)
Lemma forward_inv a q s : Inv s -> Inv (b_forward a q s).
Proof.
  intros HI. unfold b_forward.
  destruct (aget a (senders s)) as [c|] eqn:Hc; [|exact HI].
  destruct (q <=? c) eqn:Hqc; [exact HI|].
  set (s1 := set_senders s (aset a q (senders s))).
  set (P := fun t : tx => tseq t <? q).
  set (s2 := drop P a s1).
  assert (txs s1 = txs s) as Ht1 by reflexivity.
  assert (maxh s1 = maxh s) as Hm1 by reflexivity.
  (* facts about s2 *)
  assert (forall t, In t (txs s2) <-> In t (txs s) /\ ((tsender t =? a) && P t) = false) as Hin2.
  { intros t. unfold s2. rewrite drop_In_txs. rewrite Ht1. reflexivity. }
  assert (forall t, In t (txs s2) -> tsender t = a -> q <= tseq t) as Hlive.
  { intros t Ht Ha. apply Hin2 in Ht as [_ Hg]. unfold P in Hg. rewrite Ha, N.eqb_refl in Hg. cbn in Hg. lia. }
  assert (sched s2 = sched s) as Hs2 by (unfold s2; rewrite drop_sched; reflexivity).
  assert (forall t, In t (txs s2) -> tsender t = a -> aget a (senders s2) = Some q) as Hsa.
  { intros t Ht Ha. unfold s2. rewrite drop_senders_kept.
    - cbn. apply aget_aset_same.
    - apply has_sender_true. exists t. split; [exact Ht|exact Ha]. }
  assert (forall b, b <> a -> aget b (senders s2) = aget b (senders s)) as Hsb.
  { intros b Hb. unfold s2. rewrite drop_senders_other by exact Hb. cbn. apply aget_aset_other. exact Hb. }
  assert (forall t, In t (txs s2) -> nmem (tid t) (maxh s2) = nmem (tid t) (maxh s)) as Hmem2.
  { intros t Ht. apply Hin2 in Ht as [Ht Hg]. unfold s2. rewrite drop_mem_kept; auto. apply HI. }
  assert (forall j, In j (maxh s2) -> exists t, In t (txs s2) /\ tid t = j) as Hsub2.
  { intros j Hj. unfold s2 in Hj. apply drop_maxh_sub in Hj as [Hj1 Hj2]. rewrite Hm1 in Hj1.
    destruct (i_sub s HI j Hj1) as [t [Ht He]]. exists t. split; [|exact He].
    apply Hin2. split; [exact Ht|]. apply Hj2; auto. }
  (* readiness in s2 of transactions of other senders / of sender a *)
  assert (forall t, In t (txs s2) -> tsender t <> a -> is_ready s2 t = is_ready s t) as Hro.
  { intros t Ht Hne. unfold is_ready. rewrite Hs2, (Hsb _ Hne). reflexivity. }
  assert (forall t, In t (txs s2) -> tsender t = a ->
            is_ready s2 t = match aget a (sched s) with
                            | Some last => if last =? U64MAX then false else tseq t =? last + 1
                            | None => tseq t =? q end) as Hra.
  { intros t Ht Ha. unfold is_ready. rewrite Hs2, Ha, (Hsa t Ht Ha). reflexivity. }
  assert (forall t, In t (txs s2) -> tsender t = a ->
            nmem (tid t) (maxh s2) = match aget a (sched s) with
                            | Some last => if last =? U64MAX then false else tseq t =? last + 1
                            | None => false end) as Hma.
  { intros t Ht Ha. rewrite (Hmem2 t Ht). pose proof (Hlive t Ht Ha) as Hl.
    apply Hin2 in Ht as [Ht _]. rewrite (i_mem s HI t Ht). unfold is_ready. rewrite Ha, Hc.
    destruct (aget a (sched s)); [reflexivity|]. lia. }
  (* the common parts of the invariant for any maxh extension *)
  assert (NoDup (map tid (txs s2))) as Hnd2.
  { unfold s2. rewrite drop_txs. apply NoDup_map_filter. apply HI. }
  assert (forall t u, In t (txs s2) -> In u (txs s2) -> tsender t = tsender u -> tseq t = tseq u -> t = u) as Hsl2.
  { intros t u Ht Hu. apply Hin2 in Ht as [Ht _]. apply Hin2 in Hu as [Hu _]. apply (i_slot s HI); auto. }
  assert (forall t, In t (txs s2) -> exists c', aget (tsender t) (senders s2) = Some c' /\ c' <= tseq t) as Hen2.
  { intros t Ht. destruct (N.eq_dec (tsender t) a) as [Ha|Ha].
    - exists q. rewrite Ha. split; [apply (Hsa t Ht Ha)|apply (Hlive t Ht Ha)].
    - rewrite (Hsb _ Ha). apply Hin2 in Ht as [Ht _]. apply (i_entry s HI t Ht). }
  assert (forall t, In t (txs s2) -> tseq t <= U64MAX) as Hbt2.
  { intros t Ht. apply Hin2 in Ht as [Ht _]. apply (i_btx s HI t Ht). }
  assert (forall b x, aget b (sched s2) = Some x -> x <= U64MAX) as Hbs2.
  { intros b x. rewrite Hs2. apply (i_bsched s HI). }
  destruct (head a (txs s2)) as [f|] eqn:Hh.
  - apply head_some in Hh as [Hf [Hfa Hfmin]].
    destruct (negb (nmem (tid f) (maxh s2)) && is_ready s2 f) eqn:Epush.
    + (* push f *)
      apply andb_true_iff in Epush as [Ep1 Ep2]. apply negb_true_iff in Ep1.
      rewrite (Hra f Hf Hfa) in Ep2. rewrite (Hma f Hf Hfa) in Ep1.
      destruct (aget a (sched s)) as [last|] eqn:Esch.
      { rewrite Ep1 in Ep2. discriminate. }
      constructor; cbn [txs senders sched maxh set_maxh]; auto.
      * intros t Ht. rewrite nmem_cons. rewrite (is_ready_ext _ s2) by reflexivity.
        destruct (N.eq_dec (tsender t) a) as [Ha|Ha].
        { rewrite (Hra t Ht Ha), (Hma t Ht Ha), orb_false_r.
          destruct (tid t =? tid f) eqn:E.
          - assert (t = f).
            { assert (find_id (tid f) (txs s2) = Some t) by (apply find_id_unique; auto; lia).
              assert (find_id (tid f) (txs s2) = Some f) by (apply find_id_unique; auto). congruence. }
            subst t. symmetry. exact Ep2.
          - destruct (tseq t =? q) eqn:E2; [|reflexivity]. exfalso.
            assert (t = f) by (apply Hsl2; auto; [congruence|]; pose proof (Hfmin t Ht Ha); pose proof (Hlive f Hf Hfa); lia).
            subst t. lia. }
        { rewrite (Hro t Ht Ha), (Hmem2 t Ht).
          destruct (tid t =? tid f) eqn:E.
          - exfalso. assert (t = f).
            { assert (find_id (tid f) (txs s2) = Some t) by (apply find_id_unique; auto; lia).
              assert (find_id (tid f) (txs s2) = Some f) by (apply find_id_unique; auto). congruence. }
            subst t. contradiction.
          - cbn [orb]. apply Hin2 in Ht as [Ht _]. apply (i_mem s HI t Ht). }
      * intros j [<-|Hj]; [exists f; auto|apply Hsub2; exact Hj].
    + (* no push: membership already right *)
      constructor; auto.
      intros t Ht. destruct (N.eq_dec (tsender t) a) as [Ha|Ha].
      * rewrite (Hra t Ht Ha), (Hma t Ht Ha).
        destruct (aget a (sched s)) as [last|] eqn:Esch; [reflexivity|].
        destruct (tseq t =? q) eqn:E2; [|reflexivity]. exfalso.
        assert (t = f) by (apply Hsl2; auto; [congruence|]; pose proof (Hfmin t Ht Ha); pose proof (Hlive f Hf Hfa); lia).
        subst t. rewrite (Hra f Hf Hfa), (Hma f Hf Hfa), ?Esch, E2 in Epush. discriminate.
      * rewrite (Hro t Ht Ha), (Hmem2 t Ht). apply Hin2 in Ht as [Ht _]. apply (i_mem s HI t Ht).
  - (* no transaction of a is left *)
    pose proof (head_none _ _ Hh) as Hnone.
    constructor; auto.
    intros t Ht. pose proof (Hnone t Ht) as Ha.
    rewrite (Hro t Ht Ha), (Hmem2 t Ht). apply Hin2 in Ht as [Ht _]. apply (i_mem s HI t Ht).
Qed.

Lemma used_inv i s : Inv s -> Inv (b_used i s).
Proof.
  intros HI. unfold b_used. destruct (find_id i (txs s)) as [t|]; [|exact HI].
  destruct (tseq t <? U64MAX); [apply forward_inv|]; apply drop_inv; exact HI.
Qed.

Lemma clear_inv s : Inv s -> Inv (b_clear s).
Proof.
  intros HI. constructor; cbn; try contradiction; try constructor. apply HI.
Qed.

(* ---------- reset ---------- *)
(* keys of an association list produced by aset are unique *)
Fixpoint akeys_nodup (l : list (N * N)) : Prop :=
  match l with
  | [] => True
  | (k, _) :: r => aget k r = None /\ akeys_nodup r
  end.

Lemma aget_adel_none {V} k k' (l : list (N * V)) : aget k l = None -> aget k (adel k' l) = None.
Proof.
  induction l as [|[k2 v] r IH]; cbn [aget adel]; [reflexivity|].
  destruct (k2 =? k) eqn:E; [discriminate|]. intros H.
  destruct (k2 =? k'); [apply IH; exact H|]. cbn [aget]. rewrite E. apply IH. exact H.
Qed.

Lemma akeys_nodup_adel k l : akeys_nodup l -> akeys_nodup (adel k l).
Proof.
  induction l as [|[k2 v] r IH]; cbn [adel akeys_nodup]; [auto|].
  intros [H1 H2]. destruct (k2 =? k); [apply IH; exact H2|].
  cbn [akeys_nodup]. split; [apply aget_adel_none; exact H1|apply IH; exact H2].
Qed.

Lemma akeys_nodup_aset k v l : akeys_nodup l -> akeys_nodup (aset k v l).
Proof.
  intros H. unfold aset. cbn [akeys_nodup]. split; [apply aget_adel_same|apply akeys_nodup_adel; exact H].
Qed.

(* invariant with readiness taken w.r.t. an explicit schedule map [sch]
   (the not-yet-restored suffix of s.scheduled during reset) *)
Record InvS (sch : list (N * N)) (s : st) : Prop := mkInvS {
  j_ids : NoDup (map tid (txs s));
  j_slot : forall t u, In t (txs s) -> In u (txs s) -> tsender t = tsender u -> tseq t = tseq u -> t = u;
  j_entry : forall t, In t (txs s) -> exists c, aget (tsender t) (senders s) = Some c /\ c <= tseq t;
  j_mem : forall t, In t (txs s) -> nmem (tid t) (maxh s) = rdy sch (senders s) (tsender t) (tseq t);
  j_sub : forall j, In j (maxh s) -> exists t, In t (txs s) /\ tid t = j;
  j_btx : forall t, In t (txs s) -> tseq t <= U64MAX;
  j_bsched : forall a q, aget a sch = Some q -> q <= U64MAX
}.

Lemma Inv_InvS s : Inv s -> InvS (sched s) s.
Proof. intros [H1 H2 H3 H4 H5 H6 H7]. constructor; auto. Qed.

Lemma InvS_id_eq sch s t u : InvS sch s -> In t (txs s) -> In u (txs s) -> tid t = tid u -> t = u.
Proof.
  intros HI Ht Hu He.
  assert (find_id (tid u) (txs s) = Some t) by (apply find_id_unique; [apply HI|exact Ht|exact He]).
  assert (find_id (tid u) (txs s) = Some u) by (apply find_id_unique; [apply HI|exact Hu|reflexivity]).
  congruence.
Qed.

Lemma restore_fields a q s :
  txs (b_restore a q s) = txs s /\ senders (b_restore a q s) = senders s /\
  sched (b_restore a q s) = sched s /\ cap (b_restore a q s) = cap s.
Proof.
  unfold b_restore. destruct (aget a (senders s)); [|auto].
  destruct (head a (txs s)); [|auto]. destruct (_ && _); [auto|].
  destruct (if q <? U64MAX then _ else _); destruct (if tseq t =? n then _ else _); auto.
Qed.

Lemma restore_invS a q rest s :
  InvS ((a, q) :: rest) s -> aget a rest = None -> InvS rest (b_restore a q s).
Proof.
  intros HI Hn.
  destruct (restore_fields a q s) as [Ft [Fs [_ _]]].
  assert (forall b x, aget b rest = Some x -> x <= U64MAX) as Hbs.
  { intros b x Hb. apply (j_bsched _ _ HI b). cbn [aget]. destruct (a =? b) eqn:E; [|exact Hb].
    apply N.eqb_eq in E. subst b. congruence. }
  assert (q <= U64MAX) as Hq.
  { apply (j_bsched _ _ HI a). cbn [aget]. rewrite N.eqb_refl. reflexivity. }
  (* readiness: other senders unchanged, sender a switches from "successor of q" to "current seq" *)
  assert (forall t, tsender t <> a ->
            rdy ((a, q) :: rest) (senders s) (tsender t) (tseq t) = rdy rest (senders s) (tsender t) (tseq t)) as Hother.
  { intros t Hne. unfold rdy. cbn [aget]. destruct (a =? tsender t) eqn:E; [lia|reflexivity]. }
  assert (forall t, tsender t = a ->
            rdy ((a, q) :: rest) (senders s) (tsender t) (tseq t) =
            if q =? U64MAX then false else tseq t =? q + 1) as Hold.
  { intros t He. unfold rdy. cbn [aget]. rewrite He, N.eqb_refl. reflexivity. }
  assert (forall t c, tsender t = a -> aget a (senders s) = Some c ->
            rdy rest (senders s) (tsender t) (tseq t) = (tseq t =? c)) as Hnew.
  { intros t c He Hc. unfold rdy. rewrite He, Hn, Hc. reflexivity. }
  (* generic closing argument: a new maxh that agrees on membership *)
  assert (forall mh,
            (forall t, In t (txs s) -> nmem (tid t) mh = rdy rest (senders s) (tsender t) (tseq t)) ->
            (forall j, In j mh -> exists t, In t (txs s) /\ tid t = j) ->
            InvS rest (set_maxh s mh)) as Hclose.
  { intros mh H1 H2. constructor; cbn [txs senders sched maxh set_maxh]; auto; apply HI. }
  assert (forall t, In t (txs s) -> tsender t <> a ->
            nmem (tid t) (maxh s) = rdy rest (senders s) (tsender t) (tseq t)) as Hkeep.
  { intros t Ht Hne. rewrite (j_mem _ _ HI t Ht). apply Hother. exact Hne. }
  assert (InvS rest s -> InvS rest (b_restore a q s) \/ True) as _ by auto.
  unfold b_restore.
  destruct (aget a (senders s)) as [c|] eqn:Hc.
  2:{ (* no entry: no transaction of a *)
    constructor; try apply HI; auto.
    intros t Ht. destruct (N.eq_dec (tsender t) a) as [He|He]; [|apply Hkeep; auto].
    destruct (j_entry _ _ HI t Ht) as [c' [H1 _]]. rewrite He in H1. congruence. }
  destruct (head a (txs s)) as [h|] eqn:Hh.
  2:{ pose proof (head_none _ _ Hh) as Hnone.
    constructor; try apply HI; auto. }
  apply head_some in Hh as [Hhin [Hha Hhmin]].
  assert (forall t, In t (txs s) -> tsender t = a -> c <= tseq t) as Hcle.
  { intros t Ht He. destruct (j_entry _ _ HI t Ht) as [c' [H1 H2]]. rewrite He in H1. congruence. }
  destruct ((q <? U64MAX) && (c =? q + 1)) eqn:Eret.
  { (* sender already forwarded to q+1: nothing to do *)
    apply andb_true_iff in Eret as [E1 E2].
    constructor; try apply HI; auto.
    intros t Ht. destruct (N.eq_dec (tsender t) a) as [He|He]; [|apply Hkeep; auto].
    rewrite (j_mem _ _ HI t Ht), (Hold t He), (Hnew t c He eq_refl).
    destruct (q =? U64MAX) eqn:E3; [lia|]. destruct (tseq t =? q + 1) eqn:E4, (tseq t =? c) eqn:E5; try reflexivity; lia. }
  (* characterise [first] and [current] *)
  assert (forall t, In t (txs s) -> tsender t = a -> tseq t = c -> t = h /\ tseq h = c) as Hfirst.
  { intros t Ht He Hs. pose proof (Hhmin t Ht He). pose proof (Hcle h Hhin Hha).
    assert (tseq h = c) by lia. split; [|assumption]. apply (j_slot _ _ HI); auto; congruence. }
  assert (forall t, In t (txs s) -> tsender t = a ->
            nmem (tid t) (maxh s) = if q =? U64MAX then false else tseq t =? q + 1) as Hwas.
  { intros t Ht He. rewrite (j_mem _ _ HI t Ht). apply Hold. exact He. }
  destruct (q <? U64MAX) eqn:Eq.
  - (* q < MAX: current = the transaction at q+1 *)
    assert ((q =? U64MAX) = false) as Eq' by lia.
    assert ((c =? q + 1) = false) as Ec by (cbn in Eret; exact Eret).
    destruct (get_seq a (q + 1) (txs s)) as [cu|] eqn:Hg.
    + apply get_seq_some in Hg as [Hcu [Hcua Hcuq]].
      destruct (tseq h =? c) eqn:Ehc.
      * (* replace current by first *)
        apply Hclose.
        { intros t Ht. rewrite nmem_cons, nmem_nremove.
          destruct (N.eq_dec (tsender t) a) as [He|He].
          - rewrite (Hnew t c He eq_refl), (Hwas t Ht He), Eq'.
            destruct (tid t =? tid h) eqn:E1.
            + assert (t = h) by (apply (InvS_id_eq _ _ _ _ HI); auto; lia). subst t. cbn [orb]. lia.
            + cbn [orb]. destruct (tseq t =? c) eqn:E2.
              { exfalso. destruct (Hfirst t Ht He) as [-> _]; [lia|]. lia. }
              destruct (tseq t =? q + 1) eqn:E3; [|reflexivity].
              assert (t = cu) by (apply (j_slot _ _ HI); auto; lia). subst t.
              rewrite N.eqb_refl. reflexivity.
          - rewrite <- (Hkeep t Ht He).
            destruct (tid t =? tid h) eqn:E1.
            { exfalso. assert (t = h) by (apply (InvS_id_eq _ _ _ _ HI); auto; lia). subst t. contradiction. }
            destruct (tid t =? tid cu) eqn:E2.
            { exfalso. assert (t = cu) by (apply (InvS_id_eq _ _ _ _ HI); auto; lia). subst t. contradiction. }
            cbn [orb negb]. rewrite andb_true_r. reflexivity. }
        { intros j [<-|Hj]; [exists h; auto|]. apply In_nremove in Hj as [Hj _]. apply (j_sub _ _ HI j Hj). }
      * (* remove current *)
        apply Hclose.
        { intros t Ht. rewrite nmem_nremove.
          destruct (N.eq_dec (tsender t) a) as [He|He].
          - rewrite (Hnew t c He eq_refl), (Hwas t Ht He), Eq'.
            destruct (tseq t =? c) eqn:E2.
            { exfalso. destruct (Hfirst t Ht He) as [_ Hx]; lia. }
            destruct (tseq t =? q + 1) eqn:E3; [|reflexivity].
            assert (t = cu) by (apply (j_slot _ _ HI); auto; lia). subst t.
            rewrite N.eqb_refl. reflexivity.
          - rewrite <- (Hkeep t Ht He).
            destruct (tid t =? tid cu) eqn:E2.
            { exfalso. assert (t = cu) by (apply (InvS_id_eq _ _ _ _ HI); auto; lia). subst t. contradiction. }
            cbn [negb]. rewrite andb_true_r. reflexivity. }
        { intros j Hj. apply In_nremove in Hj as [Hj _]. apply (j_sub _ _ HI j Hj). }
    + destruct (tseq h =? c) eqn:Ehc.
      * (* push first *)
        apply Hclose.
        { intros t Ht. rewrite nmem_cons.
          destruct (N.eq_dec (tsender t) a) as [He|He].
          - rewrite (Hnew t c He eq_refl), (Hwas t Ht He), Eq'.
            assert ((tseq t =? q + 1) = false) as E3.
            { destruct (tseq t =? q + 1) eqn:E3; [|reflexivity]. exfalso. eapply get_seq_none; eauto. lia. }
            rewrite E3, orb_false_r.
            destruct (tid t =? tid h) eqn:E1.
            + assert (t = h) by (apply (InvS_id_eq _ _ _ _ HI); auto; lia). subst t. lia.
            + destruct (tseq t =? c) eqn:E2; [|reflexivity].
              exfalso. destruct (Hfirst t Ht He) as [-> _]; [lia|]. lia.
          - rewrite <- (Hkeep t Ht He).
            destruct (tid t =? tid h) eqn:E1; [|reflexivity].
            exfalso. assert (t = h) by (apply (InvS_id_eq _ _ _ _ HI); auto; lia). subst t. contradiction. }
        { intros j [<-|Hj]; [exists h; auto|]. apply (j_sub _ _ HI j Hj). }
      * (* nothing *)
        constructor; try apply HI; auto.
        intros t Ht. destruct (N.eq_dec (tsender t) a) as [He|He]; [|apply Hkeep; auto].
        rewrite (Hnew t c He eq_refl), (Hwas t Ht He), Eq'.
        assert ((tseq t =? q + 1) = false) as E3.
        { destruct (tseq t =? q + 1) eqn:E3; [|reflexivity]. exfalso. eapply get_seq_none; eauto. lia. }
        rewrite E3. destruct (tseq t =? c) eqn:E2; [|reflexivity].
        exfalso. destruct (Hfirst t Ht He) as [_ Hx]; lia.
  - (* q = MAX: no current *)
    assert ((q =? U64MAX) = true) as Eq' by lia.
    destruct (tseq h =? c) eqn:Ehc.
    + apply Hclose.
      { intros t Ht. rewrite nmem_cons.
        destruct (N.eq_dec (tsender t) a) as [He|He].
        - rewrite (Hnew t c He eq_refl), (Hwas t Ht He), Eq', orb_false_r.
          destruct (tid t =? tid h) eqn:E1.
          + assert (t = h) by (apply (InvS_id_eq _ _ _ _ HI); auto; lia). subst t. lia.
          + destruct (tseq t =? c) eqn:E2; [|reflexivity].
            exfalso. destruct (Hfirst t Ht He) as [-> _]; [lia|]. lia.
        - rewrite <- (Hkeep t Ht He).
          destruct (tid t =? tid h) eqn:E1; [|reflexivity].
          exfalso. assert (t = h) by (apply (InvS_id_eq _ _ _ _ HI); auto; lia). subst t. contradiction. }
      { intros j [<-|Hj]; [exists h; auto|]. apply (j_sub _ _ HI j Hj). }
    + constructor; try apply HI; auto.
      intros t Ht. destruct (N.eq_dec (tsender t) a) as [He|He]; [|apply Hkeep; auto].
      rewrite (Hnew t c He eq_refl), (Hwas t Ht He), Eq'.
      destruct (tseq t =? c) eqn:E2; [|reflexivity].
      exfalso. destruct (Hfirst t Ht He) as [_ Hx]; lia.
Qed.

Lemma restore_fold l : forall s,
  akeys_nodup l -> InvS l s ->
  InvS [] (fold_left (fun acc e => b_restore (fst e) (snd e) acc) l s).
Proof.
  induction l as [|[a q] rest IH]; cbn [fold_left fst snd akeys_nodup]; intros s Hk HI; [exact HI|].
  destruct Hk as [Hk1 Hk2]. apply IH; [exact Hk2|]. apply restore_invS; assumption.
Qed.

Lemma reset_inv s : akeys_nodup (sched s) -> Inv s -> Inv (b_reset s).
Proof.
  intros Hk HI. pose proof (restore_fold (sched s) s Hk (Inv_InvS s HI)) as HJ.
  unfold b_reset. destruct HJ as [H1 H2 H3 H4 H5 H6 H7].
  constructor; cbn [txs senders sched maxh set_sched]; auto; cbn; discriminate.
Qed.

(* ---------- the schedule map has unique keys ---------- *)
Definition SK (s : st) : Prop := akeys_nodup (sched s).

Lemma schedule_picks_sk picks : forall s s1,
  SK s -> b_schedule_picks U64MAX picks s = Some s1 -> SK s1.
Proof.
  induction picks as [|i r IH]; cbn [b_schedule_picks]; intros s s1 HK H.
  - injection H as <-. exact HK.
  - destruct (b_schedule_one U64MAX i s) as [s2|] eqn:E; [|discriminate].
    eapply IH; [|exact H]. unfold b_schedule_one in E.
    destruct (negb _); [discriminate|]. destruct (find_id i (txs s)); [|discriminate].
    destruct (negb _); [discriminate|]. injection E as <-.
    unfold SK. cbn [sched set_sched]. apply akeys_nodup_aset. exact HK.
Qed.

Lemma forward_sched a q s : sched (b_forward a q s) = sched s.
Proof.
  unfold b_forward. destruct (aget a (senders s)); [|reflexivity]. destruct (q <=? n); [reflexivity|].
  destruct (head a _) as [f|]; [destruct (negb _ && _)|]; cbn [sched set_maxh]; rewrite drop_sched; reflexivity.
Qed.

Lemma step_sk s o : SK s -> SK (snd (b_step U64MAX s o)).
Proof.
  intros HK. destruct o as [t q e|lim picks| |i|a q|]; cbn [b_step snd].
  - unfold b_add. destruct (find_id (tid t) (txs s)); [exact HK|].
    destruct (aget (tsender t) (senders s)).
    + destruct (_ <? _); [exact HK|]. destruct (get_seq _ _ _).
      * destruct (_ <=? _); [exact HK|]. unfold b_replace. destruct (nmem _ _); exact HK.
      * unfold b_insert. destruct (is_ready s t); cbn [txs set_txs set_maxh cap].
        all: destruct (_ <=? _); [exact HK|]; destruct (find_id e _); [|exact HK];
          destruct (forallb _ _); [|exact HK]; unfold SK, b_remove; cbn [snd]; rewrite drop_sched; exact HK.
    + destruct (_ <? _); [exact HK|]. cbn [txs set_senders]. destruct (get_seq _ _ _).
      * destruct (_ <=? _); [exact HK|]. unfold b_replace. destruct (nmem _ _); exact HK.
      * unfold b_insert. destruct (is_ready _ t); cbn [txs set_txs set_maxh set_senders cap].
        all: destruct (_ <=? _); [exact HK|]; destruct (find_id e _); [|exact HK];
          destruct (forallb _ _); [|exact HK]; unfold SK, b_remove; cbn [snd]; rewrite drop_sched; exact HK.
  - unfold b_schedule. destruct (_ <? _); [exact HK|].
    destruct (b_schedule_picks U64MAX picks s) eqn:E; [|exact HK].
    destruct (_ || _); [|exact HK]. cbn [snd]. eapply schedule_picks_sk; eauto.
  - unfold SK, b_reset. cbn. exact I.
  - unfold b_used. destruct (find_id i (txs s)); [|exact HK].
    unfold SK. destruct (_ <? _); [rewrite forward_sched|]; unfold b_remove; rewrite drop_sched; exact HK.
  - unfold SK. rewrite forward_sched. exact HK.
  - exact HK.
Qed.

(* ---------- every reachable state satisfies the invariant ---------- *)
Lemma step_inv s o : op_ok o -> SK s -> Inv s -> Inv (snd (b_step U64MAX s o)).
Proof.
  intros Hok HK HI. destruct o as [t q e|lim picks| |i|a q|]; cbn [b_step snd].
  - apply add_inv; assumption.
  - apply schedule_inv; assumption.
  - apply reset_inv; assumption.
  - apply used_inv; assumption.
  - apply forward_inv; assumption.
  - apply clear_inv; assumption.
Qed.

Lemma run_inv ops : forall s,
  Forall op_ok ops -> SK s -> Inv s ->
  SK (run (b_step U64MAX) s ops) /\ Inv (run (b_step U64MAX) s ops).
Proof.
  unfold run. induction ops as [|o r IH]; cbn [fold_left]; intros s Hok HK HI; [auto|].
  inversion Hok as [|x xs Ho Hr]; subst.
  apply IH; [exact Hr|apply step_sk; exact HK|apply step_inv; assumption].
Qed.
