(* The bookkeeping layer (with the corrected stop constant) produces exactly
   the observations of the reference layer. *)
From Verif Require Import Lib.Base Txpool.Model Txpool.Inv.
From Coq Require Import ZifyBool ZifyNat ZifyN.

(* two states that agree on everything but the max heap *)
Definition eqv (s s' : st) : Prop := erase s = erase s'.

Lemma eqv_mk c t sn sc m m' : eqv (mkSt c t sn sc m) (mkSt c t sn sc m').
Proof. reflexivity. Qed.

Lemma eqv_inv s s' : eqv s s' -> exists c t sn sc m m', s = mkSt c t sn sc m /\ s' = mkSt c t sn sc m'.
Proof.
  destruct s as [c t sn sc m], s' as [c' t' sn' sc' m']. unfold eqv, erase, set_maxh. cbn.
  intros H. injection H as -> -> -> ->. repeat eexists.
Qed.

Lemma eqv_erase s : eqv s (erase s).
Proof. reflexivity. Qed.

Lemma eqv_refl s : eqv s s. Proof. reflexivity. Qed.
Lemma eqv_sym s s' : eqv s s' -> eqv s' s. Proof. unfold eqv. auto. Qed.
Lemma eqv_trans a b c : eqv a b -> eqv b c -> eqv a c. Proof. unfold eqv. congruence. Qed.

Ltac split_eqv H :=
  apply eqv_inv in H; destruct H as (?c & ?t & ?sn & ?sc & ?m & ?m' & -> & ->).

Lemma drop_cong P a s s' : eqv s s' -> eqv (drop P a s) (drop P a s').
Proof.
  intros H. split_eqv H. unfold drop. cbn [txs set_txs set_maxh set_senders senders].
  destruct (has_sender a t && _); reflexivity.
Qed.

Lemma is_ready_cong s s' u : eqv s s' -> is_ready s u = is_ready s' u.
Proof. intros H. split_eqv H. reflexivity. Qed.

Lemma insert_cong u s s' : eqv s s' -> eqv (b_insert u s) (b_insert u s').
Proof.
  intros H. unfold b_insert. rewrite (is_ready_cong s s' u H). split_eqv H.
  destruct (is_ready _ u); reflexivity.
Qed.

Lemma insert_fields t s : txs (b_insert t s) = t :: txs s /\ cap (b_insert t s) = cap s.
Proof. unfold b_insert. destruct (is_ready s t); auto. Qed.

Lemma replace_cong u o s s' : eqv s s' -> eqv (b_replace u o s) (b_replace u o s').
Proof.
  intros H. split_eqv H. unfold b_replace. cbn [maxh txs set_txs set_maxh].
  destruct (nmem (tid o) m), (nmem (tid o) m'); reflexivity.
Qed.

Lemma eqv_txs s s' : eqv s s' -> txs s = txs s'.
Proof. intros H. split_eqv H. reflexivity. Qed.
Lemma eqv_cap s s' : eqv s s' -> cap s = cap s'.
Proof. intros H. split_eqv H. reflexivity. Qed.
Lemma eqv_senders s s' : eqv s s' -> senders s = senders s'.
Proof. intros H. split_eqv H. reflexivity. Qed.
Lemma eqv_sched s s' : eqv s s' -> sched s = sched s'.
Proof. intros H. split_eqv H. reflexivity. Qed.

Lemma set_senders_cong s s' l : eqv s s' -> eqv (set_senders s l) (set_senders s' l).
Proof. intros H. split_eqv H. reflexivity. Qed.

Lemma add_cong u q e s s' : eqv s s' ->
  fst (b_add u q e s) = fst (b_add u q e s') /\ eqv (snd (b_add u q e s)) (snd (b_add u q e s')).
Proof.
  intros H. unfold b_add.
  rewrite <- (eqv_txs _ _ H), <- (eqv_senders _ _ H).
  destruct (find_id (tid u) (txs s)); [auto|].
  destruct (aget (tsender u) (senders s)) as [c|].
  - destruct (tseq u <? c); [auto|].
    rewrite <- (eqv_txs _ _ H).
    destruct (get_seq (tsender u) (tseq u) (txs s)) as [old|].
    + destruct (tprio u <=? tprio old); [auto|]. cbn [fst snd]. split; [reflexivity|].
      apply replace_cong. exact H.
    + pose proof (insert_cong u s s' H) as Hi.
      rewrite <- (eqv_txs _ _ Hi), <- (eqv_cap _ _ Hi).
      destruct (_ <=? _); [auto|].
      destruct (find_id e (txs (b_insert u s))) as [low|]; [|auto].
      destruct (forallb _ _); [|auto]. cbn [fst snd]. split; [reflexivity|].
      unfold b_remove. apply drop_cong. exact Hi.
  - pose proof (set_senders_cong s s' (aset (tsender u) q (senders s)) H) as H1.
    destruct (tseq u <? q); [auto|].
    rewrite <- (eqv_txs _ _ H1).
    destruct (get_seq (tsender u) (tseq u) (txs _)) as [old|].
    + destruct (tprio u <=? tprio old); [auto|]. cbn [fst snd]. split; [reflexivity|].
      apply replace_cong. exact H1.
    + pose proof (insert_cong u _ _ H1) as Hi.
      rewrite <- (eqv_txs _ _ Hi), <- (eqv_cap _ _ Hi).
      destruct (_ <=? _); [auto|].
      destruct (find_id e (txs (b_insert u _))) as [low|]; [|auto].
      destruct (forallb _ _); [|auto]. cbn [fst snd]. split; [reflexivity|].
      unfold b_remove. apply drop_cong. exact Hi.
Qed.

Lemma set_maxh_eqv s l : eqv (set_maxh s l) s.
Proof. destruct s. reflexivity. Qed.

Lemma forward_cong a q s s' : eqv s s' -> eqv (b_forward a q s) (b_forward a q s').
Proof.
  intros H. unfold b_forward. rewrite <- (eqv_senders _ _ H).
  destruct (aget a (senders s)) as [c|]; [|exact H].
  destruct (q <=? c); [exact H|].
  pose proof (set_senders_cong s s' (aset a q (senders s)) H) as H1.
  pose proof (drop_cong (fun t => tseq t <? q) a _ _ H1) as H2.
  rewrite <- (eqv_txs _ _ H2).
  destruct (head a (txs _)) as [f|]; [|exact H2].
  destruct (negb _ && _); destruct (negb _ && _);
    repeat first [exact H2
                 | eapply eqv_trans; [apply set_maxh_eqv|]
                 | eapply eqv_trans; [|apply eqv_sym; apply set_maxh_eqv]].
Qed.

Lemma used_cong i s s' : eqv s s' -> eqv (b_used i s) (b_used i s').
Proof.
  intros H. unfold b_used. rewrite <- (eqv_txs _ _ H).
  destruct (find_id i (txs s)) as [t|]; [|exact H].
  unfold b_remove. pose proof (drop_cong (fun u => tid u =? tid t) (tsender t) _ _ H) as H1.
  destruct (tseq t <? U64MAX); [apply forward_cong|]; exact H1.
Qed.

Lemma clear_cong s s' : eqv s s' -> eqv (b_clear s) (b_clear s').
Proof. intros H. split_eqv H. reflexivity. Qed.

(* ---------- reset ---------- *)
Lemma restore_eqv a q s : eqv (b_restore a q s) s.
Proof.
  destruct (restore_fields a q s) as [F1 [F2 [F3 F4]]].
  destruct (b_restore a q s) as [c t sn sc m], s as [c' t' sn' sc' m']. cbn in *. subst. reflexivity.
Qed.

Lemma restore_fold_eqv l : forall s, eqv (fold_left (fun acc e => b_restore (fst e) (snd e) acc) l s) s.
Proof.
  induction l as [|e r IH]; cbn [fold_left]; intros s; [apply eqv_refl|].
  eapply eqv_trans; [apply IH|apply restore_eqv].
Qed.

Lemma set_sched_cong s s' l : eqv s s' -> eqv (set_sched s l) (set_sched s' l).
Proof. intros H. split_eqv H. reflexivity. Qed.

Lemma reset_cong s s' : eqv s s' -> eqv (b_reset s) (set_sched s' []).
Proof.
  intros H. unfold b_reset. apply set_sched_cong.
  eapply eqv_trans; [apply restore_fold_eqv|exact H].
Qed.

(* ---------- schedule ---------- *)
Lemma ready_cong s s' : eqv s s' -> ready s = ready s'.
Proof. intros H. split_eqv H. reflexivity. Qed.

Lemma heap_txs_ready s : Inv s -> filter (fun u => nmem (tid u) (maxh s)) (txs s) = ready s.
Proof. intros HI. unfold ready. apply filter_ext_in. intros u Hu. apply (i_mem s HI u Hu). Qed.

Lemma b_r_schedule_one i s : Inv s ->
  match b_schedule_one U64MAX i s with
  | Some s1 => exists s1', r_schedule_one i s = Some s1' /\ eqv s1 s1'
  | None => r_schedule_one i s = None
  end.
Proof.
  intros HI. unfold b_schedule_one, r_schedule_one. rewrite (heap_txs_ready s HI).
  destruct (nmem i (maxh s)) eqn:Em; cbn [negb].
  - apply nmem_In in Em. destruct (i_sub s HI i Em) as [t [Ht He]].
    rewrite (find_id_unique i (txs s) t (i_ids s HI) Ht He).
    assert (In t (ready s)) as Hr.
    { unfold ready. apply filter_In. split; [exact Ht|]. rewrite <- (i_mem s HI t Ht). apply nmem_In. congruence. }
    assert (find_id i (ready s) = Some t) as Hf.
    { apply find_id_unique; auto. unfold ready. apply NoDup_map_filter. apply HI. }
    rewrite Hf. unfold max_prio_in.
    destruct (forallb (fun u => tprio u <=? tprio t) (ready s)); cbn [negb]; [|reflexivity].
    eexists. split; [reflexivity|]. destruct s. reflexivity.
  - destruct (find_id i (ready s)) as [t|] eqn:Hf; [|reflexivity]. exfalso.
    apply find_id_some in Hf as [Hin He]. unfold ready in Hin. apply filter_In in Hin as [Ht Hr].
    rewrite <- (i_mem s HI t Ht), He, Em in Hr. discriminate.
Qed.

Lemma r_schedule_one_cong i s s' : eqv s s' ->
  match r_schedule_one i s, r_schedule_one i s' with
  | Some a, Some b => eqv a b
  | None, None => True
  | _, _ => False
  end.
Proof.
  intros H. unfold r_schedule_one. rewrite <- (ready_cong s s' H), <- (eqv_sched s s' H).
  destruct (find_id i (ready s)) as [t|]; [|exact I].
  destruct (negb _); [exact I|]. apply set_sched_cong. exact H.
Qed.

Lemma b_r_schedule_picks picks : forall s s', Inv s -> eqv s s' ->
  match b_schedule_picks U64MAX picks s with
  | Some s1 => exists s1', r_schedule_picks picks s' = Some s1' /\ eqv s1 s1' /\ Inv s1
  | None => r_schedule_picks picks s' = None
  end.
Proof.
  induction picks as [|i r IH]; cbn [b_schedule_picks r_schedule_picks]; intros s s' HI He.
  - exists s'. auto.
  - pose proof (b_r_schedule_one i s HI) as H1. pose proof (r_schedule_one_cong i s s' He) as H2.
    destruct (b_schedule_one U64MAX i s) as [s1|] eqn:Eb.
    + destruct H1 as [s1' [Hr Hq]]. rewrite Hr in H2.
      destruct (r_schedule_one i s') as [s1''|]; [|contradiction].
      apply IH; [eapply schedule_one_inv; eauto|eapply eqv_trans; eauto].
    + rewrite H1 in H2. destruct (r_schedule_one i s'); [contradiction|reflexivity].
Qed.

Lemma maxh_nil_ready s : Inv s ->
  (match maxh s with [] => true | _ => false end) = (match ready s with [] => true | _ => false end).
Proof.
  intros HI. pose proof (inv_maxh_ready s HI) as H.
  destruct (maxh s) as [|j m], (ready s) as [|t r]; try reflexivity; exfalso.
  - destruct (H (tid t)) as [_ H2]. apply H2. left. reflexivity.
  - destruct (H j) as [H1 _]. apply H1. left. reflexivity.
Qed.

Lemma schedule_refines lim picks s s' : Inv s -> eqv s s' ->
  fst (b_schedule U64MAX lim picks s) = fst (r_schedule lim picks s') /\
  eqv (snd (b_schedule U64MAX lim picks s)) (snd (r_schedule lim picks s')).
Proof.
  intros HI He. unfold b_schedule, r_schedule.
  destruct (_ <? _); [auto|].
  pose proof (b_r_schedule_picks picks s s' HI He) as H.
  destruct (b_schedule_picks U64MAX picks s) as [s1|].
  - destruct H as [s1' [Hr [Hq HI1]]]. rewrite Hr.
    rewrite (maxh_nil_ready s1 HI1), (ready_cong s1 s1' Hq).
    destruct (_ || _); auto.
  - rewrite H. auto.
Qed.

(* ---------- one step, whole runs ---------- *)
Lemma step_refines s s' o : Inv s -> eqv s s' ->
  fst (b_step U64MAX s o) = fst (r_step s' o) /\ eqv (snd (b_step U64MAX s o)) (snd (r_step s' o)).
Proof.
  intros HI He. destruct o as [t q e|lim picks| |i|a q|]; cbn [b_step r_step].
  - destruct (add_cong t q e s s' He) as [H1 H2].
    destruct (b_add t q e s') as [c1 s1] eqn:E1. cbn [fst snd] in *. split; [exact H1|].
    eapply eqv_trans; [exact H2|apply eqv_erase].
  - apply schedule_refines; assumption.
  - cbn [fst snd]. split; [reflexivity|apply reset_cong; exact He].
  - cbn [fst snd]. split; [reflexivity|]. eapply eqv_trans; [apply used_cong; exact He|apply eqv_erase].
  - cbn [fst snd]. split; [reflexivity|]. eapply eqv_trans; [apply forward_cong; exact He|apply eqv_erase].
  - cbn [fst snd]. split; [reflexivity|]. eapply eqv_trans; [apply clear_cong; exact He|apply eqv_erase].
Qed.

Lemma observe_cong c s s' : eqv s s' -> observe c s = observe c s'.
Proof. intros H. unfold observe. rewrite (eqv_txs s s' H). reflexivity. Qed.

Lemma run_obs_refines ops : forall s s',
  Forall op_ok ops -> SK s -> Inv s -> eqv s s' ->
  run_obs (b_step U64MAX) s ops = run_obs r_step s' ops.
Proof.
  induction ops as [|o r IH]; cbn [run_obs]; intros s s' Hok HK HI He; [reflexivity|].
  inversion Hok as [|x xs Ho Hr]; subst.
  destruct (step_refines s s' o HI He) as [H1 H2].
  pose proof (step_sk s o HK) as HK1. pose proof (step_inv s o Ho HK HI) as HI1.
  destruct (b_step U64MAX s o) as [c1 s1]. destruct (r_step s' o) as [c2 s2]. cbn [fst snd] in *.
  subst c2. rewrite (observe_cong c1 s1 s2 H2). f_equal. apply IH; assumption.
Qed.
