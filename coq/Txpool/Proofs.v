(* Final statements for C20, assembled from Inv.v / Refine.v / RefProps.v and
   tied to the constants regenerated from the source (Gen/TxpoolConsts.v). *)
From Verif Require Import Lib.Base Txpool.Model Txpool.Inv Txpool.Refine Txpool.RefProps Gen.TxpoolConsts.

Lemma gen_other_guards_expected :
  other_guards = [U64MAX; U64MAX; U64MAX; U64MAX] /\ max_batch_size = MAXBATCH.
Proof. split; reflexivity. Qed.

Lemma gen_stop_is_maxuint64 : next_sched_stop = U64MAX.
Proof. reflexivity. Qed.

Lemma sk_init c : SK (init c).
Proof. exact I. Qed.

Lemma book_refines_ref_l c ops :
  Forall op_ok ops ->
  run_obs (b_step next_sched_stop) (init c) ops = run_obs r_step (init c) ops.
Proof.
  intros Hok. rewrite gen_stop_is_maxuint64.
  apply run_obs_refines; [exact Hok|apply sk_init|apply inv_init|apply eqv_refl].
Qed.

Lemma maxheap_is_ready_set_l c ops :
  Forall op_ok ops ->
  let s := run (b_step next_sched_stop) (init c) ops in
  forall j, In j (maxh s) <-> In j (map tid (ready s)).
Proof.
  intros Hok s. apply inv_maxh_ready. unfold s. rewrite gen_stop_is_maxuint64.
  apply run_inv; [exact Hok|apply sk_init|apply inv_init].
Qed.

Lemma reachable_inv c ops :
  Forall op_ok ops -> Inv (run (b_step next_sched_stop) (init c) ops).
Proof.
  intros Hok. rewrite gen_stop_is_maxuint64. apply run_inv; [exact Hok|apply sk_init|apply inv_init].
Qed.

Lemma capacity_respected_l STOP c ops : within_cap (run (b_step STOP) (init c) ops).
Proof. apply run_within_cap. unfold within_cap. cbn. lia. Qed.

Lemma leaver_rule_l c ops t q e u :
  Forall op_ok ops ->
  let s := run (b_step next_sched_stop) (init c) ops in
  In u (txs s) -> ~ In u (txs (snd (b_add t q e s))) ->
  (tsender u = tsender t /\ tseq u = tseq t /\ tprio u < tprio t)
  \/ (tprio u <= tprio t /\ forall w, In w (txs s) -> tprio u <= tprio w).
Proof. intros Hok s. apply add_leaver_rule. apply reachable_inv. exact Hok. Qed.

Lemma replace_only_higher_l c ops t q e old :
  Forall op_ok ops ->
  let s := run (b_step next_sched_stop) (init c) ops in
  find_id (tid t) (txs s) = None -> In old (txs s) ->
  tsender old = tsender t -> tseq old = tseq t ->
  (tprio t <= tprio old -> b_add t q e s = (CReplUnderpriced, s)) /\
  (tprio old < tprio t -> fst (b_add t q e s) = COk /\
       forall u, In u (txs (snd (b_add t q e s))) <-> u = t \/ (In u (txs s) /\ u <> old)).
Proof. intros Hok s. apply replace_only_higher. apply reachable_inv. exact Hok. Qed.

(* the literal the code used before the repair (math.MaxInt64) does NOT refine the reference *)
Definition witness_ops : list op :=
  [OAdd (mkTx 1 1 9223372036854775807 1) 9223372036854775807 0;
   OAdd (mkTx 2 1 9223372036854775808 1) 9223372036854775807 0;
   OReset; OSchedule 5 [1]].

Lemma book_refines_ref_refuted_for_maxint64 :
  exists c ops, Forall op_ok ops /\
    run_obs (b_step 9223372036854775807) (init c) ops <> run_obs r_step (init c) ops.
Proof.
  exists 4, witness_ops. split.
  - repeat constructor; cbn; unfold U64MAX; lia.
  - vm_compute. discriminate.
Qed.

(* non-vacuity: a concrete non-trivial history meets the hypotheses and exercises
   replacement, capacity eviction, a two-transaction pass, used and forward *)
Definition example_ops : list op :=
  [OAdd (mkTx 1 1 5 1) 5 0; OAdd (mkTx 2 1 6 2) 5 0; OAdd (mkTx 3 2 0 3) 0 0;
   OAdd (mkTx 4 1 6 3) 5 0;                 (* replaces id 2 *)
   OAdd (mkTx 5 2 1 0) 0 5;                 (* capacity 3: evicts itself (lowest) *)
   OReset; OSchedule 2 [3; 1]; OSchedule 5 [4];
   OUsed 1; OForward 2 1; OReset; OSchedule 5 [4]].

Example example_ops_ok : Forall op_ok example_ops.
Proof. repeat constructor; cbn; unfold U64MAX; lia. Qed.

Example example_run :
  run_obs (b_step next_sched_stop) (init 3) example_ops =
  [(COk, [1]); (COk, [1; 2]); (COk, [1; 2; 3]); (COk, [1; 3; 4]); (CUnderpriced, [1; 3; 4]);
   (COk, [1; 3; 4]); (COk, [1; 3; 4]); (COk, [1; 3; 4]); (COk, [3; 4]); (COk, [4]); (COk, [4]); (COk, [4])].
Proof. vm_compute. reflexivity. Qed.
