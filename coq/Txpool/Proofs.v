From Verif Require Import Lib.Base Txpool.Model Gen.TxpoolConsts.

Lemma gen_other_guards_expected :
  other_guards = [U64MAX; U64MAX; U64MAX; U64MAX] /\ max_batch_size = MAXBATCH.
Proof. split; reflexivity. Qed.
